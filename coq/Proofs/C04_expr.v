(* C04 proofs, part 2: the repaired scope walk equals CPython's scoping without a gap hypothesis on class/module chains;
   scoping inside expressions (lambda parameters, comprehension targets, function scopes nested in class bodies);
   binding statements (last binding wins, no bind-once restriction); `global`. *)
From Coq Require Import List ZArith String Ascii Bool Arith Lia.
From Verif Require Import Lib.Sexp Model.C04_scope Proofs.C04_scope Model.C04_expr.
Import ListNotations.
Open Scope string_scope.
Open Scope list_scope.
Open Scope nat_scope.

(* ---------------------------------------------------------------- the walk before the repair is the old model *)
Lemma resolve_v_asis : forall c n, resolve_v false false c n = resolve c n.
Proof.
  induction c as [|f rest IH]; intros n; simpl; [reflexivity|].
  destruct (g_bind f rest n); [reflexivity|].
  destruct (is_module f); [reflexivity|].
  destruct rest as [|g r]; [reflexivity|].
  destruct (String.eqb n (fname g) && negb (is_module g)); [reflexivity|].
  apply IH.
Qed.

Lemma rt_v_asis : forall c n inner, rt_v false inner false c n = resolve_tagged inner c n.
Proof.
  induction c as [|f rest IH]; intros n inner; simpl; [reflexivity|].
  destruct (g_bind f rest n); [reflexivity|].
  destruct (is_module f); [reflexivity|].
  destruct rest as [|g r]; [reflexivity|].
  destruct (String.eqb n (fname g) && negb (is_module g)); [reflexivity|].
  apply IH.
Qed.

Lemma canonical_v_asis : forall c n, canonical_v false c n = canonical c n.
Proof. intros. unfold canonical_v, canonical. now rewrite resolve_v_asis. Qed.

Lemma resolve_v_fst : forall c n sk inner skipping,
  resolve_v sk skipping c n = option_map fst (rt_v sk inner skipping c n).
Proof.
  induction c as [|f rest IH]; intros n sk inner skipping; simpl; [reflexivity|].
  destruct (skipping && is_class f && nonempty rest); [apply IH|].
  destruct (g_bind f rest n); [reflexivity|].
  destruct (is_module f); [reflexivity|].
  destruct (if sk && is_class f then skip_classes rest else rest) as [|g r']; [reflexivity|].
  destruct (String.eqb n (fname g) && negb (is_module g)); [reflexivity|].
  apply IH.
Qed.

(* ---------------------------------------------------------------- skip_classes *)
Lemma skip_classes_idem : forall c, skip_classes (skip_classes c) = skip_classes c.
Proof.
  induction c as [|f [|g r] IH]; try reflexivity.
  change (skip_classes (f :: g :: r)) with (if is_class f then skip_classes (g :: r) else f :: g :: r).
  destruct (is_class f) eqn:E; [exact IH|].
  change (skip_classes (f :: g :: r)) with (if is_class f then skip_classes (g :: r) else f :: g :: r).
  now rewrite E.
Qed.

Lemma skip_classes_cons2 : forall f g r, skip_classes (f :: g :: r) = if is_class f then skip_classes (g :: r) else f :: g :: r.
Proof. reflexivity. Qed.

Lemma wf_skip : forall c, wf_chain c = true -> wf_chain (skip_classes c) = true.
Proof.
  induction c as [|f [|g r] IH]; intros H; try exact H.
  rewrite skip_classes_cons2. destruct (is_class f); [|exact H].
  apply IH. simpl in H. apply andb_true_iff in H as [_ H]. exact H.
Qed.

Lemma skip_nil : forall c, skip_classes c = [] -> c = [].
Proof.
  induction c as [|f [|g r] IH]; intros H; try reflexivity; try discriminate.
  rewrite skip_classes_cons2 in H. destruct (is_class f); [|discriminate].
  specialize (IH H). discriminate.
Qed.

Lemma py_scan_skip : forall c n, py_scan false c n = py_scan false (skip_classes c) n.
Proof.
  induction c as [|f [|g r] IH]; intros n; try reflexivity.
  rewrite skip_classes_cons2. unfold is_class. destruct (fkind f) eqn:K; try reflexivity.
  rewrite <- IH. simpl. now rewrite K.
Qed.

(* ---------------------------------------------------------------- the walk (both forms) against CPython *)
Definition agrees_v (sk inner skipping : bool) (c : chain) (n : string) : Prop :=
  match rt_v sk inner skipping c n with
  | Some (p, TOk) => py_scan inner c n = Some p
  | Some (_, _) => True
  | None => py_scan inner c n = None
  end.

Lemma py_scan_step : forall f rest n inner,
  is_module f = false -> py_bind f rest n = None -> py_scan inner (f :: rest) n = py_scan false rest n.
Proof.
  intros f rest n inner Mf GB. unfold is_module in Mf. simpl. rewrite GB.
  destruct (fkind f); [discriminate | destruct inner; reflexivity | reflexivity].
Qed.

Lemma walk_agrees_v : forall sk c n inner skipping,
  wf_chain c = true -> (skipping = true -> inner = false) -> agrees_v sk inner skipping c n.
Proof.
  intros sk. induction c as [|f rest IH]; intros n inner skipping Hwf Hsi; unfold agrees_v; [reflexivity|].
  pose proof Hwf as Hwf0.
  simpl in Hwf. apply andb_true_iff in Hwf as [Hf Hrest].
  pose proof (g_bind_py_bind f rest n Hf) as GB.
  simpl rt_v.
  destruct (skipping && is_class f && nonempty rest) eqn:SK.
  - (* stepped over by the `while` loop; CPython skips the class body too *)
    apply andb_true_iff in SK as [SK _]. apply andb_true_iff in SK as [S1 Cf].
    rewrite (Hsi S1). specialize (IH n false true Hrest (fun _ => eq_refl)). unfold agrees_v in IH.
    assert (E : py_scan false (f :: rest) n = py_scan false rest n).
    { unfold is_class in Cf. simpl. destruct (fkind f); try discriminate. reflexivity. }
    rewrite E. exact IH.
  - destruct (g_bind f rest n) as [p|] eqn:G.
    + (* answered by f itself *)
      simpl. unfold is_class. destruct (fkind f) eqn:Kf; simpl.
      * now rewrite <- GB.
      * destruct inner; simpl; [now rewrite <- GB | exact I].
      * now rewrite <- GB.
    + symmetry in GB.
      destruct (is_module f) eqn:Mf.
      * unfold is_module in Mf. simpl. destruct (fkind f); try discriminate. exact GB.
      * rewrite (py_scan_step f rest n inner Mf GB).
        destruct (sk && is_class f) eqn:SK'.
        -- (* repaired form, leaving a class body *)
           rewrite (py_scan_skip rest n).
           destruct (skip_classes rest) as [|g r'] eqn:ES.
           ++ apply skip_nil in ES. subst rest. reflexivity.
           ++ destruct (String.eqb n (fname g) && negb (is_module g)) eqn:O.
              ** apply andb_true_iff in O as [On Og]. apply String.eqb_eq in On. apply negb_true_iff in Og.
                 destruct r' as [|h r'']; [exact I|].
                 destruct (is_class h) eqn:Ch; [exact I|].
                 apply own_name_python; auto. rewrite <- ES. now apply wf_skip.
              ** specialize (IH n false true Hrest (fun _ => eq_refl)). unfold agrees_v in IH.
                 rewrite <- ES, <- (py_scan_skip rest n). exact IH.
        -- destruct rest as [|g r]; [reflexivity|].
           destruct (String.eqb n (fname g) && negb (is_module g)) eqn:O.
           ++ apply andb_true_iff in O as [On Og]. apply String.eqb_eq in On. apply negb_true_iff in Og.
              destruct r as [|h r'']; [exact I|].
              destruct (is_class h) eqn:Ch; [exact I|].
              apply own_name_python; auto.
           ++ specialize (IH n false false Hrest (fun H => match Bool.diff_false_true H with end)). exact IH.
Qed.

(* every form of the walk: unless it stops in a class body CPython does not consult, it is CPython's lookup *)
Theorem resolve_v_eq_python_modulo : forall sk c n,
  wf_chain c = true -> gap_class_v sk c n = false ->
  resolve_v sk false c n = py_lookup c n.
Proof.
  intros sk c n Hwf G.
  pose proof (walk_agrees_v sk c n true false Hwf (fun H => match Bool.diff_false_true H with end)) as A.
  unfold agrees_v in A. rewrite (resolve_v_fst c n sk true false). unfold py_lookup, gap_class_v, leaks in *.
  destruct (rt_v sk true false c n) as [[p t]|]; simpl in *.
  - destruct t; try discriminate. now rewrite A.
  - now rewrite A.
Qed.

(* ---------------------------------------------------------------- class / module chains: the repaired walk never leaks *)
Lemma skip_lands_on_module : forall c,
  wf_chain c = true -> no_functions c = true -> c <> [] ->
  exists g r', skip_classes c = g :: r' /\ is_module g = true.
Proof.
  induction c as [|f [|g r] IH]; intros Hwf Hnf Hne; [congruence| |].
  - (* a root frame is a module *)
    exists f, []. split; [reflexivity|]. simpl in Hwf. rewrite andb_true_r in Hwf.
    unfold frame_ok in Hwf. unfold is_module. unfold no_functions in Hnf. simpl in Hnf. unfold is_function in Hnf.
    destruct (fkind f); [reflexivity | discriminate | discriminate].
  - rewrite skip_classes_cons2. destruct (is_class f) eqn:Cf.
    + apply IH; [| | discriminate].
      * simpl in Hwf. apply andb_true_iff in Hwf as [_ H]. exact H.
      * unfold no_functions in *. simpl in Hnf. apply andb_true_iff in Hnf as [_ H]. exact H.
    + exists f, (g :: r). split; [reflexivity|].
      unfold no_functions in Hnf. simpl in Hnf. apply andb_true_iff in Hnf as [Hf _].
      unfold is_class in Cf. unfold is_function in Hf. unfold is_module. destruct (fkind f); [reflexivity | discriminate | discriminate].
Qed.

Lemma no_leak_class_chains : forall c n inner skipping,
  wf_chain c = true -> no_functions c = true ->
  (inner = true \/ skipping = true \/ match c with f :: _ => is_class f = false | [] => True end) ->
  leaks (rt_v true inner skipping c n) = false.
Proof.
  induction c as [|f rest IH]; intros n inner skipping Hwf Hnf HP; [reflexivity|].
  pose proof Hwf as Hwf0. pose proof Hnf as Hnf0.
  simpl in Hwf. apply andb_true_iff in Hwf as [Hf Hrest].
  unfold no_functions in Hnf. simpl in Hnf. apply andb_true_iff in Hnf as [Hff Hnrest]. fold (no_functions rest) in Hnrest.
  simpl rt_v.
  destruct (skipping && is_class f && nonempty rest) eqn:SK.
  - apply IH; auto.
  - destruct (g_bind f rest n) as [p|] eqn:G.
    + simpl. destruct (is_class f) eqn:Cf; [|reflexivity].
      destruct inner; [reflexivity|]. exfalso.
      destruct HP as [HP|[HP|HP]]; [discriminate | | congruence].
      subst skipping. simpl in SK. destruct rest; [|discriminate].
      unfold frame_ok in Hf. unfold is_class in Cf. destruct (fkind f); discriminate.
    + destruct (is_module f) eqn:Mf; [reflexivity|].
      assert (Cf : is_class f = true).
      { unfold is_module in Mf. unfold is_function in Hff. unfold is_class. destruct (fkind f); [discriminate | reflexivity | discriminate]. }
      rewrite Cf. simpl.
      destruct rest as [|g0 r0].
      { reflexivity. }
      destruct (skip_lands_on_module (g0 :: r0) Hrest Hnrest ltac:(discriminate)) as (g & r' & ES & Mg).
      rewrite ES. rewrite Mg. rewrite andb_false_r.
      apply IH; auto.
Qed.

(* The repaired walk on every chain of classes and modules the visitor can build (every stored expression outside an
   __init__ body): exactly CPython's lookup, no gap hypothesis. *)
Theorem resolve_fixed_eq_python : forall c n,
  wf_chain c = true -> no_functions c = true ->
  resolve_v true false c n = py_lookup c n.
Proof.
  intros c n Hwf Hnf. apply resolve_v_eq_python_modulo; [exact Hwf|].
  unfold gap_class_v. apply no_leak_class_chains; auto.
Qed.

Theorem canonical_fixed_eq_python : forall c n,
  wf_chain c = true -> no_functions c = true ->
  canonical_v true c n = py_canonical false c n.
Proof.
  intros c n Hwf Hnf. unfold canonical_v, py_canonical. now rewrite resolve_fixed_eq_python.
Qed.

(* non-vacuity, and the former witness of C04-F1 (nested class) under both forms *)
Example fixed_walk_values :
  wf_chain [w_B; w_A; w_m] = true /\ no_functions [w_B; w_A; w_m] = true
  /\ resolve_v true false [w_B; w_A; w_m] "x" = Some "m.x" /\ py_lookup [w_B; w_A; w_m] "x" = Some "m.x"
  /\ resolve_v false false [w_B; w_A; w_m] "x" = Some "m.A.x"
  /\ resolve_v true false [w_B; w_A; w_m] "y" = Some "m.A.B.y" /\ resolve_v true false [w_B; w_A; w_m] "A" = Some "m.A"
  /\ resolve_v true false [w_B; w_A; w_m] "B" = None /\ py_lookup [w_B; w_A; w_m] "B" = None.
Proof. vm_compute. repeat split. Qed.

(* what is left of C04-F1 after the repair: the body of __init__ still sees the class body (F1b) *)
Lemma init_body_leak_refuted :
  exists c n, wf_chain c = true /\ resolve_v true false c n <> py_lookup c n /\ gap_class_v true c n = true.
Proof. exists [w_init; w_A2; w_m], "x". split; [reflexivity|]. split; [vm_compute; discriminate | reflexivity]. Qed.

(* ---------------------------------------------------------------- one occurrence inside an expression *)
Definition rel (v : variant) (c c' : chain) (nested : bool) : Prop :=
  c' = if nested && v_inner v then skip_classes c else c.

Lemma rel_fscope : forall v c c' nested, rel v c c' nested -> rel v c (fscope v c') true.
Proof.
  intros v c c' nested R. unfold rel, fscope in *. simpl. destruct (v_inner v).
  - subst c'. destruct nested; simpl; [apply skip_classes_idem | reflexivity].
  - rewrite andb_false_r in R. exact R.
Qed.

Lemma occ_agree : forall v c c' nested loc n,
  wf_chain c = true -> rel v c c' nested -> g_gap v c' nested loc n = false ->
  g_canon v c' nested loc n = p_canon c nested loc n.
Proof.
  intros v c c' nested loc n Hwf R G. unfold g_gap, g_canon, p_canon in *.
  destruct (mem n loc) eqn:M.
  - destruct (v_locals v); simpl in *; [reflexivity|].
    unfold canonical_v. destruct (resolve_v (v_skip v) false c' n); [discriminate | reflexivity].
  - rewrite andb_false_r.
    assert (Hwf' : wf_chain c' = true).
    { unfold rel in R. subst c'. destruct (nested && v_inner v); [now apply wf_skip | exact Hwf]. }
    assert (E : py_scan (negb nested) c n = py_scan (negb nested) c' n).
    { unfold rel in R. subst c'. destruct nested; simpl; [|reflexivity]. destruct (v_inner v); [apply py_scan_skip | reflexivity]. }
    rewrite E.
    pose proof (walk_agrees_v (v_skip v) c' n (negb nested) false Hwf' (fun H => match Bool.diff_false_true H with end)) as A.
    unfold agrees_v in A. unfold canonical_v. rewrite (resolve_v_fst c' n (v_skip v) (negb nested) false).
    unfold leaks in G.
    destruct (rt_v (v_skip v) (negb nested) false c' n) as [[p t]|]; simpl in *.
    + destruct t; try discriminate. now rewrite A.
    + now rewrite A.
Qed.

(* ---------------------------------------------------------------- whole expressions *)
Scheme expr_mind := Induction for expr Sort Prop
  with gens_mind := Induction for gens Sort Prop
  with target_mind := Induction for target Sort Prop.
Combined Scheme expr_gens_ind from expr_mind, gens_mind, target_mind.

(* unfolding equations of the two traversals *)
Section Equations.
  Variable A : Type.
  Variable v : variant.
  Variable gl : chain -> bool -> list string -> string -> A.
  Variable collect : target -> list string.
  Variable pl : bool -> list string -> string -> A.
  Lemma g_walk_name : forall c nested loc n, g_walk A v gl collect c nested loc (XName n) = [gl c nested loc n].
  Proof. reflexivity. Qed.
  Lemma g_walk_seq : forall c nested loc a b,
    g_walk A v gl collect c nested loc (XSeq a b) = g_walk A v gl collect c nested loc a ++ g_walk A v gl collect c nested loc b.
  Proof. reflexivity. Qed.
  Lemma g_walk_lambda : forall c nested loc ps d body,
    g_walk A v gl collect c nested loc (XLambda ps d body) = g_walk A v gl collect c nested loc d ++ g_walk A v gl collect (fscope v c) true (ps ++ loc) body.
  Proof. reflexivity. Qed.
  Lemma g_walk_comp : forall c nested loc elt g,
    g_walk A v gl collect c nested loc (XComp elt g) =
    g_walk A v gl collect (fscope v c) true (targets_with collect g ++ loc) elt ++ g_gens A v gl collect c nested loc (fscope v c) (targets_with collect g ++ loc) true g.
  Proof. reflexivity. Qed.
  Lemma g_walk_str : forall c nested loc e, g_walk A v gl collect c nested loc (XStr e) = g_walk A v gl collect c nested loc e.
  Proof. reflexivity. Qed.
  Lemma g_gens_one : forall c nested loc ci inner first ts it cs,
    g_gens A v gl collect c nested loc ci inner first (GOne ts it cs) =
    map (gl ci true inner) (tnames ts) ++ (if first then g_walk A v gl collect c nested loc it else g_walk A v gl collect ci true inner it) ++ g_walk A v gl collect ci true inner cs.
  Proof. reflexivity. Qed.
  Lemma g_gens_cons : forall c nested loc ci inner first ts it cs more,
    g_gens A v gl collect c nested loc ci inner first (GCons ts it cs more) =
    map (gl ci true inner) (tnames ts) ++ (if first then g_walk A v gl collect c nested loc it else g_walk A v gl collect ci true inner it) ++ g_walk A v gl collect ci true inner cs
    ++ g_gens A v gl collect c nested loc ci inner false more.
  Proof. reflexivity. Qed.
  Lemma p_walk_name : forall nested loc n, p_walk A pl nested loc (XName n) = [pl nested loc n].
  Proof. reflexivity. Qed.
  Lemma p_walk_seq : forall nested loc a b, p_walk A pl nested loc (XSeq a b) = p_walk A pl nested loc a ++ p_walk A pl nested loc b.
  Proof. reflexivity. Qed.
  Lemma p_walk_lambda : forall nested loc ps d body,
    p_walk A pl nested loc (XLambda ps d body) = p_walk A pl nested loc d ++ p_walk A pl true (ps ++ loc) body.
  Proof. reflexivity. Qed.
  Lemma p_walk_comp : forall nested loc elt g,
    p_walk A pl nested loc (XComp elt g) =
    p_walk A pl true (gens_targets g ++ loc) elt ++ p_gens A pl nested loc (gens_targets g ++ loc) true g.
  Proof. reflexivity. Qed.
  Lemma p_walk_str : forall nested loc e, p_walk A pl nested loc (XStr e) = p_walk A pl nested loc e.
  Proof. reflexivity. Qed.
  Lemma p_gens_one : forall nested loc inner first ts it cs,
    p_gens A pl nested loc inner first (GOne ts it cs) =
    map (pl true inner) (tnames ts) ++ (if first then p_walk A pl nested loc it else p_walk A pl true inner it) ++ p_walk A pl true inner cs.
  Proof. reflexivity. Qed.
  Lemma p_gens_cons : forall nested loc inner first ts it cs more,
    p_gens A pl nested loc inner first (GCons ts it cs more) =
    map (pl true inner) (tnames ts) ++ (if first then p_walk A pl nested loc it else p_walk A pl true inner it) ++ p_walk A pl true inner cs
    ++ p_gens A pl nested loc inner false more.
  Proof. reflexivity. Qed.
End Equations.

Lemma existsb_app_false : forall (l1 l2 : list bool),
  existsb (fun b => b) (l1 ++ l2) = false -> existsb (fun b => b) l1 = false /\ existsb (fun b => b) l2 = false.
Proof. intros l1 l2 H. rewrite existsb_app in H. now apply orb_false_iff in H. Qed.

Lemma map_occ_agree : forall v c ci inner ts,
  wf_chain c = true -> rel v c ci true ->
  existsb (fun b => b) (map (g_gap v ci true inner) ts) = false ->
  map (g_canon v ci true inner) ts = map (p_canon c true inner) ts.
Proof.
  intros v c ci inner ts Hwf R. induction ts as [|t r IH]; intros H; [reflexivity|].
  simpl in *. apply orb_false_iff in H as [H1 H2].
  rewrite (occ_agree v c ci true inner t Hwf R H1). now rewrite IH.
Qed.

Lemma walk_agree : forall v c, wf_chain c = true ->
  (forall e c' nested loc, rel v c c' nested ->
     existsb (fun b => b) (g_walk bool v (g_gap v) tnames c' nested loc e) = false ->
     g_walk string v (g_canon v) tnames c' nested loc e = p_walk string (p_canon c) nested loc e)
  /\
  (forall g c' nested loc ci inner first, rel v c c' nested -> rel v c ci true ->
     existsb (fun b => b) (g_gens bool v (g_gap v) tnames c' nested loc ci inner first g) = false ->
     g_gens string v (g_canon v) tnames c' nested loc ci inner first g = p_gens string (p_canon c) nested loc inner first g)
  /\ (forall t : target, True).
Proof.
  intros v c Hwf. apply expr_gens_ind; try (intros; exact I).
  - reflexivity.
  - intros n c' nested loc R H. rewrite g_walk_name in *. rewrite p_walk_name. simpl in H. rewrite orb_false_r in H.
    now rewrite (occ_agree v c c' nested loc n Hwf R H).
  - intros a IHa b IHb c' nested loc R H. rewrite g_walk_seq in *. rewrite p_walk_seq. apply existsb_app_false in H as [H1 H2].
    now rewrite (IHa _ _ _ R H1), (IHb _ _ _ R H2).
  - intros ps d IHd body IHb c' nested loc R H. rewrite g_walk_lambda in *. rewrite p_walk_lambda. apply existsb_app_false in H as [H1 H2].
    rewrite (IHd _ _ _ R H1). now rewrite (IHb _ _ _ (rel_fscope _ _ _ _ R) H2).
  - intros elt IHe g IHg c' nested loc R H. rewrite g_walk_comp in *. rewrite p_walk_comp. unfold gens_targets in *. apply existsb_app_false in H as [H1 H2].
    rewrite (IHe _ _ _ (rel_fscope _ _ _ _ R) H1). now rewrite (IHg _ _ _ _ _ _ R (rel_fscope _ _ _ _ R) H2).
  - intros e IH c' nested loc R H. rewrite g_walk_str in *. rewrite p_walk_str. now apply IH.
  - intros t _ it IHi cs IHc c' nested loc ci inner first R Ri H. rewrite g_gens_one in *. rewrite p_gens_one.
    apply existsb_app_false in H as [H1 H2]. apply existsb_app_false in H2 as [H2 H3].
    rewrite (map_occ_agree v c ci inner (tnames t) Hwf Ri H1). rewrite (IHc _ _ _ Ri H3).
    destruct first; [now rewrite (IHi _ _ _ R H2) | now rewrite (IHi _ _ _ Ri H2)].
  - intros t _ it IHi cs IHc more IHm c' nested loc ci inner first R Ri H. rewrite g_gens_cons in *. rewrite p_gens_cons.
    apply existsb_app_false in H as [H1 H2]. apply existsb_app_false in H2 as [H2 H3]. apply existsb_app_false in H3 as [H3 H4].
    rewrite (map_occ_agree v c ci inner (tnames t) Hwf Ri H1). rewrite (IHc _ _ _ Ri H3). rewrite (IHm _ _ _ _ _ _ R Ri H4).
    destruct first; [now rewrite (IHi _ _ _ R H2) | now rewrite (IHi _ _ _ Ri H2)].
Qed.

(* every form of the builders, every expression, every chain the visitor can build: identifier by identifier the stored
   expression canonicalises to what CPython's symbol table binds, unless the decidable gap predicate fires somewhere *)
Theorem expr_eq_python_modulo : forall v c e,
  wf_chain c = true -> e_gap v c e = false -> g_names v c e = p_names c e.
Proof.
  intros v c e Hwf G. unfold g_names, p_names, e_gap in *.
  apply (proj1 (walk_agree v c Hwf)); [reflexivity | exact G].
Qed.

Lemma no_functions_skip : forall c, no_functions c = true -> no_functions (skip_classes c) = true.
Proof.
  induction c as [|a [|b q] IHq]; intros Hq; try exact Hq.
  rewrite skip_classes_cons2. destruct (is_class a); [|exact Hq].
  apply IHq. unfold no_functions in *. simpl in Hq. apply andb_true_iff in Hq as [_ Hq]. exact Hq.
Qed.

(* the gap predicate never fires for the repaired code on class / module chains *)
Lemma walk_no_gap : forall c, wf_chain c = true -> no_functions c = true ->
  (forall e c' nested loc, rel v_fixed c c' nested ->
     existsb (fun b => b) (g_walk bool v_fixed (g_gap v_fixed) tnames c' nested loc e) = false)
  /\
  (forall g c' nested loc ci inner first, rel v_fixed c c' nested -> rel v_fixed c ci true ->
     existsb (fun b => b) (g_gens bool v_fixed (g_gap v_fixed) tnames c' nested loc ci inner first g) = false)
  /\ (forall t : target, True).
Proof.
  intros c Hwf Hnf.
  assert (OCC : forall c' nested loc n, rel v_fixed c c' nested -> g_gap v_fixed c' nested loc n = false).
  { intros c' nested loc n R. unfold g_gap. simpl. destruct (mem n loc); [reflexivity|].
    unfold rel in R. simpl in R. rewrite andb_true_r in R. destruct nested; simpl in *; subst c'.
    - destruct c as [|f0 r0]; [reflexivity|].
      destruct (skip_lands_on_module (f0 :: r0) Hwf Hnf ltac:(discriminate)) as (g & r' & ES & Mg).
      apply no_leak_class_chains.
      + now apply wf_skip.
      + now apply no_functions_skip.
      + right. right. rewrite ES. unfold is_module in Mg. unfold is_class. destruct (fkind g); [reflexivity | discriminate | discriminate].
    - apply no_leak_class_chains; auto. }
  apply expr_gens_ind; try (intros; exact I).
  - reflexivity.
  - intros n c' nested loc R. rewrite g_walk_name. simpl. rewrite orb_false_r. now apply OCC.
  - intros a IHa b IHb c' nested loc R. rewrite g_walk_seq. rewrite existsb_app. now rewrite IHa, IHb.
  - intros ps d IHd body IHb c' nested loc R. rewrite g_walk_lambda. rewrite existsb_app. rewrite IHd by exact R.
    now rewrite IHb by (now apply (rel_fscope v_fixed c c' nested)).
  - intros elt IHe g IHg c' nested loc R. rewrite g_walk_comp. rewrite existsb_app.
    rewrite IHe by (now apply (rel_fscope v_fixed c c' nested)).
    now rewrite IHg by (auto; now apply (rel_fscope v_fixed c c' nested)).
  - intros e IH c' nested loc R. rewrite g_walk_str. now apply IH.
  - intros t _ it IHi cs IHc c' nested loc ci inner first R Ri. rewrite g_gens_one. rewrite !existsb_app.
    rewrite IHc by exact Ri.
    assert (M : existsb (fun b => b) (map (g_gap v_fixed ci true inner) (tnames t)) = false).
    { induction (tnames t) as [|t0 r0 IHt]; [reflexivity|]. simpl. rewrite (OCC ci true inner t0 Ri). exact IHt. }
    rewrite M. destruct first; [now rewrite IHi by exact R | now rewrite IHi by exact Ri].
  - intros t _ it IHi cs IHc more IHm c' nested loc ci inner first R Ri. rewrite g_gens_cons. rewrite !existsb_app.
    rewrite IHc by exact Ri. rewrite IHm by auto.
    assert (M : existsb (fun b => b) (map (g_gap v_fixed ci true inner) (tnames t)) = false).
    { induction (tnames t) as [|t0 r0 IHt]; [reflexivity|]. simpl. rewrite (OCC ci true inner t0 Ri). exact IHt. }
    rewrite M. destruct first; [now rewrite IHi by exact R | now rewrite IHi by exact Ri].
Qed.

(* The repaired builders and walk, every expression, every chain of classes and modules the visitor can build: each
   identifier of the stored expression canonicalises to what CPython binds it to -- no gap hypothesis. *)
Theorem expr_fixed_eq_python : forall c e,
  wf_chain c = true -> no_functions c = true -> g_names v_fixed c e = p_names c e.
Proof.
  intros c e Hwf Hnf. apply expr_eq_python_modulo; [exact Hwf|].
  unfold e_gap. apply (proj1 (walk_no_gap c Hwf Hnf)). reflexivity.
Qed.

(* witnesses: a class body with a lambda, a comprehension and a string annotation *)
Definition x_lam := XLambda ["q"] (XName "x") (XSeq (XName "x") (XName "q")).                      (* lambda q=x: (x, q) *)
Definition x_comp := XComp (XSeq (XName "x") (XName "y")) (GCons (TName "y") (XName "x") XConst (GOne (TName "x") (XName "y") (XName "x"))).
                                                                                                    (* [(x, y) for y in x for x in y if x] *)
Definition x_free := XComp (XName "x") (GOne (TName "k") (XName "x") XConst).                             (* [x for k in x] *)
Definition c_A := [w_A; w_m].

Example expr_values :
  wf_chain c_A = true /\ no_functions c_A = true
  /\ p_names c_A x_lam = ["m.A.x"; "m.x"; "q"] /\ g_names v_fixed c_A x_lam = ["m.A.x"; "m.x"; "q"]
  /\ g_names v_asis c_A x_lam = ["m.A.x"; "m.A.x"; "q"]
  /\ p_names c_A x_comp = ["x"; "y"; "y"; "m.A.x"; "x"; "y"; "x"] /\ g_names v_fixed c_A x_comp = p_names c_A x_comp
  /\ g_names v_asis c_A x_comp = ["m.A.x"; "y"; "y"; "m.A.x"; "m.A.x"; "y"; "m.A.x"]
  /\ p_names c_A x_free = ["m.x"; "k"; "m.A.x"] /\ g_names v_fixed c_A x_free = ["m.x"; "k"; "m.A.x"]
  /\ p_names c_A (XStr (XName "B")) = ["m.A.B"] /\ g_names v_fixed c_A (XStr (XName "B")) = ["m.A.B"].
Proof. vm_compute. repeat split. Qed.

(* each of the three repairs is needed: with exactly one switch off, some expression on a class/module chain disagrees *)
Lemma each_repair_needed :
  (exists c e, wf_chain c = true /\ no_functions c = true /\ g_names (mkV false true true) c e <> p_names c e) /\
  (exists c e, wf_chain c = true /\ no_functions c = true /\ g_names (mkV true false true) c e <> p_names c e) /\
  (exists c e, wf_chain c = true /\ no_functions c = true /\ g_names (mkV true true false) c e <> p_names c e).
Proof.
  split; [|split].
  - exists [w_B; w_A; w_m], (XName "x"). repeat split; try reflexivity. vm_compute. discriminate.
  - exists [w_m], (XLambda ["x"] XConst (XName "x")). repeat split; try reflexivity. vm_compute. discriminate.
  - exists c_A, x_free. repeat split; try reflexivity. vm_compute. discriminate.
Qed.

(* the code as it stands (no switch on): the three gaps, each with a computed witness *)
Lemma asis_inner_scope_refuted :
  exists c e, wf_chain c = true /\ no_functions c = true /\ g_names v_asis c e <> p_names c e /\ e_gap v_asis c e = true.
Proof. exists c_A, x_free. repeat split; try reflexivity. vm_compute. discriminate. Qed.

(* ---------------------------------------------------------------- global declarations *)
Lemma gap_global_up_cons : forall f rest n,
  gap_global_up (f :: rest) n = if is_module f then false else answers f rest n || gap_global_up rest n.
Proof. reflexivity. Qed.

Lemma own_name_off : forall f rest n,
  gap_global_up (f :: rest) n = false -> String.eqb n (fname f) && negb (is_module f) = false.
Proof.
  intros f rest n H. rewrite gap_global_up_cons in H. destruct (is_module f) eqn:Mf; [now rewrite andb_false_r|].
  apply orb_false_iff in H as [H _]. unfold answers in H. apply orb_false_iff in H as [_ H]. rewrite Mf in H. exact H.
Qed.

Lemma skip_head_before_module : forall rest n,
  gap_global_up rest n = false ->
  match skip_classes rest with
  | g :: r' => String.eqb n (fname g) && negb (is_module g) = false
  | [] => True
  end.
Proof.
  induction rest as [|f [|g r] IH]; intros n H; [exact I | |].
  - simpl skip_classes. now apply (own_name_off f []).
  - rewrite skip_classes_cons2. destruct (is_class f) eqn:Cf.
    + apply IH. rewrite gap_global_up_cons in H.
      destruct (is_module f) eqn:Mf; [unfold is_class, is_module in *; destruct (fkind f); discriminate|].
      apply orb_false_iff in H as [_ H]. exact H.
    + now apply (own_name_off f (g :: r)).
Qed.

(* `global n` in the referencing scope: every form of the walk gives the module's binding (or leaves the name unchanged
   when the module has none) unless a scope below the module answers first -- Griffe does not read the declaration *)
Lemma global_decl_up : forall sk c n skipping,
  gap_global_up c n = false -> resolve_v sk skipping c n = py_global c n.
Proof.
  intros sk. induction c as [|f rest IH]; intros n skipping G; [reflexivity|].
  rewrite gap_global_up_cons in G. unfold py_global. simpl nearest_module. simpl resolve_v.
  destruct (is_module f) eqn:Mf.
  - assert (Cf : is_class f = false) by (unfold is_class, is_module in *; destruct (fkind f); congruence).
    rewrite Cf, andb_false_r. simpl.
    rewrite g_bind_nonfunction by (unfold is_module, is_function in *; destruct (fkind f); congruence).
    rewrite py_bind_nonfunction by (unfold is_module, is_function in *; destruct (fkind f); congruence).
    destruct (lookup n (fmembers f)); reflexivity.
  - apply orb_false_iff in G as [Ga Gr]. unfold answers in Ga. apply orb_false_iff in Ga as [Gb _].
    destruct (skipping && is_class f && nonempty rest).
    + specialize (IH n true Gr). unfold py_global in IH. exact IH.
    + destruct (g_bind f rest n); [discriminate|].
      pose proof (skip_head_before_module rest n Gr) as SH.
      destruct (sk && is_class f).
      * destruct (skip_classes rest) as [|g r'] eqn:ES.
        -- apply skip_nil in ES. subst rest. reflexivity.
        -- rewrite SH. specialize (IH n true Gr). unfold py_global in IH. exact IH.
      * destruct rest as [|g r]; [reflexivity|]. rewrite (own_name_off g r n Gr).
        specialize (IH n false Gr). unfold py_global in IH. exact IH.
Qed.

Theorem global_decl_modulo : forall sk c n,
  gap_global c n = false -> resolve_v sk false c n = py_global c n.
Proof.
  intros sk [|f rest] n G; [reflexivity|].
  unfold gap_global in G. destruct (is_module f) eqn:Mf.
  - apply global_decl_up. rewrite gap_global_up_cons. now rewrite Mf.
  - apply orb_false_iff in G as [Gb Gr]. unfold py_global. simpl nearest_module. rewrite Mf. simpl resolve_v.
    destruct (g_bind f rest n); [discriminate|]. rewrite Mf.
    pose proof (skip_head_before_module rest n Gr) as SH.
    destruct (sk && is_class f).
    + destruct (skip_classes rest) as [|g r'] eqn:ES.
      * apply skip_nil in ES. subst rest. reflexivity.
      * rewrite SH. pose proof (global_decl_up sk rest n true Gr) as E. unfold py_global in E. exact E.
    + destruct rest as [|g r]; [reflexivity|]. rewrite (own_name_off g r n Gr).
      pose proof (global_decl_up sk (g :: r) n false Gr) as E. unfold py_global in E. exact E.
Qed.

(* C04-F5: a class body that declares a name global and binds it *)
Definition w_G := mkFrame KClass "G" [("x", MObj)] [].
Definition w_mg := mkFrame KModule "m" [("x", MObj); ("G", MObj)] [].
Lemma global_decl_refuted :
  exists c n, wf_chain c = true /\ no_functions c = true /\ resolve_v true false c n <> py_lookup_decl DGlobal c n /\ gap_global c n = true.
Proof. exists [w_G; w_mg], "x". repeat split; try reflexivity. vm_compute. discriminate. Qed.
Example global_decl_values :
  gap_global [w_B; w_A; w_m] "len" = false /\ resolve_v true false [w_B; w_A; w_m] "len" = None /\ py_global [w_B; w_A; w_m] "len" = None
  /\ gap_global [w_init; w_A2; w_m] "A" = true
  /\ gap_global [w_B; w_A; w_m] "A" = true /\ gap_global [w_A; w_m] "A" = false /\ resolve_v false false [w_A; w_m] "A" = Some "m.A".
Proof. vm_compute. repeat split. Qed.

(* ---------------------------------------------------------------- binding statements: last binding wins *)
Lemma lookup_upd : forall {A} n k (x : A) l, lookup n (upd k x l) = if String.eqb k n then Some x else lookup n l.
Proof.
  intros A n k x. induction l as [|[k' y] r IH]; simpl.
  - reflexivity.
  - destruct (String.eqb_spec k' k) as [->|Hne]; simpl.
    + destruct (String.eqb k n); reflexivity.
    + rewrite IH. destruct (String.eqb_spec k n) as [->|Hkn]; [|reflexivity].
      destruct (String.eqb_spec k' n); [congruence | reflexivity].
Qed.

(* the name a statement binds in CPython *)
Definition p_binds (mrev : list string) (is_init : bool) (s : stmt) : option string :=
  match s with
  | SBind n => Some n
  | SImport comps a => Some (fst (cpython_import comps a))
  | SFrom lv md nm a => option_map fst (cpython_importfrom mrev is_init lv md nm a)
  end.
(* a from-import for which the visitor records no alias: an import of the scope's own member / submodule *)
Definition g_silent (mrev : list string) (is_init : bool) (scope : string) (s : stmt) : bool :=
  match s with
  | SFrom lv md nm a => match visit_importfrom mrev is_init scope lv md nm a with FAlias _ _ => false | _ => true end
  | _ => false
  end.
(* is the last statement that binds n (in execution order) such an import *)
Definition silent_last (mrev : list string) (is_init : bool) (scope : string) (ss : list stmt) (n : string) : bool :=
  fold_left (fun acc s => match p_binds mrev is_init s with
                          | Some k => if String.eqb k n then g_silent mrev is_init scope s else acc
                          | None => acc
                          end) ss false.

Lemma import_same : forall comps a, visit_import comps a = cpython_import comps a.
Proof. intros [|x r] [a|]; reflexivity. Qed.

(* For every statement list (any order, any number of bindings of the same name, uses anywhere): the table the visitor
   builds and the namespace CPython ends with give every name the same dotted path -- unless the last binding of the
   name is an import of the scope's own member, which the visitor deliberately does not record. *)
Theorem members_last_wins : forall mrev is_init scope ss ps n,
  p_members mrev is_init ss = Some ps ->
  silent_last mrev is_init scope ss n = false ->
  option_map (den scope n) (lookup n (g_members mrev is_init scope ss)) = option_map (den scope n) (lookup n ps).
Proof.
  intros mrev is_init scope ss. induction ss as [|s ss IH] using rev_ind; intros ps n HP HS.
  - inversion HP. reflexivity.
  - unfold p_members, g_members, silent_last in *. rewrite fold_left_app in *. simpl in *.
    destruct (fold_left (p_stmt mrev is_init) ss (Some [])) as [ps0|] eqn:EP; [|discriminate].
    specialize (IH ps0 n eq_refl).
    destruct s as [k | comps a | lv md nm a]; simpl in *.
    + inversion HP; subst ps. rewrite !lookup_upd.
      destruct (String.eqb k n) eqn:E; [reflexivity | now apply IH].
    + inversion HP; subst ps. rewrite import_same. rewrite !lookup_upd.
      destruct (String.eqb (fst (cpython_import comps a)) n) eqn:E; [reflexivity | now apply IH].
    + destruct (cpython_importfrom mrev is_init lv md nm a) as [[k t]|] eqn:CI; [|discriminate].
      inversion HP; subst ps. simpl in HS.
      pose proof (importfrom_binding_eq_cpython mrev is_init scope lv md nm a k t CI) as B.
      destruct (visit_importfrom mrev is_init scope lv md nm a) as [|k' t'|k' t'] eqn:VI.
      * rewrite lookup_upd. destruct (String.eqb k n) eqn:E; [discriminate | now apply IH].
      * rewrite lookup_upd. destruct (String.eqb k n) eqn:E; [discriminate | now apply IH].
      * destruct B as [-> ->]. rewrite !lookup_upd. destruct (String.eqb k n) eqn:E; [reflexivity | now apply IH].
Qed.

Example members_values :
  let ss := [SBind "x"; SImport ["a"; "b"] None; SFrom 1 (Some "s") "K" (Some "x"); SBind "a"; SFrom 1 None "t" None] in
  g_members ["p"] true "p" ss = [("x", MAlias "p.s.K"); ("a", MObj)]
  /\ p_members ["p"] true ss = Some [("x", MAlias "p.s.K"); ("a", MObj); ("t", MAlias "p.t")]
  /\ silent_last ["p"] true "p" ss "x" = false /\ silent_last ["p"] true "p" ss "t" = true.
Proof. vm_compute. repeat split. Qed.

(* ---------------------------------------------------------------- attribute chains over either form of the walk *)
Theorem attribute_chain_segmentwise_v : forall sk c x,
  attr_canonical_v sk c x = dotted_from (canonical_v sk c (aroot x)) (asegs x).
Proof.
  intros sk c x. unfold attr_canonical_v. induction x as [n|v IH a]; [reflexivity|].
  simpl build_attr. unfold last_e in *. rewrite last_snoc. simpl e_canonical_v. rewrite IH.
  simpl asegs. now rewrite dotted_snoc.
Qed.

Theorem attribute_chain_prefixes_v : forall sk c x k e,
  nth_error (build_attr x) k = Some e ->
  e_canonical_v sk c e = dotted_from (canonical_v sk c (aroot x)) (firstn k (asegs x)).
Proof.
  intros sk c x. induction x as [n|v IH a]; intros k e H.
  - destruct k as [|k]; simpl in H; [inversion H; reflexivity | destruct k; discriminate].
  - simpl build_attr in H. simpl asegs. simpl aroot.
    destruct (Nat.lt_ge_cases k (List.length (build_attr v))) as [Hlt|Hge].
    + rewrite nth_error_app1 in H by exact Hlt.
      rewrite firstn_app. rewrite build_attr_length in Hlt.
      replace (k - List.length (asegs v)) with 0 by lia. simpl firstn. rewrite app_nil_r.
      now apply IH.
    + rewrite nth_error_app2 in H by exact Hge.
      destruct (k - List.length (build_attr v)) as [|j] eqn:Ek; simpl in H; [|destruct j; discriminate].
      inversion H; subst e. simpl e_canonical_v.
      pose proof (attribute_chain_segmentwise_v sk c v) as HS. unfold attr_canonical_v in HS. rewrite HS.
      assert (k = S (List.length (asegs v))) by (rewrite build_attr_length in *; lia). subst k.
      rewrite firstn_all2 by (rewrite app_length; simpl; lia).
      rewrite dotted_snoc. reflexivity.
Qed.

(* non-vacuity of the modulo theorems: gap-free inputs with non-trivial answers exist for the code as it stands *)
Example modulo_nonvacuous_asis :
  wf_chain c_A = true /\ e_gap v_asis c_A (XLambda ["q"] (XName "x") (XSeq (XName "A") (XName "q"))) = false
  /\ g_names v_asis c_A (XLambda ["q"] (XName "x") (XSeq (XName "A") (XName "q"))) = ["m.A.x"; "m.A"; "q"]
  /\ gap_class_v false [w_B; w_A; w_m] "A" = false /\ resolve_v false false [w_B; w_A; w_m] "A" = Some "m.A"
  /\ gap_class_v true [w_init; w_A2; w_m] "p" = false /\ resolve_v true false [w_init; w_A2; w_m] "p" = Some "m.A(p)".
Proof. vm_compute. repeat split. Qed.

(* ---------------------------------------------------------------- decorators *)
(* Decorator.callable_path of @a.b, @a.b(...), @a.b(...)(...): the resolved root of the head chain followed by its segments,
   whatever the calls *)
Theorem callable_path_head : forall sk c d,
  callable_path_v sk c d = dotted_from (canonical_v sk c (aroot (deco_head d))) (asegs (deco_head d)).
Proof.
  intros sk c d. induction d as [x|d IH]; simpl; [apply attribute_chain_segmentwise_v | exact IH].
Qed.
Example callable_path_values :
  callable_path_v true [w_B; w_A; w_m] (DCall (DCall (DChain (AAttr (AAttr (AName "x") "a") "b")))) = "m.x.a.b"
  /\ callable_path_v false [w_B; w_A; w_m] (DChain (AAttr (AName "x") "a")) = "m.A.x.a"
  /\ callable_path_v true [w_m] (DCall (DChain (AName "staticmethod"))) = "staticmethod".
Proof. vm_compute. repeat split. Qed.

(* ---------------------------------------------------------------- nonlocal declarations *)
Lemma resolve_v_cons : forall sk skipping f rest n,
  resolve_v sk skipping (f :: rest) n =
  if skipping && is_class f && nonempty rest then resolve_v sk true rest n
  else match g_bind f rest n with
       | Some p => Some p
       | None => if is_module f then None
                 else match (if sk && is_class f then skip_classes rest else rest) with
                      | [] => None
                      | g :: r' => if String.eqb n (fname g) && negb (is_module g) then Some (path_of (g :: r'))
                                   else resolve_v sk (sk && is_class f) rest n
                      end
       end.
Proof. reflexivity. Qed.

(* `nonlocal n` in a class body written directly inside a function (__init__) that binds n: both forms of the walk give the
   function's binding -- Griffe does not read the declaration, and does not need to unless the class body binds n itself *)
Theorem nonlocal_decl_direct : forall sk L f r n,
  wf_chain (L :: f :: r) = true -> is_class L = true -> is_function f = true ->
  g_bind L (f :: r) n = None -> n <> fname f -> py_bind f r n <> None ->
  resolve_v sk false (L :: f :: r) n = py_lookup_decl DNonlocal (L :: f :: r) n.
Proof.
  intros sk L f r n Hwf CL Ff GL Hn Hb.
  simpl in Hwf. apply andb_true_iff in Hwf as [_ Hwf]. apply andb_true_iff in Hwf as [Hf _].
  pose proof (g_bind_py_bind f r n Hf) as GB.
  assert (ML : is_module L = false) by (unfold is_class, is_module in *; destruct (fkind L); congruence).
  assert (Cf : is_class f = false) by (unfold is_class, is_function in *; destruct (fkind f); congruence).
  assert (SK : skip_classes (f :: r) = f :: r).
  { destruct r as [|g r']; [reflexivity|]. rewrite skip_classes_cons2. now rewrite Cf. }
  assert (On : String.eqb n (fname f) = false) by (now apply String.eqb_neq).
  unfold py_lookup_decl. simpl tl.
  rewrite resolve_v_cons. rewrite GL, ML, CL. rewrite !andb_true_r. cbv iota.
  assert (E : (if sk then skip_classes (f :: r) else f :: r) = f :: r) by (destruct sk; [exact SK | reflexivity]).
  rewrite E. rewrite On. simpl andb. cbv iota.
  rewrite resolve_v_cons. rewrite Cf. rewrite !andb_false_r. simpl andb. cbv iota.
  rewrite GB. unfold is_function in Ff. simpl py_nonlocal. destruct (fkind f) eqn:K; try discriminate.
  destruct (py_bind f r n) as [p|]; [reflexivity | congruence].
Qed.

Definition w_L := mkFrame KClass "L" [("t", MObj)] [].
Definition w_init2 := mkFrame KFunction "__init__" [("L", MObj)] ["self"; "p"].
Example nonlocal_values :
  wf_chain [w_L; w_init2; w_A2; w_m] = true
  /\ resolve_v true false [w_L; w_init2; w_A2; w_m] "p" = Some "m.A(p)" /\ py_lookup_decl DNonlocal [w_L; w_init2; w_A2; w_m] "p" = Some "m.A(p)"
  /\ py_lookup_decl DNonlocal [w_L; w_init2; w_A2; w_m] "x" = None.
Proof. vm_compute. repeat split. Qed.

(* ---------------------------------------------------------------- starred targets *)
(* [x for (k, *x) in y] at module level: the starred name is local to the comprehension.  A collection of the local names that
   descends into tuples and lists only and forgets Starred (seeded change C04-m7) resolves it to the module's x. *)
Definition x_star := XComp (XName "x") (GOne (TPair (TName "k") (TStar (TName "x"))) (XName "y") XConst).
Lemma starred_targets_needed :
  exists c e, wf_chain c = true /\ no_functions c = true /\ g_names_with tnames_nostar v_fixed c e <> p_names c e
              /\ g_names v_fixed c e = p_names c e.
Proof. exists [w_m], x_star. repeat split; try reflexivity. vm_compute. discriminate. Qed.
Example starred_values :
  p_names [w_m] x_star = ["x"; "k"; "x"; "y"] /\ g_names_with tnames_nostar v_fixed [w_m] x_star = ["m.x"; "k"; "m.x"; "y"]
  /\ tnames (TPair (TName "a") (TPair (TStar (TName "b")) (TPair (TName "c") TNil))) = ["a"; "b"; "c"].
Proof. vm_compute. repeat split. Qed.
