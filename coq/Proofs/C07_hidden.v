(* C07, part 3: what dropping an unresolvable base (typing.Generic, object, a class of a package that is not loaded)
   does to the C3 merge.  Class.resolved_bases drops such a base BEFORE linearising; CPython linearises with it.
   Main result: if the dropped class x occurs at most as the LAST element of every merged list, erasing it from
   the inputs and erasing it from the output are the same thing (failures included).  Otherwise they differ. *)
From Coq Require Import List ZArith String Bool Arith Lia.
From Verif Require Import Lib.Sexp Model.C07_mro Model.C07_bases Proofs.C07_mro.
Import ListNotations.
Open Scope string_scope.
Open Scope list_scope.
Open Scope nat_scope.

Definition dropl (x : nat) (ls : list (list nat)) : list (list nat) := map (drop x) ls.
Definition lo_all (x : nat) (ls : list (list nat)) : Prop := forall l, In l ls -> last_only x l = true.

(* ---------------------------------------------------------------- last_only / drop *)

Lemma last_only_tail x a r : last_only x (a :: r) = true -> last_only x r = true.
Proof. destruct r as [|b r]; simpl; auto. intros H. apply andb_true_iff in H. tauto. Qed.

Lemma last_only_head x r : last_only x (x :: r) = true -> r = [].
Proof. destruct r as [|b r]; simpl; auto. rewrite Nat.eqb_refl. simpl. discriminate. Qed.

Lemma last_only_pop x y l : last_only x l = true -> last_only x (pop_if y l) = true.
Proof.
  destruct l as [|h t]; simpl pop_if; auto. destruct (Nat.eqb h y); auto. apply last_only_tail.
Qed.

Lemma drop_cons_ne x h t : h <> x -> drop x (h :: t) = h :: drop x t.
Proof. intros H. unfold drop. simpl. destruct (Nat.eqb h x) eqn:E; simpl; auto. apply Nat.eqb_eq in E. congruence. Qed.

Lemma drop_cons_eq x t : drop x (x :: t) = drop x t.
Proof. unfold drop. simpl. rewrite Nat.eqb_refl. reflexivity. Qed.

Lemma mem_drop x y l : y <> x -> mem y (drop x l) = mem y l.
Proof.
  intros Hy. induction l as [|h t IH]; auto.
  destruct (Nat.eq_dec h x) as [->|Hh].
  - rewrite drop_cons_eq, IH. unfold mem. simpl. destruct (Nat.eqb y x) eqn:E; auto. apply Nat.eqb_eq in E. congruence.
  - rewrite drop_cons_ne by auto. unfold mem in *. simpl. rewrite IH. reflexivity.
Qed.

(* the tail of an erased list: the erased tail -- because x can only be the head of [x] *)
Lemma tail_drop x l : last_only x l = true -> tail (drop x l) = drop x (tail l).
Proof.
  destruct l as [|h t]; auto. intros H. destruct (Nat.eq_dec h x) as [->|Hh].
  - rewrite (last_only_head _ _ H). rewrite drop_cons_eq. reflexivity.
  - rewrite drop_cons_ne by auto. reflexivity.
Qed.

Lemma in_tails_drop x y ls : y <> x -> lo_all x ls -> in_tails y (dropl x ls) = in_tails y ls.
Proof.
  intros Hy. induction ls as [|l ls IH]; intros Hlo; auto.
  unfold in_tails, dropl in *. simpl. rewrite tail_drop by (apply Hlo; left; reflexivity).
  rewrite mem_drop by auto. f_equal. apply IH. intros l' Hl'. apply Hlo. right. exact Hl'.
Qed.

Lemma pop_if_drop x y l : y <> x -> last_only x l = true -> pop_if y (drop x l) = drop x (pop_if y l).
Proof.
  intros Hy H. destruct l as [|h t]; auto. destruct (Nat.eq_dec h x) as [->|Hh].
  - rewrite (last_only_head _ _ H). unfold drop. simpl. rewrite Nat.eqb_refl. simpl.
    destruct (Nat.eqb x y) eqn:E; [apply Nat.eqb_eq in E; congruence|]. simpl. rewrite Nat.eqb_refl. reflexivity.
  - rewrite drop_cons_ne by auto. cbn [pop_if]. destruct (Nat.eqb h y); auto. rewrite drop_cons_ne by auto. reflexivity.
Qed.

Lemma remove_dropl x y ls : y <> x -> lo_all x ls -> remove y (dropl x ls) = dropl x (remove y ls).
Proof.
  intros Hy. induction ls as [|l ls IH]; intros Hlo; auto.
  unfold remove, dropl in *. simpl. rewrite pop_if_drop; auto.
  - f_equal. apply IH. intros l' Hl'. apply Hlo. right. exact Hl'.
  - apply Hlo. left. reflexivity.
Qed.

(* popping x itself is invisible once x is erased *)
Lemma dropl_remove_self x ls : lo_all x ls -> dropl x (remove x ls) = dropl x ls.
Proof.
  induction ls as [|l ls IH]; intros Hlo; auto.
  unfold remove, dropl in *. simpl. f_equal.
  - destruct l as [|h t]; auto. cbn [pop_if]. destruct (Nat.eqb h x) eqn:E; auto.
    apply Nat.eqb_eq in E. subst h. rewrite (last_only_head x t) by (apply Hlo; left; reflexivity).
    rewrite drop_cons_eq. reflexivity.
  - apply IH. intros l' Hl'. apply Hlo. right. exact Hl'.
Qed.

Lemma lo_all_remove x y ls : lo_all x ls -> lo_all x (remove y ls).
Proof.
  intros Hlo l Hl. unfold remove in Hl. apply in_map_iff in Hl. destruct Hl as [l0 [<- Hl0]].
  apply last_only_pop. apply Hlo. exact Hl0.
Qed.

Lemma exhausted_dropl x ls : exhausted ls = true -> exhausted (dropl x ls) = true.
Proof.
  unfold exhausted, dropl. rewrite !forallb_forall. intros H l Hl. apply in_map_iff in Hl.
  destruct Hl as [l0 [<- Hl0]]. specialize (H _ Hl0). destruct l0; [reflexivity|discriminate].
Qed.

Lemma drop_length_le x l : List.length (drop x l) <= List.length l.
Proof. unfold drop. induction l as [|h t IH]; simpl; auto. destruct (negb (Nat.eqb h x)); simpl; lia. Qed.

Lemma total_dropl_le x ls : total (dropl x ls) <= total ls.
Proof. induction ls as [|l ls IH]; simpl; auto. pose proof (drop_length_le x l). lia. Qed.

(* ---------------------------------------------------------------- the choice of the next head *)

Lemma head_drop x l : last_only x l = true -> head (drop x l) = match head l with Some h => if Nat.eqb h x then None else Some h | None => None end.
Proof.
  destruct l as [|h t]; auto. intros H. cbn [head]. destruct (Nat.eqb h x) eqn:E.
  - apply Nat.eqb_eq in E. subst h. rewrite (last_only_head _ _ H). rewrite drop_cons_eq. reflexivity.
  - apply Nat.eqb_neq in E. rewrite drop_cons_ne by auto. reflexivity.
Qed.

Lemma pick_dropl x all : lo_all x all -> forall ls0, lo_all x ls0 ->
  match pick (map head ls0) all with
  | Some y => y = x \/ pick (map head (dropl x ls0)) (dropl x all) = Some y
  | None => pick (map head (dropl x ls0)) (dropl x all) = None
  end.
Proof.
  intros Hall. induction ls0 as [|l ls0 IH]; intros Hlo; simpl; auto.
  assert (Hl : last_only x l = true) by (apply Hlo; left; reflexivity).
  assert (Hlo' : lo_all x ls0) by (intros l' Hl'; apply Hlo; right; exact Hl').
  specialize (IH Hlo'). rewrite head_drop by exact Hl.
  destruct (head l) as [h|]; auto.
  destruct (Nat.eqb h x) eqn:E.
  - apply Nat.eqb_eq in E. subst h. destruct (in_tails x all); auto.
  - apply Nat.eqb_neq in E. rewrite in_tails_drop by auto. destruct (in_tails h all); auto.
Qed.

Lemma pick_none_blocked all : forall ls0 h t, pick (map head ls0) all = None -> In (h :: t) ls0 -> in_tails h all = true.
Proof.
  induction ls0 as [|l ls0 IH]; intros h t Hp Hin; [destruct Hin|]. simpl in Hp. destruct Hin as [->|Hin].
  - simpl in Hp. destruct (in_tails h all); [reflexivity|discriminate].
  - destruct l as [|h' t']; simpl in Hp; [eapply IH; eauto|].
    destruct (in_tails h' all); [eapply IH; eauto|discriminate].
Qed.

Lemma not_exhausted_witness ls : exhausted ls = false -> exists h t, In (h :: t) ls.
Proof.
  induction ls as [|l ls IH]; simpl; try discriminate.
  destruct l as [|h t]; simpl; eauto. intros H. destruct (IH H) as [h [t Hin]]. eauto.
Qed.

Lemma In_not_exhausted ls h t : In (h :: t) ls -> exhausted ls = false.
Proof.
  intros Hin. destruct (exhausted ls) eqn:E; auto.
  pose proof (exhausted_all_nil _ E _ Hin). discriminate.
Qed.

(* a stuck merge stays stuck after erasing: something other than x is left *)
Lemma stuck_dropl x ls : lo_all x ls -> exhausted ls = false -> pick (map head ls) ls = None ->
  exhausted (dropl x ls) = false.
Proof.
  intros Hlo He Hp. destruct (not_exhausted_witness _ He) as [h [t Hin]].
  destruct (Nat.eq_dec h x) as [->|Hh].
  - pose proof (pick_none_blocked ls ls x t Hp Hin) as Hb.
    unfold in_tails in Hb. apply existsb_exists in Hb. destruct Hb as [l' [Hl' Hm]].
    destruct l' as [|a t']; [discriminate|]. simpl in Hm. apply mem_In in Hm.
    assert (Ha : a <> x).
    { intros ->. rewrite (last_only_head x t') in Hm by (apply Hlo; exact Hl'). destruct Hm. }
    apply (In_not_exhausted _ a (drop x t')). unfold dropl. apply in_map_iff. exists (a :: t'). split; auto.
    apply drop_cons_ne. exact Ha.
  - apply (In_not_exhausted _ h (drop x t)). unfold dropl. apply in_map_iff. exists (h :: t). split; auto.
    apply drop_cons_ne. exact Hh.
Qed.

(* ---------------------------------------------------------------- the merge *)

Lemma elide_fuel x : forall f ls, lo_all x ls -> total ls < f -> forall g, total (dropl x ls) < g ->
  merge_fuel g (dropl x ls) = map_ok (drop x) (merge_fuel f ls).
Proof.
  induction f as [|f IH]; intros ls Hlo Hf g Hg; [lia|].
  rewrite merge_fuel_S.
  destruct (exhausted ls) eqn:Ex.
  - destruct g as [|g]; [lia|]. rewrite merge_fuel_S. rewrite exhausted_dropl by exact Ex. reflexivity.
  - pose proof (pick_dropl x ls Hlo ls Hlo) as Hpk.
    destruct (pick (map head ls) ls) as [y|] eqn:Pk.
    + destruct (pick_head _ _ _ Pk) as [t [Hyt _]].
      pose proof (total_remove_lt _ _ _ Hyt) as Hlt.
      destruct (Nat.eq_dec y x) as [->|Hy].
      * (* x itself is taken: invisible on the erased side *)
        rewrite <- (dropl_remove_self x ls Hlo) in Hg |- *.
        rewrite (IH (remove x ls) (lo_all_remove x x ls Hlo)) by (auto; lia).
        destruct (merge_fuel f (remove x ls)); cbn [map_ok]; auto. rewrite drop_cons_eq. reflexivity.
      * destruct Hpk as [Hpk|Hpk]; [congruence|].
        destruct g as [|g]; [lia|]. rewrite merge_fuel_S.
        assert (Hin : In (y :: drop x t) (dropl x ls)).
        { unfold dropl. apply in_map_iff. exists (y :: t). split; auto. apply drop_cons_ne. exact Hy. }
        rewrite (In_not_exhausted _ _ _ Hin). rewrite Hpk.
        pose proof (total_remove_lt _ _ _ Hin) as Hlt'.
        rewrite remove_dropl in Hlt' |- * by auto.
        rewrite (IH (remove y ls) (lo_all_remove x y ls Hlo)) by (auto; lia).
        destruct (merge_fuel f (remove y ls)); cbn [map_ok]; auto. rewrite drop_cons_ne by auto. reflexivity.
    + destruct g as [|g]; [lia|]. rewrite merge_fuel_S.
      rewrite (stuck_dropl x ls Hlo Ex Pk). rewrite Hpk. reflexivity.
Qed.

(* Erasing a class that is last wherever it occurs commutes with the C3 merge: same linearisation, same failures. *)
Theorem last_only_elision x ls : lo_all x ls ->
  c3linear_merge (dropl x ls) = map_ok (drop x) (c3linear_merge ls).
Proof. intros Hlo. unfold c3linear_merge. apply elide_fuel; auto. Qed.

(* ... and the hypothesis is needed: [P, x, B] (x in the middle of a linearisation) against [Q, x]. *)
Theorem last_only_needed : exists x ls r r',
  c3linear_merge ls = Ok r /\ c3linear_merge (dropl x ls) = Ok r' /\ r' <> drop x r.
Proof.
  exists 9, [[1; 9; 2]; [3; 9]; [1; 3]], [1; 3; 9; 2], [1; 2; 3]. repeat split; try reflexivity. discriminate.
Qed.

(* empty lists are neutral for the merge (an erased [x] leaves one behind) *)
Definition nonnil (ls : list (list nat)) : list (list nat) := filter (fun l => negb (is_nil l)) ls.

Lemma exhausted_nonnil ls : exhausted (nonnil ls) = exhausted ls.
Proof. induction ls as [|l ls IH]; auto. simpl. destruct l; simpl; auto. Qed.

Lemma in_tails_nonnil y ls : in_tails y (nonnil ls) = in_tails y ls.
Proof. unfold in_tails. induction ls as [|l ls IH]; auto. simpl. destruct l; simpl; auto. rewrite IH. reflexivity. Qed.

Lemma pick_nonnil all all' : (forall y, in_tails y all' = in_tails y all) -> forall ls0,
  pick (map head (nonnil ls0)) all' = pick (map head ls0) all.
Proof.
  intros Ht. induction ls0 as [|l ls0 IH]; auto. simpl. destruct l as [|h t]; simpl; auto.
  rewrite Ht. rewrite IH. reflexivity.
Qed.

Lemma nonnil_remove y ls : nonnil (remove y (nonnil ls)) = nonnil (remove y ls).
Proof.
  induction ls as [|l ls IH]; auto. simpl. destruct l as [|h t]; simpl; auto.
  rewrite IH. reflexivity.
Qed.

Lemma merge_fuel_nonnil : forall f ls, merge_fuel f (nonnil ls) = merge_fuel f ls.
Proof.
  induction f as [|f IH]; intros ls; auto.
  rewrite !merge_fuel_S. rewrite exhausted_nonnil.
  rewrite (pick_nonnil ls (nonnil ls)) by (intros y; apply in_tails_nonnil).
  destruct (exhausted ls); auto. destruct (pick (map head ls) ls) as [y|]; auto.
  rewrite <- (IH (remove y (nonnil ls))). rewrite nonnil_remove. rewrite IH. reflexivity.
Qed.

Lemma total_nonnil ls : total (nonnil ls) = total ls.
Proof. induction ls as [|l ls IH]; auto. simpl. destruct l; simpl; auto. Qed.

Theorem merge_nil_neutral ls : c3linear_merge (nonnil ls) = c3linear_merge ls.
Proof. unfold c3linear_merge. rewrite total_nonnil. apply merge_fuel_nonnil. Qed.

(* ---------------------------------------------------------------- tables: the witness of finding C07-F1 *)

(*  0 A   1 B   2 G (the class the collection does not hold: typing.Generic)
    3 P(A, G)   4 Q(G)   5 S(P, B)   6 Z(S, Q)        every bases list has G last -- but S's linearisation has it inside *)
Definition f1_tbl : tbl :=
  [ mkCls "m.A" [] []; mkCls "m.B" [] ["f0"]; mkCls "typing.Generic" [] [];
    mkCls "m.P" [0; 2] []; mkCls "m.Q" [2] ["f0"]; mkCls "m.S" [3; 1] []; mkCls "m.Z" [5; 4] [] ].
Theorem hidden_refuted : exists t x c m m', ordered t /\
  (forall d, d < List.length t -> last_only x (cbases (nth_cls t d)) = true) /\
  cpython_mro t c = Ok m /\ griffe_full_mro (hide x t) c = Ok m' /\ m' <> drop x m /\
  (* and the wrong order is observable: CPython finds Q.f0, Griffe's table says B.f0 *)
  first_definer t m "f0" = Some 4 /\ first_definer (hide x t) m' "f0" = Some 1.
Proof.
  exists f1_tbl, 2, 6, [6; 5; 3; 0; 4; 2; 1], [6; 5; 3; 0; 1; 4].
  split. { apply orderedb_ordered. reflexivity. }
  split. { intros d Hd. do 7 (destruct d as [|d]; [reflexivity|]). simpl in Hd. lia. }
  repeat split; try reflexivity. discriminate.
Qed.

(* ---------------------------------------------------------------- tables: when hiding a class is harmless *)

Lemma hide_length x t : List.length (hide x t) = List.length t.
Proof. apply map_length. Qed.

Lemma nth_cls_hide x t c : nth_cls (hide x t) c = hide_row x (nth_cls t c).
Proof.
  unfold nth_cls, hide. change empty_cls with (hide_row x empty_cls) at 1. apply map_nth.
Qed.

Lemma cbases_hide x t c : cbases (nth_cls (hide x t) c) = drop x (cbases (nth_cls t c)).
Proof. rewrite nth_cls_hide. reflexivity. Qed.

Lemma drop_In x l b : In b (drop x l) -> In b l /\ b <> x.
Proof.
  unfold drop. intros H. apply filter_In in H. destruct H as [H1 H2]. split; auto.
  intros ->. rewrite Nat.eqb_refl in H2. discriminate.
Qed.

Lemma hide_ordered x t : ordered t -> ordered (hide x t).
Proof.
  intros Ho c b Hc Hb. rewrite hide_length in Hc. rewrite cbases_hide in Hb.
  apply drop_In in Hb. apply (Ho c b Hc). tauto.
Qed.

(* results do not depend on the fuel once there is enough of it *)
Lemma map_res_stable {A B} (F G : A -> res B) l : map_res F l <> OutOfFuel ->
  (forall b, In b l -> F b <> OutOfFuel -> G b = F b) -> map_res G l = map_res F l.
Proof.
  induction l as [|b l IH]; intros Hne Hag; auto. simpl in *.
  destruct (F b) as [y| |] eqn:Eb; try congruence.
  - rewrite (Hag b (or_introl eq_refl)) by congruence. rewrite Eb.
    rewrite IH; auto. destruct (map_res F l); congruence.
  - rewrite (Hag b (or_introl eq_refl)) by congruence. rewrite Eb. reflexivity.
Qed.

Lemma py_mro_mono t : forall f c, py_mro f t c <> OutOfFuel -> forall g, f <= g -> py_mro g t c = py_mro f t c.
Proof.
  induction f as [|f IH]; intros c Hne g Hg; [simpl in Hne; congruence|].
  destruct g as [|g]; [lia|]. simpl in *.
  destruct (cbases (nth_cls t c)) as [|b0 bs]; auto.
  assert (Hm : map_res (py_mro f t) (b0 :: bs) <> OutOfFuel).
  { intros E. rewrite E in Hne. congruence. }
  rewrite (map_res_stable (py_mro f t) (py_mro g t)); auto.
  intros b _ Hb. apply IH; auto. lia.
Qed.

Section Hidden.
Variable t : tbl.
Variable x : nat.
Hypothesis Ho : ordered t.
Hypothesis Hroot : cbases (nth_cls t x) = [].

Definition R (ms ms' : list (list nat)) : Prop := nonnil (dropl x ms) = nonnil ms'.

Lemma nonnil_app a b : nonnil (a ++ b) = nonnil a ++ nonnil b.
Proof. unfold nonnil. apply filter_app. Qed.

Lemma drop_nil_iff_head h r : h <> x -> drop x (h :: r) <> [].
Proof. intros H. rewrite drop_cons_ne by auto. discriminate. Qed.

Lemma map_res_hide (F G : nat -> res (list nat)) : forall bases,
  last_only x bases = true ->
  (In x bases -> F x = Ok [x]) ->
  (forall b, In b bases -> b <> x -> F b <> OutOfFuel -> G b = map_ok (drop x) (F b)) ->
  match map_res F bases with
  | Ok ms => exists ms', map_res G (drop x bases) = Ok ms' /\ R ms ms'
  | Fail e => map_res G (drop x bases) = Fail e
  | OutOfFuel => True
  end.
Proof.
  induction bases as [|b rest IH]; intros Hlo Hx Hb.
  - simpl. exists []. split; reflexivity.
  - destruct (Nat.eq_dec b x) as [->|Hne].
    + rewrite (last_only_head _ _ Hlo). cbn [map_res]. rewrite (Hx (or_introl eq_refl)).
      rewrite drop_cons_eq. exists []. split; [reflexivity|]. unfold R, dropl. cbn [map]. rewrite drop_cons_eq. reflexivity.
    + rewrite drop_cons_ne by auto. cbn [map_res].
      specialize (IH (last_only_tail _ _ _ Hlo) (fun H => Hx (or_intror H))
                     (fun b' H1 H2 H3 => Hb b' (or_intror H1) H2 H3)).
      destruct (F b) as [m| |] eqn:Eb; auto.
      * rewrite (Hb b (or_introl eq_refl) Hne) by congruence. rewrite Eb. simpl.
        destruct (map_res F rest) as [ms| |]; auto.
        -- destruct IH as [ms' [E HR]]. rewrite E. exists (drop x m :: ms'). split; auto.
           unfold R in *. simpl. destruct (drop x m); simpl; auto. rewrite HR. reflexivity.
        -- rewrite IH. reflexivity.
      * rewrite (Hb b (or_introl eq_refl) Hne) by congruence. rewrite Eb. reflexivity.
Qed.

Lemma g_mro_root f seen : g_mro (S f) t seen x = Ok [x].
Proof.
  simpl. unfold resolved. rewrite Hroot. reflexivity.
Qed.

Lemma g_mro_hide : forall f seen c, c < List.length t -> c <> x -> (forall s, In s seen -> c < s) ->
  (forall d, d <= c -> last_only x (cbases (nth_cls t d)) = true) ->
  (forall f' d m, d < c -> py_mro f' t d = Ok m -> last_only x m = true) ->
  g_mro f t seen c <> OutOfFuel ->
  g_mro f (hide x t) seen c = map_ok (drop x) (g_mro f t seen c).
Proof.
  induction f as [|f IH]; intros seen c Hc Hcx Hs Hbases Hlin Hne; [simpl in Hne; congruence|].
  pose proof (hide_ordered x t Ho) as Ho'.
  simpl in *.
  rewrite (ordered_resolved (hide x t) c Ho') by (rewrite hide_length; exact Hc).
  rewrite (ordered_resolved t c Ho Hc) in *.
  rewrite cbases_hide.
  remember (cbases (nth_cls t c)) as bases eqn:Eb.
  assert (Hlob : last_only x bases = true) by (rewrite Eb; apply Hbases; lia).
  assert (Hlt : forall b, In b bases -> b < c) by (intros b Hb; apply (Ho c b Hc); rewrite <- Eb; exact Hb).
  clear Eb.
  assert (Hseen' : forall b, In b bases -> forall s, In s (seen ++ [c]) -> b < s).
  { intros b Hb s Hin. specialize (Hlt _ Hb). apply in_app_or in Hin.
    destruct Hin as [Hin|[<-|[]]]; [specialize (Hs _ Hin)|]; lia. }
  assert (Hcyc : forall l, incl l bases -> existsb (fun b => mem b (seen ++ [c])) l = false).
  { intros l Hl. apply existsb_false. intros b Hb. apply mem_false. intros Hin.
    specialize (Hseen' b (Hl _ Hb) _ Hin). lia. }
  destruct bases as [|b0 bs].
  - (* no bases at all *) cbn [map_ok]. rewrite drop_cons_ne by auto. reflexivity.
  - rewrite (Hcyc (b0 :: bs)) in * by (apply incl_refl).
    assert (Hf : f <> 0).
    { intros ->. simpl in Hne. congruence. }
    destruct f as [|f']; [congruence|].
    pose proof (map_res_hide (g_mro (S f') t (seen ++ [c])) (g_mro (S f') (hide x t) (seen ++ [c])) (b0 :: bs)
                  Hlob (fun _ => g_mro_root f' (seen ++ [c]))) as Hmr.
    assert (Hsub : forall b, In b (b0 :: bs) -> b <> x -> g_mro (S f') t (seen ++ [c]) b <> OutOfFuel ->
                   g_mro (S f') (hide x t) (seen ++ [c]) b = map_ok (drop x) (g_mro (S f') t (seen ++ [c]) b)).
    { intros b Hb Hbx Hbne. apply IH; auto.
      - specialize (Hlt _ Hb). lia.
      - intros d Hd. apply Hbases. specialize (Hlt _ Hb). lia.
      - intros f'' d m Hd. apply Hlin. specialize (Hlt _ Hb). lia. }
    specialize (Hmr Hsub).
    destruct (map_res (g_mro (S f') t (seen ++ [c])) (b0 :: bs)) as [ms| |] eqn:Ems; try congruence.
    + destruct Hmr as [ms' [Ems' HR]].
      (* the lists merged on the full side all have x last-only *)
      assert (Hlo : lo_all x (ms ++ [b0 :: bs])).
      { intros l Hl. apply in_app_or in Hl. destruct Hl as [Hl|[<-|[]]].
        - apply map_res_ok in Ems. destruct (Forall2_In_r _ _ _ Ems _ Hl) as [b [Hb Hg]].
          rewrite (g_mro_eq_py_mro t Ho (S f') (seen ++ [c]) b) in Hg.
          + apply (Hlin (S f') b l); auto.
          + specialize (Hlt _ Hb). lia.
          + apply Hseen'. exact Hb.
        - exact Hlob. }
      pose proof (last_only_elision x _ Hlo) as Hel.
      assert (Hmerge : c3linear_merge (ms' ++ [drop x (b0 :: bs)]) = map_ok (drop x) (c3linear_merge (ms ++ [b0 :: bs]))).
      { rewrite <- Hel. rewrite <- (merge_nil_neutral (ms' ++ _)). rewrite <- (merge_nil_neutral (dropl x _)).
        f_equal. unfold dropl. rewrite map_app. rewrite !nonnil_app. simpl map. f_equal. symmetry. exact HR. }
      destruct (drop x (b0 :: bs)) as [|d0 ds] eqn:Ed.
      * (* every base was x: the hidden class has no bases *)
        assert (Hms' : ms' = []).
        { destruct ms'; auto. simpl in Ems'. discriminate. }
        subst ms'. simpl app in Hmerge. change (c3linear_merge [[]]) with (@Ok (list nat) []) in Hmerge.
        destruct (c3linear_merge (ms ++ [b0 :: bs])) as [r| |]; cbn [map_ok] in *; try discriminate.
        inversion Hmerge as [Hr]. rewrite drop_cons_ne by auto. rewrite <- Hr. reflexivity.
      * rewrite (Hcyc (d0 :: ds)).
        2:{ intros b Hb. rewrite <- Ed in Hb. apply drop_In in Hb. tauto. }
        rewrite Ems'. rewrite Hmerge.
        destruct (c3linear_merge (ms ++ [b0 :: bs])); cbn [map_ok]; auto. rewrite drop_cons_ne by auto. reflexivity.
    + (* a base is uncomputable on both sides *)
      destruct (drop x (b0 :: bs)) as [|d0 ds] eqn:Ed.
      * simpl in Hmr. discriminate.
      * rewrite (Hcyc (d0 :: ds)).
        2:{ intros b Hb. rewrite <- Ed in Hb. apply drop_In in Hb. tauto. }
        rewrite Hmr. reflexivity.
Qed.

(* Griffe, on the collection that does not hold x, computes CPython's linearisation with x erased -- provided x is last
   wherever it is written (classes up to c) and last in every linearisation that gets merged (the classes below c). *)
Theorem hidden_last_only c : c < List.length t -> c <> x ->
  (forall d, d <= c -> last_only x (cbases (nth_cls t d)) = true) ->
  (forall d m, d < c -> cpython_mro t d = Ok m -> last_only x m = true) ->
  griffe_full_mro (hide x t) c = map_ok (drop x) (cpython_mro t c).
Proof.
  intros Hc Hcx Hbases Hlin.
  destruct (mro_eq_cpython t c Ho Hc) as [Heq _]. rewrite <- Heq.
  unfold griffe_full_mro. rewrite hide_length. apply g_mro_hide; auto.
  - intros s [].
  - intros f' d m Hd Hpy. apply (Hlin d m Hd).
    assert (Hdl : d < List.length t) by lia.
    assert (Hen : py_mro (S (List.length t)) t d <> OutOfFuel) by (apply py_mro_fuel_enough; auto; lia).
    unfold cpython_mro.
    destruct (Nat.le_ge_cases f' (S (List.length t))) as [Hle|Hge].
    + rewrite (py_mro_mono t f' d) by (auto; congruence). exact Hpy.
    + rewrite <- (py_mro_mono t (S (List.length t)) d Hen f' Hge). exact Hpy.
  - apply (griffe_full_mro_total t c Hc).
Qed.
End Hidden.

(* the same with the decidable gap predicate of Model/C07_bases.v *)
Theorem hidden_modulo_known t x c : ordered t -> cbases (nth_cls t x) = [] -> c < List.length t -> c <> x ->
  ext_not_last t x c = false ->
  griffe_full_mro (hide x t) c = map_ok (drop x) (cpython_mro t c).
Proof.
  intros Ho Hroot Hc Hcx Hgap. unfold ext_not_last in Hgap. apply negb_false_iff in Hgap.
  unfold ext_last_only in Hgap. apply andb_true_iff in Hgap. destruct Hgap as [H1 H2].
  rewrite forallb_forall in H1, H2.
  apply hidden_last_only; auto.
  - intros d Hd. apply H1. apply in_seq. lia.
  - intros d m Hd Hm. assert (Hin : In d (seq 0 c)) by (apply in_seq; lia).
    specialize (H2 d Hin). rewrite Hm in H2. exact H2.
Qed.

Example f1_gap_holds : ext_not_last f1_tbl 2 6 = true.
Proof. reflexivity. Qed.
(* non-vacuity: Generic last everywhere -- P(A, G), Q(G), S(B, P), Z(S, Q) *)
Definition f1_ok_tbl : tbl :=
  [ mkCls "m.A" [] []; mkCls "m.B" [] []; mkCls "typing.Generic" [] [];
    mkCls "m.P" [0; 2] []; mkCls "m.Q" [2] []; mkCls "m.S" [1; 3] []; mkCls "m.Z" [5; 4] [] ].
Example f1_ok : ext_not_last f1_ok_tbl 2 6 = false /\
  griffe_full_mro (hide 2 f1_ok_tbl) 6 = Ok [6; 5; 1; 3; 0; 4] /\ cpython_mro f1_ok_tbl 6 = Ok [6; 5; 1; 3; 0; 4; 2].
Proof. repeat split; reflexivity. Qed.

(* ---------------------------------------------------------------- the spec with externals is conservative *)

(* cpython_mro_ext (explicit `object` allowed among the bases, used by the program streams) is cpython_mro_obj on every
   table that never writes `object`; with C07_mro_object_elision it is then the elided spec followed by object. *)
Lemma py_mro_ext_eq t o : ordered t -> List.length t <= o -> forall f c, c < List.length t ->
  py_mro_ext f t o c = py_mro_obj f t o c.
Proof.
  intros Ho Hlen. induction f as [|f IH]; intros c Hc; auto. simpl.
  destruct (Nat.eqb c o) eqn:E; [apply Nat.eqb_eq in E; lia|].
  destruct (cbases (nth_cls t c)) as [|b0 bs] eqn:Eb; auto.
  rewrite (map_res_ext (py_mro_ext f t o) (py_mro_obj f t o)); auto.
  intros b Hb. apply IH. assert (b < c) by (apply (Ho c b Hc); rewrite Eb; exact Hb). lia.
Qed.

Theorem cpython_mro_ext_eq t c : ordered t -> c < List.length t ->
  cpython_mro_ext t c = add_obj (List.length t) (cpython_mro t c).
Proof.
  intros Ho Hc. unfold cpython_mro_ext. rewrite py_mro_ext_eq by auto.
  apply cpython_mro_obj_eq; auto.
Qed.

(* ---------------------------------------------------------------- several hidden classes *)

Lemma map_ok_compose {A B C} (f : B -> C) (g : A -> B) (r : res A) : map_ok f (map_ok g r) = map_ok (fun a => f (g a)) r.
Proof. destruct r; reflexivity. Qed.

Lemma drop_all_as_fun xs : forall x l, drop_all xs (drop x l) = drop_all (x :: xs) l.
Proof. reflexivity. Qed.

(* For every Python-expressible hierarchy and every LIST of root classes the collection does not hold: if each of them is
   last-only in the table left after hiding the previous ones, Griffe's MRO on the collection without them is CPython's
   MRO with them erased. *)
Theorem hidden_all : forall xs t c, ordered t -> (forall x, In x xs -> cbases (nth_cls t x) = []) ->
  c < List.length t -> ~ In c xs -> ext_last_only_all t xs c = true ->
  griffe_full_mro (hide_all xs t) c = map_ok (drop_all xs) (cpython_mro t c).
Proof.
  induction xs as [|x r IH]; intros t c Ho Hroot Hc Hnin Hlo.
  - simpl. destruct (mro_eq_cpython t c Ho Hc) as [-> _]. destruct (cpython_mro t c); reflexivity.
  - simpl in Hlo. apply andb_true_iff in Hlo. destruct Hlo as [Hx Hr]. simpl hide_all.
    rewrite (IH (hide x t) c).
    + destruct (mro_eq_cpython (hide x t) c (hide_ordered x t Ho)) as [<- _]; [rewrite hide_length; exact Hc|].
      rewrite (hidden_modulo_known t x c Ho).
      * rewrite map_ok_compose. destruct (cpython_mro t c); reflexivity.
      * apply Hroot. left. reflexivity.
      * exact Hc.
      * intros ->. apply Hnin. left. reflexivity.
      * unfold ext_not_last. rewrite Hx. reflexivity.
    + apply hide_ordered. exact Ho.
    + intros x' Hx'. rewrite cbases_hide. rewrite (Hroot x' (or_intror Hx')). reflexivity.
    + rewrite hide_length. exact Hc.
    + intros Hin. apply Hnin. right. exact Hin.
    + exact Hr.
Qed.

(* non-vacuity: G = typing.Generic (2) and B = abc.ABC (3); P(A, G, B), Q(G), S(P), Z(S, Q, B): hiding B first, then G *)
Definition two_hidden_tbl : tbl :=
  [ mkCls "m.A" [] []; mkCls "m.A2" [] []; mkCls "typing.Generic" [] []; mkCls "abc.ABC" [] [];
    mkCls "m.P" [0; 2; 3] []; mkCls "m.Q" [2] []; mkCls "m.S" [4] []; mkCls "m.Z" [6; 5; 3] [] ].
Example two_hidden : ext_last_only_all two_hidden_tbl [3; 2] 7 = true /\ ext_last_only_all two_hidden_tbl [2; 3] 7 = false /\
  griffe_full_mro (hide_all [3; 2] two_hidden_tbl) 7 = Ok [7; 6; 4; 0; 5] /\
  cpython_mro two_hidden_tbl 7 = Ok [7; 6; 4; 0; 5; 2; 3].
Proof. repeat split; reflexivity. Qed.
