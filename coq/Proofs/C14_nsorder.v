(* C14, namespace packages and the listing order, the whole load: permuting every directory listing leaves the static load
   of a namespace package over several (distinct) portions unchanged -- the same file at every dotted name, and
   namespace sub-packages recording the same set of directories. *)
From Coq Require Import List ZArith String Ascii Bool Arith Lia Permutation Sorting.Sorted.
From Verif Require Import Lib.Sexp Model.C14_finder Proofs.C14_finder Proofs.C14_order Proofs.C14_ns Proofs.C14_nsload Proofs.C14_nsinv Proofs.C14_pth.
Import ListNotations.
Open Scope string_scope. Open Scope list_scope.

(* ------------------------------------------------------------------------------------------------------------- *)
(* A.  order: within one portion the yielded entries keep the order of the walk *)
Definition R3 (a b : entry) : Prop := e_base a = e_base b -> Re a b.
Definition Rd3 (a b : entry) : Prop := depth a < depth b \/ (depth a = depth b /\ R3 a b).

Lemma depth_sort_SS_gen : forall (R : entry -> entry -> Prop) l, StronglySorted R l ->
  StronglySorted (fun a b => depth a < depth b \/ (depth a = depth b /\ R a b)) (depth_sort l).
Proof.
  intros R l H. unfold depth_sort.
  assert (G : forall ds, StronglySorted lt ds ->
              StronglySorted (fun a b => depth a < depth b \/ (depth a = depth b /\ R a b))
                (flat_map (fun d => filter (fun e => (depth e =? d)%nat) l) ds)).
  { induction ds as [|d ds IH]; intros Hds; simpl. constructor.
    inversion Hds as [|? ? Hds' Hd]; subst. apply SS_app; auto.
    - apply (SS_impl _ R). 2: apply SS_filter; auto.
      intros x y Hx Hy Hxy. apply filter_In in Hx, Hy. destruct Hx as [_ Hx], Hy as [_ Hy].
      apply Nat.eqb_eq in Hx, Hy. right. split; auto. congruence.
    - intros x y Hx Hy. apply filter_In in Hx. destruct Hx as [_ Hx]. apply Nat.eqb_eq in Hx.
      apply in_flat_map in Hy. destruct Hy as (d' & Hd' & Hy). apply filter_In in Hy. destruct Hy as [_ Hy]. apply Nat.eqb_eq in Hy.
      rewrite Forall_forall in Hd. specialize (Hd d' Hd'). left. lia. }
  apply G. apply seq_sorted.
Qed.

Lemma SS_first_wins : forall (R : entry -> entry -> Prop) P subs F, StronglySorted R subs -> StronglySorted R (first_wins P subs F).
Proof.
  intros R P. induction subs as [|x r IH]; intros F H; simpl. constructor.
  inversion H as [|? ? Hr Hx]; subst. rewrite Forall_forall in Hx.
  assert (Hc : forall F', StronglySorted R (x :: first_wins P r F')).
  { intro F'. constructor. apply IH; auto. apply Forall_forall. intros y Hy. apply Hx. apply (first_wins_incl P r F' y Hy). }
  destruct (shadowed P (e_base x) (e_folders x)). apply IH; auto.
  destruct (negb ((path_suffix (e_abs x) =? ".py") || (path_suffix (e_abs x) =? ".pyi"))). apply Hc.
  destruct (found_get F (e_parts x, path_suffix (e_abs x))) as [d|]; [destruct (path_eqb d (e_base x))|]; auto.
Qed.

Lemma iter_one_sorted : forall U d, wf_universe U -> StronglySorted Re (iter_one U d).
Proof.
  intros U d Hw. unfold iter_one. destruct (start_dir d) as [d'|]; [|constructor].
  destruct (iter_files_flat d' (portion_files U d') []) as (s & ->).
  apply entries_sorted. apply portion_files_sorted. auto.
Qed.

Lemma all_subs_sorted : forall U ds, wf_universe U -> NoDup (map bd ds) -> StronglySorted R3 (all_subs U ds).
Proof.
  intros U ds Hw. induction ds as [|d ds IH]; intros Hnd; simpl. constructor.
  inversion Hnd as [|? ? Hd Hnd']; subst. apply SS_app.
  - apply (SS_impl _ Re). intros x y _ _ H _. exact H. apply iter_one_sorted. auto.
  - apply IH. auto.
  - intros x y Hx Hy Hb. exfalso. apply Hd.
    apply in_flat_map in Hy. destruct Hy as (d2 & Hd2 & Hy).
    rewrite (iter_one_base U d x Hx) in Hb. rewrite (iter_one_base U d2 y Hy) in Hb. rewrite Hb. apply in_map. auto.
Qed.

(* every yielded entry: which portion, which file *)
Lemma iter_portions_yields : forall U ds x, In x (iter_portions U ds) ->
  exists r, r <> [] /\ yields (e_base x) r x.
Proof.
  intros U ds x H. unfold iter_portions in H. apply first_wins_incl in H. destruct H as [H _].
  unfold all_subs in H. apply in_flat_map in H. destruct H as (d & _ & H).
  unfold iter_one in H. destruct (start_dir d) as [d'|] eqn:Es; [|contradiction].
  destruct (iter_files_flat d' (portion_files U d') []) as (s & E). rewrite E in H.
  apply in_flat_map in H. destruct H as (r & Hr & H).
  assert (Hb : e_base x = d').
  { unfold ylist in H. destruct (name_to_yield r); simpl in H; try contradiction; destruct H as [<-|[]]; reflexivity. }
  exists r. split. unfold portion_files in Hr. destruct (node_at U d'); [|contradiction]. eapply walk_nonempty; eauto.
  rewrite Hb. apply ylist_yields. auto.
Qed.

Lemma ok_same_kind_same_key : forall a b, entry_ok a = true -> entry_ok b = true -> e_parts a = e_parts b -> is_pyi a = is_pyi b ->
  src a = true /\ fkey a = fkey b.
Proof.
  intros a b Oa Ob Hp Hk. unfold entry_ok, static_loadable in Oa, Ob. apply andb_true_iff in Oa, Ob. destruct Oa as [_ Oa], Ob as [_ Ob].
  split. exact Oa. unfold fkey. rewrite Hp. f_equal. unfold is_pyi in Hk.
  apply orb_true_iff in Oa, Ob.
  destruct Oa as [Oa|Oa], Ob as [Ob|Ob]; apply String.eqb_eq in Oa, Ob; rewrite Oa, Ob in *; auto; simpl in Hk; discriminate.
Qed.

Section OneUniverse.
  Variable U : universe.
  Variable ds : list path.
  Hypothesis Hw : wf_universe U.
  Hypothesis Hnd : NoDup (map bd ds).
  Let E := depth_sort (iter_portions U ds).

  Lemma E_sorted : StronglySorted Rd3 E.
  Proof. apply depth_sort_SS_gen. apply SS_first_wins. apply all_subs_sorted; auto. Qed.

  Lemma cands_E_in : forall q a, In a (cands q E) <-> In a (iter_portions U ds) /\ entry_ok a = true /\ e_parts a = q.
  Proof. intros. unfold cands, E. rewrite filter_In, depth_sort_In. unfold cand. rewrite andb_true_iff, lstr_eqb_eq. tauto. Qed.

  (* the candidates of one name: module files before package __init__ files, within each kind *)
  Lemma cands_Rf_ns : forall q, StronglySorted Rf (cands q E).
  Proof.
    intro q. apply (SS_impl _ Rd3). 2: { unfold cands. apply SS_filter. apply E_sorted. }
    intros a b Ha Hb Hab Hk Hia.
    apply cands_E_in in Ha, Hb. destruct Ha as (Ia & Oa & Pa), Hb as (Ib & Ob & Pb).
    destruct Hab as [Hlt|[_ H3]]. { unfold depth in Hlt. rewrite Pa, Pb in Hlt. lia. }
    destruct (ok_same_kind_same_key a b Oa Ob ltac:(congruence) Hk) as [Sa Hkey].
    assert (Hbase : e_base a = e_base b) by (unfold iter_portions in Ia, Ib; eapply first_wins_unique; eauto).
    specialize (H3 Hbase).
    destruct (init_path (e_abs b)) eqn:Ib'; auto. exfalso.
    destruct (iter_portions_yields U ds a Ia) as (ra & Nra & Ya). destruct (iter_portions_yields U ds b Ib) as (rb & Nrb & Yb).
    destruct (ok_entry_shape _ _ _ Ya Oa Nra) as (Ra & _ & _ & [(Ia2 & Qa & _)|(Ia2 & _)]); [|congruence].
    destruct (ok_entry_shape _ _ _ Yb Ob Nrb) as (Rb & _ & _ & [(Ib2 & _)|(_ & Qb)]); [congruence|].
    unfold Re, Rw, dir_of in H3. rewrite Ra, Rb in H3. rewrite <- Qa, Pa in H3.
    rewrite <- Pb, Qb in H3. rewrite ipp_app_true in H3 by discriminate. discriminate.
  Qed.
End OneUniverse.

(* ------------------------------------------------------------------------------------------------------------- *)
(* B.  the directories a namespace sub-package records *)
Lemma add_dir_In : forall ps d p, In p (add_dir ps d) <-> In p ps \/ p = d.
Proof.
  intros ps d p. unfold add_dir. destruct (mem_path d ps) eqn:E.
  - split; auto. intros [H|H]; auto. subst. unfold mem_path in E. apply existsb_exists in E. destruct E as (y & Hy & E).
    apply path_eqb_eq in E. subst. auto.
  - rewrite in_app_iff. simpl. intuition.
Qed.

Lemma fold_add_dir_In : forall l acc p, In p (fold_left add_dir l acc) <-> In p acc \/ In p l.
Proof.
  induction l as [|d l IH]; intros acc p; simpl. tauto.
  rewrite IH, add_dir_In. intuition.
Qed.

Lemma dirs_thru_In : forall k E p, In p (dirs_thru k E) <-> exists x, In x E /\ thru k x = true /\ p = dir_at (List.length k) x.
Proof.
  intros k E p. unfold dirs_thru. rewrite fold_add_dir_In, in_map_iff. split.
  - intros [[]|(x & Hx & Hin)]. apply filter_In in Hin. destruct Hin. exists x. repeat split; auto.
  - intros (x & Hx & Ht & ->). right. exists x. split; auto. apply filter_In. auto.
Qed.

(* ------------------------------------------------------------------------------------------------------------- *)
(* C.  the tree up to the order in which a namespace sub-package lists its directories *)
Definition rel_minfo (a b : option minfo) : Prop :=
  match a, b with
  | None, None => True
  | Some (MFile f), Some (MFile g) => f = g
  | Some (MNs ps), Some (MNs qs) => forall p, In p ps <-> In p qs
  | _, _ => False
  end.

Definition same_tree_ns (a b : loaded) : Prop :=
  match a, b with
  | LOk M, LOk M' => forall k, rel_minfo (lookup_m k M) (lookup_m k M')
  | LErr x, LErr y => x = y
  | LNotFound, LNotFound => True
  | _, _ => False
  end.

Lemma rel_minfo_refl : forall a, rel_minfo a a.
Proof. intros [[f|ps]|]; simpl; tauto. Qed.

Lemma same_tree_implies_ns : forall a b, same_tree a b -> same_tree_ns a b.
Proof. intros [| |M] [| |M'] H; simpl in *; auto. intro k. rewrite H. apply rel_minfo_refl. Qed.

Theorem runN_ext_set : forall top E1 E2,
  sorted E1 -> sorted E2 -> (forall e, In e E1 -> e_parts e <> []) -> (forall e, In e E2 -> e_parts e <> []) ->
  (forall q, pick E1 q = pick E2 q) -> (forall k p, In p (dirs_thru k E1) <-> In p (dirs_thru k E2)) ->
  forall k, rel_minfo (lookup_m k (runN top E1)) (lookup_m k (runN top E2)).
Proof.
  intros top E1 E2 S1 S2 N1 N2 Hp Hd k. rewrite !runN_spec by auto. unfold spec, specD.
  destruct k as [|c k0] eqn:Ek. apply rel_minfo_refl. rewrite <- Ek. unfold specF, specN.
  rewrite (okc_ext E1 E2) by (intros; apply Hp). rewrite (nsb_ext E1 E2) by (intros; apply Hp). rewrite Hp.
  destruct (okc E2 (is_ns top) [] (removelast k)); [destruct (pick E2 k); simpl; auto|].
  - destruct (is_ns top && nsb E2 [] k); simpl; auto.
    specialize (Hd k). destruct (dirs_thru k E1) as [|a l], (dirs_thru k E2) as [|b m]; simpl; auto.
    + apply (Hd b). left; auto.
    + apply (Hd a). left; auto.
  - destruct (is_ns top && nsb E2 [] k); simpl; auto.
    specialize (Hd k). destruct (dirs_thru k E1) as [|a l], (dirs_thru k E2) as [|b m]; simpl; auto.
    + apply (Hd b). left; auto.
    + apply (Hd a). left; auto.
Qed.

(* ------------------------------------------------------------------------------------------------------------- *)
(* D.  the theorem *)
Lemma pick_invariant_ns : forall U U' ds q,
  perm_universe U U' -> wf_universe U -> NoDup (map bd ds) ->
  pick (depth_sort (iter_portions U ds)) q = pick (depth_sort (iter_portions U' ds)) q.
Proof.
  intros U U' ds q Hp Hw Hnd. pose proof (wf_universe_perm U U' Hp Hw) as Hw'.
  pose proof (iter_portions_order_invariant U U' ds Hp Hw Hnd) as Hset.
  unfold pick.
  set (l1 := cands q (depth_sort (iter_portions U ds))). set (l2 := cands q (depth_sort (iter_portions U' ds))).
  assert (Hel : forall x, In x l1 <-> In x l2).
  { intro x. unfold l1, l2. rewrite !cands_E_in. rewrite Hset. tauto. }
  pose proof (pickseq_best l1 (cands_Rf_ns U ds Hw Hnd q)) as B1.
  pose proof (pickseq_best l2 (cands_Rf_ns U' ds Hw' Hnd q)) as B2.
  destruct (pickseq l1) as [p1|], (pickseq l2) as [p2|]; auto.
  - destruct B1 as (a1 & I1 & E1 & M1), B2 as (a2 & I2 & E2 & M2).
    pose proof (M1 a2 (proj2 (Hel a2) I2)). pose proof (M2 a1 (proj1 (Hel a1) I1)).
    destruct (rank_inj a1 a2 ltac:(lia)) as [Hk Hi].
    apply (proj2 (Hel a2)) in I2. unfold l1 in I1, I2. apply cands_E_in in I1, I2.
    destruct I1 as (J1 & O1 & Q1), I2 as (J2 & O2 & Q2).
    destruct (ok_same_kind_same_key a1 a2 O1 O2 ltac:(congruence) Hk) as [Sa Hkey].
    assert (Hbase : e_base a1 = e_base a2) by (unfold iter_portions in J1, J2; eapply first_wins_unique; eauto).
    destruct (iter_portions_yields U ds a1 J1) as (r1 & N1 & Y1). destruct (iter_portions_yields U ds a2 J2) as (r2 & N2 & Y2).
    rewrite <- Hbase in Y2.
    assert (a1 = a2) by (eapply ok_entry_unique; eauto; congruence). congruence.
  - destruct B1 as (a1 & I1 & _). rewrite B2 in Hel. exfalso. apply (Hel a1). auto.
  - destruct B2 as (a2 & I2 & _). rewrite B1 in Hel. exfalso. apply (Hel a2). auto.
Qed.

Lemma iter_portions_parts : forall U ds e, In e (depth_sort (iter_portions U ds)) -> e_parts e <> [].
Proof.
  intros U ds e H. apply (proj1 (depth_sort_In _ _)) in H. unfold iter_portions in H. apply first_wins_incl in H. destruct H as [H _].
  unfold all_subs in H. apply in_flat_map in H. destruct H as (d & _ & H). eapply iter_one_parts; eauto.
Qed.

(* Listing-order invariance, namespace packages over several distinct portions. *)
Theorem listing_order_invariant_namespace : forall U U' ds,
  perm_universe U U' -> wf_universe U -> NoDup (map bd ds) ->
  same_tree_ns (load_found false U (FNs ds)) (load_found false U' (FNs ds)).
Proof.
  intros U U' ds Hp Hw Hnd. rewrite !load_found_ns. simpl. intro k.
  apply runN_ext_set.
  - apply depth_sort_sorted.
  - apply depth_sort_sorted.
  - apply iter_portions_parts.
  - apply iter_portions_parts.
  - intro q. apply pick_invariant_ns; auto.
  - intros k0 p. rewrite !dirs_thru_In.
    pose proof (iter_portions_order_invariant U U' ds Hp Hw Hnd) as Hset.
    split; intros (x & Hx & H); exists x; (split; [|exact H]); apply depth_sort_In; apply (proj1 (depth_sort_In _ _)) in Hx; apply Hset; auto.
Qed.

(* the portions find_package collects are distinct directories when the search paths are *)
Lemma fst_bd : forall d, fst (bd d) = fst d.
Proof. intro d. unfold bd, start_dir. destruct (pl_stem (last (snd d) "") =? "__init__"); auto. destruct (mem_str (pl_suffix (last (snd d) "")) accepted_exts); auto. Qed.

Lemma g_find_ns_fst : forall U name paths nsacc ds,
  g_find U name paths nsacc = FNs ds -> exists l, ds = nsacc ++ l /\ (forall d, In d l -> In (fst d) paths) /\
    (NoDup paths -> NoDup (map fst l)).
Proof.
  intros U name. induction paths as [|i r IH]; intros nsacc ds H.
  - simpl in H. destruct nsacc as [|a0 nsacc0]; inversion H; subst. exists []. rewrite app_nil_r.
    split. reflexivity. split. intros d []. intros _. constructor.
  - rewrite g_find_cons in H. unfold g_step in H. destruct (top_obs name (root U i)) as [[o py] pyi].
    assert (Hrec : forall acc, g_find U name r acc = FNs ds -> forall l0, acc = nsacc ++ l0 -> (forall d, In d l0 -> fst d = i) -> List.length l0 <= 1 ->
               exists l, ds = nsacc ++ l /\ (forall d, In d l -> In (fst d) (i :: r)) /\ (NoDup (i :: r) -> NoDup (map fst l))).
    { intros acc Ha l0 -> Hl0 Hlen. destruct (IH _ _ Ha) as (l & -> & Hin & Hnd). exists (l0 ++ l). split. rewrite app_assoc. reflexivity.
      split. intros d Hd. apply in_app_or in Hd. destruct Hd as [Hd|Hd]. left. symmetry. auto. right. auto.
      intro Hn. inversion Hn as [|? ? Hi Hn']; subst. rewrite map_app.
      destruct l0 as [|d0 [|d1 l0]]; simpl in *; try lia. apply Hnd; auto.
      constructor. intro Hd. apply in_map_iff in Hd. destruct Hd as (d & Hd1 & Hd2). rewrite (Hl0 d0) in Hd1 by auto. apply Hi. rewrite <- Hd1. apply Hin. auto.
      apply Hnd; auto. }
    destruct o as [[reg stub]|].
    + destruct reg; [discriminate|]. destruct stub; [discriminate|]. destruct py; [discriminate|].
      apply (Hrec _ H [(i, [name])]). reflexivity. intros d [<-|[]]. reflexivity. simpl. lia.
    + destruct py; [discriminate|]. apply (Hrec _ H []). rewrite app_nil_r. reflexivity. intros d []. simpl. lia.
Qed.

Lemma NoDup_fst_bd : forall ds, NoDup (map fst ds) -> NoDup (map bd ds).
Proof.
  induction ds as [|d ds IH]; simpl; intro H; constructor; inversion H; subst; auto.
  intro Hin. apply in_map_iff in Hin. destruct Hin as (d' & Hb & Hd'). apply H2. apply in_map_iff. exists d'. split; auto.
  rewrite <- (fst_bd d'), Hb, fst_bd. reflexivity.
Qed.

(* The whole static load, whatever find_package answers -- regular package, namespace package, nothing --, under every
   permutation of every directory listing; the search directories are distinct. *)
Theorem load_order_invariant : forall U U' name paths,
  perm_universe U U' -> wf_universe U -> NoDup paths ->
  same_tree_ns (load_found false U (g_find U name paths [])) (load_found false U' (g_find U' name paths [])).
Proof.
  intros U U' name paths Hp Hw Hnd.
  rewrite <- (find_order_invariant U U' name paths [] Hp Hw).
  destruct (g_find U name paths []) as [p st|ds|] eqn:Ef.
  - apply same_tree_implies_ns. apply listing_order_invariant_regular_full; auto.
  - apply listing_order_invariant_namespace; auto.
    destruct (g_find_ns_fst U name paths [] ds Ef) as (l & -> & _ & Hl). simpl. apply NoDup_fst_bd. auto.
  - simpl. auto.
Qed.

(* the effective search paths are distinct directories *)
Lemma NoDup_app_disj : forall (l1 l2 : list nat),
  NoDup l1 -> NoDup l2 -> (forall x, In x l2 -> ~ In x l1) -> NoDup (l1 ++ l2).
Proof.
  induction l1 as [|a r IH]; intros l2 H1 H2 Hd; simpl; auto.
  inversion H1; subst. constructor.
  - intro Ha. apply in_app_or in Ha. destruct Ha as [Ha|Ha]; auto. apply (Hd a Ha). left; auto.
  - apply IH; auto. intros x Hx Hr. apply (Hd x Hx). right; auto.
Qed.

Lemma g_paths_NoDup : forall U sps, NoDup (g_paths U sps).
Proof.
  intros U sps. unfold g_paths.
  assert (G : forall l acc, NoDup acc -> NoDup (fold_left (fun acc p => acc ++ add_new (pth_targets_griffe (root U p)) acc) l acc)).
  { induction l as [|p l IH]; intros acc H; simpl; auto. apply IH.
    destruct (add_new_spec (pth_targets_griffe (root U p)) acc) as [H1 H2].
    apply NoDup_app_disj; auto. intros x Hx. apply H2. auto. }
  apply G. apply add_new_spec.
Qed.

(* The whole static load as the model runs it -- .pth extension of the search paths, find_package, iter_submodules,
   the loader's fold -- does not depend on the order in which any directory is listed. *)
Theorem load_order_invariant_full : forall U U' sps name,
  perm_universe U U' -> wf_universe U ->
  same_tree_ns (load false U sps name) (load false U' sps name).
Proof.
  intros U U' sps name Hp Hw. unfold load. rewrite <- (g_paths_order_invariant U U' sps Hp Hw).
  apply load_order_invariant; auto. apply g_paths_NoDup.
Qed.

(* non-vacuity: two listings of a namespace package over two portions with overlapping sub-directories *)
Definition F0o : node := File false [].
Definition U_o1 : universe :=
  [(0, [("aa", Dir [("sub", Dir [("a.py", F0o); ("deep", Dir [("x.py", F0o)])]); ("m.py", F0o); ("m", Dir [("__init__.py", F0o)])])]);
   (1, [("aa", Dir [("sub", Dir [("b.py", F0o)]); ("m.py", F0o)])])].
Definition U_o2 : universe :=
  [(0, [("aa", Dir [("m", Dir [("__init__.py", F0o)]); ("m.py", F0o); ("sub", Dir [("deep", Dir [("x.py", F0o)]); ("a.py", F0o)])])]);
   (1, [("aa", Dir [("m.py", F0o); ("sub", Dir [("b.py", F0o)])])])].
Example order_invariant_example :
  (exists M, load false U_o1 [0; 1] "aa" = LOk M /\ lookup_m ["m"] M = Some (MFile (0, ["aa"; "m"; "__init__.py"])) /\
             lookup_m ["sub"] M = Some (MNs [(0, ["aa"; "sub"]); (1, ["aa"; "sub"])])) /\
  (exists M, load false U_o2 [0; 1] "aa" = LOk M /\ lookup_m ["m"] M = Some (MFile (0, ["aa"; "m"; "__init__.py"])) /\
             lookup_m ["sub"] M = Some (MNs [(0, ["aa"; "sub"]); (1, ["aa"; "sub"])])).
Proof.
  split; eexists; (split; [vm_compute; reflexivity|split; vm_compute; reflexivity]).
Qed.
