(* C16 proofs: object-tree invariants for every history of member mutations. *)
From Coq Require Import List ZArith String Ascii Bool Arith Lia.
From Verif Require Import Lib.Sexp Model.C16_tree.
Import ListNotations.
Open Scope string_scope.
Open Scope list_scope.
Open Scope nat_scope.

(* ================================================================ A. dictionaries, heaps *)

Lemma path_eqb_eq : forall p q, path_eqb p q = true <-> p = q.
Proof.
  induction p as [|a p IH]; destruct q as [|b q]; simpl; split; intro H; try discriminate; auto.
  - apply andb_true_iff in H. destruct H as [H1 H2]. apply String.eqb_eq in H1. apply IH in H2. congruence.
  - inversion H; subst. rewrite String.eqb_refl. simpl. apply IH. reflexivity.
Qed.

Lemma path_eqb_refl : forall p, path_eqb p p = true.
Proof. intro p. apply path_eqb_eq. reflexivity. Qed.

Lemma path_eqb_neq : forall p q, p <> q -> path_eqb p q = false.
Proof. intros p q H. destruct (path_eqb p q) eqn:E; auto. apply path_eqb_eq in E. contradiction. Qed.

Section AssocFacts.
  Context {K V : Type} (eqb : K -> K -> bool).
  Hypothesis eqb_spec : forall a b, eqb a b = true <-> a = b.

  Lemma eqb_rfl : forall a, eqb a a = true.
  Proof. intro a. apply eqb_spec. reflexivity. Qed.

  Lemma eqb_false : forall a b, a <> b -> eqb a b = false.
  Proof. intros a b H. destruct (eqb a b) eqn:E; auto. apply eqb_spec in E. contradiction. Qed.

  Lemma lookup_put_same : forall k (v : V) l, lookup eqb k (put eqb k v l) = Some v.
  Proof.
    intros k v l. induction l as [|[k' v'] r IH]; simpl.
    - rewrite eqb_rfl. reflexivity.
    - destruct (eqb k k') eqn:E; simpl; rewrite E; auto.
  Qed.

  Lemma lookup_put_other : forall k k' (v : V) l, k' <> k -> lookup eqb k' (put eqb k v l) = lookup eqb k' l.
  Proof.
    intros k k' v l Hne. induction l as [|[k2 v2] r IH]; simpl.
    - rewrite eqb_false; auto.
    - destruct (eqb k k2) eqn:E; simpl.
      + apply eqb_spec in E. subst k2. reflexivity.
      + rewrite IH. reflexivity.
  Qed.

  Lemma lookup_del_same : forall k (l : list (K * V)), lookup eqb k (del eqb k l) = None.
  Proof.
    intros k l. induction l as [|[k' v'] r IH]; simpl; auto.
    destruct (eqb k k') eqn:E; simpl; auto. rewrite E. exact IH.
  Qed.

  Lemma lookup_del_other : forall k k' (l : list (K * V)), k' <> k -> lookup eqb k' (del eqb k l) = lookup eqb k' l.
  Proof.
    intros k k' l Hne. induction l as [|[k2 v2] r IH]; simpl; auto.
    destruct (eqb k k2) eqn:E; simpl.
    - apply eqb_spec in E. subst k2. rewrite eqb_false; auto.
    - rewrite IH. reflexivity.
  Qed.

  Lemma lookup_In : forall k (v : V) l, lookup eqb k l = Some v -> In (k, v) l.
  Proof.
    intros k v l. induction l as [|[k' v'] r IH]; simpl; intro H; try discriminate.
    destruct (eqb k k') eqn:E.
    - apply eqb_spec in E. inversion H; subst. left. reflexivity.
    - right. auto.
  Qed.

  Lemma In_put : forall k (v : V) k' v' l, In (k', v') (put eqb k v l) -> (k' = k /\ v' = v) \/ In (k', v') l.
  Proof.
    intros k v k' v' l. induction l as [|[k2 v2] r IH]; simpl; intro H.
    - destruct H as [H|[]]. inversion H; subst. left. auto.
    - destruct (eqb k k2) eqn:E.
      + apply eqb_spec in E. subst k2. destruct H as [H|H].
        * inversion H; subst. left. auto.
        * right. right. exact H.
      + destruct H as [H|H].
        * right. left. exact H.
        * apply IH in H. destruct H as [H|H]; [left|right; right]; exact H.
  Qed.

  Lemma keys_put : forall k (v : V) l x, In x (map fst (put eqb k v l)) -> x = k \/ In x (map fst l).
  Proof.
    intros k v l x. induction l as [|[k2 v2] r IH]; simpl; intro H.
    - destruct H as [H|[]]. left. auto.
    - destruct (eqb k k2) eqn:E; simpl in H.
      + apply eqb_spec in E. subst k2. destruct H as [H|H]; [left; auto | right; right; exact H].
      + destruct H as [H|H]; [right; left; exact H|]. apply IH in H. destruct H; [left|right; right]; auto.
  Qed.

  Lemma NoDup_put : forall k (v : V) l, NoDup (map fst l) -> NoDup (map fst (put eqb k v l)).
  Proof.
    intros k v l. induction l as [|[k2 v2] r IH]; simpl; intro H.
    - constructor; [intros []|constructor].
    - inversion H as [|? ? Hn Hr]; subst. destruct (eqb k k2) eqn:E; simpl.
      + constructor; assumption.
      + constructor; [|auto]. intro Hin. apply keys_put in Hin. destruct Hin as [Hin|Hin].
        * subst k2. rewrite eqb_rfl in E. discriminate.
        * contradiction.
  Qed.

  Lemma lookup_NoDup_In : forall k (v : V) l, NoDup (map fst l) -> In (k, v) l -> lookup eqb k l = Some v.
  Proof.
    intros k v l. induction l as [|[k2 v2] r IH]; simpl; intros Hnd Hin; [contradiction|].
    inversion Hnd as [|? ? Hn Hr]; subst. destruct Hin as [Hin|Hin].
    - inversion Hin; subst. rewrite eqb_rfl. reflexivity.
    - destruct (eqb k k2) eqn:E.
      + apply eqb_spec in E. subst k2. exfalso. apply Hn. apply in_map_iff. exists (k, v). auto.
      + auto.
  Qed.
End AssocFacts.

Definition str_spec := String.eqb_eq.

Lemma mlookup_put_same : forall k v l, mlookup k (mput k v l) = Some v.
Proof. intros. apply lookup_put_same. apply String.eqb_eq. Qed.
Lemma mlookup_put_other : forall k k' v l, k' <> k -> mlookup k' (mput k v l) = mlookup k' l.
Proof. intros. apply lookup_put_other; auto. apply String.eqb_eq. Qed.
Lemma mlookup_del_same : forall k l, mlookup k (mdel k l) = None.
Proof. intros. apply lookup_del_same. Qed.
Lemma mlookup_del_other : forall k k' l, k' <> k -> mlookup k' (mdel k l) = mlookup k' l.
Proof. intros. apply lookup_del_other; auto. apply String.eqb_eq. Qed.
Lemma alookup_put_same : forall k v l, alookup k (aput k v l) = Some v.
Proof. intros. apply lookup_put_same. apply path_eqb_eq. Qed.
Lemma alookup_put_other : forall k k' v l, k' <> k -> alookup k' (aput k v l) = alookup k' l.
Proof. intros. apply lookup_put_other; auto. apply path_eqb_eq. Qed.
Lemma In_aput : forall k v k' v' l, In (k', v') (aput k v l) -> (k' = k /\ v' = v) \/ In (k', v') l.
Proof. intros. eapply In_put; eauto. apply path_eqb_eq. Qed.
Lemma NoDup_aput : forall k v l, NoDup (map fst l) -> NoDup (map fst (aput k v l)).
Proof. intros. apply NoDup_put; auto. apply path_eqb_eq. Qed.
Lemma alookup_NoDup_In : forall k v l, NoDup (map fst l) -> In (k, v) l -> alookup k l = Some v.
Proof. intros. apply lookup_NoDup_In; auto. apply path_eqb_eq. Qed.
Lemma alookup_In : forall k v l, alookup k l = Some v -> In (k, v) l.
Proof. intros. eapply lookup_In; eauto. apply path_eqb_eq. Qed.

(* ---- upd *)
Lemma upd_length : forall h i f, List.length (upd h i f) = List.length h.
Proof. induction h as [|n r IH]; intros [|j] f; simpl; auto. Qed.

Lemma nth_upd_same : forall h i f, nth_error (upd h i f) i = option_map f (nth_error h i).
Proof. induction h as [|n r IH]; intros [|j] f; simpl; auto. Qed.

Lemma nth_upd_other : forall h i j f, i <> j -> nth_error (upd h i f) j = nth_error h j.
Proof.
  induction h as [|n r IH]; intros [|i] [|j] f H; simpl; auto; try congruence.
  apply IH. congruence.
Qed.

Lemma getn_upd_same : forall s i f, getn (upd_state s i f) i = option_map f (getn s i).
Proof. intros. unfold getn, upd_state. simpl. apply nth_upd_same. Qed.

Lemma getn_upd_other : forall s i j f, i <> j -> getn (upd_state s i f) j = getn s j.
Proof. intros. unfold getn, upd_state. simpl. apply nth_upd_other. auto. Qed.

(* one statement for both cases *)
Lemma getn_upd : forall s i j f,
  getn (upd_state s i f) j = if Nat.eqb i j then option_map f (getn s j) else getn s j.
Proof.
  intros. destruct (Nat.eqb i j) eqn:E.
  - apply Nat.eqb_eq in E. subst. apply getn_upd_same.
  - apply Nat.eqb_neq in E. apply getn_upd_other. auto.
Qed.

Lemma getn_lt : forall s i n, getn s i = Some n -> i < List.length (heap s).
Proof. intros s i n H. unfold getn in H. apply nth_error_Some. congruence. Qed.

(* ================================================================ B. no alias ever targets itself (any history) *)

Definition NoSelf (s : state) : Prop := forall a n, getn s a = Some n -> ntarget n <> Some a.

(* every self-target present in s' was already present in s *)
Definition TP (s s' : state) : Prop :=
  forall a n', getn s' a = Some n' -> ntarget n' = Some a -> exists n, getn s a = Some n /\ ntarget n = Some a.

Lemma TP_refl : forall s, TP s s.
Proof. intros s a n H1 H2. eauto. Qed.

Lemma TP_trans : forall s1 s2 s3, TP s1 s2 -> TP s2 s3 -> TP s1 s3.
Proof.
  intros s1 s2 s3 H12 H23 a n3 Hg Ht.
  destruct (H23 a n3 Hg Ht) as [n2 [Hg2 Ht2]]. eauto.
Qed.

Lemma TP_NoSelf : forall s s', TP s s' -> NoSelf s -> NoSelf s'.
Proof.
  intros s s' H Hs a n Hg Ht. destruct (H a n Hg Ht) as [n0 [Hg0 Ht0]]. exact (Hs a n0 Hg0 Ht0).
Qed.

(* an update that leaves the target field alone *)
Lemma TP_upd_keep : forall s i f, (forall n, ntarget (f n) = ntarget n) -> TP s (upd_state s i f).
Proof.
  intros s i f Hf a n' Hg Ht. rewrite getn_upd in Hg. destruct (Nat.eqb i a) eqn:E.
  - destruct (getn s a) as [n|] eqn:G; simpl in Hg; [|discriminate]. inversion Hg; subst.
    rewrite Hf in Ht. eauto.
  - eauto.
Qed.

Lemma TP_upd_target : forall s a v tp, v <> a -> TP s (upd_state s a (with_target (Some v) tp)).
Proof.
  intros s a v tp Hne x n' Hg Ht. rewrite getn_upd in Hg. destruct (Nat.eqb a x) eqn:E.
  - apply Nat.eqb_eq in E. subst x. destruct (getn s a) as [n|] eqn:G; simpl in Hg; [|discriminate].
    inversion Hg; subst. simpl in Ht. congruence.
  - eauto.
Qed.

Lemma TP_root : forall s rt, TP s (mkState (heap s) rt).
Proof. intros s rt a n Hg Ht. unfold getn in *. simpl in *. eauto. Qed.

Lemma TP_add_backref : forall s t p a, TP s (add_backref s t p a).
Proof. intros. unfold add_backref. apply TP_upd_keep. intro n. reflexivity. Qed.

Lemma TP_set_target : forall s a v s', set_target s a v = Ok s' -> TP s s'.
Proof.
  intros s a v s' H. unfold set_target in H.
  destruct (kind_of s a) as [[| | | |]|]; try discriminate.
  destruct (kind_of s v) as [kv|]; try discriminate.
  destruct (Nat.eqb v a) eqn:E; try discriminate. apply Nat.eqb_neq in E.
  destruct (path_of s v) as [vp| |]; try discriminate.
  destruct (path_of s a) as [ap| |]; try discriminate.
  destruct (path_eqb vp ap); try discriminate.
  destruct (is_ali kv); try discriminate.
  inversion H; subst. eapply TP_trans; [apply TP_upd_target; exact E | apply TP_add_backref].
Qed.

Lemma TP_retarget_all : forall als s v, TP s (fst (retarget_all s als v)).
Proof.
  induction als as [|a r IH]; intros s v; simpl.
  - apply TP_refl.
  - destruct (set_target s a v) as [s'|e] eqn:E.
    + eapply TP_trans; [eapply TP_set_target; eauto | apply IH].
    + destruct e; try apply TP_refl. apply IH.
Qed.

Lemma TP_update_target_aliases : forall s a s', update_target_aliases s a = Ok s' -> TP s s'.
Proof.
  intros s a s' H. unfold update_target_aliases in H.
  destruct (getn s a) as [n|]; [|inversion H; apply TP_refl].
  destruct (ntarget n) as [t|]; [|inversion H; apply TP_refl].
  destruct (path_of s a); inversion H; subst; try apply TP_refl. apply TP_add_backref.
Qed.

Lemma TP_write_member : forall s c k v s', write_member s c k v = Ok s' -> TP s s'.
Proof.
  intros s c k v s' H. unfold write_member in H. destruct c as [|i].
  - inversion H; subst. intros a n' Hg Ht. unfold getn in Hg. simpl in Hg.
    destruct (Nat.eq_dec v a) as [->|Hne].
    + rewrite nth_upd_same in Hg. destruct (nth_error (heap s) a) as [n|] eqn:G; simpl in Hg; [|discriminate].
      inversion Hg; subst. simpl in Ht. exists n. split; auto.
    + rewrite nth_upd_other in Hg by auto. eauto.
  - set (s1 := upd_state s i (fun n => with_members (mput k v (nmembers n)) n)) in *.
    set (s2 := upd_state s1 v (with_parent (Some i))) in *.
    assert (H12 : TP s s2).
    { eapply TP_trans; [apply (TP_upd_keep s i); intro n; reflexivity | apply TP_upd_keep; intro n; reflexivity]. }
    destruct (kind_of s v) as [[| | | |]|]; try (inversion H; subst; exact H12).
    eapply TP_trans; [exact H12 | eapply TP_update_target_aliases; eauto].
Qed.

Lemma TP_replace_prelude : forall s m v, TP s (fst (replace_prelude s m v)).
Proof.
  intros s m v. unfold replace_prelude.
  destruct (getn s m) as [mn|]; [|apply TP_refl].
  destruct (getn s v) as [vn|]; [|apply TP_refl].
  destruct (is_ali (nkind mn)); [apply TP_refl|].
  destruct (is_mod (nkind mn) && is_ali (nkind vn)); [apply TP_refl|].
  apply TP_retarget_all.
Qed.

Lemma TP_set_value : forall s a r p v, TP s (fst (set_value s a r p v)).
Proof.
  intros s a r p v. unfold set_value.
  destruct (getn s v); [|apply TP_refl].
  destruct (locate s r p) as [[c k]|e]; [|apply TP_refl].
  destruct (members_r s c) as [ms|e]; [|apply TP_refl].
  assert (Hpre : forall s1 e1, TP s s1 ->
     TP s (fst (match e1 with
                | Some e => (s1, Some e)
                | None => match write_member s1 c k v with Ok s2 => (s2, None) | Err e => (s1, Some e) end
                end))).
  { intros s1 e1 H1. destruct e1; simpl; auto.
    destruct (write_member s1 c k v) as [s2|e] eqn:W; simpl; auto.
    eapply TP_trans; [exact H1 | eapply TP_write_member; eauto]. }
  destruct a.
  - destruct (mlookup k ms) as [m|].
    + pose proof (TP_replace_prelude s m v) as Hp. destruct (replace_prelude s m v) as [s1 e1]. simpl in Hp.
      apply Hpre. exact Hp.
    + apply Hpre. apply TP_refl.
  - destruct (mlookup k ms); apply Hpre; apply TP_refl.
Qed.

Lemma TP_del_value : forall s r p, TP s (fst (del_value s r p)).
Proof.
  intros s r p. unfold del_value.
  destruct (locate s r p) as [[c k]|e]; [|apply TP_refl].
  destruct (get_at s c k); [|apply TP_refl].
  destruct c; simpl.
  - apply TP_root.
  - apply TP_upd_keep. intro n. reflexivity.
Qed.

Lemma TP_resolve : forall s a, TP s (fst (resolve s a)).
Proof.
  intros s a. unfold resolve.
  destruct (getn s a) as [n|]; [|apply TP_refl].
  destruct (negb (is_ali (nkind n))); [apply TP_refl|].
  destruct (has_mc s a); [|apply TP_refl].
  destruct (path_eqb (ntpath n) [""]); [apply TP_refl|].
  destruct (get s RRoot (ntpath n)) as [x|e]; [|destruct e; apply TP_refl].
  destruct (Nat.eqb x a) eqn:E; [apply TP_refl|]. apply Nat.eqb_neq in E.
  destruct (kind_of s x) as [kx|]; [|apply TP_refl].
  destruct (is_ali kx); [apply TP_refl|].
  assert (H1 : TP s (upd_state s a (with_target (Some x) (ntpath n)))) by (apply TP_upd_target; exact E).
  destruct (path_of s a); simpl; auto.
  eapply TP_trans; [exact H1 | apply TP_add_backref].
Qed.

Lemma getn_app_old : forall s nd i n, getn (mkState (heap s ++ [nd]) (root s)) i = Some n ->
  (i < List.length (heap s) /\ getn s i = Some n) \/ (i = List.length (heap s) /\ n = nd).
Proof.
  intros s nd i n H. unfold getn in *. simpl in H.
  destruct (Nat.lt_ge_cases i (List.length (heap s))) as [Hlt|Hge].
  - rewrite nth_error_app1 in H by exact Hlt. left. auto.
  - rewrite nth_error_app2 in H by exact Hge. right.
    destruct (i - List.length (heap s)) as [|d] eqn:D; simpl in H.
    + inversion H. split; [lia|reflexivity].
    + destruct d; discriminate.
Qed.

Lemma TP_alloc : forall s k n t, TP s (fst (alloc s k n t)).
Proof.
  intros s k n t. unfold alloc.
  assert (Hfresh : forall nd, (forall x, ntarget nd = Some x -> x < List.length (heap s)) ->
            TP s (mkState (heap s ++ [nd]) (root s))).
  { intros nd Hnd a n' Hg Ht. apply getn_app_old in Hg. destruct Hg as [[_ Hg]|[Ha Hn]].
    - eauto.
    - subst. apply Hnd in Ht. lia. }
  destruct k; destruct t as [|p|x]; simpl; try apply TP_refl;
    try (apply Hfresh; simpl; intros ? Hx; discriminate).
  destruct (kind_of s x) as [kx|] eqn:Kx; [|apply TP_refl].
  destruct (is_ali kx); [apply TP_refl|].
  destruct (path_of s x); simpl; try apply TP_refl.
  apply Hfresh. simpl. intros y Hy. inversion Hy; subst.
  unfold kind_of in Kx. destruct (getn s y) eqn:G; [|discriminate]. eapply getn_lt; eauto.
Qed.

Lemma TP_step : forall s o, TP s (fst (step s o)).
Proof.
  intros s o. destruct o as [k n t|a r p v|a r p k t|a r p|a|a v]; simpl.
  - apply TP_alloc.
  - apply TP_set_value.
  - destruct (negb (recv_exists s r)); [apply TP_refl|].
    pose proof (TP_alloc s k (last p "") t) as Ha.
    destruct (alloc s k (last p "") t) as [s1 [e|]]; simpl in *; auto.
    eapply TP_trans; [exact Ha | apply TP_set_value].
  - apply TP_del_value.
  - apply TP_resolve.
  - destruct (set_target s a v) as [s'|e] eqn:E; simpl; [eapply TP_set_target; eauto | apply TP_refl].
Qed.

Lemma NoSelf_init : NoSelf init.
Proof. intros a n H. unfold getn in H. simpl in H. destruct a; discriminate. Qed.

Lemma NoSelf_run : forall ops s, NoSelf s -> NoSelf (run s ops).
Proof.
  induction ops as [|o r IH]; intros s H; simpl; auto.
  apply IH. eapply TP_NoSelf; [apply TP_step | exact H].
Qed.

Theorem no_self_target : forall ops, NoSelf (run init ops).
Proof. intro ops. apply NoSelf_run. apply NoSelf_init. Qed.

(* alias.target = alias is rejected with CyclicAliasError and changes nothing *)
Theorem self_assignment_rejected : forall s a n, getn s a = Some n -> nkind n = KAli ->
  step s (OSetTarget a a) = (s, Some ECyclic).
Proof.
  intros s a n Hg Hk. simpl. unfold set_target, kind_of. rewrite Hg. simpl. rewrite Hk.
  rewrite Nat.eqb_refl. reflexivity.
Qed.
