(* C16 proofs: object-tree invariants for every history of member mutations. *)
From Coq Require Import List ZArith String Ascii Bool Arith Lia.
From Verif Require Import Lib.Sexp.
From Verif Require Import Gen.C16_shape Model.C16_tree.
Import ListNotations.
Open Scope string_scope.
Open Scope list_scope.
Open Scope nat_scope.

(* Every statement below holds for both orders of "attach the new member" and "re-target the aliases of the replaced
   member" inside set_member: [ab] is universally quantified (the translator says which one the code has). *)
Section Flag.
Variable ab : bool.
Notation set_at := (C16_tree.set_at ab).
Notation set_value := (C16_tree.set_value ab).
Notation step := (C16_tree.step ab).
Notation run := (C16_tree.run ab).
Notation all_top_down := (C16_tree.all_top_down ab).
Notation known_gap := (C16_tree.known_gap ab).

(* ================================================================ A. dictionaries, heaps *)

Lemma path_eqb_eq : forall p q, path_eqb p q = true <-> p = q.
Proof.
  induction p as [|a p IH]; destruct q as [|b q]; simpl; split; intro H; try discriminate; auto.
  - apply andb_true_iff in H. destruct H as [H1 H2]. apply String.eqb_eq in H1. apply IH in H2. congruence.
  - inversion H; subst. rewrite String.eqb_refl. simpl. apply IH. reflexivity.
Qed.

Lemma path_eqb_refl : forall p, path_eqb p p = true.
Proof. intro p. apply path_eqb_eq. reflexivity. Qed.

Lemma path_eqb_neq : forall p q, p <> q -> path_eqb p q = false.
Proof. intros p q H. destruct (path_eqb p q) eqn:E; auto. apply path_eqb_eq in E. contradiction. Qed.

Section AssocFacts.
  Context {K V : Type} (eqb : K -> K -> bool).
  Hypothesis eqb_spec : forall a b, eqb a b = true <-> a = b.

  Lemma eqb_rfl : forall a, eqb a a = true.
  Proof. intro a. apply eqb_spec. reflexivity. Qed.

  Lemma eqb_false : forall a b, a <> b -> eqb a b = false.
  Proof. intros a b H. destruct (eqb a b) eqn:E; auto. apply eqb_spec in E. contradiction. Qed.

  Lemma lookup_put_same : forall k (v : V) l, lookup eqb k (put eqb k v l) = Some v.
  Proof.
    intros k v l. induction l as [|[k' v'] r IH]; simpl.
    - rewrite eqb_rfl. reflexivity.
    - destruct (eqb k k') eqn:E; simpl; rewrite E; auto.
  Qed.

  Lemma lookup_put_other : forall k k' (v : V) l, k' <> k -> lookup eqb k' (put eqb k v l) = lookup eqb k' l.
  Proof.
    intros k k' v l Hne. induction l as [|[k2 v2] r IH]; simpl.
    - rewrite eqb_false; auto.
    - destruct (eqb k k2) eqn:E; simpl.
      + apply eqb_spec in E. subst k2. rewrite eqb_false; auto.
      + rewrite IH. reflexivity.
  Qed.

  Lemma lookup_del_same : forall k (l : list (K * V)), lookup eqb k (del eqb k l) = None.
  Proof.
    intros k l. induction l as [|[k' v'] r IH]; simpl; auto.
    destruct (eqb k k') eqn:E; simpl; auto. rewrite E. exact IH.
  Qed.

  Lemma lookup_del_other : forall k k' (l : list (K * V)), k' <> k -> lookup eqb k' (del eqb k l) = lookup eqb k' l.
  Proof.
    intros k k' l Hne. induction l as [|[k2 v2] r IH]; simpl; auto.
    destruct (eqb k k2) eqn:E; simpl.
    - apply eqb_spec in E. subst k2. rewrite eqb_false; auto.
    - rewrite IH. reflexivity.
  Qed.

  Lemma lookup_In : forall k (v : V) l, lookup eqb k l = Some v -> In (k, v) l.
  Proof.
    intros k v l. induction l as [|[k' v'] r IH]; simpl; intro H; try discriminate.
    destruct (eqb k k') eqn:E.
    - apply eqb_spec in E. inversion H; subst. left. reflexivity.
    - right. auto.
  Qed.

  Lemma In_put : forall k (v : V) k' v' l, In (k', v') (put eqb k v l) -> (k' = k /\ v' = v) \/ In (k', v') l.
  Proof.
    intros k v k' v' l. induction l as [|[k2 v2] r IH]; simpl; intro H.
    - destruct H as [H|[]]. inversion H; subst. left. auto.
    - destruct (eqb k k2) eqn:E.
      + apply eqb_spec in E. subst k2. destruct H as [H|H].
        * inversion H; subst. left. auto.
        * right. right. exact H.
      + destruct H as [H|H].
        * right. left. exact H.
        * apply IH in H. destruct H as [H|H]; [left|right; right]; exact H.
  Qed.

  Lemma keys_put : forall k (v : V) l x, In x (map fst (put eqb k v l)) -> x = k \/ In x (map fst l).
  Proof.
    intros k v l x. induction l as [|[k2 v2] r IH]; simpl; intro H.
    - destruct H as [H|[]]. left. auto.
    - destruct (eqb k k2) eqn:E; simpl in H.
      + apply eqb_spec in E. subst k2. destruct H as [H|H]; [left; auto | right; right; exact H].
      + destruct H as [H|H]; [right; left; exact H|]. apply IH in H. destruct H; [left|right; right]; auto.
  Qed.

  Lemma NoDup_put : forall k (v : V) l, NoDup (map fst l) -> NoDup (map fst (put eqb k v l)).
  Proof.
    intros k v l. induction l as [|[k2 v2] r IH]; simpl; intro H.
    - constructor; [intros []|constructor].
    - inversion H as [|? ? Hn Hr]; subst. destruct (eqb k k2) eqn:E; simpl.
      + constructor; assumption.
      + constructor; [|auto]. intro Hin. apply keys_put in Hin. destruct Hin as [Hin|Hin].
        * subst k2. rewrite eqb_rfl in E. discriminate.
        * contradiction.
  Qed.

  Lemma lookup_NoDup_In : forall k (v : V) l, NoDup (map fst l) -> In (k, v) l -> lookup eqb k l = Some v.
  Proof.
    intros k v l. induction l as [|[k2 v2] r IH]; simpl; intros Hnd Hin; [contradiction|].
    inversion Hnd as [|? ? Hn Hr]; subst. destruct Hin as [Hin|Hin].
    - inversion Hin; subst. rewrite eqb_rfl. reflexivity.
    - destruct (eqb k k2) eqn:E.
      + apply eqb_spec in E. subst k2. exfalso. apply Hn. apply in_map_iff. exists (k, v). auto.
      + auto.
  Qed.
End AssocFacts.

Definition str_spec := String.eqb_eq.

Lemma mlookup_put_same : forall k v l, mlookup k (mput k v l) = Some v.
Proof. intros. apply lookup_put_same. apply String.eqb_eq. Qed.
Lemma mlookup_put_other : forall k k' v l, k' <> k -> mlookup k' (mput k v l) = mlookup k' l.
Proof. intros. apply lookup_put_other; auto. apply String.eqb_eq. Qed.
Lemma mlookup_del_same : forall k l, mlookup k (mdel k l) = None.
Proof. intros. apply lookup_del_same. Qed.
Lemma mlookup_del_other : forall k k' l, k' <> k -> mlookup k' (mdel k l) = mlookup k' l.
Proof. intros. apply lookup_del_other; auto. apply String.eqb_eq. Qed.
Lemma alookup_put_same : forall k v l, alookup k (aput k v l) = Some v.
Proof. intros. apply lookup_put_same. apply path_eqb_eq. Qed.
Lemma alookup_put_other : forall k k' v l, k' <> k -> alookup k' (aput k v l) = alookup k' l.
Proof. intros. apply lookup_put_other; auto. apply path_eqb_eq. Qed.
Lemma In_aput : forall k v k' v' l, In (k', v') (aput k v l) -> (k' = k /\ v' = v) \/ In (k', v') l.
Proof. intros. eapply In_put; eauto. apply path_eqb_eq. Qed.
Lemma NoDup_aput : forall k v l, NoDup (map fst l) -> NoDup (map fst (aput k v l)).
Proof. intros. apply NoDup_put; auto. apply path_eqb_eq. Qed.
Lemma alookup_NoDup_In : forall k v l, NoDup (map fst l) -> In (k, v) l -> alookup k l = Some v.
Proof. intros. apply lookup_NoDup_In; auto. apply path_eqb_eq. Qed.
Lemma alookup_In : forall k v l, alookup k l = Some v -> In (k, v) l.
Proof. intros. eapply lookup_In; eauto. apply path_eqb_eq. Qed.

(* ---- upd *)
Lemma upd_length : forall h i f, List.length (upd h i f) = List.length h.
Proof. induction h as [|n r IH]; intros [|j] f; simpl; auto. Qed.

Lemma nth_upd_same : forall h i f, nth_error (upd h i f) i = option_map f (nth_error h i).
Proof. induction h as [|n r IH]; intros [|j] f; simpl; auto. Qed.

Lemma nth_upd_other : forall h i j f, i <> j -> nth_error (upd h i f) j = nth_error h j.
Proof.
  induction h as [|n r IH]; intros [|i] [|j] f H; simpl; auto; try congruence.
Qed.

Lemma getn_upd_same : forall s i f, getn (upd_state s i f) i = option_map f (getn s i).
Proof. intros. unfold getn, upd_state. simpl. apply nth_upd_same. Qed.

Lemma getn_upd_other : forall s i j f, i <> j -> getn (upd_state s i f) j = getn s j.
Proof. intros. unfold getn, upd_state. simpl. apply nth_upd_other. auto. Qed.

(* one statement for both cases *)
Lemma getn_upd : forall s i j f,
  getn (upd_state s i f) j = if Nat.eqb i j then option_map f (getn s j) else getn s j.
Proof.
  intros. destruct (Nat.eqb i j) eqn:E.
  - apply Nat.eqb_eq in E. subst. apply getn_upd_same.
  - apply Nat.eqb_neq in E. apply getn_upd_other. auto.
Qed.

Lemma getn_lt : forall s i n, getn s i = Some n -> i < List.length (heap s).
Proof. intros s i n H. unfold getn in H. apply nth_error_Some. congruence. Qed.

(* ================================================================ B. no alias ever targets itself (any history) *)

Definition NoSelf (s : state) : Prop := forall a n, getn s a = Some n -> ntarget n <> Some a.

(* every self-target present in s' was already present in s *)
Definition TP (s s' : state) : Prop :=
  forall a n', getn s' a = Some n' -> ntarget n' = Some a -> exists n, getn s a = Some n /\ ntarget n = Some a.

Lemma TP_refl : forall s, TP s s.
Proof. intros s a n H1 H2. eauto. Qed.

Lemma TP_trans : forall s1 s2 s3, TP s1 s2 -> TP s2 s3 -> TP s1 s3.
Proof.
  intros s1 s2 s3 H12 H23 a n3 Hg Ht.
  destruct (H23 a n3 Hg Ht) as [n2 [Hg2 Ht2]]. eauto.
Qed.

Lemma TP_NoSelf : forall s s', TP s s' -> NoSelf s -> NoSelf s'.
Proof.
  intros s s' H Hs a n Hg Ht. destruct (H a n Hg Ht) as [n0 [Hg0 Ht0]]. exact (Hs a n0 Hg0 Ht0).
Qed.

(* an update that leaves the target field alone *)
Lemma TP_upd_keep : forall s i f, (forall n, ntarget (f n) = ntarget n) -> TP s (upd_state s i f).
Proof.
  intros s i f Hf a n' Hg Ht. rewrite getn_upd in Hg. destruct (Nat.eqb i a) eqn:E.
  - destruct (getn s a) as [n|] eqn:G; simpl in Hg; [|discriminate]. inversion Hg; subst.
    rewrite Hf in Ht. eauto.
  - eauto.
Qed.

Lemma TP_upd_target : forall s a v tp, v <> a -> TP s (upd_state s a (with_target (Some v) tp)).
Proof.
  intros s a v tp Hne x n' Hg Ht. rewrite getn_upd in Hg. destruct (Nat.eqb a x) eqn:E.
  - apply Nat.eqb_eq in E. subst x. destruct (getn s a) as [n|] eqn:G; simpl in Hg; [|discriminate].
    inversion Hg; subst. simpl in Ht. congruence.
  - eauto.
Qed.

Lemma TP_root : forall s rt, TP s (mkState (heap s) rt).
Proof. intros s rt a n Hg Ht. unfold getn in *. simpl in *. eauto. Qed.

Lemma TP_add_backref : forall s t p a, TP s (add_backref s t p a).
Proof. intros. unfold add_backref. apply TP_upd_keep. intro n. reflexivity. Qed.

Lemma TP_set_target : forall s a v s', set_target s a v = Ok s' -> TP s s'.
Proof.
  intros s a v s' H. unfold set_target in H.
  destruct (kind_of s a) as [[| | | |]|]; try discriminate.
  destruct (kind_of s v) as [kv|]; try discriminate.
  destruct (Nat.eqb v a) eqn:E; try discriminate. apply Nat.eqb_neq in E.
  destruct (path_of s v) as [vp| |]; try discriminate.
  destruct (path_of s a) as [ap| |]; try discriminate.
  destruct (path_eqb vp ap); try discriminate.
  destruct (is_ali kv); try discriminate.
  inversion H; subst. eapply TP_trans; [apply TP_upd_target; exact E | apply TP_add_backref].
Qed.

Lemma TP_retarget_all : forall als s v, TP s (fst (retarget_all s als v)).
Proof.
  induction als as [|a r IH]; intros s v; simpl.
  - apply TP_refl.
  - destruct (set_target s a v) as [s'|e] eqn:E.
    + eapply TP_trans; [eapply TP_set_target; eauto | apply IH].
    + destruct e; try apply TP_refl. apply IH.
Qed.

Lemma TP_update_target_aliases : forall s a s', update_target_aliases s a = Ok s' -> TP s s'.
Proof.
  intros s a s' H. unfold update_target_aliases in H.
  destruct (getn s a) as [n|]; [|inversion H; apply TP_refl].
  destruct (ntarget n) as [t|]; [|inversion H; apply TP_refl].
  destruct (path_of s a); inversion H; subst; try apply TP_refl. apply TP_add_backref.
Qed.

Lemma TP_write_member : forall s c k v s', write_member s c k v = Ok s' -> TP s s'.
Proof.
  intros s c k v s' H. unfold write_member in H. destruct c as [|i].
  - inversion H; subst. intros a n' Hg Ht. unfold getn in Hg. simpl in Hg.
    destruct (Nat.eq_dec v a) as [->|Hne].
    + rewrite nth_upd_same in Hg. destruct (nth_error (heap s) a) as [n|] eqn:G; simpl in Hg; [|discriminate].
      inversion Hg; subst. simpl in Ht. exists n. split; auto.
    + rewrite nth_upd_other in Hg by auto. eauto.
  - set (s1 := upd_state s i (fun n => with_members (mput k v (nmembers n)) n)) in *.
    set (s2 := upd_state s1 v (with_parent (Some i))) in *.
    assert (H12 : TP s s2).
    { apply TP_trans with s1; [unfold s1 | unfold s2]; apply TP_upd_keep; intro n; reflexivity. }
    destruct (kind_of s v) as [[| | | |]|]; try (inversion H; subst; exact H12).
    eapply TP_trans; [exact H12 | eapply TP_update_target_aliases; eauto].
Qed.

Lemma TP_set_at : forall s a c k ms v, TP s (fst (set_at s a c k ms v)).
Proof.
  intros s a c k ms v. unfold C16_tree.set_at.
  assert (Hw : TP s (fst (match write_member s c k v with Ok s2 => (s2, None) | Err e => (s, Some e) end))).
  { destruct (write_member s c k v) as [s2|e] eqn:W; simpl; [eapply TP_write_member; eauto | apply TP_refl]. }
  destruct a; [|destruct (mlookup k ms); exact Hw].
  destruct (mlookup k ms) as [m|]; [|exact Hw].
  destruct (replace_probe s m v); [apply TP_refl|].
  destruct ab.
  - assert (Hgo : TP s (fst (match write_member s c k v with
                              | Err e => (s, Some e)
                              | Ok s1 => retarget_all s1 (repl_aliases s1 m) v end))).
    { destruct (write_member s c k v) as [s1|e] eqn:W; [|apply TP_refl].
      eapply TP_trans; [eapply TP_write_member; eauto | apply TP_retarget_all]. }
    destruct (kind_of s v) as [[| | | |]|]; try exact Hgo.
    destruct (repl_aliases s m); [exact Hgo | apply TP_refl].
  - pose proof (TP_retarget_all (repl_aliases s m) s v) as H1.
    destruct (retarget_all s (repl_aliases s m) v) as [s1 [e|]]; simpl in *; auto.
    destruct (write_member s1 c k v) as [s2|e] eqn:W; simpl; auto.
    eapply TP_trans; [exact H1 | eapply TP_write_member; eauto].
Qed.

Lemma TP_set_value : forall s a r p v, TP s (fst (set_value s a r p v)).
Proof.
  intros s a r p v. unfold C16_tree.set_value.
  destruct (getn s v); [|apply TP_refl].
  destruct (locate s r p) as [[c k]|e]; [|apply TP_refl].
  destruct (members_r s c) as [ms|e]; [|apply TP_refl].
  apply TP_set_at.
Qed.

Lemma TP_del_value : forall s r p, TP s (fst (del_value s r p)).
Proof.
  intros s r p. unfold del_value.
  destruct (locate s r p) as [[c k]|e]; [|apply TP_refl].
  destruct (get_at s c k); [|apply TP_refl].
  destruct c; simpl.
  - apply TP_root.
  - apply TP_upd_keep. intro n. reflexivity.
Qed.

Lemma TP_resolve : forall s a, TP s (fst (resolve s a)).
Proof.
  intros s a. unfold resolve.
  destruct (getn s a) as [n|]; [|apply TP_refl].
  destruct (negb (is_ali (nkind n))); [apply TP_refl|].
  destruct (has_mc s a); [|apply TP_refl].
  destruct (path_eqb (ntpath n) [""]); [apply TP_refl|].
  destruct (get s RRoot (ntpath n)) as [x|e]; [|destruct e; apply TP_refl].
  destruct (Nat.eqb x a) eqn:E; [apply TP_refl|]. apply Nat.eqb_neq in E.
  destruct (kind_of s x) as [kx|]; [|apply TP_refl].
  destruct (is_ali kx); [apply TP_refl|].
  assert (H1 : TP s (upd_state s a (with_target (Some x) (ntpath n)))) by (apply TP_upd_target; exact E).
  destruct (path_of s a); simpl; auto.
  eapply TP_trans; [exact H1 | apply TP_add_backref].
Qed.

Lemma getn_app_old : forall s nd i n, getn (mkState (heap s ++ [nd]) (root s)) i = Some n ->
  (i < List.length (heap s) /\ getn s i = Some n) \/ (i = List.length (heap s) /\ n = nd).
Proof.
  intros s nd i n H. unfold getn in *. simpl in H.
  destruct (Nat.lt_ge_cases i (List.length (heap s))) as [Hlt|Hge].
  - rewrite nth_error_app1 in H by exact Hlt. left. auto.
  - rewrite nth_error_app2 in H by exact Hge. right.
    destruct (i - List.length (heap s)) as [|d] eqn:D; simpl in H.
    + inversion H. split; [lia|reflexivity].
    + destruct d; discriminate.
Qed.

Lemma TP_alloc : forall s k n t, TP s (fst (alloc s k n t)).
Proof.
  intros s k n t. unfold alloc.
  assert (Hfresh : forall nd, (forall x, ntarget nd = Some x -> x < List.length (heap s)) ->
            TP s (mkState (heap s ++ [nd]) (root s))).
  { intros nd Hnd a n' Hg Ht. apply getn_app_old in Hg. destruct Hg as [[_ Hg]|[Ha Hn]].
    - eauto.
    - subst. apply Hnd in Ht. lia. }
  destruct k; destruct t as [|p|x]; simpl; try apply TP_refl;
    try (apply Hfresh; simpl; intros ? Hx; discriminate).
  destruct (kind_of s x) as [kx|] eqn:Kx; [|apply TP_refl].
  destruct (is_ali kx); [apply TP_refl|].
  destruct (path_of s x); simpl; try apply TP_refl.
  apply Hfresh. simpl. intros y Hy. inversion Hy; subst.
  unfold kind_of in Kx. destruct (getn s y) eqn:G; [|discriminate]. eapply getn_lt; eauto.
Qed.

Lemma TP_step : forall s o, TP s (fst (step s o)).
Proof.
  intros s o. destruct o as [k n t|a r p v|a r p k t|a r p|a|a v]; simpl.
  - apply TP_alloc.
  - apply TP_set_value.
  - destruct (negb (recv_exists s r)); [apply TP_refl|].
    pose proof (TP_alloc s k (last p "") t) as Ha.
    destruct (alloc s k (last p "") t) as [s1 [e|]]; simpl in *; auto.
    eapply TP_trans; [exact Ha | apply TP_set_value].
  - apply TP_del_value.
  - apply TP_resolve.
  - destruct (set_target s a v) as [s'|e] eqn:E; simpl; [eapply TP_set_target; eauto | apply TP_refl].
Qed.

Lemma NoSelf_init : NoSelf init.
Proof. intros a n H. unfold getn in H. simpl in H. destruct a; discriminate. Qed.

Lemma NoSelf_run : forall ops s, NoSelf s -> NoSelf (run s ops).
Proof.
  induction ops as [|o r IH]; intros s H; simpl; auto.
  apply IH. eapply TP_NoSelf; [apply TP_step | exact H].
Qed.

Theorem no_self_target : forall ops, NoSelf (run init ops).
Proof. intro ops. apply NoSelf_run. apply NoSelf_init. Qed.

(* alias.target = alias is rejected with CyclicAliasError and changes nothing *)
Theorem self_assignment_rejected : forall s a n, getn s a = Some n -> nkind n = KAli ->
  step s (OSetTarget a a) = (s, Some ECyclic).
Proof.
  intros s a n Hg Hk. simpl. unfold set_target, kind_of. rewrite Hg. simpl. rewrite Hk.
  rewrite Nat.eqb_refl. reflexivity.
Qed.

(* ================================================================ C. paths and lookups *)

(* parents are well founded: there is a numbering of the nodes (a permutation of the indices) along which every parent
   comes before its children.  (Objects can be attached under containers that were built after them.) *)
Definition wfrk (h : list node) (rk : nat -> nat) : Prop :=
  (forall x n c, nth_error h x = Some n -> nparent n = Some c -> c < List.length h /\ rk c < rk x) /\
  (forall x, x < List.length h -> rk x < List.length h) /\
  (forall x y, x < List.length h -> y < List.length h -> rk x = rk y -> x = y).

Definition wfpar (h : list node) : Prop := exists rk, wfrk h rk.

(* the fuel the model passes (the heap size) is never exhausted *)
Lemma pth_stable : forall h rk, wfrk h rk -> forall x f, S (rk x) <= f -> pth h f x = pth h (S (rk x)) x.
Proof.
  intros h rk [He _] x. remember (rk x) as m eqn:Em. revert x Em.
  induction m as [m IH] using lt_wf_ind. intros x Em f Hf.
  destruct f as [|f]; [lia|]. simpl.
  destruct (nth_error h x) as [n|] eqn:G; auto.
  destruct (nparent n) as [c|] eqn:P; auto.
  destruct (He x n c G P) as [_ Hc].
  assert (Hlt : rk c < m) by lia.
  rewrite (IH (rk c) Hlt c eq_refl f) by lia. rewrite (IH (rk c) Hlt c eq_refl m) by lia. reflexivity.
Qed.

Lemma pth_fuel : forall h rk, wfrk h rk -> forall x f, x < List.length h -> List.length h <= f ->
  pth h f x = pth h (S (rk x)) x.
Proof.
  intros h rk Hw x f Hx Hf. apply (pth_stable h rk Hw). destruct Hw as [_ [Hb _]]. specialize (Hb x Hx). lia.
Qed.

Lemma wfpar_init : wfpar [].
Proof.
  exists (fun x => x). split; [|split].
  - intros x n c H. destruct x; discriminate.
  - intros x H. simpl in H. lia.
  - intros x y H. simpl in H. lia.
Qed.

(* a new node without parent *)
Lemma wfpar_app : forall h nd, wfpar h -> nparent nd = None -> wfpar (h ++ [nd]).
Proof.
  intros h nd [rk [He [Hb Hi]]] P. set (L := List.length h).
  exists (fun y => if Nat.eqb y L then L else rk y).
  split; [|split]; rewrite app_length; simpl; fold L.
  - intros x n c G Pn. destruct (Nat.lt_ge_cases x L) as [Hx|Hx].
    + rewrite nth_error_app1 in G by exact Hx. destruct (He x n c G Pn) as [Hc Hr]. fold L in Hc.
      assert (E1 : Nat.eqb x L = false) by (apply Nat.eqb_neq; lia).
      assert (E2 : Nat.eqb c L = false) by (apply Nat.eqb_neq; lia). rewrite E1, E2. split; [lia|exact Hr].
    + rewrite nth_error_app2 in G by exact Hx. fold L in G. destruct (x - L) as [|j] eqn:Ej.
      * simpl in G. inversion G; subst; congruence.
      * simpl in G. destruct j; discriminate.
  - intros x Hx. destruct (Nat.eqb x L) eqn:E; [lia|]. apply Nat.eqb_neq in E.
    assert (x < L) by lia. specialize (Hb x H). fold L in Hb. lia.
  - intros x y Hx Hy E.
    destruct (Nat.eq_dec x L) as [Ex|Ex]; destruct (Nat.eq_dec y L) as [Ey|Ey].
    + lia.
    + rewrite (proj2 (Nat.eqb_eq x L) Ex), (proj2 (Nat.eqb_neq y L) Ey) in E.
      assert (H : y < L) by lia. specialize (Hb y H). fold L in Hb. lia.
    + rewrite (proj2 (Nat.eqb_neq x L) Ex), (proj2 (Nat.eqb_eq y L) Ey) in E.
      assert (H : x < L) by lia. specialize (Hb x H). fold L in Hb. lia.
    + rewrite (proj2 (Nat.eqb_neq x L) Ex), (proj2 (Nat.eqb_neq y L) Ey) in E. apply Hi; fold L; lia.
Qed.

(* an update that leaves the parents alone *)
Lemma wfpar_upd_keep : forall h i f, (forall n, nparent (f n) = nparent n) -> wfpar h -> wfpar (upd h i f).
Proof.
  intros h i f Hf [rk [He [Hb Hi]]]. exists rk. split; [|split]; rewrite upd_length; auto.
  intros x n c G P. destruct (Nat.eq_dec i x) as [->|Hx].
  - rewrite nth_upd_same in G. destruct (nth_error h x) as [n0|] eqn:G0; simpl in G; [|discriminate].
    inversion G; subst n. rewrite Hf in P. exact (He x n0 c G0 P).
  - rewrite nth_upd_other in G by auto. exact (He x n c G P).
Qed.

Lemma wfpar_ext : forall h h', List.length h = List.length h' ->
  (forall i, option_map nparent (nth_error h i) = option_map nparent (nth_error h' i)) -> wfpar h -> wfpar h'.
Proof.
  intros h h' L E [rk [He [Hb Hi]]]. exists rk. split; [|split]; rewrite <- L; auto.
  intros x n' c G P. specialize (E x). rewrite G in E.
  destruct (nth_error h x) as [n|] eqn:G0; simpl in E; [|discriminate].
  apply (He x n c G0). inversion E. congruence.
Qed.

(* a node that is nobody's parent gets a (new) parent: renumber it last *)
Lemma wfpar_relink : forall h v i, wfpar h -> v < List.length h -> i < List.length h -> i <> v ->
  (forall x n, nth_error h x = Some n -> nparent n <> Some v) ->
  wfpar (upd h v (with_parent (Some i))).
Proof.
  intros h v i [rk [He [Hb Hi]]] Hv Hil Hne Hleaf. set (L := List.length h) in *.
  exists (fun y => if Nat.eqb y v then L - 1 else if Nat.ltb (rk v) (rk y) then rk y - 1 else rk y).
  assert (Hsh : forall y, y < L -> y <> v ->
            (if Nat.ltb (rk v) (rk y) then rk y - 1 else rk y) < L - 1 /\
            ((rk v < rk y /\ (if Nat.ltb (rk v) (rk y) then rk y - 1 else rk y) = rk y - 1) \/
             (rk y < rk v /\ (if Nat.ltb (rk v) (rk y) then rk y - 1 else rk y) = rk y))).
  { intros y Hy Hyv. pose proof (Hb y Hy) as By. pose proof (Hb v Hv) as Bv.
    assert (rk y <> rk v) by (intro Q; apply Hyv; apply Hi; auto).
    destruct (Nat.ltb (rk v) (rk y)) eqn:Q; [apply Nat.ltb_lt in Q | apply Nat.ltb_ge in Q];
      (split; [lia | first [lia | left; split; [lia|reflexivity] | right; split; [lia|reflexivity]]]). }
  split; [|split]; rewrite upd_length; fold L.
  - intros x n c G P. destruct (Nat.eq_dec x v) as [->|Hx].
    + rewrite nth_upd_same in G. destruct (nth_error h v) as [n0|] eqn:G0; simpl in G; [|discriminate].
      inversion G; subst n. simpl in P. inversion P; subst c. split; [exact Hil|].
      rewrite Nat.eqb_refl. assert (E : Nat.eqb i v = false) by (apply Nat.eqb_neq; auto). rewrite E.
      destruct (Hsh i Hil Hne) as [H1 _]. lia.
    + rewrite nth_upd_other in G by auto. destruct (He x n c G P) as [Hc Hr]. fold L in Hc.
      assert (Hcv : c <> v) by (intro; subst c; exact (Hleaf x n G P)).
      assert (Hxl : x < L) by (apply nth_error_Some; congruence).
      split; [exact Hc|].
      assert (Ex : Nat.eqb x v = false) by (apply Nat.eqb_neq; auto).
      assert (Ec : Nat.eqb c v = false) by (apply Nat.eqb_neq; auto). rewrite Ex, Ec.
      destruct (Hsh x Hxl Hx) as [_ [[A1 A2]|[A1 A2]]]; destruct (Hsh c Hc Hcv) as [_ [[B1 B2]|[B1 B2]]]; lia.
  - intros x Hx. destruct (Nat.eqb x v) eqn:E; [lia|]. apply Nat.eqb_neq in E. destruct (Hsh x Hx E) as [H1 _]. lia.
  - intros x y Hx Hy E.
    destruct (Nat.eq_dec x v) as [E1|E1]; destruct (Nat.eq_dec y v) as [E2|E2].
    + congruence.
    + rewrite (proj2 (Nat.eqb_eq x v) E1), (proj2 (Nat.eqb_neq y v) E2) in E. destruct (Hsh y Hy E2) as [H1 _]. lia.
    + rewrite (proj2 (Nat.eqb_neq x v) E1), (proj2 (Nat.eqb_eq y v) E2) in E. destruct (Hsh x Hx E1) as [H1 _]. lia.
    + rewrite (proj2 (Nat.eqb_neq x v) E1), (proj2 (Nat.eqb_neq y v) E2) in E. apply Hi; auto.
      destruct (Hsh x Hx E1) as [_ [[A1 A2]|[A1 A2]]]; destruct (Hsh y Hy E2) as [_ [[B1 B2]|[B1 B2]]]; lia.
Qed.

Definition node_path (s : state) (n : node) : pres :=
  match nparent n with
  | None => if is_ali (nkind n) then PAttr else POk [nname n]
  | Some c => match path_of s c with POk pp => POk (pp ++ [nname n]) | e => e end
  end.

Lemma path_of_unfold : forall s x n, wfpar (heap s) -> getn s x = Some n -> path_of s x = node_path s n.
Proof.
  intros s x n [rk Hw] Hg. pose proof (getn_lt _ _ _ Hg) as Hlt.
  unfold node_path. unfold path_of at 1.
  rewrite (pth_fuel _ rk Hw x (List.length (heap s))) by lia. simpl. unfold getn in Hg. rewrite Hg.
  destruct (nparent n) as [c|] eqn:P; auto.
  pose proof Hw as [He _]. destruct (He x n c Hg P) as [Hc Hr].
  unfold path_of. rewrite (pth_stable _ rk Hw c (rk x)) by lia.
  rewrite (pth_fuel _ rk Hw c (List.length (heap s))) by lia. reflexivity.
Qed.

Lemma path_of_no_fuel : forall s, wfpar (heap s) -> forall x n, getn s x = Some n -> path_of s x <> PFuel.
Proof.
  intros s Hw. pose proof Hw as [rk [He _]].
  assert (H : forall m x n, rk x = m -> getn s x = Some n -> path_of s x <> PFuel).
  { induction m as [m IH] using lt_wf_ind. intros x n Em G.
    rewrite (path_of_unfold s x n Hw G). unfold node_path.
    destruct (nparent n) as [c|] eqn:P.
    - destruct (He x n c G P) as [Hc Hr].
      destruct (getn s c) as [cn|] eqn:Gc.
      + assert (Hlt : rk c < m) by lia. specialize (IH (rk c) Hlt c cn eq_refl Gc). destruct (path_of s c); congruence.
      + unfold getn in Gc. apply nth_error_None in Gc. lia.
    - destruct (is_ali (nkind n)); congruence. }
  intros x n G. exact (H (rk x) x n eq_refl G).
Qed.

(* ---- what paths depend on: name, kind, parent *)
Definition npk (n : node) := (nname n, nkind n, nparent n).

(* two heaps that agree on (name, kind, parent) outside a set of nodes that are nobody's parent *)
Lemma pth_agree : forall h h' (bad : nat -> Prop),
  (forall i, ~ bad i -> option_map npk (nth_error h i) = option_map npk (nth_error h' i)) ->
  (forall x n c, nth_error h x = Some n -> nparent n = Some c -> ~ bad c) ->
  forall f x, ~ bad x -> pth h f x = pth h' f x.
Proof.
  intros h h' bad He Hp f. induction f as [|f IH]; intros x Hx; simpl; auto.
  pose proof (He x Hx) as E.
  destruct (nth_error h x) as [n|] eqn:G; destruct (nth_error h' x) as [n'|] eqn:G'; simpl in E; try discriminate; auto.
  unfold npk in E. inversion E as [[E1 E2 E3]]. rewrite E1, E2, E3.
  destruct (nparent n') as [c|] eqn:P; auto.
  rewrite IH; [reflexivity|]. apply (Hp x n c G). congruence.
Qed.

Lemma path_of_agree : forall s s' (bad : nat -> Prop), wfpar (heap s) -> wfpar (heap s') ->
  (forall i, ~ bad i -> option_map npk (getn s i) = option_map npk (getn s' i)) ->
  (forall x n c, getn s x = Some n -> nparent n = Some c -> ~ bad c) ->
  forall x, ~ bad x -> x < List.length (heap s) -> x < List.length (heap s') -> path_of s x = path_of s' x.
Proof.
  intros s s' bad [rk Hw] [rk' Hw'] He Hp x Hx L L'. unfold path_of.
  set (F := List.length (heap s) + List.length (heap s')).
  rewrite (pth_fuel _ rk Hw x (List.length (heap s))) by lia.
  rewrite <- (pth_fuel _ rk Hw x F) by (unfold F; lia).
  rewrite (pth_fuel _ rk' Hw' x (List.length (heap s'))) by lia.
  rewrite <- (pth_fuel _ rk' Hw' x F) by (unfold F; lia).
  apply (pth_agree (heap s) (heap s') bad); auto.
Qed.

(* ---- what lookups depend on: the root dictionary and (is-alias, members) of each node *)
Definition km (n : node) := (is_ali (nkind n), nmembers n).

Lemma members_r_ext : forall s s' r, root s = root s' ->
  (forall i, r = RObj i -> option_map km (getn s i) = option_map km (getn s' i)) ->
  members_r s r = members_r s' r.
Proof.
  intros s s' r Hr He. destruct r as [|i]; simpl; [congruence|].
  specialize (He i eq_refl). destruct (getn s i) as [n|]; destruct (getn s' i) as [n'|]; simpl in He; try discriminate; auto.
  unfold km in He. inversion He as [[E1 E2]]. rewrite E1, E2. reflexivity.
Qed.

(* dotted lookup = chained lookup *)
Lemma get_app : forall s p r q, p <> [] -> q <> [] ->
  get s r (p ++ q) = match get s r p with Ok x => get s (RObj x) q | Err e => Err e end.
Proof.
  intros s p. induction p as [|k p IH]; intros r q Hp Hq; [congruence|].
  simpl. destruct (members_r s r) as [ms|e]; auto.
  destruct (mlookup k ms) as [x|]; auto.
  destruct p as [|k2 p2].
  - simpl. destruct q; [congruence|reflexivity].
  - change ((k2 :: p2) ++ q) with (k2 :: (p2 ++ q)). cbv iota. rewrite <- IH by (auto; congruence). reflexivity.
Qed.

Lemma get_single : forall s r k, get s r [k] = get_at s r k.
Proof. intros. simpl. unfold get_at. destruct (members_r s r); auto. Qed.

Lemma get_locate : forall s p r,
  get s r p = match locate s r p with Ok (c, k) => get_at s c k | Err e => Err e end.
Proof.
  intros s p. induction p as [|k p IH]; intro r; simpl; auto.
  destruct (members_r s r) as [ms|e] eqn:M; auto.
  destruct p as [|k2 p2].
  - unfold get_at. rewrite M. reflexivity.
  - destruct (mlookup k ms) as [x|]; auto.
Qed.

(* ================================================================ D. the structural invariant *)

Record SInv (s : state) : Prop := {
  s_root : forall k x, mlookup k (root s) = Some x ->
     exists n, getn s x = Some n /\ nparent n = None /\ nname n = k /\ is_ali (nkind n) = false /\ nmc n = true;
  s_mem : forall c cn k x, getn s c = Some cn -> mlookup k (nmembers cn) = Some x ->
     exists n, getn s x = Some n /\ nparent n = Some c /\ nname n = k;
  s_par : wfpar (heap s)
}.

Lemma SInv_init : SInv init.
Proof.
  constructor.
  - intros k x H. discriminate.
  - intros c cn k x H. unfold getn in H. simpl in H. destruct c; discriminate.
  - exact wfpar_init.
Qed.

(* every object is retrievable from the collection by its own path *)
Lemma get_path_gen : forall s, SInv s -> forall p r x, get s r p = Ok x ->
  match r with
  | RRoot => path_of s x = POk p
  | RObj c => forall pc, path_of s c = POk pc -> path_of s x = POk (pc ++ p)
  end.
Proof.
  intros s HI p. induction p as [|k p IH]; intros r x H; [simpl in H; discriminate|].
  simpl in H. destruct (members_r s r) as [ms|e] eqn:M; [|discriminate].
  destruct (mlookup k ms) as [y|] eqn:L; [|discriminate].
  assert (Hy : match r with
               | RRoot => path_of s y = POk [k]
               | RObj c => forall pc, path_of s c = POk pc -> path_of s y = POk (pc ++ [k])
               end).
  { destruct r as [|c]; simpl in M.
    - inversion M; subst ms. destruct (s_root s HI k y L) as [n [G [P [N [A _]]]]].
      rewrite (path_of_unfold s y n (s_par s HI) G). unfold node_path. rewrite P, A, N. reflexivity.
    - destruct (getn s c) as [cn|] eqn:Gc; [|discriminate].
      destruct (is_ali (nkind cn)); [discriminate|]. inversion M; subst ms.
      destruct (s_mem s HI c cn k y Gc L) as [n [G [P N]]].
      intros pc Hpc. rewrite (path_of_unfold s y n (s_par s HI) G). unfold node_path. rewrite P, Hpc, N. reflexivity. }
  destruct p as [|k2 p2].
  - inversion H; subst y. destruct r; auto.
  - specialize (IH (RObj y) x H). simpl in IH.
    destruct r as [|c].
    + apply IH in Hy. exact Hy.
    + intros pc Hpc. specialize (Hy pc Hpc). apply IH in Hy. rewrite <- app_assoc in Hy. exact Hy.
Qed.

Lemma retrievable : forall s, SInv s -> forall p x, get s RRoot p = Ok x -> path_of s x = POk p.
Proof. intros s HI p x H. exact (get_path_gen s HI p RRoot x H). Qed.

Lemma get_functional_path : forall s, SInv s -> forall p q x, get s RRoot p = Ok x -> get s RRoot q = Ok x -> p = q.
Proof.
  intros s HI p q x Hp Hq. apply (retrievable s HI) in Hp. apply (retrievable s HI) in Hq. congruence.
Qed.

(* members know their container *)
Lemma parent_is_container : forall s, SInv s -> forall c cn k m, getn s c = Some cn -> is_ali (nkind cn) = false ->
  get s (RObj c) [k] = Ok m -> exists n, getn s m = Some n /\ nparent n = Some c /\ nname n = k.
Proof.
  intros s HI c cn k m G A H. simpl in H. rewrite G, A in H.
  destruct (mlookup k (nmembers cn)) as [y|] eqn:L; [|discriminate]. inversion H; subst y.
  exact (s_mem s HI c cn k m G L).
Qed.

Lemma top_level_in_collection : forall s, SInv s -> forall k m, get s RRoot [k] = Ok m ->
  exists n, getn s m = Some n /\ nparent n = None /\ nname n = k /\ has_mc s m = Ok tt.
Proof.
  intros s HI k m H. simpl in H. destruct (mlookup k (root s)) as [y|] eqn:L; [|discriminate]. inversion H; subst y.
  destruct (s_root s HI k m L) as [n [G [P [N [A MC]]]]]. exists n. repeat split; auto.
  unfold has_mc. pose proof (getn_lt _ _ _ G) as Hlt. destruct (List.length (heap s)) as [|f]; [lia|].
  simpl. unfold getn in G. rewrite G, A, MC. reflexivity.
Qed.

(* ---- updates that leave the tree skeleton alone (targets, target paths, back-references) *)
Definition skel (n : node) := (nname n, nkind n, nparent n, nmembers n, nmc n).

Definition skel_eq (s s' : state) : Prop :=
  root s = root s' /\ forall i, option_map skel (getn s i) = option_map skel (getn s' i).

Lemma skel_eq_refl : forall s, skel_eq s s.
Proof. intro s. split; auto. Qed.

Lemma skel_eq_trans : forall a b c, skel_eq a b -> skel_eq b c -> skel_eq a c.
Proof. intros a b c [R1 H1] [R2 H2]. split; [congruence|]. intro i. rewrite H1. apply H2. Qed.

Lemma skel_eq_upd : forall s i f, (forall n, skel (f n) = skel n) -> skel_eq s (upd_state s i f).
Proof.
  intros s i f Hf. split; [reflexivity|]. intro j. rewrite getn_upd.
  destruct (Nat.eqb i j); auto. destruct (getn s j); simpl; auto. rewrite Hf. reflexivity.
Qed.

Lemma skel_eq_node : forall s s' i n', skel_eq s s' -> getn s' i = Some n' ->
  exists n, getn s i = Some n /\ skel n = skel n'.
Proof.
  intros s s' i n' [_ H] G. specialize (H i). rewrite G in H.
  destruct (getn s i) as [n|]; simpl in H; [|discriminate]. exists n. split; auto. congruence.
Qed.

Lemma skel_eq_sym : forall a b, skel_eq a b -> skel_eq b a.
Proof. intros a b [R H]. split; auto. Qed.

Lemma skel_eq_length : forall s s', skel_eq s s' -> List.length (heap s) = List.length (heap s').
Proof.
  intros s s' [_ H].
  assert (A : forall i, List.length (heap s) <= i <-> List.length (heap s') <= i).
  { intro i. rewrite <- !nth_error_None. specialize (H i). unfold getn in H.
    destruct (nth_error (heap s) i); destruct (nth_error (heap s') i); simpl in H; try discriminate; split; congruence. }
  pose proof (proj1 (A (List.length (heap s))) (Nat.le_refl _)).
  pose proof (proj2 (A (List.length (heap s'))) (Nat.le_refl _)). lia.
Qed.

Lemma skel_npk : forall n n', skel n = skel n' -> npk n = npk n'.
Proof. intros n n' H. unfold skel in H. unfold npk. inversion H. reflexivity. Qed.

Lemma skel_km : forall n n', skel n = skel n' -> km n = km n'.
Proof. intros n n' H. unfold skel in H. unfold km. inversion H as [[A B C D E]]. rewrite B, D. reflexivity. Qed.

Lemma pth_skel : forall h h', (forall i, option_map npk (nth_error h i) = option_map npk (nth_error h' i)) ->
  forall f x, pth h f x = pth h' f x.
Proof.
  intros h h' He f. induction f as [|f IH]; intro x; simpl; auto.
  pose proof (He x) as E.
  destruct (nth_error h x) as [n|]; destruct (nth_error h' x) as [n'|]; simpl in E; try discriminate; auto.
  unfold npk in E. inversion E as [[E1 E2 E3]]. rewrite E1, E2, E3.
  destruct (nparent n'); auto. rewrite IH. reflexivity.
Qed.

Lemma skel_eq_npk : forall s s', skel_eq s s' -> forall i, option_map npk (getn s i) = option_map npk (getn s' i).
Proof.
  intros s s' [_ H] i. specialize (H i).
  destruct (getn s i) as [n|]; destruct (getn s' i) as [n'|]; simpl in *; try discriminate; auto.
  f_equal. apply skel_npk. congruence.
Qed.

Lemma skel_eq_km : forall s s', skel_eq s s' -> forall i, option_map km (getn s i) = option_map km (getn s' i).
Proof.
  intros s s' [_ H] i. specialize (H i).
  destruct (getn s i) as [n|]; destruct (getn s' i) as [n'|]; simpl in *; try discriminate; auto.
  f_equal. apply skel_km. congruence.
Qed.

Lemma skel_eq_path : forall s s', skel_eq s s' -> forall x, path_of s x = path_of s' x.
Proof.
  intros s s' H x. unfold path_of. rewrite (skel_eq_length s s' H).
  apply pth_skel. intro i. apply (skel_eq_npk s s' H).
Qed.

Lemma skel_eq_members_r : forall s s', skel_eq s s' -> forall r, members_r s r = members_r s' r.
Proof. intros s s' H r. apply members_r_ext; [apply H|]. intros i _. apply skel_eq_km. exact H. Qed.

Lemma skel_eq_get : forall s s', skel_eq s s' -> forall p r, get s r p = get s' r p.
Proof.
  intros s s' H p. induction p as [|k p IH]; intro r; simpl; auto.
  rewrite (skel_eq_members_r s s' H r). destruct (members_r s' r); auto.
  destruct (mlookup k a); auto. destruct p; auto.
Qed.

Lemma skel_eq_locate : forall s s', skel_eq s s' -> forall p r, locate s r p = locate s' r p.
Proof.
  intros s s' H p. induction p as [|k p IH]; intro r; simpl; auto.
  rewrite (skel_eq_members_r s s' H r). destruct (members_r s' r); auto.
  destruct p; auto. destruct (mlookup k a); auto.
Qed.

Lemma skel_eq_kind : forall s s', skel_eq s s' -> forall i, kind_of s i = kind_of s' i.
Proof.
  intros s s' H i. unfold kind_of. pose proof (skel_eq_npk s s' H i) as E.
  destruct (getn s i); destruct (getn s' i); simpl in *; try discriminate; auto.
  unfold npk in E. inversion E. reflexivity.
Qed.

Lemma skel_eq_SInv : forall s s', skel_eq s s' -> SInv s -> SInv s'.
Proof.
  intros s s' H HI. pose proof H as [HR HN]. constructor.
  - intros k x L. rewrite <- HR in L. destruct (s_root s HI k x L) as [n [G [P [N [A M]]]]].
    specialize (HN x). rewrite G in HN. destruct (getn s' x) as [n'|]; simpl in HN; [|discriminate].
    exists n'. unfold skel in HN. inversion HN as [[E1 E2 E3 E4 E5]]. repeat split; congruence.
  - intros c cn' k x G L. destruct (skel_eq_node s s' c cn' H G) as [cn [Gc Ec]].
    unfold skel in Ec. inversion Ec as [[E1 E2 E3 E4 E5]]. rewrite <- E4 in L.
    destruct (s_mem s HI c cn k x Gc L) as [n [Gx [P N]]].
    specialize (HN x). rewrite Gx in HN. destruct (getn s' x) as [n'|]; simpl in HN; [|discriminate].
    exists n'. unfold skel in HN. inversion HN as [[F1 F2 F3 F4 F5]]. repeat split; congruence.
  - apply (wfpar_ext (heap s) (heap s')); [apply skel_eq_length; exact H | | exact (s_par s HI)].
    intro i. pose proof (skel_eq_npk s s' H i) as E. unfold getn in E.
    destruct (nth_error (heap s) i); destruct (nth_error (heap s') i); simpl in *; try discriminate; auto.
    unfold npk in E. inversion E. congruence.
Qed.

Lemma skel_eq_add_backref : forall s t p a, skel_eq s (add_backref s t p a).
Proof. intros. unfold add_backref. apply skel_eq_upd. intro n. reflexivity. Qed.

Lemma skel_eq_set_target : forall s a v s', set_target s a v = Ok s' -> skel_eq s s'.
Proof.
  intros s a v s' H. unfold set_target in H.
  destruct (kind_of s a) as [[| | | |]|]; try discriminate.
  destruct (kind_of s v) as [kv|]; try discriminate.
  destruct (Nat.eqb v a); try discriminate.
  destruct (path_of s v) as [vp| |]; try discriminate.
  destruct (path_of s a) as [ap| |]; try discriminate.
  destruct (path_eqb vp ap); try discriminate.
  destruct (is_ali kv); try discriminate.
  inversion H; subst. eapply skel_eq_trans; [|apply skel_eq_add_backref].
  apply skel_eq_upd. intro n. reflexivity.
Qed.

Lemma skel_eq_retarget_all : forall als s v, skel_eq s (fst (retarget_all s als v)).
Proof.
  induction als as [|a r IH]; intros s v; simpl; [apply skel_eq_refl|].
  destruct (set_target s a v) as [s'|e] eqn:E.
  - eapply skel_eq_trans; [eapply skel_eq_set_target; eauto | apply IH].
  - destruct e; try apply skel_eq_refl. apply IH.
Qed.

(* the shape of set_member on the final container, whatever the order inside it: either the member is not written (the
   skeleton is what it was), or it is written exactly once, to a state with the same skeleton *)
Lemma set_at_shape : forall s a c k ms v s' e, set_at s a c k ms v = (s', e) ->
  (skel_eq s s' /\ e <> None) \/
  (exists s1 s2, skel_eq s s1 /\ write_member s1 c k v = Ok s2 /\ skel_eq s2 s' /\ (e = None \/ ab = true)).
Proof.
  intros s a c k ms v s' e H. unfold C16_tree.set_at in H.
  assert (Hw : forall s0, skel_eq s s0 ->
     match write_member s0 c k v with Ok s2 => (s2, None) | Err e => (s0, Some e) end = (s', e) ->
     (skel_eq s s' /\ e <> None) \/
     (exists s1 s2, skel_eq s s1 /\ write_member s1 c k v = Ok s2 /\ skel_eq s2 s' /\ (e = None \/ ab = true))).
  { intros s0 H0 H1. destruct (write_member s0 c k v) as [s2|e0] eqn:W; inversion H1; subst.
    - right. exists s0, s'. split; [exact H0|]. split; [exact W|]. split; [apply skel_eq_refl|]. left. reflexivity.
    - left. split; [exact H0 | discriminate]. }
  destruct a; [|destruct (mlookup k ms); exact (Hw s (skel_eq_refl s) H)].
  destruct (mlookup k ms) as [m|]; [|exact (Hw s (skel_eq_refl s) H)].
  destruct (replace_probe s m v) as [e0|]; [inversion H; subst; left; split; [apply skel_eq_refl | discriminate]|].
  destruct ab.
  - assert (Hgo : match write_member s c k v with
                  | Err e => (s, Some e)
                  | Ok s1 => retarget_all s1 (repl_aliases s1 m) v end = (s', e) ->
                  (skel_eq s s' /\ e <> None) \/
                  (exists s1 s2, skel_eq s s1 /\ write_member s1 c k v = Ok s2 /\ skel_eq s2 s' /\ (e = None \/ true = true))).
    { intro H1. destruct (write_member s c k v) as [s1|e0] eqn:W.
      - right. exists s, s1. split; [apply skel_eq_refl|]. split; [exact W|]. split; [|right; reflexivity].
        pose proof (skel_eq_retarget_all (repl_aliases s1 m) s1 v) as HS. rewrite H1 in HS. exact HS.
      - inversion H1; subst. left. split; [apply skel_eq_refl | discriminate]. }
    destruct (kind_of s v) as [[| | | |]|]; try exact (Hgo H).
    destruct (repl_aliases s m); [exact (Hgo H)|].
    inversion H; subst. left. split; [apply skel_eq_refl | discriminate].
  - pose proof (skel_eq_retarget_all (repl_aliases s m) s v) as HS.
    destruct (retarget_all s (repl_aliases s m) v) as [s1 [e1|]]; simpl in HS.
    + inversion H; subst. left. split; [exact HS | discriminate].
    + exact (Hw s1 HS H).
Qed.

Lemma skel_eq_resolve : forall s a, skel_eq s (fst (resolve s a)).
Proof.
  intros s a. unfold resolve.
  destruct (getn s a) as [n|]; [|apply skel_eq_refl].
  destruct (negb (is_ali (nkind n))); [apply skel_eq_refl|].
  destruct (has_mc s a); [|apply skel_eq_refl].
  destruct (path_eqb (ntpath n) [""]); [apply skel_eq_refl|].
  destruct (get s RRoot (ntpath n)) as [x|e]; [|destruct e; apply skel_eq_refl].
  destruct (Nat.eqb x a); [apply skel_eq_refl|].
  destruct (kind_of s x) as [kx|]; [|apply skel_eq_refl].
  destruct (is_ali kx); [apply skel_eq_refl|].
  assert (H1 : skel_eq s (upd_state s a (with_target (Some x) (ntpath n)))) by (apply skel_eq_upd; intro; reflexivity).
  destruct (path_of s a); simpl; auto.
  eapply skel_eq_trans; [exact H1 | apply skel_eq_add_backref].
Qed.

(* ---- an object that nothing refers to: it has no members, no dictionary lists it, it is nobody's parent
   (a freshly built object; an alias that was deleted or replaced) *)
Record Detached (s : state) (v : nat) : Prop := {
  d_node : exists vn, getn s v = Some vn /\ nmembers vn = [];
  d_noroot : forall k, mlookup k (root s) <> Some v;
  d_nomem : forall c cn k, getn s c = Some cn -> mlookup k (nmembers cn) <> Some v;
  d_leaf : forall x n, getn s x = Some n -> nparent n <> Some v
}.

Lemma Detached_skel_eq : forall s s' v, skel_eq s s' -> Detached s v -> Detached s' v.
Proof.
  intros s s' v H D. pose proof H as [HR HN]. constructor.
  - destruct (d_node s v D) as [vn [G M]]. specialize (HN v). rewrite G in HN.
    destruct (getn s' v) as [vn'|]; simpl in HN; [|discriminate]. exists vn'.
    unfold skel in HN. inversion HN as [[E1 E2 E3 E4 E5]]. repeat split; congruence.
  - intros k. rewrite <- HR. apply (d_noroot s v D).
  - intros c cn' k G. destruct (skel_eq_node s s' c cn' H G) as [cn [Gc Ec]].
    unfold skel in Ec. inversion Ec as [[E1 E2 E3 E4 E5]]. intro L.
    apply (d_nomem s v D c cn k Gc). congruence.
  - intros x n' G. destruct (skel_eq_node s s' x n' H G) as [n [Gx Ex]].
    unfold skel in Ex. inversion Ex as [[E1 E2 E3 E4 E5]]. intro Q. apply (d_leaf s v D x n Gx). congruence.
Qed.

Lemma getn_app_lt : forall s nd i, i < List.length (heap s) -> getn (mkState (heap s ++ [nd]) (root s)) i = getn s i.
Proof. intros. unfold getn. simpl. apply nth_error_app1. auto. Qed.

Lemma getn_app_last : forall s nd, getn (mkState (heap s ++ [nd]) (root s)) (List.length (heap s)) = Some nd.
Proof. intros. unfold getn. simpl. rewrite nth_error_app2 by lia. rewrite Nat.sub_diag. reflexivity. Qed.

Lemma SInv_app : forall s nd, SInv s -> nparent nd = None -> nmembers nd = [] ->
  SInv (mkState (heap s ++ [nd]) (root s)) /\ Detached (mkState (heap s ++ [nd]) (root s)) (List.length (heap s)).
Proof.
  intros s nd HI P M. set (s1 := mkState (heap s ++ [nd]) (root s)).
  assert (Hold : forall i n, getn s i = Some n -> getn s1 i = Some n).
  { intros i n G. unfold s1. rewrite getn_app_lt; auto. eapply getn_lt; eauto. }
  split.
  - constructor.
    + intros k x L. simpl in L. destruct (s_root s HI k x L) as [n [G R]]. exists n. split; auto.
    + intros c cn k x G L. apply getn_app_old in G. destruct G as [[_ G]|[_ E]].
      * destruct (s_mem s HI c cn k x G L) as [n [Gx R]]. exists n. split; auto.
      * subst cn. rewrite M in L. discriminate.
    + unfold s1. simpl. apply wfpar_app; [exact (s_par s HI) | exact P].
  - constructor.
    + exists nd. split; [apply getn_app_last | auto].
    + intros k L. simpl in L. destruct (s_root s HI k _ L) as [n [G _]]. apply getn_lt in G. lia.
    + intros c cn k G L. apply getn_app_old in G. destruct G as [[_ G]|[_ E]].
      * destruct (s_mem s HI c cn k _ G L) as [n [Gx _]]. apply getn_lt in Gx. lia.
      * subst cn. rewrite M in L. discriminate.
    + intros x n G Pn. apply getn_app_old in G. destruct G as [[_ G]|[_ E]].
      * destruct (s_par s HI) as [rk [He _]]. destruct (He x n _ G Pn) as [Hc _]. lia.
      * subst n. congruence.
Qed.

(* ---- linking a detached object under an object *)
Definition link_obj (s : state) (i : nat) (k : name) (v : nat) : state :=
  upd_state (upd_state s i (fun n => with_members (mput k v (nmembers n)) n)) v (with_parent (Some i)).

Lemma getn_link_obj : forall s i k v x, i <> v ->
  getn (link_obj s i k v) x =
    if Nat.eqb x v then option_map (with_parent (Some i)) (getn s v)
    else if Nat.eqb x i then option_map (fun n => with_members (mput k v (nmembers n)) n) (getn s i)
    else getn s x.
Proof.
  intros s i k v x Hne. unfold link_obj. rewrite getn_upd.
  destruct (Nat.eqb v x) eqn:E1.
  - apply Nat.eqb_eq in E1. subst x. rewrite Nat.eqb_refl. rewrite getn_upd.
    destruct (Nat.eqb i v) eqn:E2; [apply Nat.eqb_eq in E2; congruence|reflexivity].
  - rewrite Nat.eqb_sym in E1. rewrite E1. rewrite getn_upd. rewrite (Nat.eqb_sym x i).
    destruct (Nat.eqb i x) eqn:E2; auto. apply Nat.eqb_eq in E2. subst. reflexivity.
Qed.

Lemma SInv_link_obj : forall s i cn k v vn, SInv s -> Detached s v ->
  getn s i = Some cn -> i <> v -> getn s v = Some vn -> nname vn = k ->
  SInv (link_obj s i k v).
Proof.
  intros s i cn k v vn HI D Gi Hne Gv Nv.
  destruct (d_node s v D) as [vn0 [Gv0 Mv]]. rewrite Gv in Gv0. inversion Gv0; subst vn0. clear Gv0.
  constructor.
  - intros k' x L. unfold link_obj in L. simpl in L.
    destruct (s_root s HI k' x L) as [n [G [P [N [A MC]]]]].
    assert (x <> v) by (intro Hx; rewrite Hx in L; exact (d_noroot s v D k' L)).
    rewrite getn_link_obj by auto. apply Nat.eqb_neq in H. rewrite H.
    destruct (Nat.eqb x i) eqn:E.
    + apply Nat.eqb_eq in E. subst x. rewrite Gi. rewrite Gi in G. inversion G; subst n. simpl.
      eexists. split; [reflexivity|]. simpl. auto.
    + exists n. auto.
  - intros c cn' k' x G L. rewrite getn_link_obj in G by auto.
    destruct (Nat.eqb c v) eqn:Ecv.
    + rewrite Gv in G. simpl in G. inversion G; subst cn'. simpl in L. rewrite Mv in L. discriminate.
    + destruct (Nat.eqb c i) eqn:Eci.
      * apply Nat.eqb_eq in Eci. subst c. rewrite Gi in G. simpl in G. inversion G; subst cn'. simpl in L.
        destruct (String.eqb k' k) eqn:Ek.
        -- apply String.eqb_eq in Ek. subst k'. rewrite mlookup_put_same in L. inversion L; subst x.
           rewrite getn_link_obj by auto. rewrite Nat.eqb_refl. rewrite Gv. simpl.
           eexists. split; [reflexivity|]. simpl. auto.
        -- apply String.eqb_neq in Ek. rewrite mlookup_put_other in L by auto.
           destruct (s_mem s HI i cn k' x Gi L) as [n [Gx [P N]]].
           assert (x <> v) by (intro Hx; rewrite Hx in L; exact (d_nomem s v D i cn k' Gi L)).
           assert (x <> i). { intro; subst x. rewrite Gi in Gx. inversion Gx; subst n.
                              destruct (s_par s HI) as [rk [He _]]. destruct (He i cn i Gi P). lia. }
           rewrite getn_link_obj by auto. apply Nat.eqb_neq in H, H0. rewrite H, H0. exists n. auto.
      * destruct (s_mem s HI c cn' k' x G L) as [n [Gx [P N]]].
        assert (x <> v) by (intro Hx; rewrite Hx in L; exact (d_nomem s v D c cn' k' G L)).
        rewrite getn_link_obj by auto. apply Nat.eqb_neq in H. rewrite H.
        destruct (Nat.eqb x i) eqn:E.
        -- apply Nat.eqb_eq in E. subst x. rewrite Gi. rewrite Gi in Gx. inversion Gx; subst n. simpl.
           eexists. split; [reflexivity|]. simpl. auto.
        -- exists n. auto.
  - unfold link_obj, upd_state. simpl. apply wfpar_relink.
    + apply wfpar_upd_keep; [intro n; reflexivity | exact (s_par s HI)].
    + rewrite upd_length. eapply getn_lt; eauto.
    + rewrite upd_length. eapply getn_lt; eauto.
    + exact Hne.
    + intros x n G. destruct (Nat.eq_dec i x) as [->|Hx].
      * rewrite nth_upd_same in G. fold (getn s x) in G. rewrite Gi in G. simpl in G. inversion G; subst n. simpl.
        exact (d_leaf s v D x cn Gi).
      * rewrite nth_upd_other in G by auto. exact (d_leaf s v D x n G).
Qed.

(* ---- linking a detached object into the collection *)
Definition link_root (s : state) (k : name) (v : nat) : state :=
  mkState (upd (heap s) v with_mc) (mput k v (root s)).

Lemma getn_link_root : forall s k v x,
  getn (link_root s k v) x = if Nat.eqb v x then option_map with_mc (getn s x) else getn s x.
Proof. intros. unfold link_root. exact (getn_upd s v x with_mc). Qed.

Lemma SInv_link_root : forall s k v vn, SInv s -> Detached s v ->
  getn s v = Some vn -> nname vn = k -> is_ali (nkind vn) = false -> nparent vn = None ->
  SInv (link_root s k v).
Proof.
  intros s k v vn HI D Gv Nv Av Pv.
  destruct (d_node s v D) as [vn0 [Gv0 Mv]]. rewrite Gv in Gv0. inversion Gv0; subst vn0. clear Gv0.
  constructor.
  - intros k' x L. unfold link_root in L. simpl in L. rewrite getn_link_root.
    destruct (String.eqb k' k) eqn:Ek.
    + apply String.eqb_eq in Ek. subst k'. rewrite mlookup_put_same in L. inversion L; subst x.
      rewrite Nat.eqb_refl. rewrite Gv. simpl. eexists. split; [reflexivity|]. simpl. auto.
    + apply String.eqb_neq in Ek. rewrite mlookup_put_other in L by auto.
      destruct (s_root s HI k' x L) as [n [G R]].
      assert (v <> x) by (intro Hx; rewrite <- Hx in L; exact (d_noroot s v D k' L)).
      apply Nat.eqb_neq in H. rewrite H. exists n. auto.
  - intros c cn k' x G L. rewrite getn_link_root in G.
    assert (exists cn0, getn s c = Some cn0 /\ nmembers cn0 = nmembers cn) as [cn0 [G0 M0]].
    { destruct (Nat.eqb v c); [|eauto]. destruct (getn s c) as [c0|]; simpl in G; [|discriminate].
      inversion G; subst cn. exists c0. auto. }
    rewrite <- M0 in L. destruct (s_mem s HI c cn0 k' x G0 L) as [n [Gx [P N]]].
    assert (v <> x) by (intro Hx; rewrite <- Hx in L; exact (d_nomem s v D c cn0 k' G0 L)).
    rewrite getn_link_root. apply Nat.eqb_neq in H. rewrite H. exists n. auto.
  - unfold link_root. simpl. apply wfpar_upd_keep; [intro n; reflexivity | exact (s_par s HI)].
Qed.

(* ---- unlinking *)
Lemma mlookup_del_Some : forall k k' l x, mlookup k' (mdel k l) = Some x -> mlookup k' l = Some x.
Proof.
  intros k k' l x H. destruct (String.eqb k' k) eqn:E.
  - apply String.eqb_eq in E. subst. rewrite mlookup_del_same in H. discriminate.
  - apply String.eqb_neq in E. rewrite mlookup_del_other in H; auto.
Qed.

Lemma SInv_unlink_root : forall s k, SInv s -> SInv (mkState (heap s) (mdel k (root s))).
Proof.
  intros s k HI. constructor.
  - intros k' x L. simpl in L. apply mlookup_del_Some in L. exact (s_root s HI k' x L).
  - intros c cn k' x G L. exact (s_mem s HI c cn k' x G L).
  - exact (s_par s HI).
Qed.

Lemma SInv_unlink_obj : forall s i k, SInv s ->
  SInv (upd_state s i (fun n => with_members (mdel k (nmembers n)) n)).
Proof.
  intros s i k HI.
  assert (Hn : forall x n', getn (upd_state s i (fun n => with_members (mdel k (nmembers n)) n)) x = Some n' ->
           exists n, getn s x = Some n /\ npk n = npk n' /\ nmc n = nmc n' /\
                     (forall k' y, mlookup k' (nmembers n') = Some y -> mlookup k' (nmembers n) = Some y)).
  { intros x n' G. rewrite getn_upd in G. destruct (Nat.eqb i x).
    - destruct (getn s x) as [n|]; simpl in G; [|discriminate]. inversion G; subst n'. exists n.
      repeat split; auto. simpl. intros k' y. apply mlookup_del_Some.
    - exists n'. repeat split; auto. }
  assert (Hk : forall x n, getn s x = Some n ->
           exists n', getn (upd_state s i (fun n => with_members (mdel k (nmembers n)) n)) x = Some n' /\ npk n = npk n' /\ nmc n = nmc n').
  { intros x n G. rewrite getn_upd. destruct (Nat.eqb i x).
    - rewrite G. simpl. eexists. split; [reflexivity|]. split; reflexivity.
    - exists n. auto. }
  constructor.
  - intros k' x L. simpl in L. destruct (s_root s HI k' x L) as [n [G [P [N [A MC]]]]].
    destruct (Hk x n G) as [n' [G' [E1 E2]]]. exists n'. unfold npk in E1. inversion E1. repeat split; congruence.
  - intros c cn' k' x G L. destruct (Hn c cn' G) as [cn [Gc [_ [_ Hm]]]].
    destruct (s_mem s HI c cn k' x Gc (Hm k' x L)) as [n [Gx [P N]]].
    destruct (Hk x n Gx) as [n' [G' [E1 E2]]]. exists n'. unfold npk in E1. inversion E1. repeat split; congruence.
  - unfold upd_state. simpl. apply wfpar_upd_keep; [intro n; reflexivity | exact (s_par s HI)].
Qed.

(* ---- locate *)
Lemma locate_key : forall s p r c k, locate s r p = Ok (c, k) -> k = last p "".
Proof.
  intros s p. induction p as [|k0 p IH]; intros r c k H; simpl in H; [discriminate|].
  destruct (members_r s r) as [ms|]; [|discriminate].
  destruct p as [|k1 p1].
  - inversion H. reflexivity.
  - destruct (mlookup k0 ms) as [x|]; [|discriminate]. apply IH in H. exact H.
Qed.

Lemma locate_obj_not_root : forall s q x k, locate s (RObj x) q = Ok (RRoot, k) -> False.
Proof.
  intros s q. induction q as [|a q IH]; intros x k H; [discriminate|].
  cbn [locate] in H. destruct (members_r s (RObj x)) as [ms'|]; [|discriminate].
  destruct q as [|b q']; [inversion H|].
  destruct (mlookup a ms') as [y|]; [|discriminate]. eapply IH; eauto.
Qed.

Lemma locate_root : forall s p r k, locate s r p = Ok (RRoot, k) -> r = RRoot /\ p = [k].
Proof.
  intros s p. destruct p as [|k0 p]; intros r k H; simpl in H; [discriminate|].
  destruct (members_r s r) as [ms|]; [|discriminate].
  destruct p as [|k1 p1].
  - inversion H. auto.
  - destruct (mlookup k0 ms) as [x|]; [|discriminate]. exfalso. eapply locate_obj_not_root; eauto.
Qed.

Lemma locate_members : forall s p r c k, locate s r p = Ok (c, k) -> exists ms, members_r s c = Ok ms.
Proof.
  intros s p. induction p as [|k0 p IH]; intros r c k H; simpl in H; [discriminate|].
  destruct (members_r s r) as [ms|] eqn:M; [|discriminate].
  destruct p as [|k1 p1].
  - inversion H; subst. eauto.
  - destruct (mlookup k0 ms) as [x|]; [|discriminate]. eapply IH; eauto.
Qed.

Lemma members_r_obj : forall s i ms, members_r s (RObj i) = Ok ms ->
  exists n, getn s i = Some n /\ is_ali (nkind n) = false /\ ms = nmembers n.
Proof.
  intros s i ms H. simpl in H. destruct (getn s i) as [n|]; [|discriminate].
  destruct (is_ali (nkind n)) eqn:A; [discriminate|]. inversion H. eauto.
Qed.

Lemma locate_not_detached : forall s v, Detached s v -> forall p r i k,
  r <> RObj v -> locate s r p = Ok (RObj i, k) -> i <> v.
Proof.
  intros s v D p. induction p as [|k0 p IH]; intros r i k Hr H; simpl in H; [discriminate|].
  destruct (members_r s r) as [ms|] eqn:M; [|discriminate].
  destruct p as [|k1 p1].
  - inversion H; subst. congruence.
  - destruct (mlookup k0 ms) as [x|] eqn:L; [|discriminate].
    apply (IH (RObj x) i k); auto. intro E. inversion E; subst x.
    destruct r as [|c].
    + simpl in M. inversion M; subst. eapply (d_noroot s v D); eauto.
    + apply members_r_obj in M. destruct M as [n [G [_ E2]]]. subst ms. eapply (d_nomem s v D); eauto.
Qed.

(* ---- the structural invariant is kept by every top-down operation *)
Lemma alloc_cases : forall s k n t s1 e, alloc s k n t = (s1, e) ->
  (s1 = s /\ e <> None) \/
  (e = None /\ exists nd, s1 = mkState (heap s ++ [nd]) (root s) /\ nparent nd = None /\ nmembers nd = [] /\
                          nname nd = n /\ nkind nd = k /\ naliases nd = [] /\
                          (forall x, ntarget nd = Some x -> k = KAli /\ kind_of s x <> None /\ kind_of s x <> Some KAli /\ path_of s x = POk (ntpath nd))).
Proof.
  intros s k n t s1 e H. unfold alloc in H.
  assert (F : forall tp, (mkState (heap s ++ [fresh n k None tp]) (root s), @None err) = (s1, e) ->
     e = None /\ exists nd, s1 = mkState (heap s ++ [nd]) (root s) /\ nparent nd = None /\ nmembers nd = [] /\
                          nname nd = n /\ nkind nd = k /\ naliases nd = [] /\
                          (forall x, ntarget nd = Some x -> k = KAli /\ kind_of s x <> None /\ kind_of s x <> Some KAli /\ path_of s x = POk (ntpath nd))).
  { intros tp E. inversion E; subst. split; auto. eexists. split; [reflexivity|]. simpl. repeat split; auto; discriminate. }
  destruct k; destruct t as [|p|x]; try (left; inversion H; split; [reflexivity|discriminate]); try (right; apply (F _ H)).
  destruct (kind_of s x) as [kx|] eqn:Kx; [|left; inversion H; split; [reflexivity|discriminate]].
  destruct (is_ali kx) eqn:A; [left; inversion H; split; [reflexivity|discriminate]|].
  destruct (path_of s x) as [px| |] eqn:Px; try (left; inversion H; split; [reflexivity|discriminate]).
  right. inversion H; subst. split; auto. eexists. split; [reflexivity|]. simpl. repeat split; auto.
  - inversion H0; subst. rewrite Kx. discriminate.
  - inversion H0; subst. rewrite Kx. intro E. inversion E; subst kx. discriminate.
  - inversion H0; subst. exact Px.
Qed.

Lemma SInv_update_target_aliases : forall s a s', update_target_aliases s a = Ok s' -> skel_eq s s'.
Proof.
  intros s a s' H. unfold update_target_aliases in H.
  destruct (getn s a) as [n|]; [|inversion H; apply skel_eq_refl].
  destruct (ntarget n) as [t|]; [|inversion H; apply skel_eq_refl].
  destruct (path_of s a); inversion H; subst; try apply skel_eq_refl. apply skel_eq_add_backref.
Qed.

Lemma write_member_shape : forall s c k v s', write_member s c k v = Ok s' ->
  match c with
  | RRoot => s' = link_root s k v
  | RObj i => skel_eq (link_obj s i k v) s'
  end.
Proof.
  intros s c k v s' H. unfold write_member in H. destruct c as [|i].
  - inversion H. reflexivity.
  - fold (link_obj s i k v) in H.
    assert (E : kind_of (link_obj s i k v) v = kind_of (link_obj s i k v) v) by reflexivity.
    destruct (kind_of s v) as [[| | | |]|]; try (inversion H; apply skel_eq_refl).
    eapply SInv_update_target_aliases; eauto.
Qed.

Lemma SInv_write_member_loose : forall s1 c k v vn1 s2, SInv s1 -> Detached s1 v -> getn s1 v = Some vn1 -> nname vn1 = k ->
  (c = RRoot -> is_ali (nkind vn1) = false /\ nparent vn1 = None) ->
  (forall i, c = RObj i -> i <> v /\ exists cn, getn s1 i = Some cn) ->
  write_member s1 c k v = Ok s2 -> SInv s2.
Proof.
  intros s1 c k v vn1 s2 HI1 D1 Gv1 Nv Hroot Hobj W.
  apply write_member_shape in W. destruct c as [|i].
  - subst s2. destruct (Hroot eq_refl) as [A1 A2]. apply (SInv_link_root s1 k v vn1 HI1 D1 Gv1); auto.
  - apply (skel_eq_SInv _ _ W). destruct (Hobj i eq_refl) as [Hiv [cn Gi]].
    apply (SInv_link_obj s1 i cn k v vn1 HI1 D1 Gi Hiv Gv1). exact Nv.
Qed.

Lemma SInv_set_value_fresh : forall s a r p v vn, SInv s -> Detached s v -> getn s v = Some vn ->
  r <> RObj v -> nname vn = last p "" ->
  (r = RRoot -> (exists k, p = [k]) -> is_ali (nkind vn) = false /\ nparent vn = None) ->
  SInv (fst (set_value s a r p v)).
Proof.
  intros s a r p v vn HI D Gv Hr Nv Av. unfold C16_tree.set_value. rewrite Gv.
  destruct (locate s r p) as [[c k]|e] eqn:Lc; [|exact HI].
  destruct (members_r s c) as [ms|e] eqn:M; [|exact HI].
  pose proof (locate_key s p r c k Lc) as Hk.
  destruct (set_at s a c k ms v) as [s' e] eqn:E. simpl.
  apply set_at_shape in E. destruct E as [[H1 _]|[s1 [s2 [H1 [W [H2 _]]]]]].
  - exact (skel_eq_SInv s s' H1 HI).
  - apply (skel_eq_SInv s2 s' H2).
    pose proof (skel_eq_SInv s s1 H1 HI) as HI1.
    pose proof (Detached_skel_eq s s1 v H1 D) as D1.
    destruct (skel_eq_node s1 s v vn (skel_eq_sym _ _ H1) Gv) as [vn1 [Gv1 Ev]].
    unfold skel in Ev. inversion Ev as [[E1 E2 E3 E4 E5]].
    apply (SInv_write_member_loose s1 c k v vn1 s2 HI1 D1 Gv1); auto.
    + rewrite E1, Nv. symmetry. exact Hk.
    + intro Ec. subst c. apply locate_root in Lc. destruct Lc as [Er Ep]. subst r p.
      rewrite E2, E3. apply Av; eauto.
    + intros i Ec. subst c. split; [exact (locate_not_detached s v D p r i k Hr Lc)|].
      rewrite (skel_eq_members_r s s1 H1) in M. apply members_r_obj in M. destruct M as [cn [Gi _]]. eauto.
Qed.

Lemma SInv_del_value : forall s r p, SInv s -> SInv (fst (del_value s r p)).
Proof.
  intros s r p HI. unfold del_value.
  destruct (locate s r p) as [[c k]|e]; [|exact HI].
  destruct (get_at s c k); [|exact HI].
  destruct c; simpl; [apply SInv_unlink_root | apply SInv_unlink_obj]; exact HI.
Qed.

(* ---- nothing reachable is a detached node *)
Lemma get_not_detached : forall s v, Detached s v -> forall p r x, get s r p = Ok x -> x <> v.
Proof.
  intros s v D p. induction p as [|k p IH]; intros r x H; [simpl in H; discriminate|].
  cbn [get] in H. destruct (members_r s r) as [ms|] eqn:M; [|discriminate].
  destruct (mlookup k ms) as [y|] eqn:L; [|discriminate].
  destruct p as [|k2 p2].
  - inversion H; subst y. intro E; subst x. destruct r as [|c].
    + simpl in M. inversion M; subst. exact (d_noroot s v D k L).
    + apply members_r_obj in M. destruct M as [n [G [_ E2]]]. subst ms. exact (d_nomem s v D c n k G L).
  - eapply IH; eauto.
Qed.

Lemma live_spec : forall s a, live s a = true -> exists p, path_of s a = POk p /\ get s RRoot p = Ok a.
Proof.
  intros s a H. unfold live in H. destruct (path_of s a) as [p| |]; try discriminate.
  destruct (get s RRoot p) as [x|] eqn:G; try discriminate. apply Nat.eqb_eq in H. subst x. eauto.
Qed.

(* ---- what the discipline says about an alias that comes back *)
Lemma mentions_lookup : forall v ms k, mlookup k ms = Some v -> mentions v ms = true.
Proof.
  intros v ms. induction ms as [|[k' x] r IH]; intros k H; [discriminate|].
  unfold mlookup in H. simpl in H. unfold mentions. simpl.
  destruct (String.eqb k k'); [inversion H; subst; rewrite Nat.eqb_refl; reflexivity|].
  fold (mlookup k r) in H. unfold mentions in IH. rewrite (IH k H). apply orb_true_r.
Qed.

Lemma forallb_heap : forall (f : node -> bool) s, forallb f (heap s) = true -> forall x n, getn s x = Some n -> f n = true.
Proof. intros f s H x n G. rewrite forallb_forall in H. apply H. unfold getn in G. eapply nth_error_In; eauto. Qed.

Lemma loose_spec : forall s v, loose s v = true ->
  (forall k, mlookup k (root s) <> Some v) /\
  (forall c cn k, getn s c = Some cn -> mlookup k (nmembers cn) <> Some v) /\
  (forall t tn p, getn s t = Some tn -> ~ In (p, v) (naliases tn)) /\
  (forall x n, getn s x = Some n -> nparent n <> Some v) /\
  (forall x n, getn s x = Some n -> ntarget n <> Some v).
Proof.
  intros s v H. unfold loose in H. apply andb_true_iff in H. destruct H as [H1 H2].
  apply negb_true_iff in H1.
  assert (Hn : forall x n, getn s x = Some n ->
            mentions v (nmembers n) = false /\ existsb (fun pa => Nat.eqb (snd pa) v) (naliases n) = false /\
            opt_is v (nparent n) = false /\ opt_is v (ntarget n) = false).
  { intros x n G. pose proof (forallb_heap _ s H2 x n G) as F. simpl in F.
    repeat (apply andb_true_iff in F; destruct F as [F ?]).
    repeat match goal with Q : negb _ = true |- _ => apply negb_true_iff in Q end. auto. }
  split; [|split; [|split; [|split]]].
  - intros k L. apply mentions_lookup in L. congruence.
  - intros c cn k G L. destruct (Hn c cn G) as [F _]. apply mentions_lookup in L. congruence.
  - intros t tn p G Hin. destruct (Hn t tn G) as [_ [F _]].
    assert (existsb (fun pa => Nat.eqb (snd pa) v) (naliases tn) = true).
    { apply existsb_exists. exists (p, v). split; auto. simpl. apply Nat.eqb_refl. }
    congruence.
  - intros x n G P. destruct (Hn x n G) as [_ [_ [F _]]]. rewrite P in F. simpl in F. rewrite Nat.eqb_refl in F. discriminate.
  - intros x n G P. destruct (Hn x n G) as [_ [_ [_ F]]]. rewrite P in F. simpl in F. rewrite Nat.eqb_refl in F. discriminate.
Qed.

Lemma reattach_ok_spec : forall s r p v, reattach_ok s r p v = true ->
  exists vn, getn s v = Some vn /\ (forall t, ntarget vn = Some t -> nkind vn = KAli) /\ nmembers vn = [] /\ loose s v = true /\
             nname vn = last p "" /\ recv_live s r = true /\ ~ (r = RRoot /\ exists k, p = [k]).
Proof.
  intros s r p v H. unfold reattach_ok in H.
  destruct (getn s v) as [vn|] eqn:Gv; [|discriminate].
  assert (Hb : (is_ali (nkind vn) || match ntarget vn with None => true | Some _ => false end) &&
               (match nmembers vn with [] => true | _ :: _ => false end) && loose s v &&
               String.eqb (last p "") (nname vn) && recv_live s r = true /\ ~ (r = RRoot /\ exists k, p = [k])).
  { destruct r as [|j].
    - destruct p as [|k0 [|k1 p2]]; try discriminate; (split; [exact H|]); intros [_ [k E]]; discriminate.
    - split; [exact H|]. intros [E _]. discriminate. }
  destruct Hb as [Hb Hroot].
  repeat (apply andb_true_iff in Hb; destruct Hb as [Hb ?]).
  exists vn. split; [reflexivity|]. split.
  { intros t Ht. rewrite Ht in Hb. rewrite orb_false_r in Hb. destruct (nkind vn); try discriminate; reflexivity. }
  split; [destruct (nmembers vn); [reflexivity|discriminate]|]. split; [assumption|].
  split; [symmetry; apply String.eqb_eq; assumption|]. split; assumption.
Qed.

Lemma loose_detached : forall s v vn, loose s v = true -> getn s v = Some vn -> nmembers vn = [] -> Detached s v.
Proof.
  intros s v vn H Gv Mv. destruct (loose_spec s v H) as [H1 [H2 [_ [H4 _]]]].
  constructor; auto. exists vn. auto.
Qed.

Lemma reattach_recv : forall s r p v vn, reattach_ok s r p v = true -> getn s v = Some vn -> r <> RObj v.
Proof.
  intros s r p v vn H Gv E. subst r. apply reattach_ok_spec in H.
  destruct H as [vn0 [Gv0 [_ [Mv [Hl [_ [Lr _]]]]]]]. simpl in Lr. apply live_spec in Lr. destruct Lr as [q [_ Gq]].
  exact (get_not_detached s v (loose_detached s v vn0 Hl Gv0 Mv) q RRoot v Gq eq_refl).
Qed.

Lemma top_down_new_root_kind : forall s a r p k t, top_down s (ONew a r p k t) = true ->
  r = RRoot -> (exists k0, p = [k0]) -> is_ali k = false.
Proof.
  intros s a r p k t H Hr [k0 Hp]. subst r p. simpl in H. destruct k; auto; try discriminate.
Qed.

Lemma SInv_step : forall s o, SInv s -> top_down s o = true -> SInv (fst (step s o)).
Proof.
  intros s o HI Htd. destruct o as [k n t|a r p v|a r p k t|a r p|a|a v]; try (simpl in Htd; discriminate); simpl.
  - (* an alias that was deleted or replaced comes back *)
    simpl in Htd. pose proof Htd as Hs. apply reattach_ok_spec in Hs.
    destruct Hs as [vn [Gv [Kv [Mv [Hl [Nv [Lr Hroot]]]]]]].
    apply (SInv_set_value_fresh s a r p v vn HI (loose_detached s v vn Hl Gv Mv) Gv); auto.
    + exact (reattach_recv s r p v vn Htd Gv).
    + intros Hr Hp. exfalso. apply Hroot. auto.
  - destruct (recv_exists s r) eqn:Re; simpl; [|exact HI].
    destruct (alloc s k (last p "") t) as [s1 e] eqn:Al.
    apply alloc_cases in Al. destruct Al as [[E1 E2]|[E1 [nd [E2 [P [M [N [K _]]]]]]]].
    + subst s1. destruct e; [exact HI|congruence].
    + subst e. destruct (SInv_app s nd HI P M) as [HI1 D1]. rewrite <- E2 in HI1, D1.
      apply (SInv_set_value_fresh s1 a r p (List.length (heap s)) nd HI1 D1).
      * subst s1. apply getn_app_last.
      * destruct r as [|i]; [discriminate|]. simpl in Re. apply Nat.ltb_lt in Re. intro E. inversion E. lia.
      * exact N.
      * intros Hr Hp. rewrite K. split; [exact (top_down_new_root_kind s a r p k t Htd Hr Hp) | exact P].
  - apply SInv_del_value. exact HI.
  - apply (skel_eq_SInv s); [apply skel_eq_resolve | exact HI].
  - destruct (set_target s a v) as [s'|e] eqn:E; simpl; [|exact HI].
    apply (skel_eq_SInv s); [eapply skel_eq_set_target; eauto | exact HI].
Qed.

Lemma run_cons : forall s o r, run s (o :: r) = run (fst (step s o)) r.
Proof. reflexivity. Qed.

Lemma SInv_run : forall ops s, SInv s -> all_top_down s ops = true -> SInv (run s ops).
Proof.
  induction ops as [|o r IH]; intros s HI H; [exact HI|].
  simpl in H. apply andb_true_iff in H. destruct H as [H1 H2]. rewrite run_cons. apply IH; auto. apply SInv_step; auto.
Qed.

(* ---- deleted members are gone (any state) *)
Definition unlink (s : state) (c : recv) (k : name) : state :=
  match c with
  | RRoot => mkState (heap s) (mdel k (root s))
  | RObj i => upd_state s i (fun n => with_members (mdel k (nmembers n)) n)
  end.

Definition recv_eqb (a b : recv) : bool :=
  match a, b with RRoot, RRoot => true | RObj i, RObj j => Nat.eqb i j | _, _ => false end.

Lemma recv_eqb_eq : forall a b, recv_eqb a b = true <-> a = b.
Proof.
  intros [|i] [|j]; simpl; split; intro H; try discriminate; auto.
  - apply Nat.eqb_eq in H. congruence.
  - inversion H. apply Nat.eqb_refl.
Qed.

Lemma members_r_unlink : forall s c k r ms, members_r s r = Ok ms ->
  members_r (unlink s c k) r = Ok (if recv_eqb r c then mdel k ms else ms).
Proof.
  intros s c k r ms H. destruct c as [|i]; destruct r as [|j]; simpl in *.
  - inversion H. reflexivity.
  - exact H.
  - exact H.
  - rewrite getn_upd. destruct (Nat.eqb i j) eqn:E.
    + apply Nat.eqb_eq in E. subst j. rewrite Nat.eqb_refl.
      destruct (getn s i) as [n|]; [|discriminate]. simpl.
      destruct (is_ali (nkind n)); [discriminate|]. inversion H. reflexivity.
    + rewrite Nat.eqb_sym in E. rewrite E. exact H.
Qed.

Lemma deleted_gone_gen : forall s c k p r, locate s r p = Ok (c, k) -> get (unlink s c k) r p = Err EMissing.
Proof.
  intros s c k p. induction p as [|k0 p IH]; intros r H; simpl in H; [discriminate|].
  destruct (members_r s r) as [ms|] eqn:M; [|discriminate].
  cbn [get]. rewrite (members_r_unlink s c k r ms M).
  destruct p as [|k1 p1].
  - inversion H; subst r k0. assert (E : recv_eqb c c = true) by (apply recv_eqb_eq; reflexivity).
    rewrite E. rewrite mlookup_del_same. reflexivity.
  - destruct (mlookup k0 ms) as [x|] eqn:L; [|discriminate].
    destruct (recv_eqb r c) eqn:E.
    + destruct (String.eqb k0 k) eqn:Ek.
      * apply String.eqb_eq in Ek. subst k0. rewrite mlookup_del_same. reflexivity.
      * apply String.eqb_neq in Ek. rewrite mlookup_del_other by auto. rewrite L. apply IH. exact H.
    + rewrite L. apply IH. exact H.
Qed.

Lemma del_value_shape : forall s r p s', del_value s r p = (s', None) ->
  exists c k, locate s r p = Ok (c, k) /\ s' = unlink s c k.
Proof.
  intros s r p s' H. unfold del_value in H.
  destruct (locate s r p) as [[c k]|e]; [|discriminate].
  destruct (get_at s c k); [|discriminate].
  exists c, k. split; auto. destruct c; inversion H; reflexivity.
Qed.

Theorem deleted_gone : forall s a r p s', step s (ODel a r p) = (s', None) -> get s' r p = Err EMissing.
Proof.
  intros s a r p s' H. simpl in H. apply del_value_shape in H. destruct H as [c [k [L E]]]. subst s'.
  apply deleted_gone_gen. exact L.
Qed.

(* a rejected deletion changes nothing *)
Theorem rejected_del_unchanged : forall s a r p s' e, step s (ODel a r p) = (s', Some e) -> s' = s.
Proof.
  intros s a r p s' e H. simpl in H. unfold del_value in H.
  destruct (locate s r p) as [[c k]|e0]; [|inversion H; reflexivity].
  destruct (get_at s c k); [|inversion H; reflexivity].
  destruct c; discriminate.
Qed.

(* ---- lookups after a change that only adds the members of "bad" nodes / removes entries *)
Lemma get_backward : forall s s' (bad : nat -> Prop),
  (forall k x, mlookup k (root s') = Some x -> bad x \/ mlookup k (root s) = Some x) ->
  (forall i n', getn s' i = Some n' -> ~ bad i -> is_ali (nkind n') = false ->
      exists n, getn s i = Some n /\ is_ali (nkind n) = false /\
                forall k x, mlookup k (nmembers n') = Some x -> bad x \/ mlookup k (nmembers n) = Some x) ->
  (forall i n', bad i -> getn s' i = Some n' -> nmembers n' = []) ->
  forall p r x, match r with RRoot => True | RObj i => ~ bad i end ->
  get s' r p = Ok x -> ~ bad x -> get s r p = Ok x.
Proof.
  intros s s' bad HR HN HB p. induction p as [|k p IH]; intros r x Hr H Hx; [simpl in H; discriminate|].
  cbn [get] in *.
  destruct (members_r s' r) as [ms'|] eqn:M'; [|discriminate].
  destruct (mlookup k ms') as [y|] eqn:L'; [|discriminate].
  assert (Hy : bad y \/ (exists ms, members_r s r = Ok ms /\ mlookup k ms = Some y)).
  { destruct r as [|i]; simpl in M'.
    - inversion M'; subst ms'. destruct (HR k y L') as [B|L]; [left; auto|right]. exists (root s). simpl. auto.
    - destruct (getn s' i) as [n'|] eqn:G'; [|discriminate]. destruct (is_ali (nkind n')) eqn:A'; [discriminate|].
      inversion M'; subst ms'. destruct (HN i n' G' Hr A') as [n [G [A Hm]]].
      destruct (Hm k y L') as [B|L]; [left; auto|right]. exists (nmembers n). simpl. rewrite G, A. auto. }
  destruct p as [|k2 p2].
  - inversion H; subst y. destruct Hy as [B|[ms [M L]]]; [contradiction|]. rewrite M, L. reflexivity.
  - destruct Hy as [B|[ms [M L]]].
    + exfalso. cbn [get] in H. destruct (members_r s' (RObj y)) as [msy|] eqn:My; [|discriminate].
      simpl in My. destruct (getn s' y) as [ny|] eqn:Gy; [|discriminate].
      destruct (is_ali (nkind ny)); [discriminate|]. inversion My; subst msy.
      rewrite (HB y ny B Gy) in H. simpl in H. discriminate.
    + rewrite M, L. apply (IH (RObj y) x); auto.
      intro B. cbn [get] in H. destruct (members_r s' (RObj y)) as [msy|] eqn:My; [|discriminate].
      simpl in My. destruct (getn s' y) as [ny|] eqn:Gy; [|discriminate].
      destruct (is_ali (nkind ny)); [discriminate|]. inversion My; subst msy.
      rewrite (HB y ny B Gy) in H. simpl in H. discriminate.
Qed.

(* ================================================================ E. the alias invariant *)

Record AInv (s : state) : Prop := {
  a_key : forall t tn p a, getn s t = Some tn -> In (p, a) (naliases tn) ->
     path_of s a = POk p /\ kind_of s a = Some KAli;
  a_nodup : forall t tn, getn s t = Some tn -> NoDup (map fst (naliases tn));
  a_back : forall p a n t, get s RRoot p = Ok a -> getn s a = Some n -> ntarget n = Some t ->
     exists tn, getn s t = Some tn /\ alookup p (naliases tn) = Some a;
  a_tgt : forall a n t, getn s a = Some n -> ntarget n = Some t -> kind_of s t <> None
}.

Lemma AInv_init : AInv init.
Proof.
  constructor.
  - intros t tn p a H. unfold getn in H. simpl in H. destruct t; discriminate.
  - intros t tn H. unfold getn in H. simpl in H. destruct t; discriminate.
  - intros p a n t H. destruct p; simpl in H; discriminate.
  - intros a n t H. unfold getn in H. simpl in H. destruct a; discriminate.
Qed.

(* the common core of Alias.target= and Alias._resolve_target: point a at v and register the back-reference *)
Definition point_at (s : state) (a v : nat) (tp ap : path) : state :=
  add_backref (upd_state s a (with_target (Some v) tp)) v ap a.

Lemma skel_eq_point_at : forall s a v tp ap, skel_eq s (point_at s a v tp ap).
Proof.
  intros. unfold point_at. eapply skel_eq_trans; [|apply skel_eq_add_backref].
  apply skel_eq_upd. intro n. reflexivity.
Qed.

Lemma getn_point_at : forall s a v tp ap x, a <> v ->
  getn (point_at s a v tp ap) x =
    if Nat.eqb x v then option_map (fun n => with_aliases (aput ap a (naliases n)) n) (getn s v)
    else if Nat.eqb x a then option_map (with_target (Some v) tp) (getn s a)
    else getn s x.
Proof.
  intros s a v tp ap x Hne. unfold point_at, add_backref. rewrite getn_upd.
  destruct (Nat.eqb v x) eqn:E1.
  - apply Nat.eqb_eq in E1. subst x. rewrite Nat.eqb_refl. rewrite getn_upd.
    destruct (Nat.eqb a v) eqn:E2; [apply Nat.eqb_eq in E2; congruence|reflexivity].
  - rewrite Nat.eqb_sym in E1. rewrite E1. rewrite getn_upd. rewrite (Nat.eqb_sym x a).
    destruct (Nat.eqb a x) eqn:E2; auto. apply Nat.eqb_eq in E2. subst. reflexivity.
Qed.

Lemma AInv_point_at : forall s a v tp ap, SInv s -> AInv s ->
  a <> v -> path_of s a = POk ap -> kind_of s a = Some KAli -> kind_of s v <> None ->
  (forall a' n', a' <> a -> get s RRoot ap = Ok a' -> getn s a' = Some n' -> ntarget n' <> Some v) ->
  AInv (point_at s a v tp ap).
Proof.
  intros s a v tp ap HI HA Hne Pa Ka Kv Side.
  pose proof (skel_eq_point_at s a v tp ap) as HS.
  assert (Hal : forall t tn', getn (point_at s a v tp ap) t = Some tn' ->
            exists tn, getn s t = Some tn /\
              naliases tn' = if Nat.eqb t v then aput ap a (naliases tn) else naliases tn).
  { intros t tn' G. rewrite getn_point_at in G by auto. destruct (Nat.eqb t v) eqn:E1.
    - apply Nat.eqb_eq in E1. subst t. destruct (getn s v) as [tn|]; simpl in G; [|discriminate].
      inversion G; subst tn'. exists tn. auto.
    - destruct (Nat.eqb t a) eqn:E2.
      + apply Nat.eqb_eq in E2. subst t. destruct (getn s a) as [tn|]; simpl in G; [|discriminate].
        inversion G; subst tn'. exists tn. auto.
      + exists tn'. auto. }
  constructor.
  - intros t tn' p x G Hin. destruct (Hal t tn' G) as [tn [G0 E]]. rewrite E in Hin.
    rewrite <- (skel_eq_path s _ HS), <- (skel_eq_kind s _ HS).
    destruct (Nat.eqb t v).
    + apply In_aput in Hin. destruct Hin as [[E1 E2]|Hin].
      * subst. split; assumption.
      * exact (a_key s HA t tn p x G0 Hin).
    + exact (a_key s HA t tn p x G0 Hin).
  - intros t tn' G. destruct (Hal t tn' G) as [tn [G0 E]]. rewrite E.
    destruct (Nat.eqb t v); [apply NoDup_aput|]; exact (a_nodup s HA t tn G0).
  - intros p x n' t Hget G Ht. rewrite <- (skel_eq_get s _ HS) in Hget.
    pose proof (retrievable s HI p x Hget) as Px.
    rewrite getn_point_at in G by auto.
    destruct (Nat.eqb x a) eqn:Exa.
    + (* the retargeted alias itself *)
      apply Nat.eqb_eq in Exa. subst x.
      assert (Eav : Nat.eqb a v = false) by (apply Nat.eqb_neq; auto). rewrite Eav in G.
      destruct (getn s a) as [n|] eqn:Ga; simpl in G; [|discriminate]. inversion G; subst n'. simpl in Ht.
      inversion Ht; subst t. assert (p = ap) by congruence. subst p.
      destruct (getn s v) as [vn|] eqn:Gv; [|unfold kind_of in Kv; rewrite Gv in Kv; simpl in Kv; congruence].
      eexists. split.
      * rewrite getn_point_at by auto. rewrite Nat.eqb_refl. rewrite Gv. simpl. reflexivity.
      * simpl. apply alookup_put_same.
    + (* any other reachable alias keeps its registration *)
      apply Nat.eqb_neq in Exa.
      assert (exists n, getn s x = Some n /\ ntarget n = Some t) as [n [Gx Tx]].
      { destruct (Nat.eqb x v) eqn:Exv.
        - apply Nat.eqb_eq in Exv. rewrite Exv.
          destruct (getn s v) as [n|]; simpl in G; [|discriminate]. inversion G; subst n'. exists n. auto.
        - exists n'. auto. }
      destruct (a_back s HA p x n t Hget Gx Tx) as [tn [Gt Lk]].
      destruct (Nat.eqb t v) eqn:Etv.
      * apply Nat.eqb_eq in Etv. subst t.
        assert (p <> ap). { intro; subst p. exact (Side x n Exa Hget Gx Tx). }
        eexists. split.
        -- rewrite getn_point_at by auto. rewrite Nat.eqb_refl. rewrite Gt. simpl. reflexivity.
        -- simpl. rewrite alookup_put_other by auto. exact Lk.
      * assert (exists tn', getn (point_at s a v tp ap) t = Some tn' /\ naliases tn' = naliases tn) as [tn' [Gt' Et']].
        { rewrite getn_point_at by auto. rewrite Etv. destruct (Nat.eqb t a) eqn:Eta.
          - apply Nat.eqb_eq in Eta. rewrite <- Eta. rewrite Gt. simpl. eexists. split; reflexivity.
          - exists tn. auto. }
        exists tn'. split; auto. rewrite Et'. exact Lk.
  - intros x n' t G Ht. rewrite <- (skel_eq_kind s _ HS). rewrite getn_point_at in G by auto.
    destruct (Nat.eqb x v) eqn:Exv.
    + apply Nat.eqb_eq in Exv. subst x. destruct (getn s v) as [n|] eqn:Gv; simpl in G; [|discriminate].
      inversion G; subst n'. simpl in Ht. exact (a_tgt s HA v n t Gv Ht).
    + destruct (Nat.eqb x a) eqn:Exa.
      * apply Nat.eqb_eq in Exa. subst x. destruct (getn s a) as [n|] eqn:Ga; simpl in G; [|discriminate].
        inversion G; subst n'. simpl in Ht. inversion Ht; subst t. exact Kv.
      * exact (a_tgt s HA x n' t G Ht).
Qed.

Lemma set_target_shape : forall s a v s', set_target s a v = Ok s' ->
  exists vp ap, s' = point_at s a v vp ap /\ a <> v /\ path_of s a = POk ap /\ path_of s v = POk vp /\
                kind_of s a = Some KAli /\ kind_of s v <> None /\ kind_of s v <> Some KAli /\ vp <> ap.
Proof.
  intros s a v s' H. unfold set_target in H.
  destruct (kind_of s a) as [[| | | |]|] eqn:Ka; try discriminate.
  destruct (kind_of s v) as [kv|] eqn:Kv; try discriminate.
  destruct (Nat.eqb v a) eqn:E; try discriminate. apply Nat.eqb_neq in E.
  destruct (path_of s v) as [vp| |] eqn:Pv; try discriminate.
  destruct (path_of s a) as [ap| |] eqn:Pa; try discriminate.
  destruct (path_eqb vp ap) eqn:Ep; try discriminate.
  destruct (is_ali kv) eqn:Av; try discriminate.
  inversion H; subst. exists vp, ap. repeat split; auto; try discriminate.
  - intro K. inversion K; subst kv. discriminate.
  - intro Q. subst ap. rewrite path_eqb_refl in Ep. discriminate.
Qed.

Lemma AInv_set_target_live : forall s a v s', SInv s -> AInv s -> live s a = true ->
  set_target s a v = Ok s' -> AInv s'.
Proof.
  intros s a v s' HI HA Hl H. apply set_target_shape in H.
  destruct H as [vp [ap [E [Hne [Pa [Pv [Ka [Kv _]]]]]]]]. subst s'.
  apply live_spec in Hl. destruct Hl as [p [Pp Gp]]. assert (p = ap) by congruence. subst p.
  apply AInv_point_at; auto.
  intros a' n' Hn G' _. congruence.
Qed.

Lemma AInv_resolve_live : forall s a, SInv s -> AInv s -> live s a = true -> AInv (fst (resolve s a)).
Proof.
  intros s a HI HA Hl. unfold resolve.
  destruct (getn s a) as [n|] eqn:Ga; [|exact HA].
  destruct (negb (is_ali (nkind n))) eqn:An; [exact HA|].
  destruct (has_mc s a); [|exact HA].
  destruct (path_eqb (ntpath n) [""]); [exact HA|].
  destruct (get s RRoot (ntpath n)) as [x|e]; [|destruct e; exact HA].
  destruct (Nat.eqb x a) eqn:E; [exact HA|]. apply Nat.eqb_neq in E.
  destruct (kind_of s x) as [kx|] eqn:Kx; [|exact HA].
  destruct (is_ali kx); [exact HA|].
  apply live_spec in Hl. destruct Hl as [p [Pp Gp]]. rewrite Pp. simpl.
  change (AInv (point_at s a x (ntpath n) p)).
  apply AInv_point_at; auto.
  - unfold kind_of. rewrite Ga. simpl. apply negb_false_iff in An. destruct (nkind n); try discriminate. reflexivity.
  - rewrite Kx. discriminate.
  - intros a' n' Hn G' _. congruence.
Qed.

(* ---- the retargeting loop of set_member *)
Lemma retarget_all_AInv : forall v ents s, SInv s -> AInv s ->
  NoDup (map fst ents) ->
  (forall p a, In (p, a) ents -> path_of s a = POk p) ->
  (forall x n, getn s x = Some n -> ntarget n = Some v -> forall p a, In (p, a) ents -> path_of s x <> POk p) ->
  AInv (fst (retarget_all s (map snd ents) v)).
Proof.
  intros v ents. induction ents as [|[p0 a0] r IH]; intros s HI HA Hnd Hp HQ; simpl; [exact HA|].
  inversion Hnd as [|? ? Hn0 Hndr]; subst.
  destruct (set_target s a0 v) as [s'|e] eqn:E.
  - pose proof (skel_eq_set_target s a0 v s' E) as HS.
    pose proof E as E0. apply set_target_shape in E. destruct E as [vp [ap [Es [Hne [Pa [Pv [Ka [Kv _]]]]]]]].
    assert (ap = p0). { specialize (Hp p0 a0 (or_introl eq_refl)). congruence. } subst ap.
    assert (HA' : AInv s').
    { subst s'. apply AInv_point_at; auto.
      intros a' n' Hn' G' Gn' T'. apply (HQ a' n' Gn' T' p0 a0 (or_introl eq_refl)).
      exact (retrievable s HI p0 a' G'). }
    apply IH; auto.
    + apply (skel_eq_SInv s); auto.
    + intros p a Hin. rewrite <- (skel_eq_path s s' HS). apply Hp. right. exact Hin.
    + intros x n' Gx Tx p a Hin. rewrite <- (skel_eq_path s s' HS).
      subst s'. rewrite getn_point_at in Gx by auto.
      destruct (Nat.eqb x v) eqn:Exv.
      * apply Nat.eqb_eq in Exv. subst x. destruct (getn s v) as [n|] eqn:Gv; simpl in Gx; [|discriminate].
        inversion Gx; subst n'. simpl in Tx. apply (HQ v n Gv Tx p a). right. exact Hin.
      * destruct (Nat.eqb x a0) eqn:Exa.
        -- apply Nat.eqb_eq in Exa. subst x. rewrite Pa. intro Ep. inversion Ep; subst p.
           apply Hn0. apply in_map_iff. exists (p0, a). auto.
        -- apply (HQ x n' Gx Tx p a). right. exact Hin.
  - assert (Hskip : AInv (fst (retarget_all s (map snd r) v))).
    { apply IH; auto.
      - intros p a Hin. apply Hp. right. exact Hin.
      - intros x n Gx Tx p a Hin. apply (HQ x n Gx Tx p a). right. exact Hin. }
    destruct e; simpl; auto.
Qed.

(* ---- building a fresh object keeps the alias invariant *)
Lemma AInv_app : forall s nd, SInv s -> AInv s -> nparent nd = None -> nmembers nd = [] -> naliases nd = [] ->
  (forall x, ntarget nd = Some x -> kind_of s x <> None) ->
  AInv (mkState (heap s ++ [nd]) (root s)).
Proof.
  intros s nd HI HA P M AL T. set (s1 := mkState (heap s ++ [nd]) (root s)).
  destruct (SInv_app s nd HI P M) as [HI1 D1]. fold s1 in HI1, D1.
  assert (Hold : forall i, i < List.length (heap s) -> getn s1 i = getn s i) by (intros; apply getn_app_lt; auto).
  assert (Hpath : forall a, a < List.length (heap s) -> path_of s1 a = path_of s a).
  { intros a Ha. symmetry.
    apply (path_of_agree s s1 (fun y => y = List.length (heap s)) (s_par s HI) (s_par s1 HI1)).
    - intros i Hi. destruct (Nat.lt_ge_cases i (List.length (heap s))) as [Hlt|Hge].
      + rewrite Hold by auto. reflexivity.
      + unfold getn, s1. simpl.
        assert (N1 : nth_error (heap s) i = None) by (apply nth_error_None; lia).
        assert (N2 : nth_error (heap s ++ [nd]) i = None) by (apply nth_error_None; rewrite app_length; simpl; lia).
        rewrite N1, N2. reflexivity.
    - intros x n c G Pn Hc. destruct (s_par s HI) as [rk [He _]]. destruct (He x n c G Pn). lia.
    - lia.
    - exact Ha.
    - unfold s1. simpl. rewrite app_length. simpl. lia. }
  assert (Hkind : forall a, kind_of s a <> None -> kind_of s1 a = kind_of s a /\ a < List.length (heap s)).
  { intros a K. unfold kind_of in *. destruct (getn s a) as [n|] eqn:G; [|simpl in K; congruence].
    pose proof (getn_lt _ _ _ G) as Hlt. rewrite Hold by auto. rewrite G. auto. }
  assert (Hback : forall p x, get s1 RRoot p = Ok x -> get s RRoot p = Ok x /\ x < List.length (heap s)).
  { intros p x H. pose proof (get_not_detached s1 _ D1 p RRoot x H) as Hx.
    assert (G : get s RRoot p = Ok x).
    { apply (get_backward s s1 (fun y => y = List.length (heap s))) with (r := RRoot); [ | | | exact I | exact H | exact Hx].
      - intros k y L. right. exact L.
      - intros i n' G' Hi A'. apply getn_app_old in G'. destruct G' as [[_ G']|[E _]]; [|contradiction].
        exists n'. repeat split; auto.
      - intros i n' Hi G'. subst i. unfold s1 in G'. rewrite getn_app_last in G'. inversion G'; subst. exact M. }
    split; auto.
    destruct (getn s x) as [n|] eqn:Gx; [eapply getn_lt; eauto|].
    exfalso. clear -G Gx HI. revert G. generalize RRoot. induction p as [|k p IH]; intros r G; [simpl in G; discriminate|].
    cbn [get] in G. destruct (members_r s r) as [ms|] eqn:Mr; [|discriminate].
    destruct (mlookup k ms) as [y|] eqn:L; [|discriminate].
    destruct p as [|k2 p2]; [|eapply IH; eauto].
    inversion G; subst y. destruct r as [|c].
    - simpl in Mr. inversion Mr; subst. destruct (s_root s HI k x L) as [n [Gn _]]. congruence.
    - apply members_r_obj in Mr. destruct Mr as [n [Gc [_ E2]]]. subst ms.
      destruct (s_mem s HI c n k x Gc L) as [n2 [Gn _]]. congruence. }
  constructor.
  - intros t tn p a G Hin. apply getn_app_old in G. destruct G as [[_ G]|[_ E]].
    + destruct (a_key s HA t tn p a G Hin) as [Pa Ka].
      assert (K : kind_of s a <> None) by (rewrite Ka; discriminate).
      destruct (Hkind a K) as [K1 Hlt]. rewrite Hpath by auto. rewrite K1. auto.
    + subst tn. rewrite AL in Hin. contradiction.
  - intros t tn G. apply getn_app_old in G. destruct G as [[_ G]|[_ E]].
    + exact (a_nodup s HA t tn G).
    + subst tn. rewrite AL. constructor.
  - intros p x n t H G Ht. destruct (Hback p x H) as [H0 Hlt]. rewrite Hold in G by auto.
    destruct (a_back s HA p x n t H0 G Ht) as [tn [Gt Lk]]. exists tn. split; auto.
    rewrite Hold; auto. eapply getn_lt; eauto.
  - intros a n t G Ht. apply getn_app_old in G. destruct G as [[_ G]|[_ E]].
    + pose proof (a_tgt s HA a n t G Ht) as K. destruct (Hkind t K) as [K1 _]. rewrite K1. exact K.
    + subst n. pose proof (T t Ht) as K. destruct (Hkind t K) as [K1 _]. rewrite K1. exact K.
Qed.

(* ---- unlinking keeps the alias invariant *)
Lemma npk_eq_path : forall s s', List.length (heap s) = List.length (heap s') ->
  (forall i, option_map npk (getn s i) = option_map npk (getn s' i)) -> forall x, path_of s x = path_of s' x.
Proof. intros s s' L H x. unfold path_of. rewrite L. apply pth_skel. exact H. Qed.

Lemma AInv_unlink : forall s c k, SInv s -> AInv s -> AInv (unlink s c k).
Proof.
  intros s c k HI HA.
  assert (Hn : forall x, exists f, getn (unlink s c k) x = option_map f (getn s x) /\
             forall n, npk (f n) = npk n /\ naliases (f n) = naliases n /\ ntarget (f n) = ntarget n /\
                       is_ali (nkind (f n)) = is_ali (nkind n) /\
                       forall k' y, mlookup k' (nmembers (f n)) = Some y -> mlookup k' (nmembers n) = Some y).
  { intro x. destruct c as [|i]; simpl.
    - exists (fun n => n). split; [unfold getn; simpl; destruct (nth_error (heap s) x); reflexivity|]. intro n. repeat split; auto.
    - rewrite getn_upd. destruct (Nat.eqb i x).
      + eexists. split; [reflexivity|]. intro n. simpl. repeat split; auto. intros k' y. apply mlookup_del_Some.
      + exists (fun n => n). split; [destruct (getn s x); reflexivity|]. intro n. repeat split; auto. }
  assert (Hlen : List.length (heap s) = List.length (heap (unlink s c k))).
  { destruct c; simpl; auto. rewrite upd_length. reflexivity. }
  assert (Hpath : forall x, path_of s x = path_of (unlink s c k) x).
  { apply npk_eq_path; auto. intro i. destruct (Hn i) as [f [E F]]. rewrite E.
    destruct (getn s i) as [n|]; simpl; auto. destruct (F n) as [F1 _]. rewrite F1. reflexivity. }
  assert (Hkind : forall x, kind_of (unlink s c k) x = kind_of s x).
  { intro x. unfold kind_of. destruct (Hn x) as [f [E F]]. rewrite E. destruct (getn s x) as [n|]; simpl; auto.
    destruct (F n) as [F1 _]. unfold npk in F1. inversion F1. reflexivity. }
  assert (Hback : forall p x, get (unlink s c k) RRoot p = Ok x -> get s RRoot p = Ok x).
  { intros p x H. apply (get_backward s (unlink s c k) (fun _ => False)) with (r := RRoot); [ | | | exact I | exact H | tauto].
    - intros k' y L. right. destruct c; simpl in L; auto. apply mlookup_del_Some in L. exact L.
    - intros i n' G _ A. destruct (Hn i) as [f [E F]]. rewrite E in G.
      destruct (getn s i) as [n|]; simpl in G; [|discriminate]. inversion G; subst n'.
      destruct (F n) as [_ [_ [_ [F4 F5]]]]. exists n. split; auto. split; [congruence|].
      intros k' y L. right. auto.
    - intros i n' []. }
  constructor.
  - intros t tn' p a G Hin. destruct (Hn t) as [f [E F]]. rewrite E in G.
    destruct (getn s t) as [tn|] eqn:Gt; simpl in G; [|discriminate]. inversion G; subst tn'.
    destruct (F tn) as [_ [F2 _]]. rewrite F2 in Hin. rewrite <- Hpath, Hkind. exact (a_key s HA t tn p a Gt Hin).
  - intros t tn' G. destruct (Hn t) as [f [E F]]. rewrite E in G.
    destruct (getn s t) as [tn|] eqn:Gt; simpl in G; [|discriminate]. inversion G; subst tn'.
    destruct (F tn) as [_ [F2 _]]. rewrite F2. exact (a_nodup s HA t tn Gt).
  - intros p x n' t H G Ht. apply Hback in H. destruct (Hn x) as [f [E F]]. rewrite E in G.
    destruct (getn s x) as [n|] eqn:Gx; simpl in G; [|discriminate]. inversion G; subst n'.
    destruct (F n) as [_ [_ [F3 _]]]. rewrite F3 in Ht.
    destruct (a_back s HA p x n t H Gx Ht) as [tn [Gt Lk]].
    destruct (Hn t) as [g [E2 F']]. exists (g tn). split; [rewrite E2, Gt; reflexivity|].
    destruct (F' tn) as [_ [F2 _]]. rewrite F2. exact Lk.
  - intros a n' t G Ht. destruct (Hn a) as [f [E F]]. rewrite E in G.
    destruct (getn s a) as [n|] eqn:Ga; simpl in G; [|discriminate]. inversion G; subst n'.
    destruct (F n) as [_ [_ [F3 _]]]. rewrite F3 in Ht. rewrite Hkind. exact (a_tgt s HA a n t Ga Ht).
Qed.

(* ---- linking a fresh object keeps the alias invariant *)
Definition NoVal (s : state) (v : nat) : Prop :=
  forall t tn p, getn s t = Some tn -> ~ In (p, v) (naliases tn).
Definition Live (s : state) (i : nat) : Prop := exists p, get s RRoot p = Ok i.

Lemma link_obj_node : forall s i k v x, i <> v ->
  exists f, getn (link_obj s i k v) x = option_map f (getn s x) /\
    forall n, naliases (f n) = naliases n /\ ntarget (f n) = ntarget n /\ nkind (f n) = nkind n /\
              nname (f n) = nname n /\ (x <> v -> nparent (f n) = nparent n).
Proof.
  intros s i k v x Hne. rewrite getn_link_obj by auto.
  destruct (Nat.eqb x v) eqn:E1.
  - apply Nat.eqb_eq in E1. subst x. eexists. split; [reflexivity|]. intro n. simpl. repeat split; auto. congruence.
  - destruct (Nat.eqb x i) eqn:E2.
    + apply Nat.eqb_eq in E2. subst x. eexists. split; [reflexivity|]. intro n. simpl. repeat split; auto.
    + exists (fun n => n). split; [destruct (getn s x); reflexivity|]. intro n. repeat split; auto.
Qed.

Lemma AInv_link_obj : forall s i cn k v vn s'', SInv s -> AInv s -> Detached s v -> NoVal s v ->
  getn s i = Some cn -> is_ali (nkind cn) = false -> i <> v -> getn s v = Some vn -> nname vn = k -> Live s i ->
  (forall t, ntarget vn = Some t -> nkind vn = KAli) ->
  write_member s (RObj i) k v = Ok s'' -> AInv s''.
Proof.
  intros s i cn k v vn s'' HI HA D NV Gi Ai Hne Gv Nv [pi Gpi] Hali W.
  set (s' := link_obj s i k v) in *.
  pose proof (SInv_link_obj s i cn k v vn HI D Gi Hne Gv Nv) as HI'. fold s' in HI'.
  destruct (d_node s v D) as [vn0 [Gv0 Mv]]. rewrite Gv in Gv0. inversion Gv0; subst vn0. clear Gv0.
  assert (Hlen : List.length (heap s') = List.length (heap s)).
  { unfold s', link_obj, upd_state. simpl. rewrite !upd_length. reflexivity. }
  assert (Hnode := fun x => link_obj_node s i k v x Hne). fold s' in Hnode.
  assert (Hkind : forall x, kind_of s' x = kind_of s x).
  { intro x. unfold kind_of. destruct (Hnode x) as [f [E F]]. rewrite E. destruct (getn s x) as [n|]; simpl; auto.
    destruct (F n) as [_ [_ [F3 _]]]. rewrite F3. reflexivity. }
  assert (Hpath : forall x, x <> v -> path_of s' x = path_of s x).
  { intros x Hx. destruct (Nat.lt_ge_cases x (List.length (heap s))) as [Hlt|Hge].
    - symmetry. apply (path_of_agree s s' (fun y => y = v) (s_par s HI) (s_par s' HI')); try lia; auto.
      + intros j Hj. destruct (Hnode j) as [f [E F]]. rewrite E. destruct (getn s j) as [n|]; simpl; auto.
        destruct (F n) as [_ [_ [F3 [F4 F5]]]]. unfold npk. rewrite F3, F4, F5 by auto. reflexivity.
      + intros y n c G Pn Hc. subst c. exact (d_leaf s v D y n G Pn).
    - assert (N1 : nth_error (heap s) x = None) by (apply nth_error_None; lia).
      assert (N2 : nth_error (heap s') x = None) by (apply nth_error_None; lia).
      unfold path_of. rewrite Hlen.
      destruct (List.length (heap s)) as [|f0]; [reflexivity|]. cbn [pth]. rewrite N1, N2. reflexivity. }
  assert (Hback : forall p x, get s' RRoot p = Ok x -> x <> v -> get s RRoot p = Ok x).
  { intros p x H Hx. apply (get_backward s s' (fun y => y = v)) with (r := RRoot); [ | | | exact I | exact H | exact Hx].
    - intros k' y L. right. exact L.
    - intros j n' G' Hj A'. unfold s' in G'. rewrite getn_link_obj in G' by auto.
      apply Nat.eqb_neq in Hj. rewrite Hj in G'. destruct (Nat.eqb j i) eqn:Eji.
      + apply Nat.eqb_eq in Eji. subst j. rewrite Gi in G'. simpl in G'. inversion G'; subst n'. simpl in *.
        exists cn. repeat split; auto. intros k' y L. destruct (String.eqb k' k) eqn:Ek.
        * apply String.eqb_eq in Ek. subst k'. rewrite mlookup_put_same in L. inversion L. left. reflexivity.
        * apply String.eqb_neq in Ek. rewrite mlookup_put_other in L by auto. right. exact L.
      + exists n'. repeat split; auto.
    - intros j n' Hj G'. subst j. unfold s' in G'. rewrite getn_link_obj in G' by auto. rewrite Nat.eqb_refl in G'.
      rewrite Gv in G'. simpl in G'. inversion G'; subst n'. simpl. exact Mv. }
  assert (Ppi : path_of s i = POk pi) by (apply (retrievable s HI); exact Gpi).
  assert (Pv' : path_of s' v = POk (pi ++ [k])).
  { assert (Gv' : getn s' v = Some (with_parent (Some i) vn)).
    { unfold s'. rewrite getn_link_obj by auto. rewrite Nat.eqb_refl. rewrite Gv. reflexivity. }
    rewrite (path_of_unfold s' v _ (s_par s' HI') Gv'). unfold node_path. simpl.
    rewrite (Hpath i Hne). rewrite Ppi. rewrite Nv. reflexivity. }
  assert (Honly : forall x, get s' RRoot (pi ++ [k]) = Ok x -> x = v).
  { intros x H. assert (pi <> []) by (intro; subst pi; simpl in Gpi; discriminate).
    rewrite get_app in H by (auto; discriminate).
    destruct (get s' RRoot pi) as [c1|] eqn:G1; [|discriminate].
    assert (c1 <> v).
    { intro; subst c1. cbn [get] in H. simpl in H. unfold s' in H. rewrite getn_link_obj in H by auto.
      rewrite Nat.eqb_refl in H. rewrite Gv in H. simpl in H.
      destruct (is_ali (nkind vn)); [discriminate|]. rewrite Mv in H. simpl in H. discriminate. }
    pose proof (Hback pi c1 G1 H1) as G0. rewrite Gpi in G0. inversion G0; subst c1.
    cbn [get] in H. simpl in H. unfold s' in H. rewrite getn_link_obj in H by auto.
    assert (E : Nat.eqb i v = false) by (apply Nat.eqb_neq; auto). rewrite E, Nat.eqb_refl, Gi in H. simpl in H.
    rewrite Ai in H. rewrite mlookup_put_same in H. inversion H. reflexivity. }
  (* the alias invariant of the linked state, the registration of v itself still pending *)
  assert (Kkey : forall t tn' p a, getn s' t = Some tn' -> In (p, a) (naliases tn') ->
             path_of s' a = POk p /\ kind_of s' a = Some KAli).
  { intros t tn' p a G Hin. destruct (Hnode t) as [f [E F]]. rewrite E in G.
    destruct (getn s t) as [tn|] eqn:Gt; simpl in G; [|discriminate]. inversion G; subst tn'.
    destruct (F tn) as [F1 _]. rewrite F1 in Hin. destruct (a_key s HA t tn p a Gt Hin) as [Pa Ka].
    assert (a <> v) by (intro; subst a; exact (NV t tn p Gt Hin)).
    rewrite Hpath by auto. rewrite Hkind. auto. }
  assert (Knodup : forall t tn', getn s' t = Some tn' -> NoDup (map fst (naliases tn'))).
  { intros t tn' G. destruct (Hnode t) as [f [E F]]. rewrite E in G.
    destruct (getn s t) as [tn|] eqn:Gt; simpl in G; [|discriminate]. inversion G; subst tn'.
    destruct (F tn) as [F1 _]. rewrite F1. exact (a_nodup s HA t tn Gt). }
  assert (Kback : forall p x n' t, get s' RRoot p = Ok x -> x <> v -> getn s' x = Some n' -> ntarget n' = Some t ->
             exists tn', getn s' t = Some tn' /\ alookup p (naliases tn') = Some x).
  { intros p x n' t H Hx G Ht. pose proof (Hback p x H Hx) as H0.
    destruct (Hnode x) as [f [E F]]. rewrite E in G.
    destruct (getn s x) as [n|] eqn:Gx; simpl in G; [|discriminate]. inversion G; subst n'.
    destruct (F n) as [_ [F2 _]]. rewrite F2 in Ht.
    destruct (a_back s HA p x n t H0 Gx Ht) as [tn [Gt Lk]].
    destruct (Hnode t) as [g [E2 F']]. exists (g tn). split; [rewrite E2, Gt; reflexivity|].
    destruct (F' tn) as [F1 _]. rewrite F1. exact Lk. }
  assert (Ktgt : forall a n' t, getn s' a = Some n' -> ntarget n' = Some t -> kind_of s' t <> None).
  { intros a n' t G Ht. destruct (Hnode a) as [f [E F]]. rewrite E in G.
    destruct (getn s a) as [n|] eqn:Ga; simpl in G; [|discriminate]. inversion G; subst n'.
    destruct (F n) as [_ [F2 _]]. rewrite F2 in Ht. rewrite Hkind. exact (a_tgt s HA a n t Ga Ht). }
  assert (Gv' : getn s' v = Some (with_parent (Some i) vn)).
  { unfold s'. rewrite getn_link_obj by auto. rewrite Nat.eqb_refl. rewrite Gv. reflexivity. }
  assert (Plain : ntarget vn = None -> AInv s').
  { intro Tn. constructor; auto.
    intros p x n' t H G Ht. destruct (Nat.eq_dec x v) as [->|Hx]; [|eapply Kback; eauto].
    rewrite Gv' in G. inversion G; subst n'. simpl in Ht. congruence. }
  unfold write_member in W. fold (link_obj s i k v) in W. fold s' in W.
  destruct (kind_of s v) as [kv|] eqn:Kv.
  2:{ unfold kind_of in Kv. rewrite Gv in Kv. discriminate. }
  assert (Reg : update_target_aliases s' v = Ok s'' -> AInv s'').
  { clear W. intro W. unfold update_target_aliases in W. rewrite Gv' in W. simpl in W.
    destruct (ntarget vn) as [t|] eqn:Tv; [|inversion W; subst s''; apply Plain; reflexivity].
    rewrite Pv' in W. inversion W; subst s''. clear W.
    set (pv := pi ++ [k]) in *.
    pose proof (skel_eq_add_backref s' t pv v) as HS.
    assert (Hn2 : forall x, getn (add_backref s' t pv v) x =
                  if Nat.eqb t x then option_map (fun tn => with_aliases (aput pv v (naliases tn)) tn) (getn s' x)
                  else getn s' x).
    { intro x. unfold add_backref. apply getn_upd. }
    assert (Kv' : kind_of s' v = Some KAli).
    { rewrite Hkind. unfold kind_of. rewrite Gv. simpl. rewrite (Hali t eq_refl). reflexivity. }
    constructor.
    - intros t0 tn' p a G Hin. rewrite <- (skel_eq_path s' _ HS), <- (skel_eq_kind s' _ HS).
      rewrite Hn2 in G. destruct (Nat.eqb t t0).
      + destruct (getn s' t0) as [tn|] eqn:Gt; simpl in G; [|discriminate]. inversion G; subst tn'. simpl in Hin.
        apply In_aput in Hin. destruct Hin as [[E1 E2]|Hin].
        * subst p a. split; auto.
        * eapply Kkey; eauto.
      + eapply Kkey; eauto.
    - intros t0 tn' G. rewrite Hn2 in G. destruct (Nat.eqb t t0).
      + destruct (getn s' t0) as [tn|] eqn:Gt; simpl in G; [|discriminate]. inversion G; subst tn'. simpl.
        apply NoDup_aput. eapply Knodup; eauto.
      + eapply Knodup; eauto.
    - intros p x n' t1 H G Ht. rewrite <- (skel_eq_get s' _ HS) in H.
      assert (exists n1, getn s' x = Some n1 /\ ntarget n1 = Some t1) as [n1 [G1 T1]].
      { rewrite Hn2 in G. destruct (Nat.eqb t x).
        - destruct (getn s' x) as [n1|]; simpl in G; [|discriminate]. inversion G; subst n'. exists n1. auto.
        - exists n'. auto. }
      destruct (Nat.eq_dec x v) as [Ex|Hx].
      + subst x. rewrite Gv' in G1. inversion G1; subst n1. simpl in T1. assert (t1 = t) by congruence. subst t1.
        pose proof (retrievable s' HI' p v H) as Pp. assert (p = pv) by congruence. subst p.
        pose proof (Ktgt v _ t Gv' Tv) as Kt. unfold kind_of in Kt.
        destruct (getn s' t) as [tn|] eqn:Gt; [|simpl in Kt; congruence].
        eexists. split; [rewrite Hn2, Nat.eqb_refl, Gt; reflexivity|]. simpl. apply alookup_put_same.
      + destruct (Kback p x n1 t1 H Hx G1 T1) as [tn [Gt Lk]].
        destruct (Nat.eqb t t1) eqn:Et.
        * apply Nat.eqb_eq in Et. subst t1.
          assert (p <> pv). { intro; subst p. apply Hx. apply Honly. exact H. }
          eexists. split; [rewrite Hn2, Nat.eqb_refl, Gt; reflexivity|]. simpl.
          rewrite alookup_put_other by auto. exact Lk.
        * exists tn. split; [rewrite Hn2, Et; exact Gt | exact Lk].
    - intros a n' t1 G Ht. rewrite <- (skel_eq_kind s' _ HS).
      rewrite Hn2 in G. destruct (Nat.eqb t a).
      + destruct (getn s' a) as [n1|] eqn:Ga; simpl in G; [|discriminate]. inversion G; subst n'. simpl in Ht.
        eapply Ktgt; eauto.
      + eapply Ktgt; eauto. }
  assert (NoReg : kv <> KAli -> AInv s'').
  { intro Hk. assert (s'' = s') by (destruct kv; try congruence; inversion W; reflexivity). subst s''.
    apply Plain. destruct (ntarget vn) as [t|] eqn:Tv; auto. exfalso. apply Hk.
    unfold kind_of in Kv. rewrite Gv in Kv. simpl in Kv. inversion Kv. exact (Hali t eq_refl). }
  destruct kv; try (apply NoReg; discriminate). apply Reg. exact W.
Qed.

Lemma AInv_link_root : forall s k v vn, SInv s -> AInv s -> Detached s v ->
  getn s v = Some vn -> ntarget vn = None -> AInv (link_root s k v).
Proof.
  intros s k v vn HI HA D Gv Tv. set (s' := link_root s k v).
  destruct (d_node s v D) as [vn0 [Gv0 Mv]]. rewrite Gv in Gv0. inversion Gv0; subst vn0. clear Gv0.
  assert (Hnode : forall x, exists f, getn s' x = option_map f (getn s x) /\
             forall n, npk (f n) = npk n /\ naliases (f n) = naliases n /\ ntarget (f n) = ntarget n /\
                       nmembers (f n) = nmembers n).
  { intro x. unfold s'. rewrite getn_link_root. destruct (Nat.eqb v x).
    - eexists. split; [reflexivity|]. intro n. repeat split; auto.
    - exists (fun n => n). split; [destruct (getn s x); reflexivity|]. intro n. repeat split; auto. }
  assert (Hlen : List.length (heap s) = List.length (heap s')).
  { unfold s', link_root. simpl. rewrite upd_length. reflexivity. }
  assert (Hpath : forall x, path_of s x = path_of s' x).
  { apply npk_eq_path; auto. intro i. destruct (Hnode i) as [f [E F]]. rewrite E.
    destruct (getn s i) as [n|]; simpl; auto. destruct (F n) as [F1 _]. rewrite F1. reflexivity. }
  assert (Hkind : forall x, kind_of s' x = kind_of s x).
  { intro x. unfold kind_of. destruct (Hnode x) as [f [E F]]. rewrite E. destruct (getn s x) as [n|]; simpl; auto.
    destruct (F n) as [F1 _]. unfold npk in F1. inversion F1. reflexivity. }
  assert (Hback : forall p x, get s' RRoot p = Ok x -> x <> v -> get s RRoot p = Ok x).
  { intros p x H Hx. apply (get_backward s s' (fun y => y = v)) with (r := RRoot); [ | | | exact I | exact H | exact Hx].
    - intros k' y L. unfold s', link_root in L. simpl in L. destruct (String.eqb k' k) eqn:Ek.
      + apply String.eqb_eq in Ek. subst k'. rewrite mlookup_put_same in L. inversion L. left. reflexivity.
      + apply String.eqb_neq in Ek. rewrite mlookup_put_other in L by auto. right. exact L.
    - intros j n' G' Hj A'. destruct (Hnode j) as [f [E F]]. rewrite E in G'.
      destruct (getn s j) as [n|]; simpl in G'; [|discriminate]. inversion G'; subst n'.
      destruct (F n) as [F1 [_ [_ F4]]]. exists n. split; auto. unfold npk in F1. inversion F1 as [[E1 E2 E3]].
      split; [congruence|]. intros k' y L. right. rewrite F4 in L. exact L.
    - intros j n' Hj G'. subst j. destruct (Hnode v) as [f [E F]]. rewrite E, Gv in G'. simpl in G'.
      inversion G'; subst n'. destruct (F vn) as [_ [_ [_ F4]]]. rewrite F4. exact Mv. }
  constructor.
  - intros t tn' p a G Hin. destruct (Hnode t) as [f [E F]]. rewrite E in G.
    destruct (getn s t) as [tn|] eqn:Gt; simpl in G; [|discriminate]. inversion G; subst tn'.
    destruct (F tn) as [_ [F2 _]]. rewrite F2 in Hin. rewrite <- Hpath, Hkind. exact (a_key s HA t tn p a Gt Hin).
  - intros t tn' G. destruct (Hnode t) as [f [E F]]. rewrite E in G.
    destruct (getn s t) as [tn|] eqn:Gt; simpl in G; [|discriminate]. inversion G; subst tn'.
    destruct (F tn) as [_ [F2 _]]. rewrite F2. exact (a_nodup s HA t tn Gt).
  - intros p x n' t H G Ht. destruct (Hnode x) as [f [E F]]. rewrite E in G.
    destruct (getn s x) as [n|] eqn:Gx; simpl in G; [|discriminate]. inversion G; subst n'.
    destruct (F n) as [_ [_ [F3 _]]]. rewrite F3 in Ht.
    destruct (Nat.eq_dec x v) as [Ex|Hx]; [subst x; rewrite Gv in Gx; inversion Gx; subst n; congruence|].
    pose proof (Hback p x H Hx) as H0.
    destruct (a_back s HA p x n t H0 Gx Ht) as [tn [Gt Lk]].
    destruct (Hnode t) as [g [E2 F']]. exists (g tn). split; [rewrite E2, Gt; reflexivity|].
    destruct (F' tn) as [_ [F2 _]]. rewrite F2. exact Lk.
  - intros a n' t G Ht. destruct (Hnode a) as [f [E F]]. rewrite E in G.
    destruct (getn s a) as [n|] eqn:Ga; simpl in G; [|discriminate]. inversion G; subst n'.
    destruct (F n) as [_ [_ [F3 _]]]. rewrite F3 in Ht. rewrite Hkind. exact (a_tgt s HA a n t Ga Ht).
Qed.

(* ---- frame of the retargeting loop: v's own target, and "v is nobody's back-reference value" *)
Lemma retarget_all_frame : forall v als s,
  NoVal s v -> NoVal (fst (retarget_all s als v)) v /\
  option_map ntarget (getn (fst (retarget_all s als v)) v) = option_map ntarget (getn s v).
Proof.
  intros v als. induction als as [|a r IH]; intros s NV; simpl; [auto|].
  destruct (set_target s a v) as [s'|e] eqn:E.
  - apply set_target_shape in E. destruct E as [vp [ap [Es [Hne _]]]].
    assert (NV' : NoVal s' v).
    { subst s'. intros t tn' p G Hin. rewrite getn_point_at in G by auto. destruct (Nat.eqb t v) eqn:Etv.
      - destruct (getn s v) as [tn|] eqn:Gv; simpl in G; [|discriminate]. inversion G; subst tn'. simpl in Hin.
        apply In_aput in Hin. destruct Hin as [[_ E2]|Hin]; [congruence|]. exact (NV v tn p Gv Hin).
      - destruct (Nat.eqb t a) eqn:Eta.
        + destruct (getn s a) as [tn|] eqn:Ga; simpl in G; [|discriminate]. inversion G; subst tn'. simpl in Hin.
          apply Nat.eqb_eq in Eta. subst t. exact (NV a tn p Ga Hin).
        + exact (NV t tn' p G Hin). }
    destruct (IH s' NV') as [H1 H2]. split; auto. rewrite H2. subst s'.
    rewrite getn_point_at by auto. rewrite Nat.eqb_refl. destruct (getn s v); reflexivity.
  - destruct e; simpl; auto.
Qed.

Lemma locate_live : forall s p r i k, locate s r p = Ok (RObj i, k) ->
  (r = RRoot \/ exists j, r = RObj j /\ Live s j) -> Live s i.
Proof.
  intros s p. induction p as [|k0 p IH]; intros r i k H Hr; simpl in H; [discriminate|].
  destruct (members_r s r) as [ms|] eqn:M; [|discriminate].
  destruct p as [|k1 p1].
  - inversion H; subst r k0. destruct Hr as [Hr|[j [Hr Lj]]]; [discriminate|]. inversion Hr; subst. exact Lj.
  - destruct (mlookup k0 ms) as [x|] eqn:L; [|discriminate].
    apply (IH (RObj x) i k H). right. exists x. split; auto.
    destruct Hr as [Hr|[j [Hr [pj Gj]]]]; subst r.
    + exists [k0]. cbn [get]. rewrite M, L. reflexivity.
    + exists (pj ++ [k0]). assert (pj <> []) by (intro; subst pj; simpl in Gj; discriminate).
      rewrite get_app by (auto; discriminate). rewrite Gj. cbn [get]. rewrite M, L. reflexivity.
Qed.

Lemma get_forward_app : forall s nd p r x, get s r p = Ok x -> get (mkState (heap s ++ [nd]) (root s)) r p = Ok x.
Proof.
  intros s nd p. induction p as [|k p IH]; intros r x H; [simpl in H; discriminate|].
  cbn [get] in *. destruct (members_r s r) as [ms|] eqn:M; [|discriminate].
  assert (M1 : members_r (mkState (heap s ++ [nd]) (root s)) r = Ok ms).
  { destruct r as [|i]; simpl in *; auto. destruct (getn s i) as [n|] eqn:G; [|discriminate].
    rewrite getn_app_lt by (eapply getn_lt; eauto). rewrite G. exact M. }
  rewrite M1. destruct (mlookup k ms) as [y|]; [|discriminate]. destruct p; auto.
Qed.

Lemma write_member_target : forall s c k v s', write_member s c k v = Ok s' ->
  forall a n, getn s a = Some n -> exists n', getn s' a = Some n' /\ ntarget n' = ntarget n.
Proof.
  intros s c k v s' W a n G.
  assert (Hupd : forall s0 i f, (forall m, ntarget (f m) = ntarget m) -> forall n0, getn s0 a = Some n0 ->
             exists n', getn (upd_state s0 i f) a = Some n' /\ ntarget n' = ntarget n0).
  { intros s0 i f Hf n0 G0. rewrite getn_upd. destruct (Nat.eqb i a).
    - rewrite G0. simpl. eexists. split; [reflexivity|apply Hf].
    - exists n0. auto. }
  unfold write_member in W. destruct c as [|i].
  - inversion W; subst s'. change (mkState (upd (heap s) v with_mc) (mput k v (root s))) with (link_root s k v).
    rewrite getn_link_root. destruct (Nat.eqb v a).
    + rewrite G. simpl. eexists. split; reflexivity.
    + exists n. auto.
  - destruct (Hupd s i (fun n0 => with_members (mput k v (nmembers n0)) n0) (fun _ => eq_refl) n G) as [n1 [G1 T1]].
    destruct (Hupd _ v (with_parent (Some i)) (fun _ => eq_refl) n1 G1) as [n2 [G2 T2]].
    assert (Hend : forall s2, update_target_aliases
                (upd_state (upd_state s i (fun n0 => with_members (mput k v (nmembers n0)) n0)) v (with_parent (Some i))) v = Ok s2 ->
              exists n', getn s2 a = Some n' /\ ntarget n' = ntarget n).
    { intros s2 U. unfold update_target_aliases in U.
      destruct (getn _ v) as [vn|]; [|inversion U; subst s2; exists n2; split; auto; congruence].
      destruct (ntarget vn) as [t|]; [|inversion U; subst s2; exists n2; split; auto; congruence].
      destruct (path_of _ v); inversion U; subst s2; try (exists n2; split; auto; congruence).
      unfold add_backref. destruct (Hupd _ t (fun tn => with_aliases (aput p v (naliases tn)) tn) (fun _ => eq_refl) n2 G2) as [n3 [G3 T3]].
      exists n3. split; auto. congruence. }
    destruct (kind_of s v) as [[| | | |]|]; try (inversion W; subst s'; exists n2; split; auto; congruence).
    apply Hend. exact W.
Qed.

Lemma write_member_tpath : forall s c k v s', write_member s c k v = Ok s' ->
  forall a n, getn s a = Some n -> exists n', getn s' a = Some n' /\ ntpath n' = ntpath n.
Proof.
  intros s c k v s' W a n G.
  assert (Hupd : forall s0 i f, (forall m, ntpath (f m) = ntpath m) -> forall n0, getn s0 a = Some n0 ->
             exists n', getn (upd_state s0 i f) a = Some n' /\ ntpath n' = ntpath n0).
  { intros s0 i f Hf n0 G0. rewrite getn_upd. destruct (Nat.eqb i a).
    - rewrite G0. simpl. eexists. split; [reflexivity|apply Hf].
    - exists n0. auto. }
  unfold write_member in W. destruct c as [|i].
  - inversion W; subst s'. change (mkState (upd (heap s) v with_mc) (mput k v (root s))) with (link_root s k v).
    rewrite getn_link_root. destruct (Nat.eqb v a).
    + rewrite G. simpl. eexists. split; reflexivity.
    + exists n. auto.
  - destruct (Hupd s i (fun n0 => with_members (mput k v (nmembers n0)) n0) (fun _ => eq_refl) n G) as [n1 [G1 T1]].
    destruct (Hupd _ v (with_parent (Some i)) (fun _ => eq_refl) n1 G1) as [n2 [G2 T2]].
    assert (Hend : forall s2, update_target_aliases
                (upd_state (upd_state s i (fun n0 => with_members (mput k v (nmembers n0)) n0)) v (with_parent (Some i))) v = Ok s2 ->
              exists n', getn s2 a = Some n' /\ ntpath n' = ntpath n).
    { intros s2 U. unfold update_target_aliases in U.
      destruct (getn _ v) as [vn|]; [|inversion U; subst s2; exists n2; split; auto; congruence].
      destruct (ntarget vn) as [t|]; [|inversion U; subst s2; exists n2; split; auto; congruence].
      destruct (path_of _ v); inversion U; subst s2; try (exists n2; split; auto; congruence).
      unfold add_backref. destruct (Hupd _ t (fun tn => with_aliases (aput p v (naliases tn)) tn) (fun _ => eq_refl) n2 G2) as [n3 [G3 T3]].
      exists n3. split; auto. congruence. }
    destruct (kind_of s v) as [[| | | |]|]; try (inversion W; subst s'; exists n2; split; auto; congruence).
    apply Hend. exact W.
Qed.

Lemma write_member_length : forall s c k v s', write_member s c k v = Ok s' -> List.length (heap s') = List.length (heap s).
Proof.
  intros s c k v s' W. apply write_member_shape in W. destruct c as [|i].
  - subst s'. unfold link_root. simpl. apply upd_length.
  - rewrite <- (skel_eq_length _ _ W). unfold link_obj, upd_state. simpl. rewrite !upd_length. reflexivity.
Qed.

Lemma write_member_target_back : forall s c k v s', write_member s c k v = Ok s' ->
  forall a n', getn s' a = Some n' -> exists n, getn s a = Some n /\ ntarget n = ntarget n'.
Proof.
  intros s c k v s' W a n' G'.
  destruct (getn s a) as [n|] eqn:G.
  - destruct (write_member_target s c k v s' W a n G) as [n2 [G2 T2]]. exists n. split; auto. congruence.
  - exfalso. pose proof (getn_lt _ _ _ G') as Hlt. rewrite (write_member_length s c k v s' W) in Hlt.
    unfold getn in G. apply nth_error_None in G. lia.
Qed.

Lemma AInv_set_value_fresh : forall s a r p v vn, SInv s -> AInv s -> Detached s v -> NoVal s v ->
  (forall x n, getn s x = Some n -> ntarget n <> Some v) ->
  getn s v = Some vn -> r <> RObj v -> nname vn = last p "" ->
  (forall t, ntarget vn = Some t -> nkind vn = KAli) ->
  (r = RRoot -> (exists k, p = [k]) -> is_ali (nkind vn) = false /\ nparent vn = None) ->
  (r = RRoot \/ exists j, r = RObj j /\ Live s j) ->
  AInv (fst (set_value s a r p v)).
Proof.
  intros s a r p v vn HI HA D NV NT Gv Hr Nv Hali Av Lr. unfold C16_tree.set_value. rewrite Gv.
  destruct (locate s r p) as [[c k]|e] eqn:Lc; [|exact HA].
  destruct (members_r s c) as [ms|e] eqn:M; [|exact HA].
  pose proof (locate_key s p r c k Lc) as Hk.
  (* storing and attaching v in a state with the skeleton of s *)
  assert (Hpost : forall s1 s2, skel_eq s s1 -> AInv s1 -> NoVal s1 v ->
     option_map ntarget (getn s1 v) = option_map ntarget (getn s v) ->
     write_member s1 c k v = Ok s2 -> SInv s2 /\ AInv s2).
  { intros s1 s2 H1 HA1 NV1 T1 W. pose proof (skel_eq_SInv s s1 H1 HI) as HI1.
    pose proof (Detached_skel_eq s s1 v H1 D) as D1.
    destruct (skel_eq_node s1 s v vn (skel_eq_sym _ _ H1) Gv) as [vn1 [Gv1 Ev]].
    unfold skel in Ev. inversion Ev as [[E1 E2 E3 E4 E5]].
    assert (Tv1 : ntarget vn1 = ntarget vn). { rewrite Gv1, Gv in T1. simpl in T1. congruence. }
    split.
    - apply (SInv_write_member_loose s1 c k v vn1 s2 HI1 D1 Gv1); auto.
      + rewrite E1, Nv. symmetry. exact Hk.
      + intro Ec. subst c. apply locate_root in Lc. destruct Lc as [Er Ep]. subst r p.
        rewrite E2, E3. apply Av; eauto.
      + intros i Ec. subst c. split; [exact (locate_not_detached s v D p r i k Hr Lc)|].
        pose proof M as M1. rewrite (skel_eq_members_r s s1 H1) in M1. apply members_r_obj in M1.
        destruct M1 as [cn [Gi _]]. eauto.
    - destruct c as [|i].
      + unfold write_member in W. inversion W; subst s2. fold (link_root s1 k v).
        apply locate_root in Lc. destruct Lc as [Er Ep]. subst r p.
        apply (AInv_link_root s1 k v vn1 HI1 HA1 D1 Gv1). rewrite Tv1.
        destruct (ntarget vn) as [t|] eqn:Tv; auto. exfalso.
        assert (A : is_ali (nkind vn) = false) by (apply Av; eauto). rewrite (Hali t eq_refl) in A. discriminate.
      + pose proof (locate_not_detached s v D p r i k Hr Lc) as Hiv.
        pose proof (locate_live s p r i k Lc Lr) as [pi Gpi].
        pose proof M as M1. rewrite (skel_eq_members_r s s1 H1) in M1. apply members_r_obj in M1.
        destruct M1 as [cn [Gi [Ai _]]].
        apply (AInv_link_obj s1 i cn k v vn1 s2 HI1 HA1 D1 NV1 Gi Ai Hiv Gv1); auto.
        * rewrite E1, Nv. symmetry. exact Hk.
        * exists pi. rewrite <- (skel_eq_get s s1 H1). exact Gpi.
        * intros t Ht. rewrite E2. apply (Hali t). congruence. }
  assert (Hnone : AInv (fst (match write_member s c k v with Ok s2 => (s2, None) | Err e => (s, Some e) end))).
  { destruct (write_member s c k v) as [s2|e] eqn:W; simpl; [|exact HA].
    exact (proj2 (Hpost s s2 (skel_eq_refl s) HA NV eq_refl W)). }
  unfold C16_tree.set_at.
  destruct a; [|destruct (mlookup k ms); exact Hnone].
  destruct (mlookup k ms) as [m|]; [|exact Hnone].
  destruct (replace_probe s m v); [exact HA|].
  (* the re-targeting loop from a state that satisfies both invariants and in which nobody points at v *)
  assert (Hloop : forall s0, SInv s0 -> AInv s0 -> (forall x n, getn s0 x = Some n -> ntarget n <> Some v) ->
            AInv (fst (retarget_all s0 (repl_aliases s0 m) v))).
  { intros s0 HI0 HA0 NT0. unfold repl_aliases.
    destruct (getn s0 m) as [mn|] eqn:Gm; [|exact HA0].
    destruct (is_ali (nkind mn)); [exact HA0|].
    apply retarget_all_AInv; auto.
    - exact (a_nodup s0 HA0 m mn Gm).
    - intros p0 a0 Hin. exact (proj1 (a_key s0 HA0 m mn p0 a0 Gm Hin)).
    - intros x n Gx Tx. exfalso. exact (NT0 x n Gx Tx). }
  destruct ab.
  - assert (Hgo : AInv (fst (match write_member s c k v with
                             | Err e => (s, Some e)
                             | Ok s1 => retarget_all s1 (repl_aliases s1 m) v end))).
    { destruct (write_member s c k v) as [s1|e] eqn:W; [|exact HA].
      destruct (Hpost s s1 (skel_eq_refl s) HA NV eq_refl W) as [HI1 HA1].
      apply Hloop; auto.
      intros x n' G' T'. destruct (write_member_target_back s c k v s1 W x n' G') as [n [G T]].
      apply (NT x n G). congruence. }
    destruct (kind_of s v) as [[| | | |]|]; try exact Hgo.
    destruct (repl_aliases s m); [exact Hgo | exact HA].
  - pose proof (Hloop s HI HA NT) as HA2.
    assert (HS : skel_eq s (fst (retarget_all s (repl_aliases s m) v))) by apply skel_eq_retarget_all.
    pose proof (retarget_all_frame v (repl_aliases s m) s NV) as [NV2 T2].
    destruct (retarget_all s (repl_aliases s m) v) as [s1 [e1|]]; simpl in *; [exact HA2|].
    destruct (write_member s1 c k v) as [s2|e] eqn:W; simpl; [|exact HA2].
    exact (proj2 (Hpost s1 s2 HS HA2 NV2 T2 W)).
Qed.

(* ================================================================ F. every top-down operation keeps both invariants *)

Definition Inv (s : state) : Prop := SInv s /\ AInv s.

Lemma recv_live_spec : forall s r, recv_live s r = true -> r = RRoot \/ exists j, r = RObj j /\ Live s j.
Proof.
  intros s [|j] H; [left; reflexivity|]. right. exists j. split; auto.
  simpl in H. apply live_spec in H. destruct H as [p [_ G]]. exists p. exact G.
Qed.

Lemma top_down_new_recv : forall s a r p k t, top_down s (ONew a r p k t) = true -> recv_live s r = true.
Proof.
  intros s a r p k t H. simpl in H. destruct r as [|j]; [reflexivity|]. exact H.
Qed.

Lemma AInv_step : forall s o, SInv s -> AInv s -> top_down s o = true -> AInv (fst (step s o)).
Proof.
  intros s o HI HA Htd. destruct o as [k n t|a r p v|a r p k t|a r p|a|a v]; try (simpl in Htd; discriminate); simpl.
  - (* an alias that was deleted or replaced comes back *)
    simpl in Htd. pose proof Htd as Hs. apply reattach_ok_spec in Hs.
    destruct Hs as [vn [Gv [Kv [Mv [Hl [Nv [Lr Hroot]]]]]]].
    destruct (loose_spec s v Hl) as [_ [_ [NV [_ NT]]]].
    apply (AInv_set_value_fresh s a r p v vn HI HA (loose_detached s v vn Hl Gv Mv)); auto.
    + exact (reattach_recv s r p v vn Htd Gv).
    + intros Hr Hp. exfalso. apply Hroot. auto.
    + apply recv_live_spec. exact Lr.
  - destruct (recv_exists s r) eqn:Re; simpl; [|exact HA].
    destruct (alloc s k (last p "") t) as [s1 e] eqn:Al.
    apply alloc_cases in Al. destruct Al as [[E1 E2]|[E1 [nd [E2 [P [M [N [K [AL T]]]]]]]]].
    + subst s1. destruct e; [exact HA|congruence].
    + subst e. destruct (SInv_app s nd HI P M) as [HI1 D1]. rewrite <- E2 in HI1, D1.
      assert (HA1 : AInv s1).
      { subst s1. apply AInv_app; auto. intros x Hx. exact (proj1 (proj2 (T x Hx))). }
      assert (Gv : getn s1 (List.length (heap s)) = Some nd) by (subst s1; apply getn_app_last).
      assert (Hold : forall i n0, getn s1 i = Some n0 -> i <> List.length (heap s) -> getn s i = Some n0).
      { intros i n0 G Hi. subst s1. apply getn_app_old in G. destruct G as [[_ G]|[E _]]; [exact G|contradiction]. }
      apply (AInv_set_value_fresh s1 a r p (List.length (heap s)) nd HI1 HA1 D1); auto.
      * (* NoVal *)
        intros t0 tn p0 G Hin. destruct (a_key s1 HA1 t0 tn p0 _ G Hin) as [_ Kk].
        destruct (Nat.eq_dec t0 (List.length (heap s))) as [Et|Et].
        -- subst t0. rewrite Gv in G. inversion G; subst tn. rewrite AL in Hin. contradiction.
        -- pose proof (Hold t0 tn G Et) as G0. destruct (a_key s HA t0 tn p0 _ G0 Hin) as [_ K0].
           unfold kind_of in K0. destruct (getn s (List.length (heap s))) eqn:Gx; [|discriminate].
           apply getn_lt in Gx. lia.
      * (* nobody targets the fresh object *)
        intros x n0 G Tx. destruct (Nat.eq_dec x (List.length (heap s))) as [Ex|Ex].
        -- subst x. rewrite Gv in G. inversion G; subst n0. destruct (T _ Tx) as [_ [K1 _]].
           unfold kind_of in K1. destruct (getn s (List.length (heap s))) eqn:Gx; [|simpl in K1; congruence].
           apply getn_lt in Gx. lia.
        -- pose proof (Hold x n0 G Ex) as G0. pose proof (a_tgt s HA x n0 _ G0 Tx) as K1.
           unfold kind_of in K1. destruct (getn s (List.length (heap s))) eqn:Gx; [|simpl in K1; congruence].
           apply getn_lt in Gx. lia.
      * destruct r as [|i]; [discriminate|]. simpl in Re. apply Nat.ltb_lt in Re. intro E. inversion E. lia.
      * intros t0 Ht. rewrite K. exact (proj1 (T t0 Ht)).
      * intros Hr Hp. rewrite K. split; [exact (top_down_new_root_kind s a r p k t Htd Hr Hp) | exact P].
      * pose proof (top_down_new_recv s a r p k t Htd) as Lr. apply recv_live_spec in Lr.
        destruct Lr as [Lr|[j [Lr [pj Gj]]]]; [left; exact Lr|]. right. exists j. split; auto.
        exists pj. subst s1. apply get_forward_app. exact Gj.
  - unfold del_value. destruct (locate s r p) as [[c k]|e]; [|exact HA].
    destruct (get_at s c k); [|exact HA].
    assert (E : fst (match c with
                     | RRoot => (mkState (heap s) (mdel k (root s)), @None err)
                     | RObj i => (upd_state s i (fun n => with_members (mdel k (nmembers n)) n), None)
                     end) = unlink s c k) by (destruct c; reflexivity).
    rewrite E. apply AInv_unlink; auto.
  - apply AInv_resolve_live; auto.
  - destruct (set_target s a v) as [s'|e] eqn:E; simpl; [|exact HA].
    eapply AInv_set_target_live; eauto.
Qed.

Theorem inv_init : Inv init.
Proof. split; [apply SInv_init | apply AInv_init]. Qed.

Theorem inv_step : forall s o, Inv s -> top_down s o = true -> Inv (fst (step s o)).
Proof. intros s o [HI HA] H. split; [apply SInv_step | apply AInv_step]; auto. Qed.

Lemma inv_run : forall ops s, Inv s -> all_top_down s ops = true -> Inv (run s ops).
Proof.
  induction ops as [|o r IH]; intros s HI H; [exact HI|].
  simpl in H. apply andb_true_iff in H. destruct H as [H1 H2]. rewrite run_cons. apply IH; auto. apply inv_step; auto.
Qed.

Theorem inv_reachable : forall ops, all_top_down init ops = true -> Inv (run init ops).
Proof. intros ops H. apply inv_run; auto. apply inv_init. Qed.

(* ---- the clauses of the property as consequences of Inv *)
Definition Backref (s : state) : Prop :=
  forall p a n t, get s RRoot p = Ok a -> getn s a = Some n -> ntarget n = Some t ->
  path_of s a = POk p /\ exists tn, getn s t = Some tn /\ alookup p (naliases tn) = Some a.

Lemma inv_backref : forall s, Inv s -> Backref s.
Proof.
  intros s [HI HA] p a n t H G T. split; [apply (retrievable s HI); exact H|]. exact (a_back s HA p a n t H G T).
Qed.

Theorem backref_listed_modulo_known : forall ops, known_gap ops = false -> Backref (run init ops).
Proof.
  intros ops H. apply inv_backref. apply inv_reachable. unfold C16_tree.known_gap in H. apply negb_false_iff in H. exact H.
Qed.

(* ================================================================ G. the known gap: bottom-up construction *)

Definition witness_F1 : list op :=
  [ ONew Producer RRoot ["m"] KMod TNone;
    ONew Producer RRoot ["m"; "f"] KFun TNone;
    OAlloc KCls "C" TNone;                       (* a class built away from the tree ... *)
    OAlloc KAli "al" (TObj 1);                   (* ... an alias to m.f ... *)
    OSet Producer (RObj 2) ["al"] 3;             (* ... put into the detached class: registered as 'C.al' *)
    OSet Producer RRoot ["m"; "C"] 2 ].          (* the class is attached: the alias is now m.C.al *)

Theorem backref_listed_refuted : exists ops, known_gap ops = true /\ ~ Backref (run init ops).
Proof.
  exists witness_F1. split; [vm_compute; reflexivity|].
  intro HB.
  assert (G : get (run init witness_F1) RRoot ["m"; "C"; "al"] = Ok 3) by (vm_compute; reflexivity).
  destruct (getn (run init witness_F1) 3) as [n|] eqn:Gn; [|vm_compute in Gn; discriminate].
  assert (T : ntarget n = Some 1) by (vm_compute in Gn; inversion Gn; reflexivity).
  destruct (HB _ _ _ _ G Gn T) as [_ [tn [Gt Lk]]].
  vm_compute in Gt. inversion Gt; subst tn. vm_compute in Lk. discriminate.
Qed.

(* the stale key the implementation leaves behind *)
Example witness_F1_stale_key :
  option_map naliases (getn (run init witness_F1) 1) = Some [(["C"; "al"], 3)] /\
  path_of (run init witness_F1) 3 = POk ["m"; "C"; "al"].
Proof. vm_compute. split; reflexivity. Qed.

(* ---- the hypotheses are satisfiable: a top-down history with a resolved alias and a replacement *)
Definition sample_top_down : list op :=
  [ ONew Producer RRoot ["m"] KMod TNone;
    ONew Producer RRoot ["m"; "f"] KFun TNone;
    ONew Producer RRoot ["m"; "C"] KCls TNone;
    ONew Consumer (RObj 2) ["al"] KAli (TStr ["m"; "f"]);
    OResolve 3;
    ONew Producer (RObj 0) ["f"] KFun TNone;       (* replaces m.f: the alias follows *)
    ODel Consumer RRoot ["m"; "C"; "al"] ].

Example sample_is_top_down : all_top_down init sample_top_down = true.
Proof. destruct ab; vm_compute; reflexivity. Qed.

Example sample_alias_followed :
  option_map ntarget (getn (run init (firstn 6 sample_top_down)) 3) = Some (Some 4) /\
  option_map naliases (getn (run init (firstn 6 sample_top_down)) 4) = Some [(["m"; "C"; "al"], 3)].
Proof. destruct ab; vm_compute; split; reflexivity. Qed.

(* ================================================================ H. dotted string = tuple of names *)

Fixpoint nodotb (s : string) : bool :=
  match s with EmptyString => true | String c r => negb (Ascii.eqb c dot) && nodotb r end.

Lemma append_empty_r : forall s : string, (s ++ "")%string = s.
Proof. induction s as [|c r IH]; simpl; [reflexivity|rewrite IH; reflexivity]. Qed.

Lemma split_dot_aux_app : forall x cur tl, nodotb x = true ->
  split_dot_aux (x ++ tl)%string cur = split_dot_aux tl (fun y => cur (x ++ y)%string).
Proof.
  induction x as [|c x IH]; intros cur tl H; simpl; [reflexivity|].
  simpl in H. apply andb_true_iff in H. destruct H as [H1 H2]. apply negb_true_iff in H1. rewrite H1.
  rewrite IH by exact H2. reflexivity.
Qed.

Lemma split_join : forall l, l <> [] -> forallb nodotb l = true -> split_dot (join_dot l) = l.
Proof.
  induction l as [|x r IH]; intros Hne H; [congruence|].
  simpl in H. apply andb_true_iff in H. destruct H as [Hx Hr].
  destruct r as [|y r'].
  - simpl. unfold split_dot. rewrite <- (append_empty_r x) at 1. rewrite split_dot_aux_app by exact Hx.
    simpl. rewrite append_empty_r. reflexivity.
  - change (join_dot (x :: y :: r')) with (x ++ String dot (join_dot (y :: r')))%string.
    unfold split_dot. rewrite split_dot_aux_app by exact Hx. cbn [split_dot_aux]. unfold dot at 1. simpl Ascii.eqb. cbv iota.
    rewrite append_empty_r. f_equal. apply IH; [discriminate|exact Hr].
Qed.

Theorem parts_dotted_eq_tuple : forall l, l <> [] -> forallb nodotb l = true -> join_dot l <> ""%string ->
  get_parts (KStr (join_dot l)) = get_parts (KSeq l).
Proof.
  intros l Hne H Hs. unfold get_parts. destruct (join_dot l) eqn:E; [congruence|].
  rewrite <- E. rewrite split_join by auto. destruct l; [congruence|reflexivity].
Qed.

(* the only keys on which the two forms differ: the empty string is rejected, the tuple [""] is a lookup of "" *)
Example parts_empty_string_differs : get_parts (KStr "") = Err EValue /\ get_parts (KSeq [""%string]) = Ok [""%string].
Proof. split; reflexivity. Qed.

(* ================================================================ I. aliases follow a set_member replacement *)

Lemma pth_ok_nonempty : forall h f x p, pth h f x = POk p -> p <> [].
Proof.
  intros h f x p H. destruct f as [|f]; simpl in H; [discriminate|].
  destruct (nth_error h x) as [n|]; [|discriminate].
  destruct (nparent n) as [c|].
  - destruct (pth h f c); try discriminate. inversion H. intro E. apply app_eq_nil in E. destruct E; discriminate.
  - destruct (is_ali (nkind n)); [discriminate|]. inversion H. discriminate.
Qed.

Lemma alias_path_len : forall s a n ap, getn s a = Some n -> nkind n = KAli -> path_of s a = POk ap -> 2 <= List.length ap.
Proof.
  intros s a n ap G K H. unfold path_of in H. destruct (List.length (heap s)) as [|f]; simpl in H; [discriminate|].
  unfold getn in G. rewrite G in H. rewrite K in H. simpl in H.
  destruct (nparent n) as [c|]; [|discriminate].
  destruct (pth (heap s) f c) as [pp| |] eqn:P; try discriminate. inversion H.
  apply pth_ok_nonempty in P. rewrite app_length. simpl. destruct pp; [congruence|simpl; lia].
Qed.

Lemma path_eqb_length : forall p q, path_eqb p q = true -> List.length p = List.length q.
Proof. intros p q H. apply path_eqb_eq in H. congruence. Qed.

Lemma set_target_not_cyclic : forall s a v, a <> v ->
  (forall vp, path_of s v = POk vp -> List.length vp = 1) -> set_target s a v <> Err ECyclic.
Proof.
  intros s a v Hne Hv H. unfold set_target in H.
  destruct (kind_of s a) as [[| | | |]|] eqn:Ka; try discriminate.
  destruct (kind_of s v) as [kv|]; try discriminate.
  destruct (Nat.eqb v a) eqn:E; [apply Nat.eqb_eq in E; congruence|].
  destruct (path_of s v) as [vp| |] eqn:Pv; try discriminate.
  destruct (path_of s a) as [ap| |] eqn:Pa; try discriminate.
  destruct (path_eqb vp ap) eqn:Ep.
  - apply path_eqb_length in Ep. rewrite (Hv vp eq_refl) in Ep.
    unfold kind_of in Ka. destruct (getn s a) as [n|] eqn:Ga; [|discriminate]. simpl in Ka. inversion Ka.
    pose proof (alias_path_len s a n ap Ga H1 Pa). lia.
  - destruct (is_ali kv); discriminate.
Qed.

(* an alias that points at v keeps doing so through the loop, and its target_path is v's path while the loop runs *)
Lemma retarget_all_keeps : forall v als s a,
  (exists n, getn s a = Some n /\ ntarget n = Some v /\ path_of s v = POk (ntpath n)) ->
  exists n, getn (fst (retarget_all s als v)) a = Some n /\ ntarget n = Some v /\
            path_of (fst (retarget_all s als v)) v = POk (ntpath n).
Proof.
  intros v als. induction als as [|a0 r IH]; intros s a H; simpl; [exact H|].
  destruct (set_target s a0 v) as [s'|e] eqn:E.
  - apply IH. pose proof (skel_eq_set_target s a0 v s' E) as HS.
    apply set_target_shape in E. destruct E as [vp [ap [Es [Hne [_ [Pv _]]]]]]. subst s'.
    rewrite <- (skel_eq_path s _ HS).
    destruct H as [n [G [T TP0]]]. rewrite getn_point_at by auto.
    destruct (Nat.eqb a v) eqn:E1.
    + apply Nat.eqb_eq in E1. subst a. rewrite G. simpl. eexists. split; [reflexivity|]. split; [exact T|exact TP0].
    + destruct (Nat.eqb a a0) eqn:E2.
      * apply Nat.eqb_eq in E2. subst a. rewrite G. simpl. eexists. split; [reflexivity|]. split; [reflexivity|exact Pv].
      * exists n. auto.
  - destruct e; simpl; auto.
Qed.

Lemma retarget_all_sets : forall v als s s2 a,
  retarget_all s als v = (s2, None) ->
  (forall s0, skel_eq s s0 -> set_target s0 a v <> Err ECyclic) ->
  In a als -> exists n, getn s2 a = Some n /\ ntarget n = Some v /\ path_of s2 v = POk (ntpath n).
Proof.
  intros v als. induction als as [|a0 r IH]; intros s s2 a H NC Hin; [contradiction|].
  simpl in H. destruct (set_target s a0 v) as [s'|e] eqn:E.
  - pose proof (skel_eq_set_target s a0 v s' E) as HS.
    destruct Hin as [Ea|Hin].
    + subst a0. pose proof (retarget_all_keeps v r s' a) as K. rewrite H in K. simpl in K. apply K.
      apply set_target_shape in E. destruct E as [vp [ap [Es [Hne [_ [Pv [Ka _]]]]]]]. 
      rewrite <- (skel_eq_path s s' HS). subst s'.
      rewrite getn_point_at by auto. assert (Eav : Nat.eqb a v = false) by (apply Nat.eqb_neq; auto).
      rewrite Eav, Nat.eqb_refl.
      unfold kind_of in Ka. destruct (getn s a) as [n|] eqn:G; [|discriminate].
      simpl. eexists. split; [reflexivity|]. split; [reflexivity|exact Pv].
    + apply (IH s' s2 a H); auto.
      intros s0 HS0. apply NC. eapply skel_eq_trans; eauto.
  - destruct e; try discriminate.
    destruct Hin as [Ea|Hin].
    + subst a0. exfalso. exact (NC s (skel_eq_refl s) E).
    + apply (IH s s2 a H); auto.
Qed.

Lemma members_r_forward_app : forall s nd c ms, members_r s c = Ok ms ->
  members_r (mkState (heap s ++ [nd]) (root s)) c = Ok ms.
Proof.
  intros s nd c ms M. destruct c as [|i]; simpl in *; auto. destruct (getn s i) as [n|] eqn:G; [|discriminate].
  rewrite getn_app_lt by (eapply getn_lt; eauto). rewrite G. exact M.
Qed.

Lemma locate_forward_app : forall s nd p r c k, locate s r p = Ok (c, k) ->
  locate (mkState (heap s ++ [nd]) (root s)) r p = Ok (c, k).
Proof.
  intros s nd p. induction p as [|k0 p IH]; intros r c k H; simpl in H; [discriminate|].
  destruct (members_r s r) as [ms|] eqn:M; [|discriminate].
  cbn [locate]. rewrite (members_r_forward_app s nd r ms M).
  destruct p as [|k1 p1]; [exact H|].
  destruct (mlookup k0 ms) as [x|]; [|discriminate]. apply IH. exact H.
Qed.

(* ================================================================ J. refinement to the reference dictionary path -> object *)

Lemma is_prefix_app : forall P q, is_prefix P (P ++ q) = true.
Proof. induction P as [|a P IH]; intro q; simpl; auto. rewrite String.eqb_refl. simpl. apply IH. Qed.

Lemma is_prefix_refl : forall P, is_prefix P P = true.
Proof. intro P. rewrite <- (app_nil_r P) at 2. apply is_prefix_app. Qed.

Lemma is_prefix_spec : forall P q, is_prefix P q = true -> exists q', q = P ++ q'.
Proof.
  induction P as [|a P IH]; intros q H; simpl in *; [exists q; reflexivity|].
  destruct q as [|b q]; [discriminate|]. apply andb_true_iff in H. destruct H as [H1 H2].
  apply String.eqb_eq in H1. subst b. destruct (IH q H2) as [q' E]. exists q'. simpl. congruence.
Qed.

Lemma is_prefix_app_r : forall P q l, is_prefix P q = true -> is_prefix P (q ++ l) = true.
Proof.
  intros P q l H. apply is_prefix_spec in H. destruct H as [q' E]. subst q. rewrite <- app_assoc. apply is_prefix_app.
Qed.

Lemma locate_get : forall s p r c k, locate s r p = Ok (c, k) ->
  exists pre, p = pre ++ [k] /\ ((pre = [] /\ c = r) \/ (pre <> [] /\ exists i, c = RObj i /\ get s r pre = Ok i)).
Proof.
  intros s p. induction p as [|k0 p IH]; intros r c k H; simpl in H; [discriminate|].
  destruct (members_r s r) as [ms|] eqn:M; [|discriminate].
  destruct p as [|k1 p1].
  - inversion H; subst. exists []. split; auto.
  - destruct (mlookup k0 ms) as [x|] eqn:L; [|discriminate].
    destruct (IH (RObj x) c k H) as [pre [E [[E1 E2]|[N [i [E2 G]]]]]].
    + subst pre c. exists [k0]. split; [simpl in *; congruence|]. right. split; [discriminate|].
      exists x. split; auto. cbn [get]. rewrite M, L. reflexivity.
    + exists (k0 :: pre). split; [simpl; congruence|]. right. split; [discriminate|].
      exists i. split; auto. cbn [get]. rewrite M, L. destruct pre; [congruence|exact G].
Qed.

(* s' differs from s only in what the single dictionary entry (c, k) holds *)
Definition only_entry_changed (s s' : state) (c : recv) (k : name) : Prop :=
  (forall k', (c = RRoot /\ k' = k) \/ mlookup k' (root s') = mlookup k' (root s)) /\
  (forall j n, getn s j = Some n -> exists n', getn s' j = Some n' /\ is_ali (nkind n') = is_ali (nkind n) /\
      forall k', (c = RObj j /\ k' = k) \/ mlookup k' (nmembers n') = mlookup k' (nmembers n)).

Definition entry_path (s : state) (c : recv) (k : name) (P : path) : Prop :=
  match c with
  | RRoot => P = [k]
  | RObj i => exists pi, get s RRoot pi = Ok i /\ P = pi ++ [k]
  end.

Lemma get_forward : forall s s' c k P, SInv s -> only_entry_changed s s' c k -> entry_path s c k P ->
  forall q x, get s RRoot q = Ok x -> is_prefix P q = false -> get s' RRoot q = Ok x.
Proof.
  intros s s' c k P HI [HR HN] HP q. induction q as [|kq q0 IH] using rev_ind; intros x H Hpre; [simpl in H; discriminate|].
  destruct q0 as [|k1 q1].
  - (* a member of the collection *)
    simpl in *. destruct (mlookup kq (root s)) as [y|] eqn:L; [|discriminate]. inversion H; subst y.
    destruct (HR kq) as [[Ec Ek]|E].
    + subst c kq. simpl in HP. subst P. simpl in Hpre. rewrite String.eqb_refl in Hpre. discriminate.
    + rewrite E, L. reflexivity.
  - assert (Hq0 : k1 :: q1 <> []) by discriminate.
    set (q0 := k1 :: q1) in *.
    rewrite get_app in H by (auto; discriminate).
    destruct (get s RRoot q0) as [c0|] eqn:G0; [|discriminate].
    assert (Hp0 : is_prefix P q0 = false).
    { destruct (is_prefix P q0) eqn:E; auto. rewrite (is_prefix_app_r P _ [kq] E) in Hpre. discriminate. }
    pose proof (IH c0 eq_refl Hp0) as G0'.
    rewrite get_app by (auto; discriminate). rewrite G0'.
    rewrite get_single in H. rewrite get_single. unfold get_at in *.
    destruct (members_r s (RObj c0)) as [ms|] eqn:M; [|discriminate].
    apply members_r_obj in M. destruct M as [n0 [Gc [A0 Em]]]. subst ms.
    destruct (mlookup kq (nmembers n0)) as [y|] eqn:L; [|discriminate]. inversion H; subst y.
    destruct (HN c0 n0 Gc) as [n0' [Gc' [A' Hm]]]. simpl. rewrite Gc', A', A0.
    destruct (Hm kq) as [[Ec Ek]|E].
    + subst c kq. simpl in HP. destruct HP as [pi [Gpi EP]].
      pose proof (get_functional_path s HI _ _ _ G0 Gpi) as Epi. subst pi P.
      rewrite is_prefix_refl in Hpre. discriminate.
    + rewrite E, L. reflexivity.
Qed.

Lemma get_backward_app : forall s nd, SInv s -> nparent nd = None -> nmembers nd = [] ->
  forall p x, get (mkState (heap s ++ [nd]) (root s)) RRoot p = Ok x -> get s RRoot p = Ok x.
Proof.
  intros s nd HI P M p x H. destruct (SInv_app s nd HI P M) as [HI1 D1].
  pose proof (get_not_detached _ _ D1 p RRoot x H) as Hx.
  apply (get_backward s (mkState (heap s ++ [nd]) (root s)) (fun y => y = List.length (heap s))) with (r := RRoot);
    [ | | | exact I | exact H | exact Hx].
  - intros k y L. right. exact L.
  - intros i n' G' Hi A'. apply getn_app_old in G'. destruct G' as [[_ G']|[E _]]; [|contradiction].
    exists n'. repeat split; auto.
  - intros i n' Hi G'. subst i. rewrite getn_app_last in G'. inversion G'; subst. exact M.
Qed.

Lemma get_backward_link_obj : forall s i cn k v vn, getn s i = Some cn -> i <> v -> getn s v = Some vn -> nmembers vn = [] ->
  forall p x, get (link_obj s i k v) RRoot p = Ok x -> x <> v -> get s RRoot p = Ok x.
Proof.
  intros s i cn k v vn Gi Hne Gv Mv p x H Hx.
  apply (get_backward s (link_obj s i k v) (fun y => y = v)) with (r := RRoot); [ | | | exact I | exact H | exact Hx].
  - intros k' y L. right. exact L.
  - intros j n' G' Hj A'. rewrite getn_link_obj in G' by auto.
    apply Nat.eqb_neq in Hj. rewrite Hj in G'. destruct (Nat.eqb j i) eqn:Eji.
    + apply Nat.eqb_eq in Eji. subst j. rewrite Gi in G'. simpl in G'. inversion G'; subst n'. simpl in *.
      exists cn. repeat split; auto. intros k' y L. destruct (String.eqb k' k) eqn:Ek.
      * apply String.eqb_eq in Ek. subst k'. rewrite mlookup_put_same in L. inversion L. left. reflexivity.
      * apply String.eqb_neq in Ek. rewrite mlookup_put_other in L by auto. right. exact L.
    + exists n'. repeat split; auto.
  - intros j n' Hj G'. subst j. rewrite getn_link_obj in G' by auto. rewrite Nat.eqb_refl in G'.
    rewrite Gv in G'. simpl in G'. inversion G'; subst n'. simpl. exact Mv.
Qed.

Lemma get_backward_link_root : forall s k v vn, getn s v = Some vn -> nmembers vn = [] ->
  forall p x, get (link_root s k v) RRoot p = Ok x -> x <> v -> get s RRoot p = Ok x.
Proof.
  intros s k v vn Gv Mv p x H Hx.
  apply (get_backward s (link_root s k v) (fun y => y = v)) with (r := RRoot); [ | | | exact I | exact H | exact Hx].
  - intros k' y L. unfold link_root in L. simpl in L. destruct (String.eqb k' k) eqn:Ek.
    + apply String.eqb_eq in Ek. subst k'. rewrite mlookup_put_same in L. inversion L. left. reflexivity.
    + apply String.eqb_neq in Ek. rewrite mlookup_put_other in L by auto. right. exact L.
  - intros j n' G' Hj A'. rewrite getn_link_root in G'. destruct (Nat.eqb v j).
    + destruct (getn s j) as [n|]; simpl in G'; [|discriminate]. inversion G'; subst n'. exists n. repeat split; auto.
    + exists n'. repeat split; auto.
  - intros j n' Hj G'. subst j. rewrite getn_link_root, Nat.eqb_refl, Gv in G'. simpl in G'. inversion G'; subst n'. exact Mv.
Qed.

Lemma get_backward_unlink : forall s c k p x, get (unlink s c k) RRoot p = Ok x -> get s RRoot p = Ok x.
Proof.
  intros s c k p x H.
  apply (get_backward s (unlink s c k) (fun _ => False)) with (r := RRoot); [ | | | exact I | exact H | tauto].
  - intros k' y L. right. destruct c; simpl in L; auto. apply mlookup_del_Some in L. exact L.
  - intros i n' G _ A. destruct c as [|j]; simpl in G.
    + exists n'. repeat split; auto.
    + rewrite getn_upd in G. destruct (Nat.eqb j i).
      * destruct (getn s i) as [n|]; simpl in G; [|discriminate]. inversion G; subst n'. simpl in *.
        exists n. repeat split; auto. intros k' y L. right. apply mlookup_del_Some in L. exact L.
      * exists n'. repeat split; auto.
  - intros i n' [].
Qed.

Lemma only_entry_unlink : forall s c k, only_entry_changed s (unlink s c k) c k.
Proof.
  intros s c k. split.
  - intro k'. destruct c as [|i]; simpl; [|right; reflexivity].
    destruct (String.eqb k' k) eqn:E.
    + apply String.eqb_eq in E. left. auto.
    + apply String.eqb_neq in E. right. apply mlookup_del_other. exact E.
  - intros j n G. destruct c as [|i]; simpl.
    + exists n. repeat split; auto.
    + rewrite getn_upd. destruct (Nat.eqb i j) eqn:Eij.
      * apply Nat.eqb_eq in Eij. subst j. rewrite G. simpl. eexists. split; [reflexivity|]. simpl. split; auto.
        intro k'. destruct (String.eqb k' k) eqn:E.
        -- apply String.eqb_eq in E. left. auto.
        -- apply String.eqb_neq in E. right. apply mlookup_del_other. exact E.
      * exists n. repeat split; auto.
Qed.

Lemma locate_entry_path : forall s P c k, locate s RRoot P = Ok (c, k) -> entry_path s c k P.
Proof.
  intros s P c k H. destruct (locate_get s P RRoot c k H) as [pre [E [[E1 E2]|[N [i [E2 G]]]]]].
  - subst pre c. simpl. exact E.
  - subst c. simpl. exists pre. auto.
Qed.

Lemma dict_agree : forall s s' q,
  (forall x, get s RRoot q = Ok x -> get s' RRoot q = Ok x) ->
  (forall x, get s' RRoot q = Ok x -> get s RRoot q = Ok x) ->
  dict_of s' q = dict_of s q.
Proof.
  intros s s' q F B. unfold dict_of.
  destruct (get s' RRoot q) as [x|] eqn:G'.
  - rewrite (B x eq_refl). reflexivity.
  - destruct (get s RRoot q) as [y|] eqn:G; auto. pose proof (F y eq_refl) as X. discriminate X.
Qed.

Theorem refines_dict_del : forall s a P s', Inv s -> step s (ODel a RRoot P) = (s', None) ->
  forall q, dict_of s' q = dict_del P (dict_of s) q.
Proof.
  intros s a P s' [HI _] H q. simpl in H. apply del_value_shape in H. destruct H as [c [k [Lc E]]]. subst s'.
  unfold dict_del. destruct (is_prefix P q) eqn:Ep.
  - apply is_prefix_spec in Ep. destruct Ep as [q' Eq]. subst q.
    pose proof (deleted_gone_gen s c k P RRoot Lc) as Hg. unfold dict_of.
    destruct q' as [|k1 q1]; [rewrite app_nil_r, Hg; reflexivity|].
    assert (P <> []) by (intro; subst P; simpl in Lc; discriminate).
    rewrite get_app by (auto; discriminate). rewrite Hg. reflexivity.
  - apply dict_agree.
    + intros x G. apply (get_forward s (unlink s c k) c k P HI (only_entry_unlink s c k) (locate_entry_path s P c k Lc)); auto.
    + intros x G. eapply get_backward_unlink; eauto.
Qed.

(* the operations on aliases do not touch the dictionary *)
Theorem refines_dict_alias_ops : forall s o, (exists a, o = OResolve a) \/ (exists a v, o = OSetTarget a v) ->
  forall q, dict_of (fst (step s o)) q = dict_of s q.
Proof.
  intros s o H q. unfold dict_of.
  assert (HS : skel_eq s (fst (step s o))).
  { destruct H as [[a E]|[a [v E]]]; subst o; simpl.
    - apply skel_eq_resolve.
    - destruct (set_target s a v) as [s'|e] eqn:E; simpl; [eapply skel_eq_set_target; eauto | apply skel_eq_refl]. }
  rewrite <- (skel_eq_get s _ HS). reflexivity.
Qed.

Lemma is_prefix_shorter : forall pi k, is_prefix (pi ++ [k]) pi = false.
Proof.
  intros pi k. destruct (is_prefix (pi ++ [k]) pi) eqn:E; auto.
  apply is_prefix_spec in E. destruct E as [q' E]. apply (f_equal (@List.length name)) in E.
  rewrite !app_length in E. simpl in E. lia.
Qed.

Lemma set_value_ok_shape : forall s a r p v s', set_value s a r p v = (s', None) ->
  exists c k s2 s3, locate s r p = Ok (c, k) /\ skel_eq s s2 /\ write_member s2 c k v = Ok s3 /\ skel_eq s3 s'.
Proof.
  intros s a r p v s' H. unfold C16_tree.set_value in H.
  destruct (getn s v); [|discriminate].
  destruct (locate s r p) as [[c k]|e] eqn:Lc; [|discriminate].
  destruct (members_r s c) as [ms|e]; [|discriminate].
  apply set_at_shape in H. destruct H as [[_ Hn]|[s1 [s2 [H1 [W [H2 _]]]]]]; [congruence|].
  exists c, k, s1, s2. auto.
Qed.

Lemma only_entry_link_obj : forall s i cn k v vn, getn s i = Some cn -> i <> v -> getn s v = Some vn ->
  only_entry_changed s (link_obj s i k v) (RObj i) k.
Proof.
  intros s i cn k v vn Gi Hne Gv. split.
  - intro k'. right. reflexivity.
  - intros j n G. rewrite getn_link_obj by auto. destruct (Nat.eqb j v) eqn:E1.
    + apply Nat.eqb_eq in E1. subst j. rewrite G. simpl. eexists. split; [reflexivity|]. simpl. split; auto.
    + destruct (Nat.eqb j i) eqn:E2.
      * apply Nat.eqb_eq in E2. subst j. rewrite G. simpl. eexists. split; [reflexivity|]. simpl. split; auto.
        intro k'. destruct (String.eqb k' k) eqn:E.
        -- apply String.eqb_eq in E. left. auto.
        -- apply String.eqb_neq in E. right. apply mlookup_put_other. exact E.
      * exists n. repeat split; auto.
Qed.

Lemma only_entry_link_root : forall s k v, only_entry_changed s (link_root s k v) RRoot k.
Proof.
  intros s k v. split.
  - intro k'. unfold link_root. simpl. destruct (String.eqb k' k) eqn:E.
    + apply String.eqb_eq in E. left. auto.
    + apply String.eqb_neq in E. right. apply mlookup_put_other. exact E.
  - intros j n G. rewrite getn_link_root. destruct (Nat.eqb v j).
    + rewrite G. simpl. eexists. split; [reflexivity|]. simpl. split; auto.
    + exists n. repeat split; auto.
Qed.

(* what storing a detached object v in the entry that the absolute path P designates does to lookups *)
Lemma link_facts : forall s2 P c key v vn2 s3, SInv s2 -> Detached s2 v -> getn s2 v = Some vn2 ->
  locate s2 RRoot P = Ok (c, key) -> write_member s2 c key v = Ok s3 ->
  exists s3', skel_eq s3' s3 /\ only_entry_changed s2 s3' c key /\
    (forall p x, get s3' RRoot p = Ok x -> x <> v -> get s2 RRoot p = Ok x) /\
    get s3' RRoot P = Ok v /\
    (forall q', q' <> [] -> exists e, get s3' (RObj v) q' = Err e).
Proof.
  intros s2 P c key v vn2 s3 HI2 D2 Gv2 Lc W.
  destruct (d_node s2 v D2) as [vn0 [Gv0 Mv2]]. rewrite Gv2 in Gv0. inversion Gv0; subst vn0. clear Gv0.
  pose proof (locate_entry_path s2 P c key Lc) as EP.
  apply write_member_shape in W. destruct c as [|i].
  - subst s3. exists (link_root s2 key v). split; [apply skel_eq_refl|]. split; [apply only_entry_link_root|].
    split; [intros p x; apply (get_backward_link_root s2 key v vn2 Gv2 Mv2)|]. split.
    + simpl in EP. subst P. cbn [get]. simpl. rewrite mlookup_put_same. reflexivity.
    + intros q' Hq'. destruct q' as [|k1 q1]; [congruence|]. cbn [get]. simpl.
      rewrite getn_link_root, Nat.eqb_refl, Gv2. simpl.
      destruct (is_ali (nkind vn2)); [eexists; reflexivity|]. rewrite Mv2. simpl. eexists; reflexivity.
  - pose proof (locate_not_detached s2 v D2 P RRoot i key) as Hiv.
    assert (Hne : i <> v) by (apply Hiv; [discriminate|exact Lc]).
    destruct (locate_members s2 P RRoot (RObj i) key Lc) as [ms Mi]. apply members_r_obj in Mi.
    destruct Mi as [cn [Gi [Ai _]]].
    exists (link_obj s2 i key v). split; [exact W|]. split; [eapply only_entry_link_obj; eauto|].
    split; [intros p x; apply (get_backward_link_obj s2 i cn key v vn2 Gi Hne Gv2 Mv2)|]. split.
    + simpl in EP. destruct EP as [pi [Gpi EPP]]. subst P.
      assert (pi <> []) by (intro; subst pi; simpl in Gpi; discriminate).
      rewrite get_app by (auto; discriminate).
      rewrite (get_forward s2 (link_obj s2 i key v) (RObj i) key (pi ++ [key]) HI2
                 (only_entry_link_obj s2 i cn key v vn2 Gi Hne Gv2) (ex_intro _ pi (conj Gpi eq_refl)) pi i Gpi
                 (is_prefix_shorter pi key)).
      cbn [get]. simpl. rewrite getn_link_obj by auto.
      assert (E : Nat.eqb i v = false) by (apply Nat.eqb_neq; auto). rewrite E, Nat.eqb_refl, Gi. simpl.
      rewrite Ai. rewrite mlookup_put_same. reflexivity.
    + intros q' Hq'. destruct q' as [|k1 q1]; [congruence|]. cbn [get]. simpl.
      rewrite getn_link_obj by auto. rewrite Nat.eqb_refl, Gv2. simpl.
      destruct (is_ali (nkind vn2)); [eexists; reflexivity|]. rewrite Mv2. simpl. eexists; reflexivity.
Qed.

Theorem refines_dict_new : forall s a P k t s', Inv s -> top_down s (ONew a RRoot P k t) = true ->
  step s (ONew a RRoot P k t) = (s', None) ->
  forall q, dict_of s' q = dict_set P (List.length (heap s)) (dict_of s) q.
Proof.
  intros s a P k t s' HInv Htd H q. pose proof HInv as [HI HA].
  assert (HI' : SInv s').
  { pose proof (inv_step s _ HInv Htd) as [X _]. rewrite H in X. exact X. }
  simpl in H.
  destruct (alloc s k (last P "") t) as [s1 e] eqn:Al.
  apply alloc_cases in Al. destruct Al as [[E1 E2]|[E1 [nd [E2 [Pn [M [N [K [AL T]]]]]]]]].
  { destruct e; [discriminate|congruence]. }
  subst e. set (v := List.length (heap s)) in *.
  destruct (SInv_app s nd HI Pn M) as [HI1 D1]. rewrite <- E2 in HI1, D1. fold v in D1.
  apply set_value_ok_shape in H. destruct H as [c [key [s2 [s3w [Lc [HS [W HSw]]]]]]].
  pose proof (skel_eq_SInv s1 s2 HS HI1) as HI2.
  pose proof (Detached_skel_eq s1 s2 v HS D1) as D2.
  destruct (d_node s2 v D2) as [vn2 [Gv2 Mv2]].
  rewrite (skel_eq_locate s1 s2 HS) in Lc.
  pose proof (locate_entry_path s2 P c key Lc) as EP.
  assert (PneE : P <> []) by (intro; subst P; simpl in Lc; discriminate).
  destruct (link_facts s2 P c key v vn2 s3w HI2 D2 Gv2 Lc W) as [s3 [HS3w [OE [BW [GP GV]]]]].
  assert (HS3 : skel_eq s3 s') by (eapply skel_eq_trans; eauto).
  pose proof (skel_eq_SInv s' s3 (skel_eq_sym _ _ HS3) HI') as HI3.
  assert (Hs' : forall p, get s' RRoot p = get s3 RRoot p) by (intro p; symmetry; apply skel_eq_get; exact HS3).
  assert (Hs2 : forall p x, get s2 RRoot p = Ok x <-> get s RRoot p = Ok x).
  { intros p x. rewrite <- (skel_eq_get s1 s2 HS). subst s1. split.
    - apply get_backward_app; auto.
    - apply get_forward_app. }
  unfold dict_set. destruct (path_eqb q P) eqn:Eq.
  - apply path_eqb_eq in Eq. subst q. unfold dict_of. rewrite Hs', GP. reflexivity.
  - destruct (is_prefix P q) eqn:Ep.
    + apply is_prefix_spec in Ep. destruct Ep as [q' Eq']. subst q.
      assert (q' <> []) by (intro; subst q'; rewrite app_nil_r in Eq; rewrite path_eqb_refl in Eq; discriminate).
      unfold dict_of. rewrite Hs'. rewrite get_app by auto. rewrite GP.
      destruct (GV q' H) as [e0 Ge]. rewrite Ge. reflexivity.
    + unfold dict_of at 1. rewrite Hs'. fold (dict_of s3 q).
      transitivity (dict_of s2 q).
      * apply dict_agree.
        -- intros x G. apply (get_forward s2 s3 c key P HI2 OE EP); auto.
        -- intros x G. apply BW; auto. intro Ex. subst x.
           pose proof (get_functional_path s3 HI3 _ _ _ G GP) as Eqp. subst q. rewrite path_eqb_refl in Eq. discriminate.
      * apply dict_agree; intros x G; apply Hs2; exact G.
Qed.

(* ---- a rejected insertion leaves the skeleton alone.  In the order "store, then re-target" an exception from the
   re-targeting loop would come after the member was stored: the caller shows that the loop raises nothing *)
Lemma set_at_err_skel : forall s a c k ms v s' e, set_at s a c k ms v = (s', Some e) ->
  (ab = true -> forall m s2, a = Producer -> mlookup k ms = Some m ->
     (kind_of s v = Some KAli -> repl_aliases s m = []) -> write_member s c k v = Ok s2 ->
     snd (retarget_all s2 (repl_aliases s2 m) v) = None) ->
  skel_eq s s'.
Proof.
  intros s a c k ms v s' e H Hloop. unfold C16_tree.set_at in H.
  assert (Hw : match write_member s c k v with Ok s2 => (s2, @None err) | Err e0 => (s, Some e0) end = (s', Some e) -> skel_eq s s').
  { intro Q. destruct (write_member s c k v); inversion Q. apply skel_eq_refl. }
  destruct a; [|destruct (mlookup k ms); exact (Hw H)].
  destruct (mlookup k ms) as [m|] eqn:L; [|exact (Hw H)].
  destruct (replace_probe s m v); [inversion H; apply skel_eq_refl|].
  destruct ab.
  - assert (Hgo : (kind_of s v = Some KAli -> repl_aliases s m = []) ->
                  match write_member s c k v with
                  | Err e0 => (s, Some e0)
                  | Ok s1 => retarget_all s1 (repl_aliases s1 m) v end = (s', Some e) -> skel_eq s s').
    { intros Hpre Q. destruct (write_member s c k v) as [s2|e0] eqn:W; [|inversion Q; apply skel_eq_refl].
      exfalso. pose proof (Hloop eq_refl m s2 eq_refl eq_refl Hpre eq_refl) as N. rewrite Q in N. discriminate. }
    destruct (kind_of s v) as [[| | | |]|]; try (apply Hgo; [discriminate|exact H]).
    destruct (repl_aliases s m); [apply Hgo; [reflexivity|exact H]|]. inversion H. apply skel_eq_refl.
  - pose proof (skel_eq_retarget_all (repl_aliases s m) s v) as HS.
    destruct (retarget_all s (repl_aliases s m) v) as [s1 [e1|]]; simpl in HS.
    + inversion H; subst. exact HS.
    + destruct (write_member s1 c k v); inversion H; subst. exact HS.
Qed.

Lemma retarget_all_ok : forall v als s kv,
  kind_of s v = Some kv -> (exists vp, path_of s v = POk vp) ->
  (forall a, In a als -> kind_of s a = Some KAli /\ exists p, path_of s a = POk p) ->
  (is_ali kv = false \/ forall a, In a als -> a = v) ->
  snd (retarget_all s als v) = None.
Proof.
  intros v als. induction als as [|a0 r IH]; intros s kv Kv [vp Pv] Hal Hv; [reflexivity|].
  simpl. destruct (Hal a0 (or_introl eq_refl)) as [Ka [ap Pa]].
  assert (Hrest : forall s0, skel_eq s s0 -> snd (retarget_all s0 r v) = None).
  { intros s0 HS. apply (IH s0 kv).
    - rewrite <- (skel_eq_kind s s0 HS). exact Kv.
    - exists vp. rewrite <- (skel_eq_path s s0 HS). exact Pv.
    - intros a Hin. destruct (Hal a (or_intror Hin)) as [K [p P]]. split.
      + rewrite <- (skel_eq_kind s s0 HS). exact K.
      + exists p. rewrite <- (skel_eq_path s s0 HS). exact P.
    - destruct Hv as [Hv|Hv]; [left; exact Hv|right; intros a Hin; apply Hv; right; exact Hin]. }
  destruct (set_target s a0 v) as [s'|e] eqn:E.
  - apply Hrest. eapply skel_eq_set_target; eauto.
  - unfold set_target in E. rewrite Ka, Kv, Pv, Pa in E.
    destruct (Nat.eqb v a0) eqn:Eva; [inversion E; subst e; apply Hrest; apply skel_eq_refl|].
    destruct (path_eqb vp ap); [inversion E; subst e; apply Hrest; apply skel_eq_refl|].
    destruct Hv as [Hv|Hv].
    + rewrite Hv in E. discriminate.
    + exfalso. apply Nat.eqb_neq in Eva. apply Eva. symmetry. apply Hv. left. reflexivity.
Qed.

(* the entries of the aliases dictionaries after storing v: what they were, or an entry for v itself *)
Lemma write_member_aliases_sub : forall s c k v s', write_member s c k v = Ok s' ->
  (forall i, c = RObj i -> i <> v) ->
  forall t tn' q a, getn s' t = Some tn' -> In (q, a) (naliases tn') ->
  a = v \/ exists tn, getn s t = Some tn /\ nkind tn = nkind tn' /\ In (q, a) (naliases tn).
Proof.
  intros s c k v s' W Hobj t tn' q a G Hin. unfold write_member in W. destruct c as [|i].
  - inversion W; subst s'. fold (link_root s k v) in G. rewrite getn_link_root in G. right. destruct (Nat.eqb v t).
    + destruct (getn s t) as [tn|]; simpl in G; [|discriminate]. inversion G; subst tn'. exists tn. auto.
    + exists tn'. auto.
  - pose proof (Hobj i eq_refl) as Hne. fold (link_obj s i k v) in W. set (sl := link_obj s i k v) in *.
    assert (Hsl : forall tnl, getn sl t = Some tnl -> exists tn, getn s t = Some tn /\ nkind tn = nkind tnl /\ naliases tn = naliases tnl).
    { intros tnl Gl. destruct (link_obj_node s i k v t Hne) as [f [E F]]. fold sl in E. rewrite E in Gl.
      destruct (getn s t) as [tn|]; simpl in Gl; [|discriminate]. inversion Gl; subst tnl. exists tn. split; auto.
      destruct (F tn) as [F1 [_ [F3 _]]]. split; symmetry; assumption. }
    assert (Hsame : s' = sl -> a = v \/ exists tn, getn s t = Some tn /\ nkind tn = nkind tn' /\ In (q, a) (naliases tn)).
    { intro E. subst s'. right. destruct (Hsl tn' G) as [tn [Gt [Kt Et]]]. exists tn. rewrite Et. auto. }
    destruct (kind_of s v) as [[| | | |]|]; try (apply Hsame; inversion W; reflexivity).
    unfold update_target_aliases in W.
    destruct (getn sl v) as [vl|]; [|apply Hsame; inversion W; reflexivity].
    destruct (ntarget vl) as [t0|]; [|apply Hsame; inversion W; reflexivity].
    destruct (path_of sl v) as [pv| |] eqn:Pv; try (apply Hsame; inversion W; reflexivity).
    inversion W; subst s'. unfold add_backref in G. rewrite getn_upd in G. destruct (Nat.eqb t0 t).
    + destruct (getn sl t) as [tnl|] eqn:Gl; simpl in G; [|discriminate]. inversion G; subst tn'. simpl in Hin.
      apply In_aput in Hin. destruct Hin as [[_ E2]|Hin]; [left; exact E2|].
      right. destruct (Hsl tnl eq_refl) as [tn [Gt [Kt Et]]]. exists tn. rewrite Et. auto.
    + right. destruct (Hsl tn' G) as [tn [Gt [Kt Et]]]. exists tn. rewrite Et. auto.
Qed.

Lemma locate_app : forall s p pj r0 j, get s r0 pj = Ok j -> p <> [] -> locate s r0 (pj ++ p) = locate s (RObj j) p.
Proof.
  intros s p pj. induction pj as [|k0 rest IH]; intros r0 j G Hp; [simpl in G; discriminate|].
  cbn [get] in G. destruct (members_r s r0) as [ms|] eqn:M; [|discriminate].
  destruct (mlookup k0 ms) as [x|] eqn:L; [|discriminate].
  change ((k0 :: rest) ++ p) with (k0 :: (rest ++ p)). cbn [locate]. rewrite M.
  destruct rest as [|k1 rest'].
  - inversion G; subst x. simpl. destruct p as [|kp p']; [congruence|]. rewrite L. reflexivity.
  - change ((k1 :: rest') ++ p) with (k1 :: (rest' ++ p)). cbv iota. rewrite L.
    change (k1 :: rest' ++ p) with ((k1 :: rest') ++ p). apply IH; auto.
Qed.

(* storing a loose object through the discipline keeps both invariants (the store is all that __setitem__ does) *)
Lemma Inv_write_fresh : forall s r p c k ms v vn s2, SInv s -> AInv s -> Detached s v -> NoVal s v ->
  (forall x n, getn s x = Some n -> ntarget n <> Some v) ->
  getn s v = Some vn -> r <> RObj v -> nname vn = last p "" ->
  (forall t, ntarget vn = Some t -> nkind vn = KAli) ->
  (r = RRoot -> (exists k, p = [k]) -> is_ali (nkind vn) = false /\ nparent vn = None) ->
  (r = RRoot \/ exists j, r = RObj j /\ Live s j) ->
  locate s r p = Ok (c, k) -> members_r s c = Ok ms -> write_member s c k v = Ok s2 -> SInv s2 /\ AInv s2.
Proof.
  intros s r p c k ms v vn s2 HI HA D NV NT Gv Hr Nv Hali Av Lr Lc M W.
  pose proof (SInv_set_value_fresh s Consumer r p v vn HI D Gv Hr Nv Av) as A.
  pose proof (AInv_set_value_fresh s Consumer r p v vn HI HA D NV NT Gv Hr Nv Hali Av Lr) as B.
  unfold C16_tree.set_value in A, B. rewrite Gv, Lc, M in A, B. unfold C16_tree.set_at in A, B.
  rewrite W in A, B. simpl in A, B. split; assumption.
Qed.

(* ... and after it the re-targeting loop of set_member raises nothing *)
Lemma loop_ok_fresh : forall s r p c k ms m v vn s2, SInv s -> AInv s -> Detached s v -> NoVal s v ->
  (forall x n, getn s x = Some n -> ntarget n <> Some v) ->
  getn s v = Some vn -> r <> RObj v -> nname vn = last p "" ->
  (forall t, ntarget vn = Some t -> nkind vn = KAli) ->
  (r = RRoot -> (exists k, p = [k]) -> is_ali (nkind vn) = false /\ nparent vn = None) ->
  (r = RRoot \/ exists j, r = RObj j /\ Live s j) ->
  locate s r p = Ok (c, k) -> members_r s c = Ok ms ->
  (kind_of s v = Some KAli -> repl_aliases s m = []) ->
  write_member s c k v = Ok s2 -> snd (retarget_all s2 (repl_aliases s2 m) v) = None.
Proof.
  intros s r p c k ms m v vn s2 HI HA D NV NT Gv Hr Nv Hali Av Lr Lc M Hpre W.
  destruct (Inv_write_fresh s r p c k ms v vn s2 HI HA D NV NT Gv Hr Nv Hali Av Lr Lc M W) as [HI2 HA2].
  destruct (write_member_target s c k v s2 W v vn Gv) as [vn2 [Gv2 _]].
  assert (Hobj : forall i, c = RObj i -> i <> v).
  { intros i Ec. subst c. exact (locate_not_detached s v D p r i k Hr Lc). }
  (* the absolute path of the entry: v is in the tree afterwards, so it has a path *)
  assert (Habs : exists Pabs, locate s RRoot Pabs = Ok (c, k)).
  { destruct Lr as [Er|[j [Er [pj Gj]]]]; subst r.
    - exists p. exact Lc.
    - assert (Hp : p <> []) by (intro; subst p; simpl in Lc; discriminate).
      exists (pj ++ p). rewrite (locate_app s p pj RRoot j Gj Hp). exact Lc. }
  destruct Habs as [Pabs LcA].
  destruct (link_facts s Pabs c k v vn s2 HI D Gv LcA W) as [s3 [HS3 [_ [_ [GP _]]]]].
  rewrite (skel_eq_get s3 s2 HS3) in GP. pose proof (retrievable s2 HI2 Pabs v GP) as Pv2.
  unfold repl_aliases. destruct (getn s2 m) as [mn2|] eqn:Gm2; [|reflexivity].
  destruct (is_ali (nkind mn2)) eqn:Am2; [reflexivity|].
  apply (retarget_all_ok v (map snd (naliases mn2)) s2 (nkind vn2)).
  - unfold kind_of. rewrite Gv2. reflexivity.
  - exists Pabs. exact Pv2.
  - intros a Hin. apply in_map_iff in Hin. destruct Hin as [[q a'] [E Hin]]. simpl in E. subst a'.
    destruct (a_key s2 HA2 m mn2 q a Gm2 Hin) as [Pa Ka]. split; [exact Ka|]. exists q. exact Pa.
  - destruct (is_ali (nkind vn2)) eqn:Av2; [right|left; reflexivity].
    intros a Hin. apply in_map_iff in Hin. destruct Hin as [[q a'] [E Hin]]. simpl in E. subst a'.
    destruct (write_member_aliases_sub s c k v s2 W Hobj m mn2 q a Gm2 Hin) as [E|[mn [Gm [Km Hin0]]]]; [exact E|].
    exfalso.
    assert (Kv : kind_of s v = Some KAli).
    { destruct (write_member_target_back s c k v s2 W v vn2 Gv2) as [vn0 [Gv0 _]].
      assert (nkind vn = nkind vn2).
      { pose proof W as W1. apply write_member_shape in W1. destruct c as [|i].
        - subst s2. rewrite getn_link_root, Nat.eqb_refl, Gv in Gv2. simpl in Gv2. inversion Gv2. reflexivity.
        - pose proof (skel_eq_kind _ _ W1 v) as Kk. unfold kind_of in Kk. rewrite Gv2 in Kk.
          rewrite getn_link_obj in Kk by (apply Hobj; reflexivity). rewrite Nat.eqb_refl, Gv in Kk. simpl in Kk. inversion Kk. reflexivity. }
      unfold kind_of. rewrite Gv. simpl. rewrite H. destruct (nkind vn2); try discriminate. reflexivity. }
    specialize (Hpre Kv). unfold repl_aliases in Hpre. rewrite Gm in Hpre. rewrite Km, Am2 in Hpre.
    assert (Q : In a (map snd (naliases mn))) by (apply in_map_iff; exists (q, a); auto). rewrite Hpre in Q. contradiction.
Qed.

Lemma set_value_err_skel : forall s a r p v s' e, set_value s a r p v = (s', Some e) ->
  (ab = true -> exists vn, SInv s /\ AInv s /\ Detached s v /\ NoVal s v /\
     (forall x n, getn s x = Some n -> ntarget n <> Some v) /\
     getn s v = Some vn /\ r <> RObj v /\ nname vn = last p "" /\
     (forall t, ntarget vn = Some t -> nkind vn = KAli) /\
     (r = RRoot -> (exists k, p = [k]) -> is_ali (nkind vn) = false /\ nparent vn = None) /\
     (r = RRoot \/ exists j, r = RObj j /\ Live s j)) ->
  skel_eq s s'.
Proof.
  intros s a r p v s' e H Hab. unfold C16_tree.set_value in H.
  destruct (getn s v) eqn:Gv0; [|inversion H; apply skel_eq_refl].
  destruct (locate s r p) as [[c k]|e0] eqn:Lc; [|inversion H; apply skel_eq_refl].
  destruct (members_r s c) as [ms|e0] eqn:M; [|inversion H; apply skel_eq_refl].
  apply (set_at_err_skel s a c k ms v s' e H).
  intros Et m s2 _ _ Hpre W.
  destruct (Hab Et) as [vn [HI [HA [D [NV [NT [Gv [Hr [Nv [Hali [Av Lr]]]]]]]]]]].
  assert (Gv' : getn s v = Some vn) by (rewrite Gv0; exact Gv).
  exact (loop_ok_fresh s r p c k ms m v vn s2 HI HA D NV NT Gv' Hr Nv Hali Av Lr Lc M Hpre W).
Qed.

(* a rejected insertion (any receiver) leaves the dictionary as it was.  In the order "store, then re-target" the operation
   has to be inside the discipline: then the loop that runs after the store raises nothing *)
Theorem refines_dict_new_rejected : forall s a r P k t s' e, Inv s ->
  (ab = true -> top_down s (ONew a r P k t) = true) ->
  step s (ONew a r P k t) = (s', Some e) ->
  forall q, dict_of s' q = dict_of s q.
Proof.
  intros s a r P k t s' e [HI HA] Htd H q. simpl in H.
  destruct (recv_exists s r) eqn:Re; simpl in H; [|inversion H; reflexivity].
  destruct (alloc s k (last P "") t) as [s1 e1] eqn:Al.
  apply alloc_cases in Al. destruct Al as [[E1 E2]|[E1 [nd [E2 [Pn [M [N [K [AL T]]]]]]]]].
  - subst s1. destruct e1; [inversion H; reflexivity|congruence].
  - subst e1.
    assert (HS : skel_eq s1 s').
    { apply (set_value_err_skel s1 a r P (List.length (heap s)) s' e H). intro Et. specialize (Htd Et).
      destruct (SInv_app s nd HI Pn M) as [HI1 D1]. rewrite <- E2 in HI1, D1.
      assert (HA1 : AInv s1).
      { subst s1. apply AInv_app; auto. intros x Hx. exact (proj1 (proj2 (T x Hx))). }
      assert (Gv : getn s1 (List.length (heap s)) = Some nd) by (subst s1; apply getn_app_last).
      assert (Hold : forall i n0, getn s1 i = Some n0 -> i <> List.length (heap s) -> getn s i = Some n0).
      { intros i n0 G Hi. subst s1. apply getn_app_old in G. destruct G as [[_ G]|[E _]]; [exact G|contradiction]. }
      exists nd. split; [exact HI1|]. split; [exact HA1|]. split; [exact D1|].
      split.
      { intros t0 tn p0 G Hin. destruct (a_key s1 HA1 t0 tn p0 _ G Hin) as [_ Kk].
        destruct (Nat.eq_dec t0 (List.length (heap s))) as [Et0|Et0].
        - subst t0. rewrite Gv in G. inversion G; subst tn. rewrite AL in Hin. contradiction.
        - pose proof (Hold t0 tn G Et0) as G0. destruct (a_key s HA t0 tn p0 _ G0 Hin) as [_ K0].
          unfold kind_of in K0. destruct (getn s (List.length (heap s))) eqn:Gx; [|discriminate].
          apply getn_lt in Gx. lia. }
      split.
      { intros x n0 G Tx. destruct (Nat.eq_dec x (List.length (heap s))) as [Ex|Ex].
        - subst x. rewrite Gv in G. inversion G; subst n0. destruct (T _ Tx) as [_ [K1 _]].
          unfold kind_of in K1. destruct (getn s (List.length (heap s))) eqn:Gx; [|simpl in K1; congruence].
          apply getn_lt in Gx. lia.
        - pose proof (Hold x n0 G Ex) as G0. pose proof (a_tgt s HA x n0 _ G0 Tx) as K1.
          unfold kind_of in K1. destruct (getn s (List.length (heap s))) eqn:Gx; [|simpl in K1; congruence].
          apply getn_lt in Gx. lia. }
      split; [exact Gv|]. split.
      { destruct r as [|i]; [discriminate|]. simpl in Re. apply Nat.ltb_lt in Re. intro E. inversion E. lia. }
      split; [exact N|]. split.
      { intros t0 Ht. rewrite K. exact (proj1 (T t0 Ht)). }
      split.
      { intros Hr Hp. rewrite K. split; [exact (top_down_new_root_kind s a r P k t Htd Hr Hp) | exact Pn]. }
      pose proof (top_down_new_recv s a r P k t Htd) as Lr. apply recv_live_spec in Lr.
      destruct Lr as [Lr|[j [Lr [pj Gj]]]]; [left; exact Lr|]. right. exists j. split; auto.
      exists pj. subst s1. apply get_forward_app. exact Gj. }
    apply dict_agree.
    + intros x G. rewrite <- (skel_eq_get s1 s' HS). subst s1. apply get_forward_app. exact G.
    + intros x G. rewrite <- (skel_eq_get s1 s' HS) in G. subst s1. eapply get_backward_app; eauto.
Qed.

(* ================================================================ K. aliases follow a set_member replacement (both orders) *)

Lemma In_aput_other : forall k v k' v' l, k' <> k -> In (k', v') l -> In (k', v') (aput k v l).
Proof.
  intros k v k' v' l Hne. induction l as [|[k2 v2] r IH]; intro H; [contradiction|].
  unfold aput. simpl. destruct (path_eqb k k2) eqn:E.
  - apply path_eqb_eq in E. subst k2. destruct H as [H|H]; [inversion H; congruence|right; exact H].
  - destruct H as [H|H]; [left; exact H|right; apply IH; exact H].
Qed.

Lemma set_target_not_cyclic_paths : forall s a v vp ap, a <> v ->
  path_of s v = POk vp -> path_of s a = POk ap -> vp <> ap -> set_target s a v <> Err ECyclic.
Proof.
  intros s a v vp ap Hne Pv Pa Hd H. unfold set_target in H.
  destruct (kind_of s a) as [[| | | |]|]; try discriminate.
  destruct (kind_of s v) as [kv|]; try discriminate.
  destruct (Nat.eqb v a) eqn:E; [apply Nat.eqb_eq in E; congruence|].
  rewrite Pv, Pa in H. rewrite (path_eqb_neq vp ap Hd) in H. destruct (is_ali kv); discriminate.
Qed.

(* storing v leaves the path of every other node alone, and keeps every back-reference whose key is not v's new path *)
Lemma write_member_others : forall s c k v vn s', SInv s -> Detached s v -> getn s v = Some vn -> SInv s' ->
  (forall i, c = RObj i -> i <> v /\ exists cn, getn s i = Some cn) ->
  write_member s c k v = Ok s' ->
  (forall x, x <> v -> path_of s' x = path_of s x) /\
  (forall t tn q a, getn s t = Some tn -> In (q, a) (naliases tn) -> path_of s' v <> POk q ->
     exists tn', getn s' t = Some tn' /\ nkind tn' = nkind tn /\ In (q, a) (naliases tn')).
Proof.
  intros s c k v vn s' HI D Gv HI' Hobj W. unfold write_member in W. destruct c as [|i].
  - inversion W; subst s'. fold (link_root s k v). fold (link_root s k v) in HI'. split.
    + intros x _. symmetry. apply npk_eq_path.
      * unfold link_root. simpl. rewrite upd_length. reflexivity.
      * intro j. rewrite getn_link_root. destruct (Nat.eqb v j); [destruct (getn s j); reflexivity|reflexivity].
    + intros t tn q a Gt Hin _. rewrite getn_link_root. destruct (Nat.eqb v t).
      * rewrite Gt. simpl. eexists. split; [reflexivity|]. split; [reflexivity|exact Hin].
      * exists tn. auto.
  - destruct (Hobj i eq_refl) as [Hne [cn Gi]]. fold (link_obj s i k v) in W.
    set (sl := link_obj s i k v) in *.
    assert (Hnode := fun x => link_obj_node s i k v x Hne). fold sl in Hnode.
    assert (HSl : skel_eq sl s').
    { destruct (kind_of s v) as [[| | | |]|]; try (inversion W; apply skel_eq_refl).
      eapply SInv_update_target_aliases; eauto. }
    pose proof (skel_eq_SInv s' sl (skel_eq_sym _ _ HSl) HI') as HIl.
    assert (Hlen : List.length (heap sl) = List.length (heap s)).
    { unfold sl, link_obj, upd_state. simpl. rewrite !upd_length. reflexivity. }
    assert (Hpath : forall x, x <> v -> path_of sl x = path_of s x).
    { intros x Hx. destruct (Nat.lt_ge_cases x (List.length (heap s))) as [Hlt|Hge].
      - symmetry. apply (path_of_agree s sl (fun y => y = v) (s_par s HI) (s_par sl HIl)); try lia; auto.
        + intros j Hj. destruct (Hnode j) as [f [E F]]. rewrite E. destruct (getn s j) as [n|]; simpl; auto.
          destruct (F n) as [_ [_ [F3 [F4 F5]]]]. unfold npk. rewrite F3, F4, F5 by auto. reflexivity.
        + intros y n c0 G Pn Hc. subst c0. exact (d_leaf s v D y n G Pn).
      - assert (N1 : nth_error (heap s) x = None) by (apply nth_error_None; lia).
        assert (N2 : nth_error (heap sl) x = None) by (apply nth_error_None; lia).
        unfold path_of. rewrite Hlen.
        destruct (List.length (heap s)) as [|f0]; [reflexivity|]. cbn [pth]. rewrite N1, N2. reflexivity. }
    split.
    + intros x Hx. rewrite <- (skel_eq_path sl s' HSl). apply Hpath. exact Hx.
    + intros t tn q a Gt Hin Hq. rewrite <- (skel_eq_path sl s' HSl) in Hq.
      assert (Gtl : exists tnl, getn sl t = Some tnl /\ nkind tnl = nkind tn /\ naliases tnl = naliases tn).
      { destruct (Hnode t) as [f [E F]]. rewrite E, Gt. simpl. eexists. split; [reflexivity|].
        destruct (F tn) as [F1 [_ [F3 _]]]. auto. }
      destruct Gtl as [tnl [Gtl [Ktl Atl]]].
      assert (Hsame : s' = sl -> exists tn', getn s' t = Some tn' /\ nkind tn' = nkind tn /\ In (q, a) (naliases tn')).
      { intro E. rewrite E. exists tnl. rewrite Atl. auto. }
      destruct (kind_of s v) as [[| | | |]|]; try (apply Hsame; inversion W; reflexivity).
      unfold update_target_aliases in W.
      destruct (getn sl v) as [vl|]; [|apply Hsame; inversion W; reflexivity].
      destruct (ntarget vl) as [t0|]; [|apply Hsame; inversion W; reflexivity].
      destruct (path_of sl v) as [pv| |] eqn:Pv; try (apply Hsame; inversion W; reflexivity).
      inversion W; subst s'. unfold add_backref. rewrite getn_upd. destruct (Nat.eqb t0 t).
      * rewrite Gtl. simpl. eexists. split; [reflexivity|]. split; [exact Ktl|]. simpl. rewrite Atl.
        apply In_aput_other; auto. intro Q. apply Hq. congruence.
      * exists tnl. rewrite Atl. auto.
Qed.

Theorem alias_follows_replacement : forall s r p k t s' c key m,
  Inv s -> step s (ONew Producer r p k t) = (s', None) ->
  locate s r p = Ok (c, key) -> get_at s c key = Ok m -> kind_of s m <> Some KAli ->
  (ab = true -> recv_live s r = true) ->
  forall q a n, get s RRoot q = Ok a -> getn s a = Some n -> ntarget n = Some m ->
  exists n', getn s' a = Some n' /\ ntarget n' = Some (List.length (heap s)) /\
             (* ... and its target_path is the path the new object had when the aliases were re-targeted *)
             POk (ntpath n') = (if ab then path_of s' (List.length (heap s)) else POk [last p ""]).
Proof.
  intros s r p k t s' c key m [HI HA] H Lc Gm Km Hlive q a n Gq Ga Ta.
  simpl in H. destruct (recv_exists s r) eqn:Re; simpl in H; [|discriminate].
  destruct (alloc s k (last p "") t) as [s1 e] eqn:Al.
  apply alloc_cases in Al. destruct Al as [[E1 E2]|[E1 [nd [E2 [P [M [N [K [AL T]]]]]]]]].
  { destruct e; [discriminate|congruence]. }
  subst e. set (v := List.length (heap s)) in *.
  destruct (SInv_app s nd HI P M) as [HI1 D1]. rewrite <- E2 in HI1, D1. fold v in D1.
  assert (Gv : getn s1 v = Some nd) by (subst s1; apply getn_app_last).
  unfold C16_tree.set_value in H. rewrite Gv in H.
  assert (Lc1 : locate s1 r p = Ok (c, key)) by (subst s1; apply locate_forward_app; exact Lc).
  rewrite Lc1 in H.
  pose proof Gm as Gm0.
  unfold get_at in Gm. destruct (members_r s c) as [ms|] eqn:Mc; [|discriminate].
  destruct (mlookup key ms) as [m0|] eqn:Lm; [|discriminate]. inversion Gm; subst m0. clear Gm.
  assert (Mc1 : members_r s1 c = Ok ms) by (subst s1; apply members_r_forward_app; exact Mc).
  rewrite Mc1 in H. unfold C16_tree.set_at in H. rewrite Lm in H.
  (* the replaced member exists *)
  destruct (a_back s HA q a n m Gq Ga Ta) as [mn [Gmn Lk]].
  assert (Gmn1 : getn s1 m = Some mn).
  { subst s1. rewrite getn_app_lt by (eapply getn_lt; eauto). exact Gmn. }
  assert (Am : is_ali (nkind mn) = false).
  { unfold kind_of in Km. rewrite Gmn in Km. simpl in Km. destruct (nkind mn); auto. congruence. }
  assert (Hav : a <> v).
  { pose proof (getn_lt _ _ _ Ga). unfold v. lia. }
  assert (Hin : In (q, a) (naliases mn)) by (apply alookup_In; exact Lk).
  assert (Hals1 : repl_aliases s1 m = map snd (naliases mn)).
  { unfold repl_aliases. rewrite Gmn1, Am. reflexivity. }
  unfold replace_probe in H. rewrite Gmn1, Gv, Am in H.
  destruct (Nat.eqb m v); [discriminate|].
  destruct (is_mod (nkind mn) && is_ali (nkind nd)); [discriminate|].
  destruct ab.
  - (* the new member is stored first *)
    specialize (Hlive eq_refl).
    assert (And : is_ali (nkind nd) = false).
    { destruct (is_ali (nkind nd)) eqn:Q; auto. exfalso.
      assert (Kv : kind_of s1 v = Some KAli). { unfold kind_of. rewrite Gv. simpl. destruct (nkind nd); try discriminate. reflexivity. }
      rewrite Kv, Hals1 in H. destruct (map snd (naliases mn)) as [|a' r'] eqn:Els; [|discriminate].
      assert (Q2 : In a (map snd (naliases mn))) by (apply in_map_iff; exists (q, a); auto). rewrite Els in Q2. contradiction. }
    assert (H' : match write_member s1 c key v with
                 | Err e => (s1, Some e)
                 | Ok s2 => retarget_all s2 (repl_aliases s2 m) v end = (s', None)).
    { destruct (kind_of s1 v) as [[| | | |]|] eqn:Kv; try exact H.
      exfalso. unfold kind_of in Kv. rewrite Gv in Kv. simpl in Kv. inversion Kv as [Q]. rewrite Q in And. discriminate. }
    clear H. destruct (write_member s1 c key v) as [s2|e2] eqn:W; [|discriminate].
    assert (Hr : r <> RObj v).
    { destruct r as [|j]; [discriminate|]. simpl in Re. apply Nat.ltb_lt in Re. intro E. inversion E. unfold v in *. lia. }
    assert (Hobj : forall i, c = RObj i -> i <> v /\ exists cn, getn s1 i = Some cn).
    { intros i Ec. subst c. split; [exact (locate_not_detached s1 v D1 p r i key Hr Lc1)|].
      apply members_r_obj in Mc1. destruct Mc1 as [cn [Gi _]]. eauto. }
    assert (HI2 : SInv s2).
    { apply (SInv_write_member_loose s1 c key v nd s2 HI1 D1 Gv); [ | | exact Hobj | exact W].
      - rewrite N. symmetry. exact (locate_key s p r c key Lc).
      - intros _. split; [exact And | exact P]. }
    destruct (write_member_others s1 c key v nd s2 HI1 D1 Gv HI2 Hobj W) as [Hoth Hkeep].
    (* the absolute path of the entry *)
    assert (Habs : exists Pabs, locate s1 RRoot Pabs = Ok (c, key) /\ get s RRoot Pabs = Ok m).
    { destruct r as [|j].
      - exists p. split; [exact Lc1|]. rewrite get_locate, Lc. exact Gm0.
      - simpl in Hlive. apply live_spec in Hlive. destruct Hlive as [pj [_ Gj]].
        assert (Hp : p <> []) by (intro; subst p; simpl in Lc; discriminate).
        exists (pj ++ p). split.
        + rewrite (locate_app s1 p pj RRoot j); auto. subst s1. apply get_forward_app. exact Gj.
        + rewrite get_locate. rewrite (locate_app s p pj RRoot j Gj Hp). rewrite Lc. exact Gm0. }
    destruct Habs as [Pabs [LcA GmA]].
    destruct (link_facts s1 Pabs c key v nd s2 HI1 D1 Gv LcA W) as [s3 [HS3 [_ [_ [GP _]]]]].
    rewrite (skel_eq_get s3 s2 HS3) in GP.
    pose proof (retrievable s2 HI2 Pabs v GP) as Pv2.
    assert (Pa2 : path_of s2 a = POk q).
    { rewrite (Hoth a Hav).
      assert (E : path_of s1 a = path_of s a).
      { symmetry. apply (path_of_agree s s1 (fun y => y = v) (s_par s HI) (s_par s1 HI1)).
        - intros i Hi. subst s1. destruct (Nat.lt_ge_cases i (List.length (heap s))) as [Hlt|Hge].
          + rewrite getn_app_lt by auto. reflexivity.
          + unfold getn. simpl. fold v in Hge.
            assert (N1 : nth_error (heap s) i = None) by (apply nth_error_None; unfold v in *; lia).
            assert (N2 : nth_error (heap s ++ [nd]) i = None) by (apply nth_error_None; rewrite app_length; simpl; unfold v in *; lia).
            rewrite N1, N2. reflexivity.
        - intros x n0 c0 G Pn Hc. destruct (s_par s HI) as [rk [He _]]. destruct (He x n0 c0 G Pn). unfold v in Hc. lia.
        - exact Hav.
        - eapply getn_lt; eauto.
        - subst s1. simpl. rewrite app_length. simpl. pose proof (getn_lt _ _ _ Ga). lia. }
      rewrite E. exact (retrievable s HI q a Gq). }
    assert (Hdq : Pabs <> q).
    { intro Q. subst q. rewrite GmA in Gq. inversion Gq; subst a.
      destruct (a_key s HA m mn Pabs m Gmn Hin) as [_ Ka]. congruence. }
    assert (Hin2 : In a (repl_aliases s2 m)).
    { destruct (Hkeep m mn q a Gmn1 Hin) as [mn2 [Gm2 [Km2 Hin2]]].
      - rewrite Pv2. intro Q. inversion Q. congruence.
      - unfold repl_aliases. rewrite Gm2. rewrite Km2, Am. apply in_map_iff. exists (q, a). auto. }
    destruct (retarget_all_sets v (repl_aliases s2 m) s2 s' a H') as [n' [G' [T' TP']]]; auto.
    { intros s0 HS0. apply (set_target_not_cyclic_paths s0 a v Pabs q); auto.
      + rewrite <- (skel_eq_path s2 s0 HS0). exact Pv2.
      + rewrite <- (skel_eq_path s2 s0 HS0). exact Pa2. }
    exists n'. split; [exact G'|]. split; [exact T'|]. symmetry. exact TP'.
  - (* the aliases are re-targeted first: the new member is still detached, its path is its bare name *)
    rewrite Hals1 in H.
    destruct (retarget_all s1 (map snd (naliases mn)) v) as [s2 e1] eqn:R.
    destruct e1 as [e1|]; [discriminate|].
    destruct (write_member s2 c key v) as [s3|e3] eqn:W; [|discriminate]. inversion H; subst s3. clear H.
    assert (Hin' : In a (map snd (naliases mn))) by (apply in_map_iff; exists (q, a); auto).
    assert (Pv1 : forall vp, path_of s1 v = POk vp -> vp = [last p ""]).
    { intros vp Pv. rewrite (path_of_unfold s1 v nd (s_par s1 HI1) Gv) in Pv. unfold node_path in Pv. rewrite P in Pv.
      destruct (is_ali (nkind nd)); [discriminate|]. inversion Pv. rewrite N. reflexivity. }
    assert (Ha2 : exists n2, getn s2 a = Some n2 /\ ntarget n2 = Some v /\ path_of s2 v = POk (ntpath n2)).
    { apply (retarget_all_sets v (map snd (naliases mn)) s1 s2 a R); auto.
      intros s0 HS0. apply set_target_not_cyclic; auto.
      intros vp Pv. rewrite <- (skel_eq_path s1 s0 HS0) in Pv. rewrite (Pv1 vp Pv). reflexivity. }
    destruct Ha2 as [n2 [G2 [T2 TP2]]].
    pose proof (skel_eq_retarget_all (map snd (naliases mn)) s1 v) as HS12. rewrite R in HS12. simpl in HS12.
    rewrite <- (skel_eq_path s1 s2 HS12) in TP2. apply Pv1 in TP2.
    destruct (write_member_target s2 c key v s' W a n2 G2) as [n' [G' T']].
    destruct (write_member_tpath s2 c key v s' W a n2 G2) as [n'' [G'' TP'']].
    assert (n'' = n') by congruence. subst n''.
    exists n'. split; [exact G'|]. split; [congruence|]. rewrite TP'', TP2. reflexivity.
Qed.

(* ================================================================ L. operations on an object of the tree = the same operation on the
   collection with the absolute path (so the refinement theorems hold for every live receiver) *)

Lemma last_app_ne : forall (pj p : path) d, p <> [] -> last (pj ++ p) d = last p d.
Proof.
  intros pj p d Hp. induction pj as [|k0 rest IH]; [reflexivity|].
  change ((k0 :: rest) ++ p) with (k0 :: (rest ++ p)). destruct (rest ++ p) as [|k1 l] eqn:E.
  - apply app_eq_nil in E. destruct E. congruence.
  - rewrite <- E in IH. rewrite <- IH. rewrite E. reflexivity.
Qed.

Lemma get_lt : forall s, SInv s -> forall p r x, get s r p = Ok x -> x < List.length (heap s).
Proof.
  intros s HI p. induction p as [|k p IH]; intros r x G; [simpl in G; discriminate|].
  cbn [get] in G. destruct (members_r s r) as [ms|] eqn:Mr; [|discriminate].
  destruct (mlookup k ms) as [y|] eqn:L; [|discriminate].
  destruct p as [|k2 p2]; [|eapply IH; eauto].
  inversion G; subst y. destruct r as [|c].
  - simpl in Mr. inversion Mr; subst. destruct (s_root s HI k x L) as [n [Gn _]]. eapply getn_lt; eauto.
  - apply members_r_obj in Mr. destruct Mr as [n [Gc [_ E2]]]. subst ms.
    destruct (s_mem s HI c n k x Gc L) as [n2 [Gn _]]. eapply getn_lt; eauto.
Qed.

Lemma set_value_recv_abs : forall s a pj j p v, get s RRoot pj = Ok j -> p <> [] ->
  set_value s a (RObj j) p v = set_value s a RRoot (pj ++ p) v.
Proof.
  intros s a pj j p v G Hp. unfold C16_tree.set_value. rewrite (locate_app s p pj RRoot j G Hp). reflexivity.
Qed.

Theorem step_recv_abs : forall s pj j p, SInv s -> get s RRoot pj = Ok j -> p <> [] ->
  (forall a k t, step s (ONew a (RObj j) p k t) = step s (ONew a RRoot (pj ++ p) k t)) /\
  (forall a v, step s (OSet a (RObj j) p v) = step s (OSet a RRoot (pj ++ p) v)) /\
  (forall a, step s (ODel a (RObj j) p) = step s (ODel a RRoot (pj ++ p))).
Proof.
  intros s pj j p HI G Hp. split; [|split].
  - intros a k t. simpl. pose proof (get_lt s HI pj RRoot j G) as Hlt.
    apply Nat.ltb_lt in Hlt. rewrite Hlt. simpl. rewrite (last_app_ne pj p "" Hp).
    destruct (alloc s k (last p "") t) as [s1 [e|]] eqn:Al; [reflexivity|].
    apply set_value_recv_abs; auto.
    apply alloc_cases in Al. destruct Al as [[_ E]|[_ [nd [E _]]]]; [congruence|]. subst s1. apply get_forward_app. exact G.
  - intros a v. simpl. apply set_value_recv_abs; auto.
  - intros a. simpl. unfold del_value. rewrite (locate_app s p pj RRoot j G Hp). reflexivity.
Qed.

(* a successful insertion / replacement through an object of the tree *)
Theorem refines_dict_new_recv : forall s a pj j p k t s', Inv s -> get s RRoot pj = Ok j -> p <> [] ->
  top_down s (ONew a (RObj j) p k t) = true -> step s (ONew a (RObj j) p k t) = (s', None) ->
  forall q, dict_of s' q = dict_set (pj ++ p) (List.length (heap s)) (dict_of s) q.
Proof.
  intros s a pj j p k t s' HInv G Hp Htd H.
  destruct (step_recv_abs s pj j p (proj1 HInv) G Hp) as [E _]. rewrite E in H.
  apply (refines_dict_new s a (pj ++ p) k t s' HInv); auto.
  simpl. destruct pj as [|k0 rest]; [simpl in G; discriminate|].
  destruct (rest ++ p) as [|k1 l] eqn:El.
  - apply app_eq_nil in El. destruct El. congruence.
  - change ((k0 :: rest) ++ p) with (k0 :: (rest ++ p)). rewrite El. destruct k; reflexivity.
Qed.

Theorem refines_dict_del_recv : forall s a pj j p s', Inv s -> get s RRoot pj = Ok j -> p <> [] ->
  step s (ODel a (RObj j) p) = (s', None) ->
  forall q, dict_of s' q = dict_del (pj ++ p) (dict_of s) q.
Proof.
  intros s a pj j p s' HInv G Hp H.
  destruct (step_recv_abs s pj j p (proj1 HInv) G Hp) as [_ [_ E]]. rewrite E in H.
  exact (refines_dict_del s a (pj ++ p) s' HInv H).
Qed.

(* ================================================================ M. witnesses for the re-attachment discipline and for finding C16-F3 *)

(* an alias is replaced by a new alias with the same name and target, then the replaced object is inserted elsewhere:
   the history is inside the discipline (the replaced alias's back-reference was overwritten by its successor) *)
Definition sample_reattach : list op :=
  [ ONew Producer RRoot ["a"] KMod TNone;
    ONew Producer RRoot ["c"] KMod TNone;
    ONew Producer RRoot ["a"; "a"] KAttr TNone;
    ONew Producer RRoot ["c"; "c"] KAli (TObj 2);
    ONew Consumer RRoot ["c"; "c"] KAli (TObj 2);
    OSet Producer RRoot ["a"; "c"] 3 ].

Example sample_reattach_disciplined : all_top_down init sample_reattach = true.
Proof. destruct ab; vm_compute; reflexivity. Qed.

Example sample_reattach_listed :
  option_map naliases (getn (run init sample_reattach) 2) = Some [(["c"; "c"], 4); (["a"; "c"], 3)] /\
  path_of (run init sample_reattach) 3 = POk ["a"; "c"] /\ path_of (run init sample_reattach) 4 = POk ["c"; "c"].
Proof. destruct ab; vm_compute; repeat split; reflexivity. Qed.

(* a deleted function is inserted again in another module: inside the discipline too (nothing refers to it) *)
Definition sample_reattach_plain : list op :=
  [ ONew Producer RRoot ["m"] KMod TNone;
    ONew Producer RRoot ["n"] KMod TNone;
    ONew Producer RRoot ["m"; "f"] KFun TNone;
    ODel Producer RRoot ["m"; "f"];
    OSet Consumer RRoot ["n"; "f"] 2 ].

Example sample_reattach_plain_disciplined :
  all_top_down init sample_reattach_plain = true /\ get (run init sample_reattach_plain) RRoot ["n"; "f"] = Ok 2 /\
  path_of (run init sample_reattach_plain) 2 = POk ["n"; "f"].
Proof. destruct ab; vm_compute; repeat split; reflexivity. Qed.

(* finding C16-F3: the stale back-reference of a deleted alias is re-targeted by a later replacement and overwrites the
   entry of the live alias at the path the dead one used to have *)
Definition witness_F3 : list op :=
  [ ONew Producer RRoot ["m"] KMod TNone;
    ONew Producer RRoot ["q"] KMod TNone;
    ONew Producer RRoot ["m"; "x"] KFun TNone;
    ONew Producer RRoot ["m"; "t"] KAli (TStr ["m"; "x"]);      (* 3 = a *)
    OResolve 3;
    ONew Producer RRoot ["q"; "t"] KAli (TStr ["m"; "x"]);      (* 4 = d *)
    OResolve 4;
    ODel Producer RRoot ["m"; "t"];
    ODel Producer RRoot ["q"; "t"];
    OSet Producer RRoot ["m"; "t"] 4;       (* d comes back at m.t: its entry under q.t stays behind *)
    ODel Producer RRoot ["m"; "t"];
    OSet Producer RRoot ["m"; "t"] 3;       (* a comes back at m.t *)
    ONew Producer RRoot ["m"; "x"] KFun TNone ].                (* m.x is replaced: a AND the dead d are re-targeted *)

Theorem backref_clobbered_refuted : known_gap witness_F3 = true /\ ~ Backref (run init witness_F3).
Proof.
  split; [destruct ab; vm_compute; reflexivity|].
  intro HB.
  assert (G : get (run init witness_F3) RRoot ["m"; "t"] = Ok 3) by (destruct ab; vm_compute; reflexivity).
  destruct (getn (run init witness_F3) 3) as [n|] eqn:Gn; [|destruct ab; vm_compute in Gn; discriminate].
  assert (T : ntarget n = Some 5) by (destruct ab; vm_compute in Gn; inversion Gn; reflexivity).
  destruct (HB _ _ _ _ G Gn T) as [_ [tn [Gt Lk]]].
  destruct ab; vm_compute in Gt; inversion Gt; subst tn; vm_compute in Lk; discriminate.
Qed.

End Flag.

(* ================================================================ N. finding C16-F2: which path a followed alias records *)

(* "following the replacement" includes naming it: after a set_member replacement through a live receiver, the
   target_path of every alias of the tree that pointed at the replaced member is the path of the new member *)
Definition TPathFollows (ab0 : bool) : Prop := forall s r p k t s' c key m,
  Inv s -> C16_tree.step ab0 s (ONew Producer r p k t) = (s', None) ->
  locate s r p = Ok (c, key) -> get_at s c key = Ok m -> kind_of s m <> Some KAli -> recv_live s r = true ->
  forall q a n, get s RRoot q = Ok a -> getn s a = Some n -> ntarget n = Some m ->
  exists n', getn s' a = Some n' /\ POk (ntpath n') = path_of s' (List.length (heap s)).

(* true when set_member attaches the new member before it re-targets the aliases ... *)
Theorem target_path_follows : TPathFollows true.
Proof.
  intros s r p k t s' c key m HI H Lc Gm Km Hl q a n Gq Ga Ta.
  destruct (alias_follows_replacement true s r p k t s' c key m HI H Lc Gm Km (fun _ => Hl) q a n Gq Ga Ta) as [n' [G [_ TP]]].
  exists n'. split; auto.
Qed.

(* ... and false in the other order: the alias records the bare name of the still detached object *)
Definition witness_F2_pre : list op :=
  [ ONew Producer RRoot ["m"] KMod TNone;
    ONew Producer RRoot ["m"; "f"] KFun TNone;
    ONew Producer RRoot ["m"; "al"] KAli (TStr ["m"; "f"]);
    OResolve 2 ].

Theorem target_path_follows_refuted : ~ TPathFollows false.
Proof.
  intro H.
  pose (s := C16_tree.run false init witness_F2_pre).
  pose (s' := fst (C16_tree.step false s (ONew Producer RRoot ["m"; "f"] KFun TNone))).
  assert (HI : Inv s) by (apply inv_reachable; vm_compute; reflexivity).
  assert (E : C16_tree.step false s (ONew Producer RRoot ["m"; "f"] KFun TNone) = (s', None)) by (vm_compute; reflexivity).
  destruct (getn s 2) as [n|] eqn:Gn; [|vm_compute in Gn; discriminate].
  assert (T : ntarget n = Some 1) by (vm_compute in Gn; inversion Gn; reflexivity).
  destruct (H s RRoot ["m"; "f"] KFun TNone s' (RObj 0) "f" 1 HI E) with (q := ["m"; "al"]) (a := 2) (n := n) as [n' [G TP]];
    try (vm_compute; reflexivity); try (vm_compute; discriminate); auto.
  vm_compute in G. inversion G; subst n'. vm_compute in TP. discriminate.
Qed.

Example witness_F2_target_path :
  option_map ntpath (getn (fst (C16_tree.step false (C16_tree.run false init witness_F2_pre) (ONew Producer RRoot ["m"; "f"] KFun TNone))) 2) = Some ["f"] /\
  option_map ntpath (getn (fst (C16_tree.step true (C16_tree.run true init witness_F2_pre) (ONew Producer RRoot ["m"; "f"] KFun TNone))) 2) = Some ["m"; "f"].
Proof. vm_compute. split; reflexivity. Qed.
