(* C15 proofs: static loading executes nothing; compiled modules are skipped; sys.path is restored for every world
   (= every placement of failing imports); failures surface as ImportError / LoadingError, never SystemExit. *)
From Coq Require Import List ZArith String Ascii Bool Arith Lia.
From Verif Require Import Lib.Sexp Model.C15_base Gen.C15_ladder Model.C15_loader.
Import ListNotations.
Open Scope string_scope. Open Scope list_scope. Open Scope nat_scope.

Arguments rewrap : simpl never.
Arguments caught_by : simpl never.
Arguments str_in : simpl never.

(* ================================================================== A. the generated tables *)

Lemma ladder_never_inspects_when_disallowed :
  forall is_list sfx, agent_ladder is_list false false sfx <> AInspect.
Proof.
  intros l sfx. unfold agent_ladder.
  destruct l; try discriminate.
  repeat match goal with |- context [if ?c then _ else _] => destruct c end; discriminate.
Qed.

Lemma static_file_agent :
  forall sfx, agent_ladder false false false sfx = AVisit \/ agent_ladder false false false sfx = ARaise XLoadingError.
Proof.
  intros sfx. unfold agent_ladder.
  repeat match goal with |- context [if ?c then _ else _] => destruct c end; auto.
Qed.

Lemma compiled_agent :
  forall sfx, source_suffix sfx = false -> agent_ladder false false false sfx = ARaise XLoadingError.
Proof.
  intros sfx H. unfold agent_ladder, source_suffix in *. rewrite H. reflexivity.
Qed.

Lemma source_agent :
  forall sfx allow, source_suffix sfx = true -> agent_ladder false false allow sfx = AVisit.
Proof.
  intros sfx a H. unfold agent_ladder, source_suffix in *. rewrite H. reflexivity.
Qed.

Lemma forced_agent : forall sfx allow, agent_ladder false true allow sfx = AInspect.
Proof. reflexivity. Qed.

Lemma ladder_raises_loading_error :
  forall l f a sfx x, agent_ladder l f a sfx = ARaise x -> x = XLoadingError.
Proof.
  intros l f a sfx x. unfold agent_ladder.
  repeat match goal with |- context [if ?c then _ else _] => destruct c end; intro H; try discriminate; inversion H; reflexivity.
Qed.

Lemma not_found_static : not_found_reraises false false = true.
Proof. reflexivity. Qed.

Lemma not_found_dynamic : forall a f, (a || f) = true -> not_found_reraises a f = false.
Proof. intros a f H. unfold not_found_reraises. rewrite H. reflexivity. Qed.

Lemma import_attempt_catches_all : forall x, caught_by import_attempt_catches x = true.
Proof. destruct x; reflexivity. Qed.

Lemma getattr_catches_all : forall x, caught_by getattr_catches x = true.
Proof. destruct x; reflexivity. Qed.

Lemma exhausted_is_importerror : exhausted_raises = XImportError.
Proof. reflexivity. Qed.
Lemma getattr_is_importerror : getattr_raises = XImportError.
Proof. reflexivity. Qed.
Lemma ignored_is_importerror : ignored_raises = XImportError.
Proof. reflexivity. Qed.

Lemma loading_error_is_skipped : caught_by load_submodule_catches XLoadingError = true.
Proof. reflexivity. Qed.
Lemma loading_error_rewrap : rewrap load_module_handlers XLoadingError = XLoadingError.
Proof. reflexivity. Qed.
Lemma import_error_wrapped : rewrap load_module_handlers XImportError = XLoadingError.
Proof. reflexivity. Qed.
Lemma unicode_wrapped : rewrap load_module_handlers XUnicodeDecode = XLoadingError.
Proof. reflexivity. Qed.
Lemma vfault_wrapped : forall v, rewrap load_module_handlers (vfault_exn v) = XLoadingError.
Proof. destruct v; reflexivity. Qed.
Lemma system_exit_mapped : rewrap inspect_module_handlers XSystemExit = XImportError.
Proof. reflexivity. Qed.
Lemma import_error_kept : rewrap inspect_module_handlers XImportError = XImportError.
Proof. reflexivity. Qed.
Lemma inspect_rewrap_no_exit : forall y, rewrap inspect_module_handlers y <> XSystemExit.
Proof. destruct y; vm_compute; discriminate. Qed.
Lemma load_rewrap_no_exit : forall y, y <> XSystemExit -> rewrap load_module_handlers y <> XSystemExit.
Proof. destruct y; vm_compute; intros H; try discriminate; exact H. Qed.
Lemma reentry_swallows_import_family : forall x, import_family x = true -> caught_by reentry_catches x = true.
Proof. destruct x; intro H; try discriminate H; reflexivity. Qed.

(* re-entry never happens with resolve_external=False, and always passes try_relative_path=False *)
Lemma no_reentry_when_external_false :
  forall sib fl sm ld, alias_reentry_gate (Some false) sib fl sm ld = false /\ wildcard_reentry_skip (Some false) sib = true.
Proof. intros. split; destruct sib, fl, sm, ld; reflexivity. Qed.

Lemma default_reentry_only_private_sibling :
  forall fl sm ld, alias_reentry_gate None false fl sm ld = false /\ wildcard_reentry_skip None false = true.
Proof. intros. split; destruct fl, sm, ld; reflexivity. Qed.

Lemma reentry_is_by_name : reentry_try_relative_path = false.
Proof. reflexivity. Qed.

(* ================================================================== B. static loading touches nothing *)

(* everything but the log of visit / create / skip events is unchanged *)
Definition quiet (s s' : st) : Prop :=
  cur s' = cur s /\ next s' = next s /\ heap s' = heap s /\ mods s' = mods s /\
  executions s' = executions s /\ inspections s' = inspections s.

Lemma quiet_refl : forall s, quiet s s.
Proof. intros; repeat split. Qed.

Lemma quiet_trans : forall a b c, quiet a b -> quiet b c -> quiet a c.
Proof.
  unfold quiet. intros a b c (H1 & H2 & H3 & H4 & H5 & H6) (K1 & K2 & K3 & K4 & K5 & K6).
  repeat split; congruence.
Qed.

Lemma quiet_log : forall e s, is_exec e = false -> is_inspect e = false -> quiet s (log_ev e s).
Proof.
  intros e s He Hi. unfold quiet, executions, inspections, log_ev. simpl. rewrite He, Hi. repeat split.
Qed.

Lemma load_module_static :
  forall w search f s,
    quiet s (snd (load_module w false false search f s)) /\
    (fst (load_module w false false search f s) = None \/ fst (load_module w false false search f s) = Some XLoadingError).
Proof.
  intros w search f s. unfold load_module.
  destruct (static_file_agent (m_suffix f)) as [H | H]; rewrite H; simpl.
  - split. { apply quiet_log; reflexivity. }
    destruct (m_vfault f) as [v |]; simpl; [right; rewrite vfault_wrapped; reflexivity | left; reflexivity].
  - split. { apply quiet_refl. } right. reflexivity.
Qed.

Lemma load_subs_static :
  forall w search ns subs loaded s,
    quiet s (snd (load_subs w false false search ns subs loaded s)) /\ fst (load_subs w false false search ns subs loaded s) = None.
Proof.
  intros w search ns subs. induction subs as [| f r IH]; intros loaded s; simpl.
  - split; [apply quiet_refl | reflexivity].
  - destruct (negb ns && negb (mem_name (removelast (m_name f)) loaded)).
    { destruct (IH loaded (log_ev (EvOrphan (m_name f) (m_suffix f)) s)) as [Hq' Hr'].
      split; [| exact Hr']. eapply quiet_trans; [| exact Hq']. apply quiet_log; reflexivity. }
    destruct (load_module_static w search f s) as [Hq Hr].
    destruct (load_module w false false search f s) as [res s1]. simpl in *.
    destruct Hr as [Hr | Hr]; subst res.
    + destruct (IH (m_name f :: loaded) s1) as [Hq' Hr']. split; [eapply quiet_trans; eauto | exact Hr'].
    + rewrite loading_error_is_skipped.
      destruct (IH loaded (log_ev (EvSkip (m_name f) (m_suffix f)) s1)) as [Hq' Hr'].
      split; [| exact Hr'].
      eapply quiet_trans; [exact Hq |]. eapply quiet_trans; [| exact Hq']. apply quiet_log; reflexivity.
Qed.

(* [Q] collects the possible outcomes; the nested phase [np] is assumed quiet with outcomes in Q *)
Lemma load_package_with_static :
  forall (Q : option exn -> Prop) np w sm search top subs stubs s,
    Q None -> Q (Some XLoadingError) ->
    (forall s0, quiet s0 (snd (np s0)) /\ Q (fst (np s0))) ->
    quiet s (snd (load_package_with np w false false sm search top subs stubs s)) /\
    Q (fst (load_package_with np w false false sm search top subs stubs s)).
Proof.
  intros Q np w sm search top subs stubs s Q0 Q1 Hnp. unfold load_package_with.
  destruct (load_module_static w search top s) as [Hq Hr].
  destruct (load_module w false false search top s) as [res s1]. simpl in *.
  destruct Hr as [Hr | Hr]; subst res; [| split; [exact Hq | exact Q1]].
  assert (Hs : exists s2, (if sm then load_subs w false false search false subs [m_name top] s1 else (None, s1)) = (None, s2) /\ quiet s1 s2).
  { destruct sm.
    - destruct (load_subs_static w search false subs [m_name top] s1) as [Hq' Hr'].
      destruct (load_subs w false false search false subs [m_name top] s1) as [r2 s2]. simpl in *. subst r2. eauto.
    - exists s1. split; [reflexivity | apply quiet_refl]. }
  destruct Hs as (s2 & Es & Hq2). rewrite Es.
  destruct stubs as [[st_top st_subs] |]; [| split; [eapply quiet_trans; eauto | exact Q0]].
  destruct (Hnp s2) as [Hqn Hrn].
  destruct (np s2) as [rn s2']. simpl in *.
  assert (Hq2' : quiet s s2'). { eapply quiet_trans; [exact Hq |]. eapply quiet_trans; [exact Hq2 | exact Hqn]. }
  destruct rn as [x |]; [split; [exact Hq2' | exact Hrn] |].
  destruct (load_module_static w search st_top s2') as [Hq3 Hr3].
  destruct (load_module w false false search st_top s2') as [r3 s3]. simpl in *.
  destruct Hr3 as [Hr3 | Hr3]; subst r3.
  - destruct sm.
    + destruct (load_subs_static w search false st_subs [m_name st_top] s3) as [Hq4 Hr4].
      split; [| rewrite Hr4; exact Q0].
      eapply quiet_trans; [exact Hq2' |]. eapply quiet_trans; [exact Hq3 | exact Hq4].
    + split; [| exact Q0]. eapply quiet_trans; [exact Hq2' | exact Hq3].
  - split; [| exact Q1]. eapply quiet_trans; [exact Hq2' | exact Hq3].
Qed.

Lemma load_one_with_static :
  forall (Q : option exn -> Prop) np w sm search req s,
    Q None -> Q (Some XLoadingError) -> Q (Some XModuleNotFound) ->
    (forall e, find_pkg (w_find w) req = FFinderError e -> Q (Some (ferr_exn e))) ->
    (forall s0, quiet s0 (snd (np s0)) /\ Q (fst (np s0))) ->
    quiet s (snd (load_one_with np w false false sm search req s)) /\ Q (fst (load_one_with np w false false sm search req s)).
Proof.
  intros Q np w sm search req s Q0 Q1 Q2 Q3 Hnp. unfold load_one_with.
  match goal with |- context [let (r, s') := ?X in _] =>
    assert (H : quiet s (snd X) /\ Q (fst X)); [| destruct X as [r s']; simpl in *; destruct H as [Hq Hr]; split; [| exact Hr];
      eapply quiet_trans; [exact Hq | apply quiet_log; reflexivity]] end.
  destruct (find_pkg (w_find w) req) as [top subs stubs | n subs | via | e].
  - apply load_package_with_static; assumption.
  - destruct sm.
    + destruct (load_subs_static w search true subs [n] (log_ev (EvCreate n) s)) as [Hq Hr]. split; [| rewrite Hr; exact Q0].
      eapply quiet_trans; [| exact Hq]. apply quiet_log; reflexivity.
    + simpl. split; [apply quiet_log; reflexivity | exact Q0].
  - rewrite not_found_static. simpl. split; [apply quiet_refl | exact Q2].
  - simpl. split; [apply quiet_refl | apply Q3; reflexivity].
Qed.

(* outcomes of a static load of [req] *)
Definition static_result (w : world) (req : string) (r : option exn) : Prop :=
  r = None \/ r = Some XLoadingError \/ r = Some XModuleNotFound \/
  exists e, r = Some (ferr_exn e) /\ find_pkg (w_find w) req = FFinderError e.

Lemma load_one_static :
  forall w sm search req s,
    quiet s (snd (load_one w false false sm search req s)) /\ static_result w req (fst (load_one w false false sm search req s)).
Proof.
  intros w sm search req s. unfold load_one.
  apply (load_one_with_static (static_result w req)); unfold static_result; auto.
  - intros e He. right. right. right. exists e. split; [reflexivity | exact He].
  - intros s0. split; [apply quiet_refl | left; reflexivity].
Qed.

Lemma reentries_static :
  forall w search reqs s, quiet s (snd (reentries w false false search reqs s)).
Proof.
  intros w search reqs. induction reqs as [| r rs IH]; intros s; simpl.
  - apply quiet_refl.
  - destruct (load_one_static w true search r s) as [Hq Hr].
    destruct (load_one w false false true search r s) as [res s1]. simpl in *.
    destruct res as [x |].
    + destruct (caught_by reentry_catches x); [eapply quiet_trans; [exact Hq | apply IH] | exact Hq].
    + eapply quiet_trans; [exact Hq | apply IH].
Qed.

Lemma load_root_static :
  forall w sm search nested root s, quiet s (snd (load_root w false false sm search nested root s)).
Proof.
  intros w sm search nested root s. unfold load_root.
  apply (load_one_with_static (fun _ => True)); auto.
  intros s0. split; [apply reentries_static | exact I].
Qed.

Theorem static_session_executes_nothing :
  forall w submodules search nested root reqs s r s',
    session w false false submodules search nested root reqs s = (r, s') ->
    executions s' = executions s /\ inspections s' = inspections s /\ mods s' = mods s /\
    cur s' = cur s /\ next s' = next s /\ heap s' = heap s.
Proof.
  intros w sm search nested root reqs s r s' H. unfold session in H.
  pose proof (load_root_static w sm search nested root s) as Hq.
  destruct (load_root w false false sm search nested root s) as [res s1]. simpl in Hq.
  assert (Q : quiet s s').
  { destruct res.
    - inversion H; subst. exact Hq.
    - pose proof (reentries_static w search reqs s1) as Hq2. rewrite H in Hq2. simpl in Hq2. eapply quiet_trans; eauto. }
  destruct Q as (H1 & H2 & H3 & H4 & H5 & H6). repeat split; assumption.
Qed.

Theorem static_root_result :
  forall w submodules search root s, static_result w root (fst (load_one w false false submodules search root s)).
Proof. intros. apply load_one_static. Qed.

(* ================================================================== C. compiled modules are skipped *)

Lemma load_module_compiled :
  forall w search f s, source_suffix (m_suffix f) = false -> load_module w false false search f s = (Some XLoadingError, s).
Proof.
  intros w search f s H. unfold load_module. rewrite (compiled_agent _ H). simpl. reflexivity.
Qed.

Theorem compiled_submodule_skipped :
  forall w search ns f subs loaded s,
    source_suffix (m_suffix f) = false ->
    (ns = true \/ mem_name (removelast (m_name f)) loaded = true) ->
    load_subs w false false search ns (f :: subs) loaded s =
    load_subs w false false search ns subs loaded (log_ev (EvSkip (m_name f) (m_suffix f)) s).
Proof.
  intros w search ns f subs loaded s H Hp. simpl.
  assert (E : negb ns && negb (mem_name (removelast (m_name f)) loaded) = false).
  { destruct Hp as [Hp | Hp]; rewrite Hp; [reflexivity | apply andb_false_r]. }
  rewrite E. rewrite (load_module_compiled w search f s H). rewrite loading_error_is_skipped. reflexivity.
Qed.

Theorem compiled_top_rejected :
  forall np w sm search top subs stubs s,
    source_suffix (m_suffix top) = false ->
    load_package_with np w false false sm search top subs stubs s = (Some XLoadingError, s).
Proof.
  intros. unfold load_package_with. rewrite (load_module_compiled w search top s H). reflexivity.
Qed.

(* with inspection allowed the same module is inspected (so the skip is the ladder's doing, not the file's) *)
Example compiled_inspected_when_allowed :
  forall sfx, source_suffix sfx = false -> agent_ladder false false true sfx = AInspect.
Proof. intros sfx H. unfold agent_ladder, source_suffix in *. rewrite H. reflexivity. Qed.

(* ================================================================== D. sys.path is restored *)

(* inside `with sys_path(...)`: sys.path is bound to a list object allocated at or after N *)
Definition good (N : nat) (s : st) : Prop := N <= cur s /\ cur s < next s.
(* list objects older than N are untouched, identities only grow *)
Definition frame (N : nat) (s s' : st) : Prop := next s <= next s' /\ forall i, i < N -> heap s' i = heap s i.

Lemma frame_refl : forall N s, frame N s s.
Proof. intros; split; auto. Qed.

Lemma frame_trans : forall N a b c, frame N a b -> frame N b c -> frame N a c.
Proof.
  intros N a b c [H1 H2] [K1 K2]. split; [lia |]. intros i Hi. rewrite K2, H2; auto.
Qed.

Lemma upd_other : forall h i v j, j <> i -> upd h i v j = h j.
Proof. intros h i v j H. unfold upd. destruct (Nat.eqb j i) eqn:E; [apply Nat.eqb_eq in E; contradiction | reflexivity]. Qed.

Lemma apply_effect_inner : forall N e s, good N s -> good N (apply_effect e s) /\ frame N s (apply_effect e s).
Proof.
  intros N e s [H1 H2]. destruct e; simpl; unfold mutate, rebind, good, frame; simpl;
    (split; [split; lia | split; [lia | intros i Hi; apply upd_other; lia]]).
Qed.

Lemma apply_effects_inner : forall N es s, good N s -> good N (apply_effects es s) /\ frame N s (apply_effects es s).
Proof.
  intros N es. unfold apply_effects. induction es as [| e r IH]; intros s G; simpl.
  - split; [exact G | apply frame_refl].
  - destruct (apply_effect_inner N e s G) as [G1 F1]. destruct (IH _ G1) as [G2 F2].
    split; [exact G2 | eapply frame_trans; eauto].
Qed.

Lemma import_prefixes_inner :
  forall N w rest pre s, good N s ->
    good N (snd (import_prefixes w pre rest s)) /\ frame N s (snd (import_prefixes w pre rest s)).
Proof.
  intros N w rest. induction rest as [| p r IH]; intros pre s G; simpl.
  - split; [exact G | apply frame_refl].
  - destruct (mem_name (pre ++ [p]) (mods s)); [apply IH; exact G |].
    destruct (lookup_beh (w_beh w) (pre ++ [p])) as [b |]; [| split; [exact G | apply frame_refl]].
    destruct (visible b (heap s (cur s))); [| split; [exact G | apply frame_refl]].
    set (s1 := if b_runs b then apply_effects (b_effects b) (log_ev (EvExec (pre ++ [p]) (heap s (cur s))) s) else s).
    assert (H1 : good N s1 /\ frame N s s1).
    { unfold s1. destruct (b_runs b); [| split; [exact G | apply frame_refl]].
      apply (apply_effects_inner N (b_effects b) (log_ev (EvExec (pre ++ [p]) (heap s (cur s))) s)). exact G. }
    destruct H1 as [G1 F1].
    destruct (b_fault b); simpl; [split; assumption |].
    destruct (IH (pre ++ [p]) (add_mod (pre ++ [p]) s1)) as [G2 F2]; [exact G1 |].
    split; [exact G2 | eapply frame_trans; [exact F1 | exact F2]].
Qed.

Lemma dyn_attempts_inner :
  forall N w rp objs s, good N s ->
    good N (snd (dyn_attempts w rp objs s)) /\ frame N s (snd (dyn_attempts w rp objs s)).
Proof.
  intros N w rp. induction rp as [| l r IH]; intros objs s G; simpl.
  - split; [exact G | apply frame_refl].
  - unfold import_module.
    destruct (import_prefixes_inner N w (rev r ++ [l]) [] s G) as [G1 F1].
    destruct (import_prefixes w [] (rev r ++ [l]) s) as [res s1]. simpl in *.
    destruct res as [x |]; simpl; [| split; assumption].
    destruct (caught_by import_attempt_catches x); simpl; [| split; assumption].
    destruct (IH (l :: objs) s1 G1) as [G2 F2]. split; [exact G2 | eapply frame_trans; eauto].
Qed.

(* the interpreter outside any `with sys_path`: same binding, older list objects untouched *)
Definition stable (s s' : st) : Prop :=
  cur s' = cur s /\ next s <= next s' /\ forall i, i < next s -> heap s' i = heap s i.

Lemma stable_refl : forall s, stable s s.
Proof. intros; repeat split; auto. Qed.

Lemma stable_wf : forall s s', wf s -> stable s s' -> wf s'.
Proof. unfold wf, stable. intros s s' H (H1 & H2 & _). lia. Qed.

Lemma stable_trans : forall a b c, stable a b -> stable b c -> stable a c.
Proof.
  unfold stable. intros a b c (H1 & H2 & H3) (K1 & K2 & K3). repeat split; try lia.
  intros i Hi. rewrite K3, H3; auto; lia.
Qed.

Lemma stable_log_l : forall e s s', stable (log_ev e s) s' -> stable s s'.
Proof. intros e s s' H. exact H. Qed.

Lemma stable_log_r : forall e s, stable s (log_ev e s).
Proof. intros. unfold stable. simpl. repeat split; auto. Qed.

Lemma wf_log : forall e s, wf s -> wf (log_ev e s).
Proof. intros e s H. exact H. Qed.

Lemma with_sys_path_stable :
  forall A paths (body : st -> (exn + A) * st) s,
    paths <> [] -> wf s ->
    (forall N s0, good N s0 -> good N (snd (body s0)) /\ frame N s0 (snd (body s0))) ->
    stable s (snd (with_sys_path paths body s)).
Proof.
  intros A paths body s Hp Hwf Hbody. unfold with_sys_path.
  destruct paths as [| p0 pr]; [contradiction |]. simpl.
  assert (G : good (next s) (rebind (p0 :: pr) s)). { unfold good, rebind; simpl. lia. }
  destruct (Hbody _ _ G) as [[G1 G2] [F1 F2]].
  destruct (body (rebind (p0 :: pr) s)) as [r s2]. simpl in *.
  assert (S : stable s (set_cur (cur s) s2)).
  { unfold stable, set_cur; simpl. repeat split; [lia |].
    intros i Hi. rewrite F2 by exact Hi. apply upd_other. lia. }
  destruct r; [| exact S].
  unfold sys_path_restores_on_exception. exact S.
Qed.

Lemma dynamic_import_stable :
  forall w n paths s, paths <> [] -> wf s -> stable s (snd (dynamic_import w n paths s)).
Proof.
  intros w n paths s Hp Hwf. unfold dynamic_import. apply with_sys_path_stable; auto.
  intros N s0 G. destruct (dyn_attempts_inner N w (rev n) [] s0 G) as [G1 F1].
  destruct (dyn_attempts w (rev n) [] s0) as [[x | [m objs]] s1]; simpl in *; split; assumption.
Qed.

Lemma mem_path_nonempty : forall p l, mem_path p l = true -> l <> [].
Proof. intros p l H E. subst. discriminate. Qed.

Lemma import_paths_nonempty :
  forall n file search, (file <> None \/ search <> []) -> import_paths_for n file search <> [].
Proof.
  intros n file search H. unfold import_paths_for. destruct file as [f |].
  - destruct (mem_path _ search) eqn:E; [eapply mem_path_nonempty; eauto | discriminate].
  - destruct H as [H | H]; [contradiction | exact H].
Qed.

Lemma inspect_call_stable :
  forall w n file search s, (file <> None \/ search <> []) -> wf s -> stable s (snd (inspect_call w n file search s)).
Proof.
  intros w n file search s H Hwf. unfold inspect_call.
  pose proof (dynamic_import_stable w n _ s (import_paths_nonempty n file search H) Hwf) as S.
  destruct (dynamic_import w n (import_paths_for n file search) s) as [[x | v] s1]; exact S.
Qed.

Lemma inspect_module_stable :
  forall w n file search s, (file <> None \/ search <> []) -> wf s -> stable s (snd (inspect_module w n file search s)).
Proof.
  intros w n file search s H Hwf. unfold inspect_module.
  destruct (ignored n); [apply stable_refl |].
  pose proof (inspect_call_stable w n file search s H Hwf) as S.
  destruct file as [f |].
  - destruct (m_vfault f) as [[|] |].
    + destruct (inspect_call w n (Some f) search s); exact S.
    + destruct (source_suffix (m_suffix f)); [apply stable_refl |]. destruct (inspect_call w n (Some f) search s); exact S.
    + destruct (inspect_call w n (Some f) search s); exact S.
  - destruct (inspect_call w n None search s); exact S.
Qed.

Lemma load_module_stable :
  forall w allow force search f s, wf s -> stable s (snd (load_module w allow force search f s)).
Proof.
  intros w a fo search f s Hwf. unfold load_module.
  destruct (agent_ladder false fo a (m_suffix f)); simpl.
  - apply stable_log_r.
  - apply stable_log_r.
  - pose proof (inspect_module_stable w (m_name f) (Some f) search (log_ev (EvInspect (m_name f) (m_suffix f)) s)) as S.
    destruct (inspect_module w (m_name f) (Some f) search (log_ev (EvInspect (m_name f) (m_suffix f)) s)) as [r s1]. simpl in *.
    eapply stable_log_l. apply S; [left; discriminate | exact Hwf].
  - apply stable_refl.
Qed.

Lemma load_subs_stable :
  forall w allow force search ns subs loaded s, wf s -> stable s (snd (load_subs w allow force search ns subs loaded s)).
Proof.
  intros w a fo search ns subs. induction subs as [| f r IH]; intros loaded s Hwf; simpl.
  - apply stable_refl.
  - destruct (negb ns && negb (mem_name (removelast (m_name f)) loaded)).
    { eapply stable_log_l. apply (IH loaded (log_ev (EvOrphan (m_name f) (m_suffix f)) s)). exact Hwf. }
    pose proof (load_module_stable w a fo search f s Hwf) as S.
    destruct (load_module w a fo search f s) as [res s1]. simpl in S.
    pose proof (stable_wf _ _ Hwf S) as Hwf1.
    destruct res as [x |].
    + destruct (caught_by load_submodule_catches x); [| exact S].
      eapply stable_trans; [exact S |]. eapply stable_log_l. apply (IH loaded (log_ev (EvSkip (m_name f) (m_suffix f)) s1)). exact Hwf1.
    + eapply stable_trans; [exact S | apply IH; exact Hwf1].
Qed.

Lemma load_package_with_stable :
  forall np w allow force sm search top subs stubs s,
    (forall s0, wf s0 -> stable s0 (snd (np s0))) -> wf s ->
    stable s (snd (load_package_with np w allow force sm search top subs stubs s)).
Proof.
  intros np w a fo sm search top subs stubs s Hnp Hwf. unfold load_package_with.
  pose proof (load_module_stable w a fo search top s Hwf) as S1.
  destruct (load_module w a fo search top s) as [r1 s1]. simpl in S1.
  destruct r1; [exact S1 |].
  pose proof (stable_wf _ _ Hwf S1) as Hwf1.
  assert (S2 : stable s1 (snd (if sm then load_subs w a fo search false subs [m_name top] s1 else (None, s1)))).
  { destruct sm; [apply load_subs_stable; exact Hwf1 | apply stable_refl]. }
  destruct (if sm then load_subs w a fo search false subs [m_name top] s1 else (None, s1)) as [r2 s2]. simpl in S2.
  pose proof (stable_trans _ _ _ S1 S2) as S12.
  destruct r2; [exact S12 |].
  pose proof (stable_wf _ _ Hwf S12) as Hwf2.
  destruct stubs as [[st_top st_subs] |]; [| exact S12].
  pose proof (Hnp s2 Hwf2) as Sn.
  destruct (np s2) as [rn s2']. simpl in Sn.
  pose proof (stable_trans _ _ _ S12 Sn) as S12n.
  destruct rn; [exact S12n |].
  pose proof (stable_wf _ _ Hwf S12n) as Hwf2'.
  pose proof (load_module_stable w a fo search st_top s2' Hwf2') as S3.
  destruct (load_module w a fo search st_top s2') as [r3 s3]. simpl in S3.
  pose proof (stable_trans _ _ _ S12n S3) as S123.
  destruct r3; [exact S123 |].
  destruct sm; [| exact S123].
  eapply stable_trans; [exact S123 |]. apply load_subs_stable. eapply stable_wf; eauto.
Qed.

Lemma load_one_with_stable :
  forall np w allow force sm search req s,
    (forall s0, wf s0 -> stable s0 (snd (np s0))) -> search <> [] -> wf s ->
    stable s (snd (load_one_with np w allow force sm search req s)).
Proof.
  intros np w a fo sm search req s Hnp Hs Hwf. unfold load_one_with.
  match goal with |- context [let (r, s') := ?X in _] =>
    assert (H : stable s (snd X)); [| destruct X as [r s']; simpl in *; eapply stable_trans; [exact H | apply stable_log_r]] end.
  destruct (find_pkg (w_find w) req) as [top subs stubs | n subs | via | e].
  - apply load_package_with_stable; assumption.
  - destruct sm; [| apply stable_log_r].
    eapply stable_log_l. apply (load_subs_stable w a fo search true subs [n] (log_ev (EvCreate n) s)). exact Hwf.
  - destruct (not_found_reraises a fo); [apply stable_refl |].
    pose proof (dynamic_import_stable w [req] search s Hs Hwf) as S1.
    destruct (dynamic_import w [req] search s) as [[x | v] s1]; simpl in S1; [exact S1 |].
    pose proof (stable_wf _ _ Hwf S1) as Hwf1.
    destruct via as [[top subs] |].
    + eapply stable_trans; [exact S1 | apply load_package_with_stable; assumption].
    + eapply stable_trans; [exact S1 |]. eapply stable_log_l.
      apply (inspect_module_stable w [req] None search (log_ev (EvInspect [req] "") s1)); [right; exact Hs | exact Hwf1].
  - apply stable_refl.
Qed.

Lemma no_nested_stable : forall s0, wf s0 -> stable s0 (snd (no_nested s0)).
Proof. intros. apply stable_refl. Qed.

Lemma reentries_stable :
  forall w allow force search reqs s, search <> [] -> wf s -> stable s (snd (reentries w allow force search reqs s)).
Proof.
  intros w a fo search reqs. induction reqs as [| r rs IH]; intros s Hs Hwf; simpl.
  - apply stable_refl.
  - pose proof (load_one_with_stable no_nested w a fo true search r s no_nested_stable Hs Hwf) as S.
    fold (load_one w a fo true search r s) in S.
    destruct (load_one w a fo true search r s) as [res s1]. simpl in S.
    pose proof (stable_wf _ _ Hwf S) as Hwf1.
    destruct res as [x |].
    + destruct (caught_by reentry_catches x); [| exact S]. eapply stable_trans; [exact S | apply IH; assumption].
    + eapply stable_trans; [exact S | apply IH; assumption].
Qed.

Theorem sys_path_restored :
  forall w allow force submodules search nested root reqs s r s',
    wf s -> search <> [] ->
    session w allow force submodules search nested root reqs s = (r, s') ->
    cur s' = cur s /\ heap s' (cur s) = heap s (cur s).
Proof.
  intros w a fo sm search nested root reqs s r s' Hwf Hs H. unfold session, load_root in H.
  assert (Hn : forall s0, wf s0 -> stable s0 (snd (reentries w a fo search nested s0))).
  { intros s0 H0. apply reentries_stable; assumption. }
  pose proof (load_one_with_stable _ w a fo sm search root s Hn Hs Hwf) as S1.
  destruct (load_one_with (reentries w a fo search nested) w a fo sm search root s) as [res s1]. simpl in S1.
  assert (S : stable s s').
  { destruct res.
    - inversion H; subst. exact S1.
    - pose proof (reentries_stable w a fo search reqs s1 Hs (stable_wf _ _ Hwf S1)) as S2.
      rewrite H in S2. simpl in S2. eapply stable_trans; eauto. }
  destruct S as (C & _ & Hh). split; [exact C | apply Hh; exact Hwf].
Qed.

(* a package found on disk needs no assumption on the search paths: the import path always holds its parent directory *)
Theorem sys_path_restored_found_package :
  forall w allow force submodules search top subs stubs s r s',
    wf s -> load_package_with no_nested w allow force submodules search top subs stubs s = (r, s') ->
    cur s' = cur s /\ heap s' (cur s) = heap s (cur s).
Proof.
  intros w a fo sm search top subs stubs s r s' Hwf H.
  pose proof (load_package_with_stable no_nested w a fo sm search top subs stubs s no_nested_stable Hwf) as S. rewrite H in S. simpl in S.
  destruct S as (C & _ & Hh). split; [exact C | apply Hh; exact Hwf].
Qed.

(* the hypothesis `search <> []` is needed: sys_path() without paths is a no-op, so what the imported code does to
   sys.path stays (reachable only when both search_paths and sys.path are empty when the loader is built) *)
Example empty_search_paths_do_not_restore :
  exists w root s r s',
    wf s /\ session w true false true [] [] root [] s = (r, s') /\ heap s' (cur s) <> heap s (cur s).
Proof.
  exists (mkWorld [] [(["m"], mkBeh None true [EIns0 ["evil"]] None)] [] []), "m", (init_state []).
  eexists. eexists. split; [unfold wf; simpl; lia |]. split; [vm_compute; reflexivity |]. vm_compute. discriminate.
Qed.

(* non-vacuity: a world in which an inspected submodule rebinds and mutates sys.path, then raises SystemExit *)
Example restore_exercised :
  let f := mkMod ["p"; "a"] ["sp"; "p"] "a" ".py" None in
  let top := mkMod ["p"] ["sp"; "p"] "__init__" ".py" None in
  let w := mkWorld [("p", FPkg top [f] None)]
                   [(["p"], mkBeh (Some ["sp"]) true [EIns0 ["x"]] None);
                    (["p"; "a"], mkBeh None true [ERebind [["y"]]; EApp ["z"]] (Some XSystemExit))] [] [] in
  let '(r, s') := session w true true true [["sp"]] [] "p" [] (init_state [["orig"]]) in
  r = None /\ cur s' = 0 /\ heap s' 0 = [["orig"]] /\ List.length (executions s') = 2 /\ next s' = 4.
Proof. vm_compute. repeat split. Qed.

(* ================================================================== E. failures are ImportError / LoadingError *)

Lemma with_sys_path_fst :
  forall A paths (body : st -> (exn + A) * st) s,
    exists s0, fst (with_sys_path paths body s) = fst (body s0).
Proof.
  intros A paths body s. unfold with_sys_path.
  destruct (is_nil paths && sys_path_noop_when_empty); [exists s; reflexivity |].
  exists (rebind paths s). destruct (body (rebind paths s)) as [[x | v] s2]; reflexivity.
Qed.

Lemma dyn_attempts_err : forall w rp objs s x, fst (dyn_attempts w rp objs s) = inl x -> x = XImportError.
Proof.
  intros w rp. induction rp as [| l r IH]; intros objs s x; simpl.
  - intro H. inversion H. apply exhausted_is_importerror.
  - destruct (import_module w (rev r ++ [l]) s) as [[y |] s1]; simpl.
    + rewrite import_attempt_catches_all. apply IH.
    + discriminate.
Qed.

Lemma getattrs_err : forall w parts owner x, getattrs w owner parts = inl x -> x = XImportError.
Proof.
  intros w parts. induction parts as [| p r IH]; intros owner x; simpl.
  - discriminate.
  - destruct (lookup_attr (w_attr w) owner p) as [[y |] |].
    + rewrite getattr_catches_all. intro H. inversion H. apply getattr_is_importerror.
    + apply IH.
    + try rewrite getattr_catches_all. intro H. inversion H. apply getattr_is_importerror.
Qed.

Lemma dynamic_import_err : forall w n paths s x, fst (dynamic_import w n paths s) = inl x -> x = XImportError.
Proof.
  intros w n paths s x. unfold dynamic_import.
  destruct (with_sys_path_fst name paths
              (fun s0 => match dyn_attempts w (rev n) [] s0 with
                         | (inl x, s1) => (inl x, s1)
                         | (inr (m, objs), s1) => (getattrs w m objs, s1)
                         end) s) as [s0 E].
  rewrite E. clear E.
  pose proof (dyn_attempts_err w (rev n) [] s0) as D.
  destruct (dyn_attempts w (rev n) [] s0) as [[y | [m objs]] s1]; simpl in *.
  - intro H. inversion H. subst. apply D. reflexivity.
  - apply getattrs_err.
Qed.

(* the part of the fault alphabet the property speaks about: walking the imported object may exit, nothing else *)
Definition walk_exit_only (w : world) : Prop := forall n x, lookup_walk (w_walk w) n = Some x -> x = XSystemExit.

Lemma inspect_call_err :
  forall w n file search s x, fst (inspect_call w n file search s) = Some x ->
    x = XImportError \/ lookup_walk (w_walk w) (match fst (dynamic_import w n (import_paths_for n file search) s) with inr v => v | inl _ => [] end) = Some x.
Proof.
  intros w n file search s x. unfold inspect_call.
  pose proof (dynamic_import_err w n (import_paths_for n file search) s) as D.
  destruct (dynamic_import w n (import_paths_for n file search) s) as [[y | v] s1]; simpl in *.
  - intro H. inversion H. subst. left. apply D. reflexivity.
  - intro H. right. exact H.
Qed.

Lemma inspect_module_err :
  forall w n file search s x, walk_exit_only w ->
    fst (inspect_module w n file search s) = Some x -> x = XImportError \/ (x = XUnicodeDecode /\ file <> None).
Proof.
  intros w n file search s x Hw. unfold inspect_module.
  assert (K : forall r (s1 : st), fst (inspect_call w n file search s) = r ->
                fst (option_map (rewrap inspect_module_handlers) r, s1) = Some x -> x = XImportError).
  { intros r s1 Er. simpl. destruct r as [y |]; simpl; [| discriminate].
    intro H. inversion H. subst x.
    destruct (inspect_call_err w n file search s y Er) as [E | E].
    - subst y. apply import_error_kept.
    - apply Hw in E. subst y. apply system_exit_mapped. }
  destruct (ignored n).
  { simpl. intro H. inversion H. left. apply ignored_is_importerror. }
  destruct file as [f |].
  - destruct (m_vfault f) as [[|] |].
    + destruct (inspect_call w n (Some f) search s) as [r s1] eqn:E. intro H. left. apply (K r s1); [reflexivity | exact H].
    + destruct (source_suffix (m_suffix f)).
      * simpl. intro H. inversion H. right. split; [reflexivity | discriminate].
      * destruct (inspect_call w n (Some f) search s) as [r s1] eqn:E. intro H. left. apply (K r s1); [reflexivity | exact H].
    + destruct (inspect_call w n (Some f) search s) as [r s1] eqn:E. intro H. left. apply (K r s1); [reflexivity | exact H].
  - destruct (inspect_call w n None search s) as [r s1] eqn:E. intro H. left. apply (K r s1); [reflexivity | exact H].
Qed.

Lemma load_module_err :
  forall w allow force search f s x, walk_exit_only w ->
    fst (load_module w allow force search f s) = Some x -> x = XLoadingError.
Proof.
  intros w a fo search f s x Hw. unfold load_module.
  destruct (agent_ladder false fo a (m_suffix f)) as [| | | y] eqn:L; simpl.
  - discriminate.
  - destruct (m_vfault f) as [v |]; simpl; [| discriminate]. intro H. inversion H. apply vfault_wrapped.
  - pose proof (inspect_module_err w (m_name f) (Some f) search (log_ev (EvInspect (m_name f) (m_suffix f)) s)) as I.
    destruct (inspect_module w (m_name f) (Some f) search (log_ev (EvInspect (m_name f) (m_suffix f)) s)) as [r s1]. simpl in *.
    destruct r as [y |]; simpl; [| discriminate]. intro H. inversion H.
    destruct (I y Hw eq_refl) as [Ey | [Ey _]]; subst y; [apply import_error_wrapped | apply unicode_wrapped].
  - apply ladder_raises_loading_error in L. subst y. intro H. inversion H. apply loading_error_rewrap.
Qed.

Lemma load_subs_err :
  forall w allow force search ns subs loaded s, walk_exit_only w -> fst (load_subs w allow force search ns subs loaded s) = None.
Proof.
  intros w a fo search ns subs loaded s Hw. revert loaded s. induction subs as [| f r IH]; intros loaded s; simpl; [reflexivity |].
  destruct (negb ns && negb (mem_name (removelast (m_name f)) loaded)); [apply IH |].
  pose proof (load_module_err w a fo search f s) as E.
  destruct (load_module w a fo search f s) as [res s1]. simpl in E.
  destruct res as [x |]; [| apply IH].
  rewrite (E x Hw eq_refl). rewrite loading_error_is_skipped. apply IH.
Qed.

Lemma load_package_with_err :
  forall np w allow force sm search top subs stubs s x, walk_exit_only w ->
    fst (load_package_with np w allow force sm search top subs stubs s) = Some x ->
    x = XLoadingError \/ exists s0, fst (np s0) = Some x.
Proof.
  intros np w a fo sm search top subs stubs s x Hw. unfold load_package_with.
  pose proof (load_module_err w a fo search top s) as E1.
  destruct (load_module w a fo search top s) as [r1 s1]. simpl in E1.
  destruct r1 as [y |]; simpl; [intro H; inversion H; subst; left; apply E1; auto |].
  assert (E2 : fst (if sm then load_subs w a fo search false subs [m_name top] s1 else (None, s1)) = None).
  { destruct sm; [apply load_subs_err; exact Hw | reflexivity]. }
  destruct (if sm then load_subs w a fo search false subs [m_name top] s1 else (None, s1)) as [r2 s2]. simpl in E2. subst r2.
  destruct stubs as [[st_top st_subs] |]; simpl; [| discriminate].
  destruct (np s2) as [rn s2'] eqn:En.
  destruct rn as [y |]; simpl.
  { intro H. inversion H. subst y. right. exists s2. rewrite En. reflexivity. }
  pose proof (load_module_err w a fo search st_top s2') as E3.
  destruct (load_module w a fo search st_top s2') as [r3 s3]. simpl in E3.
  destruct r3 as [y |]; simpl; [intro H; inversion H; subst; left; apply E3; auto |].
  destruct sm; simpl; [| discriminate].
  rewrite (load_subs_err w a fo search false st_subs [m_name st_top] s3 Hw). discriminate.
Qed.

Lemma load_one_with_err :
  forall np w allow force sm search req s x, walk_exit_only w ->
    fst (load_one_with np w allow force sm search req s) = Some x ->
    import_family x = true \/ (exists e, x = ferr_exn e /\ find_pkg (w_find w) req = FFinderError e) \/ exists s0, fst (np s0) = Some x.
Proof.
  intros np w a fo sm search req s x Hw. unfold load_one_with.
  match goal with |- context [let (r, s') := ?X in _] =>
    assert (H : fst X = Some x -> import_family x = true \/ (exists e, x = ferr_exn e /\ find_pkg (w_find w) req = FFinderError e) \/
                                  exists s0, fst (np s0) = Some x); [| destruct X as [r s']; simpl in *; exact H] end.
  destruct (find_pkg (w_find w) req) as [top subs stubs | n subs | via | e].
  - intro H. apply load_package_with_err in H; [| exact Hw]. destruct H as [H | H]; [subst; left; reflexivity | right; right; exact H].
  - destruct sm; simpl; [| discriminate].
    rewrite (load_subs_err w a fo search true subs [n] (log_ev (EvCreate n) s) Hw). discriminate.
  - destruct (not_found_reraises a fo); simpl.
    + intro H. inversion H. left. reflexivity.
    + pose proof (dynamic_import_err w [req] search s) as D.
      destruct (dynamic_import w [req] search s) as [[y | v] s1]; simpl in *.
      * intro H. inversion H. subst. rewrite (D x eq_refl). left. reflexivity.
      * destruct via as [[top subs] |].
        -- intro H. apply load_package_with_err in H; [| exact Hw].
           destruct H as [H | H]; [subst; left; reflexivity | right; right; exact H].
        -- intro H. apply inspect_module_err in H; [| exact Hw].
           destruct H as [H | [_ H]]; [subst; left; reflexivity | exfalso; apply H; reflexivity].
  - simpl. intro H. inversion H. right. left. exists e. split; reflexivity.
Qed.

Lemma load_one_err :
  forall w allow force sm search req s x, walk_exit_only w ->
    fst (load_one w allow force sm search req s) = Some x ->
    import_family x = true \/ (exists e, x = ferr_exn e /\ find_pkg (w_find w) req = FFinderError e).
Proof.
  intros w a fo sm search req s x Hw H. unfold load_one in H.
  apply load_one_with_err in H; [| exact Hw].
  destruct H as [H | [H | [s0 H]]]; [left; exact H | right; exact H | discriminate H].
Qed.

(* what escapes a sequence of re-entrant loads is never in the import family (that is swallowed): it is what the finder raised *)
Lemma reentries_err :
  forall w allow force search reqs s x, walk_exit_only w ->
    fst (reentries w allow force search reqs s) = Some x ->
    exists q e, In q reqs /\ x = ferr_exn e /\ find_pkg (w_find w) q = FFinderError e.
Proof.
  intros w a fo search reqs s x Hw. revert s. induction reqs as [| r rs IH]; intros s; simpl; [discriminate |].
  pose proof (load_one_err w a fo true search r s) as E.
  destruct (load_one w a fo true search r s) as [res s1]. simpl in E.
  destruct res as [y |].
  - destruct (caught_by reentry_catches y) eqn:C.
    + intro H. destruct (IH _ H) as (q & e & Hin & Hx & Hf). exists q, e. auto.
    + simpl. intro H. inversion H. subst y.
      destruct (E x Hw eq_refl) as [F | [e [Hx Hf]]].
      * rewrite (reentry_swallows_import_family x F) in C. discriminate.
      * exists r, e. auto.
  - intro H. destruct (IH _ H) as (q & e & Hin & Hx & Hf). exists q, e. auto.
Qed.

Theorem failures_become_importerror :
  forall w allow force submodules search nested root s x,
    walk_exit_only w ->
    fst (load_root w allow force submodules search nested root s) = Some x ->
    import_family x = true \/
    exists q e, In q (root :: nested) /\ x = ferr_exn e /\ find_pkg (w_find w) q = FFinderError e.
Proof.
  intros w a fo sm search nested root s x Hw H. unfold load_root in H.
  apply load_one_with_err in H; [| exact Hw].
  destruct H as [H | [[e [Hx Hf]] | [s0 H]]].
  - left. exact H.
  - right. exists root, e. simpl. auto.
  - right. destruct (reentries_err _ _ _ _ _ _ _ Hw H) as (q & e & Hin & Hx & Hf). exists q, e. simpl. auto.
Qed.

(* whatever the walk raises: SystemExit never leaves load *)
Lemma inspect_module_no_exit :
  forall w n file search s, fst (inspect_module w n file search s) <> Some XSystemExit.
Proof.
  intros w n file search s. unfold inspect_module.
  assert (K : forall r (s1 : st), fst (option_map (rewrap inspect_module_handlers) r, s1) <> Some XSystemExit).
  { intros r s1. simpl. destruct r as [y |]; simpl; [| discriminate]. intro H. inversion H as [H']. revert H'. apply inspect_rewrap_no_exit. }
  destruct (ignored n). { simpl. rewrite ignored_is_importerror. discriminate. }
  destruct file as [f |].
  - destruct (m_vfault f) as [[|] |].
    + destruct (inspect_call w n (Some f) search s) as [r s1]. apply K.
    + destruct (source_suffix (m_suffix f)); [simpl; discriminate |]. destruct (inspect_call w n (Some f) search s) as [r s1]. apply K.
    + destruct (inspect_call w n (Some f) search s) as [r s1]. apply K.
  - destruct (inspect_call w n None search s) as [r s1]. apply K.
Qed.

Lemma load_module_no_exit :
  forall w allow force search f s, fst (load_module w allow force search f s) <> Some XSystemExit.
Proof.
  intros w a fo search f s. unfold load_module.
  destruct (agent_ladder false fo a (m_suffix f)) as [| | | y] eqn:L; simpl.
  - discriminate.
  - destruct (m_vfault f) as [v |]; simpl; [| discriminate]. rewrite vfault_wrapped. discriminate.
  - pose proof (inspect_module_no_exit w (m_name f) (Some f) search (log_ev (EvInspect (m_name f) (m_suffix f)) s)) as I.
    destruct (inspect_module w (m_name f) (Some f) search (log_ev (EvInspect (m_name f) (m_suffix f)) s)) as [r s1]. simpl in *.
    destruct r as [y |]; simpl; [| discriminate]. intro H. inversion H as [H'].
    revert H'. apply load_rewrap_no_exit. intro E. subst y. apply I. reflexivity.
  - apply ladder_raises_loading_error in L. subst y. rewrite loading_error_rewrap. discriminate.
Qed.

Lemma load_subs_no_exit :
  forall w allow force search ns subs loaded s, fst (load_subs w allow force search ns subs loaded s) <> Some XSystemExit.
Proof.
  intros w a fo search ns subs. induction subs as [| f r IH]; intros loaded s; simpl; [discriminate |].
  destruct (negb ns && negb (mem_name (removelast (m_name f)) loaded)); [apply IH |].
  pose proof (load_module_no_exit w a fo search f s) as E.
  destruct (load_module w a fo search f s) as [res s1]. simpl in E.
  destruct res as [x |]; [| apply IH].
  destruct (caught_by load_submodule_catches x); [apply IH | exact E].
Qed.

Lemma load_package_with_no_exit :
  forall np w allow force sm search top subs stubs s,
    (forall s0, fst (np s0) <> Some XSystemExit) ->
    fst (load_package_with np w allow force sm search top subs stubs s) <> Some XSystemExit.
Proof.
  intros np w a fo sm search top subs stubs s Hnp. unfold load_package_with.
  pose proof (load_module_no_exit w a fo search top s) as E1.
  destruct (load_module w a fo search top s) as [r1 s1]. simpl in E1.
  destruct r1 as [y |]; [exact E1 |].
  assert (E2 : fst (if sm then load_subs w a fo search false subs [m_name top] s1 else (None, s1)) <> Some XSystemExit).
  { destruct sm; [apply load_subs_no_exit | discriminate]. }
  destruct (if sm then load_subs w a fo search false subs [m_name top] s1 else (None, s1)) as [r2 s2]. simpl in E2.
  destruct r2 as [y |]; [exact E2 |].
  destruct stubs as [[st_top st_subs] |]; [| discriminate].
  pose proof (Hnp s2) as En.
  destruct (np s2) as [rn s2']. simpl in En.
  destruct rn as [y |]; [exact En |].
  pose proof (load_module_no_exit w a fo search st_top s2') as E3.
  destruct (load_module w a fo search st_top s2') as [r3 s3]. simpl in E3.
  destruct r3 as [y |]; [exact E3 |].
  destruct sm; [apply load_subs_no_exit | discriminate].
Qed.

Lemma load_one_with_no_exit :
  forall np w allow force sm search req s,
    (forall s0, fst (np s0) <> Some XSystemExit) ->
    fst (load_one_with np w allow force sm search req s) <> Some XSystemExit.
Proof.
  intros np w a fo sm search req s Hnp. unfold load_one_with.
  match goal with |- context [let (r, s') := ?X in _] =>
    assert (H : fst X <> Some XSystemExit); [| destruct X as [r s']; simpl in *; exact H] end.
  destruct (find_pkg (w_find w) req) as [top subs stubs | n subs | via | e].
  - apply load_package_with_no_exit; exact Hnp.
  - destruct sm; [apply load_subs_no_exit | discriminate].
  - destruct (not_found_reraises a fo); [discriminate |].
    pose proof (dynamic_import_err w [req] search s) as D.
    destruct (dynamic_import w [req] search s) as [[y | v] s1]; simpl in *.
    + rewrite (D y eq_refl). discriminate.
    + destruct via as [[top subs] |]; [apply load_package_with_no_exit; exact Hnp | apply inspect_module_no_exit].
  - destruct e; discriminate.
Qed.

Lemma reentries_no_exit :
  forall w allow force search reqs s, fst (reentries w allow force search reqs s) <> Some XSystemExit.
Proof.
  intros w a fo search reqs. induction reqs as [| r rs IH]; intros s; simpl; [discriminate |].
  assert (E : fst (load_one w a fo true search r s) <> Some XSystemExit).
  { unfold load_one. apply load_one_with_no_exit. intros s0. discriminate. }
  destruct (load_one w a fo true search r s) as [res s1]. simpl in E.
  destruct res as [x |]; [| apply IH].
  destruct (caught_by reentry_catches x); [apply IH | exact E].
Qed.

Theorem system_exit_never_escapes :
  forall w allow force submodules search nested root reqs s,
    fst (session w allow force submodules search nested root reqs s) <> Some XSystemExit.
Proof.
  intros w a fo sm search nested root reqs s. unfold session, load_root.
  assert (E : fst (load_one_with (reentries w a fo search nested) w a fo sm search root s) <> Some XSystemExit).
  { apply load_one_with_no_exit. intros s0. apply reentries_no_exit. }
  destruct (load_one_with (reentries w a fo search nested) w a fo sm search root s) as [res s1]. simpl in E.
  destruct res as [x |]; [exact E | apply reentries_no_exit].
Qed.

(* non-vacuity: SystemExit at import and SystemExit in the walk both come out as LoadingError at top level,
   and are skipped for a submodule *)
Example exit_at_top_is_loading_error :
  let top := mkMod ["p"] ["sp"; "p"] "__init__" ".py" None in
  let w := mkWorld [("p", FPkg top [] None)] [(["p"], mkBeh (Some ["sp"]) true [] (Some XSystemExit))] [] [] in
  fst (session w true true true [["sp"]] [] "p" [] (init_state [["orig"]])) = Some XLoadingError.
Proof. vm_compute. reflexivity. Qed.

Example exit_in_walk_is_loading_error :
  let top := mkMod ["p"] ["sp"; "p"] "__init__" ".py" None in
  let w := mkWorld [("p", FPkg top [] None)] [(["p"], mkBeh (Some ["sp"]) true [] None)] [] [(["p"], XSystemExit)] in
  fst (session w true true true [["sp"]] [] "p" [] (init_state [["orig"]])) = Some XLoadingError.
Proof. vm_compute. reflexivity. Qed.

(* a walk that raises anything else is NOT converted (modelled as the code is; outside the property's fault alphabet) *)
Example other_walk_fault_escapes :
  let top := mkMod ["p"] ["sp"; "p"] "__init__" ".py" None in
  let w := mkWorld [("p", FPkg top [] None)] [(["p"], mkBeh (Some ["sp"]) true [] None)] [] [(["p"], XRuntimeError)] in
  fst (session w true true true [["sp"]] [] "p" [] (init_state [["orig"]])) = Some XRuntimeError.
Proof. vm_compute. reflexivity. Qed.

(* non-vacuity of the nested phase: a package with stubs whose wildcard expansion loads the private sibling `_p`
   (a compiled submodule of `_p` is imported because inspection is allowed) between the submodules and the stubs *)
Example nested_phase_exercised :
  let top := mkMod ["p"] ["sp"; "p"] "__init__" ".py" None in
  let stub := mkMod ["p"] ["sp"; "p"] "__init__" ".pyi" None in
  let sib := mkMod ["_p"] ["sp"; "_p"] "__init__" ".py" None in
  let sibc := mkMod ["_p"; "c"] ["sp"; "_p"] "c" ".pyc" None in
  let w := mkWorld [("p", FPkg top [] (Some (stub, []))); ("_p", FPkg sib [sibc] None)]
                   [(["_p"], mkBeh (Some ["sp"]) true [EClear] None); (["_p"; "c"], mkBeh None true [] (Some XKeyboardInterrupt))] [] [] in
  let '(r, s') := session w true false true [["sp"]] ["_p"] "p" [] (init_state [["orig"]]) in
  r = None /\ cur s' = 0 /\ heap s' 0 = [["orig"]] /\ mods s' = [["_p"]] /\
  map (fun e => match e with EvVisit n sfx => (n, sfx) | _ => ([], "") end) (filter (fun e => match e with EvVisit _ _ => true | _ => false end) (rev (log s')))
    = [(["p"], ".py"); (["_p"], ".py"); (["p"], ".pyi")].
Proof. vm_compute. repeat split. Qed.
