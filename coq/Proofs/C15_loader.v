(* C15 proofs, part 1: the generated tables; request trees; static loading executes nothing (sessions with loads nested to
   any depth, and every public entry point); compiled modules are skipped.
   Part 2: Proofs/C15_restore.v (sys.path is restored), part 3: Proofs/C15_failures.v (what can leave a load). *)
From Coq Require Import List ZArith String Ascii Bool Arith Lia.
From Verif Require Import Lib.Sexp Model.C15_base Gen.C15_ladder Model.C15_loader.
Import ListNotations.
Open Scope string_scope. Open Scope list_scope. Open Scope nat_scope.

Arguments rewrap : simpl never.
Arguments caught_by : simpl never.
Arguments str_in : simpl never.

(* ================================================================== A. the generated tables *)

Lemma ladder_never_inspects_when_disallowed :
  forall is_list sfx, agent_ladder is_list false false sfx <> AInspect.
Proof.
  intros l sfx. unfold agent_ladder.
  destruct l; try discriminate.
  repeat match goal with |- context [if ?c then _ else _] => destruct c end; discriminate.
Qed.

Lemma static_file_agent :
  forall sfx, agent_ladder false false false sfx = AVisit \/ agent_ladder false false false sfx = ARaise XLoadingError.
Proof.
  intros sfx. unfold agent_ladder.
  repeat match goal with |- context [if ?c then _ else _] => destruct c end; auto.
Qed.

Lemma compiled_agent :
  forall sfx, source_suffix sfx = false -> agent_ladder false false false sfx = ARaise XLoadingError.
Proof.
  intros sfx H. unfold agent_ladder, source_suffix in *. rewrite H. reflexivity.
Qed.

Lemma source_agent :
  forall sfx allow, source_suffix sfx = true -> agent_ladder false false allow sfx = AVisit.
Proof.
  intros sfx a H. unfold agent_ladder, source_suffix in *. rewrite H. reflexivity.
Qed.

Lemma forced_agent : forall sfx allow, agent_ladder false true allow sfx = AInspect.
Proof. reflexivity. Qed.

Lemma ladder_raises_loading_error :
  forall l f a sfx x, agent_ladder l f a sfx = ARaise x -> x = XLoadingError.
Proof.
  intros l f a sfx x. unfold agent_ladder.
  repeat match goal with |- context [if ?c then _ else _] => destruct c end; intro H; try discriminate; inversion H; reflexivity.
Qed.

Lemma not_found_static : not_found_reraises false false = true.
Proof. reflexivity. Qed.

Lemma not_found_dynamic : forall a f, (a || f) = true -> not_found_reraises a f = false.
Proof. intros a f H. unfold not_found_reraises. rewrite H. reflexivity. Qed.

Lemma import_attempt_catches_all : forall x, caught_by import_attempt_catches x = true.
Proof. destruct x; reflexivity. Qed.

Lemma getattr_catches_all : forall x, caught_by getattr_catches x = true.
Proof. destruct x; reflexivity. Qed.

Lemma exhausted_is_importerror : exhausted_raises = XImportError.
Proof. reflexivity. Qed.
Lemma getattr_is_importerror : getattr_raises = XImportError.
Proof. reflexivity. Qed.
Lemma ignored_is_importerror : ignored_raises = XImportError.
Proof. reflexivity. Qed.

Lemma loading_error_is_skipped : caught_by load_submodule_catches XLoadingError = true.
Proof. reflexivity. Qed.
Lemma loading_error_rewrap : rewrap load_module_handlers XLoadingError = XLoadingError.
Proof. reflexivity. Qed.
Lemma import_error_wrapped : rewrap load_module_handlers XImportError = XLoadingError.
Proof. reflexivity. Qed.
Lemma unicode_wrapped : rewrap load_module_handlers XUnicodeDecode = XLoadingError.
Proof. reflexivity. Qed.
Lemma vfault_wrapped : forall v, rewrap load_module_handlers (vfault_exn v) = XLoadingError.
Proof. destruct v; reflexivity. Qed.
Lemma system_exit_mapped : rewrap inspect_module_handlers XSystemExit = XImportError.
Proof. reflexivity. Qed.
Lemma import_error_kept : rewrap inspect_module_handlers XImportError = XImportError.
Proof. reflexivity. Qed.
Lemma inspect_rewrap_no_exit : forall y, rewrap inspect_module_handlers y <> XSystemExit.
Proof. destruct y; vm_compute; discriminate. Qed.
Lemma load_rewrap_no_exit : forall y, y <> XSystemExit -> rewrap load_module_handlers y <> XSystemExit.
Proof. destruct y; vm_compute; intros H; try discriminate; exact H. Qed.
Lemma reentry_swallows_import_family : forall x, import_family x = true -> caught_by reentry_catches x = true.
Proof. destruct x; intro H; try discriminate H; reflexivity. Qed.

(* re-entry never happens with resolve_external=False, and always passes try_relative_path=False *)
Lemma no_reentry_when_external_false :
  forall sib fl sm ld, alias_reentry_gate (Some false) sib fl sm ld = false /\ wildcard_reentry_skip (Some false) sib = true.
Proof. intros. split; destruct sib, fl, sm, ld; reflexivity. Qed.

Lemma default_reentry_only_private_sibling :
  forall fl sm ld, alias_reentry_gate None false fl sm ld = false /\ wildcard_reentry_skip None false = true.
Proof. intros. split; destruct fl, sm, ld; reflexivity. Qed.

Lemma reentry_is_by_name : reentry_try_relative_path = false.
Proof. reflexivity. Qed.

(* what is in the import family stays there through the handlers of _load_module *)
Lemma import_family_through_load_handlers :
  forall z, import_family z = true -> import_family (rewrap load_module_handlers z) = true.
Proof. destruct z; intro H; try discriminate H; reflexivity. Qed.

(* every public entry point hands allow_inspection / force_inspection down as it was given *)
Lemma entry_points_forward_inspection_options :
  forall ep a f, entry_allow ep a = a /\ entry_force ep f = f.
Proof. intros ep a f. split; destruct ep; reflexivity. Qed.

Lemma entry_catches_no_exit : forall ep, caught_by (entry_catches ep) XSystemExit = false.
Proof. destruct ep; reflexivity. Qed.

(* ================================================================== A'. request trees *)

Section rtree_induction.
  Variable P : rtree -> Prop.
  Hypothesis Hnode : forall req kids, Forall P kids -> P (RNode req kids).
  Fixpoint rtree_ind2 (t : rtree) : P t :=
    match t with
    | RNode req kids =>
        Hnode req kids ((fix go (l : list rtree) : Forall P l :=
                           match l with
                           | [] => Forall_nil P
                           | k :: r => Forall_cons k (rtree_ind2 k) (go r)
                           end) kids)
    end.
End rtree_induction.

Section effect_induction.
  Variable P : effect -> Prop.
  Hypothesis Hins : forall p, P (EIns0 p).
  Hypothesis Happ : forall p, P (EApp p).
  Hypothesis Hclear : P EClear.
  Hypothesis Hrebind : forall l, P (ERebind l).
  Hypothesis Hscope : forall paths inner, Forall P inner -> P (EScope paths inner).
  Fixpoint effect_ind2 (e : effect) : P e :=
    match e with
    | EIns0 p => Hins p | EApp p => Happ p | EClear => Hclear | ERebind l => Hrebind l
    | EScope paths inner =>
        Hscope paths inner ((fix go (l : list effect) : Forall P l :=
                              match l with
                              | [] => Forall_nil P
                              | x :: r => Forall_cons x (effect_ind2 x) (go r)
                              end) inner)
    end.
End effect_induction.

(* a nested scope runs its inner effects as a block *)
Lemma apply_scope_eq :
  forall paths inner s, apply_effect (EScope paths inner) s = scoped paths (apply_effects inner) s.
Proof.
  intros paths inner s.
  assert (E : forall es s1, (fix go (es : list effect) (s1 : st) {struct es} : st :=
                               match es with [] => s1 | x :: r => go r (apply_effect x s1) end) es s1
                            = apply_effects es s1).
  { unfold apply_effects. induction es as [| x r IH]; intros s1; simpl; [reflexivity | apply IH]. }
  simpl. unfold scoped, with_sys_path.
  destruct (is_nil paths && sys_path_noop_when_empty); simpl; rewrite E; reflexivity.
Qed.

Lemma load_tree_eq :
  forall w a f st sm search req kids s,
    load_tree w a f st sm search (RNode req kids) s =
    load_one_with (reentries_with (load_tree w a f st true search) kids) w a f st sm search req s.
Proof. reflexivity. Qed.

(* a preorder on states that every kid's load respects is respected by the whole sequence of re-entries *)
Lemma reentries_with_rel :
  forall (R : st -> st -> Prop) (G : st -> Prop) (load : rtree -> st -> option exn * st) ks,
    (forall s, R s s) -> (forall a b c, R a b -> R b c -> R a c) -> (forall a b, G a -> R a b -> G b) ->
    Forall (fun k => forall s, G s -> R s (snd (load k s))) ks ->
    forall s, G s -> R s (snd (reentries_with load ks s)).
Proof.
  intros R G load ks Rr Rt RG H. induction H as [| k r Hk Hr IH]; intros s Gs; simpl.
  - apply Rr.
  - pose proof (Hk s Gs) as S.
    destruct (load k s) as [res s1]. simpl in S.
    pose proof (RG _ _ Gs S) as G1.
    destruct res as [x |].
    + destruct (caught_by reentry_catches x); [eapply Rt; [exact S | apply IH; exact G1] | exact S].
    + eapply Rt; [exact S | apply IH; exact G1].
Qed.

(* what leaves a sequence of re-entries left one of the loads and was not swallowed *)
Lemma reentries_with_res :
  forall (Q : exn -> Prop) (load : rtree -> st -> option exn * st) ks,
    Forall (fun k => forall s x, fst (load k s) = Some x -> caught_by reentry_catches x = false -> Q x) ks ->
    forall s x, fst (reentries_with load ks s) = Some x -> Q x.
Proof.
  intros Q load ks H. induction H as [| k r Hk Hr IH]; intros s x; simpl; [discriminate |].
  pose proof (Hk s) as E.
  destruct (load k s) as [res s1]. simpl in E.
  destruct res as [y |]; [| apply IH].
  destruct (caught_by reentry_catches y) eqn:C; [apply IH |].
  simpl. intro K. inversion K. subst y. apply E; [reflexivity | exact C].
Qed.

Lemma Forall_flat_map_in :
  forall (f : rtree -> list string) ks k q, In k ks -> In q (f k) -> In q (flat_map f ks).
Proof. intros f ks k q Hk Hq. apply in_flat_map. exists k. split; assumption. Qed.

(* ================================================================== B. static loading touches nothing *)

(* everything but the log of visit / read / create / skip events is unchanged *)
Definition quiet (s s' : st) : Prop :=
  cur s' = cur s /\ next s' = next s /\ heap s' = heap s /\ mods s' = mods s /\
  executions s' = executions s /\ inspections s' = inspections s.

Lemma quiet_refl : forall s, quiet s s.
Proof. intros; repeat split. Qed.

Lemma quiet_trans : forall a b c, quiet a b -> quiet b c -> quiet a c.
Proof.
  unfold quiet. intros a b c (H1 & H2 & H3 & H4 & H5 & H6) (K1 & K2 & K3 & K4 & K5 & K6).
  repeat split; congruence.
Qed.

Lemma quiet_log : forall e s, is_exec e = false -> is_inspect e = false -> quiet s (log_ev e s).
Proof.
  intros e s He Hi. unfold quiet, executions, inspections, log_ev. simpl. rewrite He, Hi. repeat split.
Qed.

Lemma load_module_static :
  forall w store search f s,
    quiet s (snd (load_module w false false store search f s)) /\
    (fst (load_module w false false store search f s) = None \/ fst (load_module w false false store search f s) = Some XLoadingError).
Proof.
  intros w store search f s. unfold load_module.
  destruct (static_file_agent (m_suffix f)) as [H | H]; rewrite H; simpl.
  - split.
    { assert (Hv : forall b : bool, quiet s (if b then log_ev (EvRead (m_name f) (m_suffix f)) (log_ev (EvVisit (m_name f) (m_suffix f)) s)
                                             else log_ev (EvVisit (m_name f) (m_suffix f)) s)).
      { intros [|]; [apply quiet_trans with (log_ev (EvVisit (m_name f) (m_suffix f)) s) |]; apply quiet_log; reflexivity. }
      exact (Hv visit_reads_source). }
    destruct (m_vfault f) as [v |]; simpl; [right; rewrite vfault_wrapped; reflexivity | left; reflexivity].
  - split. { apply quiet_refl. } right. reflexivity.
Qed.

Lemma load_subs_static :
  forall w store search ns subs loaded s,
    quiet s (snd (load_subs w false false store search ns subs loaded s)) /\ fst (load_subs w false false store search ns subs loaded s) = None.
Proof.
  intros w store search ns subs. induction subs as [| f r IH]; intros loaded s; simpl.
  - split; [apply quiet_refl | reflexivity].
  - destruct (negb ns && negb (mem_name (removelast (m_name f)) loaded)).
    { destruct (IH loaded (log_ev (EvOrphan (m_name f) (m_suffix f)) s)) as [Hq' Hr'].
      split; [| exact Hr']. eapply quiet_trans; [| exact Hq']. apply quiet_log; reflexivity. }
    destruct (load_module_static w store search f s) as [Hq Hr].
    destruct (load_module w false false store search f s) as [res s1]. simpl in *.
    destruct Hr as [Hr | Hr]; subst res.
    + destruct (IH (m_name f :: loaded) s1) as [Hq' Hr']. split; [eapply quiet_trans; eauto | exact Hr'].
    + rewrite loading_error_is_skipped.
      destruct (IH loaded (log_ev (EvSkip (m_name f) (m_suffix f)) s1)) as [Hq' Hr'].
      split; [| exact Hr'].
      eapply quiet_trans; [exact Hq |]. eapply quiet_trans; [| exact Hq']. apply quiet_log; reflexivity.
Qed.

(* [Q] collects the possible outcomes; the nested phase [np] is assumed quiet with outcomes in Q *)
Lemma load_package_with_static :
  forall (Q : option exn -> Prop) np w store sm search top subs stubs s,
    Q None -> Q (Some XLoadingError) ->
    (forall s0, quiet s0 (snd (np s0)) /\ Q (fst (np s0))) ->
    quiet s (snd (load_package_with np w false false store sm search top subs stubs s)) /\
    Q (fst (load_package_with np w false false store sm search top subs stubs s)).
Proof.
  intros Q np w store sm0 search top subs stubs s Q0 Q1 Hnp. unfold load_package_with.
  generalize (recurse_submodules sm0). intro sm.
  destruct (load_module_static w store search top s) as [Hq Hr].
  destruct (load_module w false false store search top s) as [res s1]. simpl in *.
  destruct Hr as [Hr | Hr]; subst res; [| split; [exact Hq | exact Q1]].
  assert (Hs : exists s2, (if sm then load_subs w false false store search false subs [m_name top] s1 else (None, s1)) = (None, s2) /\ quiet s1 s2).
  { destruct sm.
    - destruct (load_subs_static w store search false subs [m_name top] s1) as [Hq' Hr'].
      destruct (load_subs w false false store search false subs [m_name top] s1) as [r2 s2]. simpl in *. subst r2. eauto.
    - exists s1. split; [reflexivity | apply quiet_refl]. }
  destruct Hs as (s2 & Es & Hq2). rewrite Es.
  destruct stubs as [[st_top st_subs] |]; [| split; [eapply quiet_trans; eauto | exact Q0]].
  destruct (Hnp s2) as [Hqn Hrn].
  destruct (np s2) as [rn s2']. simpl in *.
  assert (Hq2' : quiet s s2'). { eapply quiet_trans; [exact Hq |]. eapply quiet_trans; [exact Hq2 | exact Hqn]. }
  destruct rn as [x |]; [split; [exact Hq2' | exact Hrn] |].
  destruct (load_module_static w store search st_top s2') as [Hq3 Hr3].
  destruct (load_module w false false store search st_top s2') as [r3 s3]. simpl in *.
  destruct Hr3 as [Hr3 | Hr3]; subst r3.
  - destruct sm.
    + destruct (load_subs_static w store search false st_subs [m_name st_top] s3) as [Hq4 Hr4].
      split; [| rewrite Hr4; exact Q0].
      eapply quiet_trans; [exact Hq2' |]. eapply quiet_trans; [exact Hq3 | exact Hq4].
    + split; [| exact Q0]. eapply quiet_trans; [exact Hq2' | exact Hq3].
  - split; [| exact Q1]. eapply quiet_trans; [exact Hq2' | exact Hq3].
Qed.

Lemma load_one_with_static :
  forall (Q : option exn -> Prop) np w store sm search req s,
    Q None -> Q (Some XLoadingError) -> Q (Some XModuleNotFound) ->
    (forall e, find_pkg (w_find w) req = FFinderError e -> Q (Some (ferr_exn e))) ->
    (forall s0, quiet s0 (snd (np s0)) /\ Q (fst (np s0))) ->
    quiet s (snd (load_one_with np w false false store sm search req s)) /\ Q (fst (load_one_with np w false false store sm search req s)).
Proof.
  intros Q np w store sm search req s Q0 Q1 Q2 Q3 Hnp. unfold load_one_with.
  match goal with |- context [let (r, s') := ?X in _] =>
    assert (H : quiet s (snd X) /\ Q (fst X)); [| destruct X as [r s']; simpl in *; destruct H as [Hq Hr]; split; [| exact Hr];
      eapply quiet_trans; [exact Hq | apply quiet_log; reflexivity]] end.
  destruct (find_pkg (w_find w) req) as [top subs stubs | n subs | via | e].
  - apply load_package_with_static; assumption.
  - destruct (recurse_submodules sm).
    + destruct (load_subs_static w store search true subs [n] (log_ev (EvCreate n) s)) as [Hq Hr]. split; [| rewrite Hr; exact Q0].
      eapply quiet_trans; [| exact Hq]. apply quiet_log; reflexivity.
    + simpl. split; [apply quiet_log; reflexivity | exact Q0].
  - rewrite not_found_static. simpl. split; [apply quiet_refl | exact Q2].
  - simpl. split; [apply quiet_refl | apply Q3; reflexivity].
Qed.

(* outcomes of a static load: success, LoadingError, ModuleNotFoundError, or what the finder raised for one of the
   packages asked for (the root or a package requested from inside the load, at any depth) *)
Definition finder_escape (w : world) (qs : list string) (x : exn) : Prop :=
  exists q e, In q qs /\ x = ferr_exn e /\ find_pkg (w_find w) q = FFinderError e.

Definition static_result (w : world) (qs : list string) (r : option exn) : Prop :=
  r = None \/ r = Some XLoadingError \/ r = Some XModuleNotFound \/ exists x, r = Some x /\ finder_escape w qs x.

Lemma finder_escape_mono : forall w qs qs' x, (forall q, In q qs -> In q qs') -> finder_escape w qs x -> finder_escape w qs' x.
Proof. intros w qs qs' x H (q & e & Hq & Hx & Hf). exists q, e. auto. Qed.

Lemma finder_error_not_swallowed : forall e, caught_by reentry_catches (ferr_exn e) = false.
Proof. destruct e; reflexivity. Qed.

Lemma load_tree_static :
  forall w store search t sm s,
    quiet s (snd (load_tree w false false store sm search t s)) /\
    static_result w (tree_reqs t) (fst (load_tree w false false store sm search t s)).
Proof.
  intros w store search t. induction t as [req kids IH] using rtree_ind2. intros sm s.
  rewrite load_tree_eq.
  apply (load_one_with_static (static_result w (tree_reqs (RNode req kids)))); unfold static_result; auto.
  - intros e He. right. right. right. exists (ferr_exn e). split; [reflexivity |]. exists req, e. simpl. auto.
  - intros s0. split.
    + apply (reentries_with_rel quiet (fun _ => True)); auto using quiet_refl; [intros; eapply quiet_trans; eauto |].
      eapply Forall_impl; [| exact IH]. intros k Hk s1 _. apply Hk.
    + destruct (fst (reentries_with (load_tree w false false store true search) kids s0)) as [x |] eqn:E; [| left; reflexivity].
      right. right. right. exists x. split; [reflexivity |].
      revert E. apply (reentries_with_res (finder_escape w (tree_reqs (RNode req kids)))).
      rewrite Forall_forall in IH |- *. intros k Hin s1 y Ey Cy.
      destruct (IH k Hin true s1) as [_ Hr]. rewrite Ey in Hr.
      destruct Hr as [Hr | [Hr | [Hr | (z & Hz & Hf)]]]; try discriminate Hr.
      * inversion Hr. subst y. discriminate Cy.
      * inversion Hr. subst y. discriminate Cy.
      * inversion Hz. subst z. eapply finder_escape_mono; [| exact Hf].
        intros q Hq. simpl. right. eapply Forall_flat_map_in; eauto.
Qed.

Lemma reentries_static :
  forall w store search ks s, quiet s (snd (reentries w false false store search ks s)).
Proof.
  intros w store search ks s. unfold reentries.
  apply (reentries_with_rel quiet (fun _ => True)); auto using quiet_refl; [intros; eapply quiet_trans; eauto |].
  rewrite Forall_forall. intros k _ s1 _. apply load_tree_static.
Qed.

Lemma session_static :
  forall w store sm search root later s, quiet s (snd (session w false false store sm search root later s)).
Proof.
  intros w store sm search root later s. unfold session.
  destruct root as [t |]; [| apply reentries_static].
  destruct (load_tree_static w store search t sm s) as [Hq _].
  destruct (load_tree w false false store sm search t s) as [res s1]. simpl in Hq.
  destruct res; [exact Hq |]. eapply quiet_trans; [exact Hq | apply reentries_static].
Qed.

Theorem static_session_executes_nothing :
  forall w store submodules search root later s r s',
    session w false false store submodules search root later s = (r, s') ->
    executions s' = executions s /\ inspections s' = inspections s /\ mods s' = mods s /\
    cur s' = cur s /\ next s' = next s /\ heap s' = heap s.
Proof.
  intros w store sm search root later s r s' H.
  pose proof (session_static w store sm search root later s) as Q. rewrite H in Q. simpl in Q.
  destruct Q as (H1 & H2 & H3 & H4 & H5 & H6). repeat split; assumption.
Qed.

Theorem static_root_result :
  forall w store submodules search t s, static_result w (tree_reqs t) (fst (load_tree w false false store submodules search t s)).
Proof. intros. apply load_tree_static. Qed.

(* any history of calls on one loader built with inspection disallowed: every call is static, whatever came before
   (load, resolve_aliases loading external packages, load again ...) *)
Lemma run_history_static :
  forall w store search catch steps s, quiet s (snd (run_history w false false store search catch steps s)).
Proof.
  intros w store search catch steps. induction steps as [| h r IH]; intros s; simpl; [apply quiet_refl |].
  pose proof (session_static w store (hs_submodules h) search (hs_root h) (hs_later h) s) as Q.
  destruct (session w false false store (hs_submodules h) search (hs_root h) (hs_later h) s) as [res s1]. simpl in Q.
  destruct res as [x |].
  - destruct (caught_by catch x); [eapply quiet_trans; [exact Q | apply IH] | exact Q].
  - eapply quiet_trans; [exact Q | apply IH].
Qed.

Theorem static_history_executes_nothing :
  forall w store search catch steps s r s',
    run_history w false false store search catch steps s = (r, s') ->
    executions s' = executions s /\ inspections s' = inspections s /\ mods s' = mods s /\
    cur s' = cur s /\ next s' = next s /\ heap s' = heap s.
Proof.
  intros w store search catch steps s r s' H.
  pose proof (run_history_static w store search catch steps s) as Q. rewrite H in Q. simpl in Q.
  destruct Q as (H1 & H2 & H3 & H4 & H5 & H6). repeat split; assumption.
Qed.

(* through every public entry point: the options arrive as given, so the loaders they build are static too *)
Lemma run_phases_static :
  forall store phs s, quiet s (snd (run_phases false false store phs s)).
Proof.
  intros store phs. induction phs as [| ph r IH]; intros s; simpl; [apply quiet_refl |].
  destruct (entry_points_forward_inspection_options (ph_entry ph) false false) as [Ea Ef]. rewrite Ea, Ef.
  pose proof (session_static (ph_world ph) (entry_store (ph_entry ph) store) (entry_submodules (ph_entry ph) (ph_submodules ph))
                (phase_search ph s) (ph_root ph) (ph_later ph) s) as Q.
  destruct (session (ph_world ph) false false (entry_store (ph_entry ph) store) (entry_submodules (ph_entry ph) (ph_submodules ph))
              (phase_search ph s) (ph_root ph) (ph_later ph) s) as [res s1]. simpl in Q.
  destruct res as [x |].
  - destruct (caught_by (entry_catches (ph_entry ph)) x); [eapply quiet_trans; [exact Q | apply IH] | exact Q].
  - eapply quiet_trans; [exact Q | apply IH].
Qed.

Theorem static_entry_executes_nothing :
  forall store phs s r s',
    run_phases false false store phs s = (r, s') ->
    executions s' = executions s /\ inspections s' = inspections s /\ mods s' = mods s /\
    cur s' = cur s /\ next s' = next s /\ heap s' = heap s.
Proof.
  intros store phs s r s' H.
  pose proof (run_phases_static store phs s) as Q. rewrite H in Q. simpl in Q.
  destruct Q as (H1 & H2 & H3 & H4 & H5 & H6). repeat split; assumption.
Qed.

Theorem static_whatever_is_imported :
  forall syspath imported store phases r s',
    run_phases false false store phases (init_state_with syspath imported) = (r, s') ->
    executions s' = [] /\ inspections s' = [] /\ mods s' = imported.
Proof.
  intros syspath imported store phases r s' H.
  destruct (static_entry_executes_nothing store phases (init_state_with syspath imported) r s' H) as (E & I & M & _).
  repeat split; assumption.
Qed.

(* non-vacuity: the top-level package is in sys.modules already, its compiled submodule is not: skipped all the same *)
Example preimported_package_stays_static :
  let top := mkMod ["p"] ["sp"; "p"] "__init__" ".py" None in
  let c := mkMod ["p"; "c"] ["sp"; "p"] "c" ".pyc" None in
  let w := mkWorld [("p", FPkg top [c] None)] [(["p"], mkBeh (Some ["sp"]) true [] None); (["p"; "c"], mkBeh None true [] None)] [] [] in
  let ph := mkPhase ELoad w [["sp"]] [] true (Some (RNode "p" [])) [] in
  let '(r, s') := run_phases false false true [ph] (init_state_with [["sp"]] [["p"]]) in
  r = None /\ executions s' = [] /\ mods s' = [["p"]] /\
  filter (fun e => match e with EvSkip _ _ => true | _ => false end) (log s') = [EvSkip ["p"; "c"] ".pyc"].
Proof. vm_compute. repeat split. Qed.

(* ================================================================== C. compiled modules are skipped *)

Lemma load_module_compiled :
  forall w store search f s, source_suffix (m_suffix f) = false -> load_module w false false store search f s = (Some XLoadingError, s).
Proof.
  intros w store search f s H. unfold load_module. rewrite (compiled_agent _ H). simpl. reflexivity.
Qed.

Theorem compiled_submodule_skipped :
  forall w store search ns f subs loaded s,
    source_suffix (m_suffix f) = false ->
    (ns = true \/ mem_name (removelast (m_name f)) loaded = true) ->
    load_subs w false false store search ns (f :: subs) loaded s =
    load_subs w false false store search ns subs loaded (log_ev (EvSkip (m_name f) (m_suffix f)) s).
Proof.
  intros w store search ns f subs loaded s H Hp. simpl.
  assert (E : negb ns && negb (mem_name (removelast (m_name f)) loaded) = false).
  { destruct Hp as [Hp | Hp]; rewrite Hp; [reflexivity | apply andb_false_r]. }
  rewrite E. rewrite (load_module_compiled w store search f s H). rewrite loading_error_is_skipped. reflexivity.
Qed.

Theorem compiled_top_rejected :
  forall np w store sm search top subs stubs s,
    source_suffix (m_suffix top) = false ->
    load_package_with np w false false store sm search top subs stubs s = (Some XLoadingError, s).
Proof.
  intros. unfold load_package_with. rewrite (load_module_compiled w store search top s H). reflexivity.
Qed.

(* with inspection allowed the same module is inspected (so the skip is the ladder's doing, not the file's) *)
Example compiled_inspected_when_allowed :
  forall sfx, source_suffix sfx = false -> agent_ladder false false true sfx = AInspect.
Proof. intros sfx H. unfold agent_ladder, source_suffix in *. rewrite H. reflexivity. Qed.

