(* C12, regex level, third part: the A2 bound in closed form.
   bound2 r n K <= coef2 r * (n+1)^deg2 r * (K+1): a polynomial in the subject length n whose degree deg2 r is the
   number of unbounded quantifiers of r (those inside the rest of a delimited iteration included); and the degrees
   of the regular expressions of the docstring parsers, computed on the regenerated ASTs. *)
From Coq Require Import List NArith Bool Arith Lia String.
From Verif Require Import Model.C12_regex Gen.C12_regexes Proofs.C12_regex Proofs.C12_regex2.
Import ListNotations.
Open Scope list_scope.
Open Scope nat_scope.

(* ---- the deterministic pass ---- *)
Fixpoint ddeg (r : re) : nat :=
  match r with
  | REps | RBol | REol | RChr _ => 0
  | RSeq a b => ddeg a + ddeg b
  | RAlt a b => Nat.max (ddeg a) (ddeg b)
  | ROpt _ a | RGrp _ a => ddeg a
  | RStar _ _ => 1
  end.
Fixpoint dcoef (r : re) : nat :=
  match r with
  | REps | RBol | REol | RChr _ => 1
  | RSeq a b => 1 + dcoef a * (bnd0 b + 1) + dcoef b
  | RAlt a b => 1 + bnd0 a + bnd0 b + dcoef a + dcoef b
  | ROpt _ a => 2 + bnd0 a + dcoef a
  | RStar _ _ => 4
  | RGrp _ a => 1 + dcoef a
  end.

Lemma pow1 : forall n k, 1 <= (n + 1) ^ k.
Proof. intros n k. induction k; simpl; nia. Qed.

Lemma dbound_polynomial : forall r n Kd, dbound r n Kd <= dcoef r * (n + 1) ^ ddeg r * (Kd + 1).
Proof.
  induction r as [| cl | | | a IHa b IHb | a IHa b IHb | g a IHa | g a IHa | i a IHa]; intros n Kd;
    cbn [dbound dcoef ddeg]; try (simpl; lia).
  - specialize (IHb n Kd). specialize (IHa n (bnd0 b + Kd)). rewrite Nat.pow_add_r.
    assert (Pa := pow1 n (ddeg a)). assert (Pb := pow1 n (ddeg b)).
    set (A := (n + 1) ^ ddeg a) in *. set (B := (n + 1) ^ ddeg b) in *.
    set (ca := dcoef a) in *. set (cb := dcoef b) in *. set (z := bnd0 b) in *.
    assert (H0 : z + Kd + 1 <= (z + 1) * (Kd + 1)) by nia.
    assert (H1 : ca * A * (z + Kd + 1) <= ca * A * ((z + 1) * (Kd + 1))) by (apply Nat.mul_le_mono_l; exact H0).
    assert (H2 : ca * A * ((z + 1) * (Kd + 1)) <= ca * (z + 1) * (A * B) * (Kd + 1)) by nia.
    assert (H3 : cb * B * (Kd + 1) <= cb * (A * B) * (Kd + 1)) by nia.
    assert (H4 : 1 <= A * B * (Kd + 1)) by nia.
    replace ((1 + ca * (z + 1) + cb) * (A * B) * (Kd + 1))
      with (A * B * (Kd + 1) + ca * (z + 1) * (A * B) * (Kd + 1) + cb * (A * B) * (Kd + 1)) by ring.
    lia.
  - specialize (IHa n Kd). specialize (IHb n Kd).
    assert (Ma : (n + 1) ^ ddeg a <= (n + 1) ^ Nat.max (ddeg a) (ddeg b)) by (apply Nat.pow_le_mono_r; lia).
    assert (Mb : (n + 1) ^ ddeg b <= (n + 1) ^ Nat.max (ddeg a) (ddeg b)) by (apply Nat.pow_le_mono_r; lia).
    assert (Pm := pow1 n (Nat.max (ddeg a) (ddeg b))).
    set (A := (n + 1) ^ ddeg a) in *. set (B := (n + 1) ^ ddeg b) in *. set (M := (n + 1) ^ Nat.max (ddeg a) (ddeg b)) in *.
    set (ca := dcoef a) in *. set (cb := dcoef b) in *. set (za := bnd0 a) in *. set (zb := bnd0 b) in *.
    assert (H1 : ca * A * (Kd + 1) <= ca * M * (Kd + 1)) by nia.
    assert (H2 : cb * B * (Kd + 1) <= cb * M * (Kd + 1)) by nia.
    replace ((1 + za + zb + ca + cb) * M * (Kd + 1))
      with ((1 + za + zb) * (M * (Kd + 1)) + ca * M * (Kd + 1) + cb * M * (Kd + 1)) by ring.
    assert (H5 : 1 + za + zb <= (1 + za + zb) * (M * (Kd + 1))) by nia.
    lia.
  - specialize (IHa n Kd). assert (Pa := pow1 n (ddeg a)).
    set (A := (n + 1) ^ ddeg a) in *. set (ca := dcoef a) in *. set (za := bnd0 a) in *.
    assert (H1 : Kd + 1 <= A * (Kd + 1)) by nia.
    replace ((2 + za + ca) * A * (Kd + 1)) with ((1 + za) * (A * (Kd + 1)) + A * (Kd + 1) + ca * A * (Kd + 1)) by ring.
    assert (H2 : 1 + za <= (1 + za) * (A * (Kd + 1))) by nia.
    lia.
  - specialize (IHa n Kd). assert (Pa := pow1 n (ddeg a)).
    set (A := (n + 1) ^ ddeg a) in *. set (ca := dcoef a) in *.
    assert (H1 : 1 <= A * (Kd + 1)) by nia.
    replace ((1 + ca) * A * (Kd + 1)) with (A * (Kd + 1) + ca * A * (Kd + 1)) by ring. lia.
Qed.

(* ---- the whole bound ---- *)
Fixpoint deg2 (r : re) : nat :=
  match r with
  | REps | RBol | REol | RChr _ => 0
  | RSeq a b => deg2 a + deg2 b
  | RAlt a b => Nat.max (deg2 a) (deg2 b)
  | ROpt _ a | RGrp _ a => deg2 a
  | RStar _ (RChr _) => 1
  | RStar _ (RSeq (RChr _) rest) => ddeg rest + 1
  | RStar _ _ => 0
  end.
Fixpoint coef2 (r : re) : nat :=
  match r with
  | REps | RBol | REol | RChr _ => 1
  | RSeq a b => 1 + 2 * coef2 a * coef2 b
  | RAlt a b => 1 + coef2 a + coef2 b
  | ROpt _ a | RGrp _ a => 1 + coef2 a
  | RStar _ (RChr _) => 5
  | RStar _ (RSeq (RChr _) rest) => 4 * dcoef rest + 6
  | RStar _ _ => 1
  end.

Lemma coef2_pos : forall r, 1 <= coef2 r.
Proof.
  induction r as [| cl | | | a IHa b IHb | a IHa b IHb | g a IHa | g a IHa | i a IHa]; cbn [coef2]; try lia.
  destruct a as [| | | | a1 a2 | | | |]; try lia. destruct a1; lia.
Qed.

Lemma bound2_polynomial : forall r n K, bound2 r n K <= coef2 r * (n + 1) ^ deg2 r * (K + 1).
Proof.
  induction r as [| cl | | | a IHa b IHb | a IHa b IHb | g a IHa | g a IHa | i a IHa]; intros n K.
  - simpl. lia.
  - simpl. lia.
  - simpl. lia.
  - simpl. lia.
  - cbn [bound2 coef2 deg2].
    specialize (IHb n K). specialize (IHa n (bound2 b n K)). rewrite Nat.pow_add_r.
    assert (Pa := pow1 n (deg2 a)). assert (Pb := pow1 n (deg2 b)).
    assert (Hca := coef2_pos a). assert (Hcb := coef2_pos b).
    set (A := (n + 1) ^ deg2 a) in *. set (B := (n + 1) ^ deg2 b) in *.
    set (ca := coef2 a) in *. set (cb := coef2 b) in *. set (X := bound2 b n K) in *.
    assert (H1 : ca * A * (X + 1) <= ca * A * (cb * B * (K + 1) + 1)) by (apply Nat.mul_le_mono_l; lia).
    assert (H2 : 1 <= cb * B * (K + 1)) by nia.
    assert (H3 : ca * A * (cb * B * (K + 1) + 1) <= ca * A * (2 * (cb * B * (K + 1)))) by (apply Nat.mul_le_mono_l; lia).
    assert (H4 : 1 <= ca * A * (cb * B * (K + 1))) by nia.
    nia.
  - cbn [bound2 coef2 deg2].
    specialize (IHa n K). specialize (IHb n K).
    assert (Ma : (n + 1) ^ deg2 a <= (n + 1) ^ Nat.max (deg2 a) (deg2 b)) by (apply Nat.pow_le_mono_r; lia).
    assert (Mb : (n + 1) ^ deg2 b <= (n + 1) ^ Nat.max (deg2 a) (deg2 b)) by (apply Nat.pow_le_mono_r; lia).
    assert (Pm := pow1 n (Nat.max (deg2 a) (deg2 b))).
    set (A := (n + 1) ^ deg2 a) in *. set (B := (n + 1) ^ deg2 b) in *. set (M := (n + 1) ^ Nat.max (deg2 a) (deg2 b)) in *.
    assert (H1 : coef2 a * A * (K + 1) <= coef2 a * M * (K + 1)) by nia.
    assert (H2 : coef2 b * B * (K + 1) <= coef2 b * M * (K + 1)) by nia.
    assert (H3 : 1 <= M * (K + 1)) by nia.
    replace ((1 + coef2 a + coef2 b) * M * (K + 1)) with (M * (K + 1) + coef2 a * M * (K + 1) + coef2 b * M * (K + 1)) by ring.
    lia.
  - cbn [bound2 coef2 deg2].
    specialize (IHa n K). assert (Pa := pow1 n (deg2 a)).
    set (A := (n + 1) ^ deg2 a) in *.
    assert (H1 : K + 1 <= A * (K + 1)) by nia.
    replace ((1 + coef2 a) * A * (K + 1)) with (coef2 a * A * (K + 1) + A * (K + 1)) by ring.
    lia.
  - (* quantifiers *)
    destruct a as [| c0 | | | a1 a2 | | | |]; try (simpl; lia).
    destruct a1 as [| d | | | | | | |]; try (simpl; lia).
      cbn [bound2 coef2 deg2].
      assert (D := dbound_polynomial a2 n (K + 3)).
      assert (P := pow1 n (ddeg a2)).
      rewrite Nat.pow_add_r. replace ((n + 1) ^ 1) with (n + 1) by (simpl; lia).
      set (A := (n + 1) ^ ddeg a2) in *. set (dc := dcoef a2) in *. set (Y := dbound a2 n (K + 3)) in *.
      assert (H0 : K + 3 + 1 <= 4 * (K + 1)) by lia.
      assert (H1 : dc * A * (K + 3 + 1) <= dc * A * (4 * (K + 1))) by (apply Nat.mul_le_mono_l; exact H0).
      assert (H2 : Y + K + 4 <= 4 * dc * A * (K + 1) + 4 * (K + 1)) by lia.
      assert (H3 : (n + 1) * (Y + K + 4) <= (n + 1) * (4 * dc * A * (K + 1) + 4 * (K + 1))) by (apply Nat.mul_le_mono_l; exact H2).
      assert (H4 : (n + 1) * (4 * (K + 1)) <= 4 * (A * (n + 1)) * (K + 1)) by nia.
      assert (H5 : 2 + K <= 2 * (A * (n + 1)) * (K + 1)) by nia.
      replace ((4 * dc + 6) * (A * (n + 1)) * (K + 1))
        with ((n + 1) * (4 * dc * A * (K + 1)) + 4 * (A * (n + 1)) * (K + 1) + 2 * (A * (n + 1)) * (K + 1)) by ring.
      replace ((n + 1) * (4 * dc * A * (K + 1) + 4 * (K + 1)))
        with ((n + 1) * (4 * dc * A * (K + 1)) + (n + 1) * (4 * (K + 1))) in H3 by ring.
      lia.
  - cbn [bound2 coef2 deg2].
    specialize (IHa n K). assert (Pa := pow1 n (deg2 a)).
    set (A := (n + 1) ^ deg2 a) in *.
    assert (H1 : 1 <= A * (K + 1)) by nia.
    replace ((1 + coef2 a) * A * (K + 1)) with (coef2 a * A * (K + 1) + A * (K + 1)) by ring.
    lia.
Qed.

(* ---- the regular expressions of the parsers: every one of them is matched, on every well-formed subject of n
   characters, in at most coef2 * (n+1)^deg2 steps, and no degree exceeds 8 (5 at the time of writing: the Google name/annotation/description regex;
   the margin keeps a harmless extra quantifier from breaking the build, criterion A2 stays the gate) ---- *)
Definition repo_degrees : list (string * nat) := map (fun x => (fst x, deg2 (rx_re (snd x)))) all_regexes.

Lemma repo_regexes_degree_at_most_8 : forallb (fun x => snd x <=? 8) repo_degrees = true.
Proof. vm_compute. reflexivity. Qed.

Theorem repo_regexes_polynomial :
  forall key x s, In (key, x) all_regexes -> wf_text s ->
    fst (re_match_c (rx_ic x) (rx_re x) s) <= coef2 (rx_re x) * (List.length s + 1) ^ deg2 (rx_re x)
    /\ deg2 (rx_re x) <= 8.
Proof.
  intros key x s HIn W. split.
  - assert (H := repo_regexes_bounded key x s HIn W).
    assert (P := bound2_polynomial (rx_re x) (List.length s) 0). lia.
  - assert (H := repo_regexes_degree_at_most_8). rewrite forallb_forall in H.
    assert (I : In (key, deg2 (rx_re x)) repo_degrees).
    { unfold repo_degrees. apply in_map_iff. exists (key, x). split; [reflexivity|exact HIn]. }
    specialize (H _ I). apply Nat.leb_le in H. exact H.
Qed.

(* non-vacuity: the degree of the nested-name iteration of Proofs/C12_regex2.v *)
Example names_degree :
  deg2 re_names = 3 /\ bound2 re_names 13 0 <= coef2 re_names * (13 + 1) ^ deg2 re_names * (0 + 1).
Proof. split; [vm_compute; reflexivity|apply bound2_polynomial]. Qed.
