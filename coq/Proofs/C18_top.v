(* C18 proofs, part 6: statements by shape of the merging code that the property file re-exports: refutations, repaired
   witnesses, single inheritance, the easy parts of the property, and the tie of the translated rules (Gen/C18_flags.v)
   to the model. *)
From Coq Require Import List Arith Bool Lia String.
From Verif Require Import Lib.Sexp Model.C18_dataclass Model.C18_modes Gen.C18_flags Proofs.C18_dataclass Proofs.C18_modes.
Import ListNotations.
Open Scope list_scope. Open Scope nat_scope.

(* a decorated class without hand-written __init__, in a module CPython accepts, on which the two constructors differ,
   and which satisfies exactly the flagged gap predicates of the shape; flags = [G2; G3; G4; G6; G7] *)
Definition refutes_m (m : mode) (t : table) (i : nat) (flags : list bool) : Prop :=
  exists e c, py_eval_table t = Some e /\ mode_ok m t = true /\ nth_error t i = Some c /\ decorated c = true /\ c_hw c = None /\
              gm_init_member m t i c <> py_init_member e i c /\ gaps_m m t e i c = flags.

Ltac refute_m t i := exists (env_of t), (cls_at t i); vm_compute; repeat split; try reflexivity; discriminate.

(* F2, F4, F7: in every shape *)
Lemma refuted_m_F2 : forall m, refutes_m m w2 1 [true; false; false; false; false].
Proof. intros m; destruct m; refute_m w2 1. Qed.
Lemma refuted_m_F4 : forall m, refutes_m m w4 1 [false; false; true; false; false].
Proof. intros m; destruct m; refute_m w4 1. Qed.
Lemma refuted_m_F7 : forall m, refutes_m m w7 0 [false; false; false; false; true].
Proof. intros m; destruct m; refute_m w7 0. Qed.
(* F3: only while the filter comes first; F6: until every base contributes its accumulated dictionary *)
Lemma refuted_m_F3 : refutes_m FlatFilterFirst w3 1 [false; true; false; false; false].
Proof. refute_m w3 1. Qed.
Lemma refuted_m_F6 : forall m, accumulates m = false -> refutes_m m w6 3 [false; false; false; true; false].
Proof. intros m H; destruct m; try discriminate; refute_m w6 3. Qed.

(* ------------------------------------------------------------------ single inheritance *)
Lemma subset_nat_spec : forall l m, (forall x, In x l -> In x m) -> subset_nat l m = true.
Proof.
  intros l m H. unfold subset_nat. apply forallb_forall. intros x Hx. apply existsb_exists. exists x. split; auto. apply Nat.eqb_refl.
Qed.

Lemma linear_wf_at : forall t, linear t = true -> forall i c, nth_error t i = Some c -> wf_at t i c = true.
Proof.
  intros t Hlin.
  assert (Hlinat : forall k b, nth_error t k = Some b -> linear_at t k b = true).
  { intros k b Hk. apply (linear_from_nth t t 0 Hlin k b Hk). }
  induction i as [i IH] using lt_wf_ind. intros c Hi.
  pose proof (Hlinat i c Hi) as Hl. unfold linear_at in Hl. unfold wf_at.
  destruct (c_mro c) as [|j r] eqn:Hm; [reflexivity|].
  apply andb_true_iff in Hl. destruct Hl as [Hlt Hr]. apply Nat.ltb_lt in Hlt.
  destruct (nth_error t j) as [b|] eqn:Hb; [|discriminate]. apply list_eqb_nat_eq in Hr. subst r.
  pose proof (IH j Hlt b Hb) as Hwj. unfold wf_at in Hwj. rewrite forallb_forall in Hwj.
  apply forallb_forall. intros x [Hx|Hx].
  - subst x. apply andb_true_iff. split; [apply Nat.ltb_lt; auto|]. rewrite Hb. apply subset_nat_spec. intros y Hy. right. auto.
  - specialize (Hwj x Hx). apply andb_true_iff in Hwj. destruct Hwj as [Hxj Hsub]. apply Nat.ltb_lt in Hxj.
    apply andb_true_iff. split; [apply Nat.ltb_lt; lia|].
    destruct (nth_error t x) as [bx|]; [|discriminate]. apply subset_nat_spec. intros y Hy. right.
    unfold subset_nat in Hsub. rewrite forallb_forall in Hsub. specialize (Hsub y Hy). apply existsb_exists in Hsub.
    destruct Hsub as [z [Hz Hyz]]. apply Nat.eqb_eq in Hyz. subst z. auto.
Qed.

Lemma wf_from_all : forall t l s, (forall k c, nth_error l k = Some c -> wf_at t (s + k) c = true) -> wf_from t s l = true.
Proof.
  intros t. induction l as [|c r IH]; intros s H; simpl; auto.
  apply andb_true_iff. split.
  - specialize (H 0 c eq_refl). rewrite Nat.add_0_r in H. auto.
  - apply IH. intros k c' Hk. specialize (H (S k) c' Hk). rewrite <- Nat.add_succ_comm in H. auto.
Qed.

Lemma linear_wf : forall t, linear t = true -> wf_mro t = true.
Proof. intros t H. unfold wf_mro. apply wf_from_all. intros k c Hk. simpl. apply linear_wf_at; auto. Qed.

Lemma init_eq_single_inheritance_by_mode : forall m t e i c,
  py_eval_table t = Some e -> linear t = true -> nth_error t i = Some c ->
  decorated c = true -> c_hw c = None ->
  G2 t c = false -> (filter_after m = false -> G3 t c = false) -> G4 t c = false -> G7 t c = false ->
  gm_init_member m t i c = py_init_member e i c.
Proof.
  intros m t e i c Hev Hlin Hc Hd Hh H2 H3 H4 H7.
  apply init_eq_cpython_by_mode; auto.
  - unfold mode_ok. rewrite (linear_wf t Hlin). apply orb_true_r.
  - unfold known_gap_m, gaps_m. simpl. rewrite H2, H4, H7, (single_inheritance_flat t e Hev Hlin i c Hc Hd).
    destruct (filter_after m) eqn:Ef; simpl; [|rewrite (H3 eq_refl)]; rewrite andb_false_r; reflexivity.
Qed.

(* ------------------------------------------------------------------ non-vacuity, in every shape *)
Example ok1_gap_free_m : forall m, exists e, py_eval_table ok1 = Some e /\ mode_ok m ok1 = true /\
  known_gap_m m ok1 e 4 (cls_at ok1 4) = false /\ linear ok1 = true /\
  gm_init_member m ok1 4 (cls_at ok1 4) =
    Synth [mkp 0 PK false; mkp 2 PK true; mkp 10 PK true; mkp 11 PK true; mkp 1 KO true; mkp 3 KO true; mkp 8 KO false].
Proof. intros m. exists (env_of ok1). destruct m; vm_compute; repeat split; reflexivity. Qed.

(* a diamond with overrides in both branches, a ClassVar override and an init=False override: outside the theorem in the
   FlatFilterFirst shape (G3 and G6 hold), inside it in the Accumulated shape *)
Definition dia2 : table :=
  [ mkcls D0 [P0 0; P1 1; P1 2] None [];
    mkcls D0 [P1 0; SAttr 2 AClassVar VPlain] None [0];
    mkcls D0 [SAttr 1 APlain (FA (Some false) None true false false); P1 3] None [0];
    mkcls D0 [P1 4] None [2; 1; 0] ].
Example dia2_acc : exists e, py_eval_table dia2 = Some e /\ wf_mro dia2 = true /\
  known_gap_m Accumulated dia2 e 3 (cls_at dia2 3) = false /\ known_gap_m FlatFilterFirst dia2 e 3 (cls_at dia2 3) = true /\
  gm_init_member Accumulated dia2 3 (cls_at dia2 3) = py_init_member e 3 (cls_at dia2 3) /\
  gm_init_member FlatFilterFirst dia2 3 (cls_at dia2 3) <> py_init_member e 3 (cls_at dia2 3).
Proof. exists (env_of dia2). vm_compute. repeat split; try reflexivity. discriminate. Qed.

(* ------------------------------------------------------------------ the easy parts of the property *)
Lemma handwritten_init_kept_m : forall m t e i c l, c_hw c = Some l ->
  gm_init_member m t i c = Handwritten /\ py_init_member e i c = Handwritten.
Proof. intros m t e i c l H. unfold gm_init_member, py_init_member. rewrite H. split; reflexivity. Qed.

Lemma non_dataclass_untouched_m : forall m t e i c, decorated c = false -> c_hw c = None ->
  gm_init_member m t i c = Absent /\ py_init_member e i c = Absent.
Proof.
  intros m t e i c Hd Hh. unfold gm_init_member, py_init_member, decorated in *. rewrite Hh.
  destruct (c_dec c); [discriminate|]. split; reflexivity.
Qed.

(* ------------------------------------------------------------------ the translated rules are the model's *)
Lemma kind_rule_is_model : forall v kw,
  (if kind_is_kw_only (g_kw_true v) kw (g_kw_false v) then KO else PK) = (if g_kw_true v || (kw && negb (g_kw_false v)) then KO else PK).
Proof. intros v kw. unfold kind_is_kw_only. destruct (g_kw_true v), kw, (g_kw_false v); reflexivity. Qed.

Definition is_field_call (v : value) : bool := match v with VField _ => true | _ => false end.
Definition has_value (v : value) : bool := match v with VNone => false | _ => true end.
Lemma default_rule_is_model : forall v,
  default_present (is_field_call v)
                  (match v with VField a => fa_factory a | _ => false end)
                  (match v with VField a => fa_default a | _ => false end)
                  (has_value v) = g_default v.
Proof. intros [| |a]; simpl; auto. unfold default_present. destruct (fa_factory a), (fa_default a); reflexivity. Qed.

Lemma reorder_is_model : forall l, flat_map (fun g => group_filter g l) reorder_groups = partition_params l.
Proof. intros l. unfold reorder_groups, partition_params. simpl. rewrite app_nil_r. reflexivity. Qed.

Lemma walk_is_model : mro_walk_reversed = true.
Proof. reflexivity. Qed.

Open Scope string_scope.
Lemma paths_are_model : recognised_paths = ["dataclasses.dataclass"; "dataclasses.field"; "dataclasses.KW_ONLY"; "dataclasses.InitVar"].
Proof. reflexivity. Qed.

(* the loader fires the event after both expansions (the MRO lists given to the model are those computable once star
   imports are expanded), the extension is always there, it keeps no state of its own between events, and the class
   branch of _apply_recursively runs the steps in the order Model/C18_machine.v : process implements *)
Lemma skeleton_is_model :
  post_load_steps = [PExports; PWildcards; PEvent] /\ builtin_extension_always_loaded = true /\
  seen_set_fresh_per_event = true /\ class_steps = [CLabel; CGuard; CInit; CPrune; CNested] /\ classvar_by_last_name = true /\ skips_alias_members = true.
Proof. repeat split; reflexivity. Qed.
