(* C13 proofs, part 2: the Google-style round trip  parse_google (render_google secs) = expect_google secs. *)
From Coq Require Import List Ascii String Bool Arith Lia.
From Verif Require Import Model.C13_strings Model.C13_google Model.C13_google_spec Proofs.C13_strings.
Import ListNotations.
Open Scope char_scope.
Open Scope list_scope.
Open Scope nat_scope.

Arguments ceq : simpl never.
Arguments spaces : simpl never.
Arguments is_space : simpl never.
Arguments is_word : simpl never.
Arguments printable : simpl never.
Arguments is_paren : simpl never.

Ltac btrue := repeat match goal with
  | H : _ && _ = true |- _ => apply andb_true_iff in H; destruct H
  end.

(* ---- small bridges between the boolean well-formedness predicates and the lemmas on strings *)
Lemma nsp_head_of : forall s, nonempty s = true -> first_not_space s = true -> all_printable s = true -> nsp_head s = true.
Proof.
  destruct s as [|c s]; simpl; intros Hn Hf Hp; [discriminate|].
  unfold all_printable in Hp. simpl in Hp. apply andb_true_iff in Hp. destruct Hp as [Hc _].
  rewrite (printable_space c Hc). exact Hf.
Qed.

Lemma nsp_head_unind : forall l, nsp_head l = true -> unind l = true.
Proof. destruct l as [|c l]; intros H; [discriminate|]. rewrite unind_cons. rewrite (nsp_head_ceq _ _ H). reflexivity. Qed.

Lemma lstrip_wf : forall s, first_not_space s = true -> all_printable s = true -> lstrip s = s.
Proof.
  destruct s as [|c s]; intros Hf Hp; [reflexivity|].
  apply lstrip_nsp. apply nsp_head_of; auto.
Qed.

(* ---- the tail that follows a block: nothing, or one blank line and then a line that is not indented *)
Inductive tail_ok : list str -> list str -> nat -> Prop :=
| TNil : tail_ok [] [] 0
| TBlank : forall l rest, nsp_head l = true -> tail_ok ([] :: l :: rest) [[]] 1.

Lemma tail_tr : forall tail tr n, tail_ok tail tr n -> tr = [] \/ tr = [[]].
Proof. intros tail tr n H; inversion H; auto. Qed.

Lemma rbi_stop : forall ind l rest, 1 <= ind -> nsp_head l = true -> rbi ind (l :: rest) = ([], [], 0).
Proof.
  intros ind l rest Hi Hl. simpl.
  rewrite (nsp_head_not_empty l Hl).
  rewrite !startswith_spaces_stop; auto using nsp_head_unind; lia.
Qed.

Lemma rbi_tail : forall ind tail tr n, 1 <= ind -> tail_ok tail tr n -> rbi ind tail = (tr, [], n).
Proof.
  intros ind tail tr n Hi H. inversion H; subst.
  - reflexivity.
  - change (rbi ind ([] :: l :: rest)) with (let '(c, its, k) := rbi ind (l :: rest) in ([] :: c, its, S k)).
    rewrite rbi_stop; auto.
Qed.

Lemma rbi_blank : forall ind r, rbi ind ([] :: r) = let '(c, its, k) := rbi ind r in ([] :: c, its, S k).
Proof. reflexivity. Qed.

Lemma rbi_cont : forall ind c r, 1 <= ind -> is_empty_line c = false ->
  rbi ind ((spaces (ind * 2) ++ c) :: r) = let '(cs, its, k) := rbi ind r in (c :: cs, its, S k).
Proof.
  intros ind c r Hi Hc. simpl.
  rewrite is_empty_spaces_app, Hc.
  rewrite startswith_spaces_le by lia.
  rewrite skipn_spaces. reflexivity.
Qed.

Lemma rbi_conts : forall ind conts tail, 1 <= ind -> forallb wf_cont conts = true ->
  rbi ind (map (indent_line (ind * 2)) conts ++ tail) =
  let '(c, its, k) := rbi ind tail in (conts ++ c, its, List.length conts + k).
Proof.
  intros ind conts tail Hi. induction conts as [|c0 conts IH]; intros Hw.
  - simpl. destruct (rbi ind tail) as [[c its] k]. reflexivity.
  - simpl in Hw. apply andb_true_iff in Hw. destruct Hw as [Hc Hw]. specialize (IH Hw).
    simpl map. simpl app.
    unfold wf_cont in Hc. apply andb_true_iff in Hc. destruct Hc as [Hp Hc].
    destruct c0 as [|x c0'].
    + simpl indent_line. rewrite rbi_blank. rewrite IH. destruct (rbi ind tail) as [[c its] k]. reflexivity.
    + simpl in Hc. change (indent_line (ind * 2) (x :: c0')) with (spaces (ind * 2) ++ x :: c0').
      rewrite rbi_cont; auto.
      * rewrite IH. destruct (rbi ind tail) as [[c its] k]. reflexivity.
      * apply negb_true_iff in Hc. exact Hc.
Qed.

Lemma rbi_head : forall ind h r, 1 <= ind -> nsp_head h = true ->
  rbi ind ((spaces ind ++ h) :: r) = let '(c, its, k) := rbi ind r in ([], (h :: c) :: its, S k).
Proof.
  intros ind h r Hi Hh. simpl.
  rewrite is_empty_spaces_app, (nsp_head_not_empty h Hh).
  rewrite (startswith_spaces_gt (ind * 2) ind h) by (auto; lia).
  rewrite (startswith_spaces_gt (ind + 1) ind h) by (auto; lia).
  rewrite startswith_spaces_le by lia.
  rewrite skipn_spaces. reflexivity.
Qed.

(* what the block reader hands to the item parsers: first line and continuation lines of every item; the blank line
   that separates the section from the next one ends up at the end of the last item *)
Definition raw (k : kind) (it : witem) : list str := first_line k it :: w_conts it.

Fixpoint raws (k : kind) (tr : list str) (its : list witem) : list (list str) :=
  match its with
  | [] => []
  | [it] => [raw k it ++ tr]
  | it :: r => raw k it :: raws k tr r
  end.

Definition item_ok (k : kind) (it : witem) : Prop :=
  nsp_head (first_line k it) = true /\ forallb wf_cont (w_conts it) = true.

Lemma items_lines_cons : forall ind k it r (tail : list str),
  flat_map (item_lines ind k) (it :: r) ++ tail =
  (spaces ind ++ first_line k it) :: (map (indent_line (ind * 2)) (w_conts it) ++ flat_map (item_lines ind k) r ++ tail).
Proof.
  intros. change (flat_map (item_lines ind k) (it :: r)) with (item_lines ind k it ++ flat_map (item_lines ind k) r).
  change (item_lines ind k it) with ((spaces ind ++ first_line k it) :: map (indent_line (ind * 2)) (w_conts it)).
  rewrite <- app_assoc. rewrite <- app_comm_cons. reflexivity.
Qed.

Lemma items_lines_length : forall ind k it r,
  List.length (flat_map (item_lines ind k) (it :: r)) = S (List.length (w_conts it) + List.length (flat_map (item_lines ind k) r)).
Proof.
  intros. change (flat_map (item_lines ind k) (it :: r)) with (item_lines ind k it ++ flat_map (item_lines ind k) r).
  rewrite app_length. unfold item_lines. simpl. rewrite map_length. reflexivity.
Qed.

Lemma rbi_items : forall ind k its tail tr n conts0, 1 <= ind ->
  Forall (item_ok k) its -> tail_ok tail tr n -> forallb wf_cont conts0 = true ->
  rbi ind (map (indent_line (ind * 2)) conts0 ++ flat_map (item_lines ind k) its ++ tail) =
  (conts0 ++ match its with [] => tr | _ => [] end, raws k tr its,
   List.length conts0 + List.length (flat_map (item_lines ind k) its) + n).
Proof.
  intros ind k its. induction its as [|it r IH]; intros tail tr n conts0 Hi Hok Ht Hc0.
  - simpl flat_map. simpl app. rewrite rbi_conts; auto. rewrite (rbi_tail ind tail tr n); auto.
  - inversion Hok as [|? ? [Hh Hc] Hr]; subst.
    rewrite rbi_conts; auto.
    rewrite items_lines_cons.
    rewrite rbi_head; auto.
    rewrite (IH tail tr n (w_conts it)); auto.
    rewrite items_lines_length.
    assert (E : (first_line k it :: w_conts it ++ match r with [] => tr | _ :: _ => [] end) :: raws k tr r = raws k tr (it :: r)).
    { destruct r; [reflexivity|]. rewrite app_nil_r. reflexivity. }
    rewrite E. f_equal. lia.
Qed.

Lemma read_block_items_ok : forall ind k it r tail tr n, 1 <= ind ->
  Forall (item_ok k) (it :: r) -> tail_ok tail tr n ->
  read_block_items (flat_map (item_lines ind k) (it :: r) ++ tail) =
  RBI (raws k tr (it :: r)) (List.length (flat_map (item_lines ind k) (it :: r)) + n).
Proof.
  intros ind k it r tail tr n Hi Hok Ht.
  inversion Hok as [|? ? [Hh Hc] Hr]; subst.
  rewrite items_lines_cons.
  unfold read_block_items.
  assert (He : is_empty_line (spaces ind ++ first_line k it) = false)
    by (rewrite is_empty_spaces_app; apply nsp_head_not_empty; auto).
  simpl skip_empty. rewrite He.
  rewrite indent_of_spaces by auto.
  destruct (ind =? 0) eqn:E0; [apply Nat.eqb_eq in E0; lia|].
  rewrite (rbi_items ind k r tail tr n (w_conts it)); auto.
  rewrite skipn_spaces. rewrite items_lines_length.
  assert (E : (first_line k it :: w_conts it ++ match r with [] => tr | _ :: _ => [] end) :: raws k tr r = raws k tr (it :: r)).
  { destruct r; [reflexivity|]. rewrite app_nil_r. reflexivity. }
  rewrite E. f_equal.
Qed.

(* ---- descriptions *)
Lemma lstrip_dpart : forall d0, first_not_space d0 = true -> all_printable d0 = true -> lstrip (dpart d0) = d0.
Proof.
  intros d0 Hf Hp. destruct d0 as [|c d]; [reflexivity|].
  unfold dpart. rewrite lstrip_sp_cons. apply lstrip_wf; auto.
Qed.

Lemma wf_cont_printable : forall conts l, forallb wf_cont conts = true -> In l conts -> forallb printable l = true.
Proof.
  intros conts l H Hin. rewrite forallb_forall in H. specialize (H l Hin).
  unfold wf_cont in H. apply andb_true_iff in H. destruct H as [H _]. exact H.
Qed.

Lemma last_cons_nonempty : forall (d0 : str) conts, conts <> [] -> last (d0 :: conts) [] = last conts [].
Proof. intros d0 conts H. destruct conts; [congruence|reflexivity]. Qed.

Lemma desc_join : forall d0 conts tr, wf_desc d0 conts = true -> (tr = [] \/ tr = [[]]) ->
  rstrip_nl (join_nl (d0 :: conts ++ tr)) = join_nl (d0 :: conts).
Proof.
  intros d0 conts tr Hw Htr. unfold wf_desc in Hw. btrue.
  rename H into Hp, H2 into Hf, H1 into Hc, H0 into Hl.
  assert (HP : forall l, In l (d0 :: conts) -> forallb printable l = true).
  { intros l [<-|Hin]; [exact Hp|]. eapply wf_cont_printable; eauto. }
  destruct conts as [|c1 conts'].
  - destruct d0 as [|x d0'].
    + destruct Htr as [->| ->]; reflexivity.
    + simpl app. destruct Htr as [->| ->].
      * apply (rstrip_join [x :: d0']); [discriminate|exact HP|discriminate].
      * apply (rstrip_join_snoc [x :: d0']); [discriminate|exact HP|discriminate].
  - assert (HL : last (d0 :: c1 :: conts') [] <> []).
    { rewrite last_cons_nonempty by discriminate. unfold last_nonempty in Hl.
      destruct (last (c1 :: conts') []); [discriminate|discriminate]. }
    destruct Htr as [->| ->].
    + rewrite app_nil_r. apply rstrip_join; auto. discriminate.
    + rewrite app_comm_cons. apply rstrip_join_snoc; auto. discriminate.
Qed.

Lemma desc_of_dpart : forall d0 conts tr, wf_desc d0 conts = true -> (tr = [] \/ tr = [[]]) ->
  desc_of (dpart d0) (conts ++ tr) = join_nl (d0 :: conts).
Proof.
  intros d0 conts tr Hw Htr. unfold desc_of.
  assert (H := Hw). unfold wf_desc in H. btrue.
  rewrite lstrip_dpart; auto. apply desc_join; auto.
Qed.

Lemma desc_of_lstrip_dpart : forall d0 conts tr, wf_desc d0 conts = true -> (tr = [] \/ tr = [[]]) ->
  desc_of (lstrip (dpart d0)) (conts ++ tr) = join_nl (d0 :: conts).
Proof.
  intros d0 conts tr Hw Htr. unfold desc_of.
  assert (H := Hw). unfold wf_desc in H. btrue.
  rewrite lstrip_dpart; auto. rewrite lstrip_wf; auto. apply desc_join; auto.
Qed.

Lemma desc_of_plain : forall d0 conts tr, wf_desc d0 conts = true -> (tr = [] \/ tr = [[]]) ->
  desc_of d0 (conts ++ tr) = join_nl (d0 :: conts).
Proof.
  intros d0 conts tr Hw Htr. unfold desc_of.
  assert (H := Hw). unfold wf_desc in H. btrue.
  rewrite lstrip_wf; auto. apply desc_join; auto.
Qed.


(* items: blank lines may follow the description; they come back in no description *)
Lemma wf_idesc_strict : forall d0 conts, wf_idesc d0 conts = true ->
  exists k, conts = rstrip_blank conts ++ repeat [] k /\ wf_desc d0 (rstrip_blank conts) = true.
Proof.
  intros d0 conts H. unfold wf_idesc in H. btrue.
  destruct (rstrip_blank_split conts) as [k [E _]]. exists k. split; [exact E|].
  unfold wf_desc. rewrite H, H2, H0. rewrite andb_true_r. simpl.
  rewrite E in H1. rewrite forallb_app in H1. apply andb_true_iff in H1. destruct H1 as [A _]. exact A.
Qed.

Lemma tr_blank : forall tr : list str, (tr = [] \/ tr = [[]]) -> exists n, tr = repeat [] n.
Proof. intros tr [->| ->]; [exists 0|exists 1]; reflexivity. Qed.

Lemma desc_join_i : forall d0 conts tr, wf_idesc d0 conts = true -> (tr = [] \/ tr = [[]]) ->
  rstrip_nl (join_nl (d0 :: conts ++ tr)) = join_nl (d0 :: rstrip_blank conts).
Proof.
  intros d0 conts tr Hw Htr. destruct (wf_idesc_strict d0 conts Hw) as [k [E Hs]].
  destruct (tr_blank tr Htr) as [n ->].
  rewrite E at 1. rewrite <- app_assoc. rewrite <- repeat_app. rewrite app_comm_cons.
  rewrite join_nl_blanks by discriminate.
  unfold rstrip_nl. rewrite rstrip_by_app_drop by (apply forallb_repeat; reflexivity).
  assert (H := desc_join d0 (rstrip_blank conts) [] Hs (or_introl eq_refl)). rewrite app_nil_r in H. exact H.
Qed.

Lemma desc_of_dpart_i : forall d0 conts tr, wf_idesc d0 conts = true -> (tr = [] \/ tr = [[]]) ->
  desc_of (dpart d0) (conts ++ tr) = join_nl (d0 :: rstrip_blank conts).
Proof.
  intros d0 conts tr Hw Htr. unfold desc_of.
  assert (H := Hw). unfold wf_idesc in H. btrue.
  rewrite lstrip_dpart; auto. apply desc_join_i; auto.
Qed.

Lemma desc_of_lstrip_dpart_i : forall d0 conts tr, wf_idesc d0 conts = true -> (tr = [] \/ tr = [[]]) ->
  desc_of (lstrip (dpart d0)) (conts ++ tr) = join_nl (d0 :: rstrip_blank conts).
Proof.
  intros d0 conts tr Hw Htr. unfold desc_of.
  assert (H := Hw). unfold wf_idesc in H. btrue.
  rewrite lstrip_dpart; auto. rewrite lstrip_wf; auto. apply desc_join_i; auto.
Qed.

Lemma desc_of_plain_i : forall d0 conts tr, wf_idesc d0 conts = true -> (tr = [] \/ tr = [[]]) ->
  desc_of d0 (conts ++ tr) = join_nl (d0 :: rstrip_blank conts).
Proof.
  intros d0 conts tr Hw Htr. unfold desc_of.
  assert (H := Hw). unfold wf_idesc in H. btrue.
  rewrite lstrip_wf; auto. apply desc_join_i; auto.
Qed.

Lemma first_line_head : forall k it h, head_of k it = Some h -> first_line k it = h ++ colon :: dpart (w_d0 it).
Proof. intros k it h H. unfold first_line. rewrite H. reflexivity. Qed.

(* ---- characters of names, annotations *)
Lemma ceq_sym : forall a b, ceq a b = ceq b a.
Proof.
  intros. destruct (ceq a b) eqn:E.
  - apply ceq_eq in E. subst. symmetry. apply ceq_refl.
  - symmetry. apply ceq_neq. apply ceq_neq in E. congruence.
Qed.

Lemma not_contains : forall (f : ascii -> bool) c s, forallb f s = true -> (forall x, f x = true -> ceq c x = false) ->
  contains_char c s = false.
Proof.
  intros f c s H Hf. induction s as [|x s IH]; [reflexivity|].
  simpl in H. apply andb_true_iff in H. destruct H as [H1 H2].
  unfold contains_char. simpl. rewrite (Hf x H1). simpl. apply IH. exact H2.
Qed.

Lemma name_char_colon : forall x, name_char x = true -> ceq colon x = false.
Proof. intros x H. unfold name_char in H. btrue. rewrite ceq_sym. apply negb_true_iff. exact H0. Qed.

Lemma name_char_sp : forall x, name_char x = true -> ceq sp x = false.
Proof. intros x H. unfold name_char in H. btrue. rewrite ceq_sym. apply negb_true_iff. exact H1. Qed.

Lemma name_char_printable : forall x, name_char x = true -> printable x = true.
Proof. intros x H. unfold name_char in H. btrue. exact H. Qed.

Lemma nsp_head_app : forall a b, nsp_head a = true -> nsp_head (a ++ b) = true.
Proof. destruct a; intros; [discriminate|exact H]. Qed.

Lemma wf_name_facts : forall n, wf_name n = true ->
  n <> [] /\ contains_char colon n = false /\ contains_char sp n = false /\ nsp_head n = true.
Proof.
  intros n H. unfold wf_name in H. btrue. rename H into Hn, H0 into Hc.
  repeat split.
  - destruct n; [discriminate|discriminate].
  - eapply not_contains; eauto using name_char_colon.
  - eapply not_contains; eauto using name_char_sp.
  - destruct n as [|x n']; [discriminate|]. simpl in Hc. btrue. simpl.
    rewrite (printable_space x (name_char_printable x H)). rewrite ceq_sym. rewrite (name_char_sp x H). reflexivity.
Qed.

Lemma contains_colon_not : forall a, negb (contains_char colon a) = true -> contains_char colon a = false.
Proof. intros a H. apply negb_true_iff in H. exact H. Qed.

Lemma clean_annotation_ok : forall a, wf_ann a = true -> clean_annotation (lparen :: a ++ [rparen]) = a.
Proof.
  intros a H. unfold wf_ann in H.
  apply andb_true_iff in H; destruct H as [H Hopt].
  apply andb_true_iff in H; destruct H as [H Hlast].
  apply andb_true_iff in H; destruct H as [H Hhd].
  apply andb_true_iff in H; destruct H as [H Hcol].
  apply andb_true_iff in H; destruct H as [Hn Hp].
  apply negb_true_iff in Hopt, Hlast, Hhd.
  unfold clean_annotation, strip_parens.
  change (lstrip_by is_paren (lparen :: a ++ [rparen])) with (lstrip_by is_paren (a ++ [rparen])).
  assert (E1 : lstrip_by is_paren (a ++ [rparen]) = a ++ [rparen]).
  { apply lstrip_by_noop. destruct a; [discriminate|]. exact Hhd. }
  rewrite E1.
  rewrite rstrip_by_app_drop by reflexivity.
  assert (E2 : rstrip_by is_paren a = a).
  { apply rstrip_by_noop. intros d _. destruct a as [|x a']; [discriminate|].
    replace (last (x :: a') d) with (last (x :: a') sp); [exact Hlast|].
    clear. revert x. induction a' as [|y a'' IH]; intros x; [reflexivity|]. simpl. destruct a''; [reflexivity|]. apply (IH y). }
  rewrite E2. apply removesuffix_noop. exact Hopt.
Qed.

Lemma contains_colon_annpart : forall a, contains_char colon a = false ->
  contains_char colon (sp :: lparen :: a ++ [rparen]) = false.
Proof.
  intros a H. unfold contains_char in *. simpl. rewrite existsb_app. rewrite H. reflexivity.
Qed.

Lemma contains_colon_sigpart : forall a, contains_char colon a = false ->
  contains_char colon (lparen :: a ++ [rparen]) = false.
Proof.
  intros a H. unfold contains_char in *. simpl. rewrite existsb_app. rewrite H. reflexivity.
Qed.

(* ---- Parameters / Other Parameters *)
Lemma parse_param_ok : forall c k it tr, (k = KParams \/ k = KOther) -> wf_item k it = true -> (tr = [] \/ tr = [[]]) ->
  parse_param c (raw k it ++ tr) = Some (expect_item c k false 0 it).
Proof.
  intros c k it tr Hk Hw Htr.
  assert (Hw' : wf_idesc (w_d0 it) (w_conts it) = true /\
                is_some (w_name it) && opt_all wf_name (w_name it) && opt_all wf_ann (w_ann it) = true).
  { unfold wf_item in Hw. apply andb_true_iff in Hw. destruct Hk; subst; exact Hw. }
  destruct Hw' as [Hd Hna].
  apply andb_true_iff in Hna; destruct Hna as [Hna Han].
  apply andb_true_iff in Hna; destruct Hna as [Hsome Hnm].
  destruct it as [on oa d0 conts]. simpl in *.
  destruct on as [n|]; [|discriminate]. simpl in Hnm.
  destruct (wf_name_facts n Hnm) as [Hne [Hcol [Hsp Hns]]].
  unfold raw, first_line.
  assert (Hhead : head_of k (mkW (Some n) oa d0 conts) = Some (n ++ match oa with Some a => sp :: lparen :: a ++ [rparen] | None => [] end))
    by (destruct Hk; subst; reflexivity).
  rewrite Hhead. simpl w_d0. simpl w_conts.
  unfold parse_param.
  destruct oa as [a|].
  - simpl in Han. assert (Ha := Han). unfold wf_ann in Ha.
    apply andb_true_iff in Ha; destruct Ha as [Ha _].
    apply andb_true_iff in Ha; destruct Ha as [Ha _].
    apply andb_true_iff in Ha; destruct Ha as [Ha _].
    apply andb_true_iff in Ha; destruct Ha as [_ Hacol].
    rewrite split_first_app.
    2:{ rewrite contains_char_app, Hcol. apply contains_colon_annpart. apply contains_colon_not. exact Hacol. }
    rewrite split_first_app by exact Hsp.
    rewrite clean_annotation_ok by exact Han.
    rewrite desc_of_dpart_i by auto.
    destruct Hk; subst; reflexivity.
  - rewrite app_nil_r.
    rewrite split_first_app by exact Hcol.
    rewrite split_first_none by exact Hsp.
    rewrite desc_of_dpart_i by auto.
    destruct Hk; subst; simpl; destruct (lookup_param c n) as [[a v]|]; reflexivity.
Qed.

Lemma raws_cons : forall k tr it r,
  raws k tr (it :: r) = (raw k it ++ match r with [] => tr | _ => [] end) :: raws k tr r.
Proof. intros. destruct r; [reflexivity|]. simpl. rewrite app_nil_r. reflexivity. Qed.

Lemma tr_sub : forall (tr : list str) (r : list witem), (tr = [] \/ tr = [[]]) ->
  (match r with [] => tr | _ => [] end = [] \/ match r with [] => tr | _ => [] end = [[]]).
Proof. intros. destruct r; auto. Qed.

Lemma filter_map_raws : forall (f : list str -> option pitem) (g : witem -> pitem) k tr its,
  (tr = [] \/ tr = [[]]) ->
  (forall it tr', In it its -> (tr' = [] \/ tr' = [[]]) -> f (raw k it ++ tr') = Some (g it)) ->
  filter_map f (raws k tr its) = map g its.
Proof.
  intros f g k tr its Htr. induction its as [|it r IH]; intros H; [reflexivity|].
  rewrite raws_cons.
  change (filter_map f ((raw k it ++ match r with [] => tr | _ => [] end) :: raws k tr r)) with
    (match f (raw k it ++ match r with [] => tr | _ => [] end) with
     | Some y => y :: filter_map f (raws k tr r) | None => filter_map f (raws k tr r) end).
  rewrite (H it _ (or_introl eq_refl) (tr_sub tr r Htr)).
  simpl map. f_equal. apply IH. intros it' tr' Hin Ht'. apply H; auto. right; exact Hin.
Qed.

(* ---- Attributes *)
Lemma parse_attr_ok : forall c it tr, wf_item KAttrs it = true -> (tr = [] \/ tr = [[]]) ->
  parse_attr c (raw KAttrs it ++ tr) = Some (expect_item c KAttrs false 0 it).
Proof.
  intros c it tr Hw Htr.
  unfold wf_item in Hw. apply andb_true_iff in Hw. destruct Hw as [Hd Hna].
  apply andb_true_iff in Hna; destruct Hna as [Hna Han].
  apply andb_true_iff in Hna; destruct Hna as [Hsome Hnm].
  destruct it as [on oa d0 conts]. simpl in Hd, Hsome, Hnm, Han.
  destruct on as [n|]; [|discriminate]. simpl in Hnm.
  destruct (wf_name_facts n Hnm) as [Hne [Hcol [Hsp Hns]]].
  unfold raw, first_line. simpl head_of. simpl w_d0. simpl w_conts.
  try rewrite <- app_comm_cons. unfold parse_attr.
  destruct oa as [a|].
  - simpl in Han. assert (Ha := Han). unfold wf_ann in Ha.
    apply andb_true_iff in Ha; destruct Ha as [Ha _].
    apply andb_true_iff in Ha; destruct Ha as [Ha _].
    apply andb_true_iff in Ha; destruct Ha as [Ha _].
    apply andb_true_iff in Ha; destruct Ha as [_ Hacol].
    rewrite split_first_app.
    2:{ rewrite contains_char_app, Hcol. apply contains_colon_annpart. apply contains_colon_not. exact Hacol. }
    rewrite split_first_app by exact Hsp.
    rewrite clean_annotation_ok by exact Han.
    rewrite desc_of_dpart_i by auto. reflexivity.
  - rewrite app_nil_r.
    rewrite split_first_app by exact Hcol.
    rewrite split_first_none by exact Hsp.
    rewrite desc_of_dpart_i by auto.
    simpl. destruct (lookup_attr c n); reflexivity.
Qed.

(* ---- Functions / Classes *)
Lemma wf_fname_facts : forall n, wf_fname n = true -> wf_name n = true /\ contains_char lparen n = false.
Proof. intros n H. unfold wf_fname in H. apply andb_true_iff in H. destruct H as [H1 H2]. apply negb_true_iff in H2. auto. Qed.

Lemma parse_func_ok : forall c k it tr, (k = KFuncs \/ k = KClasses) -> wf_item k it = true -> (tr = [] \/ tr = [[]]) ->
  parse_func (raw k it ++ tr) = Some (expect_item c k false 0 it).
Proof.
  intros c k it tr Hk Hw Htr.
  assert (Hw' : wf_idesc (w_d0 it) (w_conts it) = true /\
                is_some (w_name it) && opt_all wf_fname (w_name it) && opt_all wf_sigargs (w_ann it) = true).
  { unfold wf_item in Hw. apply andb_true_iff in Hw. destruct Hk; subst; exact Hw. }
  destruct Hw' as [Hd Hna].
  apply andb_true_iff in Hna; destruct Hna as [Hna Han].
  apply andb_true_iff in Hna; destruct Hna as [Hsome Hnm].
  destruct it as [on oa d0 conts]. simpl in *.
  destruct on as [n|]; [|discriminate]. simpl in Hnm.
  destruct (wf_fname_facts n Hnm) as [Hnm' Hlp].
  destruct (wf_name_facts n Hnm') as [Hne [Hcol [Hsp Hns]]].
  unfold raw, first_line.
  assert (Hhead : head_of k (mkW (Some n) oa d0 conts) = Some (n ++ match oa with Some a => lparen :: a ++ [rparen] | None => [] end))
    by (destruct Hk; subst; reflexivity).
  rewrite Hhead. simpl w_d0. simpl w_conts.
  unfold parse_func.
  destruct oa as [a|].
  - simpl in Han. unfold wf_sigargs in Han. apply andb_true_iff in Han. destruct Han as [_ Hacol].
    rewrite split_first_app.
    2:{ rewrite contains_char_app, Hcol. apply contains_colon_sigpart. apply contains_colon_not. exact Hacol. }
    rewrite split_first_app by exact Hlp.
    rewrite desc_of_dpart_i by auto.
    destruct Hk; subst; reflexivity.
  - rewrite app_nil_r.
    rewrite split_first_app by exact Hcol.
    rewrite split_first_none by exact Hlp.
    rewrite desc_of_dpart_i by auto.
    destruct Hk; subst; reflexivity.
Qed.

(* ---- Modules *)
Lemma parse_module_ok : forall c it tr, wf_item KModules it = true -> (tr = [] \/ tr = [[]]) ->
  parse_module (raw KModules it ++ tr) = Some (expect_item c KModules false 0 it).
Proof.
  intros c it tr Hw Htr.
  unfold wf_item in Hw. apply andb_true_iff in Hw. destruct Hw as [Hd Hna].
  apply andb_true_iff in Hna; destruct Hna as [Hna Han].
  apply andb_true_iff in Hna; destruct Hna as [Hsome Hnm].
  destruct it as [on oa d0 conts]. simpl in *.
  destruct on as [n|]; [|discriminate]. simpl in Hnm.
  destruct oa; [discriminate|].
  destruct (wf_name_facts n Hnm) as [Hne [Hcol [Hsp Hns]]].
  unfold raw, first_line. simpl head_of. simpl w_d0. simpl w_conts.
  unfold parse_module.
  rewrite split_first_app by exact Hcol.
  rewrite desc_of_dpart_i by auto. reflexivity.
Qed.

(* ---- Raises / Warns *)
Lemma parse_raise_ok : forall c k it tr, (k = KRaises \/ k = KWarns) -> wf_item k it = true -> (tr = [] \/ tr = [[]]) ->
  parse_raise (raw k it ++ tr) = Some (expect_item c k false 0 it).
Proof.
  intros c k it tr Hk Hw Htr.
  assert (Hw' : wf_idesc (w_d0 it) (w_conts it) = true /\
                negb (is_some (w_name it)) && is_some (w_ann it) && opt_all wf_exc (w_ann it) = true).
  { unfold wf_item in Hw. apply andb_true_iff in Hw. destruct Hk; subst; exact Hw. }
  destruct Hw' as [Hd Hna].
  apply andb_true_iff in Hna; destruct Hna as [Hna Han].
  apply andb_true_iff in Hna; destruct Hna as [Hnone Hsome].
  destruct it as [on oa d0 conts]. simpl in *.
  destruct on; [discriminate|]. destruct oa as [a|]; [|discriminate]. simpl in Han.
  unfold wf_exc in Han.
  apply andb_true_iff in Han; destruct Han as [Han Hfs].
  apply andb_true_iff in Han; destruct Han as [Han Hacol].
  unfold raw, first_line.
  assert (Hhead : head_of k (mkW None (Some a) d0 conts) = Some a) by (destruct Hk; subst; reflexivity).
  rewrite Hhead. simpl w_d0. simpl w_conts.
  unfold parse_raise.
  rewrite split_first_app by (apply contains_colon_not; exact Hacol).
  rewrite desc_of_dpart_i by auto.
  destruct Hk; subst; reflexivity.
Qed.

(* ---- Returns / Yields / Receives: the hand-compiled _RE_NAME_ANNOTATION_DESCRIPTION on rendered first lines *)
Lemma re_nad_default : forall line,
  (match lstrip (snd (span is_word line)) with c :: _ => ceq c colon = false /\ ceq c lparen = false | [] => True end) ->
  re_name_annotation_description line = (None, None, line).
Proof.
  intros line H. unfold re_name_annotation_description.
  destruct (span is_word line) as [w r1]. simpl snd in H.
  destruct (lstrip r1) as [|c r2]; [reflexivity|].
  destruct H as [H1 H2].
  destruct c as [[] [] [] [] [] [] [] []]; try reflexivity; (vm_compute in H1; vm_compute in H2; discriminate).
Qed.

Lemma wf_word_facts : forall n, wf_word n = true -> n <> [] /\ forallb is_word n = true /\ nsp_head n = true.
Proof.
  intros n H. unfold wf_word in H. apply andb_true_iff in H. destruct H as [Hn Hw].
  repeat split; auto.
  - destruct n; discriminate.
  - destruct n as [|x n']; [discriminate|]. simpl in Hw. apply andb_true_iff in Hw. destruct Hw as [Hx _].
    simpl. rewrite (word_not_space x Hx). reflexivity.
Qed.

Lemma re_nad_name_type : forall n a dp, wf_word n = true -> a <> [] -> has_parencolon a = false ->
  re_name_annotation_description (n ++ sp :: lparen :: a ++ rparen :: colon :: dp) = (Some n, Some a, lstrip dp).
Proof.
  intros n a dp Hn Ha Hdp. destruct (wf_word_facts n Hn) as [Hne [Hw _]].
  unfold re_name_annotation_description.
  rewrite (span_app is_word n (sp :: lparen :: a ++ rparen :: colon :: dp) Hw) by reflexivity.
  rewrite lstrip_sp_cons.
  change (lstrip (lparen :: a ++ rparen :: colon :: dp)) with (lparen :: a ++ rparen :: colon :: dp).
  unfold lparen, rparen, colon.
  rewrite (fpc_app a dp Ha Hdp).
  destruct n; [congruence|reflexivity].
Qed.

Lemma re_nad_name : forall n dp, wf_word n = true ->
  re_name_annotation_description (n ++ colon :: dp) = (Some n, None, lstrip dp).
Proof.
  intros n dp Hn. destruct (wf_word_facts n Hn) as [Hne [Hw _]].
  unfold re_name_annotation_description.
  rewrite (span_app is_word n (colon :: dp) Hw) by reflexivity.
  change (lstrip (colon :: dp)) with (colon :: dp).
  unfold colon.
  destruct n; [congruence|reflexivity].
Qed.

Lemma re_nad_type : forall a dp, a <> [] -> has_parencolon a = false ->
  re_name_annotation_description (lparen :: a ++ rparen :: colon :: dp) = (None, Some a, lstrip dp).
Proof.
  intros a dp Ha Hdp.
  unfold re_name_annotation_description.
  change (span is_word (lparen :: a ++ rparen :: colon :: dp)) with (@nil ascii, lparen :: a ++ rparen :: colon :: dp).
  cbv beta iota zeta.
  change (lstrip (lparen :: a ++ rparen :: colon :: dp)) with (lparen :: a ++ rparen :: colon :: dp).
  unfold lparen, rparen, colon. cbv beta iota zeta.
  rewrite (fpc_app a dp Ha Hdp). reflexivity.
Qed.

Definition rkind (k : kind) : Prop := k = KReturns \/ k = KYields \/ k = KReceives.

Lemma wf_item_rkind : forall k it, rkind k -> wf_item k it = true ->
  wf_idesc (w_d0 it) (w_conts it) = true /\
  opt_all wf_word (w_name it) = true /\
  opt_all wf_rann (w_ann it) = true /\
  (if is_some (w_name it) || is_some (w_ann it) then true else wf_desc_only (w_d0 it)) = true.
Proof.
  intros k it Hk Hw. unfold wf_item in Hw. apply andb_true_iff in Hw. destruct Hw as [Hd Hr].
  assert (Hr' : opt_all wf_word (w_name it) && opt_all wf_rann (w_ann it)
      && (if is_some (w_name it) || is_some (w_ann it) then true else wf_desc_only (w_d0 it)) = true)
    by (destruct Hk as [->|[->| ->]]; exact Hr).
  apply andb_true_iff in Hr'; destruct Hr' as [Hr' H4].
  apply andb_true_iff in Hr'; destruct Hr' as [H1 H2].
  auto.
Qed.

Lemma wf_rann_facts : forall a, wf_rann a = true -> a <> [] /\ has_parencolon a = false /\ nonempty a = true.
Proof.
  intros a H. unfold wf_rann in H. apply andb_true_iff in H. destruct H as [H Hp]. apply andb_true_iff in H. destruct H as [Hn _].
  apply negb_true_iff in Hp. repeat split; auto. destruct a; [discriminate|discriminate].
Qed.

Lemma head_of_rkind : forall k it, rkind k ->
  head_of k it = match w_name it, w_ann it with
                 | None, None => None
                 | Some n, None => Some n
                 | None, Some a => Some (lparen :: a ++ [rparen])
                 | Some n, Some a => Some (n ++ sp :: lparen :: a ++ [rparen])
                 end.
Proof. intros k it [->|[->| ->]]; reflexivity. Qed.

Lemma nonempty_ne : forall (a : str), nonempty a = true -> a <> [].
Proof. destruct a; [discriminate|discriminate]. Qed.

Lemma get_nad_ok : forall k it tr, rkind k -> wf_item k it = true -> (tr = [] \/ tr = [[]]) ->
  get_nad true (raw k it ++ tr) = Some (w_name it, w_ann it, join_nl (w_d0 it :: rstrip_blank (w_conts it))).
Proof.
  intros k it tr Hk Hw Htr.
  destruct (wf_item_rkind k it Hk Hw) as [Hd [Hn [Ha Hdo]]].
  destruct it as [on oa d0 conts]. simpl in Hd, Hn, Ha, Hdo.
  unfold raw, first_line. rewrite (head_of_rkind k _ Hk). simpl w_name. simpl w_ann. simpl w_d0. simpl w_conts.
  destruct on as [n|]; destruct oa as [a|]; simpl in Hn, Ha, Hdo.
  - destruct (wf_rann_facts a Ha) as [Hane [Hpc _]].
    replace ((n ++ sp :: lparen :: a ++ [rparen]) ++ colon :: dpart d0) with (n ++ sp :: lparen :: a ++ rparen :: colon :: dpart d0)
      by (rewrite <- app_assoc; simpl; rewrite <- app_assoc; reflexivity).
    rewrite <- app_comm_cons. unfold get_nad.
    rewrite re_nad_name_type; auto.
    rewrite desc_of_lstrip_dpart_i by auto. reflexivity.
  - rewrite <- app_comm_cons. unfold get_nad. rewrite re_nad_name by auto.
    rewrite desc_of_lstrip_dpart_i by auto. reflexivity.
  - destruct (wf_rann_facts a Ha) as [Hane [Hpc _]].
    replace ((lparen :: a ++ [rparen]) ++ colon :: dpart d0) with (lparen :: a ++ rparen :: colon :: dpart d0)
      by (simpl; rewrite <- app_assoc; reflexivity).
    rewrite <- app_comm_cons. unfold get_nad.
    rewrite re_nad_type; auto.
    rewrite desc_of_lstrip_dpart_i by auto. reflexivity.
  - unfold wf_desc_only in Hdo. apply andb_true_iff in Hdo. destruct Hdo as [Hne Hdo].
    rewrite <- app_comm_cons. unfold get_nad.
    rewrite re_nad_default.
    + rewrite desc_of_plain_i by auto. reflexivity.
    + destruct (lstrip (snd (span is_word d0))); [exact I|].
      apply andb_true_iff in Hdo. destruct Hdo as [H1 H2]. apply negb_true_iff in H1, H2. auto.
Qed.

Lemma truthy_ann : forall (a : str), nonempty a = true -> truthy (Some a) = true.
Proof. destruct a; [discriminate|reflexivity]. Qed.

Lemma parse_ret_items_ok : forall c k its tr multiple index, rkind k -> (tr = [] \/ tr = [[]]) ->
  forallb (wf_item k) its = true ->
  parse_ret_items c true (gen_index_of k) multiple index (raws k tr its) = expect_items c k multiple index its.
Proof.
  intros c k its tr multiple. induction its as [|it r IH]; intros index Hk Htr Hw; [reflexivity|].
  simpl in Hw. apply andb_true_iff in Hw. destruct Hw as [Hw Hwr].
  rewrite raws_cons.
  change (parse_ret_items c true (gen_index_of k) multiple index ((raw k it ++ match r with [] => tr | _ => [] end) :: raws k tr r))
    with (match get_nad true (raw k it ++ match r with [] => tr | _ => [] end) with
          | None => parse_ret_items c true (gen_index_of k) multiple (S index) (raws k tr r)
          | Some (name, ann, d) =>
              mkItem (Some (match name with Some n => n | None => [] end))
                     (if truthy ann then ann else annotation_from_parent c (gen_index_of k) multiple index) d None
                :: parse_ret_items c true (gen_index_of k) multiple (S index) (raws k tr r)
          end).
  rewrite (get_nad_ok k it _ Hk Hw (tr_sub tr r Htr)).
  rewrite IH by auto.
  simpl expect_items. f_equal.
  destruct (wf_item_rkind k it Hk Hw) as [_ [_ [Ha _]]].
  destruct it as [on oa d0 conts]. simpl w_name. simpl w_ann. simpl w_d0. simpl w_conts. simpl in Ha.
  assert (E : (if truthy oa then oa else annotation_from_parent c (gen_index_of k) multiple index)
              = orelse oa (annotation_from_parent c (gen_index_of k) multiple index)).
  { destruct oa as [a|]; [|reflexivity]. simpl in Ha. destruct (wf_rann_facts a Ha) as [_ [_ Hane]].
    rewrite (truthy_ann a Hane). reflexivity. }
  rewrite E.
  destruct Hk as [->|[->| ->]]; reflexivity.
Qed.

(* ---- every well-formed item starts its first line with a non-blank and has well-formed continuation lines *)
Lemma wf_desc_conts : forall d0 conts, wf_desc d0 conts = true -> forallb wf_cont conts = true.
Proof.
  intros d0 conts H. unfold wf_desc in H.
  apply andb_true_iff in H; destruct H as [H _].
  apply andb_true_iff in H; destruct H as [_ H]. exact H.
Qed.

Lemma wf_desc_d0 : forall d0 conts, wf_desc d0 conts = true -> all_printable d0 = true /\ first_not_space d0 = true.
Proof.
  intros d0 conts H. unfold wf_desc in H.
  apply andb_true_iff in H; destruct H as [H _].
  apply andb_true_iff in H; destruct H as [H _].
  apply andb_true_iff in H; destruct H as [H1 H2]. auto.
Qed.

Lemma wf_idesc_conts : forall d0 conts, wf_idesc d0 conts = true -> forallb wf_cont conts = true.
Proof.
  intros d0 conts H. unfold wf_idesc in H.
  apply andb_true_iff in H; destruct H as [H _].
  apply andb_true_iff in H; destruct H as [_ H]. exact H.
Qed.

Lemma wf_idesc_d0 : forall d0 conts, wf_idesc d0 conts = true -> all_printable d0 = true /\ first_not_space d0 = true.
Proof.
  intros d0 conts H. unfold wf_idesc in H.
  apply andb_true_iff in H; destruct H as [H _].
  apply andb_true_iff in H; destruct H as [H _].
  apply andb_true_iff in H; destruct H as [H1 H2]. auto.
Qed.

Lemma nsp_head_lparen : forall s, nsp_head (lparen :: s) = true.
Proof. reflexivity. Qed.

Lemma wf_item_ok : forall k it, wf_item k it = true -> item_ok k it.
Proof.
  intros k it Hw. split.
  2:{ unfold wf_item in Hw. apply andb_true_iff in Hw. destruct Hw as [Hd _]. eapply wf_idesc_conts; eauto. }
  assert (Hw0 := Hw). unfold wf_item in Hw. apply andb_true_iff in Hw. destruct Hw as [Hd Hr].
  destruct (wf_idesc_d0 _ _ Hd) as [Hp0 Hf0].
  destruct it as [on oa d0 conts]. simpl in Hd, Hp0, Hf0.
  unfold first_line.
  destruct k; simpl in Hr; try discriminate.
  - (* KParams *)
    apply andb_true_iff in Hr; destruct Hr as [Hr _]. apply andb_true_iff in Hr; destruct Hr as [Hs Hn].
    destruct on as [n|]; [|discriminate]. simpl in Hn. destruct (wf_name_facts n Hn) as [_ [_ [_ Hns]]].
    simpl. apply nsp_head_app. apply nsp_head_app. exact Hns.
  - (* KOther *)
    apply andb_true_iff in Hr; destruct Hr as [Hr _]. apply andb_true_iff in Hr; destruct Hr as [Hs Hn].
    destruct on as [n|]; [|discriminate]. simpl in Hn. destruct (wf_name_facts n Hn) as [_ [_ [_ Hns]]].
    simpl. apply nsp_head_app. apply nsp_head_app. exact Hns.
  - (* KRaises *)
    apply andb_true_iff in Hr; destruct Hr as [Hr Ha]. apply andb_true_iff in Hr; destruct Hr as [_ Hs].
    destruct oa as [a|]; [|discriminate]. simpl in Ha. unfold wf_exc in Ha.
    apply andb_true_iff in Ha; destruct Ha as [Ha Hfs]. apply andb_true_iff in Ha; destruct Ha as [Ha _].
    apply andb_true_iff in Ha; destruct Ha as [Hne Hp].
    simpl. apply nsp_head_app. apply nsp_head_of; auto.
  - (* KWarns *)
    apply andb_true_iff in Hr; destruct Hr as [Hr Ha]. apply andb_true_iff in Hr; destruct Hr as [_ Hs].
    destruct oa as [a|]; [|discriminate]. simpl in Ha. unfold wf_exc in Ha.
    apply andb_true_iff in Ha; destruct Ha as [Ha Hfs]. apply andb_true_iff in Ha; destruct Ha as [Ha _].
    apply andb_true_iff in Ha; destruct Ha as [Hne Hp].
    simpl. apply nsp_head_app. apply nsp_head_of; auto.
  - (* KAttrs *)
    apply andb_true_iff in Hr; destruct Hr as [Hr _]. apply andb_true_iff in Hr; destruct Hr as [Hs Hn].
    destruct on as [n|]; [|discriminate]. simpl in Hn. destruct (wf_name_facts n Hn) as [_ [_ [_ Hns]]].
    simpl. apply nsp_head_app. apply nsp_head_app. exact Hns.
  - (* KFuncs *)
    apply andb_true_iff in Hr; destruct Hr as [Hr _]. apply andb_true_iff in Hr; destruct Hr as [Hs Hn].
    destruct on as [n|]; [|discriminate]. simpl in Hn. destruct (wf_fname_facts n Hn) as [Hn' _].
    destruct (wf_name_facts n Hn') as [_ [_ [_ Hns]]].
    simpl. apply nsp_head_app. apply nsp_head_app. exact Hns.
  - (* KClasses *)
    apply andb_true_iff in Hr; destruct Hr as [Hr _]. apply andb_true_iff in Hr; destruct Hr as [Hs Hn].
    destruct on as [n|]; [|discriminate]. simpl in Hn. destruct (wf_fname_facts n Hn) as [Hn' _].
    destruct (wf_name_facts n Hn') as [_ [_ [_ Hns]]].
    simpl. apply nsp_head_app. apply nsp_head_app. exact Hns.
  - (* KModules *)
    apply andb_true_iff in Hr; destruct Hr as [Hr _]. apply andb_true_iff in Hr; destruct Hr as [Hs Hn].
    destruct on as [n|]; [|discriminate]. simpl in Hn. destruct (wf_name_facts n Hn) as [_ [_ [_ Hns]]].
    simpl. apply nsp_head_app. exact Hns.
  - (* KReturns *)
    destruct (wf_item_rkind KReturns _ (or_introl eq_refl) Hw0) as [_ [Hn [Ha Hdo]]]. simpl in Hn, Ha, Hdo.
    destruct on as [n|]; destruct oa as [a|]; simpl in *.
    + destruct (wf_word_facts n Hn) as [_ [_ Hns]]. apply nsp_head_app. apply nsp_head_app. exact Hns.
    + destruct (wf_word_facts n Hn) as [_ [_ Hns]]. apply nsp_head_app. exact Hns.
    + reflexivity.
    + unfold wf_desc_only in Hdo. apply andb_true_iff in Hdo. destruct Hdo as [Hne _]. apply nsp_head_of; auto.
  - (* KYields *)
    destruct (wf_item_rkind KYields _ (or_intror (or_introl eq_refl)) Hw0) as [_ [Hn [Ha Hdo]]]. simpl in Hn, Ha, Hdo.
    destruct on as [n|]; destruct oa as [a|]; simpl in *.
    + destruct (wf_word_facts n Hn) as [_ [_ Hns]]. apply nsp_head_app. apply nsp_head_app. exact Hns.
    + destruct (wf_word_facts n Hn) as [_ [_ Hns]]. apply nsp_head_app. exact Hns.
    + reflexivity.
    + unfold wf_desc_only in Hdo. apply andb_true_iff in Hdo. destruct Hdo as [Hne _]. apply nsp_head_of; auto.
  - (* KReceives *)
    destruct (wf_item_rkind KReceives _ (or_intror (or_intror eq_refl)) Hw0) as [_ [Hn [Ha Hdo]]]. simpl in Hn, Ha, Hdo.
    destruct on as [n|]; destruct oa as [a|]; simpl in *.
    + destruct (wf_word_facts n Hn) as [_ [_ Hns]]. apply nsp_head_app. apply nsp_head_app. exact Hns.
    + destruct (wf_word_facts n Hn) as [_ [_ Hns]]. apply nsp_head_app. exact Hns.
    + reflexivity.
    + unfold wf_desc_only in Hdo. apply andb_true_iff in Hdo. destruct Hdo as [Hne _]. apply nsp_head_of; auto.
Qed.

Lemma wf_items_ok : forall k its, forallb (wf_item k) its = true -> Forall (item_ok k) its.
Proof.
  intros k its H. apply Forall_forall. intros it Hin. rewrite forallb_forall in H. apply wf_item_ok. apply H. exact Hin.
Qed.

(* ---- a whole items section *)
Lemma raws_length : forall k tr its, List.length (raws k tr its) = List.length its.
Proof.
  intros k tr its. induction its as [|it r IH]; [reflexivity|]. rewrite raws_cons. simpl. rewrite IH. reflexivity.
Qed.

Definition plain_kind (k : kind) : Prop :=
  k = KParams \/ k = KOther \/ k = KAttrs \/ k = KFuncs \/ k = KClasses \/ k = KModules \/ k = KRaises \/ k = KWarns.

Lemma expect_items_map : forall c k m i its, plain_kind k ->
  expect_items c k m i its = map (expect_item c k false 0) its.
Proof.
  intros c k m i its Hk. revert i. induction its as [|it r IH]; intros i; [reflexivity|].
  simpl. rewrite IH. f_equal.
  destruct Hk as [->|[->|[->|[->|[->|[->|[->| ->]]]]]]]; reflexivity.
Qed.

Lemma forallb_in : forall (f : witem -> bool) its it, forallb f its = true -> In it its -> f it = true.
Proof. intros f its it H Hin. rewrite forallb_forall in H. auto. Qed.

Lemma read_section_ok : forall o c k ind it r tail tr n, 1 <= ind ->
  forallb (wf_item k) (it :: r) = true ->
  tail_ok tail tr n ->
  (if rkindb k then let '(m, n) := modes_of o k in m && n else true) = true ->
  read_section o c k (flat_map (item_lines ind k) (it :: r) ++ tail) =
  RS (BItems (expect_items c k (negb (List.length (it :: r) <=? 1)) 0 (it :: r)))
     (List.length (flat_map (item_lines ind k) (it :: r)) + n).
Proof.
  intros o c k ind it r tail tr n Hi Hw Ht Hmode.
  assert (Hok := wf_items_ok k _ Hw).
  assert (Htr := tail_tr _ _ _ Ht).
  assert (Hrb := read_block_items_ok ind k it r tail tr n Hi Hok Ht).
  destruct k; try (simpl in Hw; apply andb_true_iff in Hw; destruct Hw as [Hw _]; unfold wf_item in Hw;
                   apply andb_true_iff in Hw; destruct Hw as [_ Hw]; discriminate).
  - (* KParams *)
    unfold read_section, items_reader. rewrite Hrb. f_equal. f_equal.
    rewrite expect_items_map by (unfold plain_kind; tauto).
    apply filter_map_raws; auto. intros it' tr' Hin Ht'. apply parse_param_ok; auto. eapply forallb_in; eauto.
  - (* KOther *)
    unfold read_section, items_reader. rewrite Hrb. f_equal. f_equal.
    rewrite expect_items_map by (unfold plain_kind; tauto).
    apply filter_map_raws; auto. intros it' tr' Hin Ht'. apply parse_param_ok; auto. eapply forallb_in; eauto.
  - (* KRaises *)
    unfold read_section, items_reader. rewrite Hrb. f_equal. f_equal.
    rewrite expect_items_map by (unfold plain_kind; tauto).
    apply filter_map_raws; auto. intros it' tr' Hin Ht'. apply parse_raise_ok; auto. eapply forallb_in; eauto.
  - (* KWarns *)
    unfold read_section, items_reader. rewrite Hrb. f_equal. f_equal.
    rewrite expect_items_map by (unfold plain_kind; tauto).
    apply filter_map_raws; auto. intros it' tr' Hin Ht'. apply parse_raise_ok; auto. eapply forallb_in; eauto.
  - (* KAttrs *)
    unfold read_section, items_reader. rewrite Hrb. f_equal. f_equal.
    rewrite expect_items_map by (unfold plain_kind; tauto).
    apply filter_map_raws; auto. intros it' tr' Hin Ht'. apply parse_attr_ok; auto. eapply forallb_in; eauto.
  - (* KFuncs *)
    unfold read_section, items_reader. rewrite Hrb. f_equal. f_equal.
    rewrite expect_items_map by (unfold plain_kind; tauto).
    apply filter_map_raws; auto. intros it' tr' Hin Ht'. apply parse_func_ok; auto. eapply forallb_in; eauto.
  - (* KClasses *)
    unfold read_section, items_reader. rewrite Hrb. f_equal. f_equal.
    rewrite expect_items_map by (unfold plain_kind; tauto).
    apply filter_map_raws; auto. intros it' tr' Hin Ht'. apply parse_func_ok; auto. eapply forallb_in; eauto.
  - (* KModules *)
    unfold read_section, items_reader. rewrite Hrb. f_equal. f_equal.
    rewrite expect_items_map by (unfold plain_kind; tauto).
    apply filter_map_raws; auto. intros it' tr' Hin Ht'. apply parse_module_ok; auto. eapply forallb_in; eauto.
  - (* KReturns *)
    simpl in Hmode. apply andb_true_iff in Hmode. destruct Hmode as [Hm Hn].
    unfold read_section, ret_reader, read_block_items_maybe. rewrite Hm, Hn.
    rewrite Hrb. f_equal. f_equal. rewrite raws_length.
    apply (parse_ret_items_ok c KReturns); auto. left; reflexivity.
  - (* KYields *)
    simpl in Hmode. apply andb_true_iff in Hmode. destruct Hmode as [Hm Hn].
    unfold read_section, ret_reader, read_block_items_maybe. rewrite Hm, Hn.
    rewrite Hrb. f_equal. f_equal. rewrite raws_length.
    apply (parse_ret_items_ok c KYields); auto. right; left; reflexivity.
  - (* KReceives *)
    simpl in Hmode. apply andb_true_iff in Hmode. destruct Hmode as [Hm Hn].
    unfold read_section, ret_reader, read_block_items_maybe. rewrite Hm, Hn.
    rewrite Hrb. f_equal. f_equal. rewrite raws_length.
    apply (parse_ret_items_ok c KReceives); auto. right; right; reflexivity.
Qed.

(* ---- section titles *)
Lemma adm_char_colon : adm_char colon = false.
Proof. reflexivity. Qed.

Lemma wf_header_facts : forall h, wf_header h = true ->
  exists c h', h = c :: h' /\ is_word c = true /\ forallb adm_char h = true /\ all_printable h = true.
Proof.
  intros h H. unfold wf_header in H.
  apply andb_true_iff in H; destruct H as [H Hadm].
  apply andb_true_iff in H; destruct H as [Hp Hw].
  destruct h as [|c h']; [discriminate|]. exists c, h'. auto.
Qed.

Lemma wf_title_facts : forall t, wf_title t = true -> nsp_head t = true.
Proof.
  intros t H. unfold wf_title in H.
  apply andb_true_iff in H; destruct H as [H Hf].
  apply andb_true_iff in H; destruct H as [Hn Hp].
  apply nsp_head_of; auto.
Qed.

Lemma re_admonition_header : forall h t, wf_header h = true -> opt_all wf_title t = true ->
  re_admonition (header_line h t) = Some (h, t).
Proof.
  intros h t Hh Ht. destruct (wf_header_facts h Hh) as [c [h' [-> [Hc [Hadm _]]]]].
  unfold header_line, re_admonition. rewrite <- app_comm_cons. rewrite Hc.
  rewrite app_comm_cons.
  rewrite (span_app adm_char (c :: h') (colon :: match t with Some t0 => sp :: t0 | None => [] end) Hadm) by (exact adm_char_colon).
  unfold colon. cbv beta iota zeta.
  destruct t as [t|].
  - simpl in Ht. assert (Hns := wf_title_facts t Ht).
    assert (E : is_empty_line (sp :: t) = false).
    { change (is_empty_line (sp :: t)) with (is_space sp && is_empty_line t). rewrite (nsp_head_not_empty t Hns). apply andb_false_r. }
    rewrite E. rewrite sp_is_space. rewrite lstrip_sp_cons. rewrite (lstrip_nsp t Hns). reflexivity.
  - reflexivity.
Qed.

Lemma is_fence_word : forall c s, is_word c = true -> is_fence (c :: s) = false.
Proof.
  intros c s H. unfold is_fence.
  assert (E : lstrip_sp (c :: s) = c :: s) by (simpl; rewrite (word_not_sp c H); reflexivity).
  rewrite E. unfold s_fence. simpl.
  destruct (ceq "`" c) eqn:Ec; [|reflexivity]. apply ceq_eq in Ec. subst c. discriminate.
Qed.

Lemma header_line_head : forall h t, wf_header h = true ->
  nsp_head (header_line h t) = true /\ is_fence (header_line h t) = false.
Proof.
  intros h t Hh. destruct (wf_header_facts h Hh) as [c [h' [-> [Hc _]]]].
  unfold header_line. rewrite <- app_comm_cons. split.
  - simpl. rewrite (word_not_space c Hc). reflexivity.
  - apply is_fence_word. exact Hc.
Qed.

(* ---- admonition blocks *)
Lemma rb_rest_conts : forall ind conts tail tr n, 1 <= ind -> forallb wf_cont conts = true -> tail_ok tail tr n ->
  rb_rest ind (map (indent_line ind) conts ++ tail) = (conts ++ tr, List.length conts + n).
Proof.
  intros ind conts tail tr n Hi. induction conts as [|c0 conts IH]; intros Hw Ht.
  - simpl. inversion Ht; subst.
    + reflexivity.
    + assert (E1 : rb_rest ind (l :: rest) = ([], 0)).
      { change (rb_rest ind (l :: rest)) with
          (if startswith (spaces ind) l || is_empty_line l
           then let '(b, k) := rb_rest ind rest in (skipn ind l :: b, S k) else ([], 0)).
        rewrite (startswith_spaces_stop ind l) by (auto using nsp_head_unind).
        rewrite (nsp_head_not_empty l) by auto. reflexivity. }
      change (rb_rest ind ([] :: l :: rest)) with
        (if startswith (spaces ind) [] || true
         then let '(b, k) := rb_rest ind (l :: rest) in (skipn ind [] :: b, S k) else ([], 0)).
      rewrite orb_true_r. rewrite E1. destruct ind; reflexivity.
  - simpl in Hw. apply andb_true_iff in Hw. destruct Hw as [Hc Hw]. specialize (IH Hw Ht).
    simpl map. rewrite <- app_comm_cons.
    unfold wf_cont in Hc. apply andb_true_iff in Hc. destruct Hc as [Hp Hc].
    destruct c0 as [|x c0'].
    + simpl indent_line.
      change (rb_rest ind ([] :: map (indent_line ind) conts ++ tail)) with
        (if startswith (spaces ind) [] || is_empty_line []
         then let '(b, k) := rb_rest ind (map (indent_line ind) conts ++ tail) in (skipn ind [] :: b, S k)
         else ([], 0)).
      rewrite IH. simpl is_empty_line. rewrite orb_true_r. destruct ind; reflexivity.
    + simpl in Hc. apply negb_true_iff in Hc.
      change (indent_line ind (x :: c0')) with (spaces ind ++ x :: c0').
      change (rb_rest ind ((spaces ind ++ x :: c0') :: map (indent_line ind) conts ++ tail)) with
        (if startswith (spaces ind) (spaces ind ++ x :: c0') || is_empty_line (spaces ind ++ x :: c0')
         then let '(b, k) := rb_rest ind (map (indent_line ind) conts ++ tail) in (skipn ind (spaces ind ++ x :: c0') :: b, S k)
         else ([], 0)).
      rewrite startswith_spaces_le by lia. simpl orb. rewrite IH. rewrite skipn_spaces. reflexivity.
Qed.

Lemma read_block_ok : forall ind l0 ls tail tr n, 1 <= ind -> nonempty l0 = true -> wf_desc l0 ls = true ->
  tail_ok tail tr n ->
  read_block (map (indent_line ind) (l0 :: ls) ++ tail) = RBB (join_nl (l0 :: ls)) (S (List.length ls) + n).
Proof.
  intros ind l0 ls tail tr n Hi Hne Hd Ht.
  destruct (wf_desc_d0 _ _ Hd) as [Hp Hf].
  assert (Hns : nsp_head l0 = true) by (apply nsp_head_of; auto).
  simpl map. rewrite <- app_comm_cons.
  destruct l0 as [|x l0']; [discriminate|].
  change (indent_line ind (x :: l0')) with (spaces ind ++ x :: l0').
  unfold read_block.
  assert (He : is_empty_line (spaces ind ++ x :: l0') = false)
    by (rewrite is_empty_spaces_app; apply nsp_head_not_empty; auto).
  simpl skip_empty. rewrite He.
  rewrite indent_of_spaces by auto.
  destruct (ind =? 0) eqn:E0; [apply Nat.eqb_eq in E0; lia|].
  rewrite (rb_rest_conts ind ls tail tr n Hi (wf_desc_conts _ _ Hd) Ht).
  rewrite lstrip_spaces. rewrite (lstrip_nsp (x :: l0') Hns).
  rewrite (desc_join (x :: l0') ls tr Hd (tail_tr _ _ _ Ht)).
  reflexivity.
Qed.


(* ---- Returns / Yields / Receives sections written for other option values (WRet) *)
(* the block reader on items whose first line is given by any function fl *)
Definition raw_g (fl : witem -> str) (it : witem) : list str := fl it :: w_conts it.
Fixpoint raws_g (fl : witem -> str) (tr : list str) (its : list witem) : list (list str) :=
  match its with
  | [] => []
  | [it] => [raw_g fl it ++ tr]
  | it :: r => raw_g fl it :: raws_g fl tr r
  end.
Definition item_ok_g (fl : witem -> str) (it : witem) : Prop :=
  nsp_head (fl it) = true /\ forallb wf_cont (w_conts it) = true.
Definition ilines_g (fl : witem -> str) (ind : nat) (it : witem) : list str :=
  (spaces ind ++ fl it) :: map (indent_line (ind * 2)) (w_conts it).

Lemma ilines_cons_g : forall fl ind it r (tail : list str),
  flat_map (ilines_g fl ind) (it :: r) ++ tail =
  (spaces ind ++ fl it) :: (map (indent_line (ind * 2)) (w_conts it) ++ flat_map (ilines_g fl ind) r ++ tail).
Proof.
  intros. change (flat_map (ilines_g fl ind) (it :: r)) with (ilines_g fl ind it ++ flat_map (ilines_g fl ind) r).
  unfold ilines_g at 1. rewrite <- app_assoc. rewrite <- app_comm_cons. reflexivity.
Qed.

Lemma ilines_length_g : forall fl ind it r,
  List.length (flat_map (ilines_g fl ind) (it :: r)) = S (List.length (w_conts it) + List.length (flat_map (ilines_g fl ind) r)).
Proof.
  intros. change (flat_map (ilines_g fl ind) (it :: r)) with (ilines_g fl ind it ++ flat_map (ilines_g fl ind) r).
  rewrite app_length. unfold ilines_g. simpl. rewrite map_length. reflexivity.
Qed.

Lemma rbi_items_g : forall fl ind its tail tr n conts0, 1 <= ind ->
  Forall (item_ok_g fl) its -> tail_ok tail tr n -> forallb wf_cont conts0 = true ->
  rbi ind (map (indent_line (ind * 2)) conts0 ++ flat_map (ilines_g fl ind) its ++ tail) =
  (conts0 ++ match its with [] => tr | _ => [] end, raws_g fl tr its,
   List.length conts0 + List.length (flat_map (ilines_g fl ind) its) + n).
Proof.
  intros fl ind its. induction its as [|it r IH]; intros tail tr n conts0 Hi Hok Ht Hc0.
  - simpl flat_map. simpl app. rewrite rbi_conts; auto. rewrite (rbi_tail ind tail tr n); auto.
  - inversion Hok as [|? ? [Hh Hc] Hr]; subst.
    rewrite rbi_conts; auto.
    rewrite ilines_cons_g.
    rewrite rbi_head; auto.
    rewrite (IH tail tr n (w_conts it)); auto.
    rewrite ilines_length_g.
    assert (E : (fl it :: w_conts it ++ match r with [] => tr | _ :: _ => [] end) :: raws_g fl tr r = raws_g fl tr (it :: r)).
    { destruct r; [reflexivity|]. rewrite app_nil_r. reflexivity. }
    rewrite E. f_equal. lia.
Qed.

Lemma read_block_items_ok_g : forall fl ind it r tail tr n, 1 <= ind ->
  Forall (item_ok_g fl) (it :: r) -> tail_ok tail tr n ->
  read_block_items (flat_map (ilines_g fl ind) (it :: r) ++ tail) =
  RBI (raws_g fl tr (it :: r)) (List.length (flat_map (ilines_g fl ind) (it :: r)) + n).
Proof.
  intros fl ind it r tail tr n Hi Hok Ht.
  inversion Hok as [|? ? [Hh Hc] Hr]; subst.
  rewrite ilines_cons_g.
  unfold read_block_items.
  assert (He : is_empty_line (spaces ind ++ fl it) = false)
    by (rewrite is_empty_spaces_app; apply nsp_head_not_empty; auto).
  simpl skip_empty. rewrite He.
  rewrite indent_of_spaces by auto.
  destruct (ind =? 0) eqn:E0; [apply Nat.eqb_eq in E0; lia|].
  rewrite (rbi_items_g fl ind r tail tr n (w_conts it)); auto.
  rewrite skipn_spaces. rewrite ilines_length_g.
  assert (E : (fl it :: w_conts it ++ match r with [] => tr | _ :: _ => [] end) :: raws_g fl tr r = raws_g fl tr (it :: r)).
  { destruct r; [reflexivity|]. rewrite app_nil_r. reflexivity. }
  rewrite E. f_equal.
Qed.

Lemma raws_g_cons : forall fl tr it r,
  raws_g fl tr (it :: r) = (raw_g fl it ++ match r with [] => tr | _ => [] end) :: raws_g fl tr r.
Proof. intros. destruct r; [reflexivity|]. simpl. rewrite app_nil_r. reflexivity. Qed.

Lemma raws_g_length : forall fl tr its, List.length (raws_g fl tr its) = List.length its.
Proof.
  intros fl tr. induction its as [|it r IH]; [reflexivity|]. rewrite raws_g_cons. simpl. rewrite IH. reflexivity.
Qed.

(* an item in the unnamed mode *)
Lemma wf_uann_facts : forall a, wf_uann a = true ->
  a <> [] /\ all_printable a = true /\ first_not_space a = true /\ contains_char colon a = false /\
  lstrip_char lparen a = a /\ rstrip_by (ceq rparen) a = a.
Proof.
  intros a H. unfold wf_uann in H.
  apply andb_true_iff in H; destruct H as [H Hr]. apply andb_true_iff in H; destruct H as [H Hl].
  apply andb_true_iff in H; destruct H as [H Hc]. apply andb_true_iff in H; destruct H as [H Hf].
  apply andb_true_iff in H; destruct H as [Hn Hp].
  apply negb_true_iff in Hr, Hl, Hc.
  assert (Hne : a <> []) by (destruct a; [discriminate|discriminate]).
  repeat split; auto.
  - destruct a as [|x a']; [reflexivity|]. simpl in Hl. simpl. rewrite Hl. reflexivity.
  - apply rstrip_by_noop. intros d _. rewrite ceq_sym.
    replace (last a d) with (last a sp); [exact Hr|]. destruct a as [|x a']; [congruence|].
    clear. revert x. induction a' as [|y a'' IH]; intros x; [reflexivity|]. simpl. simpl in IH. apply IH.
Qed.

Lemma get_nad_u_ok : forall k it tr, wf_item_m true false k it = true -> (tr = [] \/ tr = [[]]) ->
  get_nad false (raw_g first_line_u it ++ tr) = Some (None, w_ann it, join_nl (w_d0 it :: rstrip_blank (w_conts it))).
Proof.
  intros k it tr Hw Htr. unfold wf_item_m in Hw. apply andb_true_iff in Hw. destruct Hw as [Hw _].
  apply andb_true_iff in Hw; destruct Hw as [Hw Hbare]. apply andb_true_iff in Hw; destruct Hw as [Hw Ha].
  apply andb_true_iff in Hw; destruct Hw as [Hd Hn].
  destruct it as [on oa d0 conts]. simpl in Hd, Hn, Ha, Hbare.
  unfold raw_g, first_line_u. simpl w_ann. simpl w_d0. simpl w_conts.
  change ((match oa with Some a => a ++ colon :: dpart d0 | None => d0 end :: conts) ++ tr)
    with (match oa with Some a => a ++ colon :: dpart d0 | None => d0 end :: (conts ++ tr)).
  unfold get_nad.
  destruct oa as [a|].
  - simpl in Ha. destruct (wf_uann_facts a Ha) as [Hane [Hp [Hf [Hc [Hl Hr]]]]].
    rewrite (split_first_app colon a (dpart d0) Hc). rewrite Hl, Hr.
    rewrite desc_of_dpart_i by auto. reflexivity.
  - apply andb_true_iff in Hbare. destruct Hbare as [_ Hc]. apply negb_true_iff in Hc.
    rewrite (split_first_none colon d0 Hc). rewrite desc_of_plain_i by auto. reflexivity.
Qed.

(* the item loop on the raw items of either mode *)
Lemma parse_ret_items_m : forall c k named fl its tr multiple index, rkind k -> (tr = [] \/ tr = [[]]) ->
  (forall it tr', In it its -> (tr' = [] \/ tr' = [[]]) ->
     get_nad named (raw_g fl it ++ tr') = Some (w_name it, w_ann it, join_nl (w_d0 it :: rstrip_blank (w_conts it))) /\
     (match w_ann it with Some a => nonempty a = true | None => True end)) ->
  parse_ret_items c named (gen_index_of k) multiple index (raws_g fl tr its) = expect_items c k multiple index its.
Proof.
  intros c k named fl its tr multiple. induction its as [|it r IH]; intros index Hk Htr H; [reflexivity|].
  rewrite raws_g_cons.
  change (parse_ret_items c named (gen_index_of k) multiple index ((raw_g fl it ++ match r with [] => tr | _ => [] end) :: raws_g fl tr r))
    with (match get_nad named (raw_g fl it ++ match r with [] => tr | _ => [] end) with
          | None => parse_ret_items c named (gen_index_of k) multiple (S index) (raws_g fl tr r)
          | Some (name, ann, d) =>
              mkItem (Some (match name with Some n => n | None => [] end))
                     (if truthy ann then ann else annotation_from_parent c (gen_index_of k) multiple index) d None
                :: parse_ret_items c named (gen_index_of k) multiple (S index) (raws_g fl tr r)
          end).
  destruct (H it _ (or_introl eq_refl) (tr_sub tr r Htr)) as [Hg Ha].
  rewrite Hg. rewrite IH; auto.
  2:{ intros it' tr' Hin Ht'. apply H; auto. right; exact Hin. }
  simpl expect_items. f_equal.
  assert (E : (if truthy (w_ann it) then w_ann it else annotation_from_parent c (gen_index_of k) multiple index)
              = orelse (w_ann it) (annotation_from_parent c (gen_index_of k) multiple index)).
  { destruct (w_ann it) as [a|]; [|reflexivity]. rewrite (truthy_ann a Ha). reflexivity. }
  rewrite E. unfold oapp.
  destruct Hk as [->|[->| ->]]; reflexivity.
Qed.

Lemma raw_g_named : forall k it, raw_g (first_line k) it = raw k it.
Proof. reflexivity. Qed.

Lemma ann_nonempty_named : forall k it, rkind k -> wf_item k it = true ->
  match w_ann it with Some a => nonempty a = true | None => True end.
Proof.
  intros k it Hk Hw. destruct (wf_item_rkind k it Hk Hw) as [_ [_ [Ha _]]].
  destruct (w_ann it) as [a|]; [|exact I]. simpl in Ha. apply (wf_rann_facts a Ha).
Qed.

Lemma ann_nonempty_u : forall k it, wf_item_m true false k it = true ->
  w_name it = None /\ match w_ann it with Some a => nonempty a = true | None => True end.
Proof.
  intros k it Hw. unfold wf_item_m in Hw. apply andb_true_iff in Hw. destruct Hw as [Hw _].
  apply andb_true_iff in Hw; destruct Hw as [Hw _]. apply andb_true_iff in Hw; destruct Hw as [Hw Ha].
  apply andb_true_iff in Hw; destruct Hw as [_ Hn]. split.
  - destruct (w_name it); [discriminate|reflexivity].
  - destruct (w_ann it) as [a|]; [|exact I]. simpl in Ha. unfold wf_uann in Ha.
    repeat (apply andb_true_iff in Ha; destruct Ha as [Ha ?]). exact Ha.
Qed.

(* the first line of an item of either mode starts with a non-blank and is printable *)
Lemma all_printable_app : forall a b, all_printable (a ++ b) = all_printable a && all_printable b.
Proof. intros. unfold all_printable. apply forallb_app. Qed.

Lemma dpart_printable : forall d0, all_printable d0 = true -> all_printable (dpart d0) = true.
Proof. intros d0 H. destruct d0; [reflexivity|]. exact H. Qed.

Lemma wf_word_printable : forall n, wf_word n = true -> all_printable n = true.
Proof.
  intros n H. destruct (wf_word_facts n H) as [_ [Hw _]]. unfold all_printable. clear H.
  induction n as [|x n IH]; [reflexivity|]. simpl in *. apply andb_true_iff in Hw. destruct Hw as [Hx Hn].
  rewrite (word_printable x Hx). apply IH. exact Hn.
Qed.

Lemma first_line_m_facts : forall multi named k it, rkind k -> wf_item_m multi named k it = true ->
  nsp_head (first_line_m named k it) = true /\ all_printable (first_line_m named k it) = true /\
  forallb wf_cont (w_conts it) = true.
Proof.
  intros multi named k it Hk Hw. unfold wf_item_m in Hw. apply andb_true_iff in Hw. destruct Hw as [Hw _].
  destruct named.
  - destruct (wf_item_ok k it Hw) as [Hh Hc]. split; [exact Hh|]. split; [|exact Hc].
    destruct (wf_item_rkind k it Hk Hw) as [Hd [Hn [Ha Hdo]]].
    destruct (wf_idesc_d0 _ _ Hd) as [Hp0 _].
    unfold first_line_m, first_line. rewrite (head_of_rkind k it Hk).
    destruct (w_name it) as [n|]; destruct (w_ann it) as [a|]; simpl in Hn, Ha.
    + assert (Hap : all_printable a = true) by (unfold wf_rann in Ha; repeat (apply andb_true_iff in Ha; destruct Ha as [Ha ?]); assumption).
      rewrite !all_printable_app. rewrite (wf_word_printable n Hn). simpl.
      rewrite all_printable_app. rewrite Hap. simpl. apply (dpart_printable _ Hp0).
    + rewrite all_printable_app. rewrite (wf_word_printable n Hn). simpl. apply (dpart_printable _ Hp0).
    + assert (Hap : all_printable a = true) by (unfold wf_rann in Ha; repeat (apply andb_true_iff in Ha; destruct Ha as [Ha ?]); assumption).
      rewrite all_printable_app. simpl. rewrite all_printable_app. rewrite Hap. simpl. apply (dpart_printable _ Hp0).
    + exact Hp0.
  - apply andb_true_iff in Hw; destruct Hw as [Hw Hbare]. apply andb_true_iff in Hw; destruct Hw as [Hw Ha].
    apply andb_true_iff in Hw; destruct Hw as [Hd Hn].
    destruct (wf_idesc_d0 _ _ Hd) as [Hp0 Hf0].
    unfold first_line_m, first_line_u. split; [|split; [|apply (wf_idesc_conts _ _ Hd)]].
    + destruct (w_ann it) as [a|].
      * simpl in Ha. destruct (wf_uann_facts a Ha) as [Hane [Hp [Hf _]]].
        apply nsp_head_app. apply nsp_head_of; auto. destruct a; [congruence|reflexivity].
      * apply andb_true_iff in Hbare. destruct Hbare as [Hne _]. apply nsp_head_of; auto.
    + destruct (w_ann it) as [a|].
      * simpl in Ha. destruct (wf_uann_facts a Ha) as [_ [Hp _]].
        rewrite all_printable_app. rewrite Hp. simpl. apply (dpart_printable _ Hp0).
      * exact Hp0.
Qed.

Lemma ilines_m_multi : forall named ind k, item_lines_m true named ind k = ilines_g (first_line_m named k) ind.
Proof. reflexivity. Qed.

(* s.split("\n") gives the lines back when no line contains a newline *)
Lemma split_nl_printable : forall l, forallb printable l = true -> split_nl l = [l].
Proof.
  induction l as [|x l IH]; intros H; [reflexivity|]. simpl in H. apply andb_true_iff in H. destruct H as [Hx Hl].
  simpl. rewrite ceq_sym. rewrite (printable_not_nl x Hx). rewrite (IH Hl). reflexivity.
Qed.

Lemma split_nl_app : forall l rest, forallb printable l = true -> split_nl (l ++ nl :: rest) = l :: split_nl rest.
Proof.
  induction l as [|x l IH]; intros rest H.
  - reflexivity.
  - simpl in H. apply andb_true_iff in H. destruct H as [Hx Hl].
    simpl. rewrite ceq_sym. rewrite (printable_not_nl x Hx). rewrite (IH rest Hl). reflexivity.
Qed.

Lemma split_nl_join : forall L, L <> [] -> (forall l, In l L -> forallb printable l = true) -> split_nl (join_nl L) = L.
Proof.
  induction L as [|l L IH]; intros Hn HP; [congruence|].
  destruct L as [|l2 L'].
  - simpl. apply split_nl_printable. apply HP. left; reflexivity.
  - rewrite join_nl_cons by discriminate. rewrite split_nl_app by (apply HP; left; reflexivity).
    rewrite IH; [reflexivity|discriminate|]. intros x Hx. apply HP. right; exact Hx.
Qed.

Lemma first_not_space_of_nsp : forall s, nsp_head s = true -> all_printable s = true -> first_not_space s = true.
Proof.
  intros s Hh Hp. destruct s as [|x l]; [reflexivity|]. simpl in *.
  unfold all_printable in Hp. simpl in Hp. apply andb_true_iff in Hp. destruct Hp as [Hx _].
  rewrite <- (printable_space x Hx). exact Hh.
Qed.

(* the reader of a Returns / Yields / Receives section in any mode *)
Lemma read_section_ret_ok : forall o c m n k ind it r tail tr cnt, 1 <= ind -> rkind k ->
  forallb (wf_item_m m n k) (it :: r) = true ->
  modes_of o k = (m, n) -> (m = true \/ r = []) ->
  tail_ok tail tr cnt ->
  read_section o c k (flat_map (item_lines_m m n ind k) (it :: r) ++ tail) =
  RS (BItems (expect_items c k (negb (List.length (it :: r) <=? 1)) 0 (it :: r)))
     (List.length (flat_map (item_lines_m m n ind k) (it :: r)) + cnt).
Proof.
  intros o c m n k ind it r tail tr cnt Hi Hk Hw Hmode Hsingle Ht.
  assert (Htr := tail_tr _ _ _ Ht).
  assert (Hreader : read_section o c k = ret_reader c m n (gen_index_of k)).
  { unfold modes_of in Hmode. destruct Hk as [->|[->| ->]]; unfold read_section; inversion Hmode; reflexivity. }
  rewrite Hreader. unfold ret_reader, read_block_items_maybe.
  destruct m.
  - (* several items allowed: the items block reader *)
    rewrite ilines_m_multi.
    assert (Hok : Forall (item_ok_g (first_line_m n k)) (it :: r)).
    { apply Forall_forall. intros it' Hin. rewrite forallb_forall in Hw. specialize (Hw it' Hin).
      destruct (first_line_m_facts true n k it' Hk Hw) as [A [_ B]]. split; assumption. }
    rewrite (read_block_items_ok_g (first_line_m n k) ind it r tail tr cnt Hi Hok Ht).
    f_equal. f_equal. rewrite raws_g_length.
    apply (parse_ret_items_m c k n (first_line_m n k)); auto.
    intros it' tr' Hin Ht'. rewrite forallb_forall in Hw. specialize (Hw it' Hin).
    destruct n.
    + assert (Hw' : wf_item k it' = true) by (unfold wf_item_m in Hw; apply andb_true_iff in Hw; destruct Hw as [Hw _]; exact Hw).
      split; [apply (get_nad_ok k it' tr' Hk Hw' Ht')|apply (ann_nonempty_named k it' Hk Hw')].
    + destruct (ann_nonempty_u k it' Hw) as [Hn Ha]. split; [|exact Ha].
      rewrite Hn. apply (get_nad_u_ok k it' tr' Hw Ht').
  - (* one item: the whole block *)
    destruct Hsingle as [Hm|Hr]; [discriminate|]. subst r.
    simpl in Hw. rewrite andb_true_r in Hw.
    destruct (first_line_m_facts false n k it Hk Hw) as [Hh [Hp Hc]].
    assert (Hlast : last_nonempty (w_conts it) = true).
    { unfold wf_item_m in Hw. apply andb_true_iff in Hw. destruct Hw as [_ Hl]. exact Hl. }
    assert (Hwd : wf_desc (first_line_m n k it) (w_conts it) = true).
    { unfold wf_desc. rewrite Hp, Hc, Hlast. rewrite (first_not_space_of_nsp _ Hh Hp). reflexivity. }
    assert (Hne : nonempty (first_line_m n k it) = true) by (destruct (first_line_m n k it); [discriminate|reflexivity]).
    replace (flat_map (item_lines_m false n ind k) [it]) with (map (indent_line ind) (first_line_m n k it :: w_conts it) ++ []).
    2:{ unfold item_lines_m. simpl. rewrite !app_nil_r.
        destruct (first_line_m n k it) as [|x l]; [discriminate|]. reflexivity. }
    rewrite app_nil_r.
    rewrite (read_block_ok ind (first_line_m n k it) (w_conts it) tail tr cnt Hi Hne Hwd Ht).
    assert (HP : forall l, In l (first_line_m n k it :: w_conts it) -> forallb printable l = true).
    { intros l [<-|Hin]; [exact Hp|]. eapply wf_cont_printable; eauto. }
    destruct (join_nl (first_line_m n k it :: w_conts it)) as [|x txt] eqn:Ej.
    { destruct (first_line_m n k it); [discriminate|]. destruct (w_conts it); simpl in Ej; discriminate. }
    cbv iota. rewrite <- Ej.
    assert (Hnn : first_line_m n k it :: w_conts it <> []) by discriminate.
    rewrite (split_nl_join _ Hnn HP).
    simpl List.length. rewrite map_length. f_equal.
    { f_equal.
      replace [first_line_m n k it :: w_conts it] with (raws_g (first_line_m n k) [] [it])
        by (simpl; unfold raw_g; rewrite app_nil_r; reflexivity).
      apply (parse_ret_items_m c k n (first_line_m n k) [it] [] false 0 Hk (or_introl eq_refl)).
      intros it' tr' [<-|[]] Ht'.
      assert (Hwm : wf_item_m true n k it = true).
      { unfold wf_item_m in *. apply andb_true_iff in Hw. destruct Hw as [Hw _]. rewrite Hw. reflexivity. }
      destruct n.
      * assert (Hw' : wf_item k it = true) by (unfold wf_item_m in Hw; apply andb_true_iff in Hw; destruct Hw as [Hw _]; exact Hw).
        split; [apply (get_nad_ok k it tr' Hk Hw' Ht')|apply (ann_nonempty_named k it Hk Hw')].
      * destruct (ann_nonempty_u k it Hwm) as [Hn Ha]. split; [|exact Ha].
        rewrite Hn. apply (get_nad_u_ok k it tr' Hwm Ht'). }
Qed.


(* ---- Examples sections *)
Lemma ex_loop_cons : forall trim in_ex in_block ct ce l r,
  ex_loop trim in_ex in_block ct ce (l :: r) =
  if is_empty_line l then
    if in_ex then (if nonempty_list ce then [(true, join_nl ce)] else []) ++ ex_loop trim false in_block ct [] r
    else ex_loop trim false in_block (ct ++ [l]) ce r
  else if in_ex then
    let l' := if trim then trim_blankline (trim_flags l) else l in
    ex_loop trim true in_block ct (ce ++ [l']) r
  else if startswith s_fence l then ex_loop trim false (negb in_block) (ct ++ [l]) ce r
  else if in_block then ex_loop trim false in_block (ct ++ [l]) ce r
  else if startswith s_prompt l then
    (if nonempty_list ct then [(false, rstrip_nl (join_nl ct))] else [])
      ++ ex_loop trim true in_block [] (ce ++ [if trim then trim_flags l else l]) r
  else ex_loop trim false in_block (ct ++ [l]) ce r.
Proof. reflexivity. Qed.

Definition prose_line_ok (l : str) : Prop :=
  is_empty_line l = false /\ startswith s_fence l = false /\ startswith s_prompt l = false.

Lemma ex_prose : forall trim ls R ct, Forall prose_line_ok ls ->
  ex_loop trim false false ct [] (ls ++ R) = ex_loop trim false false (ct ++ ls) [] R.
Proof.
  intros trim ls. induction ls as [|l ls IH]; intros R ct H.
  - simpl. rewrite app_nil_r. reflexivity.
  - inversion H as [|? ? [He [Hf Hp]] Hls]; subst. rewrite <- app_comm_cons. rewrite ex_loop_cons.
    rewrite He, Hf, Hp. rewrite (IH R (ct ++ [l]) Hls). rewrite <- app_assoc. reflexivity.
Qed.

Definition trim_more (trim : bool) (l : str) : str := if trim then trim_blankline (trim_flags l) else l.

Lemma ex_console : forall trim cs R ce, Forall (fun l => is_empty_line l = false) cs ->
  ex_loop trim true false [] ce (cs ++ R) = ex_loop trim true false [] (ce ++ map (trim_more trim) cs) R.
Proof.
  intros trim cs. induction cs as [|l cs IH]; intros R ce H.
  - simpl. rewrite app_nil_r. reflexivity.
  - inversion H as [|? ? He Hcs]; subst. rewrite <- app_comm_cons. rewrite ex_loop_cons. rewrite He.
    cbv zeta. rewrite (IH R _ Hcs). rewrite <- app_assoc. reflexivity.
Qed.

Lemma wf_chunk_lines : forall b ls, wf_chunk (b, ls) = true ->
  ls <> [] /\ (forall l, In l ls -> forallb printable l = true /\ is_empty_line l = false).
Proof.
  intros b ls H. unfold wf_chunk in H. apply andb_true_iff in H. destruct H as [Hl H]. split.
  - destruct ls; [discriminate|discriminate].
  - intros l Hin. rewrite forallb_forall in Hl. specialize (Hl l Hin). unfold wf_ex_line in Hl.
    apply andb_true_iff in Hl. destruct Hl as [A B]. apply negb_true_iff in B. auto.
Qed.

Lemma wf_chunk_prose : forall ls, wf_chunk (false, ls) = true -> Forall prose_line_ok ls.
Proof.
  intros ls H. destruct (wf_chunk_lines false ls H) as [_ Hl]. unfold wf_chunk in H. apply andb_true_iff in H. destruct H as [_ H].
  destruct ls as [|l0 r]; [discriminate|]. apply Forall_forall. intros l Hin.
  rewrite forallb_forall in H. specialize (H l Hin). apply andb_true_iff in H. destruct H as [A B].
  apply negb_true_iff in A, B. destruct (Hl l Hin) as [_ He]. repeat split; auto.
Qed.

Lemma nonblank_last : forall ls, ls <> [] -> (forall l, In l ls -> forallb printable l = true /\ is_empty_line l = false) ->
  last ls [] <> [].
Proof.
  intros ls Hn H. destruct (H (last ls []) (last_in ls [] Hn)) as [_ He]. destruct (last ls []); [discriminate|discriminate].
Qed.

Lemma ex_chunks : forall trim chunks, forallb wf_chunk chunks = true -> no_adjacent_prose chunks = true ->
  ex_loop trim false false [] [] (flatten_chunks chunks) = map (expect_chunk trim) chunks.
Proof.
  intros trim chunks. induction chunks as [|[b ls] rest IH]; intros Hw Hadj; [reflexivity|].
  simpl in Hw. apply andb_true_iff in Hw. destruct Hw as [Hc Hrest].
  destruct (wf_chunk_lines b ls Hc) as [Hne Hl].
  assert (HP : forall l, In l ls -> forallb printable l = true) by (intros l Hin; apply (Hl l Hin)).
  assert (Hlast : last ls [] <> []) by (apply nonblank_last; auto).
  assert (Hadj' : no_adjacent_prose rest = true).
  { destruct rest as [|[b2 ls2] rest']; [reflexivity|]. simpl in Hadj. apply andb_true_iff in Hadj. destruct Hadj as [_ H]. exact H. }
  destruct b.
  - (* a console session *)
    destruct ls as [|c0 cs]; [congruence|].
    assert (Hp0 : startswith s_prompt c0 = true).
    { unfold wf_chunk in Hc. apply andb_true_iff in Hc. destruct Hc as [_ H]. exact H. }
    assert (He0 : is_empty_line c0 = false) by (apply (Hl c0); left; reflexivity).
    assert (Hf0 : startswith s_fence c0 = false).
    { destruct c0 as [|x c0']; [discriminate|]. simpl in Hp0. apply andb_true_iff in Hp0. destruct Hp0 as [Hx _].
      apply ceq_eq in Hx. subst x. reflexivity. }
    assert (Hcs : Forall (fun l => is_empty_line l = false) cs).
    { apply Forall_forall. intros l Hin. apply (Hl l). right. exact Hin. }
    assert (Hexp : expect_chunk trim (true, c0 :: cs) =
                   (true, join_nl ((if trim then trim_flags c0 else c0) :: map (trim_more trim) cs))).
    { unfold expect_chunk, trim_console, trim_more. destruct trim; [reflexivity|]. rewrite map_id. reflexivity. }
    destruct rest as [|ch2 rest'].
    + change (flatten_chunks [(true, c0 :: cs)]) with (c0 :: cs).
      change (map (expect_chunk trim) [(true, c0 :: cs)]) with [expect_chunk trim (true, c0 :: cs)].
      rewrite ex_loop_cons. rewrite He0, Hf0, Hp0.
      change (nonempty_list (@nil str)) with false. cbv iota. rewrite !app_nil_l.
      rewrite Hexp.
      rewrite <- (app_nil_r cs) at 1. rewrite (ex_console trim cs [] _ Hcs). reflexivity.
    + change (flatten_chunks ((true, c0 :: cs) :: ch2 :: rest')) with ((c0 :: cs) ++ [] :: flatten_chunks (ch2 :: rest')).
      change (map (expect_chunk trim) ((true, c0 :: cs) :: ch2 :: rest')) with
        (expect_chunk trim (true, c0 :: cs) :: map (expect_chunk trim) (ch2 :: rest')).
      rewrite <- app_comm_cons. rewrite ex_loop_cons. rewrite He0, Hf0, Hp0.
      change (nonempty_list (@nil str)) with false. cbv iota. rewrite !app_nil_l.
      rewrite (ex_console trim cs _ _ Hcs). rewrite ex_loop_cons.
      change (is_empty_line []) with true. cbv iota.
      rewrite (IH Hrest Hadj'). rewrite Hexp. reflexivity.
  - (* prose *)
    assert (Hpr := wf_chunk_prose ls Hc).
    assert (Hexp : expect_chunk trim (false, ls) = (false, join_nl ls)) by reflexivity.
    destruct rest as [|[b2 ls2] rest'].
    + simpl flatten_chunks. rewrite <- (app_nil_r ls) at 1. rewrite (ex_prose trim ls [] [] Hpr).
      simpl app. simpl ex_loop. destruct ls as [|l0 r]; [congruence|]. simpl nonempty_list. cbv iota.
      rewrite (rstrip_join (l0 :: r) Hne HP Hlast). reflexivity.
    + simpl in Hadj. destruct b2; [|discriminate].
      simpl in Hrest. apply andb_true_iff in Hrest. destruct Hrest as [Hc2 Hrest'].
      destruct (wf_chunk_lines true ls2 Hc2) as [Hne2 Hl2].
      destruct ls2 as [|c0 cs]; [congruence|].
      assert (Hp0 : startswith s_prompt c0 = true).
      { unfold wf_chunk in Hc2. apply andb_true_iff in Hc2. destruct Hc2 as [_ H]. exact H. }
      assert (He0 : is_empty_line c0 = false) by (apply (Hl2 c0); left; reflexivity).
      assert (Hf0 : startswith s_fence c0 = false).
      { destruct c0 as [|x c0']; [discriminate|]. simpl in Hp0. apply andb_true_iff in Hp0. destruct Hp0 as [Hx _].
        apply ceq_eq in Hx. subst x. reflexivity. }
      change (flatten_chunks ((false, ls) :: (true, c0 :: cs) :: rest')) with (ls ++ [] :: flatten_chunks ((true, c0 :: cs) :: rest')).
      rewrite (ex_prose trim ls _ [] Hpr). simpl app at 1.
      rewrite ex_loop_cons. simpl is_empty_line. cbv iota.
      (* the console chunk that follows flushes the prose *)
      assert (Hflat : exists R, flatten_chunks ((true, c0 :: cs) :: rest') = c0 :: cs ++ R /\
                                (R = [] /\ rest' = [] \/ exists ch3 r3, rest' = ch3 :: r3 /\ R = [] :: flatten_chunks rest')).
      { destruct rest' as [|ch3 r3].
        - exists []. split; [simpl; rewrite app_nil_r; reflexivity|left; auto].
        - exists ([] :: flatten_chunks (ch3 :: r3)). split; [reflexivity|right; eauto]. }
      destruct Hflat as [R [EF HR]].
      assert (Hgoal : ex_loop trim false false [] [] (flatten_chunks ((true, c0 :: cs) :: rest')) = map (expect_chunk trim) ((true, c0 :: cs) :: rest')).
      { apply IH; [|exact Hadj'].
        change (forallb wf_chunk ((true, c0 :: cs) :: rest')) with (wf_chunk (true, c0 :: cs) && forallb wf_chunk rest').
        apply andb_true_iff. split; [exact Hc2|exact Hrest']. }
      rewrite EF in Hgoal |- *.
      rewrite ex_loop_cons in Hgoal. rewrite He0, Hf0, Hp0 in Hgoal. simpl nonempty_list in Hgoal. cbv iota in Hgoal. simpl app in Hgoal.
      rewrite ex_loop_cons. rewrite He0, Hf0, Hp0.
      assert (Hnt : nonempty_list (ls ++ [[]]) = true) by (destruct ls; reflexivity).
      rewrite Hnt. rewrite (rstrip_join_snoc ls Hne HP Hlast).
      rewrite app_nil_l. rewrite Hgoal. reflexivity.
Qed.

Lemma last_app_nonempty : forall (A : Type) (a b : list A) d, b <> [] -> last (a ++ b) d = last b d.
Proof.
  intros A a b d Hb. induction a as [|x a IH]; [reflexivity|].
  simpl. rewrite IH. destruct (a ++ b) eqn:E; [|reflexivity]. apply app_eq_nil in E. destruct E; congruence.
Qed.

Lemma read_section_examples_ok : forall o c ind trim chunks tail tr n, 1 <= ind ->
  forallb wf_chunk chunks = true -> no_adjacent_prose chunks = true -> chunks <> [] ->
  first_not_space (hd [] (flatten_chunks chunks)) = true -> trim = trim_flags_opt o ->
  tail_ok tail tr n ->
  read_section o c KExamples (map (indent_line ind) (flatten_chunks chunks) ++ tail) =
  RS (BExamples (map (expect_chunk trim) chunks)) (List.length (flatten_chunks chunks) + n).
Proof.
  intros o c ind trim chunks tail tr n Hi Hw Hadj Hne Hfs Htrim Ht.
  (* every line of the body is blank or printable text *)
  assert (Hlines : forall l, In l (flatten_chunks chunks) -> forallb printable l = true /\ (l = [] \/ is_empty_line l = false)).
  { clear Hadj Hne Hfs. induction chunks as [|[b ls] rest IH]; intros l Hin; [destruct Hin|].
    simpl in Hw. apply andb_true_iff in Hw. destruct Hw as [Hc Hrest].
    destruct (wf_chunk_lines b ls Hc) as [_ Hl].
    destruct rest as [|ch2 rest'].
    - simpl in Hin. destruct (Hl l Hin) as [A B]. auto.
    - change (flatten_chunks ((b, ls) :: ch2 :: rest')) with (ls ++ [] :: flatten_chunks (ch2 :: rest')) in Hin.
      apply in_app_or in Hin. destruct Hin as [Hin|[<-|Hin]].
      + destruct (Hl l Hin) as [A B]. auto.
      + split; [reflexivity|left; reflexivity].
      + apply IH; auto. }
  assert (Hlastne : last (flatten_chunks chunks) [] <> []).
  { clear Hadj Hfs Hlines. induction chunks as [|[b ls] rest IH]; [congruence|].
    simpl in Hw. apply andb_true_iff in Hw. destruct Hw as [Hc Hrest].
    destruct (wf_chunk_lines b ls Hc) as [Hn Hl].
    destruct rest as [|ch2 rest'].
    - simpl. apply nonblank_last; auto.
    - change (flatten_chunks ((b, ls) :: ch2 :: rest')) with (ls ++ [] :: flatten_chunks (ch2 :: rest')).
      assert (Hfl : flatten_chunks (ch2 :: rest') <> []).
      { destruct ch2 as [b2 ls2]. simpl in Hrest. apply andb_true_iff in Hrest. destruct Hrest as [Hc2 _].
        destruct (wf_chunk_lines b2 ls2 Hc2) as [Hn2 _]. destruct rest'; simpl; destruct ls2; try congruence; discriminate. }
      rewrite last_app_nonempty by discriminate.
      replace (last ([] :: flatten_chunks (ch2 :: rest')) []) with (last (flatten_chunks (ch2 :: rest')) [])
        by (destruct (flatten_chunks (ch2 :: rest')); [congruence|reflexivity]).
      apply IH; auto. discriminate. }
  destruct (flatten_chunks chunks) as [|l0 ls] eqn:EF.
  { destruct chunks as [|[b ls0] rest]; [congruence|]. simpl in Hw. apply andb_true_iff in Hw. destruct Hw as [Hc _].
    destruct (wf_chunk_lines b ls0 Hc) as [Hn0 _]. destruct rest; simpl in EF; destruct ls0; try congruence; discriminate. }
  simpl hd in Hfs.
  assert (Hp0 : all_printable l0 = true) by (apply (Hlines l0); left; reflexivity).
  assert (Hne0 : nonempty l0 = true).
  { destruct (Hlines l0 (or_introl eq_refl)) as [_ [E|E]].
    - (* the first line of the first chunk is not blank *)
      exfalso. destruct chunks as [|[b ls0] rest]; [congruence|]. simpl in Hw. apply andb_true_iff in Hw. destruct Hw as [Hc _].
      destruct (wf_chunk_lines b ls0 Hc) as [Hn0 Hl0]. destruct ls0 as [|x r0]; [congruence|].
      assert (x = l0) by (destruct rest; simpl in EF; inversion EF; reflexivity). subst x.
      destruct (Hl0 l0 (or_introl eq_refl)) as [_ B]. subst l0. discriminate.
    - destruct l0; [discriminate|reflexivity]. }
  assert (Hwd : wf_desc l0 ls = true).
  { unfold wf_desc. rewrite Hp0, Hfs. simpl.
    assert (Hc : forallb wf_cont ls = true).
    { apply forallb_forall. intros l Hin. destruct (Hlines l (or_intror Hin)) as [A [B|B]].
      - subst l. reflexivity.
      - unfold wf_cont. unfold all_printable. rewrite A. rewrite B. simpl. apply orb_true_r. }
    rewrite Hc. simpl. unfold last_nonempty. destruct ls as [|x r]; [reflexivity|].
    replace (last (l0 :: x :: r) []) with (last (x :: r) []) in Hlastne by reflexivity.
    destruct (last (x :: r) []); [congruence|reflexivity]. }
  unfold read_section.
  rewrite (read_block_ok ind l0 ls tail tr n Hi Hne0 Hwd Ht).
  unfold parse_examples.
  assert (HP : forall l, In l (l0 :: ls) -> forallb printable l = true) by (intros l Hin; apply (Hlines l Hin)).
  assert (Hnn : l0 :: ls <> []) by discriminate.
  rewrite (split_nl_join _ Hnn HP). rewrite <- EF. rewrite <- Htrim.
  rewrite (ex_chunks trim chunks Hw Hadj). rewrite EF. reflexivity.
Qed.

(* ---- the main loop *)
Lemma gloop_step : forall f o c cur incode pb l rest,
  gloop (S f) o c cur incode pb (l :: rest) =
  let plain := fun (_ : unit) => gloop f o c (cur ++ [l]) false (is_empty_line l) rest in
  if incode then gloop f o c (cur ++ [l]) (negb (is_fence l)) (is_empty_line l) rest
  else if is_fence l then gloop f o c (cur ++ [l]) true (is_empty_line l) rest
  else match re_admonition l with
       | None => plain tt
       | Some (ty, title) =>
           let n1 := nth_error rest 0 in
           let n2 := nth_error rest 1 in
           let blank_below := is_blank_opt n1 in
           let ind1 := indented_opt n1 in
           let ind2 := indented_opt n2 in
           if negb (ind1 || ind2) then plain tt
           else if negb pb || (ind2 && blank_below) then plain tt
           else match g_section_kind (lower ty) with
                | Some k =>
                    match read_section o c k rest with
                    | RSErr => PErr "IndexError"
                    | RS b n => pcons (flush cur ++ titled title k b)
                                      (gloop f o c [] false (prev_blank_after rest n) (skipn n rest))
                    end
                | None =>
                    match read_block rest with
                    | RBBErr => PErr "IndexError"
                    | RBB [] _ => plain tt
                    | RBB t n => pcons (flush cur ++ [GAdm (dashify ty) (match title with Some x => x | None => ty end) t])
                                       (gloop f o c [] false (prev_blank_after rest n) (skipn n rest))
                    end
                end
       end.
Proof. reflexivity. Qed.

Lemma gloop_nil : forall f o c cur incode pb,
  gloop (S f) o c cur incode pb [] = POk (match cur with [] => [] | _ => [GText (text_of cur)] end).
Proof. reflexivity. Qed.

Lemma gloop_plain : forall f o c cur pb l rest, is_fence l = false ->
  (re_admonition l = None \/ (indented_opt (nth_error rest 0) = false /\ indented_opt (nth_error rest 1) = false)) ->
  gloop (S f) o c cur false pb (l :: rest) = gloop f o c (cur ++ [l]) false (is_empty_line l) rest.
Proof.
  intros f o c cur pb l rest Hf H. rewrite gloop_step. cbv zeta. rewrite Hf.
  destruct H as [H|[H1 H2]].
  - rewrite H. reflexivity.
  - destruct (re_admonition l) as [[ty title]|]; [|reflexivity]. rewrite H1, H2. reflexivity.
Qed.

Lemma unind_not_indented : forall x, unind x = true -> indented_opt (Some x) = false.
Proof.
  intros x H. unfold indented_opt. unfold unind in H. apply negb_true_iff in H. rewrite H. apply andb_false_r.
Qed.

Definition two_unind (rest : list str) : Prop :=
  indented_opt (nth_error rest 0) = false /\ indented_opt (nth_error rest 1) = false.

Lemma two_unind_cons : forall l rest, unind l = true -> two_unind rest -> two_unind (l :: rest).
Proof.
  intros l rest Hl [H0 _]. split; simpl.
  - apply unind_not_indented; auto.
  - exact H0.
Qed.

(* what lies within two lines of a text line: its own section's lines first, then the lines after the section *)
Lemma nth_app_unind : forall (tl rest : list str) i, i <= 1 -> indented_opt (nth_error tl i) = false -> two_unind rest ->
  indented_opt (nth_error (tl ++ rest) i) = false.
Proof.
  intros tl rest i Hi Ht [R0 R1].
  destruct tl as [|a [|b tl'']]; destruct i as [|[|i']]; try lia; simpl in *; auto.
Qed.

Lemma gloop_text : forall o c tl rest f cur pb incode, wf_tl incode tl = true -> two_unind rest ->
  gloop (List.length tl + f) o c cur incode pb (tl ++ rest) =
  gloop f o c (cur ++ tl) false (match tl with [] => pb | _ => is_empty_line (last tl []) end) rest.
Proof.
  intros o c tl. induction tl as [|l tl' IH]; intros rest f cur pb incode Ht Hr.
  - simpl in Ht. apply negb_true_iff in Ht. subst incode. simpl. rewrite app_nil_r. reflexivity.
  - simpl in Ht. apply andb_true_iff in Ht. destruct Ht as [Hp Ht].
    simpl List.length. simpl plus. rewrite <- app_comm_cons.
    assert (Hlast : forall b, match tl' with [] => b | _ => is_empty_line (last tl' []) end =
                              match tl' with [] => b | _ => is_empty_line (last (l :: tl') []) end)
      by (intros b; destruct tl'; reflexivity).
    destruct incode.
    + rewrite gloop_step. cbv zeta. cbv iota.
      rewrite (IH rest f (cur ++ [l]) (is_empty_line l) _ Ht Hr).
      rewrite <- app_assoc. simpl app. destruct tl'; reflexivity.
    + apply andb_true_iff in Ht. destruct Ht as [Hfs Ht].
      destruct (is_fence l) eqn:Ef.
      * rewrite gloop_step. cbv zeta. cbv iota. rewrite Ef.
        rewrite (IH rest f (cur ++ [l]) (is_empty_line l) _ Ht Hr).
        rewrite <- app_assoc. simpl app. destruct tl'; reflexivity.
      * apply andb_true_iff in Ht. destruct Ht as [Hsafe Ht].
        rewrite gloop_plain; [|exact Ef|].
        -- rewrite (IH rest f (cur ++ [l]) (is_empty_line l) _ Ht Hr).
           rewrite <- app_assoc. simpl app. destruct tl'; reflexivity.
        -- unfold adm_safe in Hsafe. destruct (re_admonition l) as [p|]; [right|left; reflexivity].
           apply negb_true_iff in Hsafe. apply orb_false_iff in Hsafe. destruct Hsafe as [S0 S1].
           split; apply nth_app_unind; auto.
Qed.

Lemma gloop_section : forall f o c cur l rest ty title k b n,
  is_fence l = false -> re_admonition l = Some (ty, title) ->
  indented_opt (nth_error rest 0) = true ->
  g_section_kind (lower ty) = Some k -> read_section o c k rest = RS b n ->
  gloop (S f) o c cur false true (l :: rest) =
  pcons (flush cur ++ titled title k b) (gloop f o c [] false (prev_blank_after rest n) (skipn n rest)).
Proof.
  intros f o c cur l rest ty title k b n Hf Hre Hi Hk Hrs.
  rewrite gloop_step. cbv zeta. rewrite Hf, Hre, Hi. simpl negb. cbv iota.
  assert (Hb : is_blank_opt (nth_error rest 0) = false).
  { unfold indented_opt in Hi. unfold is_blank_opt. destruct (nth_error rest 0); [|discriminate].
    apply andb_true_iff in Hi. destruct Hi as [Hi _]. apply negb_true_iff in Hi. exact Hi. }
  rewrite Hb. rewrite andb_false_r. simpl orb. cbv iota.
  rewrite Hk, Hrs. reflexivity.
Qed.

Lemma gloop_adm : forall f o c cur l rest ty title x t n,
  is_fence l = false -> re_admonition l = Some (ty, title) ->
  indented_opt (nth_error rest 0) = true ->
  g_section_kind (lower ty) = None -> read_block rest = RBB (x :: t) n ->
  gloop (S f) o c cur false true (l :: rest) =
  pcons (flush cur ++ [GAdm (dashify ty) (match title with Some y => y | None => ty end) (x :: t)])
        (gloop f o c [] false (prev_blank_after rest n) (skipn n rest)).
Proof.
  intros f o c cur l rest ty title x t n Hf Hre Hi Hk Hrb.
  rewrite gloop_step. cbv zeta. rewrite Hf, Hre, Hi. simpl negb. cbv iota.
  assert (Hb : is_blank_opt (nth_error rest 0) = false).
  { unfold indented_opt in Hi. unfold is_blank_opt. destruct (nth_error rest 0); [|discriminate].
    apply andb_true_iff in Hi. destruct Hi as [Hi _]. apply negb_true_iff in Hi. exact Hi. }
  rewrite Hb. rewrite andb_false_r. simpl orb. cbv iota.
  rewrite Hk, Hrb. reflexivity.
Qed.

(* ---- putting sections together *)
Lemma render_cons2 : forall ind s s2 r,
  render_google ind (s :: s2 :: r) = render_sec ind s ++ [] :: render_google ind (s2 :: r).
Proof. reflexivity. Qed.

Lemma wf_tl_printable : forall tl incode, wf_tl incode tl = true -> forall l, In l tl -> forallb printable l = true.
Proof.
  induction tl as [|x tl IH]; intros incode H l Hin; [destruct Hin|].
  simpl in H. apply andb_true_iff in H. destruct H as [Hp H].
  destruct Hin as [<-|Hin]; [exact Hp|].
  destruct incode.
  - apply (IH _ H l Hin).
  - apply andb_true_iff in H. destruct H as [_ H]. destruct (is_fence x).
    + apply (IH _ H l Hin).
    + apply andb_true_iff in H. destruct H as [_ H]. apply (IH _ H l Hin).
Qed.

Lemma wf_text_facts : forall tl, (nonempty (hd [] tl) && last_nonempty tl && wf_tl false tl && match tl with [] => false | _ => true end) = true ->
  tl <> [] /\ nonempty (hd [] tl) = true /\ last tl [] <> [] /\ wf_tl false tl = true /\
  (forall l, In l tl -> forallb printable l = true).
Proof.
  intros tl H.
  apply andb_true_iff in H; destruct H as [H Hne].
  apply andb_true_iff in H; destruct H as [H Hall].
  apply andb_true_iff in H; destruct H as [Hhd Hlast].
  assert (Hn : tl <> []) by (destruct tl; [discriminate|discriminate]).
  repeat split; auto.
  - unfold last_nonempty in Hlast. destruct tl; [congruence|]. destruct (last (l :: tl) []); [discriminate|discriminate].
  - apply (wf_tl_printable tl false Hall).
Qed.

Lemma text_of_join : forall tl, tl <> [] -> (forall l, In l tl -> forallb printable l = true) -> last tl [] <> [] ->
  text_of tl = join_nl tl /\ text_of (tl ++ [[]]) = join_nl tl.
Proof. intros. unfold text_of. split; [apply rstrip_join|apply rstrip_join_snoc]; auto. Qed.

Lemma any_truthy_hd : forall tl rest, nonempty (hd [] tl) = true -> any_truthy (tl ++ rest) = true.
Proof. intros tl rest H. destruct tl as [|l tl']; [discriminate|]. simpl. destruct l; [discriminate|reflexivity]. Qed.

Lemma wf_sec_header : forall o c s, wf_sec o c s = true ->
  match s with WText _ => True | WItems _ h _ _ | WAdm h _ _ | WRet _ _ _ h _ _ | WExamples _ h _ _ => wf_header h = true end.
Proof.
  intros o c s H. destruct s as [tl|k h t its|h t ls|m n k h t its|trim h t chunks]; [exact I| | | |];
    unfold wf_sec in H; destruct (wf_header h) eqn:E; try reflexivity; simpl in H; discriminate.
Qed.

Lemma render_sec_head : forall o c ind s, wf_sec o c s = true -> exists l rest, render_sec ind s = l :: rest /\ nsp_head l = true.
Proof.
  intros o c ind s H. assert (Hh := wf_sec_header o c s H). destruct s as [tl|k h t its|h t ls|m n k h t its|trim h t chunks].
  - simpl in H. destruct (wf_text_facts tl H) as [Hn [Hhd [_ [Hok HP]]]].
    destruct tl as [|l tl']; [congruence|]. exists l, tl'. split; [reflexivity|].
    simpl in Hhd. simpl in Hok. apply andb_true_iff in Hok. destruct Hok as [Hpl Hok].
    apply andb_true_iff in Hok. destruct Hok as [Hfs _].
    apply nsp_head_of; auto.
  - eexists. eexists. split; [reflexivity|]. apply header_line_head. exact Hh.
  - eexists. eexists. split; [reflexivity|]. apply header_line_head. exact Hh.
  - eexists. eexists. split; [reflexivity|]. apply header_line_head. exact Hh.
  - eexists. eexists. split; [reflexivity|]. apply header_line_head. exact Hh.
Qed.

Lemma render_google_head : forall o c ind s r, wf_sec o c s = true ->
  exists l rest, render_google ind (s :: r) = l :: rest /\ nsp_head l = true.
Proof.
  intros o c ind s r H. destruct (render_sec_head o c ind s H) as [l [rest [E Hl]]].
  destruct r as [|s2 r'].
  - exists l, rest. simpl. auto.
  - rewrite render_cons2. rewrite E. exists l, (rest ++ [] :: render_google ind (s2 :: r')). auto.
Qed.

(* the lines that follow a block inside render_google *)
Definition tail_of (ind : nat) (r : list wsec) : list str :=
  match r with [] => [] | _ => [] :: render_google ind r end.

Lemma render_google_tail : forall ind s r, render_google ind (s :: r) = render_sec ind s ++ tail_of ind r.
Proof. intros. destruct r; [simpl; rewrite app_nil_r; reflexivity|reflexivity]. Qed.

Lemma tail_of_ok : forall o c ind r, forallb (wf_sec o c) r = true ->
  exists tr n, tail_ok (tail_of ind r) tr n /\ n = match r with [] => 0 | _ => 1 end.
Proof.
  intros o c ind r H. destruct r as [|s r'].
  - exists [], 0. split; [constructor|reflexivity].
  - simpl in H. apply andb_true_iff in H. destruct H as [Hs _].
    destruct (render_google_head o c ind s r' Hs) as [l [rest [E Hl]]].
    exists [[]], 1. split; [|reflexivity]. unfold tail_of. rewrite E. constructor. exact Hl.
Qed.

Lemma skipn_app_len : forall (X Y : list str) k, skipn (List.length X + k) (X ++ Y) = skipn k Y.
Proof. induction X; intros; simpl; auto. Qed.

Lemma nth_error_app_len : forall (X Y : list str) y, nth_error (X ++ y :: Y) (List.length X) = Some y.
Proof. induction X; intros; simpl; auto. Qed.

Lemma after_block : forall ind X r n, n = match r with [] => 0 | _ => 1 end ->
  skipn (List.length X + n) (X ++ tail_of ind r) = render_google ind r /\
  (r <> [] -> prev_blank_after (X ++ tail_of ind r) (List.length X + n) = true).
Proof.
  intros ind X r n ->. destruct r as [|s r'].
  - split; [|congruence]. rewrite skipn_app_len. reflexivity.
  - split.
    + rewrite skipn_app_len. reflexivity.
    + intros _. unfold prev_blank_after. rewrite Nat.add_1_r. unfold tail_of. rewrite nth_error_app_len. reflexivity.
Qed.

Lemma indented_first : forall ind s rest, 1 <= ind -> nsp_head s = true ->
  indented_opt (nth_error ((spaces ind ++ s) :: rest) 0) = true.
Proof.
  intros ind s rest Hi Hs. simpl. rewrite is_empty_spaces_app, (nsp_head_not_empty s Hs). simpl.
  destruct ind; [lia|]. rewrite spaces_S. simpl. rewrite ?andb_true_r. try apply ceq_refl; reflexivity.
Qed.

Lemma kind_eqb_eq : forall a b, kind_eqb a b = true -> a = b.
Proof. destruct a, b; simpl; intros; try discriminate; reflexivity. Qed.

Definition first_not_text (secs : list wsec) : Prop :=
  match secs with s :: _ => is_text s = false | [] => False end.

Lemma pcons_ok : forall x l, pcons x (POk l) = POk (x ++ l).
Proof. reflexivity. Qed.

Theorem google_roundtrip_gen : forall o c ind secs, 1 <= ind -> wf_secs o c secs = true ->
  forall f, List.length (render_google ind secs) < f ->
  gloop f o c [] false true (render_google ind secs) = POk (expect_google c secs) /\
  (forall tl, wf_sec o c (WText tl) = true -> first_not_text secs ->
     gloop f o c (tl ++ [[]]) false true (render_google ind secs)
     = POk (GText (join_nl tl) :: expect_google c secs)).
Proof.
  intros o c ind secs Hi. induction secs as [|s r IH]; intros Hwf f Hf.
  - split.
    + destruct f; [simpl in Hf; lia|]. reflexivity.
    + intros tl _ [].
  - unfold wf_secs in Hwf. apply andb_true_iff in Hwf. destruct Hwf as [Hall Hadj].
    simpl in Hall. apply andb_true_iff in Hall. destruct Hall as [Hs Hr].
    assert (Hadj_r : no_adjacent_text r = true).
    { destruct r as [|s2 r']; [reflexivity|]. simpl in Hadj. apply andb_true_iff in Hadj. destruct Hadj as [_ H]. exact H. }
    assert (Hwf_r : wf_secs o c r = true) by (unfold wf_secs; rewrite Hr, Hadj_r; reflexivity).
    specialize (IH Hwf_r).
    destruct (tail_of_ok o c ind r Hr) as [tr [n [Htail Hn]]].
    rewrite render_google_tail in Hf |- *.
    destruct s as [tl0|k h t its|h t ls|m nm k h t its|trim h t chunks].
    + (* free text *)
      split; [|intros tl _ Hnt; simpl in Hnt; discriminate].
      simpl in Hs. destruct (wf_text_facts tl0 Hs) as [Hn0 [Hhd [Hlast [Hok HP]]]].
      destruct (text_of_join tl0 Hn0 HP Hlast) as [Et1 Et2].
      simpl render_sec in *. rewrite app_length in Hf.
      replace f with (List.length tl0 + (f - List.length tl0)) by lia.
      destruct r as [|s2 r'].
      * simpl tail_of in *. rewrite gloop_text; auto; [|split; reflexivity].
        destruct (f - List.length tl0) as [|f'] eqn:Ef; [simpl in Hf; lia|].
        rewrite gloop_nil. simpl app. destruct tl0; [congruence|]. rewrite Et1. reflexivity.
      * assert (Hnt : is_text s2 = false).
        { simpl in Hadj. apply andb_true_iff in Hadj. destruct Hadj as [H _]. simpl in H. apply negb_true_iff in H. exact H. }
        simpl in Hr. apply andb_true_iff in Hr. destruct Hr as [Hs2 Hr'].
        destruct (render_google_head o c ind s2 r' Hs2) as [l2 [rest2 [E2 Hl2]]].
        unfold tail_of in *.
        change (List.length ([] :: render_google ind (s2 :: r'))) with (S (List.length (render_google ind (s2 :: r')))) in Hf.
        rewrite gloop_text; auto.
        2:{ split; [reflexivity|]. change (nth_error ([] :: render_google ind (s2 :: r')) 1) with (nth_error (render_google ind (s2 :: r')) 0).
            rewrite E2. apply unind_not_indented. apply nsp_head_unind. exact Hl2. }
        destruct (f - List.length tl0) as [|f'] eqn:Ef; [lia|].
        rewrite gloop_plain by (auto; left; reflexivity).
        destruct (IH f') as [_ IHb]; [lia|].
        simpl app at 1. simpl is_empty_line.
        rewrite (IHb tl0 Hs Hnt). reflexivity.
    + (* a section of items *)
      simpl in Hs.
      apply andb_true_iff in Hs; destruct Hs as [Hs Hmode].
      apply andb_true_iff in Hs; destruct Hs as [Hs Hitems].
      apply andb_true_iff in Hs; destruct Hs as [Hs Hne].
      apply andb_true_iff in Hs; destruct Hs as [Hs Hkind].
      apply andb_true_iff in Hs; destruct Hs as [Hh Ht].
      destruct (g_section_kind (lower h)) as [k'|] eqn:Ek; [|discriminate].
      apply kind_eqb_eq in Hkind. subst k'.
      destruct its as [|it its']; [discriminate|].
      destruct (header_line_head h t Hh) as [_ Hfence].
      assert (Hre := re_admonition_header h t Hh Ht).
      assert (Hok := wf_items_ok k _ Hitems).
      assert (Hrs := read_section_ok o c k ind it its' (tail_of ind r) tr n Hi Hitems Htail Hmode).
      set (X := flat_map (item_lines ind k) (it :: its')) in *.
      change (render_sec ind (WItems k h t (it :: its'))) with (header_line h t :: X) in *.
      destruct (after_block ind X r n Hn) as [Hskip Hpb].
      assert (Hind : indented_opt (nth_error (X ++ tail_of ind r) 0) = true).
      { unfold X. rewrite items_lines_cons. inversion Hok as [|? ? [Hh1 _] _]; subst. apply indented_first; auto. }
      destruct f as [|f']; [lia|].
      assert (Hf' : List.length (render_google ind r) < f').
      { simpl in Hf. rewrite app_length in Hf. destruct r; simpl in *; lia. }
      assert (Hexp : expect_google c (WItems k h t (it :: its') :: r) =
                     GItems k t (expect_items c k (negb (List.length (it :: its') <=? 1)) 0 (it :: its')) :: expect_google c r) by reflexivity.
      assert (Hrest : gloop f' o c [] false (prev_blank_after (X ++ tail_of ind r) (List.length X + n))
                        (skipn (List.length X + n) (X ++ tail_of ind r)) = POk (expect_google c r)).
      { rewrite Hskip. destruct r as [|s2 r'].
        - destruct f'; [simpl in Hf'; lia|]. reflexivity.
        - rewrite Hpb by discriminate. destruct (IH f' Hf') as [IHa _]. exact IHa. }
      split.
      * rewrite <- app_comm_cons.
        rewrite (gloop_section f' o c [] _ _ h t k _ _ Hfence Hre Hind Ek Hrs).
        rewrite Hrest. rewrite Hexp. reflexivity.
      * intros tl Htl _. simpl in Htl. destruct (wf_text_facts tl Htl) as [Hn0 [Hhd [Hlast [_ HP]]]].
        destruct (text_of_join tl Hn0 HP Hlast) as [_ Et2].
        rewrite <- app_comm_cons.
        rewrite (gloop_section f' o c (tl ++ [[]]) _ _ h t k _ _ Hfence Hre Hind Ek Hrs).
        rewrite Hrest. rewrite Hexp. unfold flush. rewrite (any_truthy_hd tl [[]] Hhd). rewrite Et2. reflexivity.
    + (* an admonition *)
      simpl in Hs.
      apply andb_true_iff in Hs; destruct Hs as [Hs Hls].
      apply andb_true_iff in Hs; destruct Hs as [Hs Hkind].
      apply andb_true_iff in Hs; destruct Hs as [Hh Ht].
      destruct (g_section_kind (lower h)) as [k'|] eqn:Ek; [discriminate|].
      destruct ls as [|l0 ls']; [discriminate|].
      apply andb_true_iff in Hls; destruct Hls as [Hl0 Hd].
      destruct (header_line_head h t Hh) as [_ Hfence].
      assert (Hre := re_admonition_header h t Hh Ht).
      assert (Hrb := read_block_ok ind l0 ls' (tail_of ind r) tr n Hi Hl0 Hd Htail).
      set (X := map (indent_line ind) (l0 :: ls')) in *.
      change (render_sec ind (WAdm h t (l0 :: ls'))) with (header_line h t :: X) in *.
      assert (HX : S (List.length ls') = List.length X) by (unfold X; rewrite map_length; reflexivity).
      rewrite HX in Hrb.
      destruct (after_block ind X r n Hn) as [Hskip Hpb].
      destruct (wf_desc_d0 _ _ Hd) as [Hp0 Hf0].
      assert (Hns : nsp_head l0 = true) by (apply nsp_head_of; auto).
      assert (Hind : indented_opt (nth_error (X ++ tail_of ind r) 0) = true).
      { unfold X. simpl map. rewrite <- app_comm_cons. destruct l0 as [|x l0']; [discriminate|].
        change (indent_line ind (x :: l0')) with (spaces ind ++ x :: l0'). apply indented_first; auto. }
      destruct f as [|f']; [lia|].
      assert (Hf' : List.length (render_google ind r) < f').
      { simpl in Hf. rewrite app_length in Hf. destruct r; simpl in *; lia. }
      assert (Hexp : expect_google c (WAdm h t (l0 :: ls') :: r) =
                     GAdm (dashify h) (match t with Some y => y | None => h end) (join_nl (l0 :: ls')) :: expect_google c r) by reflexivity.
      assert (Hrest : gloop f' o c [] false (prev_blank_after (X ++ tail_of ind r) (List.length X + n))
                        (skipn (List.length X + n) (X ++ tail_of ind r)) = POk (expect_google c r)).
      { rewrite Hskip. destruct r as [|s2 r'].
        - destruct f'; [simpl in Hf'; lia|]. reflexivity.
        - rewrite Hpb by discriminate. destruct (IH f' Hf') as [IHa _]. exact IHa. }
      destruct (join_nl (l0 :: ls')) as [|x txt] eqn:Ej.
      { destruct l0 as [|y l0']; [discriminate|]. destruct ls'; simpl in Ej; discriminate. }
      split.
      * rewrite <- app_comm_cons.
        rewrite (gloop_adm f' o c [] _ _ h t x txt _ Hfence Hre Hind Ek Hrb).
        rewrite Hrest. rewrite Hexp. reflexivity.
      * intros tl Htl _. simpl in Htl. destruct (wf_text_facts tl Htl) as [Hn0 [Hhd [Hlast [_ HP]]]].
        destruct (text_of_join tl Hn0 HP Hlast) as [_ Et2].
        rewrite <- app_comm_cons.
        rewrite (gloop_adm f' o c (tl ++ [[]]) _ _ h t x txt _ Hfence Hre Hind Ek Hrb).
        rewrite Hrest. rewrite Hexp. unfold flush. rewrite (any_truthy_hd tl [[]] Hhd). rewrite Et2. reflexivity.
    + (* a Returns / Yields / Receives section written for the option values in force *)
      simpl in Hs.
      apply andb_true_iff in Hs; destruct Hs as [Hs Hlen].
      apply andb_true_iff in Hs; destruct Hs as [Hs Hmode].
      apply andb_true_iff in Hs; destruct Hs as [Hs Hrk].
      apply andb_true_iff in Hs; destruct Hs as [Hs Hitems].
      apply andb_true_iff in Hs; destruct Hs as [Hs Hne].
      apply andb_true_iff in Hs; destruct Hs as [Hs Hkind].
      apply andb_true_iff in Hs; destruct Hs as [Hh Ht].
      destruct (g_section_kind (lower h)) as [k'|] eqn:Ek; [|discriminate].
      apply kind_eqb_eq in Hkind. subst k'.
      destruct its as [|it its']; [discriminate|].
      assert (Hk : rkind k) by (destruct k; try discriminate; unfold rkind; tauto).
      assert (Hmodes : modes_of o k = (m, nm)).
      { destruct (modes_of o k) as [m' n']. apply andb_true_iff in Hmode. destruct Hmode as [A B].
        apply Bool.eqb_prop in A. apply Bool.eqb_prop in B. subst. reflexivity. }
      assert (Hsingle : m = true \/ its' = []).
      { destruct m; [left; reflexivity|right]. simpl in Hlen. destruct its'; [reflexivity|discriminate]. }
      destruct (header_line_head h t Hh) as [_ Hfence].
      assert (Hre := re_admonition_header h t Hh Ht).
      assert (Hrs := read_section_ret_ok o c m nm k ind it its' (tail_of ind r) tr n Hi Hk Hitems Hmodes Hsingle Htail).
      set (X := flat_map (item_lines_m m nm ind k) (it :: its')) in *.
      change (render_sec ind (WRet m nm k h t (it :: its'))) with (header_line h t :: X) in *.
      destruct (after_block ind X r n Hn) as [Hskip Hpb].
      assert (Hind : indented_opt (nth_error (X ++ tail_of ind r) 0) = true).
      { unfold X. change (flat_map (item_lines_m m nm ind k) (it :: its')) with (item_lines_m m nm ind k it ++ flat_map (item_lines_m m nm ind k) its').
        unfold item_lines_m at 1. rewrite <- app_assoc. rewrite <- app_comm_cons.
        simpl in Hitems. apply andb_true_iff in Hitems. destruct Hitems as [Hit _].
        destruct (first_line_m_facts m nm k it Hk Hit) as [Hh1 _]. apply indented_first; auto. }
      destruct f as [|f']; [lia|].
      assert (Hf' : List.length (render_google ind r) < f').
      { simpl in Hf. rewrite app_length in Hf. destruct r; simpl in *; lia. }
      assert (Hexp : expect_google c (WRet m nm k h t (it :: its') :: r) =
                     GItems k t (expect_items c k (negb (List.length (it :: its') <=? 1)) 0 (it :: its')) :: expect_google c r) by reflexivity.
      assert (Hrest : gloop f' o c [] false (prev_blank_after (X ++ tail_of ind r) (List.length X + n))
                        (skipn (List.length X + n) (X ++ tail_of ind r)) = POk (expect_google c r)).
      { rewrite Hskip. destruct r as [|s2 r'].
        - destruct f'; [simpl in Hf'; lia|]. reflexivity.
        - rewrite Hpb by discriminate. destruct (IH f' Hf') as [IHa _]. exact IHa. }
      split.
      * rewrite <- app_comm_cons.
        rewrite (gloop_section f' o c [] _ _ h t k _ _ Hfence Hre Hind Ek Hrs).
        rewrite Hrest. rewrite Hexp. reflexivity.
      * intros tl Htl _. simpl in Htl. destruct (wf_text_facts tl Htl) as [Hn0 [Hhd [Hlast [_ HP]]]].
        destruct (text_of_join tl Hn0 HP Hlast) as [_ Et2].
        rewrite <- app_comm_cons.
        rewrite (gloop_section f' o c (tl ++ [[]]) _ _ h t k _ _ Hfence Hre Hind Ek Hrs).
        rewrite Hrest. rewrite Hexp. unfold flush. rewrite (any_truthy_hd tl [[]] Hhd). rewrite Et2. reflexivity.
    + (* an Examples section *)
      simpl in Hs.
      apply andb_true_iff in Hs; destruct Hs as [Hs Hfs].
      apply andb_true_iff in Hs; destruct Hs as [Hs Hadjp].
      apply andb_true_iff in Hs; destruct Hs as [Hs Hchunks].
      apply andb_true_iff in Hs; destruct Hs as [Hs Hne].
      apply andb_true_iff in Hs; destruct Hs as [Hs Htrim].
      apply andb_true_iff in Hs; destruct Hs as [Hs Hkind].
      apply andb_true_iff in Hs; destruct Hs as [Hh Ht].
      destruct (g_section_kind (lower h)) as [k'|] eqn:Ek; [|discriminate].
      destruct k'; try discriminate.
      apply Bool.eqb_prop in Htrim.
      assert (Hcne : chunks <> []) by (destruct chunks; [discriminate|discriminate]).
      destruct (header_line_head h t Hh) as [_ Hfence].
      assert (Hre := re_admonition_header h t Hh Ht).
      assert (Hrs := read_section_examples_ok o c ind trim chunks (tail_of ind r) tr n Hi Hchunks Hadjp Hcne Hfs Htrim Htail).
      set (X := map (indent_line ind) (flatten_chunks chunks)) in *.
      change (render_sec ind (WExamples trim h t chunks)) with (header_line h t :: X) in *.
      assert (HX : List.length (flatten_chunks chunks) = List.length X) by (unfold X; rewrite map_length; reflexivity).
      rewrite HX in Hrs.
      destruct (after_block ind X r n Hn) as [Hskip Hpb].
      (* the first body line is a non-blank line of the first chunk, indented *)
      assert (Hfl : exists l0 ls, flatten_chunks chunks = l0 :: ls /\ nsp_head l0 = true).
      { destruct chunks as [|[b ls0] rest]; [congruence|]. simpl in Hchunks. apply andb_true_iff in Hchunks. destruct Hchunks as [Hc _].
        destruct (wf_chunk_lines b ls0 Hc) as [Hn0 Hl0]. destruct ls0 as [|x r0]; [congruence|].
        exists x. destruct (Hl0 x (or_introl eq_refl)) as [Px Ex].
        assert (E : exists ls, flatten_chunks ((b, x :: r0) :: rest) = x :: ls) by (destruct rest; simpl; eauto).
        destruct E as [ls E]. exists ls. split; [exact E|]. rewrite E in Hfs. simpl in Hfs.
        apply nsp_head_of; auto. destruct x; [discriminate|reflexivity]. }
      destruct Hfl as [l0 [ls0 [Efl Hl0]]].
      assert (Hind : indented_opt (nth_error (X ++ tail_of ind r) 0) = true).
      { unfold X. rewrite Efl. simpl map. rewrite <- app_comm_cons. destruct l0 as [|x l0']; [discriminate|].
        change (indent_line ind (x :: l0')) with (spaces ind ++ x :: l0'). apply indented_first; auto. }
      destruct f as [|f']; [lia|].
      assert (Hf' : List.length (render_google ind r) < f').
      { simpl in Hf. rewrite app_length in Hf. destruct r; simpl in *; lia. }
      assert (Hexp : expect_google c (WExamples trim h t chunks :: r) =
                     GExamples t (map (expect_chunk trim) chunks) :: expect_google c r) by reflexivity.
      assert (Htitled : titled t KExamples (BExamples (map (expect_chunk trim) chunks)) = [GExamples t (map (expect_chunk trim) chunks)]).
      { destruct chunks; [congruence|reflexivity]. }
      assert (Hrest : gloop f' o c [] false (prev_blank_after (X ++ tail_of ind r) (List.length X + n))
                        (skipn (List.length X + n) (X ++ tail_of ind r)) = POk (expect_google c r)).
      { rewrite Hskip. destruct r as [|s2 r'].
        - destruct f'; [simpl in Hf'; lia|]. reflexivity.
        - rewrite Hpb by discriminate. destruct (IH f' Hf') as [IHa _]. exact IHa. }
      split.
      * rewrite <- app_comm_cons.
        rewrite (gloop_section f' o c [] _ _ h t KExamples _ _ Hfence Hre Hind Ek Hrs).
        rewrite Hrest. rewrite Hexp. rewrite Htitled. reflexivity.
      * intros tl Htl _. simpl in Htl. destruct (wf_text_facts tl Htl) as [Hn0 [Hhd [Hlast [_ HP]]]].
        destruct (text_of_join tl Hn0 HP Hlast) as [_ Et2].
        rewrite <- app_comm_cons.
        rewrite (gloop_section f' o c (tl ++ [[]]) _ _ h t KExamples _ _ Hfence Hre Hind Ek Hrs).
        rewrite Hrest. rewrite Hexp. rewrite Htitled. unfold flush. rewrite (any_truthy_hd tl [[]] Hhd). rewrite Et2. reflexivity.
Qed.

Theorem google_roundtrip : forall o c ind secs, 1 <= ind -> wf_secs o c secs = true ->
  parse_google o c (render_google ind secs) = POk (expect_google c secs).
Proof.
  intros o c ind secs Hi Hwf. unfold parse_google.
  destruct (google_roundtrip_gen o c ind secs Hi Hwf (S (List.length (render_google ind secs)))) as [H _]; [lia|exact H].
Qed.

(* ---- consequences *)

(* no content crosses a section boundary: section i of the parsed document is what section i parses to on its own *)
Lemma wf_single : forall o c s, wf_sec o c s = true -> wf_secs o c [s] = true.
Proof. intros o c s H. unfold wf_secs. simpl. rewrite H. reflexivity. Qed.

Theorem google_no_leak : forall o c ind secs i s, 1 <= ind -> wf_secs o c secs = true -> nth_error secs i = Some s ->
  exists parsed,
    parse_google o c (render_google ind secs) = POk parsed /\
    nth_error parsed i = Some (expect_sec c s) /\
    parse_google o c (render_google ind [s]) = POk [expect_sec c s].
Proof.
  intros o c ind secs i s Hi Hwf Hn.
  exists (expect_google c secs). split; [apply google_roundtrip; auto|]. split.
  - unfold expect_google. rewrite nth_error_map. rewrite Hn. reflexivity.
  - assert (Hs : wf_sec o c s = true).
    { unfold wf_secs in Hwf. apply andb_true_iff in Hwf. destruct Hwf as [Hall _].
      rewrite forallb_forall in Hall. apply Hall. eapply nth_error_In; eauto. }
    apply (google_roundtrip o c ind [s] Hi (wf_single o c s Hs)).
Qed.

(* what the signature contributes: an omitted annotation is the parent's, the default value always is *)
Definition parent_annotation (c : pctx) (n : str) : option str := match lookup_param c n with Some (a, _) => a | None => None end.
Definition parent_default (c : pctx) (n : str) : option str := match lookup_param c n with Some (_, v) => v | None => None end.

Theorem google_signature_fallback_params : forall o c ind h t its k, (k = KParams \/ k = KOther) -> 1 <= ind ->
  wf_secs o c [WItems k h t its] = true ->
  exists items,
    parse_google o c (render_google ind [WItems k h t its]) = POk [GItems k t items] /\
    Forall2 (fun it p =>
               p_name p = Some (oapp (w_name it)) /\
               p_ann p = match w_ann it with Some a => Some a | None => parent_annotation c (oapp (w_name it)) end /\
               p_value p = parent_default c (oapp (w_name it))) its items.
Proof.
  intros o c ind h t its k Hk Hi Hwf.
  exists (expect_items c k (negb (List.length its <=? 1)) 0 its). split.
  - rewrite (google_roundtrip o c ind _ Hi Hwf). reflexivity.
  - assert (G : forall m i, Forall2 (fun it p =>
               p_name p = Some (oapp (w_name it)) /\
               p_ann p = match w_ann it with Some a => Some a | None => parent_annotation c (oapp (w_name it)) end /\
               p_value p = parent_default c (oapp (w_name it))) its (expect_items c k m i its)).
    { clear Hwf. induction its as [|it r IH]; intros m i; simpl; constructor; auto.
      destruct Hk as [->| ->]; simpl; destruct (w_ann it); auto. }
    apply G.
Qed.

Theorem google_signature_fallback_returns : forall o c ind h t its k, (k = KReturns \/ k = KYields \/ k = KReceives) -> 1 <= ind ->
  wf_secs o c [WItems k h t its] = true ->
  exists items,
    parse_google o c (render_google ind [WItems k h t its]) = POk [GItems k t items] /\
    forall i it, nth_error its i = Some it ->
      exists p, nth_error items i = Some p /\
        p_ann p = match w_ann it with
                  | Some a => Some a
                  | None => annotation_from_parent c (gen_index_of k) (negb (List.length its <=? 1)) i
                  end.
Proof.
  intros o c ind h t its k Hk Hi Hwf.
  exists (expect_items c k (negb (List.length its <=? 1)) 0 its). split.
  - rewrite (google_roundtrip o c ind _ Hi Hwf). reflexivity.
  - generalize (negb (List.length its <=? 1)). clear Hwf. intros m.
    assert (G : forall base i it, nth_error its i = Some it ->
              exists p, nth_error (expect_items c k m base its) i = Some p /\
                p_ann p = match w_ann it with Some a => Some a | None => annotation_from_parent c (gen_index_of k) m (base + i) end).
    { induction its as [|it0 r IH]; intros base i it Hn; [destruct i; discriminate|].
      destruct i as [|i'].
      - simpl in Hn. inversion Hn; subst. eexists. split; [reflexivity|].
        rewrite Nat.add_0_r. destruct Hk as [->|[->| ->]]; simpl; destruct (w_ann it); reflexivity.
      - simpl in Hn. destruct (IH (S base) i' it Hn) as [p [Hp Ha]]. exists p. split; [exact Hp|].
        rewrite Ha. replace (S base + i') with (base + S i') by lia. reflexivity. }
    intros i it Hn. apply (G 0 i it Hn).
Qed.


(* the same for a section written for any option values: the tuple is split by the NUMBER OF DOCUMENTED ITEMS, whatever
   *_multiple_items says (with *_multiple_items=False there is one item, hence the whole annotation) *)
Theorem google_signature_fallback_returns_modes : forall o c ind m n h t its k, (k = KReturns \/ k = KYields \/ k = KReceives) -> 1 <= ind ->
  wf_secs o c [WRet m n k h t its] = true ->
  exists items,
    parse_google o c (render_google ind [WRet m n k h t its]) = POk [GItems k t items] /\
    forall i it, nth_error its i = Some it ->
      exists p, nth_error items i = Some p /\
        p_ann p = match w_ann it with
                  | Some a => Some a
                  | None => annotation_from_parent c (gen_index_of k) (negb (List.length its <=? 1)) i
                  end.
Proof.
  intros o c ind m n h t its k Hk Hi Hwf.
  exists (expect_items c k (negb (List.length its <=? 1)) 0 its). split.
  - rewrite (google_roundtrip o c ind _ Hi Hwf). reflexivity.
  - generalize (negb (List.length its <=? 1)). clear Hwf. intros mm.
    assert (G : forall base i it, nth_error its i = Some it ->
              exists p, nth_error (expect_items c k mm base its) i = Some p /\
                p_ann p = match w_ann it with Some a => Some a | None => annotation_from_parent c (gen_index_of k) mm (base + i) end).
    { induction its as [|it0 r IH]; intros base i it Hn; [destruct i; discriminate|].
      destruct i as [|i'].
      - simpl in Hn. inversion Hn; subst. eexists. split; [reflexivity|].
        rewrite Nat.add_0_r. destruct Hk as [->|[->| ->]]; simpl; destruct (w_ann it); reflexivity.
      - simpl in Hn. destruct (IH (S base) i' it Hn) as [p [Hp Ha]]. exists p. split; [exact Hp|].
        rewrite Ha. replace (S base + i') with (base + S i') by lia. reflexivity. }
    intros i it Hn. apply (G 0 i it Hn).
Qed.

(* non-vacuity of the option modes: single-item unnamed Returns of a tuple-returning function; multi-item unnamed Yields *)
Definition modes_opts : gopts := mkOpts false false true true true.
Definition modes_ctx : pctx := mkCtx (Some []) (Some []) (RPlain (RPTuple (s_of "tuple[int, str]") [s_of "int"; s_of "str"])).
Definition modes_doc : list wsec :=
  [WText [s_of "Summary."; []; s_of "```python"; s_of "    Args:"; []; s_of "        x: y"; s_of "```"; s_of "After the code."];
   WRet false false KReturns (s_of "Returns") None [mkW None None (s_of "Both values") [s_of "on two lines."; []; s_of "    deeper"]];
   WExamples true (s_of "Examples") None
     [(false, [s_of "Some prose."; s_of "More prose."]);
      (true, [s_of ">>> f(1)  # doctest: +SKIP"; s_of "1"; s_of "<BLANKLINE>"; s_of "2"]);
      (true, [s_of ">>> g()"]);
      (false, [s_of "Closing words."])];
   WRet false false KYields (s_of "Yields") (Some (s_of "the title")) [mkW None (Some (s_of "list of int")) (s_of "Numbers.") []]].
Example modes_wf : wf_secs modes_opts modes_ctx modes_doc = true.
Proof. vm_compute. reflexivity. Qed.
Example modes_parsed :
  parse_google modes_opts modes_ctx (render_google 4 modes_doc) =
  POk [GText (s_of "Summary.

```python
    Args:

        x: y
```
After the code.");
       GItems KReturns None [mkItem (Some []) (Some (s_of "tuple[int, str]")) (s_of "Both values
on two lines.

    deeper") None];
       GExamples None [(false, s_of "Some prose.
More prose."); (true, s_of ">>> f(1)
1

2"); (true, s_of ">>> g()"); (false, s_of "Closing words.")];
       GItems KYields (Some (s_of "the title")) [mkItem (Some []) (Some (s_of "list of int")) (s_of "Numbers.") None]].
Proof. vm_compute. reflexivity. Qed.

(* ---- the witnesses of the repaired findings C13-F1 and C13-F2 are now well-formed and round-trip *)
Definition f1_witness : list wsec :=
  [WText [s_of "Summary."];
   WItems KReturns (s_of "Returns") None [mkW (Some (s_of "x")) (Some (s_of "int")) (s_of "see f(a): b") []]].

Definition f2_ctx : pctx := mkCtx None (Some []) RNone.
Definition f2_witness : list wsec :=
  [WText [s_of "Summary."];
   WItems KAttrs (s_of "Attributes") None
     [mkW (Some (s_of "a")) (Some (s_of "int")) (s_of "A.") []; mkW (Some (s_of "b")) None (s_of "B.") []]].

Example former_gaps_wf : wf_secs default_opts no_parent f1_witness = true /\ wf_secs default_opts f2_ctx f2_witness = true.
Proof. split; vm_compute; reflexivity. Qed.

Lemma google_former_gaps_roundtrip :
  parse_google default_opts no_parent (render_google 4 f1_witness) =
    POk [GText (s_of "Summary.");
         GItems KReturns None [mkItem (Some (s_of "x")) (Some (s_of "int")) (s_of "see f(a): b") None]] /\
  parse_google default_opts f2_ctx (render_google 4 f2_witness) =
    POk [GText (s_of "Summary.");
         GItems KAttrs None [mkItem (Some (s_of "a")) (Some (s_of "int")) (s_of "A.") None;
                             mkItem (Some (s_of "b")) None (s_of "B.") None]].
Proof. split; vm_compute; reflexivity. Qed.

(* ---- the hypotheses are satisfiable: a document with every construct the theorem covers *)
Definition sample_ctx : pctx :=
  mkCtx (Some [(s_of "a", (Some (s_of "int"), Some (s_of "1"))); (s_of "args", (Some (s_of "str"), Some (s_of "()")))])
        (Some []) (RPlain (RPTuple (s_of "tuple[bool, float]") [s_of "bool"; s_of "float"])).

Definition sample_doc : list wsec :=
  [WText [s_of "Summary line."; []; s_of "Note: more text, second paragraph."];
   WItems KParams (s_of "Args") (Some (s_of "the inputs:"))
     [mkW (Some (s_of "a")) None [] [s_of "Here's a."; []; s_of "    indented: code"];
      mkW (Some (s_of "*args")) (Some (s_of "list[int]")) (s_of "Rest (see `a`).") [s_of "Returns:"]];
   WItems KReturns (s_of "Returns") None
     [mkW (Some (s_of "success")) None (s_of "Whether it worked.") []; mkW None None (s_of "Final precision.") []];
   WAdm (s_of "See also") None [s_of "other things."; []; s_of "  - one"];
   WItems KRaises (s_of "EXCEPTIONS") None [mkW None (Some (s_of "ValueError")) (s_of "When: bad.") []];
   WText [s_of "Trailing text."]].

Example sample_wf : wf_secs default_opts sample_ctx sample_doc = true.
Proof. vm_compute. reflexivity. Qed.

Example sample_parsed :
  parse_google default_opts sample_ctx (render_google 2 sample_doc) =
  POk [GText (s_of "Summary line.

Note: more text, second paragraph.");
       GItems KParams (Some (s_of "the inputs:"))
         [mkItem (Some (s_of "a")) (Some (s_of "int")) (s_of "
Here's a.

    indented: code") (Some (s_of "1"));
          mkItem (Some (s_of "*args")) (Some (s_of "list[int]")) (s_of "Rest (see `a`).
Returns:") (Some (s_of "()"))];
       GItems KReturns None
         [mkItem (Some (s_of "success")) (Some (s_of "bool")) (s_of "Whether it worked.") None;
          mkItem (Some []) (Some (s_of "float")) (s_of "Final precision.") None];
       GAdm (s_of "see-also") (s_of "See also") (s_of "other things.

  - one");
       GItems KRaises None [mkItem None (Some (s_of "ValueError")) (s_of "When: bad.") None];
       GText (s_of "Trailing text.")].
Proof. vm_compute. reflexivity. Qed.
