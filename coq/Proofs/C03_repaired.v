(* C03 proofs, part 6: the printer with every repair.  No gap family is left except await (no builder), a bare yield stored
   from a position that needs an expression, and trees that are not f-string shaped: the render theorem holds WITHOUT the
   grouping (F1), f-string (F3), lambda (F4), generator (F6), empty tuple (F7), yield-operand (F8) and integer attribute (F9)
   hypotheses. *)
From Coq Require Import List ZArith String Ascii Bool Arith Lia.
From Verif Require Import Lib.Sexp Model.C03_ops Gen.C03_tables Model.C03_expr Model.C03_spec
  Proofs.C03_ind Proofs.C03_iter Proofs.C03_rule Proofs.C03_render.
Import ListNotations.
Open Scope string_scope. Open Scope list_scope. Open Scope nat_scope.

(* the values of a JoinedStr are literal text and replacement fields, as in every tree the parser produces *)
Definition is_fpart (e : pyexpr) : bool := match e with PStr _ _ _ | PFormattedValue _ _ _ => true | _ => false end.
Definition is_fvalue (e : pyexpr) : bool := match e with PFormattedValue _ _ _ => true | _ => false end.

Fixpoint fshape (e : pyexpr) {struct e} : bool :=
  let d := fshape in
  let dopt := fun (o : option pyexpr) => match o with Some c => d c | None => true end in
  match e with
  | PName _ _ | PNum _ _ | PConst _ | PStr _ _ _ => true
  | PParsed p => d p
  | PJoinedStr vs => forallb is_fpart vs && forallb d vs
  | PAttribute v _ | PUnaryOp _ v | PKeyword _ v | PStarred v | PYieldFrom v | PAwait v => d v
  | PBinOp l _ r => d l && d r
  | PBoolOp _ vs | PTuple vs | PList vs | PSet vs | PDict vs => forallb d vs
  | PCompare l _ cs => d l && forallb d cs
  | PCall f args kws => d f && forallb d args && forallb d kws
  | PSubscript v _ sl => d v && d sl
  | PSlice lo up st => dopt lo && dopt up && dopt st
  | PDictItem k v => dopt k && d v
  | PIfExp b t o => d b && d t && d o
  | PLambda po pk _ ko _ body => forallb d po && forallb d pk && forallb d ko && d body
  | PParam _ dd => dopt dd
  | PNamedExpr t v => d t && d v
  | PListComp e1 gens | PSetComp e1 gens | PGeneratorExp e1 gens => d e1 && forallb d gens
  | PDictComp k v gens => d k && d v && forallb d gens
  | PComprehension t it ifs _ => d t && d it && forallb d ifs
  | PFormattedValue v _ spec => d v && dopt spec
  | PYield v => dopt v
  end.

Local Notation gapsA := (gaps fx_all).

Definition flags_ok (j f : bool) (e : pyexpr) : Prop := j && negb f = false \/ is_fvalue e = true.

Definition CleanP (e : pyexpr) : Prop :=
  forall k d s j f, wfk k e = true -> fshape e = true -> scan fx_all false e = false -> flags_ok j f e -> gapsA d s j f e = [].

Lemma existsb_false_Forall {A} (f : A -> bool) l : existsb f l = false -> Forall (fun x => f x = false) l.
Proof.
  induction l as [|x l IH]; simpl; intros H; [constructor|]. apply orb_false_iff in H. destruct H. constructor; auto.
Qed.

Lemma clean_list (G : pyexpr -> list nat) (k : poskind) vs :
  Forall CleanP vs -> forallb (wfk k) vs = true -> forallb fshape vs = true -> existsb (scan fx_all false) vs = false ->
  (forall c, wfk k c = true -> fshape c = true -> scan fx_all false c = false -> CleanP c -> G c = []) ->
  flat_map G vs = [].
Proof.
  intros H Hw Hs Ha HG. apply forallb_Forall in Hw. apply forallb_Forall in Hs. apply existsb_false_Forall in Ha.
  induction H as [|x l Hx _ IH]; [reflexivity|]. inversion Hw; subst. inversion Hs; subst. inversion Ha; subst.
  simpl. rewrite (HG x) by assumption. apply IH; assumption.
Qed.

Ltac split_andb' :=
  repeat match goal with
         | H : _ && _ = true |- _ => apply andb_prop in H; destruct H
         | H : _ || _ = false |- _ => apply orb_false_iff in H; destruct H
         end.

Lemma need_all req c : need fx_all req c = []. Proof. reflexivity. Qed.

Ltac cstart :=
  intros k d s j f Hw Hs Ha Hf; cbn [wfk] in Hw;
  (destruct k; cbn [andb] in Hw; try discriminate Hw); split_andb';
  cbn [fshape] in Hs; cbn [scan] in Ha; split_andb'; cbn [C03_spec.gaps fx_all fx_intattr fx_tuple0 fx_lambda fx_genexp fx_fconv fx_fglue fx_fnest fx_fesc negb andb];
  rewrite ?need_all; cbn [app].

(* one child at flags (j, f) that satisfy the invariant *)
Ltac kidc IH :=
  match type of IH with
  | CleanP ?x =>
      match goal with
      | |- context [gaps fx_all ?d ?s ?j ?f x] =>
          rewrite (IH KExpr d s j f ltac:(assumption) ltac:(assumption) ltac:(assumption) ltac:(first [left; assumption | left; reflexivity | left; apply andb_false_r]))
      end
  end.

Theorem clean_all : forall e, CleanP e.
Proof.
  apply pyexpr_ind'.
  - intros id loc. cstart. reflexivity.
  - intros i r. cstart. reflexivity.
  - intros r. cstart. reflexivity.
  - (* PStr *) intros r raw p _. cstart. destruct Hf as [Hf|Hf]; [rewrite Hf; reflexivity|discriminate Hf].
  - (* PParsed *) intros p IH. cstart. apply (IH KExpr); try assumption. left. reflexivity.
  - (* PAttribute *) intros v a IH. cstart. destruct Hf as [Hf|Hf]; [|discriminate Hf]. kidc IH. rewrite andb_false_r. reflexivity.
  - (* PBinOp *) intros l o r IHl IHr. cstart. destruct Hf as [Hf|Hf]; [|discriminate Hf]. kidc IHl. kidc IHr. reflexivity.
  - (* PBoolOp *) intros o vs IH. cstart. destruct Hf as [Hf|Hf]; [|discriminate Hf].
    apply (clean_list _ KExpr vs IH); try assumption. intros c Hc1 Hc2 Hc3 Hc. rewrite need_all. apply (Hc KExpr); try assumption. left; assumption.
  - (* PUnaryOp *) intros o v IH. cstart. destruct Hf as [Hf|Hf]; [|discriminate Hf]. kidc IH. reflexivity.
  - (* PCompare *) intros l ops cs IHl IH. cstart. destruct Hf as [Hf|Hf]; [|discriminate Hf]. kidc IHl. cbn [app].
    apply (clean_list _ KExpr cs IH); try assumption. intros c Hc1 Hc2 Hc3 Hc. rewrite need_all. apply (Hc KExpr); try assumption. left; assumption.
  - (* PCall *) intros fn args kws IHf IHa IHk. cstart. destruct Hf as [Hf|Hf]; [|discriminate Hf]. kidc IHf. cbn [app].
    destruct (sole_genexp (args ++ kws)).
    + rewrite (clean_list _ KExpr args IHa), (clean_list _ KExpr kws IHk); try assumption; try reflexivity;
        intros c Hc1 Hc2 Hc3 Hc; apply (Hc KExpr); try assumption; left; assumption.
    + rewrite (clean_list _ KExpr args IHa), (clean_list _ KExpr kws IHk); try assumption; try reflexivity;
        intros c Hc1 Hc2 Hc3 Hc; rewrite need_all; apply (Hc KExpr); try assumption; left; assumption.
  - (* PKeyword *) intros n v IH. cstart. destruct Hf as [Hf|Hf]; [|discriminate Hf]. kidc IH. reflexivity.
  - (* PSubscript *) intros v lit sl IHv IHs. cstart. destruct Hf as [Hf|Hf]; [|discriminate Hf]. kidc IHv. kidc IHs. reflexivity.
  - (* PSlice *) intros lo up st IHl IHu IHs. cstart. destruct Hf as [Hf|Hf]; [|discriminate Hf].
    destruct lo, up, st; simpl in *; rewrite ?need_all; cbn [app];
      repeat match goal with IH : CleanP ?x |- context [gapsA _ _ _ _ ?x] => kidc IH end; reflexivity.
  - (* PTuple *) intros es IH. cstart. destruct Hf as [Hf|Hf]; [|discriminate Hf]. rewrite andb_false_r. cbn [app].
    apply (clean_list _ KExpr es IH); try assumption. intros c Hc1 Hc2 Hc3 Hc. rewrite need_all. apply (Hc KExpr); try assumption. left; assumption.
  - (* PList *) intros es IH. cstart. destruct Hf as [Hf|Hf]; [|discriminate Hf].
    apply (clean_list _ KExpr es IH); try assumption. intros c Hc1 Hc2 Hc3 Hc. rewrite need_all. apply (Hc KExpr); try assumption. left; assumption.
  - (* PSet *) intros es IH. cstart. destruct Hf as [Hf|Hf]; [|discriminate Hf].
    apply (clean_list _ KExpr es IH); try assumption. intros c Hc1 Hc2 Hc3 Hc. rewrite need_all. apply (Hc KExpr); try assumption. left; assumption.
  - (* PDict *) intros items IH. cstart. destruct Hf as [Hf|Hf]; [|discriminate Hf].
    apply (clean_list _ KItem items IH); try assumption. intros c Hc1 Hc2 Hc3 Hc. apply (Hc KItem); try assumption. left; assumption.
  - (* PDictItem *) intros key v IHk IHv. cstart. destruct Hf as [Hf|Hf]; [|discriminate Hf].
    destruct key as [key|]; simpl in *; rewrite ?need_all; cbn [app]; [kidc IHk|]; kidc IHv; reflexivity.
  - (* PIfExp *) intros b t o IHb IHt IHo. cstart. destruct Hf as [Hf|Hf]; [|discriminate Hf]. kidc IHb. kidc IHt. kidc IHo. reflexivity.
  - (* PLambda *) intros po pk vp ko vk body IHpo IHpk IHko IHb. cstart. destruct Hf as [Hf|Hf]; [|discriminate Hf].
    rewrite andb_false_r. cbn [app].
    rewrite (clean_list _ KParam po IHpo), (clean_list _ KParam pk IHpk), (clean_list _ KParam ko IHko); try assumption;
      try (intros c Hc1 Hc2 Hc3 Hc; apply (Hc KParam); try assumption; left; assumption).
    cbn [app]. kidc IHb. reflexivity.
  - (* PParam *) intros n dd IH. cstart. destruct Hf as [Hf|Hf]; [|discriminate Hf].
    destruct dd as [dd|]; [|reflexivity]. simpl in *. rewrite ?need_all. cbn [app].
    apply (IH KExpr); try assumption. left. assumption.
  - (* PNamedExpr *) intros t v IHt IHv. cstart. destruct Hf as [Hf|Hf]; [|discriminate Hf]. kidc IHt. kidc IHv. reflexivity.
  - (* PStarred *) intros v IH. cstart. destruct Hf as [Hf|Hf]; [|discriminate Hf]. kidc IH. reflexivity.
  - (* PListComp *) intros e gens IHe IH. cstart. destruct Hf as [Hf|Hf]; [|discriminate Hf]. kidc IHe. cbn [app].
    apply (clean_list _ KExpr gens IH); try assumption. intros c Hc1 Hc2 Hc3 Hc. apply (Hc KExpr); try assumption. left; assumption.
  - (* PSetComp *) intros e gens IHe IH. cstart. destruct Hf as [Hf|Hf]; [|discriminate Hf]. kidc IHe. cbn [app].
    apply (clean_list _ KExpr gens IH); try assumption. intros c Hc1 Hc2 Hc3 Hc. apply (Hc KExpr); try assumption. left; assumption.
  - (* PGeneratorExp *) intros e gens IHe IH. cstart. destruct Hf as [Hf|Hf]; [|discriminate Hf]. kidc IHe. cbn [app].
    apply (clean_list _ KExpr gens IH); try assumption. intros c Hc1 Hc2 Hc3 Hc. apply (Hc KExpr); try assumption. left; assumption.
  - (* PDictComp *) intros key v gens IHk IHv IH. cstart. destruct Hf as [Hf|Hf]; [|discriminate Hf]. kidc IHk. kidc IHv. cbn [app].
    apply (clean_list _ KExpr gens IH); try assumption. intros c Hc1 Hc2 Hc3 Hc. apply (Hc KExpr); try assumption. left; assumption.
  - (* PComprehension *) intros t it ifs a IHt IHi IH. cstart. destruct Hf as [Hf|Hf]; [|discriminate Hf]. kidc IHt. kidc IHi. cbn [app].
    apply (clean_list _ KExpr ifs IH); try assumption. intros c Hc1 Hc2 Hc3 Hc. rewrite need_all. apply (Hc KExpr); try assumption. left; assumption.
  - (* PJoinedStr: literal text is escaped, replacement fields are clean *) intros vs IH. cstart.
    match goal with H : forallb is_fpart vs = true |- _ => rename H into Hp end.
    apply forallb_Forall in Hp.
    match goal with H : forallb (wfk KExpr) vs = true |- _ => apply forallb_Forall in H; rename H into Hw' end.
    match goal with H : forallb fshape vs = true |- _ => apply forallb_Forall in H; rename H into Hs' end.
    match goal with H : existsb (scan fx_all false) vs = false |- _ => apply existsb_false_Forall in H; rename H into Ha' end.
    clear Hf. induction IH as [|x l Hx _ IHl]; [reflexivity|].
    inversion Hp; subst. inversion Hw'; subst. inversion Hs'; subst. inversion Ha'; subst.
    cbn [flat_map]. rewrite IHl by assumption. rewrite app_nil_r.
    destruct x; try discriminate; [reflexivity|].
    apply (Hx KExpr); try assumption. right. reflexivity.
  - (* PFormattedValue *) intros v conv spec IHv IHsp. cstart. kidc IHv. cbn [app].
    destruct spec as [sp|]; [|reflexivity]. simpl in *.
    destruct sp; try discriminate.
    (* the spec is a joined string: same pieces *)
    assert (Hsp := IHsp KExpr false false true true ltac:(assumption) ltac:(assumption) ltac:(assumption) (or_introl eq_refl)).
    cbn [C03_spec.gaps fx_all fx_fnest] in Hsp. exact Hsp.
  - (* PYield *) intros v IH. cstart. destruct Hf as [Hf|Hf]; [|discriminate Hf].
    destruct v; simpl in *; [rewrite ?need_all; cbn [app]; kidc IH|]; reflexivity.
  - (* PYieldFrom *) intros v IH. cstart. destruct Hf as [Hf|Hf]; [|discriminate Hf]. kidc IH. reflexivity.
  - (* PAwait *) intros v IH. intros k d s j f Hw Hs Ha. discriminate Ha.
Qed.

(* ---------- the render theorem for the repaired printer ---------- *)
Theorem render_eq_reference_repaired (env : nenv) (top : nat) (e : pyexpr) :
  wf e = true -> fshape e = true -> has_await fx_all e = false -> (prec e <? top) = false ->
  exists g, build fx_all env ctx0 e = Some g /\ render fx_all g = ref_top top e.
Proof.
  intros Hw Hs Ha Ht. apply render_eq_reference_modulo_known; [exact Hw|].
  unfold known_gap, gaps_top, need_top. rewrite Ht. cbn [app].
  rewrite (clean_all e KExpr false false false false Hw Hs Ha (or_introl eq_refl)). reflexivity.
Qed.

(* with string annotations parsed *)
Theorem render_eq_reference_repaired_with_strings (env : nenv) (top : nat) (m : pmode) (e : pyexpr) :
  let e' := subst fx_all env m false false e in
  no_parsed e = true -> wf e' = true -> fshape e' = true -> has_await fx_all e' = false -> (prec e' <? top) = false ->
  exists g, build fx_all env (mkCtx m false false false) e = Some g /\ render fx_all g = ref_top top e'.
Proof.
  intros e' Hn Hw Hs Ha Ht. unfold e' in *. rewrite (string_annotation_rule fx_all env e (mkCtx m false false false) Hn).
  exact (render_eq_reference_repaired env top _ Hw Hs Ha Ht).
Qed.
