(* C15 proofs, part 2: sys.path is restored for every world (= every placement of failing imports), every nesting of loads, every entry point. *)
From Coq Require Import List ZArith String Ascii Bool Arith Lia.
From Verif Require Import Lib.Sexp Model.C15_base Gen.C15_ladder Model.C15_loader Proofs.C15_loader.
Import ListNotations.
Open Scope string_scope. Open Scope list_scope. Open Scope nat_scope.
Arguments rewrap : simpl never.
Arguments caught_by : simpl never.
Arguments str_in : simpl never.

(* ================================================================== D. sys.path is restored *)

(* inside `with sys_path(...)`: sys.path is bound to a list object allocated at or after N *)
Definition good (N : nat) (s : st) : Prop := N <= cur s /\ cur s < next s.
(* list objects older than N are untouched, identities only grow *)
Definition frame (N : nat) (s s' : st) : Prop := next s <= next s' /\ forall i, i < N -> heap s' i = heap s i.

Lemma frame_refl : forall N s, frame N s s.
Proof. intros; split; auto. Qed.

Lemma frame_trans : forall N a b c, frame N a b -> frame N b c -> frame N a c.
Proof.
  intros N a b c [H1 H2] [K1 K2]. split; [lia |]. intros i Hi. rewrite K2, H2; auto.
Qed.

Lemma upd_other : forall h i v j, j <> i -> upd h i v j = h j.
Proof. intros h i v j H. unfold upd. destruct (Nat.eqb j i) eqn:E; [apply Nat.eqb_eq in E; contradiction | reflexivity]. Qed.

(* a block of effects keeps the invariant as soon as each of them does *)
Lemma effects_inner_of_forall :
  forall N es,
    Forall (fun e => forall s, good N s -> good N (apply_effect e s) /\ frame N s (apply_effect e s)) es ->
    forall s, good N s -> good N (apply_effects es s) /\ frame N s (apply_effects es s).
Proof.
  intros N es H. unfold apply_effects. induction H as [| e r He Hr IH]; intros s G; simpl.
  - split; [exact G | apply frame_refl].
  - destruct (He s G) as [G1 F1]. destruct (IH _ G1) as [G2 F2].
    split; [exact G2 | eapply frame_trans; eauto].
Qed.

(* a nested `with sys_path(...)` inside the loader's own: it saves the binding it finds (the loader's temporary list, or
   a list the code bound itself), works on a fresh list, and puts the saved binding back -- a stack, by recursion *)
Lemma scoped_inner :
  forall N paths (body : st -> st) s,
    (forall s0, good N s0 -> good N (body s0) /\ frame N s0 (body s0)) ->
    good N s -> good N (scoped paths body s) /\ frame N s (scoped paths body s).
Proof.
  intros N paths body s Hb G. unfold scoped, with_sys_path.
  destruct (is_nil paths && sys_path_noop_when_empty); simpl; [apply Hb; exact G |].
  destruct G as [G1 G2].
  assert (Gr : good N (rebind paths s)). { unfold good, rebind; simpl. lia. }
  assert (Fr : frame N s (rebind paths s)).
  { unfold frame, rebind; simpl. split; [lia |]. intros i Hi. apply upd_other. lia. }
  destruct (Hb _ Gr) as [[G3 G4] F3].
  pose proof (frame_trans _ _ _ _ Fr F3) as F.
  split.
  - unfold good, set_cur; simpl. destruct F as [Fn _]. unfold rebind in *; simpl in *. lia.
  - destruct F as [Fn Fh]. unfold frame, set_cur; simpl. split; assumption.
Qed.

Lemma apply_effect_inner : forall N e s, good N s -> good N (apply_effect e s) /\ frame N s (apply_effect e s).
Proof.
  intros N e. induction e as [p | p | | l | paths inner IH] using effect_ind2; intros s G.
  1-4: destruct G as [H1 H2]; simpl; unfold mutate, rebind, good, frame; simpl;
    (split; [split; lia | split; [lia | intros i Hi; apply upd_other; lia]]).
  rewrite apply_scope_eq. apply scoped_inner; [| exact G].
  apply effects_inner_of_forall. exact IH.
Qed.

Lemma apply_effects_inner : forall N es s, good N s -> good N (apply_effects es s) /\ frame N s (apply_effects es s).
Proof.
  intros N es. apply effects_inner_of_forall. rewrite Forall_forall. intros e _. apply apply_effect_inner.
Qed.

Lemma import_prefixes_inner :
  forall N w rest pre s, good N s ->
    good N (snd (import_prefixes w pre rest s)) /\ frame N s (snd (import_prefixes w pre rest s)).
Proof.
  intros N w rest. induction rest as [| p r IH]; intros pre s G; simpl.
  - split; [exact G | apply frame_refl].
  - destruct (mem_name (pre ++ [p]) (mods s)); [apply IH; exact G |].
    destruct (lookup_beh (w_beh w) (pre ++ [p])) as [b |]; [| split; [exact G | apply frame_refl]].
    destruct (visible b (heap s (cur s))); [| split; [exact G | apply frame_refl]].
    set (s1 := if b_runs b then apply_effects (b_effects b) (log_ev (EvExec (pre ++ [p]) (heap s (cur s))) s) else s).
    assert (H1 : good N s1 /\ frame N s s1).
    { unfold s1. destruct (b_runs b); [| split; [exact G | apply frame_refl]].
      apply (apply_effects_inner N (b_effects b) (log_ev (EvExec (pre ++ [p]) (heap s (cur s))) s)). exact G. }
    destruct H1 as [G1 F1].
    destruct (b_fault b); simpl; [split; assumption |].
    destruct (IH (pre ++ [p]) (add_mod (pre ++ [p]) s1)) as [G2 F2]; [exact G1 |].
    split; [exact G2 | eapply frame_trans; [exact F1 | exact F2]].
Qed.

Lemma dyn_attempts_inner :
  forall N w rp objs s, good N s ->
    good N (snd (dyn_attempts w rp objs s)) /\ frame N s (snd (dyn_attempts w rp objs s)).
Proof.
  intros N w rp. induction rp as [| l r IH]; intros objs s G; simpl.
  - split; [exact G | apply frame_refl].
  - unfold import_module.
    destruct (import_prefixes_inner N w (rev r ++ [l]) [] s G) as [G1 F1].
    destruct (import_prefixes w [] (rev r ++ [l]) s) as [res s1]. simpl in *.
    destruct res as [x |]; simpl; [| split; assumption].
    destruct (caught_by import_attempt_catches x); simpl; [| split; assumption].
    destruct (IH (l :: objs) s1 G1) as [G2 F2]. split; [exact G2 | eapply frame_trans; eauto].
Qed.

(* the interpreter outside any `with sys_path`: same binding, older list objects untouched *)
Definition stable (s s' : st) : Prop :=
  cur s' = cur s /\ next s <= next s' /\ forall i, i < next s -> heap s' i = heap s i.

Lemma stable_refl : forall s, stable s s.
Proof. intros; repeat split; auto. Qed.

Lemma stable_wf : forall s s', wf s -> stable s s' -> wf s'.
Proof. unfold wf, stable. intros s s' H (H1 & H2 & _). lia. Qed.

Lemma stable_trans : forall a b c, stable a b -> stable b c -> stable a c.
Proof.
  unfold stable. intros a b c (H1 & H2 & H3) (K1 & K2 & K3). repeat split; try lia.
  intros i Hi. rewrite K3, H3; auto; lia.
Qed.

Lemma stable_log_l : forall e s s', stable (log_ev e s) s' -> stable s s'.
Proof. intros e s s' H. exact H. Qed.

Lemma stable_log_r : forall e s, stable s (log_ev e s).
Proof. intros. unfold stable. simpl. repeat split; auto. Qed.

Lemma wf_log : forall e s, wf s -> wf (log_ev e s).
Proof. intros e s H. exact H. Qed.

Lemma with_sys_path_stable :
  forall A paths (body : st -> (exn + A) * st) s,
    paths <> [] -> wf s ->
    (forall N s0, good N s0 -> good N (snd (body s0)) /\ frame N s0 (snd (body s0))) ->
    stable s (snd (with_sys_path paths body s)).
Proof.
  intros A paths body s Hp Hwf Hbody. unfold with_sys_path.
  destruct paths as [| p0 pr]; [contradiction |]. simpl.
  assert (G : good (next s) (rebind (p0 :: pr) s)). { unfold good, rebind; simpl. lia. }
  destruct (Hbody _ _ G) as [[G1 G2] [F1 F2]].
  destruct (body (rebind (p0 :: pr) s)) as [r s2]. simpl in *.
  assert (S : stable s (set_cur (cur s) s2)).
  { unfold stable, set_cur; simpl. repeat split; [lia |].
    intros i Hi. rewrite F2 by exact Hi. apply upd_other. lia. }
  destruct r; [| exact S].
  unfold sys_path_restores_on_exception. exact S.
Qed.

(* the attribute walk runs inside the scope too: what a lazy module __getattr__ imports there sees the temporary list *)
Lemma getattrs_inner :
  forall N w parts owner s, good N s ->
    good N (snd (getattrs w owner parts s)) /\ frame N s (snd (getattrs w owner parts s)).
Proof.
  intros N w parts. induction parts as [| p r IH]; intros owner s G; simpl.
  - split; [exact G | apply frame_refl].
  - destruct (lookup_attr (w_attr w) owner p) as [[y |] |].
    + simpl. split; [exact G | apply frame_refl].
    + apply IH. exact G.
    + destruct (mem_name owner (w_lazy w)); [| simpl; split; [exact G | apply frame_refl]].
      unfold import_module.
      destruct (import_prefixes_inner N w (owner ++ [p]) [] s G) as [G1 F1].
      destruct (import_prefixes w [] (owner ++ [p]) s) as [res s1]. simpl in *.
      destruct res as [x |]; simpl; [split; assumption |].
      destruct (IH (owner ++ [p]) s1 G1) as [G2 F2]. split; [exact G2 | eapply frame_trans; eauto].
Qed.

Lemma dynamic_import_stable :
  forall w n paths s, paths <> [] -> wf s -> stable s (snd (dynamic_import w n paths s)).
Proof.
  intros w n paths s Hp Hwf. unfold dynamic_import. apply with_sys_path_stable; auto.
  intros N s0 G. destruct (dyn_attempts_inner N w (rev n) [] s0 G) as [G1 F1].
  destruct (dyn_attempts w (rev n) [] s0) as [[x | [m objs]] s1]; simpl in *; [split; assumption |].
  destruct (getattrs_inner N w objs m s1 G1) as [G2 F2]. split; [exact G2 | eapply frame_trans; eauto].
Qed.

Lemma mem_path_nonempty : forall p l, mem_path p l = true -> l <> [].
Proof. intros p l H E. subst. discriminate. Qed.

Lemma import_paths_nonempty :
  forall n file search, (file <> None \/ search <> []) -> import_paths_for n file search <> [].
Proof.
  intros n file search H. unfold import_paths_for. destruct file as [f |].
  - destruct (mem_path _ search) eqn:E; [eapply mem_path_nonempty; eauto | discriminate].
  - destruct H as [H | H]; [contradiction | exact H].
Qed.

Lemma inspect_call_stable :
  forall w n file search s, (file <> None \/ search <> []) -> wf s -> stable s (snd (inspect_call w n file search s)).
Proof.
  intros w n file search s H Hwf. unfold inspect_call.
  pose proof (dynamic_import_stable w n _ s (import_paths_nonempty n file search H) Hwf) as S.
  destruct (dynamic_import w n (import_paths_for n file search) s) as [[x | v] s1]; exact S.
Qed.

(* whatever the order of the statements of _inspect_module *)
Lemma run_isteps_stable :
  forall steps w store n file search s, (file <> None \/ search <> []) -> wf s -> stable s (snd (run_isteps steps w store n file search s)).
Proof.
  intros steps w store n file search. induction steps as [| st r IH]; intros s H Hwf; simpl; [apply stable_refl |].
  destruct st.
  - destruct (ignored n); [apply stable_refl | apply IH; assumption].
  - destruct (inspect_reads store file); [| apply IH; assumption].
    destruct (undecodable file); [apply stable_log_r |].
    eapply stable_log_l. apply (IH (log_ev (EvRead n (file_suffix file)) s)); assumption.
  - pose proof (inspect_call_stable w n file search s H Hwf) as S.
    destruct (inspect_call w n file search s) as [res s1]. simpl in S.
    destruct res as [x |]; [exact S |].
    eapply stable_trans; [exact S | apply IH; [exact H | eapply stable_wf; eauto]].
Qed.

Lemma inspect_module_stable :
  forall w store n file search s, (file <> None \/ search <> []) -> wf s -> stable s (snd (inspect_module w store n file search s)).
Proof. intros. unfold inspect_module. apply run_isteps_stable; assumption. Qed.

Lemma load_module_stable :
  forall w allow force store search f s, wf s -> stable s (snd (load_module w allow force store search f s)).
Proof.
  intros w a fo store search f s Hwf. unfold load_module.
  destruct (agent_ladder false fo a (m_suffix f)); simpl.
  - apply stable_log_r.
  - assert (Hv : forall b : bool, stable s (if b then log_ev (EvRead (m_name f) (m_suffix f)) (log_ev (EvVisit (m_name f) (m_suffix f)) s)
                                            else log_ev (EvVisit (m_name f) (m_suffix f)) s)).
    { intros [|]; [apply stable_trans with (log_ev (EvVisit (m_name f) (m_suffix f)) s) |]; apply stable_log_r. }
    exact (Hv visit_reads_source).
  - pose proof (inspect_module_stable w store (m_name f) (Some f) search (log_ev (EvInspect (m_name f) (m_suffix f)) s)) as S.
    destruct (inspect_module w store (m_name f) (Some f) search (log_ev (EvInspect (m_name f) (m_suffix f)) s)) as [r s1]. simpl in *.
    eapply stable_log_l. apply S; [left; discriminate | exact Hwf].
  - apply stable_refl.
Qed.

Lemma load_subs_stable :
  forall w allow force store search ns subs loaded s, wf s -> stable s (snd (load_subs w allow force store search ns subs loaded s)).
Proof.
  intros w a fo store search ns subs. induction subs as [| f r IH]; intros loaded s Hwf; simpl.
  - apply stable_refl.
  - destruct (negb ns && negb (mem_name (removelast (m_name f)) loaded)).
    { eapply stable_log_l. apply (IH loaded (log_ev (EvOrphan (m_name f) (m_suffix f)) s)). exact Hwf. }
    pose proof (load_module_stable w a fo store search f s Hwf) as S.
    destruct (load_module w a fo store search f s) as [res s1]. simpl in S.
    pose proof (stable_wf _ _ Hwf S) as Hwf1.
    destruct res as [x |].
    + destruct (caught_by load_submodule_catches x); [| exact S].
      eapply stable_trans; [exact S |]. eapply stable_log_l. apply (IH loaded (log_ev (EvSkip (m_name f) (m_suffix f)) s1)). exact Hwf1.
    + eapply stable_trans; [exact S | apply IH; exact Hwf1].
Qed.

Lemma load_package_with_stable :
  forall np w allow force store sm search top subs stubs s,
    (forall s0, wf s0 -> stable s0 (snd (np s0))) -> wf s ->
    stable s (snd (load_package_with np w allow force store sm search top subs stubs s)).
Proof.
  intros np w a fo store sm0 search top subs stubs s Hnp Hwf. unfold load_package_with.
  generalize (recurse_submodules sm0). intro sm.
  pose proof (load_module_stable w a fo store search top s Hwf) as S1.
  destruct (load_module w a fo store search top s) as [r1 s1]. simpl in S1.
  destruct r1; [exact S1 |].
  pose proof (stable_wf _ _ Hwf S1) as Hwf1.
  assert (S2 : stable s1 (snd (if sm then load_subs w a fo store search false subs [m_name top] s1 else (None, s1)))).
  { destruct sm; [apply load_subs_stable; exact Hwf1 | apply stable_refl]. }
  destruct (if sm then load_subs w a fo store search false subs [m_name top] s1 else (None, s1)) as [r2 s2]. simpl in S2.
  pose proof (stable_trans _ _ _ S1 S2) as S12.
  destruct r2; [exact S12 |].
  pose proof (stable_wf _ _ Hwf S12) as Hwf2.
  destruct stubs as [[st_top st_subs] |]; [| exact S12].
  pose proof (Hnp s2 Hwf2) as Sn.
  destruct (np s2) as [rn s2']. simpl in Sn.
  pose proof (stable_trans _ _ _ S12 Sn) as S12n.
  destruct rn; [exact S12n |].
  pose proof (stable_wf _ _ Hwf S12n) as Hwf2'.
  pose proof (load_module_stable w a fo store search st_top s2' Hwf2') as S3.
  destruct (load_module w a fo store search st_top s2') as [r3 s3]. simpl in S3.
  pose proof (stable_trans _ _ _ S12n S3) as S123.
  destruct r3; [exact S123 |].
  destruct sm; [| exact S123].
  eapply stable_trans; [exact S123 |]. apply load_subs_stable. eapply stable_wf; eauto.
Qed.

Lemma load_one_with_stable :
  forall np w allow force store sm search req s,
    (forall s0, wf s0 -> stable s0 (snd (np s0))) -> search <> [] -> wf s ->
    stable s (snd (load_one_with np w allow force store sm search req s)).
Proof.
  intros np w a fo store sm search req s Hnp Hs Hwf. unfold load_one_with.
  match goal with |- context [let (r, s') := ?X in _] =>
    assert (H : stable s (snd X)); [| destruct X as [r s']; simpl in *; eapply stable_trans; [exact H | apply stable_log_r]] end.
  destruct (find_pkg (w_find w) req) as [top subs stubs | n subs | via | e].
  - apply load_package_with_stable; assumption.
  - destruct (recurse_submodules sm); [| apply stable_log_r].
    eapply stable_log_l. apply (load_subs_stable w a fo store search true subs [n] (log_ev (EvCreate n) s)). exact Hwf.
  - destruct (not_found_reraises a fo); [apply stable_refl |].
    pose proof (dynamic_import_stable w [req] search s Hs Hwf) as S1.
    destruct (dynamic_import w [req] search s) as [[x | v] s1]; simpl in S1; [exact S1 |].
    pose proof (stable_wf _ _ Hwf S1) as Hwf1.
    destruct via as [[top subs] |].
    + eapply stable_trans; [exact S1 | apply load_package_with_stable; assumption].
    + eapply stable_trans; [exact S1 |]. eapply stable_log_l.
      apply (inspect_module_stable w store [req] None search (log_ev (EvInspect [req] "") s1)); [right; exact Hs | exact Hwf1].
  - apply stable_refl.
Qed.

Lemma no_nested_stable : forall s0, wf s0 -> stable s0 (snd (no_nested s0)).
Proof. intros. apply stable_refl. Qed.

(* every request tree, however deeply its loads are nested *)
Lemma load_tree_stable :
  forall w allow force store search t, search <> [] ->
    forall sm s, wf s -> stable s (snd (load_tree w allow force store sm search t s)).
Proof.
  intros w a fo store search t Hs. induction t as [req kids IH] using rtree_ind2. intros sm s Hwf.
  rewrite load_tree_eq. apply load_one_with_stable; [| exact Hs | exact Hwf].
  intros s0 H0. apply (reentries_with_rel stable wf _ kids stable_refl stable_trans stable_wf); [| exact H0].
  eapply Forall_impl; [| exact IH]. intros k Hk s1 H1. apply Hk. exact H1.
Qed.

Lemma reentries_stable :
  forall w allow force store search ks s, search <> [] -> wf s -> stable s (snd (reentries w allow force store search ks s)).
Proof.
  intros w a fo store search ks s Hs Hwf. unfold reentries.
  apply (reentries_with_rel stable wf _ ks stable_refl stable_trans stable_wf); [| exact Hwf].
  rewrite Forall_forall. intros k _ s1 H1. apply load_tree_stable; assumption.
Qed.

Lemma session_stable :
  forall w allow force store sm search root later s,
    search <> [] -> wf s -> stable s (snd (session w allow force store sm search root later s)).
Proof.
  intros w a fo store sm search root later s Hs Hwf. unfold session.
  destruct root as [t |]; [| apply reentries_stable; assumption].
  pose proof (load_tree_stable w a fo store search t Hs sm s Hwf) as S1.
  destruct (load_tree w a fo store sm search t s) as [res s1]. simpl in S1.
  destruct res; [exact S1 |].
  eapply stable_trans; [exact S1 | apply reentries_stable; [exact Hs | eapply stable_wf; eauto]].
Qed.

Theorem sys_path_restored :
  forall w allow force store submodules search root later s r s',
    wf s -> search <> [] ->
    session w allow force store submodules search root later s = (r, s') ->
    cur s' = cur s /\ heap s' (cur s) = heap s (cur s).
Proof.
  intros w a fo store sm search root later s r s' Hwf Hs H.
  pose proof (session_stable w a fo store sm search root later s Hs Hwf) as S. rewrite H in S. simpl in S.
  destruct S as (C & _ & Hh). split; [exact C | apply Hh; exact Hwf].
Qed.

(* any history of calls on one loader *)
Lemma run_history_stable :
  forall w allow force store search catch steps s,
    search <> [] -> wf s -> stable s (snd (run_history w allow force store search catch steps s)).
Proof.
  intros w a fo store search catch steps. induction steps as [| h t IH]; intros s Hs Hwf; simpl; [apply stable_refl |].
  pose proof (session_stable w a fo store (hs_submodules h) search (hs_root h) (hs_later h) s Hs Hwf) as S1.
  destruct (session w a fo store (hs_submodules h) search (hs_root h) (hs_later h) s) as [res s1]. simpl in S1.
  pose proof (stable_wf _ _ Hwf S1) as Hwf1.
  destruct res as [x |].
  - destruct (caught_by catch x); [eapply stable_trans; [exact S1 | apply IH; assumption] | exact S1].
  - eapply stable_trans; [exact S1 | apply IH; assumption].
Qed.

Theorem history_sys_path_restored :
  forall w allow force store search catch steps s r s',
    wf s -> search <> [] ->
    run_history w allow force store search catch steps s = (r, s') ->
    cur s' = cur s /\ heap s' (cur s) = heap s (cur s).
Proof.
  intros w a fo store search catch steps s r s' Hwf Hs H.
  pose proof (run_history_stable w a fo store search catch steps s Hs Hwf) as S. rewrite H in S. simpl in S.
  destruct S as (C & _ & Hh). split; [exact C | apply Hh; exact Hwf].
Qed.

(* a package found on disk needs no assumption on the search paths: the import path always holds its parent directory *)
Theorem sys_path_restored_found_package :
  forall w allow force store submodules search top subs stubs s r s',
    wf s -> load_package_with no_nested w allow force store submodules search top subs stubs s = (r, s') ->
    cur s' = cur s /\ heap s' (cur s) = heap s (cur s).
Proof.
  intros w a fo store sm search top subs stubs s r s' Hwf H.
  pose proof (load_package_with_stable no_nested w a fo store sm search top subs stubs s no_nested_stable Hwf) as S. rewrite H in S. simpl in S.
  destruct S as (C & _ & Hh). split; [exact C | apply Hh; exact Hwf].
Qed.

(* ---- the finder's search paths: empty only when both the configured search paths and sys.path are *)
Lemma dedup_nonempty : forall l, l <> [] -> dedup l [] <> [].
Proof. intros [| p r] H; [contradiction | simpl; discriminate]. Qed.

Theorem finder_paths_nonempty :
  forall given syspath, given <> [] \/ syspath <> [] -> finder_paths given syspath <> [].
Proof.
  intros given syspath H. unfold finder_paths. apply dedup_nonempty.
  destruct given as [| g r]; simpl; [| discriminate].
  destruct H as [H | H]; [contradiction | exact H].
Qed.

Lemma phase_search_nonempty :
  forall ph s, ph_given ph <> [] \/ ph_front ph <> [] \/ heap s (cur s) <> [] -> phase_search ph s <> [].
Proof.
  intros ph s H. unfold phase_search. intro E. apply app_eq_nil in E. destruct E as [E1 E2].
  destruct H as [H | [H | H]]; [| contradiction |]; revert E2; apply finder_paths_nonempty; auto.
Qed.

(* through the public entry points: as long as sys.path is not empty when the loader is built (or search paths are
   given), every loader gets non-empty search paths -- the finder falls back on sys.path -- and sys.path is restored *)
Lemma run_phases_stable :
  forall allow force store phs s,
    wf s -> heap s (cur s) <> [] \/ Forall (fun ph => ph_given ph <> [] \/ ph_front ph <> []) phs ->
    stable s (snd (run_phases allow force store phs s)).
Proof.
  intros a fo store phs. induction phs as [| ph r IH]; intros s Hwf Hne; simpl; [apply stable_refl |].
  assert (Hs : phase_search ph s <> []).
  { apply phase_search_nonempty. destruct Hne as [H | H]; [right; right; exact H |].
    inversion H as [| ? ? [H1 | H1] _]; auto. }
  pose proof (session_stable (ph_world ph) (entry_allow (ph_entry ph) a) (entry_force (ph_entry ph) fo) (entry_store (ph_entry ph) store)
                (entry_submodules (ph_entry ph) (ph_submodules ph)) (phase_search ph s) (ph_root ph) (ph_later ph) s Hs Hwf) as S.
  destruct (session (ph_world ph) (entry_allow (ph_entry ph) a) (entry_force (ph_entry ph) fo) (entry_store (ph_entry ph) store)
              (entry_submodules (ph_entry ph) (ph_submodules ph)) (phase_search ph s) (ph_root ph) (ph_later ph) s) as [res s1]. simpl in S.
  assert (Hnext : stable s1 (snd (run_phases a fo store r s1))).
  { apply IH; [eapply stable_wf; eauto |].
    destruct Hne as [H | H]; [left | right; inversion H; assumption].
    destruct S as (C & _ & Hh). rewrite C. rewrite Hh; [exact H | exact Hwf]. }
  destruct res as [x |].
  - destruct (caught_by (entry_catches (ph_entry ph)) x); [eapply stable_trans; eauto | exact S].
  - eapply stable_trans; eauto.
Qed.

Theorem entry_sys_path_restored :
  forall allow force store phs s r s',
    wf s -> heap s (cur s) <> [] \/ Forall (fun ph => ph_given ph <> [] \/ ph_front ph <> []) phs ->
    run_phases allow force store phs s = (r, s') ->
    cur s' = cur s /\ heap s' (cur s) = heap s (cur s).
Proof.
  intros a fo store phs s r s' Hwf Hne H.
  pose proof (run_phases_stable a fo store phs s Hwf Hne) as S. rewrite H in S. simpl in S.
  destruct S as (C & _ & Hh). split; [exact C | apply Hh; exact Hwf].
Qed.

(* the hypothesis is needed: sys_path() without paths is a no-op, so what the imported code does to sys.path stays
   (reachable only when both search_paths and sys.path are empty when the loader is built) *)
Example empty_search_paths_do_not_restore :
  exists w root s r s',
    wf s /\ session w true false true true [] (Some (RNode root [])) [] s = (r, s') /\ heap s' (cur s) <> heap s (cur s).
Proof.
  exists (mkWorld [] [(["m"], mkBeh None true [EIns0 ["evil"]] None)] [] []), "m", (init_state []).
  eexists. eexists. split; [unfold wf; simpl; lia |]. split; [vm_compute; reflexivity |]. vm_compute. discriminate.
Qed.

(* non-vacuity: a world in which an inspected submodule rebinds and mutates sys.path, then raises SystemExit *)
Example restore_exercised :
  let f := mkMod ["p"; "a"] ["sp"; "p"] "a" ".py" None in
  let top := mkMod ["p"] ["sp"; "p"] "__init__" ".py" None in
  let w := mkWorld [("p", FPkg top [f] None)]
                   [(["p"], mkBeh (Some ["sp"]) true [EIns0 ["x"]] None);
                    (["p"; "a"], mkBeh None true [ERebind [["y"]]; EApp ["z"]] (Some XSystemExit))] [] [] in
  let '(r, s') := session w true true true true [["sp"]] (Some (RNode "p" [])) [] (init_state [["orig"]]) in
  r = None /\ cur s' = 0 /\ heap s' 0 = [["orig"]] /\ List.length (executions s') = 2 /\ next s' = 4.
Proof. vm_compute. repeat split. Qed.

(* non-vacuity of the nesting: the inspected package calls back into Griffe at import time -- a nested
   `with sys_path("n1")` that inserts into its own temporary list and itself holds another nested scope -- then inserts
   into the loader's temporary list; every level puts back what it found, sys.path ends up as it was *)
Example nested_scopes_restore :
  let top := mkMod ["p"] ["sp"; "p"] "__init__" ".py" None in
  let body := [EScope [["n1"]] [EIns0 ["x"]; EScope [["n2"]] [EClear]; EApp ["y"]]; EIns0 ["z"]] in
  let w := mkWorld [("p", FPkg top [] None)] [(["p"], mkBeh (Some ["sp"]) true body None)] [] [] in
  let '(r, s') := session w true true true true [["sp"]] (Some (RNode "p" [])) [] (init_state [["orig"]]) in
  r = None /\ cur s' = 0 /\ heap s' 0 = [["orig"]] /\ heap s' 1 = [["z"]; ["sp"]] /\ heap s' 2 = [["x"]; ["n1"]; ["y"]] /\ heap s' 3 = [] /\ next s' = 4.
Proof. vm_compute. repeat split. Qed.

(* why the saved binding has to live in the frame of each `with` (a stack): with ONE shared slot for it, a nested scope
   overwrites what the outer one saved, and the outer exit "restores" its own temporary list *)
Definition scoped_one_slot (paths : list path) (body : st * nat -> st * nat) (x : st * nat) : st * nat :=
  let (s, _) := x in
  let (s2, slot2) := body (rebind paths s, cur s) in      (* slot := sys.path; sys.path := fresh list; body; sys.path := slot *)
  (set_cur slot2 s2, slot2).

Example one_slot_does_not_nest :
  let s0 := init_state [["orig"]] in
  (* properly nested, frame-local saves: back to the original binding *)
  cur (scoped [["outer"]] (scoped [["inner"]] (fun s => s)) s0) = cur s0 /\
  (* one shared slot: sys.path ends up bound to the outer temporary list *)
  cur (fst (scoped_one_slot [["outer"]] (scoped_one_slot [["inner"]] (fun x => x)) (s0, 0))) = 1 /\
  heap (fst (scoped_one_slot [["outer"]] (scoped_one_slot [["inner"]] (fun x => x)) (s0, 0))) 1 = [["outer"]] /\
  (* without nesting the shared slot does no harm: sequential scopes restore *)
  cur (fst (scoped_one_slot [["b"]] (fun x => x) (scoped_one_slot [["a"]] (fun x => x) (s0, 0)))) = cur s0.
Proof. vm_compute. repeat split. Qed.

(* non-vacuity of the attribute walk inside the scope: the package `p` has a lazy module __getattr__; importing `p.a` fails
   after inserting into sys.path; dynamic_import falls back on getattr(p, "a"), which imports `p.a` a second time -- still
   inside `with sys_path(...)`, so both insertions hit the temporary list and sys.path comes back untouched *)
Example lazy_getattr_inside_scope :
  let top := mkMod ["p"] ["sp"; "p"] "__init__" ".py" None in
  let a := mkMod ["p"; "a"] ["sp"; "p"] "a" ".py" None in
  let w := mkWorldL [("p", FPkg top [a] None)]
                    [(["p"], mkBeh (Some ["sp"]) true [] None); (["p"; "a"], mkBeh None true [EIns0 ["vendored"]] (Some XRuntimeError))] [] [] [["p"]] in
  let '(r, s') := session w true true true true [["sp"]] (Some (RNode "p" [])) [] (init_state [["orig"]]) in
  r = None /\ cur s' = 0 /\ heap s' 0 = [["orig"]] /\ List.length (executions s') = 3 /\ heap s' 2 = [["vendored"]; ["vendored"]; ["sp"]].
Proof. vm_compute. repeat split. Qed.

(* non-vacuity of the entry-point theorem: `search_paths=None` in an interpreter whose sys.path holds the package;
   the finder takes sys.path, sys_path() rebinds to an equal list, the in-place insert hits the temporary list *)
Example default_search_paths_restore :
  let top := mkMod ["p"] ["sp"; "p"] "__init__" ".py" None in
  let w := mkWorld [("p", FPkg top [] None)] [(["p"], mkBeh (Some ["sp"]) true [EIns0 ["vendored"]] None)] [] [] in
  let ph := mkPhase ELoad w [] [] true (Some (RNode "p" [])) [] in
  let '(r, s') := run_phases true true true [ph] (init_state [["sp"]; ["lib"]]) in
  r = None /\ cur s' = 0 /\ heap s' 0 = [["sp"]; ["lib"]] /\ heap s' 1 = [["vendored"]; ["sp"]; ["lib"]] /\ List.length (executions s') = 1.
Proof. vm_compute. repeat split. Qed.

