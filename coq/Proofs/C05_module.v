(* C05: one module of the dependency-order schedule.  Part 2: the state of the executed modules (ModOK), what an import of an
   executed module resolves to, and what a wildcard import of an executed module exposes. *)
From Coq Require Import List ZArith String Ascii Bool Arith Lia.
From Verif Require Import Lib.Sexp Model.C05_imports Model.C05_wf Proofs.C05_imports Proofs.C05_resolve Proofs.C05_compose Proofs.C05_step.
Import ListNotations.
Open Scope string_scope.
Open Scope list_scope.
Open Scope nat_scope.

Section Executed.
Variable top : string.
Variable ms : list modsrc.
Variable t : table.            (* Griffe's table *)
Variable pt0 : pytable.        (* CPython's modules executed so far *)
Variable H : nat.              (* bound on the hops of a resolution inside the executed modules *)

Definition Pexec (q : path) : Prop := get_py pt0 q <> None.

(* the Griffe state st of the executed module T agrees with its runtime namespace tm *)
Record ModOK (T : path) (st : modst) (tm : pymod) : Prop := mkModOK {
  mo_rel : forall n, ~ In n (children_of ms T) -> is_dunder n = false ->
           match lookup n (members st), lookup n (pns tm) with
           | None, None => True
           | Some m, Some v => m <> MSub /\ exists h r, h <= H /\ Res top t Pexec h m (T ++ [n]) r /\ vmatch r v
           | _, _ => False
           end;
  mo_child : forall c v, In c (children_of ms T) -> lookup c (pns tm) = Some v -> v = VMod (T ++ [c]);
  mo_plain : forall n v, lookup n (pns tm) = Some v -> plain n = true;
  mo_nostar : forall n, is_star_name n -> lookup n (members st) = None;
  mo_exports : match exports st, pall tm with
               | None, None => True
               | Some ex, Some l => only_strings ex /\ forall x, In (IStr x) ex <-> In x l
               | _, _ => False
               end;
  mo_all_plain : forall l x, pall tm = Some l -> In x l -> plain x = true;
  mo_all : pall tm <> None -> exists ln, lookup "__all__" (members st) = Some (MObj KAttr ln);
  mo_f5 : pall tm = None -> forall c, In c (children_of ms T) -> starts_underscore c = false ->
          lookup c (pns tm) <> None -> mem_str c (imports st) = true;
  mo_imports : forall n, mem_str n (imports st) = true -> lookup n (pns tm) <> None;
  mo_wrap : forall n src inner ln, lookup n (members st) = Some (MWrap src inner ln) -> exists T' n', src = T' ++ [n'] /\ Pexec T';
  mo_noflag : forall n m, lookup n (members st) = Some m -> star_flagged m = false      (* every wildcard import was expanded *)
}.

Hypothesis HH1 : 1 <= H.
Hypothesis Hstruct : struct_ok ms t.
Hypothesis Hkeys : forall q st, get_mod t q = Some st -> NoDup (map fst (members st)).
Hypothesis Hdone : forall T tm, get_py pt0 T = Some tm ->
                   reachb top ms T = true /\ exists st, get_mod t T = Some st /\ ModOK T st tm.

Lemma Pexec_some T tm : get_py pt0 T = Some tm -> Pexec T.
Proof. unfold Pexec. congruence. Qed.

Lemma child_member T c : In c (children_of ms T) -> exists st, get_mod t T = Some st /\ lookup c (members st) = Some MSub.
Proof. apply Hstruct. Qed.

(* ---- `from T import x` with T executed ---- *)
Lemma attr_resolves T tm x v :
  get_py pt0 T = Some tm -> py_attr ms pt0 T x = POk v ->
  forall ln b loc, exists h r, h <= S H /\ Res top t Pexec h (MAlias (T ++ [x]) ln b) loc r /\ vmatch r v.
Proof.
  intros Hg Ha ln b loc. destruct (Hdone T tm Hg) as [Hreach [st [Hst Hok]]].
  pose proof (lookup_path_member top ms t T x st Hstruct Hreach Hst) as Hlp.
  unfold py_attr in Ha. rewrite Hg in Ha.
  destruct (String.eqb x "__all__") eqn:Ex.
  - apply String.eqb_eq in Ex. subst x. destruct (pall tm) as [l|] eqn:Ep; try discriminate. inversion Ha; subst v.
    destruct (mo_all T st tm Hok) as [ln' Hm]; [congruence|]. rewrite Hm in Hlp.
    exists 2, (FObj KAttr (T ++ ["__all__"])). split; [lia|]. split; [|apply vmatch_all].
    eapply R_alias_mem; eauto. { eapply Pexec_some; eauto. } constructor.
  - destruct (in_dec string_dec x (children_of ms T)) as [Hc|Hc].
    + (* a submodule of T *)
      destruct (child_member T x Hc) as [st' [Hst' Hm]]. rewrite Hst in Hst'. inversion Hst'; subst st'. rewrite Hm in Hlp.
      assert (Hv : v = VMod (T ++ [x])).
      { destruct (lookup x (pns tm)) as [v'|] eqn:El.
        - inversion Ha; subst. eapply mo_child; eauto.
        - apply mem_str_In in Hc. rewrite Hc in Ha. destruct (get_py pt0 (T ++ [x])); inversion Ha; auto. }
      subst v. exists 1, (FMod (T ++ [x])). split; [lia|]. split; [|apply vmatch_mod]. constructor. auto.
    + destruct (lookup x (pns tm)) as [v'|] eqn:El.
      * inversion Ha; subst v'. pose proof (mo_rel T st tm Hok x Hc (plain_not_dunder x (mo_plain T st tm Hok x v El))) as Hr.
        rewrite El in Hr. destruct (lookup x (members st)) as [m|] eqn:Em; [|contradiction].
        destruct Hr as [Hns [h [r [Hh [HR Hv]]]]].
        assert (Hlp' : lookup_path t top (T ++ [x]) = LMem T x m) by (rewrite Hlp; destruct m; auto; contradiction).
        exists (S h), r. split; [lia|]. split; auto. eapply R_alias_mem; eauto. eapply Pexec_some; eauto.
      * assert (Hf : mem_str x (children_of ms T) = false).
        { destruct (mem_str x (children_of ms T)) eqn:E; auto. apply mem_str_In in E. contradiction. }
        rewrite Hf in Ha. discriminate.
Qed.

(* ---- `from T import x` with T not executed yet: x is a submodule of T that has been executed ---- *)
Lemma unexecuted_attr_resolves T x pc :
  get_py pt0 (T ++ [x]) = Some pc ->
  forall ln b loc, Res top t Pexec 1 (MAlias (T ++ [x]) ln b) loc (FMod (T ++ [x])).
Proof.
  intros Hg ln b loc. destruct (Hdone _ pc Hg) as [Hreach _].
  constructor. apply lookup_path_reach with (ms := ms); auto.
Qed.

(* ---- `import a.b.c [as x]` ---- *)
Lemma import_resolves T tm :
  get_py pt0 T = Some tm ->
  forall ln b loc, Res top t Pexec 1 (MAlias T ln b) loc (FMod T) /\ Res top t Pexec 1 (MAlias [hd "" T] ln b) loc (FMod [hd "" T]).
Proof.
  intros Hg ln b loc. destruct (Hdone T tm Hg) as [Hreach _]. split.
  - constructor. apply lookup_path_reach with (ms := ms); auto.
  - constructor. destruct T as [|h rest]; simpl in Hreach; try discriminate.
    apply andb_true_iff in Hreach. destruct Hreach as [Hh _]. simpl. rewrite Hh. apply String.eqb_eq in Hh. subst h. reflexivity.
Qed.

(* ---- what a wildcard import of an executed module exposes ---- *)
Definition X (T : path) : list (string * member) :=
  match get_mod t T with Some st => importable_members st | None => [] end.

Lemma X_nodup T : NoDup (map fst (X T)).
Proof.
  unfold X. destruct (get_mod t T) as [st|] eqn:E; [|constructor].
  unfold importable_members, exposed_members. apply filter_keys_nodup. apply filter_keys_nodup. eapply Hkeys; eauto.
Qed.

Lemma X_member T st n m : get_mod t T = Some st -> lookup n (X T) = Some m ->
  lookup n (members st) = Some m /\ wildcard_exposed st n m = true.
Proof.
  intros Hst Hx. unfold X in Hx. rewrite Hst in Hx. unfold importable_members, exposed_members in Hx.
  apply lookup_filter in Hx; [|apply filter_keys_nodup; eapply Hkeys; eauto]. destruct Hx as [Hx _].
  apply lookup_filter in Hx; [|eapply Hkeys; eauto]. exact Hx.
Qed.

Lemma X_lookup_some T st n m : get_mod t T = Some st -> NoDup (map fst (members st)) ->
  lookup n (members st) = Some m -> wildcard_exposed st n m = true -> star_flagged m = false -> lookup n (X T) = Some m.
Proof.
  intros Hst Hnd Hl He Hf. unfold X. rewrite Hst. unfold importable_members, exposed_members.
  apply lookup_filter_some; [apply filter_keys_nodup; auto|apply lookup_filter_some; auto|].
  simpl. destruct m as [| |tg l0 [|]|]; simpl in Hf; try discriminate; reflexivity.
Qed.

Lemma exposed_is_star_name T tm n m :
  get_py pt0 T = Some tm -> lookup n (X T) = Some m ->
  In n (py_star_names tm) /\ plain n = true.
Proof.
  intros Hg Hx. destruct (Hdone T tm Hg) as [Hreach [st [Hst Hok]]].
  destruct (X_member T st n m Hst Hx) as [Hm He]. unfold wildcard_exposed in He.
  pose proof (mo_exports T st tm Hok) as Hex. unfold py_star_names.
  destruct (exports st) as [ex|] eqn:Ee; destruct (pall tm) as [l|] eqn:Ep; try contradiction.
  - destruct Hex as [_ Hex]. apply in_exports_In in He. apply Hex in He. split; auto. eapply mo_all_plain; eauto.
  - destruct (starts_underscore n) eqn:Eu; try discriminate.
    assert (Hnd : is_dunder n = false).
    { destruct n as [|a [|b n]]; auto. simpl in Eu. simpl. rewrite Eu. reflexivity. }
    assert (Hv : exists v, lookup n (pns tm) = Some v).
    { destruct (in_dec string_dec n (children_of ms T)) as [Hc|Hc].
      - destruct (child_member T n Hc) as [st' [Hst' Hsub]]. rewrite Hst in Hst'. inversion Hst'; subst st'.
        rewrite Hsub in Hm. inversion Hm; subst m.
        pose proof (mo_imports T st tm Hok n He) as Hi. destruct (lookup n (pns tm)); eauto. contradiction.
      - pose proof (mo_rel T st tm Hok n Hc Hnd) as Hr. rewrite Hm in Hr. destruct (lookup n (pns tm)); eauto. contradiction. }
    destruct Hv as [v Hv]. split; [|eapply mo_plain; eauto].
    apply in_map_iff. exists (n, v). split; auto. apply filter_In. split; [apply lookup_In; auto|]. simpl. rewrite Eu. reflexivity.
Qed.

Lemma star_name_is_exposed T tm n v :
  get_py pt0 T = Some tm -> In n (py_star_names tm) -> py_attr ms pt0 T n = POk v -> exists m, lookup n (X T) = Some m.
Proof.
  intros Hg Hn Ha. destruct (Hdone T tm Hg) as [Hreach [st [Hst Hok]]].
  assert (Hnd : NoDup (map fst (members st))) by (eapply Hkeys; eauto).
  pose proof (mo_exports T st tm Hok) as Hex. unfold py_star_names in Hn. unfold py_attr in Ha. rewrite Hg in Ha.
  destruct (exports st) as [ex|] eqn:Ee; destruct (pall tm) as [l|] eqn:Ep; try contradiction.
  - (* __all__ defined *)
    destruct Hex as [_ Hex]. assert (Hpl : plain n = true) by (eapply mo_all_plain; eauto).
    assert (Hna : String.eqb n "__all__" = false) by (apply String.eqb_neq; apply plain_not_all; auto). rewrite Hna in Ha.
    assert (Hm : exists m, lookup n (members st) = Some m).
    { destruct (in_dec string_dec n (children_of ms T)) as [Hc|Hc].
      - destruct (child_member T n Hc) as [st' [Hst' Hsub]]. rewrite Hst in Hst'. inversion Hst'; subst st'. eauto.
      - destruct (lookup n (pns tm)) as [v'|] eqn:El.
        + pose proof (mo_rel T st tm Hok n Hc (plain_not_dunder n Hpl)) as Hr. rewrite El in Hr.
          destruct (lookup n (members st)); eauto. contradiction.
        + assert (Hf : mem_str n (children_of ms T) = false).
          { destruct (mem_str n (children_of ms T)) eqn:E; auto. apply mem_str_In in E. contradiction. }
          rewrite Hf in Ha. discriminate. }
    destruct Hm as [m Hm]. exists m. apply (X_lookup_some T st n m Hst Hnd Hm); [|eapply mo_noflag; eauto].
    unfold wildcard_exposed. rewrite Ee. apply in_exports_In. apply Hex. auto.
  - (* no __all__: the public names *)
    apply in_map_iff in Hn. destruct Hn as [[n' v'] [Hn' Hin]]. simpl in Hn'. subst n'. apply filter_In in Hin.
    destruct Hin as [Hin Hpub]. simpl in Hpub. destruct (starts_underscore n) eqn:Eu; try discriminate.
    assert (Hv : exists v0, lookup n (pns tm) = Some v0) by (apply In_fst_lookup; apply in_map_iff; exists (n, v'); auto).
    destruct Hv as [v0 Hv].
    assert (Hpl : plain n = true) by (eapply mo_plain; eauto).
    destruct (in_dec string_dec n (children_of ms T)) as [Hc|Hc].
    + destruct (child_member T n Hc) as [st' [Hst' Hsub]]. rewrite Hst in Hst'. inversion Hst'; subst st'.
      exists MSub. apply (X_lookup_some T st n MSub Hst Hnd Hsub); [|reflexivity]. unfold wildcard_exposed. rewrite Ee, Eu.
      apply (mo_f5 T st tm Hok Ep n Hc Eu). congruence.
    + pose proof (mo_rel T st tm Hok n Hc (plain_not_dunder n Hpl)) as Hr. rewrite Hv in Hr.
      destruct (lookup n (members st)) as [m|] eqn:Em; [|contradiction]. destruct Hr as [Hns _].
      exists m. apply (X_lookup_some T st n m Hst Hnd Em); [|eapply mo_noflag; eauto].
      unfold wildcard_exposed. rewrite Ee, Eu. destruct m; auto; contradiction.
Qed.

(* the member a wildcard import creates for an exposed name resolves to the value CPython copies *)
Lemma exposed_resolves T tm n m v :
  get_py pt0 T = Some tm -> lookup n (X T) = Some m -> py_attr ms pt0 T n = POk v ->
  forall ln loc, exists h r, h <= S H /\ Res top t Pexec h (MWrap (T ++ [n]) m ln) loc r /\ vmatch r v.
Proof.
  intros Hg Hx Ha ln loc. destruct (Hdone T tm Hg) as [Hreach [st [Hst Hok]]].
  destruct (X_member T st n m Hst Hx) as [Hm _].
  destruct (exposed_is_star_name T tm n m Hg Hx) as [_ Hpl].
  pose proof (lookup_path_member top ms t T n st Hstruct Hreach Hst) as Hlp. rewrite Hm in Hlp.
  unfold py_attr in Ha. rewrite Hg in Ha.
  assert (Hna : String.eqb n "__all__" = false) by (apply String.eqb_neq; apply plain_not_all; auto). rewrite Hna in Ha.
  destruct (in_dec string_dec n (children_of ms T)) as [Hc|Hc].
  - destruct (child_member T n Hc) as [st' [Hst' Hsub]]. rewrite Hst in Hst'. inversion Hst'; subst st'.
    rewrite Hsub in Hm. inversion Hm; subst m.
    assert (Hv : v = VMod (T ++ [n])).
    { destruct (lookup n (pns tm)) as [v'|] eqn:El.
      - inversion Ha; subst. eapply mo_child; eauto.
      - apply mem_str_In in Hc. rewrite Hc in Ha. destruct (get_py pt0 (T ++ [n])); inversion Ha; auto. }
    subst v. exists 1, (FMod (T ++ [n])). split; [lia|]. split; [|apply vmatch_mod]. apply R_wrap_mod; auto.
  - destruct (lookup n (pns tm)) as [v'|] eqn:El.
    + inversion Ha; subst v'. pose proof (mo_rel T st tm Hok n Hc (plain_not_dunder n Hpl)) as Hr. rewrite El, Hm in Hr.
      destruct Hr as [Hns [h [r [Hh [HR Hv]]]]]. exists (S h), r. split; [lia|]. split; auto.
      destruct (is_alias m) eqn:Eal.
      * apply R_wrap_alias; auto.
      * eapply R_wrap_mem; eauto; [|eapply Pexec_some; eauto]. destruct m; auto; try discriminate. contradiction.
    + assert (Hf : mem_str n (children_of ms T) = false).
      { destruct (mem_str n (children_of ms T)) eqn:E; auto. apply mem_str_In in E. contradiction. }
      rewrite Hf in Ha. discriminate.
Qed.

(* the alias a wildcard import creates never points back at a plain name of a module that has not been executed *)
Lemma exposed_not_self_alias T tm n m mp st0 :
  get_py pt0 T = Some tm -> lookup n (X T) = Some m ->
  ~ Pexec mp -> reachb top ms mp = true -> get_mod t mp = Some st0 -> lookup n (members st0) <> Some MSub ->
  is_alias m && path_eqb (alias_target_path m) (mp ++ [n]) = false.
Proof.
  intros Hg Hx HP Hreach0 Hst0 Hns0. destruct (Hdone T tm Hg) as [Hreach [st [Hst Hok]]].
  destruct (X_member T st n m Hst Hx) as [Hm _].
  destruct (exposed_is_star_name T tm n m Hg Hx) as [_ Hpl].
  destruct (is_alias m) eqn:Eal; auto. simpl.
  destruct (path_eqb (alias_target_path m) (mp ++ [n])) eqn:Ep; auto. apply path_eqb_eq in Ep. exfalso.
  pose proof (lookup_path_member top ms t mp n st0 Hstruct Hreach0 Hst0) as Hlp.
  destruct m as [| |tgt ln b|src inner ln]; try discriminate; simpl in Ep.
  - (* an explicit import of mp.n in T *)
    subst tgt.
    destruct (in_dec string_dec n (children_of ms T)) as [Hc|Hc].
    { destruct (child_member T n Hc) as [st' [Hst' Hsub]]. rewrite Hst in Hst'. inversion Hst'; subst st'. congruence. }
    pose proof (mo_rel T st tm Hok n Hc (plain_not_dunder n Hpl)) as Hr. rewrite Hm in Hr.
    destruct (lookup n (pns tm)); [|contradiction]. destruct Hr as [_ [h [r [_ [HR _]]]]].
    inversion HR; subst;
      match goal with Hq : lookup_path t top (mp ++ [n]) = _ |- _ => rewrite Hlp in Hq end;
      (destruct (lookup n (members st0)) as [m0|]; [|discriminate]);
      destruct m0; try discriminate; try congruence;
      match goal with Hq : LMem _ _ _ = LMem _ _ _ |- _ => inversion Hq; subst; contradiction end.
  - destruct (mo_wrap T st tm Hok n src inner ln Hm) as [T' [n' [Hs HP']]]. rewrite Ep in Hs.
    apply app_inj_tail in Hs. destruct Hs. subst. contradiction.
Qed.


(* ------------------------------------------------------------------------------------------------------------ *)
(* the module that runs next                                                                                     *)
(* ------------------------------------------------------------------------------------------------------------ *)
Variable mp : path.
Variable is_init : bool.
Variable cs : list string.
Variable body : list stmt.

Definition st0 : modst := attach_children (visit_body mp is_init body) cs.

Hypothesis Hcs : cs = children_of ms mp.
Hypothesis HPmp : ~ Pexec mp.
Hypothesis Hreach_mp : reachb top ms mp = true.
Hypothesis Hmp : get_mod t mp = Some st0.
Hypothesis Hwf : wf_body mp is_init cs body = true.
(* a wildcard import never rebinds the name of a submodule of the importing package to anything but that submodule *)
Hypothesis HY1 : forall ln T tm c v, In (SStar ln T) body -> get_py pt0 T = Some tm -> In c cs -> In c (py_star_names tm) ->
                                     py_attr ms pt0 T c = POk v -> v = VMod (mp ++ [c]).

(* no wildcard import standing between the import of a source of an assembled __all__ and the __all__ statement exposes its name *)
Hypothesis HY3 : forall pre s post l a T tm, body = pre ++ s :: post -> In (IRef l a) (items_of s) ->
                                           In T (stars_before l (rev pre)) -> get_py pt0 T = Some tm -> ~ In l (py_star_names tm).

Definition R (n : string) (m : member) (v : value) : Prop :=
  m <> MSub /\ exists h r, h <= S H /\ Res top t Pexec h m (mp ++ [n]) r /\ vmatch r v.
Definition good (n : string) : Prop := ~ In n cs /\ n <> "__all__".
Definition J (pm : pymod) : Prop := forall c v, In c cs -> lookup c (pns pm) = Some v -> v = VMod (mp ++ [c]).
Definition rel (n : string) (g : option member) (p : option value) : Prop :=
  match g, p with
  | None, None => True
  | Some m, Some v => R n m v
  | _, _ => False
  end.

Lemma wf_stmt_ok s : In s body -> stmt_ok mp is_init cs s = true.
Proof.
  intros Hin. unfold wf_body in Hwf. apply andb_true_iff in Hwf. destruct Hwf as [Hw _].
  apply andb_true_iff in Hw. destruct Hw as [Hw _]. apply andb_true_iff in Hw. destruct Hw as [Hw _].
  apply andb_true_iff in Hw. destruct Hw as [_ Hst]. rewrite forallb_forall in Hst. auto.
Qed.

Lemma cs_plain c : In c cs -> plain c = true.
Proof.
  intros Hin. unfold wf_body in Hwf. apply andb_true_iff in Hwf. destruct Hwf as [Hw _].
  apply andb_true_iff in Hw. destruct Hw as [Hw _]. apply andb_true_iff in Hw. destruct Hw as [_ Hc].
  rewrite forallb_forall in Hc. auto.
Qed.

Lemma self_child_resolves x ln b loc : In x cs -> Res top t Pexec 1 (MAlias (mp ++ [x]) ln b) loc (FMod (mp ++ [x])).
Proof.
  intros Hx. constructor. rewrite (lookup_path_member top ms t mp x st0 Hstruct Hreach_mp Hmp).
  unfold st0. rewrite attach_lookup_child; auto.
Qed.

Lemma J_assign_other pk a v pa : ~ In a cs -> J pk -> J (mkPy (assign a v (pns pk)) pa).
Proof.
  intros Ha HJ c v' Hc Hl. simpl in Hl. rewrite lookup_assign_other in Hl; [eapply HJ; eauto|].
  intros Heq. subst. contradiction.
Qed.

Lemma J_assign_child pk a pa : J pk -> J (mkPy (assign a (VMod (mp ++ [a])) (pns pk)) pa).
Proof.
  intros HJ c v' Hc Hl. simpl in Hl. destruct (string_dec a c) as [Heq|Hne].
  - subst. rewrite lookup_assign_same in Hl. inversion Hl. auto.
  - rewrite lookup_assign_other in Hl by auto. eapply HJ; eauto.
Qed.

(* the value `from T import x` reads inside mp *)
Definition from_val (pk : pymod) (T : path) (x : string) : pyres value :=
  if path_eqb T mp then
    match lookup x (pns pk) with
    | Some v => POk v
    | None => if mem_str x (children_of ms T)
              then match get_py pt0 (T ++ [x]) with Some _ => POk (VMod (T ++ [x])) | None => PErr "not-executed-yet" end
              else PErr "ImportError"
    end
  else py_attr ms pt0 T x.

Lemma from_val_self pk x v : J pk -> In x cs -> from_val pk mp x = POk v -> v = VMod (mp ++ [x]).
Proof.
  intros HJ Hx. unfold from_val. rewrite path_eqb_refl. destruct (lookup x (pns pk)) as [v'|] eqn:El.
  - intros Hv. inversion Hv; subst. eapply HJ; eauto.
  - destruct (mem_str x (children_of ms mp)); try discriminate. destruct (get_py pt0 (mp ++ [x])); intros Hv; inversion Hv; auto.
Qed.

(* an import of another module resolves to the value CPython reads *)
Lemma from_other_resolves T x v ln b n :
  T <> mp -> py_attr ms pt0 T x = POk v -> R n (MAlias (T ++ [x]) ln b) v.
Proof.
  intros Hne Ha. split; [discriminate|].
  destruct (get_py pt0 T) as [tm|] eqn:Hg.
  - apply (attr_resolves T tm x v Hg Ha).
  - unfold py_attr in Ha. rewrite Hg in Ha.
    destruct (mem_str x (children_of ms T) && negb (existsb (may_bind x) (body_of ms T))); try discriminate.
    destruct (get_py pt0 (T ++ [x])) as [pc|] eqn:Hc; try discriminate. inversion Ha; subst v.
    exists 1, (FMod (T ++ [x])). split; [lia|]. split; [|apply vmatch_mod]. eapply unexecuted_attr_resolves; eauto.
Qed.

(* what an explicit binder binds, on both sides *)
Lemma stmt_binds_R pk pk' s a m :
  stmt_ok mp is_init cs s = true -> J pk -> py_stmt ms pt0 mp pk s = POk pk' ->
  bind_of mp is_init s = Some (a, m) -> star_flagged m = false -> a <> "__all__" ->
  exists v, R a m v /\ pns pk' = assign a v (pns pk) /\ ~ In a cs.
Proof.
  intros Hok HJ Hpy Hb Hm Ha.
  destruct s as [ln x k|ln T x asn bare|ln T|ln T asn|ln its|ln its|ln its]; simpl in Hb.
  - inversion Hb; subst. simpl in Hpy. inversion Hpy; subst. simpl.
    simpl in Hok. apply andb_true_iff in Hok. destruct Hok as [_ Hc].
    exists (VObj k (mp ++ [a])). split; [|split; auto].
    + split; [discriminate|]. exists 1, (FObj k (mp ++ [a])). split; [lia|]. split; [constructor|apply vmatch_obj].
    + intros Hin. apply mem_str_In in Hin. rewrite Hin in Hc. discriminate.
  - destruct (bare && is_init && match asn with None => true | Some _ => false end); try discriminate.
    destruct (path_eqb (T ++ [x]) (mp ++ [match asn with Some a0 => a0 | None => x end])) eqn:Eself; try discriminate.
    inversion Hb; subst a m. clear Hb.
    simpl in Hpy. fold (from_val pk T x) in Hpy. destruct (from_val pk T x) as [v|e] eqn:Ev; try discriminate.
    inversion Hpy; subst pk'. simpl pns.
    simpl in Hok. apply andb_true_iff in Hok. destruct Hok as [Hok _]. apply andb_true_iff in Hok. destruct Hok as [Hok Hself].
    apply andb_true_iff in Hok. destruct Hok as [_ Hchild].
    set (an := match asn with Some a0 => a0 | None => x end) in *.
    assert (Hnc : ~ In an cs).
    { intros Hin. apply mem_str_In in Hin. rewrite Hin in Hchild. rewrite Hchild in Eself. discriminate. }
    exists v. split; [|split; auto].
    destruct (path_eqb T mp) eqn:ET.
    + apply path_eqb_eq in ET. subst T. apply mem_str_In in Hself.
      pose proof (from_val_self pk x v HJ Hself Ev) as Hv. subst v.
      split; [discriminate|]. exists 1, (FMod (mp ++ [x])). split; [lia|]. split; [|apply vmatch_mod]. apply self_child_resolves. auto.
    + apply from_other_resolves.
      * intros Heq. subst. rewrite path_eqb_refl in ET. discriminate.
      * unfold from_val in Ev. rewrite ET in Ev. exact Ev.
  - inversion Hb; subst. discriminate.
  - simpl in Hpy. destruct (get_py pt0 T) as [tm|] eqn:Hg; try discriminate.
    simpl in Hok. apply andb_true_iff in Hok. destruct Hok as [_ Hc].
    destruct (import_resolves T tm Hg ln false (mp ++ [a])) as [H1 H2].
    destruct asn as [a0|]; inversion Hb; subst a m; inversion Hpy; subst pk'; simpl pns.
    + exists (VMod T). split; [|split; auto].
      * split; [discriminate|]. exists 1, (FMod T). split; [lia|]. split; [exact H1|apply vmatch_mod].
      * intros Hin. apply mem_str_In in Hin. rewrite Hin in Hc. discriminate.
    + exists (VMod [hd "" T]). split; [|split; auto].
      * split; [discriminate|]. exists 1, (FMod [hd "" T]). split; [lia|]. split; [exact H2|apply vmatch_mod].
      * intros Hin. apply mem_str_In in Hin. rewrite Hin in Hc. discriminate.
  - inversion Hb; subst. contradiction.
  - discriminate.
  - discriminate.
Qed.

Lemma stmt_skip_from pk pk' ln T x asn bare :
  stmt_ok mp is_init cs (SFrom ln T x asn bare) = true -> J pk -> py_stmt ms pt0 mp pk (SFrom ln T x asn bare) = POk pk' ->
  bind_of mp is_init (SFrom ln T x asn bare) = None ->
  In x cs /\ pns pk' = assign x (VMod (mp ++ [x])) (pns pk).
Proof.
  intros Hok HJ Hpy Hb. simpl in Hok.
  apply andb_true_iff in Hok. destruct Hok as [Hok Hbare]. apply andb_true_iff in Hok. destruct Hok as [Hok Hself].
  set (an := match asn with Some a0 => a0 | None => x end) in *.
  assert (HT : T = mp /\ an = x).
  { simpl in Hb. destruct (bare && is_init && match asn with None => true | Some _ => false end) eqn:Es.
    - apply andb_true_iff in Es. destruct Es as [Es Ea]. rewrite Es in Hbare. apply path_eqb_eq in Hbare.
      destruct asn; try discriminate. auto.
    - fold an in Hb. destruct (path_eqb (T ++ [x]) (mp ++ [an])) eqn:E; try discriminate.
      apply path_eqb_eq in E. apply app_inj_tail in E. destruct E; auto. }
  destruct HT as [HT Han]. subst T. rewrite path_eqb_refl in Hself. apply mem_str_In in Hself. split; auto.
  simpl in Hpy. fold (from_val pk mp x) in Hpy. destruct (from_val pk mp x) as [v|e] eqn:Ev; try discriminate.
  pose proof (from_val_self pk x v HJ Hself Ev) as Hv. rewrite Hv in Hpy. subst an.
  inversion Hpy as [Hpk]. simpl. rewrite Han. reflexivity.
Qed.

Lemma stmt_J pk pk' s : In s body -> J pk -> py_stmt ms pt0 mp pk s = POk pk' -> J pk'.
Proof.
  intros Hin HJ Hpy. pose proof (wf_stmt_ok s Hin) as Hok.
  destruct s as [ln x k|ln T x asn bare|ln T|ln T asn|ln its|ln its|ln its].
  - destruct (stmt_binds_R pk pk' _ x (MObj k ln) Hok HJ Hpy eq_refl eq_refl) as [v [_ [Hp Hc]]].
    { simpl in Hok. apply andb_true_iff in Hok. destruct Hok as [Hpl _]. apply plain_not_all. auto. }
    intros c v' Hcin Hl. rewrite Hp in Hl. rewrite lookup_assign_other in Hl; [eapply HJ; eauto|]. intros Heq; subst; contradiction.
  - destruct (bind_of mp is_init (SFrom ln T x asn bare)) as [[a m]|] eqn:Eb.
    + assert (Hm : star_flagged m = false).
      { simpl in Eb. destruct (bare && is_init && match asn with None => true | Some _ => false end); try discriminate.
        destruct (path_eqb _ _); try discriminate. inversion Eb; subst. reflexivity. }
      assert (Ha : a <> "__all__").
      { simpl in Eb. destruct (bare && is_init && match asn with None => true | Some _ => false end); try discriminate.
        destruct (path_eqb _ _); try discriminate. inversion Eb; subst.
        simpl in Hok. apply andb_true_iff in Hok. destruct Hok as [Hok _]. apply andb_true_iff in Hok. destruct Hok as [Hok _].
        apply andb_true_iff in Hok. destruct Hok as [Hpl _]. apply plain_not_all. auto. }
      destruct (stmt_binds_R pk pk' _ a m Hok HJ Hpy Eb Hm Ha) as [v [_ [Hp Hc]]].
      intros c v' Hcin Hl. rewrite Hp in Hl. rewrite lookup_assign_other in Hl; [eapply HJ; eauto|]. intros Heq; subst; contradiction.
    + destruct (stmt_skip_from pk pk' ln T x asn bare Hok HJ Hpy Eb) as [Hx Hp].
      intros c v' Hcin Hl. rewrite Hp in Hl. destruct (string_dec x c) as [Heq|Hne].
      * subst. rewrite lookup_assign_same in Hl. inversion Hl. auto.
      * rewrite lookup_assign_other in Hl by auto. eapply HJ; eauto.
  - simpl in Hpy. destruct (get_py pt0 T) as [tm|] eqn:Hg; try discriminate.
    destruct (py_bind_all ms pt0 T (py_star_names tm) (pns pk)) as [ns'|e] eqn:Eb; try discriminate.
    inversion Hpy; subst pk'. intros c v' Hcin Hl. simpl in Hl.
    destruct (py_bind_all_lookup ms pt0 T _ _ _ Eb c) as [Hi Ho].
    destruct (in_dec string_dec c (py_star_names tm)) as [Hn|Hn].
    + destruct (Hi Hn) as [v [Ha Hl']]. rewrite Hl' in Hl. inversion Hl; subst v'. eapply HY1; eauto.
    + rewrite (Ho Hn) in Hl. eapply HJ; eauto.
  - destruct (stmt_binds_R pk pk' _ (match asn with Some a0 => a0 | None => hd "" T end) (MAlias (match asn with Some _ => T | None => [hd "" T] end) ln false) Hok HJ Hpy) as [v [_ [Hp Hc]]].
    { simpl. destruct asn; reflexivity. }
    { reflexivity. }
    { simpl in Hok. apply andb_true_iff in Hok. destruct Hok as [Hpl _]. apply plain_not_all. auto. }
    intros c v' Hcin Hl. rewrite Hp in Hl. rewrite lookup_assign_other in Hl; [eapply HJ; eauto|]. intros Heq; subst; contradiction.
  - simpl in Hpy. destruct (py_eval_items pt0 (pns pk) its); try discriminate. inversion Hpy; subst. exact HJ.
  - simpl in Hpy. destruct (pall pk); try discriminate. destruct (py_eval_items pt0 (pns pk) its); try discriminate. inversion Hpy; subst. exact HJ.
  - simpl in Hpy. destruct (pall pk); try discriminate. destruct (py_eval_items pt0 (pns pk) its); try discriminate. inversion Hpy; subst. exact HJ.
Qed.


(* ---- one statement: the relation between Griffe's members (in execution order) and the runtime namespace is kept ---- *)
Lemma rel_assign gm ns a m v n :
  R a m v -> rel n (lookup n gm) (lookup n ns) ->
  rel n (match (if String.eqb a n then Some m else None) with Some x => Some x | None => lookup n gm end) (lookup n (assign a v ns)).
Proof.
  intros HR Hrel. destruct (String.eqb a n) eqn:E.
  - apply String.eqb_eq in E. subst. rewrite lookup_assign_same. exact HR.
  - rewrite lookup_assign_other; auto. intros Heq; subst; rewrite String.eqb_refl in E; discriminate.
Qed.

Lemma step_explicit gm pk pk' s a m n :
  stmt_ok mp is_init cs s = true -> J pk -> py_stmt ms pt0 mp pk s = POk pk' ->
  bind_of mp is_init s = Some (a, m) -> star_flagged m = false -> a <> "__all__" ->
  rel n (lookup n gm) (lookup n (pns pk)) ->
  rel n (match (if String.eqb a n then Some m else None) with Some x => Some x | None => lookup n gm end) (lookup n (pns pk')).
Proof.
  intros Hok HJ Hpy Hb Hm Ha Hrel.
  destruct (stmt_binds_R pk pk' s a m Hok HJ Hpy Hb Hm Ha) as [v [HR [Hp _]]]. rewrite Hp. apply rel_assign; auto.
Qed.

Lemma step_rel gm pk pk' s :
  In s body -> J pk ->
  (forall n, good n -> rel n (lookup n gm) (lookup n (pns pk))) ->
  py_stmt ms pt0 mp pk s = POk pk' ->
  forall n, good n -> rel n (lookup n (seq_stmt mp is_init X gm s)) (lookup n (pns pk')).
Proof.
  intros Hin HJ Hinv Hpy n Hn. pose proof (wf_stmt_ok s Hin) as Hok.
  rewrite (seq_stmt_lookup mp is_init X X_nodup gm s n).
  destruct s as [ln x k|ln T x asn bare|ln T|ln T asn|ln its|ln its|ln its].
  - (* def *)
    unfold binds. simpl bind_of. eapply step_explicit; eauto; try reflexivity.
    simpl in Hok. apply andb_true_iff in Hok. destruct Hok as [Hpl _]. apply plain_not_all. auto.
  - (* from import *)
    unfold binds. destruct (bind_of mp is_init (SFrom ln T x asn bare)) as [[a m]|] eqn:Eb.
    + assert (Hm : star_flagged m = false /\ a <> "__all__").
      { simpl in Eb. destruct (bare && is_init && match asn with None => true | Some _ => false end); try discriminate.
        destruct (path_eqb _ _); try discriminate. inversion Eb; subst. split; [reflexivity|].
        simpl in Hok. apply andb_true_iff in Hok. destruct Hok as [Hok _]. apply andb_true_iff in Hok. destruct Hok as [Hok _].
        apply andb_true_iff in Hok. destruct Hok as [Hpl _]. apply plain_not_all. auto. }
      destruct Hm as [Hm Ha]. eapply step_explicit; eauto.
    + destruct (stmt_skip_from pk pk' ln T x asn bare Hok HJ Hpy Eb) as [Hx Hp]. rewrite Hp.
      rewrite lookup_assign_other; [apply Hinv; auto|]. intros Heq. subst. destruct Hn. contradiction.
  - (* wildcard import *)
    unfold binds. simpl in Hpy. destruct (get_py pt0 T) as [tm|] eqn:Hg; try discriminate.
    destruct (py_bind_all ms pt0 T (py_star_names tm) (pns pk)) as [ns'|e] eqn:Eb; try discriminate.
    inversion Hpy; subst pk'. simpl pns.
    destruct (py_bind_all_lookup ms pt0 T _ _ _ Eb n) as [Hi Ho].
    destruct (lookup n (X T)) as [m|] eqn:Ex.
    + destruct (exposed_is_star_name T tm n m Hg Ex) as [Hnm _].
      destruct (Hi Hnm) as [v [Ha Hl]]. rewrite Hl. simpl. split; [discriminate|].
      apply (exposed_resolves T tm n m v Hg Ex Ha).
    + assert (Hnot : ~ In n (py_star_names tm)).
      { intros Hnm. destruct (Hi Hnm) as [v [Ha _]]. destruct (star_name_is_exposed T tm n v Hg Hnm Ha) as [m Hm]. congruence. }
      rewrite (Ho Hnot). apply Hinv. auto.
  - (* import *)
    unfold binds. destruct asn as [a0|]; simpl bind_of.
    + eapply step_explicit; eauto; try reflexivity.
      simpl in Hok. apply andb_true_iff in Hok. destruct Hok as [Hpl _]. apply plain_not_all. auto.
    + eapply step_explicit; eauto; try reflexivity.
      simpl in Hok. apply andb_true_iff in Hok. destruct Hok as [Hpl _]. apply plain_not_all. auto.
  - (* __all__ = *)
    unfold binds. simpl bind_of. assert (E : String.eqb "__all__" n = false).
    { apply String.eqb_neq. destruct Hn as [_ Hn]. auto. }
    cbv beta iota. rewrite E. simpl in Hpy. destruct (py_eval_items pt0 (pns pk) its); try discriminate. inversion Hpy; subst. apply Hinv. auto.
  - unfold binds. simpl bind_of. simpl in Hpy. destruct (pall pk); try discriminate.
    destruct (py_eval_items pt0 (pns pk) its); try discriminate. inversion Hpy; subst. apply Hinv. auto.
  - unfold binds. simpl bind_of. simpl in Hpy. destruct (pall pk); try discriminate.
    destruct (py_eval_items pt0 (pns pk) its); try discriminate. inversion Hpy; subst. apply Hinv. auto.
Qed.

(* ---- a whole body ---- *)
Lemma body_rel l : forall gm pk pm',
  incl l body -> J pk ->
  (forall n, good n -> rel n (lookup n gm) (lookup n (pns pk))) ->
  py_body ms pt0 mp pk l = POk pm' ->
  J pm' /\ forall n, good n -> rel n (lookup n (fold_left (seq_stmt mp is_init X) l gm)) (lookup n (pns pm')).
Proof.
  induction l as [|s l IH]; intros gm pk pm' Hincl HJ Hinv Hpy; simpl in *.
  - inversion Hpy; subst. auto.
  - destruct (py_stmt ms pt0 mp pk s) as [pk1|e] eqn:Es; try discriminate.
    assert (Hs : In s body) by (apply Hincl; left; auto).
    apply (IH (seq_stmt mp is_init X gm s) pk1 pm'); auto.
    + intros x Hx. apply Hincl. right. auto.
    + eapply stmt_J; eauto.
    + eapply step_rel; eauto.
Qed.

(* every statement of the body ran, in a state where the submodule names are bound to the submodules *)
Lemma body_stmts l : forall pk pm',
  incl l body -> J pk -> py_body ms pt0 mp pk l = POk pm' ->
  forall s, In s l -> exists pk1 pk2, J pk1 /\ py_stmt ms pt0 mp pk1 s = POk pk2.
Proof.
  induction l as [|s0 l IH]; intros pk pm' Hincl HJ Hpy s Hs; simpl in *; [contradiction|].
  destruct (py_stmt ms pt0 mp pk s0) as [pk1|e] eqn:Es; try discriminate.
  destruct Hs as [Hs|Hs].
  - subst. eauto.
  - apply (IH pk1 pm'); auto.
    + intros x Hx. apply Hincl. right. auto.
    + eapply stmt_J; eauto. apply Hincl. left. auto.
Qed.


(* ------------------------------------------------------------------------------------------------------------ *)
(* the application step of expand_wildcards (apply_one: self-alias skip, submodule special case) against the plain  *)
(* line-number rule (basic_apply_one) that the override theorem is about                                           *)
(* ------------------------------------------------------------------------------------------------------------ *)
Variable F : nat.
Hypothesis HF : S H <= F.
Variable t1 : table.           (* the table after the exports of mp were expanded *)
Variable st1 : modst.
Hypothesis Hst1m : members st1 = members st0.
Hypothesis Ht1_mp : get_mod t1 mp = Some st1.
Hypothesis Ht1_kept : lookups_kept top t t1 Pexec.

Definition SimInv (msr msb : list (string * member)) : Prop :=
  (forall c, In c cs -> lookup c msr = Some MSub) /\
  (forall n, ~ In n cs -> ~ is_star_name n ->
     match lookup n msr, lookup n msb with
     | None, None => True
     | Some m, Some m' => member_lineno m = member_lineno m' /\ m <> MSub /\
                          exists h r, h <= S H /\ Res top t Pexec h m (mp ++ [n]) r /\ Res top t Pexec h m' (mp ++ [n]) r
     | _, _ => False
     end).

Definition EntryOK (e : expanded_entry) : Prop :=
  ~ is_star_name (e_name e) /\
  exists h r, h <= S H /\ Res top t Pexec h (wrap e) (mp ++ [e_name e]) r /\
              (In (e_name e) cs -> r = FMod (mp ++ [e_name e])) /\
              (~ In (e_name e) cs ->
               is_alias (e_member e) && path_eqb (alias_target_path (e_member e)) (mp ++ [e_name e]) = false).

Lemma basic_apply_other msb e n : n <> e_name e -> lookup n (basic_apply_one msb e) = lookup n msb.
Proof.
  intros Hne. unfold basic_apply_one. destruct (lookup (e_name e) msb) as [old|].
  - destruct (Nat.ltb (member_lineno old) (e_ln e)); auto. apply lookup_assign_other. auto.
  - apply lookup_assign_other. auto.
Qed.

Lemma apply_one_other msr e n : n <> e_name e -> lookup n (apply_one F t1 top mp msr e) = lookup n msr.
Proof.
  intros Hne. unfold apply_one.
  destruct (lookup (e_name e) msr) as [old|].
  - destruct (negb _ && _); auto.
    destruct (final F _ top old _); try (apply lookup_assign_other; auto).
    destruct (fres_eqb _ _); try (apply lookup_assign_other; auto).
    destruct (is_alias old); auto. apply lookup_assign_other; auto.
  - destruct (is_alias (e_member e) && _); auto. apply lookup_assign_other. auto.
Qed.

Lemma fres_eqb_true a b : fres_eqb a b = true -> exists q, a = FMod q /\ b = FMod q.
Proof.
  destruct a as [| p |]; destruct b as [| q |]; simpl; try discriminate.
  intros E. apply path_eqb_eq in E. subst. eauto.
Qed.

Lemma member_lineno_relineno m ln : is_alias m = true -> member_lineno (relineno m ln) = ln.
Proof. destruct m; simpl; try discriminate; auto. Qed.

Lemma flux_final msr m loc h r :
  (forall c, In c cs -> lookup c msr = Some MSub) ->
  Res top t Pexec h m loc r -> h <= S H -> final F (set_mod t1 mp (mkSt msr [] None)) top m loc = r.
Proof.
  intros Hch HR Hh.
  assert (Hk : lookups_kept top t (set_mod t1 mp (mkSt msr [] None)) Pexec).
  { eapply lookups_kept_trans; [exact Ht1_kept|]. apply (lookups_kept_update top t1 mp st1); auto.
    intros c Hc. simpl. apply Hch. rewrite Hst1m in Hc. unfold st0 in Hc. eapply attach_sub_only; eauto. }
  apply (Res_final top _ Pexec h m loc r); [|lia]. eapply Res_stable; eauto.
Qed.

Lemma sim_step msr msb e : SimInv msr msb -> EntryOK e -> SimInv (apply_one F t1 top mp msr e) (basic_apply_one msb e).
Proof.
  intros [Hch Hrel] [Hnostar [h [r [Hh [HR [Hchild Hself]]]]]].
  destruct (in_dec string_dec (e_name e) cs) as [Hn|Hn].
  - (* the name of a submodule of mp: the submodule member stays *)
    assert (Hres : apply_one F t1 top mp msr e = msr).
    { unfold apply_one. rewrite (Hch _ Hn).
      destruct (negb _ && _); auto.
      rewrite (flux_final msr MSub (mp ++ [e_name e]) 1 (FMod (mp ++ [e_name e])) Hch (R_sub top t Pexec 0 _)) by lia.
      fold (wrap e). rewrite (flux_final msr (wrap e) (mp ++ [e_name e]) h r Hch HR Hh).
      rewrite (Hchild Hn). simpl. rewrite path_eqb_refl. reflexivity. }
    rewrite Hres. split; auto. intros n Hnn Hns. rewrite basic_apply_other; [apply Hrel; auto|]. intros Heq. subst. contradiction.
  - specialize (Hself Hn).
    assert (Hother : forall n, n <> e_name e -> ~ In n cs -> ~ is_star_name n ->
              match lookup n (apply_one F t1 top mp msr e), lookup n (basic_apply_one msb e) with
              | None, None => True
              | Some m, Some m' => member_lineno m = member_lineno m' /\ m <> MSub /\
                                   exists h r, h <= S H /\ Res top t Pexec h m (mp ++ [n]) r /\ Res top t Pexec h m' (mp ++ [n]) r
              | _, _ => False
              end).
    { intros n Hne Hnn Hns. rewrite apply_one_other, basic_apply_other by auto. apply Hrel; auto. }
    assert (Hchildren : forall c, In c cs -> lookup c (apply_one F t1 top mp msr e) = Some MSub).
    { intros c Hc. rewrite apply_one_other; auto. intros Heq. subst. contradiction. }
    split; auto. intros n Hnn Hnsn. destruct (string_dec n (e_name e)) as [Heq|Hne]; [|apply Hother; auto]. subst n.
    pose proof (Hrel (e_name e) Hn Hnostar) as Hr0.
    assert (Hnew : member_lineno (wrap e) = member_lineno (wrap e) /\ wrap e <> MSub /\
                   exists h r, h <= S H /\ Res top t Pexec h (wrap e) (mp ++ [e_name e]) r /\ Res top t Pexec h (wrap e) (mp ++ [e_name e]) r).
    { split; auto. split; [discriminate|]. eauto. }
    unfold apply_one, basic_apply_one. rewrite Hself. fold (wrap e).
    destruct (lookup (e_name e) msr) as [old|] eqn:Eo; destruct (lookup (e_name e) msb) as [old'|] eqn:Eo'; try contradiction.
    + destruct Hr0 as [Hln [Hns [h0 [r0 [Hh0 [HRo HRo']]]]]]. rewrite <- Hln. simpl negb. simpl andb.
      destruct (Nat.ltb (member_lineno old) (e_ln e)) eqn:Elt.
      * rewrite (flux_final msr old (mp ++ [e_name e]) h0 r0 Hch HRo Hh0).
        rewrite (flux_final msr (wrap e) (mp ++ [e_name e]) h r Hch HR Hh).
        destruct r0 as [k p|q|]; try (rewrite !lookup_assign_same; exact Hnew).
        destruct (fres_eqb r (FMod q)) eqn:Efe; [|rewrite !lookup_assign_same; exact Hnew].
        destruct (fres_eqb_true _ _ Efe) as [q' [Hrq Hq]]. inversion Hq; subst q'. subst r.
        destruct (is_alias old) eqn:Eal.
        -- rewrite !lookup_assign_same. split; [rewrite member_lineno_relineno; auto|]. split; [destruct old; discriminate|].
           exists (S H), (FMod q). split; [lia|]. split.
           ++ apply Res_relineno. eapply Res_mono_h; eauto.
           ++ eapply Res_mono_h; eauto.
        -- exfalso. destruct old; try discriminate; [inversion HRo|contradiction].
      * rewrite Eo, Eo'. split; auto. split; auto. eauto.
    + rewrite !lookup_assign_same. exact Hnew.
Qed.

Lemma sim_fold es : Forall EntryOK es -> forall msr msb, SimInv msr msb ->
  SimInv (fold_left (apply_one F t1 top mp) es msr) (fold_left basic_apply_one es msb).
Proof.
  induction 1 as [|e es He Hes IH]; intros msr msb Hs; simpl; auto.
  apply IH. apply sim_step; auto.
Qed.


(* ------------------------------------------------------------------------------------------------------------ *)
(* the members of mp after its wildcard imports were expanded                                                    *)
(* ------------------------------------------------------------------------------------------------------------ *)
Hypothesis Ht1_other : forall q, q <> mp -> get_mod t1 q = get_mod t q.
Variable pm : pymod.
Hypothesis Hpy : py_body ms pt0 mp (mkPy [] None) body = POk pm.

Definition ms0v : list (string * member) := members (visit_body mp is_init body).
Definition ms1r : list (string * member) := fold_left (fun ms n => remove_key n ms) (star_names_of (members st1)) (members st1).
Definition entries : list expanded_entry := star_entries t1 top (members st1).
Definition ms2 : list (string * member) := apply_expanded F t1 top mp ms1r entries.

Lemma J_init : J (mkPy [] None).
Proof. intros c v _ Hl. discriminate. Qed.

Lemma star_executed ln T : In (SStar ln T) body -> exists tm, get_py pt0 T = Some tm.
Proof.
  intros Hin. destruct (body_stmts body (mkPy [] None) pm (incl_refl _) J_init Hpy _ Hin) as [pk1 [pk2 [_ Hs]]].
  simpl in Hs. destruct (get_py pt0 T); eauto. discriminate.
Qed.

Lemma star_reads ln T tm n : In (SStar ln T) body -> get_py pt0 T = Some tm -> In n (py_star_names tm) ->
  exists v, py_attr ms pt0 T n = POk v.
Proof.
  intros Hin Hg Hn. destruct (body_stmts body (mkPy [] None) pm (incl_refl _) J_init Hpy _ Hin) as [pk1 [pk2 [_ Hs]]].
  simpl in Hs. rewrite Hg in Hs. destruct (py_bind_all ms pt0 T (py_star_names tm) (pns pk1)) as [ns'|] eqn:Eb; try discriminate.
  destruct (py_bind_all_lookup ms pt0 T _ _ _ Eb n) as [Hi _]. destruct (Hi Hn) as [v [Ha _]]. eauto.
Qed.

Lemma star_names_plain T tm n : get_py pt0 T = Some tm -> In n (py_star_names tm) -> plain n = true.
Proof.
  intros Hg Hn. destruct (Hdone T tm Hg) as [_ [st [_ Hok]]]. unfold py_star_names in Hn.
  destruct (pall tm) as [l|] eqn:Ep.
  - eapply mo_all_plain; eauto.
  - apply in_map_iff in Hn. destruct Hn as [[n' v] [Hn' Hin]]. simpl in Hn'. subst n'. apply filter_In in Hin. destruct Hin as [Hin _].
    destruct (In_fst_lookup n (pns tm)) as [v' Hv']; [apply in_map_iff; exists (n, v); auto|]. eapply mo_plain; eauto.
Qed.

Lemma flat_map_flat_map {A B C} (f : A -> list B) (g : B -> list C) l :
  flat_map g (flat_map f l) = flat_map (fun x => flat_map g (f x)) l.
Proof. induction l; simpl; auto. rewrite flat_map_app. f_equal. auto. Qed.

Lemma flat_map_ext_In {A B} (f g : A -> list B) l : (forall x, In x l -> f x = g x) -> flat_map f l = flat_map g l.
Proof. induction l; simpl; intros Hx; auto. f_equal; auto. Qed.

Lemma cs_not_star c : In c cs -> ~ is_star_name c.
Proof. intros Hc. apply plain_not_star. apply cs_plain. auto. Qed.

Lemma ms0v_star k T ln : In (k, MAlias T ln true) ms0v -> k = star_name T /\ In (SStar ln T) body.
Proof.
  intros Hin. apply (visit_star_key mp is_init body k T ln). apply In_lookup_nodup; auto. apply visit_keys_nodup.
Qed.

Lemma entries_eq : entries = flat_map (fun Tl => entries_of X (fst Tl) (snd Tl)) (stars_of ms0v).
Proof.
  unfold entries, star_entries. rewrite Hst1m. unfold st0.
  rewrite attach_flat_map; [|intros k m Hne; destruct m as [| |T ln [|]|]; auto; contradiction|apply cs_not_star].
  unfold stars_of. rewrite flat_map_flat_map. apply flat_map_ext_In. intros [k m] Hin. fold ms0v in Hin.
  destruct m as [| |T ln [|]|]; simpl; auto. rewrite app_nil_r.
  destruct (ms0v_star k T ln Hin) as [_ Hs]. destruct (star_executed ln T Hs) as [tm Hg].
  destruct (Hdone T tm Hg) as [Hreach [st [Hst _]]].
  rewrite (proj1 (Ht1_kept T) T (lookup_path_reach top ms t T Hstruct Hreach)).
  assert (Hne : T <> mp) by (intros Heq; subst; apply HPmp; eapply Pexec_some; eauto).
  rewrite (Ht1_other T Hne), Hst. unfold collect, entries_of, X. rewrite Hst. reflexivity.
Qed.

Lemma star_names_eq : star_names_of (members st1) = star_names_of ms0v.
Proof.
  rewrite Hst1m. unfold st0, star_names_of. apply attach_flat_map; [|apply cs_not_star].
  intros k m Hne. destruct m as [| |T ln [|]|]; auto; contradiction.
Qed.

Lemma star_names_are_star k : In k (star_names_of ms0v) -> is_star_name k.
Proof.
  unfold star_names_of. intros Hin. apply in_flat_map in Hin. destruct Hin as [[k' m] [Hin Hk]].
  destruct m as [| |T ln [|]|]; simpl in Hk; try contradiction. destruct Hk as [Hk|[]]. subst k'.
  destruct (ms0v_star k T ln Hin) as [Hk _]. exists T. auto.
Qed.

Lemma ms1r_lookup n : ~ is_star_name n -> lookup n ms1r = lookup n (members st0).
Proof.
  intros Hn. unfold ms1r. rewrite star_names_eq, Hst1m. apply remove_keys_lookup.
  intros k Hk Heq. subst. apply Hn. apply star_names_are_star. auto.
Qed.

Lemma remove_keys_gone k ks : forall (l : list (string * member)),
  NoDup (map fst l) -> In k ks -> lookup k (fold_left (fun ms n => remove_key n ms) ks l) = None.
Proof.
  induction ks as [|k0 ks IH]; intros l Hnd Hin; [contradiction|]. simpl.
  destruct (in_dec string_dec k ks) as [Hk|Hk].
  - apply IH; auto. apply remove_key_nodup. auto.
  - destruct Hin as [Hin|Hin]; [|contradiction]. subst k0. rewrite remove_keys_lookup.
    + apply lookup_remove_same. auto.
    + intros k' Hk' Heq. subst. contradiction.
Qed.

Lemma st0_keys_nodup : NoDup (map fst (members st0)).
Proof. unfold st0. apply attach_keys_nodup. apply visit_keys_nodup. Qed.

Lemma plain_ends_star n : plain n = true -> ends_star n = false.
Proof. unfold plain. intros Hp. apply andb_true_iff in Hp. destruct Hp as [_ Hp]. destruct (ends_star n); auto. Qed.

Lemma ms1r_nostar k : ends_star k = true -> lookup k ms1r = None.
Proof.
  intros Hk. unfold ms1r. rewrite star_names_eq, Hst1m.
  destruct (lookup k (members st0)) as [m|] eqn:El.
  - assert (Hkc : ~ In k cs) by (intros Hc; apply cs_plain in Hc; apply plain_ends_star in Hc; congruence).
    unfold st0 in El. rewrite attach_lookup_other in El by auto.
    destruct (visit_lookup_binder mp is_init body k m El) as [s [Hs Hb]].
    destruct (star_flagged m) eqn:Em.
    + apply remove_keys_gone; [apply st0_keys_nodup|]. unfold star_names_of. apply in_flat_map. exists (k, m). split.
      * apply lookup_In. exact El.
      * destruct m as [| |T ln [|]|]; simpl in Em; try discriminate. simpl. auto.
    + exfalso. destruct (bind_of_bound_name mp is_init s k m Hb Em) as [Hbn|[Hka _]].
      * pose proof (stmt_ok_bound_plain mp is_init cs s k (wf_stmt_ok s Hs) Hbn) as Hp. apply plain_ends_star in Hp. congruence.
      * subst k. vm_compute in Hk. discriminate.
  - assert (Hnone : forall ks (l : list (string * member)), lookup k l = None -> lookup k (fold_left (fun ms n => remove_key n ms) ks l) = None).
    { induction ks as [|k0 ks IH]; intros l Hl; simpl; auto. apply IH.
      destruct (string_dec k0 k) as [Heq|Hne]; [|rewrite lookup_remove_other; auto].
      subst. clear -Hl. induction l as [|[k1 w] r IHl]; simpl in *; auto. destruct (String.eqb k1 k) eqn:E; try discriminate.
      simpl. rewrite E. auto. }
    apply Hnone. auto.
Qed.

(* every entry to apply comes from a wildcard import of the body and an exposed member of its (executed) target *)
Lemma entries_from e : In e entries ->
  exists ln T tm m, In (SStar ln T) body /\ get_py pt0 T = Some tm /\ lookup (e_name e) (X T) = Some m /\
                    e = mkE (e_name e) m (T ++ [e_name e]) ln.
Proof.
  rewrite entries_eq. intros Hin. apply in_flat_map in Hin. destruct Hin as [[T ln] [HT He]]. simpl in He.
  unfold stars_of in HT. apply in_flat_map in HT. destruct HT as [[k m0] [Hk Hm0]].
  destruct m0 as [| |T' ln' [|]|]; simpl in Hm0; try contradiction. destruct Hm0 as [Hm0|[]]. inversion Hm0; subst T' ln'.
  destruct (ms0v_star k T ln Hk) as [_ Hs]. destruct (star_executed ln T Hs) as [tm Hg].
  unfold entries_of in He. apply in_map_iff in He. destruct He as [[n m] [He Hin]]. simpl in He. subst e. simpl.
  exists ln, T, tm, m. repeat split; auto. apply In_lookup_nodup; auto. apply X_nodup.
Qed.

Lemma entries_ok : Forall EntryOK entries.
Proof.
  apply Forall_forall. intros e Hin. destruct (entries_from e Hin) as [ln [T [tm [m [Hs [Hg [Hx He]]]]]]].
  destruct (exposed_is_star_name T tm _ m Hg Hx) as [Hn Hpl].
  destruct (star_reads ln T tm _ Hs Hg Hn) as [v Ha].
  destruct (exposed_resolves T tm _ m v Hg Hx Ha ln (mp ++ [e_name e])) as [h [r [Hh [HR Hv]]]].
  split; [apply plain_not_star; auto|].
  exists h, r. split; auto. split; [rewrite He at 1; exact HR|]. split.
  - intros Hc. pose proof (HY1 ln T tm _ v Hs Hg Hc Hn Ha) as Hvm. subst v. apply vmatch_mod_r. auto.
  - intros Hc. rewrite He. simpl. eapply exposed_not_self_alias; eauto.
    intros Hsub. apply Hc. unfold st0 in Hsub. eapply attach_sub_only; eauto.
Qed.

(* the members the visitor binds explicitly resolve *)
Lemma explicit_good n m : lookup n ms0v = Some m -> star_flagged m = false ->
  m <> MSub /\ exists h r, h <= S H /\ Res top t Pexec h m (mp ++ [n]) r.
Proof.
  intros Hl Hm. destruct (visit_lookup_binder mp is_init body n m Hl) as [s [Hs Hb]].
  split; [eapply bind_of_not_sub; eauto|].
  destruct (string_dec n "__all__") as [Heq|Hne].
  - subst n. destruct (bind_of_bound_name mp is_init s _ m Hb Hm) as [Hbn|[_ [ln [its Hss]]]].
    + exfalso. pose proof (stmt_ok_bound_plain mp is_init cs s _ (wf_stmt_ok s Hs) Hbn) as Hp. vm_compute in Hp. discriminate.
    + subst s. simpl in Hb. inversion Hb; subst m. exists 1, (FObj KAttr (mp ++ ["__all__"])). split; [lia|]. constructor.
  - destruct (body_stmts body (mkPy [] None) pm (incl_refl _) J_init Hpy s Hs) as [pk1 [pk2 [HJ1 Hst]]].
    destruct (stmt_binds_R pk1 pk2 s n m (wf_stmt_ok s Hs) HJ1 Hst Hb Hm Hne) as [v [[_ [h [r [Hh [HR _]]]]] _]]. eauto.
Qed.

Lemma sim_init : SimInv ms1r (fold_left (fun ms n => remove_key n ms) (star_names_of ms0v) ms0v).
Proof.
  split.
  - intros c Hc. rewrite ms1r_lookup by (apply cs_not_star; auto). unfold st0. apply attach_lookup_child. auto.
  - intros n Hn Hns. rewrite ms1r_lookup by auto. unfold st0. rewrite attach_lookup_other by auto.
    rewrite remove_keys_lookup by (intros k Hk Heq; subst; apply Hns; apply star_names_are_star; auto).
    fold ms0v. destruct (lookup n ms0v) as [m|] eqn:El; auto.
    assert (Hm : star_flagged m = false).
    { destruct (star_flagged m) eqn:Em; auto. destruct m as [| |T ln [|]|]; simpl in Em; try discriminate.
      exfalso. apply Hns. destruct (visit_star_key mp is_init body n T ln El) as [Hk _]. exists T. auto. }
    destruct (explicit_good n m El Hm) as [Hsub [h [r [Hh HR]]]]. split; auto. split; auto. eauto.
Qed.

Lemma sim_final : SimInv ms2 (two_phase mp is_init X body).
Proof.
  unfold ms2, apply_expanded, two_phase. rewrite entries_eq. fold ms0v.
  rewrite <- entries_eq. apply sim_fold; [apply entries_ok|]. apply sim_init.
Qed.


(* ---- the runtime namespace of mp ---- *)
Lemma pm_facts : J pm /\ forall n, good n -> rel n (lookup n (sequential mp is_init X body)) (lookup n (pns pm)).
Proof.
  apply (body_rel body [] (mkPy [] None) pm (incl_refl _) J_init); auto. intros n _. simpl. exact I.
Qed.

Lemma lookup_assign_cases {A} n a (v w : A) l : lookup n (assign a v l) = Some w -> n = a \/ lookup n l = Some w.
Proof.
  intros Hl. destruct (string_dec a n) as [Heq|Hne]; auto. rewrite lookup_assign_other in Hl by auto. auto.
Qed.

Lemma stmt_plain pk pk' s :
  In s body -> (forall n v, lookup n (pns pk) = Some v -> plain n = true) -> py_stmt ms pt0 mp pk s = POk pk' ->
  forall n v, lookup n (pns pk') = Some v -> plain n = true.
Proof.
  intros Hin Hinv Hps n v Hl. pose proof (wf_stmt_ok s Hin) as Hok.
  destruct s as [ln x k|ln T x asn bare|ln T|ln T asn|ln its|ln its|ln its]; simpl in Hps.
  - inversion Hps; subst. simpl in Hl. apply lookup_assign_cases in Hl. destruct Hl as [Hl|Hl]; [|eauto].
    subst. simpl in Hok. apply andb_true_iff in Hok. apply Hok.
  - match type of Hps with match ?r with _ => _ end = _ => destruct r as [v0|]; try discriminate end.
    inversion Hps; subst. simpl in Hl. apply lookup_assign_cases in Hl. destruct Hl as [Hl|Hl]; [|eauto]. subst.
    simpl in Hok. apply andb_true_iff in Hok. destruct Hok as [Hok _]. apply andb_true_iff in Hok. destruct Hok as [Hok _].
    apply andb_true_iff in Hok. apply Hok.
  - destruct (get_py pt0 T) as [tm|] eqn:Hg; try discriminate.
    destruct (py_bind_all ms pt0 T (py_star_names tm) (pns pk)) as [ns'|] eqn:Eb; try discriminate. inversion Hps; subst. simpl in Hl.
    destruct (py_bind_all_lookup ms pt0 T _ _ _ Eb n) as [_ Ho].
    destruct (in_dec string_dec n (py_star_names tm)) as [Hn|Hn]; [eapply star_names_plain; eauto|].
    rewrite (Ho Hn) in Hl. eauto.
  - destruct (get_py pt0 T); try discriminate. simpl in Hok. apply andb_true_iff in Hok. destruct Hok as [Hpl _].
    destruct asn; inversion Hps; subst; simpl in Hl; apply lookup_assign_cases in Hl; destruct Hl as [Hl|Hl]; subst; eauto.
  - destruct (py_eval_items pt0 (pns pk) its); try discriminate. inversion Hps; subst. eauto.
  - destruct (pall pk); try discriminate. destruct (py_eval_items pt0 (pns pk) its); try discriminate. inversion Hps; subst. eauto.
  - destruct (pall pk); try discriminate. destruct (py_eval_items pt0 (pns pk) its); try discriminate. inversion Hps; subst. eauto.
Qed.

Lemma body_plain l : forall pk pm', incl l body -> (forall n v, lookup n (pns pk) = Some v -> plain n = true) ->
  py_body ms pt0 mp pk l = POk pm' -> forall n v, lookup n (pns pm') = Some v -> plain n = true.
Proof.
  induction l as [|s l IH]; intros pk pm' Hincl Hinv Hpb; simpl in Hpb.
  - inversion Hpb; subst. auto.
  - destruct (py_stmt ms pt0 mp pk s) as [pk1|] eqn:Es; try discriminate.
    apply (IH pk1 pm'); auto.
    + intros x Hx. apply Hincl. right. auto.
    + eapply stmt_plain; eauto. apply Hincl. left. auto.
Qed.

Lemma pm_plain n v : lookup n (pns pm) = Some v -> plain n = true.
Proof. apply (body_plain body (mkPy [] None) pm (incl_refl _)); auto. intros n0 v0 Hl. discriminate. Qed.

(* ---- the members of mp ---- *)
Lemma apply_one_cases msr e :
  apply_one F t1 top mp msr e = msr \/ apply_one F t1 top mp msr e = assign (e_name e) (wrap e) msr \/
  exists old, lookup (e_name e) msr = Some old /\ apply_one F t1 top mp msr e = assign (e_name e) (relineno old (e_ln e)) msr.
Proof.
  unfold apply_one. fold (wrap e). destruct (lookup (e_name e) msr) as [old|] eqn:El.
  - destruct (negb _ && _); auto.
    destruct (final F _ top old _); auto.
    destruct (fres_eqb _ _); auto. destruct (is_alias old); auto. right. right. eauto.
  - destruct (is_alias (e_member e) && _); auto.
Qed.

Definition WrapOK (l : list (string * member)) : Prop :=
  forall n src inner ln, lookup n l = Some (MWrap src inner ln) -> exists T' n', src = T' ++ [n'] /\ Pexec T'.

Lemma fold_entries_inv (Q : list (string * member) -> Prop) :
  (forall msr e, In e entries -> Q msr -> Q (assign (e_name e) (wrap e) msr)) ->
  (forall msr e old, In e entries -> Q msr -> lookup (e_name e) msr = Some old -> Q (assign (e_name e) (relineno old (e_ln e)) msr)) ->
  Q ms1r -> Q ms2.
Proof.
  intros Hnew Hre. unfold ms2, apply_expanded.
  assert (G : forall es, incl es entries -> forall msr, Q msr -> Q (fold_left (apply_one F t1 top mp) es msr)).
  { induction es as [|e es IH]; intros Hincl msr Hq; simpl; auto. apply IH; [intros x Hx; apply Hincl; right; auto|].
    assert (He : In e entries) by (apply Hincl; left; auto).
    destruct (apply_one_cases msr e) as [E|[E|[old [Ho E]]]]; rewrite E; auto. }
  apply G. apply incl_refl.
Qed.

Lemma ms2_keys : NoDup (map fst ms2).
Proof.
  apply fold_entries_inv.
  - intros. apply assign_keys_nodup. auto.
  - intros. apply assign_keys_nodup. auto.
  - unfold ms1r. generalize (star_names_of (members st1)). rewrite Hst1m. generalize st0_keys_nodup. generalize (members st0).
    intros l Hl ks. revert l Hl. induction ks as [|k ks IH]; intros l Hl; simpl; auto. apply IH. apply remove_key_nodup. auto.
Qed.

Lemma entry_src e : In e entries -> exists T tm, get_py pt0 T = Some tm /\ e_src e = T ++ [e_name e] /\ plain (e_name e) = true.
Proof.
  intros Hin. destruct (entries_from e Hin) as [ln [T [tm [m [Hs [Hg [Hx He]]]]]]].
  destruct (exposed_is_star_name T tm _ m Hg Hx) as [_ Hpl]. exists T, tm. split; auto. split; auto. rewrite He. reflexivity.
Qed.

Lemma ms2_wrap : WrapOK ms2.
Proof.
  apply fold_entries_inv.
  - intros msr e He Hq n src inner ln Hl. destruct (string_dec n (e_name e)) as [Heq|Hne].
    + subst n. rewrite lookup_assign_same in Hl. unfold wrap in Hl. inversion Hl; subst.
      destruct (entry_src e He) as [T [tm [Hg [Hsrc _]]]]. exists T, (e_name e). split; auto. eapply Pexec_some; eauto.
    + rewrite lookup_assign_other in Hl by auto. eapply Hq; eauto.
  - intros msr e old He Hq Ho n src inner ln Hl. destruct (string_dec n (e_name e)) as [Heq|Hne].
    + subst n. rewrite lookup_assign_same in Hl. destruct old; simpl in Hl; try discriminate. inversion Hl; subst. eapply Hq; eauto.
    + rewrite lookup_assign_other in Hl by auto. eapply Hq; eauto.
  - intros n src inner ln Hl.
    destruct (lookup n (members st0)) as [m|] eqn:E0.
    + assert (Hm : In (n, MWrap src inner ln) (members st0)).
      { unfold ms1r in Hl. apply lookup_In in Hl. rewrite Hst1m in Hl. clear -Hl. revert Hl. generalize (star_names_of (members st0)).
        generalize (members st0). intros l ks. revert l. induction ks as [|k ks IH]; intros l Hl; simpl in Hl; auto.
        apply IH in Hl. eapply remove_key_In; eauto. }
      apply (In_lookup_nodup _ _ _ st0_keys_nodup) in Hm. unfold st0 in Hm.
      destruct (in_dec string_dec n cs) as [Hc|Hc].
      * rewrite attach_lookup_child in Hm by auto. discriminate.
      * rewrite attach_lookup_other in Hm by auto. destruct (visit_lookup_binder mp is_init body n _ Hm) as [s [_ Hb]].
        exfalso. destruct s; simpl in Hb; try discriminate.
        -- destruct (bare && is_init && match asn with None => true | Some _ => false end); try discriminate. destruct (path_eqb _ _); discriminate.
        -- destruct asn; discriminate.
    + exfalso. unfold ms1r in Hl. apply lookup_In in Hl. rewrite Hst1m in Hl.
      assert (Hm : In (n, MWrap src inner ln) (members st0)).
      { clear -Hl. revert Hl. generalize (star_names_of (members st0)). generalize (members st0). intros l ks. revert l.
        induction ks as [|k ks IH]; intros l Hl; simpl in Hl; auto. apply IH in Hl. eapply remove_key_In; eauto. }
      apply (In_lookup_nodup _ _ _ st0_keys_nodup) in Hm. congruence.
Qed.

(* every wildcard pseudo-member of mp is gone *)
Lemma ms2_noflag n m : lookup n ms2 = Some m -> star_flagged m = false.
Proof.
  revert n m. apply (fold_entries_inv (fun l => forall n m, lookup n l = Some m -> star_flagged m = false)).
  - intros msr e He Hq n m Hl. destruct (string_dec n (e_name e)) as [Heq|Hne].
    + subst n. rewrite lookup_assign_same in Hl. inversion Hl; subst m. reflexivity.
    + rewrite lookup_assign_other in Hl by auto. eapply Hq; eauto.
  - intros msr e old He Hq Ho n m Hl. destruct (string_dec n (e_name e)) as [Heq|Hne].
    + subst n. rewrite lookup_assign_same in Hl. inversion Hl; subst m. pose proof (Hq _ _ Ho) as Hf.
      destruct old as [| |tg l0 [|]|]; simpl in *; auto.
    + rewrite lookup_assign_other in Hl by auto. eapply Hq; eauto.
  - intros n m Hl. destruct (star_flagged m) eqn:Ef; auto. exfalso.
    assert (Hm : lookup n (members st0) = Some m).
    { unfold ms1r in Hl. rewrite Hst1m in Hl. clear -Hl. assert (Hnd := st0_keys_nodup). revert Hl. generalize (star_names_of (members st0)).
      revert Hnd. generalize (members st0). intros l Hnd ks. revert l Hnd. induction ks as [|k ks IH]; intros l Hnd Hl; simpl in Hl; auto.
      apply IH in Hl; [|apply remove_key_nodup; auto]. apply In_lookup_nodup; auto. eapply remove_key_In. apply lookup_In. eauto. }
    assert (Hin : In n (star_names_of (members st0))).
    { unfold star_names_of. apply in_flat_map. exists (n, m). split; [apply lookup_In; auto|].
      destruct m as [| |tg l0 [|]|]; simpl in Ef; try discriminate. simpl. auto. }
    unfold ms1r in Hl. rewrite Hst1m in Hl. rewrite (remove_keys_gone n _ _ st0_keys_nodup Hin) in Hl. discriminate.
Qed.

Lemma ms2_other n : (forall e, In e entries -> e_name e <> n) -> lookup n ms2 = lookup n ms1r.
Proof.
  intros Hn. unfold ms2, apply_expanded.
  assert (G : forall es, incl es entries -> forall msr, lookup n (fold_left (apply_one F t1 top mp) es msr) = lookup n msr).
  { induction es as [|e es IH]; intros Hincl msr; simpl; auto. rewrite IH by (intros x Hx; apply Hincl; right; auto).
    apply apply_one_other. intros Heq. apply (Hn e); auto. apply Hincl. left. auto. }
  apply G. apply incl_refl.
Qed.

Lemma ms2_nostar k : ends_star k = true -> lookup k ms2 = None.
Proof.
  intros Hk. rewrite ms2_other; [apply ms1r_nostar; auto|].
  intros e He Heq. destruct (entry_src e He) as [_ [_ [_ [_ Hpl]]]]. subst k. apply plain_ends_star in Hpl. congruence.
Qed.

Lemma ms2_all : lookup "__all__" ms2 = lookup "__all__" ms0v.
Proof.
  assert (Hns : ~ is_star_name "__all__").
  { intros [T HT]. pose proof (star_name_ends_star T) as He. rewrite <- HT in He. vm_compute in He. discriminate. }
  rewrite ms2_other.
  - rewrite ms1r_lookup by auto. unfold st0. apply attach_lookup_other. intros Hc. apply cs_plain in Hc. vm_compute in Hc. discriminate.
  - intros e He Heq. destruct (entry_src e He) as [_ [_ [_ [_ Hpl]]]]. rewrite Heq in Hpl. vm_compute in Hpl. discriminate.
Qed.

Lemma ms2_children c : In c cs -> lookup c ms2 = Some MSub.
Proof. apply (proj1 sim_final). Qed.

Lemma ms2_rel n : ~ In n cs -> is_dunder n = false ->
  match lookup n ms2, lookup n (pns pm) with
  | None, None => True
  | Some m, Some v => m <> MSub /\ exists h r, h <= S H /\ Res top t Pexec h m (mp ++ [n]) r /\ vmatch r v
  | _, _ => False
  end.
Proof.
  intros Hn Hd. destruct (ends_star n) eqn:Ee.
  - rewrite (ms2_nostar n Ee). destruct (lookup n (pns pm)) as [v|] eqn:El; auto.
    apply pm_plain in El. apply plain_ends_star in El. congruence.
  - assert (Hs : ~ is_star_name n).
    { intros [T HT]. pose proof (star_name_ends_star T) as He. rewrite <- HT in He. congruence. }
    assert (Hg : good n). { split; auto. intros Heq. subst. vm_compute in Hd. discriminate. }
    pose proof (proj2 sim_final n Hn Hs) as Hsim.
    pose proof (proj2 pm_facts n Hg) as Hrel.
    rewrite <- (later_statement_overrides mp is_init X X_nodup body n (wf_body_ok mp is_init cs body Hwf) Hs) in Hrel.
    destruct (lookup n ms2) as [m|]; destruct (lookup n (two_phase mp is_init X body)) as [m'|]; try contradiction.
    + destruct (lookup n (pns pm)) as [v|]; [|contradiction]. destruct Hsim as [_ [Hsub [h [r [Hh [HR HR']]]]]].
      destruct Hrel as [_ [h' [r' [Hh' [HR2 Hv]]]]]. rewrite <- (Res_det top t Pexec h m' _ r HR' h' r' HR2) in Hv.
      split; auto. eauto.
    + destruct (lookup n (pns pm)); auto.
Qed.


(* ------------------------------------------------------------------------------------------------------------ *)
(* the exports of mp                                                                                             *)
(* ------------------------------------------------------------------------------------------------------------ *)
Definition pall_of (q : path) : option (list string) := match get_py pt0 q with Some tm => pall tm | None => None end.

(* the runtime list a source denotes, read off Griffe's resolution of the source *)
Definition psrc (l : string) (a : bool) : option (list string) :=
  let from_module := fun q0 => match list_owner F t top q0 (ref_list_name mp st0 l a) with
                               | Some q => pall_of q
                               | None => None
                               end in
  match ref_module_path mp st0 l a with
  | Some p => match lookup_path t top p with
              | LMod q => from_module q
              | LMem amp an am => match final F t top am (amp ++ [an]) with FMod q => from_module q | _ => None end
              | _ => None
              end
  | None => None
  end.

Lemma pall_exports q names : pall_of q = Some names ->
  exists st l', get_mod t q = Some st /\ exports st = Some l' /\ only_strings l' /\ forall x, In (IStr x) l' <-> In x names.
Proof.
  unfold pall_of. destruct (get_py pt0 q) as [tm|] eqn:Hg; try discriminate. intros Hp.
  destruct (Hdone q tm Hg) as [_ [st [Hst Hok]]]. pose proof (mo_exports q st tm Hok) as Hex. rewrite Hp in Hex.
  destruct (exports st) as [ex|] eqn:Ee; [|contradiction]. exists st, ex. destruct Hex. auto.
Qed.

Lemma psrc_src l a names : psrc l a = Some names ->
  exists l', sched_src F t top mp st0 l a = Some l' /\ only_strings l' /\ forall x, In (IStr x) l' <-> In x names.
Proof.
  unfold psrc, sched_src. destruct (ref_module_path mp st0 l a) as [p0|]; try discriminate.
  destruct (lookup_path t top p0) as [q|amp an am| |]; try discriminate.
  - destruct (list_owner F t top q (ref_list_name mp st0 l a)) as [q1|]; try discriminate.
    intros Hp. destruct (pall_exports q1 names Hp) as [st [l' [Hst [He [Ho Hx]]]]]. rewrite Hst. eauto.
  - destruct (final F t top am (amp ++ [an])) as [| q |]; try discriminate.
    destruct (list_owner F t top q (ref_list_name mp st0 l a)) as [q1|]; try discriminate.
    intros Hp. destruct (pall_exports q1 names Hp) as [st [l' [Hst [He [Ho Hx]]]]]. rewrite Hst. eauto.
Qed.

(* ---- the decidable condition on the sources, unfolded ---- *)
Lemma refs_ok_split pre : forall acc s post,
  refs_ok_from cs acc (pre ++ s :: post) = true ->
  forall it, In it (items_of s) ->
    match it with
    | IStr x => plain x = true
    | IRef l a => plain l = true /\ ~ In l cs /\ ref_scan l a (rev pre ++ acc) = true /\ (forall s', In s' post -> may_bind l s' = false)
    end.
Proof.
  induction pre as [|s0 pre IH]; intros acc s post Hr it Hit; simpl in Hr.
  - apply andb_true_iff in Hr. destruct Hr as [Hr _]. rewrite forallb_forall in Hr. specialize (Hr it Hit).
    destruct it as [x|l a]; auto.
    apply andb_true_iff in Hr. destruct Hr as [Hr Hpost]. apply andb_true_iff in Hr. destruct Hr as [Hr Hscan].
    apply andb_true_iff in Hr. destruct Hr as [Hpl Hc]. split; auto. split.
    + intros Hin. apply mem_str_In in Hin. rewrite Hin in Hc. discriminate.
    + split; auto. intros s' Hs'. destruct (may_bind l s') eqn:E; auto.
      assert (Hex : existsb (may_bind l) post = true) by (apply existsb_exists; eauto). rewrite Hex in Hpost. discriminate.
  - apply andb_true_iff in Hr. destruct Hr as [_ Hr]. specialize (IH (s0 :: acc) s post Hr it Hit).
    destruct it as [x|l a]; auto. simpl. rewrite <- app_assoc. exact IH.
Qed.

Definition is_star (s : stmt) : bool := match s with SStar _ _ => true | _ => false end.

Lemma ref_scan_split l a : forall r, ref_scan l a r = true ->
  exists mid_rev b pre_rev, r = mid_rev ++ b :: pre_rev /\ may_bind l b = true /\ binder_form a b = true /\
    (forall s', In s' pre_rev -> may_bind l s' = false) /\
    (forall s', In s' mid_rev -> may_bind l s' = false) /\
    (forall ln T, In (SStar ln T) mid_rev -> In T (stars_before l r)).
Proof.
  induction r as [|s0 r IH]; simpl; try discriminate. destruct (may_bind l s0) eqn:Eb.
  - intros Hr. apply andb_true_iff in Hr. destruct Hr as [Hf Hn]. exists [], s0, r. repeat split; auto; try contradiction.
    intros s' Hs'. destruct (may_bind l s') eqn:E; auto.
    assert (Hex : existsb (may_bind l) r = true) by (apply existsb_exists; eauto). rewrite Hex in Hn. discriminate.
  - intros Hr. destruct (IH Hr) as [mid [b [pre [Hr0 [Hb [Hf [Hp [Hm Hst]]]]]]]]. exists (s0 :: mid), b, pre.
    split; [subst r; reflexivity|]. split; auto. split; auto. split; auto. split.
    + intros s' [Hs'|Hs']; [subst; auto|apply Hm; auto].
    + intros ln T [Hs'|Hs'].
      * subst s0. left. reflexivity.
      * specialize (Hst ln T Hs'). destruct s0; auto. right. auto.
Qed.

(* ---- a name with one binder ---- *)
Lemma may_bind_bind_of l s a m : plain l = true -> may_bind l s = false -> bind_of mp is_init s = Some (a, m) -> a <> l.
Proof.
  intros Hpl Hmb Hb Heq. subst a. destruct s; simpl in *; try discriminate.
  - inversion Hb; subst. rewrite String.eqb_refl in Hmb. discriminate.
  - destruct (bare && is_init && match asn with None => true | Some _ => false end); try discriminate.
    destruct (path_eqb _ _); try discriminate. inversion Hb; subst. rewrite String.eqb_refl in Hmb. discriminate.
  - inversion Hb; subst. apply plain_ends_star in Hpl. rewrite star_name_ends_star in Hpl. discriminate.
  - destruct asn; inversion Hb; subst; rewrite String.eqb_refl in Hmb; discriminate.
  - inversion Hb; subst. vm_compute in Hpl. discriminate.
Qed.

Lemma visit_lookup_app l l1 : forall l2, plain l = true -> (forall s', In s' l2 -> may_bind l s' = false) ->
  lookup l (members (visit_body mp is_init (l1 ++ l2))) = lookup l (members (visit_body mp is_init l1)).
Proof.
  induction l2 as [|s l2 IH] using rev_ind; intros Hpl Hn.
  - rewrite app_nil_r. reflexivity.
  - rewrite app_assoc, visit_body_snoc, visit_members.
    assert (Hn2 : forall s', In s' l2 -> may_bind l s' = false) by (intros s' Hs'; apply Hn; apply in_or_app; auto).
    destruct (bind_of mp is_init s) as [[a m]|] eqn:Eb; [|apply IH; auto].
    rewrite lookup_assign_other; [apply IH; auto|].
    eapply may_bind_bind_of; eauto. apply Hn. apply in_or_app. right. left. auto.
Qed.

Lemma visit_unique_binder l pre1 b rest m :
  plain l = true -> (forall s', In s' rest -> may_bind l s' = false) -> bind_of mp is_init b = Some (l, m) ->
  lookup l (members (visit_body mp is_init (pre1 ++ b :: rest))) = Some m.
Proof.
  intros Hpl Hn Hb. replace (pre1 ++ b :: rest) with ((pre1 ++ [b]) ++ rest) by (rewrite <- app_assoc; reflexivity).
  rewrite visit_lookup_app by auto. rewrite visit_body_snoc, visit_members, Hb. apply lookup_assign_same.
Qed.

(* ---- CPython side: statements that do not bind a name leave it alone ---- *)
Definition star_keeps (l : string) (s : stmt) : Prop :=
  forall ln T tm, s = SStar ln T -> get_py pt0 T = Some tm -> ~ In l (py_star_names tm).

Lemma py_stmt_keeps l pk pk' s : may_bind l s = false -> star_keeps l s -> py_stmt ms pt0 mp pk s = POk pk' ->
  lookup l (pns pk') = lookup l (pns pk).
Proof.
  intros Hmb Hst Hps. destruct s as [ln x k|ln T x asn bare|ln T|ln T asn|ln its|ln its|ln its]; simpl in *; try discriminate.
  - inversion Hps; subst. simpl. apply lookup_assign_other. intros Heq. subst. rewrite String.eqb_refl in Hmb. discriminate.
  - match type of Hps with match ?r with _ => _ end = _ => destruct r as [v0|]; try discriminate end.
    inversion Hps; subst. simpl. apply lookup_assign_other. intros Heq. subst. rewrite String.eqb_refl in Hmb. discriminate.
  - destruct (get_py pt0 T) as [tm|] eqn:Hg; try discriminate.
    destruct (py_bind_all ms pt0 T (py_star_names tm) (pns pk)) as [ns'|] eqn:Eb; try discriminate. inversion Hps; subst. simpl.
    destruct (py_bind_all_lookup ms pt0 T _ _ _ Eb l) as [_ Ho]. apply Ho. eapply Hst; eauto.
  - destruct (get_py pt0 T); try discriminate.
    destruct asn; inversion Hps; subst; simpl; apply lookup_assign_other; intros Heq; subst; rewrite String.eqb_refl in Hmb; discriminate.
  - destruct (py_eval_items pt0 (pns pk) its); try discriminate. inversion Hps; subst. reflexivity.
  - destruct (pall pk); try discriminate. destruct (py_eval_items pt0 (pns pk) its); try discriminate. inversion Hps; subst. reflexivity.
  - destruct (pall pk); try discriminate. destruct (py_eval_items pt0 (pns pk) its); try discriminate. inversion Hps; subst. reflexivity.
Qed.

Lemma py_body_keeps l mid : forall pk pk', (forall s', In s' mid -> may_bind l s' = false /\ star_keeps l s') ->
  py_body ms pt0 mp pk mid = POk pk' -> lookup l (pns pk') = lookup l (pns pk).
Proof.
  induction mid as [|s mid IH]; intros pk pk' Hm Hpb; simpl in Hpb.
  - inversion Hpb; subst. reflexivity.
  - destruct (py_stmt ms pt0 mp pk s) as [pk1|] eqn:Es; try discriminate.
    rewrite (IH pk1 pk') by (auto; intros s' Hs'; apply Hm; right; auto).
    destruct (Hm s (or_introl eq_refl)). eapply py_stmt_keeps; eauto.
Qed.

Lemma py_body_app l1 : forall l2 pk pm', py_body ms pt0 mp pk (l1 ++ l2) = POk pm' ->
  exists pk1, py_body ms pt0 mp pk l1 = POk pk1 /\ py_body ms pt0 mp pk1 l2 = POk pm'.
Proof.
  induction l1 as [|s l1 IH]; intros l2 pk pm' Hpb; simpl in *.
  - eauto.
  - destruct (py_stmt ms pt0 mp pk s) as [pk0|]; try discriminate. apply IH. auto.
Qed.

Lemma py_body_snoc l1 s pk pk1 pk2 : py_body ms pt0 mp pk l1 = POk pk1 -> py_stmt ms pt0 mp pk1 s = POk pk2 ->
  py_body ms pt0 mp pk (l1 ++ [s]) = POk pk2.
Proof.
  revert pk. induction l1 as [|s0 l1 IH]; intros pk H1 H2; simpl in *.
  - inversion H1; subst. rewrite H2. reflexivity.
  - destruct (py_stmt ms pt0 mp pk s0); try discriminate. apply IH; auto.
Qed.

Lemma body_J l : forall pk pk', incl l body -> J pk -> py_body ms pt0 mp pk l = POk pk' -> J pk'.
Proof.
  induction l as [|s l IH]; intros pk pk' Hincl HJ Hpb; simpl in Hpb.
  - inversion Hpb; subst. auto.
  - destruct (py_stmt ms pt0 mp pk s) as [pk1|] eqn:Es; try discriminate.
    apply (IH pk1 pk'); auto.
    + intros x Hx. apply Hincl. right. auto.
    + eapply stmt_J; eauto. apply Hincl. left. auto.
Qed.


Lemma wf_refs : refs_ok_from cs [] body = true.
Proof.
  unfold wf_body in Hwf. apply andb_true_iff in Hwf. destruct Hwf as [Hw _]. apply andb_true_iff in Hw. apply Hw.
Qed.

(* the import statement that binds a source name *)
Lemma binder_member l a b :
  may_bind l b = true -> binder_form a b = true -> stmt_ok mp is_init cs b = true -> ~ In l cs ->
  exists tgt ln, bind_of mp is_init b = Some (l, MAlias tgt ln false) /\
                 (a = false -> exists T x asn bare, b = SFrom ln T x asn bare /\ tgt = T ++ [x]).
Proof.
  intros Hmb Hbf Hok Hlc. destruct b as [ln x k|ln T x asn bare|ln T|ln T asn|ln its|ln its|ln its]; simpl in Hbf; try discriminate.
  - simpl in Hmb. apply String.eqb_eq in Hmb.
    destruct (bind_of mp is_init (SFrom ln T x asn bare)) as [[a0 m0]|] eqn:Eb.
    + simpl in Eb. destruct (bare && is_init && match asn with None => true | Some _ => false end); try discriminate.
      destruct (path_eqb _ _); try discriminate. inversion Eb; subst a0 m0. rewrite Hmb. exists (T ++ [x]), ln. split; auto.
      intros Ha. exists T, x, asn, bare. split; reflexivity.
    + exfalso. simpl in Hok. apply andb_true_iff in Hok. destruct Hok as [Hok Hbare]. apply andb_true_iff in Hok. destruct Hok as [_ Hself].
      assert (HT : T = mp /\ match asn with Some a0 => a0 | None => x end = x).
      { simpl in Eb. destruct (bare && is_init && match asn with None => true | Some _ => false end) eqn:Es.
        - apply andb_true_iff in Es. destruct Es as [Es Ea]. rewrite Es in Hbare. apply path_eqb_eq in Hbare. destruct asn; try discriminate. auto.
        - destruct (path_eqb (T ++ [x]) (mp ++ [match asn with Some a0 => a0 | None => x end])) eqn:E; try discriminate.
          apply path_eqb_eq in E. apply app_inj_tail in E. destruct E; auto. }
      destruct HT as [HT Han]. subst T. rewrite path_eqb_refl in Hself. apply mem_str_In in Hself. apply Hlc. rewrite <- Hmb, Han. auto.
  - simpl in Hmb. apply String.eqb_eq in Hmb. subst a. simpl. destruct asn as [a0|]; subst l; eexists; eexists; (split; [reflexivity|discriminate]).
Qed.

(* the runtime list a source evaluates to when the __all__ statement runs is the one Griffe's resolution of the source denotes *)
Lemma ref_psrc pre s post pk l a names :
  body = pre ++ s :: post -> In (IRef l a) (items_of s) ->
  py_body ms pt0 mp (mkPy [] None) pre = POk pk ->
  py_src pt0 (pns pk) l a = Some names ->
  psrc l a = Some names.
Proof.
  intros Hbody Hit Hpre Hsrc.
  pose proof wf_refs as Hr. rewrite Hbody in Hr.
  pose proof (refs_ok_split pre [] s post Hr _ Hit) as Href. simpl in Href. rewrite app_nil_r in Href.
  destruct Href as [Hpl [Hlc [Hscan Hpost]]].
  destruct (ref_scan_split l a _ Hscan) as [mid_rev [b [pre_rev [Hrev [Hmb [Hbf [Hp1 [Hmid Hstars]]]]]]]].
  assert (Hpre_eq : pre = rev pre_rev ++ b :: rev mid_rev).
  { rewrite <- (rev_involutive pre), Hrev, rev_app_distr. simpl. rewrite <- app_assoc. reflexivity. }
  set (pre1 := rev pre_rev) in *. set (mid := rev mid_rev) in *.
  assert (Hmid' : forall s', In s' mid -> may_bind l s' = false /\ star_keeps l s').
  { intros s' Hs'. assert (Hin : In s' mid_rev) by (apply in_rev; exact Hs'). split; [apply Hmid; auto|].
    unfold star_keeps. intros ln T tm Hs Hg. subst s'. apply (HY3 pre s post l a T tm Hbody Hit); auto. eapply Hstars; eauto. }
  assert (Hb_in : In b body).
  { rewrite Hbody, Hpre_eq. apply in_or_app. left. apply in_or_app. right. left. auto. }
  rewrite Hpre_eq in Hpre. destruct (py_body_app pre1 (b :: mid) _ _ Hpre) as [pk1 [Hpk1 Hrest]].
  simpl in Hrest. destruct (py_stmt ms pt0 mp pk1 b) as [pk2|] eqn:Eb; try discriminate.
  assert (HJ1 : J pk1).
  { apply (body_J pre1 (mkPy [] None) pk1); auto; [|apply J_init].
    intros x Hx. rewrite Hbody, Hpre_eq. apply in_or_app. left. apply in_or_app. left. auto. }
  destruct (binder_member l a b Hmb Hbf (wf_stmt_ok b Hb_in) Hlc) as [tgt [ln [Hbind Hform]]].
  destruct (stmt_binds_R pk1 pk2 b l _ (wf_stmt_ok b Hb_in) HJ1 Eb Hbind eq_refl (plain_not_all l Hpl)) as [v [[_ [h [r [Hh [HR Hv]]]]] [Hp2 _]]].
  assert (Hlv : lookup l (pns pk) = Some v).
  { rewrite (py_body_keeps l mid pk2 pk Hmid' Hrest), Hp2. apply lookup_assign_same. }
  (* Griffe's member for l *)
  assert (Hm : lookup l (members st0) = Some (MAlias tgt ln false)).
  { unfold st0. rewrite attach_lookup_other by auto. rewrite Hbody, Hpre_eq, <- app_assoc. simpl.
    apply visit_unique_binder; auto. intros s' Hs'. apply in_app_or in Hs'. destruct Hs' as [Hs'|[Hs'|Hs']].
    - apply Hmid'. auto.
    - subst s'. destruct s; simpl in Hit; try contradiction; simpl; apply String.eqb_neq; apply plain_not_all; auto.
    - apply Hpost. auto. }
  unfold py_src in Hsrc. rewrite Hlv in Hsrc.
  assert (Hres : resolve_local mp st0 l = Some tgt) by (unfold resolve_local; rewrite Hm; reflexivity).
  unfold psrc, ref_module_path, ref_list_name. rewrite Hres.
  destruct a.
  - (* x.__all__: the value is a module *)
    destruct v as [k p0|T'|T']; try discriminate. apply vmatch_mod_r in Hv. subst r.
    inversion HR; subst.
    + match goal with Hq : lookup_path t top tgt = _ |- _ => rewrite Hq end. simpl. exact Hsrc.
    + match goal with Hq : lookup_path t top tgt = _ |- _ => rewrite Hq end.
      match goal with Hq : Res top t Pexec ?h0 ?m' _ (FMod T') |- _ => rewrite (Res_final top t Pexec h0 m' _ _ Hq F) by lia end.
      simpl. exact Hsrc.
  - (* a name bound to a list: `from T import x as l`, x being __all__ or a name T binds to some module's __all__ *)
    destruct (Hform eq_refl) as [T [x [asn [bare [Hbeq Htgt]]]]]. subst b tgt.
    rewrite removelast_last, last_last.
    destruct v as [k p0|T'|T']; try discriminate.
    assert (Hval : from_val pk1 T x = POk (VAll T')).
    { simpl in Eb. fold (from_val pk1 T x) in Eb. destruct (from_val pk1 T x) as [v0|] eqn:Ev; try discriminate.
      inversion Eb; subst pk2. simpl in Hp2.
      assert (Hl2 : lookup l (assign (match asn with Some a0 => a0 | None => x end) v0 (pns pk1)) = Some (VAll T')).
      { rewrite Hp2. apply lookup_assign_same. }
      simpl in Hbind. destruct (bare && is_init && match asn with None => true | Some _ => false end); try discriminate.
      destruct (path_eqb _ _); try discriminate. inversion Hbind as [Hl0]. rewrite Hl0 in Hl2. rewrite lookup_assign_same in Hl2.
      inversion Hl2. reflexivity. }
    assert (Hne : path_eqb T mp = false).
    { destruct (path_eqb T mp) eqn:ET; auto. apply path_eqb_eq in ET. subst T. exfalso.
      pose proof (wf_stmt_ok _ Hb_in) as Hok. simpl in Hok. apply andb_true_iff in Hok. destruct Hok as [Hok _].
      apply andb_true_iff in Hok. destruct Hok as [_ Hself]. rewrite path_eqb_refl in Hself. apply mem_str_In in Hself.
      pose proof (from_val_self pk1 x _ HJ1 Hself Hval). discriminate. }
    unfold from_val in Hval. rewrite Hne in Hval. unfold py_attr in Hval.
    destruct (get_py pt0 T) as [tm|] eqn:Hg.
    2:{ destruct (mem_str x (children_of ms T) && _); try discriminate. destruct (get_py pt0 (T ++ [x])); discriminate. }
    destruct (Hdone T tm Hg) as [Hreach [stT [HstT HokT]]].
    rewrite (lookup_path_reach top ms t T Hstruct Hreach).
    destruct (String.eqb x "__all__") eqn:Ex.
    + (* the list itself *)
      apply String.eqb_eq in Ex. subst x. destruct (pall tm); try discriminate. inversion Hval; subst T'.
      unfold list_owner. simpl. exact Hsrc.
    + (* a name that T binds to the list of T' *)
      destruct (lookup x (pns tm)) as [v'|] eqn:El.
      2:{ destruct (mem_str x (children_of ms T)); try discriminate. destruct (get_py pt0 (T ++ [x])); discriminate. }
      inversion Hval; subst v'.
      assert (Hxc : ~ In x (children_of ms T)).
      { intros Hc. pose proof (mo_child T stT tm HokT x _ Hc El). discriminate. }
      pose proof (mo_rel T stT tm HokT x Hxc (plain_not_dunder x (mo_plain T stT tm HokT x _ El))) as Hrx. rewrite El in Hrx.
      destruct (lookup x (members stT)) as [m'|] eqn:Em; [|contradiction].
      destruct Hrx as [Hns [h' [r' [Hh' [HR' Hv']]]]].
      assert (Hr' : r' = FObj KAttr (T' ++ ["__all__"])).
      { unfold vmatch in Hv'. destruct r' as [k p1|p1|]; simpl in Hv'; try discriminate.
        destruct k; simpl in Hv'; try discriminate. apply path_eqb_eq in Hv'. subst. reflexivity. }
      subst r'.
      assert (Hal : is_alias m' = true).
      { destruct m' as [k ln'| |tg ln' bb|sr inn ln']; auto; try contradiction.
        inversion HR'; subst. exfalso.
        match goal with Hq : _ ++ [x] = T' ++ ["__all__"] |- _ => apply app_inj_tail in Hq; destruct Hq as [_ Hq]; subst x; discriminate end. }
      unfold list_owner. rewrite Ex, HstT, Em, Hal.
      rewrite (Res_final top t Pexec h' m' _ _ HR' F) by lia. rewrite removelast_last. exact Hsrc.
Qed.



(* ---- the whole body: what the visitor accumulates against what CPython accumulates ---- *)
Definition AccRel (g : option (list item)) (p : option (list string)) : Prop :=
  match g, p with
  | None, None => True
  | Some ex, Some l => py_items psrc ex = Some l /\ (forall x, In (IStr x) ex -> plain x = true)
  | _, _ => False
  end.

Lemma all_items_app l1 : forall acc l2, all_items acc (l1 ++ l2) = all_items (all_items acc l1) l2.
Proof. induction l1 as [|s l1 IH]; intros acc l2; simpl; auto. destruct s; auto. Qed.

Lemma py_items_app f e1 : forall e2 l1 l2, py_items f e1 = Some l1 -> py_items f e2 = Some l2 -> py_items f (e1 ++ e2) = Some (l1 ++ l2).
Proof.
  induction e1 as [|[x|l0 a] e1 IH]; intros e2 l1 l2 H1 H2; simpl in *.
  - inversion H1; subst. auto.
  - destruct (py_items f e1) as [l1'|]; simpl in H1; try discriminate. inversion H1; subst. rewrite (IH e2 l1' l2 eq_refl H2). reflexivity.
  - destruct (f l0 a) as [names|]; try discriminate. destruct (py_items f e1) as [l1'|]; try discriminate. inversion H1; subst.
    rewrite (IH e2 l1' l2 eq_refl H2). rewrite <- app_assoc. reflexivity.
Qed.

Lemma py_items_ext (f g : string -> bool -> option (list string)) its : forall l,
  (forall l0 a names, In (IRef l0 a) its -> f l0 a = Some names -> g l0 a = Some names) ->
  py_items f its = Some l -> py_items g its = Some l.
Proof.
  induction its as [|[x|l0 a] its IH]; intros l Hfg Hf; simpl in *; auto.
  - destruct (py_items f its) as [l'|]; simpl in Hf; try discriminate. rewrite (IH l') by auto. exact Hf.
  - destruct (f l0 a) as [names|] eqn:Ef; try discriminate. destruct (py_items f its) as [l'|]; try discriminate.
    rewrite (Hfg l0 a names (or_introl eq_refl) Ef), (IH l') by auto. exact Hf.
Qed.

Lemma py_items_elems f its : forall l x, py_items f its = Some l -> In x l ->
  In (IStr x) its \/ exists l0 a names, In (IRef l0 a) its /\ f l0 a = Some names /\ In x names.
Proof.
  induction its as [|[y|l0 a] its IH]; intros l x Hf Hx; simpl in *.
  - inversion Hf; subst. contradiction.
  - destruct (py_items f its) as [l'|]; simpl in Hf; try discriminate. inversion Hf; subst. destruct Hx as [Hx|Hx].
    + subst. auto.
    + destruct (IH l' x eq_refl Hx) as [Hi|[l1 [a1 [nm [Hi Hn]]]]]; auto. right. exists l1, a1, nm. auto.
  - destruct (f l0 a) as [names|] eqn:Ef; try discriminate. destruct (py_items f its) as [l'|]; try discriminate. inversion Hf; subst.
    apply in_app_or in Hx. destruct Hx as [Hx|Hx].
    + right. exists l0, a, names. auto.
    + destruct (IH l' x eq_refl Hx) as [Hi|[l1 [a1 [nm [Hi Hn]]]]]; auto. right. exists l1, a1, nm. auto.
Qed.

Lemma exports_scan rest : forall pre pk pm',
  body = pre ++ rest -> py_body ms pt0 mp (mkPy [] None) pre = POk pk -> AccRel (all_items None pre) (pall pk) ->
  py_body ms pt0 mp pk rest = POk pm' -> AccRel (all_items None body) (pall pm').
Proof.
  induction rest as [|s rest IH]; intros pre pk pm' Hb Hpre Hacc Hrest.
  - simpl in Hrest. inversion Hrest; subst pm'. rewrite Hb, app_nil_r. auto.
  - simpl in Hrest. destruct (py_stmt ms pt0 mp pk s) as [pk1|] eqn:Es; try discriminate.
    apply (IH (pre ++ [s]) pk1 pm'); auto.
    + rewrite <- app_assoc. auto.
    + eapply py_body_snoc; eauto.
    + rewrite all_items_app.
      assert (Hs_in : In s body) by (rewrite Hb; apply in_or_app; right; left; auto).
      assert (Hitems : forall its, items_of s = its -> forall l, py_eval_items pt0 (pns pk) its = POk l ->
                py_items psrc its = Some l /\ (forall x, In (IStr x) its -> plain x = true)).
      { intros its Hits l Hev. split.
        - apply (py_items_ext (py_src pt0 (pns pk)) psrc its l); [|apply py_eval_items_is_py_items; auto].
          intros l0 a names Hin Hsrc. apply (ref_psrc pre s rest pk l0 a names Hb); auto. rewrite Hits. auto.
        - intros x Hx. pose proof wf_refs as Hr. rewrite Hb in Hr.
          apply (refs_ok_split pre [] s rest Hr (IStr x)). rewrite Hits. auto. }
      destruct s as [ln x k|ln T x asn bare|ln T|ln T asn|ln its|ln its|ln its]; simpl in Es.
      * inversion Es; subst. simpl. exact Hacc.
      * match type of Es with match ?r with _ => _ end = _ => destruct r as [v0|]; try discriminate end. inversion Es; subst. exact Hacc.
      * destruct (get_py pt0 T); try discriminate. destruct (py_bind_all ms pt0 T _ (pns pk)); try discriminate. inversion Es; subst. exact Hacc.
      * destruct (get_py pt0 T); try discriminate. destruct asn; inversion Es; subst; exact Hacc.
      * destruct (py_eval_items pt0 (pns pk) its) as [l|] eqn:Ev; try discriminate. inversion Es; subst. simpl.
        apply (Hitems its eq_refl l Ev).
      * destruct (pall pk) as [old|] eqn:Ep; try discriminate.
        destruct (py_eval_items pt0 (pns pk) its) as [l|] eqn:Ev; try discriminate. inversion Es; subst. simpl.
        unfold AccRel in Hacc. destruct (all_items None pre) as [e|]; [|contradiction]. destruct Hacc as [He Hpl].
        destruct (Hitems its eq_refl l Ev) as [Hi Hp]. split.
        -- apply py_items_app; auto.
        -- intros x Hx. apply in_app_or in Hx. destruct Hx; auto.
      * destruct (pall pk) as [old|] eqn:Ep; try discriminate.
        destruct (py_eval_items pt0 (pns pk) its) as [l|] eqn:Ev; try discriminate. inversion Es; subst. simpl.
        unfold AccRel in Hacc. destruct (all_items None pre) as [e|]; [|contradiction]. destruct Hacc as [He Hpl].
        destruct (Hitems its eq_refl l Ev) as [Hi Hp]. split.
        -- apply py_items_app; auto.
        -- intros x Hx. apply in_app_or in Hx. destruct Hx; auto.
Qed.

Lemma exports_st0 : exports st0 = all_items None body.
Proof. unfold st0. rewrite attach_exports. unfold visit_body. rewrite visit_exports. reflexivity. Qed.

Lemma exports_rel : AccRel (exports st0) (pall pm).
Proof. rewrite exports_st0. apply (exports_scan body [] (mkPy [] None) pm); auto. simpl. exact I. Qed.

Definition ex1 : option (list item) :=
  match exports st0 with Some ex => Some (sched_exports_items F t top mp st0 ex) | None => None end.

Lemma ex1_ok :
  match ex1, pall pm with
  | None, None => True
  | Some ex', Some l => only_strings ex' /\ forall x, In (IStr x) ex' <-> In x l
  | _, _ => False
  end.
Proof.
  pose proof exports_rel as Hr. unfold ex1, AccRel in *. destruct (exports st0) as [ex|]; destruct (pall pm) as [l|]; auto.
  destruct Hr as [Hi _]. rewrite sched_exports_items_expand.
  destruct (exports_expansion (sched_src F t top mp st0) psrc ex psrc_src [] l Hi) as [Ho Hx].
  { intros r0 a0 Hin. contradiction. }
  split; auto. intros x. rewrite Hx. simpl. tauto.
Qed.

Lemma psrc_plain l a names x : psrc l a = Some names -> In x names -> plain x = true.
Proof.
  assert (G : forall q, pall_of q = Some names -> In x names -> plain x = true).
  { intros q. unfold pall_of. destruct (get_py pt0 q) as [tm|] eqn:Hg; try discriminate. intros Hp Hx.
    destruct (Hdone q tm Hg) as [_ [st [_ Hok]]]. eapply mo_all_plain; eauto. }
  unfold psrc. destruct (ref_module_path mp st0 l a) as [p0|]; try discriminate.
  destruct (lookup_path t top p0) as [q|amp an am| |]; try discriminate.
  - destruct (list_owner F t top q (ref_list_name mp st0 l a)) as [q1|]; try discriminate; eauto.
  - destruct (final F t top am (amp ++ [an])) as [| q |]; try discriminate.
    destruct (list_owner F t top q (ref_list_name mp st0 l a)) as [q1|]; try discriminate; eauto.
Qed.

Lemma pm_all_plain l x : pall pm = Some l -> In x l -> plain x = true.
Proof.
  intros Hp Hx. pose proof exports_rel as Hr. unfold AccRel in Hr. rewrite Hp in Hr.
  destruct (exports st0) as [ex|]; [|contradiction]. destruct Hr as [Hi Hpl].
  destruct (py_items_elems psrc ex l x Hi Hx) as [Hs|[l0 [a [names [_ [Hps Hn]]]]]]; auto. eapply psrc_plain; eauto.
Qed.

Lemma all_items_some l : forall acc ex, all_items acc l = Some ex -> acc <> None \/ exists ln its, In (SSetAll ln its) l.
Proof.
  induction l as [|s l IH]; intros acc ex Ha; simpl in Ha.
  - left. congruence.
  - destruct s as [ln x k|ln T x asn bare|ln T|ln T asn|ln its|ln its|ln its].
    all: try (destruct (IH _ _ Ha) as [Hn|[ln0 [its0 Hin]]]; [left; exact Hn|right; exists ln0, its0; right; exact Hin]).
    + right. exists ln, its. left. reflexivity.
    + destruct (IH _ _ Ha) as [Hn|[ln0 [its0 Hin]]]; [|right; exists ln0, its0; right; exact Hin].
      left. destruct acc; congruence.
    + destruct (IH _ _ Ha) as [Hn|[ln0 [its0 Hin]]]; [|right; exists ln0, its0; right; exact Hin].
      left. destruct acc; congruence.
Qed.

Lemma visit_all_member l : incl l body -> (exists ln its, In (SSetAll ln its) l) ->
  exists ln, lookup "__all__" (members (visit_body mp is_init l)) = Some (MObj KAttr ln).
Proof.
  induction l as [|s l IH] using rev_ind; intros Hincl [ln [its Hin]]; [contradiction|].
  rewrite visit_body_snoc, visit_members.
  assert (Hs : In s body) by (apply Hincl; apply in_or_app; right; left; auto).
  assert (Hl : incl l body) by (intros x Hx; apply Hincl; apply in_or_app; auto).
  pose proof (wf_stmt_ok s Hs) as Hok.
  assert (Hrec : (forall ln0 its0, s <> SSetAll ln0 its0) -> exists ln0, lookup "__all__" (members (visit_body mp is_init l)) = Some (MObj KAttr ln0)).
  { intros Hns. apply IH; auto. apply in_app_or in Hin. destruct Hin as [Hin|[Hin|[]]]; eauto. exfalso. eapply Hns; eauto. }
  destruct s as [ln0 x k|ln0 T x asn bare|ln0 T|ln0 T asn|ln0 its0|ln0 its0|ln0 its0]; simpl bind_of.
  - cbv beta iota. rewrite lookup_assign_other; [apply Hrec; discriminate|]. simpl in Hok. apply andb_true_iff in Hok. destruct Hok as [Hpl _].
    intros Heq. subst. vm_compute in Hpl. discriminate.
  - destruct (bare && is_init && match asn with None => true | Some _ => false end); [apply Hrec; discriminate|].
    destruct (path_eqb _ _); [apply Hrec; discriminate|]. cbv beta iota.
    rewrite lookup_assign_other; [apply Hrec; discriminate|].
    simpl in Hok. apply andb_true_iff in Hok. destruct Hok as [Hok _]. apply andb_true_iff in Hok. destruct Hok as [Hok _].
    apply andb_true_iff in Hok. destruct Hok as [Hpl _]. intros Heq. rewrite Heq in Hpl. vm_compute in Hpl. discriminate.
  - cbv beta iota. rewrite lookup_assign_other; [apply Hrec; discriminate|]. intros Heq.
    pose proof (star_name_ends_star T) as He. rewrite Heq in He. vm_compute in He. discriminate.
  - simpl in Hok. apply andb_true_iff in Hok. destruct Hok as [Hpl _].
    destruct asn; cbv beta iota; (rewrite lookup_assign_other; [apply Hrec; discriminate|]); intros Heq; rewrite Heq in Hpl; vm_compute in Hpl; discriminate.
  - cbv beta iota. exists ln0. apply lookup_assign_same.
  - apply Hrec. discriminate.
  - apply Hrec. discriminate.
Qed.

Lemma pm_all_member : pall pm <> None -> exists ln, lookup "__all__" ms2 = Some (MObj KAttr ln).
Proof.
  intros Hp. pose proof exports_rel as Hr. unfold AccRel in Hr. rewrite exports_st0 in Hr.
  destruct (all_items None body) as [ex|] eqn:Ea; [|destruct (pall pm); [contradiction|congruence]].
  destruct (all_items_some body None ex Ea) as [Hn|Hex]; [congruence|].
  rewrite ms2_all. apply visit_all_member; auto. apply incl_refl.
Qed.

(* a name the visitor recorded as imported is bound at run time *)
Lemma pm_imports n : mem_str n (imports st0) = true -> lookup n (pns pm) <> None.
Proof.
  intros Hi. apply mem_str_In in Hi. unfold st0 in Hi. rewrite attach_imports in Hi. unfold visit_body in Hi.
  apply visit_imports_bound in Hi. destruct Hi as [Hi|[s [Hs [Hb Hnd]]]]; [contradiction|].
  (* the statement s binds n when it runs, and bindings are never removed *)
  assert (G : forall l pk pm', py_body ms pt0 mp pk l = POk pm' -> (lookup n (pns pk) <> None \/ In s l) -> lookup n (pns pm') <> None).
  { induction l as [|s0 l IH]; intros pk pm' Hpb Hor; simpl in Hpb.
    - inversion Hpb; subst. destruct Hor as [Hor|[]]. auto.
    - destruct (py_stmt ms pt0 mp pk s0) as [pk1|] eqn:Es; try discriminate. apply (IH pk1 pm' Hpb).
      assert (Hkeep : lookup n (pns pk) <> None -> lookup n (pns pk1) <> None).
      { intros Hk. destruct s0 as [ln x k|ln T x asn bare|ln T|ln T asn|ln its|ln its|ln its]; simpl in Es.
        - inversion Es; subst. simpl. destruct (string_dec x n); [subst; rewrite lookup_assign_same; discriminate|rewrite lookup_assign_other; auto].
        - match type of Es with match ?r with _ => _ end = _ => destruct r as [v0|]; try discriminate end. inversion Es; subst. simpl.
          match goal with |- lookup n (assign ?a _ _) <> None => destruct (string_dec a n) as [E|E]; [rewrite E, lookup_assign_same; discriminate|rewrite lookup_assign_other; auto] end.
        - destruct (get_py pt0 T) as [tm|]; try discriminate. destruct (py_bind_all ms pt0 T (py_star_names tm) (pns pk)) as [ns'|] eqn:Eb; try discriminate.
          inversion Es; subst. simpl. destruct (py_bind_all_lookup ms pt0 T _ _ _ Eb n) as [Hin Hout].
          destruct (in_dec string_dec n (py_star_names tm)) as [Hn|Hn].
          + destruct (Hin Hn) as [v [_ Hl]]. rewrite Hl. discriminate.
          + rewrite (Hout Hn). auto.
        - destruct (get_py pt0 T); try discriminate.
          destruct asn; inversion Es; subst; simpl;
            match goal with |- lookup n (assign ?a _ _) <> None => destruct (string_dec a n) as [E|E]; [rewrite E, lookup_assign_same; discriminate|rewrite lookup_assign_other; auto] end.
        - destruct (py_eval_items pt0 (pns pk) its); try discriminate. inversion Es; subst. auto.
        - destruct (pall pk); try discriminate. destruct (py_eval_items pt0 (pns pk) its); try discriminate. inversion Es; subst. auto.
        - destruct (pall pk); try discriminate. destruct (py_eval_items pt0 (pns pk) its); try discriminate. inversion Es; subst. auto. }
      destruct Hor as [Hor|[Hor|Hor]]; auto.
      subst s0. left. destruct s as [ln x k|ln T x asn bare|ln T|ln T asn|ln its|ln its|ln its]; simpl in Hb; try discriminate; simpl in Es.
      + exfalso. eapply Hnd; eauto.
      + match type of Es with match ?r with _ => _ end = _ => destruct r as [v0|]; try discriminate end. inversion Es; subst. simpl.
        inversion Hb as [Hbn]. rewrite lookup_assign_same. discriminate.
      + destruct (get_py pt0 T); try discriminate. inversion Hb as [Hbn].
        destruct asn; inversion Es; subst; simpl; rewrite lookup_assign_same; discriminate. }
  apply (G body (mkPy [] None) pm Hpy). right. auto.
Qed.

End Executed.
