(* C01 proofs, visibility: the ladders generated from mixins.py equal the documented table on every input.
   Reflection over the finite input domain (3 * 2^10 * 5 = 15360 inputs), lifted to a universally quantified statement. *)
From Coq Require Import List Bool String.
From Verif Require Import Model.C01_base Gen.C01_tables Model.C01_visitor.
Import ListNotations.

Definition fa_b (f : bool -> bool) : bool := f true && f false.
Definition fa_ob (f : option bool -> bool) : bool := f None && f (Some true) && f (Some false).
Definition fa_ex (f : option (bool * bool) -> bool) : bool :=
  f None && f (Some (true, true)) && f (Some (true, false)) && f (Some (false, true)) && f (Some (false, false)).

Lemma fa_b_spec : forall f, fa_b f = true -> forall b, f b = true.
Proof. unfold fa_b; intros f H b. apply andb_prop in H. destruct H, b; assumption. Qed.
Lemma fa_ob_spec : forall f, fa_ob f = true -> forall b, f b = true.
Proof.
  unfold fa_ob; intros f H b. apply andb_prop in H. destruct H as [H H2]. apply andb_prop in H. destruct H.
  destruct b as [[|]|]; assumption.
Qed.
Lemma fa_ex_spec : forall f, fa_ex f = true -> forall b, f b = true.
Proof.
  unfold fa_ex; intros f H b.
  apply andb_prop in H. destruct H as [H H5]. apply andb_prop in H. destruct H as [H H4].
  apply andb_prop in H. destruct H as [H H3]. apply andb_prop in H. destruct H as [H1 H2].
  destruct b as [[[|] [|]]|]; assumption.
Qed.

Definition fa_vin (P : vin -> bool) : bool :=
  fa_ob (fun pub => fa_b (fun al => fa_b (fun mo => fa_b (fun us => fa_b (fun dus => fa_b (fun due =>
  fa_b (fun par => fa_b (fun pm => fa_b (fun pc => fa_ex (fun ex => fa_b (fun imp => fa_b (fun rt =>
    P (mkVin pub al mo us dus due par pm pc ex imp rt))))))))))))).

Lemma fa_vin_spec : forall P, fa_vin P = true -> forall i, P i = true.
Proof.
  intros P H [pub al mo us dus due par pm pc ex imp rt]. unfold fa_vin in H.
  pose proof (fa_ob_spec _ H pub) as H1.
  pose proof (fa_b_spec _ H1 al) as H2. pose proof (fa_b_spec _ H2 mo) as H3. pose proof (fa_b_spec _ H3 us) as H4.
  pose proof (fa_b_spec _ H4 dus) as H5. pose proof (fa_b_spec _ H5 due) as H6. pose proof (fa_b_spec _ H6 par) as H7.
  pose proof (fa_b_spec _ H7 pm) as H8. pose proof (fa_b_spec _ H8 pc) as H9. pose proof (fa_ex_spec _ H9 ex) as H10.
  pose proof (fa_b_spec _ H10 imp) as H11. exact (fa_b_spec _ H11 rt).
Qed.

Definition tb_is (a : tb) (b : bool) : bool := match a with Some x => Bool.eqb x b | None => false end.
Lemma tb_is_true : forall a b, tb_is a b = true -> a = Some b.
Proof. intros [x|] b H; simpl in H; [|discriminate]. apply eqb_prop in H. congruence. Qed.

(* hyp i = true -> ladder i = Some (doc i), from one vm_compute over the whole domain *)
Lemma lift_table : forall (hyp : vin -> bool) (ladder : vin -> tb) (doc : vin -> bool),
  fa_vin (fun i => implb (hyp i) (tb_is (ladder i) (doc i))) = true ->
  forall i, hyp i = true -> ladder i = Some (doc i).
Proof.
  intros hyp ladder doc H i Hi. pose proof (fa_vin_spec _ H i) as E. cbv beta in E. rewrite Hi in E. simpl in E.
  apply tb_is_true. exact E.
Qed.

Lemma vis_special : forall i, is_special i = Some (doc_is_special i).
Proof. intros. apply (lift_table (fun _ => true) is_special doc_is_special); [vm_compute|]; reflexivity. Qed.
Lemma vis_private : forall i, is_private i = Some (doc_is_private i).
Proof. intros. apply (lift_table (fun _ => true) is_private doc_is_private); [vm_compute|]; reflexivity. Qed.
Lemma vis_class_private : forall i, is_class_private i = Some (doc_is_class_private i).
Proof. intros. apply (lift_table (fun _ => true) is_class_private doc_is_class_private); [vm_compute|]; reflexivity. Qed.
Lemma vis_imported : forall i, is_imported i = Some (doc_is_imported i).
Proof. intros. apply (lift_table (fun _ => true) is_imported doc_is_imported); [vm_compute|]; reflexivity. Qed.
Lemma vis_exported : forall i, vin_consistent i = true -> is_exported i = Some (doc_is_exported i).
Proof. intros i Hc. apply (lift_table vin_consistent is_exported doc_is_exported); [vm_compute; reflexivity|exact Hc]. Qed.
Lemma vis_wildcard : forall i, vin_consistent i = true -> is_wildcard_exposed i = Some (doc_is_wildcard_exposed i).
Proof. intros i Hc. apply (lift_table vin_consistent is_wildcard_exposed doc_is_wildcard_exposed); [vm_compute; reflexivity|exact Hc]. Qed.
Lemma vis_public : forall i, vin_consistent i = true -> is_public i = Some (doc_is_public i).
Proof. intros i Hc. apply (lift_table vin_consistent is_public doc_is_public); [vm_compute; reflexivity|exact Hc]. Qed.

(* regression example: a public-named function in a module with __all__ = [] is not public (was finding F4) *)
Definition empty_all_vin : vin := mkVin None false false false false false true true false (Some (false, false)) false true.
Example empty_all_not_public : vin_consistent empty_all_vin = true /\ is_public empty_all_vin = Some false.
Proof. vm_compute. auto. Qed.

(* ---- statements packaged for Properties/C01.v ---- *)
Lemma visibility_table_names : forall i,
  is_special i = Some (doc_is_special i) /\ is_private i = Some (doc_is_private i) /\
  is_class_private i = Some (doc_is_class_private i) /\ is_imported i = Some (doc_is_imported i).
Proof. intro i. repeat split. exact (vis_special i). exact (vis_private i). exact (vis_class_private i). exact (vis_imported i). Qed.

Lemma visibility_table : forall i, vin_consistent i = true ->
  is_exported i = Some (doc_is_exported i) /\ is_wildcard_exposed i = Some (doc_is_wildcard_exposed i) /\
  is_public i = Some (doc_is_public i).
Proof. intros i Hc. repeat split. exact (vis_exported i Hc). exact (vis_wildcard i Hc). exact (vis_public i Hc). Qed.
