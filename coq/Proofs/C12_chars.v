(* C12, character level: the item-level parsing never fails.
   For every docstring given as characters (every list of lines of characters, whatever the harness put into the
   fields of non-ASCII characters), every option set and every parent: the Google parse returns sections AND the
   items of every item section (no lines[0] / lines[i] look-up fails); same for Numpy under the cleandoc
   post-condition; the Sphinx field parser is a total function by construction.  The line features are computed
   from the characters inside the model, so these statements no longer rest on a feature extractor outside Coq. *)
From Coq Require Import List NArith ZArith String Ascii Bool Arith Lia.
From Verif Require Import Lib.Sexp Model.C12_regex Gen.C12_regexes Gen.C12_tables
     Model.C12_docstrings Proofs.C12_docstrings Model.C12_chars.
Import ListNotations.
Open Scope list_scope.
Open Scope nat_scope.

(* ---------------- small facts ---------------- *)
Lemma split_list_nonempty : forall c t, split_list c t <> [].
Proof. intros c t. unfold split_list. destruct (split_all c t). discriminate. Qed.

Lemma frev_rev : forall {A} (l : list A), frev l = rev l.
Proof. intros A l. unfold frev. rewrite rev_append_rev. apply app_nil_r. Qed.

Lemma map_result_ok :
  forall {A B} (f : A -> result B) l,
    Forall (fun x => exists y, f x = Ok y) l -> exists ys, map_result f l = Ok ys.
Proof.
  intros A B f l H. induction H as [|x l [y Hy] _ [ys IH]]; simpl.
  - eauto.
  - rewrite Hy, IH. eauto.
Qed.

(* ---------------- Google ---------------- *)
Lemma g_block_items_ok :
  forall cl fs off items o', g_read_block_items fs off = Ok (items, o') ->
    exists r, g_block_items cl fs off = Ok r.
Proof.
  intros cl fs off items o' H. unfold g_block_items. rewrite H.
  destruct items as [|[o b] r]; eauto.
Qed.

Lemma g_items_maybe_full_ok :
  forall cl fs off mult items o', g_items_maybe fs off mult = Ok (items, o') ->
    exists r, g_items_maybe_full cl fs off mult = Ok r.
Proof.
  intros cl fs off mult items o' H. unfold g_items_maybe in H. unfold g_items_maybe_full.
  destruct mult.
  - eapply g_block_items_ok; eauto.
  - unfold g_block_text. destruct (g_read_block fs off) as [[x o2]|e]; [|discriminate].
    destruct x as [[[f la] ind]|]; [|eauto].
    match goal with |- context [match ?t with [] => _ | _ :: _ => _ end] => destruct t as [|c0 t0] eqn:T end; [eauto|].
    destruct (split_list 10 (c0 :: t0)) as [|l0 r] eqn:S; [|eauto].
    exfalso. eapply split_list_nonempty; eauto.
Qed.

(* the item-level reader succeeds wherever the control-flow reader did *)
Lemma g_section_items_ok :
  forall cl fs o k hdr n off', g_reader fs o k (S hdr) = Ok (n, off') ->
    exists r, g_section_items cl fs o k hdr = Ok r.
Proof.
  intros cl fs o k hdr n off' H. unfold g_reader in H. unfold g_section_items.
  destruct k;
    try (destruct (g_read_block_items fs (S hdr)) as [[items o2]|e] eqn:E; [|discriminate];
         destruct (g_block_items_ok cl fs (S hdr) items o2 E) as [r Hr]; rewrite Hr; eauto);
    try (eauto; fail).
  - unfold g_block_text. destruct (g_read_block fs (S hdr)) as [[x o2]|e]; [|discriminate].
    destruct x as [[[f la] ind]|]; eauto.
  - destruct (g_items_maybe fs (S hdr) (o_ret_multi o)) as [[items o2]|e] eqn:E; [|discriminate].
    destruct (g_items_maybe_full_ok cl fs (S hdr) _ items o2 E) as [r Hr]. rewrite Hr. eauto.
  - destruct (g_items_maybe fs (S hdr) (o_ret_multi o)) as [[items o2]|e] eqn:E; [|discriminate].
    destruct (g_items_maybe_full_ok cl fs (S hdr) _ items o2 E) as [r Hr]. rewrite Hr. eauto.
  - destruct (g_items_maybe fs (S hdr) (o_rec_multi o)) as [[items o2]|e] eqn:E; [|discriminate].
    destruct (g_items_maybe_full_ok cl fs (S hdr) _ items o2 E) as [r Hr]. rewrite Hr. eauto.
Qed.

(* what the main loop keeps true of the sections it has produced: every item section was produced by a reader call
   that succeeded at the line below its header; no text section is marked as split *)
Definition g_sec_ok (fs : list lf) (o : gopts) (s : section) : Prop :=
  match s with
  | SSec k h n => exists off', g_reader fs o k (S h) = Ok (n, off')
  | SText _ _ sp => sp = false
  | _ => True
  end.
Definition g_rd_inv (fs : list lf) (o : gopts) (st : gst) : Prop := Forall (g_sec_ok fs o) (g_secs st).

Lemma flush_text_rd :
  forall fs o cur secs, Forall (g_sec_ok fs o) secs -> Forall (g_sec_ok fs o) (flush_text cur secs).
Proof.
  intros fs o cur secs H. unfold flush_text. destruct cur as [|e c]; [exact H|].
  destruct (any_nonnull (e :: c)); [|exact H]. constructor; [reflexivity|exact H].
Qed.

Lemma g_rd_step :
  forall fs o st st', g_rd_inv fs o st -> g_step fs o st = Next st' -> g_rd_inv fs o st'.
Proof.
  intros fs o st st' I H. unfold g_rd_inv in *. unfold g_step in H. cbv zeta in H.
  destruct (nth_error fs (g_off st)) as [l|] eqn:N; [|discriminate].
  repeat break_match_in H; try discriminate; inversion H; subst; cbn [g_secs];
    try exact I;
    try (constructor; [cbn [g_sec_ok]; eauto|apply flush_text_rd; exact I]);
    try (apply flush_text_rd; exact I).
Qed.

Lemma g_finish_shape :
  forall fs o p st, g_rd_inv fs o st ->
    let secs := g_finish o p st in
    (Forall (g_sec_ok fs o) secs) \/
    (exists ls rest, secs = SText ls true true :: rest ++ [SSec KReturns 0 1] /\ Forall (g_sec_ok fs o) rest).
Proof.
  intros fs o p st I. unfold g_finish. cbv zeta.
  set (secs0 := rev match g_cur st with [] => g_secs st | e :: c => mk_text (e :: c) :: g_secs st end).
  assert (F0 : Forall (g_sec_ok fs o) secs0).
  { subst secs0. apply Forall_rev. destruct (g_cur st) as [|e c]; [exact I|]. constructor; [reflexivity|exact I]. }
  destruct (o_ret_prop o && p_property p); [|left; exact F0].
  destruct secs0 as [|s rest] eqn:E; [left; constructor|].
  destruct s as [ls fc sp| | |]; try (left; exact F0).
  destruct fc; [|left; exact F0]. destruct sp; [left; exact F0|].
  right. exists ls, rest. split; [reflexivity|]. inversion F0; assumption.
Qed.

Lemma removelast_app_single : forall {A} (l : list A) x, removelast (l ++ [x]) = l.
Proof. intros A l x. rewrite removelast_app by discriminate. simpl. apply app_nil_r. Qed.

Lemma g_details_ok :
  forall cl fs o secs,
    (Forall (g_sec_ok fs o) secs \/
     exists ls rest, secs = SText ls true true :: rest ++ [SSec KReturns 0 1] /\ Forall (g_sec_ok fs o) rest) ->
    exists d, g_details cl fs o secs = Ok d.
Proof.
  intros cl fs o secs H.
  assert (ORD : forall l, Forall (g_sec_ok fs o) l ->
            exists ys, map_result (fun s => match s with
                                            | SSec k hdr _ => g_section_items cl fs o k hdr
                                            | _ => Ok []
                                            end) l = Ok ys).
  { intros l F. apply map_result_ok. eapply Forall_impl; [|exact F].
    intros s Hs. destruct s as [ls fc sp|h f la i|h ls|k h n]; eauto.
    destruct Hs as [off' Hr]. eapply g_section_items_ok; eauto. }
  unfold g_details. destruct H as [F|(ls & rest & -> & F)].
  - destruct secs as [|s r]; [apply ORD; exact F|].
    destruct s as [ls fc sp| | |]; try (apply ORD; exact F).
    destruct sp; [|apply ORD; exact F].
    inversion F as [|? ? Hs _]; subst. simpl in Hs. discriminate.
  - change (SText ls true true :: rest ++ [SSec KReturns 0 1]) with ((SText ls true true :: rest) ++ [SSec KReturns 0 1]).
    rewrite removelast_app_single.
    assert (F' : Forall (g_sec_ok fs o) (SText ls true false :: rest)) by (constructor; [reflexivity|exact F]).
    destruct (ORD _ F') as [ys Hy]. simpl in Hy. simpl.
    destruct (map_result _ rest) as [d|e]; [|discriminate]. eauto.
Qed.

Lemma google_full_total : forall cl o p, exists r, g_parse_full cl o p = Ok r.
Proof.
  intros cl o p. unfold g_parse_full. cbv zeta.
  set (fs := features cl).
  destruct (google_total fs o p) as [secs G]. rewrite G.
  assert (H : exists d, g_details cl fs o secs = Ok d).
  { apply g_details_ok.
    unfold g_parse in G.
    destruct (iter (g_step fs o) (S (List.length fs)) (mkGst (g_start o p) false [] [])) as [st|e] eqn:I; [|discriminate].
    inversion G; subst secs.
    apply (iter_invariant gst (g_step fs o) (g_rd_inv fs o)) in I.
    - destruct I as (s0 & I0 & D). apply g_step_done in D. destruct D as [-> _].
      apply g_finish_shape. exact I0.
    - intros s s' Hs E. exact (g_rd_step fs o s s' Hs E).
    - constructor. }
  destruct H as [d Hd]. rewrite Hd. eauto.
Qed.

(* ---------------- Numpy ---------------- *)
(* the start lines recorded by n_items_idx are those of the items n_items_loop counts: same recursion *)
Lemma n_items_idx_loop :
  forall rest o cur acc cur' acc',
    List.length acc = List.length acc' ->
    List.length (fst (n_items_idx rest o cur acc)) = List.length (fst (n_items_loop rest o cur' acc')) /\
    snd (n_items_idx rest o cur acc) = snd (n_items_loop rest o cur' acc').
Proof.
  induction rest as [|l r IH]; intros o cur acc cur' acc' L; cbn [n_items_idx n_items_loop].
  - cbn [fst snd]. rewrite frev_rev. rewrite !rev_length. simpl. auto.
  - destruct (blank l); [apply IH; exact L|].
    destruct (4 <=? sp l); [apply IH; exact L|].
    destruct (1 <=? sp l); [apply IH; exact L|].
    destruct (next_is_dash r).
    + cbn [fst snd]. rewrite frev_rev. rewrite !rev_length. simpl. auto.
    + apply IH. simpl. auto.
Qed.

Lemma n_block_idx_ok :
  forall fs off, (exists r, n_read_block_items fs off = Ok r) -> exists r, n_block_idx fs off = Ok r.
Proof.
  intros fs off [r H]. unfold n_read_block_items in H. unfold n_block_idx.
  destruct (List.length fs <=? off); [eauto|].
  destruct (skip_blank (skipn off fs) off) as [[[o l] rest]|]; [|discriminate].
  destruct (n_items_idx rest (S o) o []). eauto.
Qed.

Lemma n_read_block_items_of_block :
  forall fs off r, n_read_block fs off = Ok r -> exists r', n_read_block_items fs off = Ok r'.
Proof.
  intros fs off r H. unfold n_read_block in H. unfold n_read_block_items.
  destruct (List.length fs <=? off); [eauto|].
  destruct (skip_blank (skipn off fs) off) as [[[o l] rest]|]; [|discriminate].
  destruct (n_items_loop rest (S o) (npnames l) []). eauto.
Qed.

Lemma n_section_items_ok :
  forall cl fs trim k hdr n off', n_reader fs k (S (S hdr)) = Ok (n, off') ->
    exists r, n_section_items cl fs trim k hdr = Ok r.
Proof.
  intros cl fs trim k hdr n off' H.
  assert (B : exists r, n_block_idx fs (S (S hdr)) = Ok r).
  { apply n_block_idx_ok. unfold n_reader in H.
    destruct k;
      try (destruct (n_read_block_items fs (S (S hdr))) as [r|e]; [eauto|discriminate]).
    destruct (n_read_block fs (S (S hdr))) as [r|e] eqn:E; [|discriminate].
    eapply n_read_block_items_of_block; eauto. }
  destruct B as [[starts off2] B]. unfold n_section_items, n_block_items. rewrite B.
  destruct k; eauto.
  (* Examples: the block text *)
  unfold n_block_text. unfold n_block_idx in B.
  destruct (List.length fs <=? S (S hdr)); [eauto|].
  destruct (skip_blank (skipn (S (S hdr)) fs) (S (S hdr))) as [[[o l] rest]|]; [eauto|discriminate].
Qed.

Definition n_sec_ok (fs : list lf) (s : section) : Prop :=
  match s with
  | SSec k h n => exists off', n_reader fs k (S (S h)) = Ok (n, off')
  | _ => True
  end.
Definition n_rd_inv (fs : list lf) (st : nst) : Prop := Forall (n_sec_ok fs) (n_secs st).

Lemma n_append_rd :
  forall fs secs cur adm, Forall (n_sec_ok fs) secs -> Forall (n_sec_ok fs) (n_append secs cur adm).
Proof.
  intros fs secs cur adm H. unfold n_append. destruct adm; [constructor; [exact I|exact H]|].
  destruct cur as [|e c]; [exact H|]. destruct (any_nonnull (e :: c)); [|exact H]. constructor; [exact I|exact H].
Qed.

Lemma n_rd_step :
  forall fs st st', n_rd_inv fs st -> n_step fs st = Next st' -> n_rd_inv fs st'.
Proof.
  intros fs st st' Inv H. unfold n_rd_inv in *. unfold n_step in H. cbv zeta in H.
  destruct (nth_error fs (n_off st)) as [l|] eqn:N; [|discriminate].
  repeat break_match_in H; try discriminate; inversion H; subst; cbn [n_secs];
    try exact Inv;
    try (constructor; [cbn [n_sec_ok]; eauto|apply n_append_rd; exact Inv]);
    try (apply n_append_rd; exact Inv).
Qed.

Lemma numpy_full_total :
  forall cl o p, cleandoc_post (features cl) = true -> exists r, n_parse_full cl o p = Ok r.
Proof.
  intros cl o p Post. unfold n_parse_full. cbv zeta.
  set (fs := features cl) in *.
  destruct (numpy_total fs o p Post) as [secs G]. rewrite G.
  assert (H : exists d, n_details cl fs (o_trim o) secs = Ok d).
  { unfold n_details. apply map_result_ok.
    unfold n_parse in G.
    destruct (iter (n_step fs) (S (List.length fs)) (mkNst (g_start o p) false [] None [])) as [st|e] eqn:I; [|discriminate].
    inversion G; subst secs.
    apply (iter_invariant nst (n_step fs) (n_rd_inv fs)) in I.
    - destruct I as (s0 & I0 & D). apply n_step_done in D. destruct D as [-> _].
      assert (F : Forall (n_sec_ok fs) (n_finish s0)).
      { unfold n_finish. apply Forall_rev. unfold n_rd_inv in I0.
        destruct (n_adm s0); [apply n_append_rd; exact I0|].
        destruct (n_cur s0) as [|e c]; [apply n_append_rd; exact I0|]. constructor; [exact I|exact I0]. }
      eapply Forall_impl; [|exact F].
      intros s Hs. destruct s as [ls fc sp|h f la i|h ls|k h n]; eauto.
      destruct Hs as [off' Hr]. eapply n_section_items_ok; eauto.
    - intros s s' Hs E. exact (n_rd_step fs s s' Hs E).
    - constructor. }
  destruct H as [d Hd]. rewrite Hd. eauto.
Qed.

(* ---------------- non-vacuity ---------------- *)
Definition str_text (s : string) : text := map (fun a => ascii_ch (N_of_ascii a)) (list_ascii_of_string s).
Definition codes (t : text) : list N := map cp t.

Example google_full_example :
  match g_parse_full (map str_text ["Summary."; ""; "Returns:"; "    name (int): The value"; "        of it."]%string)
                     gopts_default no_parent with
  | Ok (secs, [_; [(name, Some ann, Some desc)]]) =>
      codes name = codes (str_text "name") /\ codes ann = codes (str_text "int") /\
      codes desc = codes (str_text "The value") ++ [10%N] ++ codes (str_text "of it.")
  | _ => False
  end.
Proof. vm_compute. repeat split. Qed.

Example numpy_full_example :
  match n_parse_full (map str_text ["Summary."; ""; "Parameters"; "----------"; "a, b : int, optional"; "    Both."]%string)
                     gopts_default no_parent with
  | Ok (secs, [_; [(n1, Some a1, Some d1); (n2, Some a2, Some d2)]]) =>
      codes n1 = codes (str_text "a") /\ codes n2 = codes (str_text "b") /\
      codes a1 = codes (str_text "int") /\ codes d2 = codes (str_text "Both.")
  | _ => False
  end.
Proof. vm_compute. repeat split. Qed.

Example sphinx_full_example :
  let v := s_parse_full (mkParentAnn [] [] false)
                        (map str_text ["Summary."; ":param int x: The"; "   value."; ":type y: int or str"; ":param y: Other."]%string) in
  map (fun e => (codes (fst (fst e)), codes (snd e))) (rev (sv_params v)) =
    [(codes (str_text "x"), codes (str_text "The value.")); (codes (str_text "y"), codes (str_text "Other."))] /\
  match sv_params v with
  | (_, SAStr t, _) :: _ => codes t = codes (str_text "int | str")
  | _ => False
  end.
Proof. vm_compute. repeat split. Qed.

(* ---------------- the subjects the model runs on are well-formed ---------------- *)
From Verif Require Import Model.C12_run Proofs.C12_regex2.

Lemma ascii_ch_wf : forall c, (c < 128)%N -> ch_wf (ascii_ch c) = true.
Proof.
  intros c L. unfold ch_wf, ascii_ch. cbn [cp c_word c_space c_digit c_ci c_low].
  apply N.ltb_lt in L. rewrite L. rewrite !Bool.eqb_reflx, !N.eqb_refl. reflexivity.
Qed.

Lemma map_opt_forall :
  forall {A B} (f : A -> option B) (P : B -> Prop),
    (forall a b, f a = Some b -> P b) -> forall l r, map_opt f l = Some r -> Forall P r.
Proof.
  intros A B f P H. induction l as [|a l IH]; intros r E; simpl in E.
  - inversion E. constructor.
  - destruct (f a) as [b|] eqn:Fa; [|discriminate]. destruct (map_opt f l) as [bs|] eqn:Fl; [|discriminate].
    inversion E; subst. constructor; [eapply H; eauto|apply IH; reflexivity].
Qed.

Lemma dec_ch_wf : forall s x, dec_ch s = Some x -> ch_wf x = true.
Proof.
  intros s x H. unfold dec_ch in H. destruct s as [z|str|l].
  - destruct (as_N (SInt z)) as [c|]; [|discriminate]. destruct (N.ltb c 128) eqn:L; [|discriminate].
    inversion H; subst. apply ascii_ch_wf. apply N.ltb_lt. exact L.
  - discriminate.
  - repeat (match type of H with context [match ?t with _ => _ end] => destruct t eqn:?; try discriminate end).
    inversion H; subst. assumption.
Qed.

Theorem dec_text_wf : forall s t, dec_text s = Some t -> wf_text t.
Proof.
  intros s t H. unfold dec_text in H. destruct s as [z|str|l]; [discriminate| |].
  - eapply map_opt_forall; [|exact H]. intros a b E. cbv beta in E.
    destruct (N.ltb (Ascii.N_of_ascii a) 128) eqn:L; [|discriminate]. inversion E; subst.
    apply ascii_ch_wf. apply N.ltb_lt. exact L.
  - eapply map_opt_forall; [|exact H]. intros a b E. eapply dec_ch_wf; eauto.
Qed.
