(* C08 proofs, full mode with computed derived values (Model/C08_full.v). *)
From Coq Require Import List ZArith String Ascii Bool Arith Lia.
From Verif Require Import Lib.Sexp Gen.C08_tables Model.C08_json Model.C08_full Proofs.C08_json.
Import ListNotations.
Open Scope string_scope.
Open Scope list_scope.
Open Scope nat_scope.

(* ------------------------------------------------------------------------------------------------ *)
(* 1. Generic encoder: whatever the derived values, a full document decodes to [reload t]            *)

Definition res_decodes (r : res json) : Prop := forall j, r = Ok j -> exists v, decode j = Ok v.
Definition ginfo_ok (gi : ginfo) : Prop :=
  res_decodes (g_filepath gi) /\ res_decodes (g_relative gi) /\ res_decodes (g_relative_package gi) /\
  sections_decode (g_parsed gi) /\ (forall n secs, lookup n (g_param_parsed gi) = Some secs -> sections_decode secs).

Lemma dec_param_g gi p : ginfo_ok gi -> wf_param p = true -> decode (enc_param_g gi p) = Ok (PParam (reload_param p)).
Proof.
  intros (_ & _ & _ & _ & Hp) Hwf. destruct p as [n a k df doc]. unfold enc_param_g. cbn [p_name p_annotation p_kind p_default p_doc].
  set (secs := match lookup n (g_param_parsed gi) with Some s => s | None => [] end).
  assert (Hs : sections_decode secs).
  { unfold secs. destruct (lookup n (g_param_parsed gi)) eqn:E; [eapply Hp; exact E|constructor]. }
  destruct (dec_doc_full secs Hs) as [secs' Hd].
  apply (dec_param_gen (enc_doc_full secs) (ddocF secs')); [exact Hd| |exact Hwf].
  intros D d. apply load_docstring_lookupF.
Qed.

Lemma dec_extra_g gi x : ginfo_ok gi -> wf_extra x = true -> mapM dec_kv (enc_extra_g gi x) = Ok (dextra x).
Proof.
  intros Hgi Hx. destruct x as [fp|bases decos|decos params ret|v a]; try (apply dec_extra; assumption).
  simpl wf_extra in Hx. apply andb_true_iff in Hx as [H Hr]. apply andb_true_iff in H as [Hd Hp]. cbn [enc_extra_g dextra].
  rewrite !mapM_cons, mapM_nil. cbn [dec_kv].
  rewrite (dec_deco_list _ Hd), (slot_roundtrip _ Hr).
  rewrite decode_arr, mapM_map. rewrite forallb_forall in Hp.
  rewrite (mapM_ok_in _ (fun p => PParam (reload_param p))); [reflexivity|]. intros p Hin. apply dec_param_g; auto.
Qed.

Lemma set_key'_eq k v l : set_key' k v l = set_key k v l.
Proof. induction l as [|[k' v'] r IH]; [reflexivity|]. cbn [set_key' set_key]. rewrite IH. reflexivity. Qed.

Section GenProofs.
  Context {C : Type}.
  Context (G : C -> tree -> ginfo) (down : C -> tree -> C) (prefix_of : C -> string).
  Context (HG : forall c t, ginfo_ok (G c t)).

  Lemma members_full_decodeG (c' : C) ms ms' :
    mapM (fun km : string * tree => let (k, m) := km in bind (enc_fullG G down prefix_of c' m) (fun j => Ok (k, j))) ms = Ok ms' ->
    (forall km, In km ms -> forall j, enc_fullG G down prefix_of c' (snd km) = Ok j -> decode j = Ok (PTree (reload (snd km)))) ->
    decode (JObj ms') = Ok (PDict (dmembers ms)).
  Proof.
    intros Hm IH. rewrite decode_obj.
    assert (H : mapM dec_kv ms' = Ok (dmembers ms)).
    { revert ms' Hm. induction ms as [|[k m] r IHr]; intros ms' Hm.
      - rewrite mapM_nil in Hm. inversion Hm. reflexivity.
      - rewrite mapM_cons in Hm. destruct (enc_fullG G down prefix_of c' m) as [jm|] eqn:Em; [|discriminate]. cbn [bind] in Hm.
        match type of Hm with context [mapM ?f r] => destruct (mapM f r) as [r'|] eqn:Er; [|discriminate] end.
        cbn [bind] in Hm. inversion Hm; subst ms'.
        rewrite mapM_cons. cbn [dec_kv]. rewrite (IH (k, m) (or_introl eq_refl) jm Em). cbn [bind].
        rewrite (IHr (fun km Hin => IH km (or_intror Hin)) r' eq_refl). reflexivity. }
    rewrite H. cbn [bind]. apply hook_dmembers.
  Qed.

  Theorem full_decodeG : forall t c j, rep t = true -> enc_fullG G down prefix_of c t = Ok j -> decode j = Ok (PTree (reload t)).
  Proof.
    induction t using tree_ind'; intros c j Hrep Henc.
    - (* alias *)
      cbn [enc_fullG] in Henc. inversion Henc; subst j. clear Henc.
      cbn [rep] in Hrep. apply andb_true_iff in Hrep as [Hl He]. cbn [reload].
      destruct ln as [l|]; destruct eln as [e|]; cbn [truthy_field zero_to_none nonzero] in *;
        repeat match goal with |- context [Z.eqb ?z 0] => destruct (Z.eqb z 0); [discriminate|] end; reflexivity.
    - (* object *)
      pose proof (rep_obj _ _ _ _ _ _ _ Hrep) as NF.
      cbn [enc_fullG] in Henc. set (path := dotted (prefix_of c) n) in *.
      set (gi := G c (TObj n ln eln doc ls ms x)) in *.
      destruct (HG c (TObj n ln eln doc ls ms x)) as (Hfp & Hrel & Hrelp & Hsecs & _). fold gi in Hfp, Hrel, Hrelp, Hsecs.
      unfold full_keys_g in Henc.
      destruct (g_filepath gi) as [jfp|] eqn:Efp; [|discriminate]. cbn [bind] in Henc.
      destruct (g_relative gi) as [jrel|] eqn:Erel; [|discriminate]. cbn [bind] in Henc.
      destruct (g_relative_package gi) as [jrelp|] eqn:Erelp; [|discriminate]. cbn [bind] in Henc.
      match type of Henc with context [mapM ?f ms] => destruct (mapM f ms) as [ms'|] eqn:Ems; [|discriminate] end.
      cbn [bind] in Henc. inversion Henc as [Hj]. clear Henc. subst j.
      destruct (Hfp _ eq_refl) as [vfp Hvfp]. destruct (Hrel _ eq_refl) as [vrel Hvrel]. destruct (Hrelp _ eq_refl) as [vrelp Hvrelp].
      destruct (dec_doc_full _ Hsecs) as [secs' Hdoc].
      assert (Hmem : decode (JObj ms') = Ok (PDict (dmembers ms))).
      { apply (members_full_decodeG _ ms ms' Ems). intros km Hin jm Hjm. rewrite Forall_forall in H.
        apply (H km Hin (down c (TObj n ln eln doc ls ms x)) jm); [|exact Hjm]. pose proof (nf_children _ _ _ _ _ _ _ NF) as Hc. rewrite Forall_forall in Hc. auto. }
      rewrite <- (hook_objF n path vfp vrel vrelp secs' ln eln doc ls ms x NF).
      rewrite decode_obj.
      assert (Hdocf : mapM dec_kv (match doc with Some d => [("docstring", enc_doc_full (g_parsed gi) d)] | None => [] end) = Ok (p_docfF secs' doc)).
      { destruct doc as [d|]; [|reflexivity]. rewrite mapM_cons, mapM_nil. cbn [dec_kv]. rewrite Hdoc. reflexivity. }
      assert (Hlm : mapM dec_kv [("labels", JArr (map JStr ls)); ("members", JObj ms')]
                    = Ok [("labels", PList (map PStr ls)); ("members", PDict (dmembers ms))]).
      { rewrite !mapM_cons, mapM_nil. cbn [dec_kv]. rewrite dec_labels, Hmem. reflexivity. }
      match goal with |- bind (mapM dec_kv ?fl) hook = _ =>
        assert (Hf : mapM dec_kv fl = Ok (dobjF n path vfp vrel vrelp secs' ln eln doc ls ms x)); [|rewrite Hf; reflexivity] end.
      unfold dobjF.
      destruct x as [fp|bases decos|decos params ret|v a]; cbn [app set_key' String.eqb Ascii.eqb Bool.eqb kind_of];
        (apply mapM_cons_ok; [reflexivity|]); (apply mapM_cons_ok; [reflexivity|]); (apply mapM_cons_ok; [reflexivity|]);
        (apply mapM_cons_ok; [cbn [dec_kv]; rewrite ?dec_fpath, ?Hvfp; reflexivity|]);
        (apply mapM_cons_ok; [cbn [dec_kv]; rewrite Hvrel; reflexivity|]);
        (apply mapM_cons_ok; [cbn [dec_kv]; rewrite Hvrelp; reflexivity|]);
        rewrite <- ?app_assoc;
        (apply mapM_app_ok; [apply dec_opt_field|]); (apply mapM_app_ok; [apply dec_opt_field|]);
        (apply mapM_app_ok; [exact Hdocf|]).
      + rewrite ?app_nil_r. exact Hlm.
      + refine (mapM_app_ok dec_kv _ _ _ (dextra _) Hlm _). apply dec_extra_g; [apply HG|apply NF].
      + refine (mapM_app_ok dec_kv _ _ _ (dextra _) Hlm _). apply dec_extra_g; [apply HG|apply NF].
      + refine (mapM_app_ok dec_kv _ _ _ (dextra _) Hlm _). apply dec_extra_g; [apply HG|apply NF].
  Qed.
End GenProofs.

(* ------------------------------------------------------------------------------------------------ *)
(* 2. The computed derived values are JSON that decodes                                              *)

Lemma rel_json_decodes o : res_decodes (rel_json o).
Proof. intros j H. destruct o; [|discriminate]. inversion H. eexists. reflexivity. Qed.

Lemma rel_cwd_decodes cwd fp : res_decodes (rel_cwd cwd fp).
Proof.
  destruct fp as [|s|l]; cbn [rel_cwd].
  - intros j H. discriminate.
  - intros j H. inversion H. eexists. reflexivity.
  - intros j H. destruct (first_some (map (fun s => relative_parts cwd (parts s)) l)); [|destruct l; [discriminate|]];
      inversion H; eexists; reflexivity.
Qed.

Lemma rel_pkg_decodes pkg fp : res_decodes (rel_pkg pkg fp).
Proof.
  destruct pkg as [|p|pl], fp as [|s|l]; cbn [rel_pkg]; try (intros j H; discriminate); apply rel_json_decodes.
Qed.

Lemma enc_fpath_decodes fp : exists v, decode (enc_fpath fp) = Ok v.
Proof. eexists. apply dec_fpath. Qed.

Lemma text_sections_decode d : sections_decode (text_sections d).
Proof. constructor; [|constructor]. eexists. vm_compute. reflexivity. Qed.

Lemma opt_sections_decode o : sections_decode (opt_sections o).
Proof. destruct o; [apply text_sections_decode|constructor]. Qed.

Lemma lookup_flat_map_sections (ps : list parameter) n secs :
  lookup n (flat_map (fun p => match p_doc p with Some d => [(p_name p, text_sections d)] | None => [] end) ps) = Some secs ->
  sections_decode secs.
Proof.
  induction ps as [|p r IH]; [discriminate|]. cbn [flat_map]. destruct (p_doc p) as [d|]; [|exact IH].
  cbn [app lookup]. destruct (String.eqb (p_name p) n); [|exact IH]. intro H. inversion H. apply text_sections_decode.
Qed.

Lemma param_sections_decode x n secs : lookup n (param_sections x) = Some secs -> sections_decode secs.
Proof. destruct x; try discriminate. apply lookup_flat_map_sections. Qed.

Lemma derive_ok c t : ginfo_ok (derive c t).
Proof.
  destruct t as [n ln eln doc ls ms x|n tp ln eln].
  - unfold derive. destruct (own_module c x) as [fp|].
    + repeat split; cbn [g_filepath g_relative g_relative_package g_parsed g_param_parsed].
      * intros j H. destruct fp as [|s|l]; inversion H; [exact (enc_fpath_decodes (FPStr s))|exact (enc_fpath_decodes (FPList l))].
      * apply rel_cwd_decodes.
      * apply rel_pkg_decodes.
      * apply opt_sections_decode.
      * apply param_sections_decode.
    + repeat split; cbn [g_filepath g_relative g_relative_package g_parsed g_param_parsed]; try (intros j H; discriminate).
      * apply opt_sections_decode.
      * apply param_sections_decode.
  - repeat split; cbn [derive g_filepath g_relative g_relative_package g_parsed g_param_parsed]; try (intros j H; discriminate).
    + constructor.
Qed.

(* Every tree the agents can build, seen from any place: when the full serialisation succeeds, the document decodes
   to the same tree as the minimal one. *)
Theorem full_decodeD : forall c t j, rep t = true -> enc_fullD c t = Ok j -> decode j = Ok (PTree (reload t)).
Proof. intros c t j. apply (full_decodeG derive derive_down fc_prefix derive_ok). Qed.

(* ------------------------------------------------------------------------------------------------ *)
(* 3. The derived values are functions of the serialised base fields: the reloaded tree gives the identical
      full document (from the same place)                                                            *)

Lemma enc_param_g_reload gi p : optdoc_fix (p_doc p) = true -> enc_param_g gi (reload_param p) = enc_param_g gi p.
Proof.
  intro H. unfold enc_param_g, reload_param. cbn [p_name p_annotation p_kind p_default p_doc].
  rewrite !enc_reload_ev, (reload_optdoc_fix _ H). reflexivity.
Qed.
Lemma enc_param_g_attach gi p : enc_param_g gi (attach_param p) = enc_param_g gi p.
Proof. unfold enc_param_g, attach_param. cbn [p_name p_annotation p_kind p_default p_doc]. rewrite !enc_attach_top. reflexivity. Qed.

Lemma enc_extra_g_reload gi x : extra_docs_fix x = true -> enc_extra_g gi (reload_extra x) = enc_extra_g gi x.
Proof.
  intro H. destruct x as [fp|bases decos|decos params ret|v a]; try (apply enc_reload_extra; assumption).
  cbn [reload_extra enc_extra_g extra_docs_fix] in *.
  rewrite (map_enc_ext enc_deco reload_deco) by (intros; apply enc_reload_deco).
  rewrite forallb_forall in H.
  rewrite (map_enc_ext (enc_param_g gi) reload_param) by (intros; apply enc_param_g_reload; auto).
  rewrite enc_reload_ev. reflexivity.
Qed.
Lemma enc_extra_g_attach gi x : enc_extra_g gi (attach_extra x) = enc_extra_g gi x.
Proof.
  destruct x as [fp|bases decos|decos params ret|v a]; try apply enc_attach_extra.
  cbn [attach_extra enc_extra_g].
  rewrite (map_enc_ext enc_deco attach_deco) by (intros; apply enc_attach_deco).
  rewrite (map_enc_ext (enc_param_g gi) attach_param) by (intros; apply enc_param_g_attach).
  rewrite enc_attach_top. reflexivity.
Qed.

(* what [derive] looks at: the name, the kind-specific file path, the docstring values *)
Lemma param_sections_reload x : extra_docs_fix x = true -> param_sections (reload_extra x) = param_sections x.
Proof.
  destruct x as [fp|bases decos|decos params ret|v a]; try reflexivity. cbn [extra_docs_fix reload_extra param_sections].
  intro H. induction params as [|p r IH]; [reflexivity|]. cbn [forallb] in H. apply andb_true_iff in H as [Hp Hr].
  cbn [map flat_map]. rewrite (IH Hr). destruct p as [n a k df doc]. cbn [reload_param p_doc p_name] in *.
  rewrite (reload_optdoc_fix _ Hp). reflexivity.
Qed.
Lemma param_sections_attach x : param_sections (attach_extra x) = param_sections x.
Proof.
  destruct x as [fp|bases decos|decos params ret|v a]; try reflexivity. cbn [attach_extra param_sections].
  induction params as [|p r IH]; [reflexivity|]. cbn [map flat_map]. rewrite IH. destruct p; reflexivity.
Qed.
Lemma own_module_reload c x : own_module c (reload_extra x) = own_module c x.
Proof. destruct x; reflexivity. Qed.
Lemma own_module_attach c x : own_module c (attach_extra x) = own_module c x.
Proof. destruct x; reflexivity. Qed.

Lemma derive_attach c t : derive c (attach_tree t) = derive c t.
Proof.
  destruct t as [n ln eln doc ls ms x|]; [|reflexivity]. cbn [attach_tree derive].
  rewrite own_module_attach, param_sections_attach. reflexivity.
Qed.
Lemma derive_down_attach c t : derive_down c (attach_tree t) = derive_down c t.
Proof. destruct t as [n ln eln doc ls ms x|]; [|reflexivity]. cbn [attach_tree derive_down]. rewrite own_module_attach. reflexivity. Qed.

Lemma enc_fullD_attach c t : enc_fullD c (attach_tree t) = enc_fullD c t.
Proof.
  destruct t as [n ln eln doc ls ms x|]; [|reflexivity]. unfold enc_fullD.
  change (attach_tree (TObj n ln eln doc ls ms x)) with (TObj n ln eln doc ls ms (attach_extra x)).
  cbn [enc_fullG].
  change (TObj n ln eln doc ls ms (attach_extra x)) with (attach_tree (TObj n ln eln doc ls ms x)).
  rewrite derive_attach, derive_down_attach. cbn [attach_tree].
  rewrite kind_of_attach, enc_extra_g_attach. destruct x; reflexivity.
Qed.

Theorem reencode_identical_fullD : forall t c,
  rep t = true -> gap_doc t = false -> enc_fullD c (reload t) = enc_fullD c t.
Proof.
  induction t using tree_ind'; intros c Hrep Hdoc.
  - cbn [rep] in Hrep. apply andb_true_iff in Hrep as [Hl He]. unfold enc_fullD. cbn [reload enc_fullG].
    rewrite !zero_to_none_id by assumption. reflexivity.
  - pose proof Hrep as Hrep0. cbn [rep] in Hrep.
    apply andb_true_iff in Hrep as [Hrep Hdist]. apply andb_true_iff in Hrep as [Hrep Hms].
    apply andb_true_iff in Hrep as [Hrep Hleaf]. apply andb_true_iff in Hrep as [Hrep Hmod].
    apply andb_true_iff in Hrep as [Hlab Hx]. apply list_eqb_eq in Hlab.
    cbn [gap_doc] in Hdoc. apply orb_false_iff in Hdoc as [Hdoc Hch]. apply orb_false_iff in Hdoc as [Hd1 Hd2].
    apply negb_false_iff in Hd1, Hd2.
    assert (Hl : (if is_module x then None else ln) = ln /\ (if is_module x then None else eln) = eln).
    { destruct (is_module x); [|auto]. destruct ln, eln; simpl in Hmod; try discriminate. auto. }
    destruct Hl as [Hl1 Hl2].
    set (ms2 := if has_members x then map (fun km : string * tree => let (_, m) := km in (tree_name m, attach_tree (reload m))) ms else []).
    assert (Hr : reload (TObj n ln eln doc ls ms x) = TObj n ln eln doc ls ms2 (reload_extra x)).
    { cbn [reload]. rewrite Hl1, Hl2, Hlab, (reload_optdoc_fix _ Hd1). reflexivity. }
    rewrite Hr.
    (* the derived values and the context of the members are unchanged *)
    assert (HG : derive c (TObj n ln eln doc ls ms2 (reload_extra x)) = derive c (TObj n ln eln doc ls ms x)).
    { cbn [derive]. rewrite own_module_reload, (param_sections_reload _ Hd2). reflexivity. }
    assert (HD : derive_down c (TObj n ln eln doc ls ms2 (reload_extra x)) = derive_down c (TObj n ln eln doc ls ms x)).
    { cbn [derive_down]. rewrite own_module_reload. reflexivity. }
    unfold enc_fullD in *. cbn [enc_fullG]. rewrite HG, HD.
    rewrite kind_of_reload, (enc_extra_g_reload _ _ Hd2).
    set (c' := derive_down c (TObj n ln eln doc ls ms x)).
    assert (Hmem : mapM (fun km : string * tree => let (k, m) := km in bind (enc_fullG derive derive_down fc_prefix c' m) (fun j => Ok (k, j))) ms2
                   = mapM (fun km : string * tree => let (k, m) := km in bind (enc_fullG derive derive_down fc_prefix c' m) (fun j => Ok (k, j))) ms).
    { unfold ms2. destruct (has_members x).
      - rewrite mapM_map. apply mapM_ext_in. intros [k m] Hin.
        rewrite forallb_forall in Hms. specialize (Hms _ Hin). cbv beta iota in Hms.
        apply andb_true_iff in Hms as [Hms Hrm]. apply andb_true_iff in Hms as [E _]. apply String.eqb_eq in E.
        pose proof (enc_fullD_attach c' (reload m)) as Ha. unfold enc_fullD in Ha. rewrite Ha.
        rewrite Forall_forall in H. specialize (H _ Hin). cbn [snd] in H.
        rewrite H; [rewrite <- E; reflexivity|assumption|].
        destruct (gap_doc m) eqn:Gm; [|reflexivity].
        assert (existsb (fun km : string * tree => let (_, m0) := km in gap_doc m0) ms = true) by (apply existsb_exists; exists (k, m); auto).
        congruence.
      - destruct ms; [reflexivity|discriminate]. }
    rewrite Hmem. destruct x; reflexivity.
Qed.

Theorem roundtrip_fullD : forall c t j, wf t = true -> enc_fullD c t = Ok j ->
  exists t', decode j = Ok (PTree t') /\ enc_fullD c t' = Ok j.
Proof.
  intros c t j H Henc. unfold wf in H. apply andb_true_iff in H as [Hd Hg]. apply negb_true_iff in Hg.
  exists (reload t). split; [apply (full_decodeD c t j Hd Henc)|].
  rewrite reencode_identical_fullD by assumption. exact Henc.
Qed.

(* Across the two modes: the tree reloaded from the *minimal* document gives the full document of the original
   ("the full data can be inferred again from the base data"). *)
Theorem full_from_minimal : forall c t t', wf t = true ->
  decode (enc_min t) = Ok (PTree t') -> enc_fullD c t' = enc_fullD c t.
Proof.
  intros c t t' H Hdec. unfold wf in H. apply andb_true_iff in H as [Hd Hg]. apply negb_true_iff in Hg.
  rewrite (decode_enc_min t Hd) in Hdec. inversion Hdec; subst t'. apply reencode_identical_fullD; assumption.
Qed.

(* ------------------------------------------------------------------------------------------------ *)
(* 4. Witnesses                                                                                       *)

Definition w_cwd : list string := ["/"; "p"].

Example example_fullD :
  exists j, enc_fullD (root_ctx w_cwd) ex_tree = Ok j /\ decode j = Ok (PTree ex_tree) /\ enc_fullD (root_ctx w_cwd) ex_tree = enc_fullD (root_ctx w_cwd) (reload ex_tree).
Proof. eexists. split; [vm_compute; reflexivity|]. split; vm_compute; reflexivity. Qed.

(* the derived values of one object, computed *)
Example example_derive :
  let m := TObj "pkg" None None (Some (mkDoc "Doc." (Some 1%Z) (Some 1%Z))) [] [] (XModule (FPStr "/p/src/pkg/__init__.py")) in
  let gi := derive (root_ctx w_cwd) m in
  g_filepath gi = Ok (JStr "/p/src/pkg/__init__.py") /\ g_relative gi = Ok (JStr "src/pkg/__init__.py")
  /\ g_relative_package gi = Ok (JStr "pkg/__init__.py") /\ g_parsed gi = [mkSection "text" None (JStr "Doc.")].
Proof. vm_compute. repeat split. Qed.

(* serialisation itself fails in full mode for a builtin module (no file path) *)
Lemma refuted_fullD_builtin : enc_fullD (root_ctx w_cwd) (w_module [] FPNone) = Err EBuiltin.
Proof. vm_compute. reflexivity. Qed.

(* repaired (bb0db70, was F13): a namespace package none of whose directories lies below the working directory
   serialises, with the absolute path of its first directory, and round-trips *)
Example fixed_fullD_namespace :
  let t := w_module [] (FPList ["/q/ns"; "/r/ns"]) in
  rep t = true /\
  g_relative (derive (root_ctx w_cwd) t) = Ok (JStr "/q/ns") /\ g_relative (derive (root_ctx ["/"; "r"]) t) = Ok (JStr "ns") /\
  (exists j, enc_fullD (root_ctx w_cwd) t = Ok j /\ decode j = Ok (PTree t)).
Proof. split; [vm_compute; reflexivity|]. split; [vm_compute; reflexivity|]. split; [vm_compute; reflexivity|]. eexists. split; vm_compute; reflexivity. Qed.
