(* C08 proofs, text level: loads (dumps j) = j for every JSON term, and the composition with the decoder. *)
From Coq Require Import List ZArith String Ascii Bool Arith Lia DecimalString DecimalFacts DecimalPos DecimalZ.
From Verif Require Import Lib.Sexp Gen.C08_tables Model.C08_json Model.C08_full Model.C08_text Proofs.C08_json Proofs.C08_full.
Import ListNotations.
Open Scope string_scope.
Open Scope list_scope.
Open Scope nat_scope.

(* ------------------------------------------------------------------------------------------------ *)
(* 1. Strings                                                                                         *)

Lemma escape_char_parse c tail : parse_str_body (escape_char c tail) = pmap (String c) (parse_str_body tail).
Proof. destruct c as [[|] [|] [|] [|] [|] [|] [|] [|]]; reflexivity. Qed.

Lemma escape_parse s k : parse_str_body (escape_k s (String dquote k)) = POk s k.
Proof.
  induction s as [|c r IH]; [reflexivity|]. cbn [escape_k]. rewrite escape_char_parse, IH. reflexivity.
Qed.

Lemma append_length a b : String.length (append a b) = String.length a + String.length b.
Proof. induction a as [|c a IH]; [reflexivity|]. cbn [append String.length]. rewrite IH. reflexivity. Qed.

Lemma escape_char_length c k : String.length k < String.length (escape_char c k).
Proof. destruct c as [[|] [|] [|] [|] [|] [|] [|] [|]]; cbv -[String.length lt]; cbn [String.length]; lia. Qed.

Lemma escape_length s k : String.length k <= String.length (escape_k s k).
Proof.
  induction s as [|c r IH]; [cbn; lia|]. cbn [escape_k]. pose proof (escape_char_length c (escape_k r k)). lia.
Qed.

(* ------------------------------------------------------------------------------------------------ *)
(* 2. Numbers                                                                                         *)

(* what may follow a number: not a digit, not the start of a fraction or an exponent *)
Definition num_end (k : string) : bool :=
  match k with
  | EmptyString => true
  | String c _ => negb (is_digit c) && negb (code c =? 46) && negb (code c =? 101) && negb (code c =? 69)
  end.

Lemma num_end_float k : num_end k = true -> float_follows k = false.
Proof.
  destruct k as [|c k]; [reflexivity|]. cbn [num_end]. intro H.
  apply andb_true_iff in H as [H H3]. apply andb_true_iff in H as [H H2]. apply andb_true_iff in H as [_ H1].
  apply negb_true_iff in H1, H2, H3. destruct k as [|d k]; [reflexivity|]. cbn [float_follows]. rewrite H1, H2, H3. reflexivity.
Qed.

Lemma span_digits_uint d k : num_end k = true ->
  span_digits (append (NilEmpty.string_of_uint d) k) = (NilEmpty.string_of_uint d, k).
Proof.
  intro H. induction d; cbn [NilEmpty.string_of_uint append span_digits];
    try (change (is_digit "0") with true; change (is_digit "1") with true; change (is_digit "2") with true;
         change (is_digit "3") with true; change (is_digit "4") with true; change (is_digit "5") with true;
         change (is_digit "6") with true; change (is_digit "7") with true; change (is_digit "8") with true;
         change (is_digit "9") with true; cbv iota; rewrite IHd; reflexivity).
  destruct k as [|c k]; [reflexivity|]. cbn [span_digits]. cbn [num_end] in H.
  apply andb_true_iff in H as [H _]. apply andb_true_iff in H as [H _]. apply andb_true_iff in H as [H _].
  apply negb_true_iff in H. rewrite H. reflexivity.
Qed.

Lemma pos_no_leading_zero p d : Pos.to_uint p <> Decimal.D0 d.
Proof.
  assert (E : Pos.to_uint p = Decimal.unorm (Pos.to_uint p)).
  { pose proof (DecimalPos.Unsigned.to_of (Pos.to_uint p)) as H. rewrite DecimalPos.Unsigned.of_to in H. exact H. }
  unfold Decimal.unorm in E. destruct (Decimal.nzhead (Pos.to_uint p)) eqn:N.
  - exfalso. exact (DecimalPos.Unsigned.to_uint_nonzero p E).
  - exfalso. exact (DecimalFacts.nzhead_nonzero _ _ N).
  - rewrite E. discriminate.
  - rewrite E. discriminate.
  - rewrite E. discriminate.
  - rewrite E. discriminate.
  - rewrite E. discriminate.
  - rewrite E. discriminate.
  - rewrite E. discriminate.
  - rewrite E. discriminate.
  - rewrite E. discriminate.
Qed.

Lemma parse_digits_uint neg d k :
  d <> Decimal.Nil -> (forall d', d <> Decimal.D0 d') -> num_end k = true ->
  parse_digits neg (append (NilEmpty.string_of_uint d) k) = POk (JNum (if neg then Z.opp (Z.of_uint d) else Z.of_uint d)) k.
Proof.
  intros Hn H0 Hk.
  destruct d; try (exfalso; apply Hn; reflexivity); try (exfalso; eapply H0; reflexivity);
    match goal with |- context [NilEmpty.string_of_uint (?D d)] =>
      unfold parse_digits;
      change (append (NilEmpty.string_of_uint (D d)) k) with (let s := append (NilEmpty.string_of_uint (D d)) k in s);
      cbn [NilEmpty.string_of_uint append]; cbv zeta;
      match goal with |- context [String ?c (append (NilEmpty.string_of_uint d) k)] =>
        change (is_digit c) with true; change (code c =? 48) with false; cbv iota;
        change (String c (append (NilEmpty.string_of_uint d) k)) with (append (NilEmpty.string_of_uint (D d)) k)
      end;
      rewrite (span_digits_uint (D d) k Hk); cbv beta iota; rewrite (num_end_float k Hk), NilEmpty.usu; reflexivity
    end.
Qed.

Lemma parse_number_print z k : num_end k = true -> parse_number (append (print_Z z) k) = POk (JNum z) k.
Proof.
  intro Hk. destruct z as [|p|p]; unfold print_Z; cbn [Z.to_int NilEmpty.string_of_int].
  - change (NilEmpty.string_of_uint Decimal.zero) with "0". cbn [append]. unfold parse_number.
    change (code "0" =? 45) with false. cbv iota. unfold parse_digits.
    change (is_digit "0") with true. change (code "0" =? 48) with true. cbv iota beta.
    rewrite (num_end_float k Hk). reflexivity.
  - pose proof (parse_digits_uint false (Pos.to_uint p) k (DecimalPos.Unsigned.to_uint_nonnil p) (pos_no_leading_zero p) Hk) as H.
    assert (E : Z.of_uint (Pos.to_uint p) = Z.pos p) by exact (DecimalZ.of_to (Z.pos p)).
    rewrite E in H. unfold parse_number.
    destruct (Pos.to_uint p) eqn:Ed; try (exfalso; exact (DecimalPos.Unsigned.to_uint_nonnil p Ed));
      cbn [NilEmpty.string_of_uint append] in *; exact H.
  - pose proof (parse_digits_uint true (Pos.to_uint p) k (DecimalPos.Unsigned.to_uint_nonnil p) (pos_no_leading_zero p) Hk) as H.
    assert (E : Z.opp (Z.of_uint (Pos.to_uint p)) = Z.neg p) by exact (DecimalZ.of_to (Z.neg p)).
    rewrite E in H. cbn [append]. unfold parse_number. exact H.
Qed.

(* the first character of a printed number *)
Definition num_head (c : ascii) : bool := (code c =? 45) || is_digit c.
Lemma uint_head d k : d <> Decimal.Nil -> exists c r, append (NilEmpty.string_of_uint d) k = String c r /\ is_digit c = true.
Proof. intro H. destruct d; [exfalso; apply H; reflexivity| | | | | | | | | |]; cbn [NilEmpty.string_of_uint append]; eexists; eexists; split; reflexivity. Qed.

Lemma print_Z_head z k : exists c r, append (print_Z z) k = String c r /\ num_head c = true.
Proof.
  destruct z as [|p|p]; unfold print_Z; cbn [Z.to_int NilEmpty.string_of_int].
  - eexists; eexists; split; reflexivity.
  - destruct (uint_head (Pos.to_uint p) k (DecimalPos.Unsigned.to_uint_nonnil p)) as (c & r & E & Hd).
    exists c, r. split; [exact E|]. unfold num_head. rewrite Hd. apply orb_true_r.
  - eexists; eexists; split; reflexivity.
Qed.

Lemma print_Z_length z : 1 <= String.length (print_Z z).
Proof. destruct (print_Z_head z "") as (c & r & E & _).
  assert (H : String.length (append (print_Z z) "") = String.length (String c r)) by (rewrite E; reflexivity).
  rewrite append_length in H. cbn in H. lia. Qed.

(* ------------------------------------------------------------------------------------------------ *)
(* 3. Values                                                                                          *)

Section JsonInd.
  Variable P : json -> Prop.
  Hypothesis Hnull : P JNull.
  Hypothesis Hbool : forall b, P (JBool b).
  Hypothesis Hnum : forall z, P (JNum z).
  Hypothesis Hstr : forall s, P (JStr s).
  Hypothesis Harr : forall l, Forall P l -> P (JArr l).
  Hypothesis Hobj : forall kvs, Forall (fun kv : string * json => P (snd kv)) kvs -> P (JObj kvs).
  Fixpoint json_ind' (j : json) : P j :=
    match j with
    | JNull => Hnull
    | JBool b => Hbool b
    | JNum z => Hnum z
    | JStr s => Hstr s
    | JArr l => Harr l ((fix go (l : list json) : Forall P l :=
                           match l with [] => Forall_nil _ | x :: r => Forall_cons x (json_ind' x) (go r) end) l)
    | JObj kvs => Hobj kvs ((fix go (l : list (string * json)) : Forall (fun kv => P (snd kv)) l :=
                               match l with [] => Forall_nil _ | kv :: r => Forall_cons kv (json_ind' (snd kv)) (go r) end) kvs)
    end.
End JsonInd.

(* the element and member printers of [print_k], named *)
Fixpoint pelems (k : string) (first : bool) (l : list json) : string :=
  match l with
  | [] => String (ch 93) k
  | x :: r => append (if first then "" else ", ") (print_k x (pelems k false r))
  end.
Fixpoint pmembs (k : string) (first : bool) (l : list (string * json)) : string :=
  match l with
  | [] => String (ch 125) k
  | (key, v) :: r => append (if first then "" else ", ") (quote_k key (append ": " (print_k v (pmembs k false r))))
  end.
Lemma print_arr l k : print_k (JArr l) k = String (ch 91) (pelems k true l).
Proof.
  cbn [print_k]. f_equal.
  match goal with |- ?F true l = _ => assert (H : forall l0 first, F first l0 = pelems k first l0) end.
  { induction l0 as [|x r IH]; intro first; [reflexivity|]. cbn [pelems]. rewrite <- IH. reflexivity. }
  apply H.
Qed.
Lemma print_obj kvs k : print_k (JObj kvs) k = String (ch 123) (pmembs k true kvs).
Proof.
  cbn [print_k]. f_equal.
  match goal with |- ?F true kvs = _ => assert (H : forall l0 first, F first l0 = pmembs k first l0) end.
  { induction l0 as [|[key v] r IH]; intro first; [reflexivity|]. cbn [pmembs]. rewrite <- IH. reflexivity. }
  apply H.
Qed.

Lemma skip_ws_nonws c r : is_jws c = false -> skip_ws (String c r) = String c r.
Proof. intro H. cbn [skip_ws]. rewrite H. reflexivity. Qed.

Lemma pv_ws f s : parse_value f (String (ch 32) s) = parse_value f s.
Proof. destruct f; reflexivity. Qed.
Lemma pv_str f r : parse_value (S f) (String dquote r) = pmap JStr (parse_str_body r).
Proof. reflexivity. Qed.
Lemma pv_arr f r :
  parse_value (S f) (String (ch 91) r)
  = match skip_ws r with
    | EmptyString => PErr
    | String c2 r2 => if code c2 =? 93 then POk (JArr []) r2 else pmap JArr (parse_elems (parse_value f) f (String c2 r2))
    end.
Proof. reflexivity. Qed.
Lemma pv_obj f r :
  parse_value (S f) (String (ch 123) r)
  = match skip_ws r with
    | EmptyString => PErr
    | String c2 r2 => if code c2 =? 125 then POk (JObj []) r2 else pmap JObj (parse_membs (parse_value f) f (String c2 r2))
    end.
Proof. reflexivity. Qed.
Lemma pv_num f c r : num_head c = true -> parse_value (S f) (String c r) = parse_number (String c r).
Proof.
  destruct c as [[|] [|] [|] [|] [|] [|] [|] [|]]; intro H; try (exfalso; vm_compute in H; discriminate H); reflexivity.
Qed.
Lemma num_head_shape c : num_head c = true -> is_jws c = false /\ (code c =? 93) = false /\ (code c =? 125) = false.
Proof.
  destruct c as [[|] [|] [|] [|] [|] [|] [|] [|]]; intro H; try (exfalso; vm_compute in H; discriminate H); repeat split; reflexivity.
Qed.

(* the first character of a printed value: not white space, not a closing bracket *)
Lemma print_k_head x K :
  exists c r, print_k x K = String c r /\ is_jws c = false /\ (code c =? 93) = false /\ (code c =? 125) = false.
Proof.
  destruct x as [|b|z|s|l|kvs].
  - eexists; eexists; repeat split; reflexivity.
  - destruct b; eexists; eexists; repeat split; reflexivity.
  - destruct (print_Z_head z K) as (c & r & E & Hc). exists c, r. split; [exact E|]. apply num_head_shape, Hc.
  - eexists; eexists; repeat split; reflexivity.
  - eexists; eexists; repeat split; reflexivity.
  - eexists; eexists; repeat split; reflexivity.
Qed.

Lemma jsize_pos j : 1 <= jsize j.
Proof. destruct j; cbn; lia. Qed.

Definition sum_sizes (l : list json) : nat := fold_right (fun x acc => jsize x + acc) 0 l.
Definition sum_msizes (l : list (string * json)) : nat := fold_right (fun kv acc => jsize (snd kv) + acc) 0 l.
Lemma length_sum l : List.length l <= sum_sizes l.
Proof. induction l as [|x r IH]; [cbn; lia|]. cbn [List.length sum_sizes fold_right]. fold (sum_sizes r). pose proof (jsize_pos x). lia. Qed.
Lemma length_msum l : List.length l <= sum_msizes l.
Proof. induction l as [|x r IH]; [cbn; lia|]. cbn [List.length sum_msizes fold_right]. fold (sum_msizes r). pose proof (jsize_pos (snd x)). lia. Qed.

Lemma sum_sizes_cons x r : sum_sizes (x :: r) = jsize x + sum_sizes r.
Proof. reflexivity. Qed.
Lemma sum_msizes_cons kv r : sum_msizes (kv :: r) = jsize (snd kv) + sum_msizes r.
Proof. reflexivity. Qed.

Definition reads_back (y : json) : Prop :=
  forall k f, num_end k = true -> jsize y <= f -> parse_value f (print_k y k) = POk y k.

Lemma parse_elems_ws f n s : parse_elems (parse_value f) n (String (ch 32) s) = parse_elems (parse_value f) n s.
Proof. destruct n; [reflexivity|]. cbn [parse_elems]. rewrite pv_ws. reflexivity. Qed.

Lemma elems_parse : forall r x k f n,
  Forall reads_back (x :: r) -> num_end k = true -> sum_sizes (x :: r) <= f -> List.length (x :: r) <= n ->
  parse_elems (parse_value f) n (print_k x (pelems k false r)) = POk (x :: r) k.
Proof.
  induction r as [|y r' IH]; intros x k f n HF Hk Hs Hn.
  - destruct n as [|n']; [cbn in Hn; lia|]. cbn [pelems parse_elems].
    inversion HF as [|? ? Hx _]; subst. rewrite (Hx (String (ch 93) k) f); [|reflexivity|rewrite sum_sizes_cons in Hs; lia].
    rewrite skip_ws_nonws by reflexivity. reflexivity.
  - destruct n as [|n']; [cbn in Hn; lia|]. cbn [pelems parse_elems].
    inversion HF as [|? ? Hx HF']; subst.
    rewrite sum_sizes_cons in Hs.
    change (append ", " (print_k y (pelems k false r'))) with (String (ch 44) (String (ch 32) (print_k y (pelems k false r')))).
    rewrite (Hx _ f); [|reflexivity|lia].
    rewrite skip_ws_nonws by reflexivity.
    change (code (ch 44) =? 44) with true. cbv iota.
    rewrite parse_elems_ws. rewrite (IH y k f n' HF' Hk); [reflexivity|lia|cbn [List.length] in *; lia].
Qed.

Lemma membs_parse : forall r key v k f n,
  Forall (fun kv : string * json => reads_back (snd kv)) ((key, v) :: r) -> num_end k = true ->
  sum_msizes ((key, v) :: r) <= f -> List.length ((key, v) :: r) <= n ->
  parse_membs (parse_value f) n (quote_k key (append ": " (print_k v (pmembs k false r)))) = POk ((key, v) :: r) k.
Proof.
  induction r as [|[key2 v2] r' IH]; intros key v k f n HF Hk Hs Hn.
  - destruct n as [|n']; [cbn in Hn; lia|]. unfold quote_k. cbn [parse_membs].
    change (code dquote =? 34) with true. cbv iota. rewrite escape_parse.
    change (append ": " (print_k v (pmembs k false []))) with (String (ch 58) (String (ch 32) (print_k v (pmembs k false [])))).
    rewrite skip_ws_nonws by reflexivity. change (code (ch 58) =? 58) with true. cbv iota.
    rewrite pv_ws. inversion HF as [|? ? Hx _]; subst. cbn [snd] in Hx. cbn [pmembs].
    rewrite (Hx (String (ch 125) k) f); [|reflexivity|rewrite sum_msizes_cons in Hs; cbn [snd] in Hs; lia].
    rewrite skip_ws_nonws by reflexivity. reflexivity.
  - destruct n as [|n']; [cbn in Hn; lia|]. unfold quote_k at 1. cbn [parse_membs].
    change (code dquote =? 34) with true. cbv iota. rewrite escape_parse.
    match goal with |- context [append ": " ?X] => change (append ": " X) with (String (ch 58) (String (ch 32) X)) end.
    rewrite skip_ws_nonws by reflexivity. change (code (ch 58) =? 58) with true. cbv iota.
    rewrite pv_ws. inversion HF as [|? ? Hx HF']; subst. cbn [snd] in Hx.
    rewrite sum_msizes_cons in Hs. cbn [snd] in Hs.
    cbn [pmembs].
    match goal with |- context [append ", " ?X] => change (append ", " X) with (String (ch 44) (String (ch 32) X)) end.
    rewrite (Hx _ f); [|reflexivity|lia].
    rewrite skip_ws_nonws by reflexivity. change (code (ch 44) =? 44) with true. cbv iota.
    match goal with |- context [skip_ws (String (ch 32) (quote_k ?a ?b))] =>
      change (skip_ws (String (ch 32) (quote_k a b))) with (quote_k a b) end.
    rewrite (IH key2 v2 k f n' HF' Hk); [reflexivity|lia|cbn [List.length] in *; lia].
Qed.

Theorem parse_print : forall j, reads_back j.
Proof.
  induction j using json_ind'; intros k f Hk Hf.
  - destruct f; [cbn in Hf; lia|]. reflexivity.
  - destruct f; [cbn in Hf; lia|]. destruct b; reflexivity.
  - destruct f; [cbn in Hf; lia|]. cbn [print_k].
    destruct (print_Z_head z k) as (c & r & E & Hc). rewrite E, (pv_num f c r Hc), <- E. apply parse_number_print, Hk.
  - destruct f; [cbn in Hf; lia|]. cbn [print_k]. unfold quote_k. rewrite pv_str, escape_parse. reflexivity.
  - destruct f as [|f]; [cbn in Hf; lia|]. rewrite print_arr, pv_arr.
    cbn [jsize] in Hf. fold (sum_sizes l) in Hf.
    destruct l as [|x r].
    + cbn [pelems]. rewrite skip_ws_nonws by reflexivity. reflexivity.
    + cbn [pelems append].
      destruct (print_k_head x (pelems k false r)) as (c2 & r2 & E & Hws & H93 & _).
      rewrite E, (skip_ws_nonws _ _ Hws), H93, <- E.
      rewrite (elems_parse r x k f f H Hk); [reflexivity|lia|pose proof (length_sum (x :: r)); lia].
  - destruct f as [|f]; [cbn in Hf; lia|]. rewrite print_obj, pv_obj.
    cbn [jsize] in Hf. fold (sum_msizes kvs) in Hf.
    destruct kvs as [|[key v] r].
    + cbn [pmembs]. rewrite skip_ws_nonws by reflexivity. reflexivity.
    + cbn [pmembs append]. unfold quote_k at 1.
      rewrite skip_ws_nonws by reflexivity. change (code dquote =? 125) with false. cbv iota.
      change (String dquote (escape_k key (String dquote (String ":" (String " " (print_k v (pmembs k false r)))))))
        with (quote_k key (append ": " (print_k v (pmembs k false r)))).
      rewrite (membs_parse r key v k f f H Hk); [reflexivity|lia|pose proof (length_msum ((key, v) :: r)); lia].
Qed.

(* every node prints at least one character: the fuel [loads] passes is enough *)
Lemma print_length : forall j k, jsize j + String.length k <= String.length (print_k j k).
Proof.
  induction j using json_ind'; intro k.
  - cbn [print_k jsize]. rewrite append_length. cbn. lia.
  - cbn [print_k jsize]. rewrite append_length. destruct b; cbn; lia.
  - cbn [print_k jsize]. rewrite append_length. pose proof (print_Z_length z). lia.
  - cbn [print_k jsize]. unfold quote_k. cbn [String.length]. pose proof (escape_length s (String dquote k)) as E. cbn [String.length] in E. lia.
  - rewrite print_arr. cbn [jsize String.length]. fold (sum_sizes l).
    assert (Hl : forall first, sum_sizes l + String.length k + 1 <= String.length (pelems k first l)).
    { induction H as [|x r Hx _ IH]; intro first; [cbn; lia|].
      cbn [pelems sum_sizes fold_right]. fold (sum_sizes r). rewrite append_length.
      specialize (Hx (pelems k false r)). specialize (IH false). lia. }
    specialize (Hl true). lia.
  - rewrite print_obj. cbn [jsize String.length]. fold (sum_msizes kvs).
    assert (Hl : forall first, sum_msizes kvs + String.length k + 1 <= String.length (pmembs k first kvs)).
    { induction H as [|[key v] r Hx _ IH]; intro first; [cbn; lia|].
      cbn [pmembs sum_msizes fold_right snd]. fold (sum_msizes r). rewrite append_length. unfold quote_k. cbn [String.length].
      pose proof (escape_length key (String dquote (append ": " (print_k v (pmembs k false r))))) as E.
      cbn [String.length] in E. rewrite append_length in E. cbn [snd] in Hx.
      specialize (Hx (pmembs k false r)). specialize (IH false). lia. }
    specialize (Hl true). lia.
Qed.

(* json.loads (json.dumps j) = j, for every term *)
Theorem loads_dumps : forall j, loads (dumps j) = POk j EmptyString.
Proof.
  intro j. unfold loads, dumps. rewrite (parse_print j EmptyString); [reflexivity|reflexivity|].
  pose proof (print_length j EmptyString). lia.
Qed.

(* ------------------------------------------------------------------------------------------------ *)
(* 4. The pipeline at the text level                                                                  *)

Theorem text_decode_min : forall t, rep t = true -> loads_decode (dumps (enc_min t)) = TOk (PTree (reload t)).
Proof. intros t H. unfold loads_decode. rewrite loads_dumps, (decode_enc_min t H). reflexivity. Qed.

Theorem text_roundtrip_min : forall t, wf t = true ->
  exists t', loads_decode (dumps (enc_min t)) = TOk (PTree t') /\ dumps (enc_min t') = dumps (enc_min t).
Proof.
  intros t H. pose proof H as H'. unfold wf in H'. apply andb_true_iff in H' as [Hd Hg]. apply negb_true_iff in Hg.
  exists (reload t). split; [apply text_decode_min, Hd|]. rewrite (reencode_identical t Hd Hg). reflexivity.
Qed.

Theorem text_decode_full : forall c t j, rep t = true -> enc_fullD c t = Ok j ->
  loads_decode (dumps j) = TOk (PTree (reload t)).
Proof. intros c t j H E. unfold loads_decode. rewrite loads_dumps, (full_decodeD c t j H E). reflexivity. Qed.

Theorem text_roundtrip_full : forall c t j, wf t = true -> enc_fullD c t = Ok j ->
  exists t' j', loads_decode (dumps j) = TOk (PTree t') /\ enc_fullD c t' = Ok j' /\ dumps j' = dumps j.
Proof.
  intros c t j H E. pose proof H as H'. unfold wf in H'. apply andb_true_iff in H' as [Hd Hg]. apply negb_true_iff in Hg.
  exists (reload t), j. split; [apply (text_decode_full c t j Hd E)|]. split; [|reflexivity].
  rewrite (reencode_identical_fullD t c Hd Hg). exact E.
Qed.

(* non-vacuity: the printed text of a document with every kind of value, and a text that is rejected *)
Example example_text :
  let j := JObj [("a", JArr [JNum 10; JNum (-3); JNull; JBool true]); ("q""\", JStr (String (ch 10) (String (ch 127) "x"))); ("e", JObj [])] in
  dumps j = "{""a"": [10, -3, null, true], ""q\""\\"": ""\n\u007fx"", ""e"": {}}" /\ loads (dumps j) = POk j "" /\
  loads "{""a"": 1,}" = PErr /\ loads "[1.5]" = PUnmod /\ loads " [ 1 , 2 ] " = POk (JArr [JNum 1; JNum 2]) "".
Proof. vm_compute. repeat split. Qed.

Example example_text_tree : loads_decode (dumps (enc_min ex_tree)) = TOk (PTree ex_tree).
Proof. vm_compute. reflexivity. Qed.

(* ------------------------------------------------------------------------------------------------ *)
(* 5. The command line's format (indent=2): what is printed reads back                                *)

Lemma skip_ws_spaces n s : skip_ws (spaces_k n s) = skip_ws s.
Proof. induction n as [|n IH]; [reflexivity|]. cbn [spaces_k]. change (skip_ws (String (ch 32) (spaces_k n s))) with (skip_ws (spaces_k n s)). exact IH. Qed.
Lemma skip_ws_newline lvl s : skip_ws (newline_k lvl s) = skip_ws s.
Proof. unfold newline_k. change (skip_ws (String (ch 10) (spaces_k (2 * lvl) s))) with (skip_ws (spaces_k (2 * lvl) s)). apply skip_ws_spaces. Qed.
Lemma skip_ws_idem s : skip_ws (skip_ws s) = skip_ws s.
Proof. induction s as [|c r IH]; [reflexivity|]. cbn [skip_ws]. destruct (is_jws c) eqn:E; [exact IH|]. cbn [skip_ws]. rewrite E. reflexivity. Qed.
Lemma pv_skip f s : parse_value f s = parse_value f (skip_ws s).
Proof. destruct f; [reflexivity|]. cbn [parse_value]. rewrite skip_ws_idem. reflexivity. Qed.
Lemma pv_newline f lvl s : parse_value f (newline_k lvl s) = parse_value f s.
Proof. rewrite (pv_skip f (newline_k lvl s)), skip_ws_newline, <- pv_skip. reflexivity. Qed.
Lemma parse_elems_newline f n lvl s : parse_elems (parse_value f) n (newline_k lvl s) = parse_elems (parse_value f) n s.
Proof. destruct n; [reflexivity|]. cbn [parse_elems]. rewrite pv_newline. reflexivity. Qed.
Lemma newline_length lvl k : String.length k < String.length (newline_k lvl k).
Proof.
  unfold newline_k. cbn [String.length]. assert (H : forall n, String.length k <= String.length (spaces_k n k)).
  { induction n as [|n IH]; cbn [spaces_k String.length]; lia. }
  specialize (H (2 * lvl)). lia.
Qed.
Lemma num_end_newline lvl s : num_end (newline_k lvl s) = true.
Proof. reflexivity. Qed.

Fixpoint pelems_i (lvl : nat) (k : string) (first : bool) (l : list json) : string :=
  match l with
  | [] => newline_k lvl (String (ch 93) k)
  | x :: r => (if first then newline_k (S lvl) else fun s => String (ch 44) (newline_k (S lvl) s))
                (print_ind (S lvl) x (pelems_i lvl k false r))
  end.
Fixpoint pmembs_i (lvl : nat) (k : string) (first : bool) (l : list (string * json)) : string :=
  match l with
  | [] => newline_k lvl (String (ch 125) k)
  | (key, v) :: r => (if first then newline_k (S lvl) else fun s => String (ch 44) (newline_k (S lvl) s))
                       (quote_k key (append ": " (print_ind (S lvl) v (pmembs_i lvl k false r))))
  end.
Lemma print_ind_arr lvl x0 r0 k : print_ind lvl (JArr (x0 :: r0)) k = String (ch 91) (pelems_i lvl k true (x0 :: r0)).
Proof.
  cbn [print_ind pelems_i]. f_equal. f_equal. f_equal.
  match goal with |- ?F false r0 = _ => assert (H : forall l0 first, F first l0 = pelems_i lvl k first l0) end.
  { induction l0 as [|x r IH]; intro first; [reflexivity|]. cbn [pelems_i]. rewrite <- IH. reflexivity. }
  apply H.
Qed.
Lemma print_ind_obj lvl kv0 r0 k : print_ind lvl (JObj (kv0 :: r0)) k = String (ch 123) (pmembs_i lvl k true (kv0 :: r0)).
Proof.
  destruct kv0 as [key0 v0]. cbn [print_ind pmembs_i]. f_equal. f_equal. f_equal. f_equal. f_equal.
  match goal with |- ?F false r0 = _ => assert (H : forall l0 first, F first l0 = pmembs_i lvl k first l0) end.
  { induction l0 as [|[key v] r IH]; intro first; [reflexivity|]. cbn [pmembs_i]. rewrite <- IH. reflexivity. }
  apply H.
Qed.

Lemma print_ind_head lvl x K :
  exists c r, print_ind lvl x K = String c r /\ is_jws c = false /\ (code c =? 93) = false /\ (code c =? 125) = false.
Proof.
  destruct x as [|b|z|s|[|x0 r0]|[|kv0 r0]]; try exact (print_k_head _ K).
  - rewrite print_ind_arr. eexists; eexists; repeat split; reflexivity.
  - rewrite print_ind_obj. eexists; eexists; repeat split; reflexivity.
Qed.

Definition reads_back_i (y : json) : Prop :=
  forall lvl k f, num_end k = true -> jsize y <= f -> parse_value f (print_ind lvl y k) = POk y k.

Lemma elems_parse_i : forall r x lvl k f n,
  Forall reads_back_i (x :: r) -> num_end k = true -> sum_sizes (x :: r) <= f -> List.length (x :: r) <= n ->
  parse_elems (parse_value f) n (print_ind (S lvl) x (pelems_i lvl k false r)) = POk (x :: r) k.
Proof.
  induction r as [|y r' IH]; intros x lvl k f n HF Hk Hs Hn.
  - destruct n as [|n']; [cbn in Hn; lia|]. cbn [pelems_i parse_elems].
    inversion HF as [|? ? Hx _]; subst. rewrite (Hx (S lvl) _ f); [|reflexivity|rewrite sum_sizes_cons in Hs; lia].
    rewrite skip_ws_newline, skip_ws_nonws by reflexivity. reflexivity.
  - destruct n as [|n']; [cbn in Hn; lia|]. cbn [pelems_i parse_elems].
    inversion HF as [|? ? Hx HF']; subst. rewrite sum_sizes_cons in Hs.
    rewrite (Hx (S lvl) _ f); [|reflexivity|lia].
    rewrite skip_ws_nonws by reflexivity. change (code (ch 44) =? 44) with true. cbv iota.
    rewrite parse_elems_newline. rewrite (IH y lvl k f n' HF' Hk); [reflexivity|lia|cbn [List.length] in *; lia].
Qed.

Lemma membs_parse_i : forall r key v lvl k f n,
  Forall (fun kv : string * json => reads_back_i (snd kv)) ((key, v) :: r) -> num_end k = true ->
  sum_msizes ((key, v) :: r) <= f -> List.length ((key, v) :: r) <= n ->
  parse_membs (parse_value f) n (quote_k key (append ": " (print_ind (S lvl) v (pmembs_i lvl k false r)))) = POk ((key, v) :: r) k.
Proof.
  induction r as [|[key2 v2] r' IH]; intros key v lvl k f n HF Hk Hs Hn.
  - destruct n as [|n']; [cbn in Hn; lia|]. unfold quote_k. cbn [parse_membs].
    change (code dquote =? 34) with true. cbv iota. rewrite escape_parse.
    match goal with |- context [append ": " ?X] => change (append ": " X) with (String (ch 58) (String (ch 32) X)) end.
    rewrite skip_ws_nonws by reflexivity. change (code (ch 58) =? 58) with true. cbv iota.
    rewrite pv_ws. inversion HF as [|? ? Hx _]; subst. cbn [snd] in Hx. cbn [pmembs_i].
    rewrite (Hx (S lvl) _ f); [|reflexivity|rewrite sum_msizes_cons in Hs; cbn [snd] in Hs; lia].
    rewrite skip_ws_newline, skip_ws_nonws by reflexivity. reflexivity.
  - destruct n as [|n']; [cbn in Hn; lia|]. unfold quote_k at 1. cbn [parse_membs].
    change (code dquote =? 34) with true. cbv iota. rewrite escape_parse.
    match goal with |- context [append ": " ?X] => change (append ": " X) with (String (ch 58) (String (ch 32) X)) end.
    rewrite skip_ws_nonws by reflexivity. change (code (ch 58) =? 58) with true. cbv iota.
    rewrite pv_ws. inversion HF as [|? ? Hx HF']; subst. cbn [snd] in Hx.
    rewrite sum_msizes_cons in Hs. cbn [snd] in Hs.
    cbn [pmembs_i].
    rewrite (Hx (S lvl) _ f); [|reflexivity|lia].
    rewrite skip_ws_nonws by reflexivity. change (code (ch 44) =? 44) with true. cbv iota.
    rewrite skip_ws_newline.
    match goal with |- context [skip_ws (quote_k ?a ?b)] => change (skip_ws (quote_k a b)) with (quote_k a b) end.
    rewrite (IH key2 v2 lvl k f n' HF' Hk); [reflexivity|lia|cbn [List.length] in *; lia].
Qed.

Theorem parse_print_ind : forall j, reads_back_i j.
Proof.
  induction j using json_ind'; intros lvl k f Hk Hf;
    try (exact (parse_print _ k f Hk Hf)).
  - destruct l as [|x0 r0]; [exact (parse_print _ k f Hk Hf)|].
    destruct f as [|f]; [cbn in Hf; lia|]. rewrite print_ind_arr, pv_arr.
    cbn [jsize] in Hf. fold (sum_sizes (x0 :: r0)) in Hf.
    cbn [pelems_i]. rewrite skip_ws_newline.
    destruct (print_ind_head (S lvl) x0 (pelems_i lvl k false r0)) as (c2 & r2 & E & Hws & H93 & _).
    rewrite E, (skip_ws_nonws _ _ Hws), H93, <- E.
    rewrite (elems_parse_i r0 x0 lvl k f f H Hk); [reflexivity|lia|pose proof (length_sum (x0 :: r0)); lia].
  - destruct kvs as [|[key v] r]; [exact (parse_print _ k f Hk Hf)|].
    destruct f as [|f]; [cbn in Hf; lia|]. rewrite print_ind_obj, pv_obj.
    cbn [jsize] in Hf. fold (sum_msizes ((key, v) :: r)) in Hf.
    cbn [pmembs_i]. rewrite skip_ws_newline. unfold quote_k at 1.
    rewrite skip_ws_nonws by reflexivity. change (code dquote =? 125) with false. cbv iota.
    match goal with |- context [String dquote (escape_k key (String dquote ?X))] =>
      change (String dquote (escape_k key (String dquote X))) with (quote_k key X) end.
    rewrite (membs_parse_i r key v lvl k f f H Hk); [reflexivity|lia|pose proof (length_msum ((key, v) :: r)); lia].
Qed.

Lemma print_ind_length : forall j lvl k, jsize j + String.length k <= String.length (print_ind lvl j k).
Proof.
  induction j using json_ind'; intros lvl k; try exact (print_length _ k).
  - destruct l as [|x0 r0]; [exact (print_length _ k)|].
    rewrite print_ind_arr. cbn [jsize String.length]. fold (sum_sizes (x0 :: r0)).
    assert (Hl : forall l first, Forall (fun j => forall lvl k, jsize j + String.length k <= String.length (print_ind lvl j k)) l ->
                 sum_sizes l + String.length k + 1 <= String.length (pelems_i lvl k first l)).
    { induction l as [|x r IH]; intros first HF.
      - cbn [pelems_i sum_sizes fold_right]. pose proof (newline_length lvl (String (ch 93) k)) as E. cbn [String.length] in E. lia.
      - inversion HF as [|? ? Hx HF']; subst. rewrite sum_sizes_cons. cbn [pelems_i].
        specialize (Hx (S lvl) (pelems_i lvl k false r)). specialize (IH false HF').
        destruct first.
        + pose proof (newline_length (S lvl) (print_ind (S lvl) x (pelems_i lvl k false r))). lia.
        + cbn [String.length]. pose proof (newline_length (S lvl) (print_ind (S lvl) x (pelems_i lvl k false r))). lia. }
    specialize (Hl (x0 :: r0) true H). lia.
  - destruct kvs as [|kv0 r0]; [exact (print_length _ k)|].
    rewrite print_ind_obj. cbn [jsize String.length]. fold (sum_msizes (kv0 :: r0)).
    assert (Hl : forall l first, Forall (fun kv : string * json => forall lvl k, jsize (snd kv) + String.length k <= String.length (print_ind lvl (snd kv) k)) l ->
                 sum_msizes l + String.length k + 1 <= String.length (pmembs_i lvl k first l)).
    { induction l as [|[key v] r IH]; intros first HF.
      - cbn [pmembs_i sum_msizes fold_right]. pose proof (newline_length lvl (String (ch 125) k)) as E. cbn [String.length] in E. lia.
      - inversion HF as [|? ? Hx HF']; subst. rewrite sum_msizes_cons. cbn [pmembs_i snd] in *.
        specialize (Hx (S lvl) (pmembs_i lvl k false r)). specialize (IH false HF').
        set (body := quote_k key (append ": " (print_ind (S lvl) v (pmembs_i lvl k false r)))).
        assert (Hb : String.length (print_ind (S lvl) v (pmembs_i lvl k false r)) <= String.length body).
        { unfold body, quote_k. cbn [String.length].
          pose proof (escape_length key (String dquote (append ": " (print_ind (S lvl) v (pmembs_i lvl k false r))))) as E.
          cbn [String.length] in E. rewrite append_length in E. lia. }
        destruct first.
        + pose proof (newline_length (S lvl) body). lia.
        + cbn [String.length]. pose proof (newline_length (S lvl) body). lia. }
    specialize (Hl (kv0 :: r0) true H). lia.
Qed.

(* what `griffe dump` prints reads back as the document with its keys sorted *)
Theorem loads_dumps_cli : forall j, loads (dumps_cli j) = POk (sort_keys j) EmptyString.
Proof.
  intro j. unfold loads, dumps_cli.
  rewrite (parse_print_ind (sort_keys j) 0 (String (ch 10) EmptyString)); [reflexivity|reflexivity|].
  pose proof (print_ind_length (sort_keys j) 0 (String (ch 10) EmptyString)). lia.
Qed.

Example example_cli :
  dumps_cli (JObj [("b", JArr [JNum 10; JArr []; JObj []]); ("a", JObj [("z", JNull); ("y", JStr "s")])])
  = append "{" (String (ch 10) (append "  ""a"": {" (String (ch 10) (append "    ""y"": ""s""," (String (ch 10) (append "    ""z"": null" (String (ch 10)
    (append "  }," (String (ch 10) (append "  ""b"": [" (String (ch 10) (append "    10," (String (ch 10) (append "    []," (String (ch 10) (append "    {}" (String (ch 10)
    (append "  ]" (String (ch 10) (append "}" (String (ch 10) ""))))))))))))))))))))).
Proof. vm_compute. reflexivity. Qed.
