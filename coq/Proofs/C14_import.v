(* C14, Parts H and I: every module loaded below a regular package is importable by CPython from that file (or is
   stub-only).  Builds on Proofs/C14_finder.v (the fold characterisation) and Proofs/C14_order.v (os.walk lists the
   files of a directory before its sub-directories, hence a module file loses against the package of the same name). *)
From Coq Require Import List ZArith String Ascii Bool Arith Lia Permutation Sorting.Sorted.
From Verif Require Import Lib.Sexp Model.C14_finder Proofs.C14_finder Proofs.C14_order.
Import ListNotations.
Open Scope string_scope. Open Scope list_scope.

(* ------------------------------------------------------------------------------------------------------------- *)
(* Part H.  Regular packages: every loaded module is importable by CPython from that file, or is stub-only --
   modulo the shape of finding F1 and on source-form layouts *)

(* strings *)
Lemma split_last_dot_py : forall m, split_last_dot (m ++ ".py")%string = Some (m, ".py").
Proof. induction m as [|c r IH]; simpl. reflexivity. rewrite IH. reflexivity. Qed.

Lemma pl_split_py : forall m, m <> "" -> pl_split (m ++ ".py")%string = (m, ".py").
Proof.
  intros m Hm. unfold pl_split. rewrite split_last_dot_py.
  destruct (m =? "") eqn:E. apply String.eqb_eq in E. contradiction. reflexivity.
Qed.

Lemma all_dots_has_dot : forall m, m <> "" -> has_dot m = false -> all_dots m = false.
Proof. destruct m as [|c r]; simpl; intros H1 H2. contradiction. apply orb_false_iff in H2. destruct H2 as [-> _]. reflexivity. Qed.

Lemma os_ext_py : forall m, m <> "" -> has_dot m = false -> os_ext (m ++ ".py")%string = ".py".
Proof. intros m H1 H2. unfold os_ext. rewrite split_last_dot_py. rewrite all_dots_has_dot; auto. Qed.

(* navigation *)
Lemma get_node_snoc : forall q l c,
  get_node l (q ++ [c]) =
    match get_node l q with
    | Some (Dir lq) => lookup_entry c lq
    | _ => None
    end.
Proof.
  induction q as [|a r IH]; intros l c; simpl.
  - destruct (lookup_entry c l) as [[ns pth|l']|]; auto.
  - destruct (lookup_entry a l) as [[ns pth|l']|] eqn:E.
    + destruct r; simpl; auto.
    + apply IH.
    + reflexivity.
Qed.

Lemma lookup_entry_In_iff : forall l n x, NoDup (map fst l) -> (lookup_entry n l = Some x <-> In (n, x) l).
Proof.
  induction l as [|[k v] r IH]; simpl; intros n x Hnd. split; [discriminate|tauto].
  inversion Hnd; subst. destruct (k =? n) eqn:E.
  - apply String.eqb_eq in E. subst. split.
    + intro H. inversion H; auto.
    + intros [H|H]. inversion H; auto. exfalso. apply H1. apply (in_map fst) in H. auto.
  - rewrite IH by auto. split; auto. intros [H|H]; auto. inversion H; subst. rewrite String.eqb_refl in E. discriminate.
Qed.

(* os.walk as path resolution: r is yielded iff it is q ++ [fn] where q leads through directories (none called
   __pycache__) to a directory that holds the accepted file fn *)
Definition reaches (L : listing) (q : list string) (Lq : listing) : Prop :=
  get_node L q = Some (Dir Lq) /\ ~ In "__pycache__" q.

Definition deep_nodup (L : listing) : Prop := forall q Lq, get_node L q = Some (Dir Lq) -> NoDup (map fst Lq).

Lemma deep_nodup_sub : forall L n inner, deep_nodup L -> lookup_entry n L = Some (Dir inner) -> deep_nodup inner.
Proof.
  intros L n inner H Hl q Lq Hq. apply (H (n :: q)). simpl. rewrite Hl. auto.
Qed.

Lemma walk_resolves : forall nd pre r, match nd with Dir L => deep_nodup L | _ => True end ->
  (In r (walk pre nd) <->
   match nd with
   | File _ _ => False
   | Dir L => exists q fn Lq, r = pre ++ q ++ [fn] /\ reaches L q Lq /\ has_file fn Lq = true /\ accepted fn = true
   end).
Proof.
  induction nd as [a b|es IH] using node_ind'; intros pre r Hdn. simpl. tauto.
  rewrite walk_dir_in. split.
  - intros ([nm x] & He & Hr). unfold contrib in Hr. simpl in Hr. apply in_app_or in Hr. destruct Hr as [Hr|Hr].
    + destruct (is_file x && accepted nm) eqn:E; simpl in Hr; [|contradiction]. destruct Hr as [<-|[]].
      apply andb_true_iff in E. destruct E as [E1 E2].
      exists [], nm, es. split; auto. split. split; simpl; auto. split; auto.
      unfold has_file. pose proof (Hdn [] es eq_refl) as Hnd.
      apply (proj2 (lookup_entry_In_iff es nm x Hnd)) in He. rewrite He. destruct x; simpl in *; congruence.
    + destruct x as [a b|es']; [contradiction|]. destruct (nm =? "__pycache__") eqn:Epc; [contradiction|].
      pose proof (Hdn [] es eq_refl) as Hnd.
      pose proof (proj2 (lookup_entry_In_iff es nm (Dir es') Hnd) He) as Hl.
      apply (IH nm (Dir es') He (pre ++ [nm]) r (deep_nodup_sub es nm es' Hdn Hl)) in Hr.
      destruct Hr as (q & fn & Lq & -> & [Hg Hpc] & Hf & Ha).
      exists (nm :: q), fn, Lq. split. rewrite <- app_assoc. reflexivity.
      split; auto. split. simpl. rewrite Hl. auto.
      intros [H|H]; auto. subst. rewrite String.eqb_refl in Epc. discriminate.
  - intros (q & fn & Lq & -> & [Hg Hpc] & Hf & Ha).
    pose proof (Hdn [] es eq_refl) as Hnd.
    destruct q as [|nm q].
    + simpl in Hg. inversion Hg; subst Lq. unfold has_file in Hf.
      destruct (lookup_entry fn es) as [[a b|?]|] eqn:E; try discriminate.
      exists (fn, File a b). split. apply lookup_entry_In_iff; auto.
      unfold contrib. simpl. rewrite Ha. simpl. auto.
    + simpl in Hg. destruct (lookup_entry nm es) as [[a b|es']|] eqn:E; try discriminate.
      { destruct q; discriminate. }
      exists (nm, Dir es'). split. apply lookup_entry_In_iff; auto.
      unfold contrib. cbn [fst snd is_file andb app].
      destruct (nm =? "__pycache__") eqn:Epc. apply String.eqb_eq in Epc. exfalso. apply Hpc. left. auto.
      apply (IH nm (Dir es') (proj1 (lookup_entry_In_iff es nm (Dir es') Hnd) E) (pre ++ [nm])).
      eapply deep_nodup_sub; eauto.
      exists q, fn, Lq. split. rewrite <- app_assoc. reflexivity.
      split; auto. split; auto. intro H. apply Hpc. right. auto.
Qed.

Lemma get_node_app_dir : forall a l la b, get_node l a = Some (Dir la) -> get_node l (a ++ b) = get_node la b.
Proof.
  induction a as [|c r IH]; intros l la b H; simpl in *.
  - inversion H; subst. reflexivity.
  - destruct (lookup_entry c l) as [[ns pth|l']|] eqn:E; try discriminate.
    + destruct r; discriminate.
    + eapply IH; eauto.
Qed.

Lemma first_file_with_src : forall n L,
  (forall s, In s compiled_suffixes -> has_file (n ++ s)%string L = false) ->
  first_file_with n py_suffixes L = if has_file (n ++ ".py")%string L then Some (n ++ ".py")%string else None.
Proof.
  intros n L H. simpl.
  rewrite (H ext_suffix), (H ".abi3.so"), (H ".so"), (H ".pyc") by (simpl; auto 6). reflexivity.
Qed.

Lemma is_proper_prefix_app : forall (a b : list string), b <> [] -> is_proper_prefix a (a ++ b) = true.
Proof.
  induction a as [|x r IH]; intros b Hb; simpl.
  - destruct b; congruence.
  - rewrite String.eqb_refl. simpl. apply IH. auto.
Qed.

Section Importable.
  Variable U : universe.
  Variable D : path.
  Variable L0 : listing.
  Hypothesis HD : listing_at U D = Some L0.
  Hypothesis Hdn : deep_nodup L0.
  (* source-form package tree: no compiled file names, no pkgutil-style declaration *)
  Hypothesis Hsrc : forall q Lq, get_node L0 q = Some (Dir Lq) ->
    (forall n s, In s compiled_suffixes -> has_file (n ++ s)%string Lq = false) /\
    (forall ns pth, lookup_entry "__init__.py" Lq = Some (File ns pth) -> ns = false).
  Variable es : list entry.
  Hypothesis Hes : forall e, In e es <-> exists rel, In rel (walk [] (Dir L0)) /\ yields D rel e.

  Definition Dq (q : list string) : path := (fst D, snd D ++ q).

  Definition comp_ok (c : string) : Prop := c <> "" /\ has_dot c = false /\ c <> "__init__" /\ c <> "__pycache__".

  Lemma listing_at_Dq : forall q Lq, get_node L0 q = Some (Dir Lq) -> listing_at U (Dq q) = Some Lq.
  Proof.
    intros q Lq H. unfold listing_at, node_at, Dq in *. simpl.
    destruct (get_node (root U (fst D)) (snd D)) as [[ns pth|l]|] eqn:E; try discriminate.
    inversion HD; subst l. rewrite (get_node_app_dir _ _ _ q E). rewrite H. reflexivity.
  Qed.

  Lemma node_at_Dq_file : forall q Lq fn, get_node L0 q = Some (Dir Lq) ->
    node_at U (Dq (q ++ [fn])) = lookup_entry fn Lq.
  Proof.
    intros q Lq fn H. unfold node_at, Dq. simpl. unfold listing_at, node_at in HD.
    destruct (get_node (root U (fst D)) (snd D)) as [[ns pth|l]|] eqn:E; try discriminate.
    inversion HD; subst l. rewrite (get_node_app_dir _ _ _ (q ++ [fn]) E). rewrite get_node_snoc, H. reflexivity.
  Qed.

  Lemma sub_Dq : forall q c, sub (Dq q) c = Dq (q ++ [c]).
  Proof. intros. unfold sub, Dq. simpl. rewrite app_assoc. reflexivity. Qed.

  Lemma no_dots_app : forall (q : list string) n, existsb has_dot (q ++ [n]) = false ->
    existsb has_dot q = false /\ has_dot n = false.
  Proof. intros q n H. rewrite existsb_app in H. simpl in H. rewrite orb_false_r in H. apply orb_false_iff in H. auto. Qed.

  (* C1: a file n.py in a reachable directory is yielded as the plain module q.n *)
  Lemma module_file_entry : forall q Lq n,
    reaches L0 q Lq -> has_file (n ++ ".py")%string Lq = true -> comp_ok n -> existsb has_dot q = false ->
    exists e, In e es /\ entry_ok e = true /\ e_parts e = q ++ [n] /\ is_pyi e = false /\
              e_abs e = Dq (q ++ [(n ++ ".py")%string]) /\ name_to_yield (e_rel e) = YMod (e_parts e).
  Proof.
    intros q Lq n Hr Hf (Hn1 & Hn2 & Hn3 & Hn4) Hq.
    set (fn := (n ++ ".py")%string). set (rel := q ++ [fn]).
    assert (Hy : name_to_yield rel = YMod (q ++ [n])).
    { unfold name_to_yield, rel. rewrite last_last, List.removelast_last.
      unfold pl_suffix, pl_stem, fn. rewrite pl_split_py by auto. simpl.
      destruct (n =? "__init__") eqn:E. apply String.eqb_eq in E. contradiction. reflexivity. }
    exists (mkE (q ++ [n]) D rel). split; [|split; [|split; [|split; [|split]]]]; simpl; auto.
    - apply Hes. exists rel. split.
      + apply (walk_resolves (Dir L0) [] rel Hdn). exists q, fn, Lq. split; auto. split; auto. split; auto.
        unfold accepted, fn. rewrite os_ext_py by auto. reflexivity.
      + unfold yields. rewrite Hy. reflexivity.
    - unfold entry_ok. simpl. rewrite existsb_app. simpl. rewrite Hq, Hn2. simpl.
      unfold static_loadable, path_suffix, e_abs. simpl. unfold rel. rewrite app_assoc, last_last.
      unfold pl_suffix, fn. rewrite pl_split_py by auto. reflexivity.
    - unfold is_pyi, path_suffix, e_abs. simpl. unfold rel. rewrite app_assoc, last_last.
      unfold pl_suffix, fn. rewrite pl_split_py by auto. reflexivity.
  Qed.

  (* C2: an __init__.py in a reachable sub-directory n is yielded as the package q.n *)
  Lemma init_file_entry : forall q Lq n Lm,
    reaches L0 q Lq -> lookup_entry n Lq = Some (Dir Lm) -> has_file "__init__.py" Lm = true ->
    comp_ok n -> existsb has_dot q = false ->
    exists e, In e es /\ entry_ok e = true /\ e_parts e = q ++ [n] /\ is_pyi e = false /\
              e_abs e = Dq (q ++ [n; "__init__.py"]) /\ name_to_yield (e_rel e) = YInit (e_parts e).
  Proof.
    intros q Lq n Lm [Hg Hpc] Hl Hf (Hn1 & Hn2 & Hn3 & Hn4) Hq.
    set (rel := (q ++ [n]) ++ ["__init__.py"]).
    assert (Hy : name_to_yield rel = YInit (q ++ [n])).
    { unfold name_to_yield, rel. rewrite last_last, List.removelast_last. simpl.
      rewrite app_length. simpl. rewrite app_length. simpl.
      destruct (List.length q + 1 + 1 =? 1)%nat eqn:E; [apply Nat.eqb_eq in E; lia|]. reflexivity. }
    exists (mkE (q ++ [n]) D rel). split; [|split; [|split; [|split; [|split]]]]; simpl; auto.
    - apply Hes. exists rel. split.
      + apply (walk_resolves (Dir L0) [] rel Hdn). exists (q ++ [n]), "__init__.py", Lm. split; auto. split; [|split; auto].
        split. rewrite get_node_snoc, Hg. auto.
        intro H. apply in_app_or in H. destruct H as [H|[H|[]]]; auto.
      + unfold yields. rewrite Hy. reflexivity.
    - unfold entry_ok. simpl. rewrite existsb_app. simpl. rewrite Hq, Hn2. simpl.
      unfold static_loadable, path_suffix, e_abs. simpl. unfold rel. rewrite app_assoc, last_last. reflexivity.
    - unfold is_pyi, path_suffix, e_abs. simpl. unfold rel. rewrite app_assoc, last_last. reflexivity.
    - unfold e_abs, Dq. simpl. unfold rel. rewrite <- app_assoc. reflexivity.
  Qed.

  Definition stem_of (rel : list string) : string :=
    let fn := last rel "" in
    if (pl_suffix fn =? ".py") || (pl_suffix fn =? ".pyi") then pl_stem fn else before_first_dot (pl_stem fn).

  Lemma name_to_yield_init : forall rel p, name_to_yield rel = YInit p ->
    p = removelast rel /\ stem_of rel = "__init__".
  Proof.
    intros rel p H. unfold name_to_yield in H. fold (stem_of rel) in H.
    destruct (stem_of rel =? "__init__") eqn:E.
    - apply String.eqb_eq in E. destruct (List.length rel =? 1)%nat; inversion H. auto.
    - destruct ((pl_suffix (last rel "") =? ".py") || (pl_suffix (last rel "") =? ".pyi")); [discriminate|]. destruct (stem_of rel =? ""); discriminate.
  Qed.

  Lemma name_to_yield_mod : forall rel p, name_to_yield rel = YMod p ->
    p = removelast rel ++ [stem_of rel] /\ stem_of rel <> "__init__".
  Proof.
    intros rel p H. unfold name_to_yield in H. fold (stem_of rel) in H.
    destruct (stem_of rel =? "__init__") eqn:E.
    - destruct (List.length rel =? 1)%nat; discriminate.
    - apply String.eqb_neq in E. destruct ((pl_suffix (last rel "") =? ".py") || (pl_suffix (last rel "") =? ".pyi")).
      + inversion H. auto.
      + destruct (stem_of rel =? ""); inversion H. auto.
  Qed.

  (* where a yielded entry lives *)
  Lemma entry_shape : forall e q n, In e es -> e_parts e = q ++ [n] ->
    e_base e = D /\
    ((exists fn Lq, reaches L0 q Lq /\ has_file fn Lq = true /\ e_rel e = q ++ [fn] /\
                    name_to_yield (e_rel e) = YMod (e_parts e) /\ stem_of (e_rel e) = n) \/
     (exists fn Lq Lm, reaches L0 q Lq /\ lookup_entry n Lq = Some (Dir Lm) /\ n <> "__pycache__" /\ has_file fn Lm = true /\
                       e_rel e = q ++ [n; fn] /\ name_to_yield (e_rel e) = YInit (e_parts e) /\ stem_of (e_rel e) = "__init__")).
  Proof.
    intros e q n He Hp. apply Hes in He. destruct He as (rel & Hw & Hy).
    apply (walk_resolves (Dir L0) [] rel Hdn) in Hw. destruct Hw as (q' & fn & Lq' & Hrel & [Hg Hpc] & Hf & Ha).
    simpl in Hrel. unfold yields in Hy.
    destruct (name_to_yield rel) as [|parts|parts] eqn:Ey; try contradiction; subst e; simpl in *; split; auto.
    - right. destruct (name_to_yield_init _ _ Ey) as [Hparts Hst]. subst rel. rewrite List.removelast_last in Hparts.
      subst parts q'. rewrite get_node_snoc in Hg.
      destruct (get_node L0 q) as [[a b|Lq]|] eqn:Eq; try discriminate.
      exists fn, Lq, Lq'. repeat split; auto.
      + intro H. apply Hpc. apply in_or_app. auto.
      + intro H. apply Hpc. apply in_or_app. right. left. auto.
      + rewrite <- app_assoc. reflexivity.
    - left. destruct (name_to_yield_mod _ _ Ey) as [Hparts Hst]. subst rel. rewrite List.removelast_last in Hparts.
      subst parts. apply app_inj_tail in Hparts. destruct Hparts as [-> Hn].
      exists fn, Lq'. repeat split; auto.
  Qed.

  (* FileFinder in a source-form directory *)
  Lemma ff_src : forall q Lq n, get_node L0 q = Some (Dir Lq) ->
    file_finder U (Dq q) n =
      match lookup_entry n Lq with
      | Some (Dir Lm) =>
          if has_file "__init__.py" Lm then FFPkg (Dq (q ++ [n; "__init__.py"])) (Dq (q ++ [n]))
          else if has_file (n ++ ".py")%string Lq then FFMod (Dq (q ++ [(n ++ ".py")%string]))
          else FFPortion (Dq (q ++ [n]))
      | _ => if has_file (n ++ ".py")%string Lq then FFMod (Dq (q ++ [(n ++ ".py")%string])) else FFNothing
      end.
  Proof.
    intros q Lq n Hg. unfold file_finder. rewrite (listing_at_Dq q Lq Hg).
    destruct (Hsrc q Lq Hg) as [Hc _].
    rewrite (first_file_with_src n Lq (Hc n)).
    destruct (lookup_entry n Lq) as [[a b|Lm]|] eqn:El.
    - destruct (has_file (n ++ ".py")%string Lq); auto. rewrite sub_Dq. reflexivity.
    - assert (Hgm : get_node L0 (q ++ [n]) = Some (Dir Lm)) by (rewrite get_node_snoc, Hg; auto).
      destruct (Hsrc _ _ Hgm) as [Hcm _].
      rewrite (first_file_with_src "__init__" Lm (Hcm "__init__")).
      change ("__init__" ++ ".py")%string with "__init__.py".
      destruct (has_file "__init__.py" Lm).
      + rewrite !sub_Dq. rewrite <- app_assoc. reflexivity.
      + destruct (has_file (n ++ ".py")%string Lq); rewrite sub_Dq; reflexivity.
    - destruct (has_file (n ++ ".py")%string Lq); auto. rewrite sub_Dq. reflexivity.
  Qed.

  Lemma py_find_single : forall n d,
    py_find U n [d] =
      match file_finder U d n with
      | FFPkg init x => PyPkg init (if init_declares_ns U init then extend_path U [d] n x else [x])
      | FFMod f => PyMod f
      | FFPortion x => PyNs [x]
      | FFNothing => PyNone
      end.
  Proof. intros. unfold py_find. simpl. destruct (file_finder U d n); reflexivity. Qed.

  Lemma path_suffix_abs : forall e r fn, e_rel e = r ++ [fn] -> path_suffix (e_abs e) = pl_suffix fn.
  Proof. intros e r fn H. unfold path_suffix, e_abs. simpl. rewrite H. rewrite app_assoc, last_last. reflexivity. Qed.

  Lemma Dq_neq : forall q a b c, Dq (q ++ [a]) <> Dq (q ++ [b; c]).
  Proof.
    intros q a b c H. unfold Dq in H. inversion H as [H1]. apply app_inv_head in H1. apply app_inv_head in H1. discriminate.
  Qed.

  Lemma has_file_lookup : forall fn L, has_file fn L = true -> exists ns pth, lookup_entry fn L = Some (File ns pth).
  Proof. intros fn L H. unfold has_file in H. destruct (lookup_entry fn L) as [[ns pth|?]|]; try discriminate. eauto. Qed.

  Lemma reaches_fun : forall q L1 L2, reaches L0 q L1 -> reaches L0 q L2 -> L1 = L2.
  Proof. intros q L1 L2 [H1 _] [H2 _]. congruence. Qed.

  (* an entry yielded as a plain module is not kept as an __init__ module *)
  Lemma ymod_not_init : forall x q m, In x es -> entry_ok x = true -> e_parts x = q ++ [m] ->
    name_to_yield (e_rel x) = YMod (e_parts x) -> init_path (e_abs x) = false.
  Proof.
    intros x q m Hx Hok Hp Hy.
    destruct (name_to_yield_mod _ _ Hy) as [Hparts Hne].
    destruct (entry_shape x q m Hx Hp) as [_ [(fn & Lq & Hr & Hf & Hrel & _ & Hst)|(fn & Lq & Lm & _ & _ & _ & _ & _ & Hy2 & _)]];
      [|rewrite Hy in Hy2; discriminate].
    unfold init_path, is_init_name, e_abs. simpl. rewrite Hrel, app_assoc, last_last.
    pose proof (path_suffix_abs x q fn Hrel) as Hsuf.
    unfold entry_ok in Hok. apply andb_true_iff in Hok. destruct Hok as [Hd Hload]. apply negb_true_iff in Hd.
    rewrite Hp in Hd. apply no_dots_app in Hd. destruct Hd as [_ Hdm].
    unfold static_loadable in Hload. rewrite Hsuf in Hload.
    unfold stem_of in Hst, Hne. rewrite Hrel, last_last in Hst, Hne. rewrite Hload in Hst, Hne.
    rewrite <- (pl_split_app fn).
    destruct (pl_suffix fn =? ".py") eqn:Epy.
    - apply String.eqb_eq in Epy. rewrite Epy. change ".py" with (String "."%char "py"). rewrite bfd_app_dot.
      rewrite Hst, bfd_nodot by auto. apply String.eqb_neq. rewrite <- Hst. auto.
    - simpl in Hload. apply String.eqb_eq in Hload. rewrite Hload. change ".pyi" with (String "."%char "pyi"). rewrite bfd_app_dot.
      rewrite Hst, bfd_nodot by auto. apply String.eqb_neq. rewrite <- Hst. auto.
  Qed.

  (* which file the loader keeps for the name q: the candidate of the highest rank -- a regular module beats stubs,
     and within each kind the package's __init__ beats the module file (Proofs/C14_order.v: pickseq_best) *)
  Definition picked (q : list string) (p : path) : Prop :=
    exists a, In a es /\ entry_ok a = true /\ e_parts a = q /\ e_abs a = p /\
              forall b, In b es -> entry_ok b = true -> e_parts b = q -> rank b <= rank a.

  Lemma picked_entry : forall q p, picked q p ->
    exists a, In a es /\ entry_ok a = true /\ e_parts a = q /\ e_abs a = p /\
              (is_pyi a = true -> forall b, In b es -> entry_ok b = true -> e_parts b = q -> is_pyi b = true) /\
              (forall b, In b es -> entry_ok b = true -> e_parts b = q -> rank b <= rank a).
  Proof.
    intros q p (a & H1 & H2 & H3 & H4 & H5). exists a. repeat split; auto.
    intros Hpyi b Hb Hbo Hbp. specialize (H5 b Hb Hbo Hbp). unfold rank in H5. rewrite Hpyi in H5.
    destruct (is_pyi b); auto. destruct (init_path (e_abs a)), (init_path (e_abs b)); simpl in H5; lia.
  Qed.

  Lemma rank_init_py : forall e q n, e_abs e = Dq (q ++ [n; "__init__.py"]) -> rank e = 3.
  Proof.
    intros e q n H. unfold rank, is_pyi, init_path, path_suffix. rewrite H. unfold Dq. simpl.
    replace (snd D ++ q ++ [n; "__init__.py"]) with ((snd D ++ q ++ [n]) ++ ["__init__.py"]) by (rewrite <- !app_assoc; reflexivity).
    rewrite last_last. reflexivity.
  Qed.

  Lemma leaf_agrees : forall q Lq n f,
    reaches L0 q Lq -> picked (q ++ [n]) f -> comp_ok n ->
    agrees (MFile f) (py_find U n [Dq q]) = true.
  Proof.
    intros q Lq n f Hr Hpick Hn.
    destruct (picked_entry _ _ Hpick) as (a & Ha & Hok & Hp & Hf0 & Hall & Hmax). subst f.
    assert (Hdots : existsb has_dot q = false).
    { unfold entry_ok in Hok. apply andb_true_iff in Hok. destruct Hok as [Hd _]. apply negb_true_iff in Hd.
      rewrite Hp in Hd. apply no_dots_app in Hd. tauto. }
    assert (K1 : has_file (n ++ ".py")%string Lq = true -> exists e, In e es /\ entry_ok e = true /\ e_parts e = q ++ [n] /\
                   is_pyi e = false /\ e_abs e = Dq (q ++ [(n ++ ".py")%string])).
    { intro Hf. destruct (module_file_entry q Lq n Hr Hf Hn Hdots) as (e & H1 & H2 & H3 & H4 & H5 & _). eauto 8. }
    assert (K2 : forall Lm, lookup_entry n Lq = Some (Dir Lm) -> has_file "__init__.py" Lm = true ->
                 exists e, In e es /\ entry_ok e = true /\ e_parts e = q ++ [n] /\ is_pyi e = false /\
                           e_abs e = Dq (q ++ [n; "__init__.py"])).
    { intros Lm Hl Hf. destruct (init_file_entry q Lq n Lm Hr Hl Hf Hn Hdots) as (e & H1 & H2 & H3 & H4 & H5 & _). eauto 8. }
    rewrite py_find_single. rewrite (ff_src q Lq n (proj1 Hr)).
    destruct (entry_shape a q n Ha Hp) as [Hbase [(fn & Lq' & Hr' & Hf & Hrel & Hy & Hst)|(fn & Lq' & Lm & Hr' & Hl & Hnpc & Hf & Hrel & Hy & Hst)]];
      pose proof (reaches_fun _ _ _ Hr Hr'); subst Lq'.
    - (* a is the module file fn of the directory *)
      pose proof (path_suffix_abs a q fn Hrel) as Hsuf.
      assert (Habs : e_abs a = Dq (q ++ [fn])) by (unfold e_abs, Dq; rewrite Hbase, Hrel; reflexivity).
      pose proof Hok as Hok0. unfold entry_ok in Hok. apply andb_true_iff in Hok. destruct Hok as [_ Hload]. unfold static_loadable in Hload. rewrite Hsuf in Hload.
      unfold stem_of in Hst. rewrite Hrel, last_last in Hst. rewrite Hload in Hst.
      destruct (pl_suffix fn =? ".py") eqn:Epy.
      + apply String.eqb_eq in Epy.
        assert (Hfn : fn = (n ++ ".py")%string) by (rewrite <- (pl_split_app fn), Hst, Epy; reflexivity).
        subst fn.
        assert (Hnp : is_pyi a = false) by (unfold is_pyi; rewrite Hsuf, Epy; reflexivity).
        rewrite Hf.
        destruct (lookup_entry n Lq) as [[x y|Lm]|] eqn:El; simpl; try (rewrite Habs; apply path_eqb_refl).
        destruct (has_file "__init__.py" Lm) eqn:Ei; simpl; try (rewrite Habs; apply path_eqb_refl).
        exfalso. destruct (K2 Lm eq_refl Ei) as (e & H1 & H2 & H3 & H4 & H5).
        pose proof (Hmax e H1 H2 H3) as Hle. rewrite (rank_init_py e q n H5) in Hle.
        unfold rank in Hle. rewrite Hnp, (ymod_not_init a q n Ha Hok0 Hp Hy) in Hle. simpl in Hle. lia.
      + simpl in Hload.
        assert (Hpyi : is_pyi a = true) by (unfold is_pyi; rewrite Hsuf; auto).
        specialize (Hall Hpyi).
        assert (N1 : has_file (n ++ ".py")%string Lq = false).
        { destruct (has_file (n ++ ".py")%string Lq) eqn:E; auto. destruct (K1 eq_refl) as (e & H1 & H2 & H3 & H4 & _).
          rewrite (Hall e H1 H2 H3) in H4. discriminate. }
        rewrite N1.
        assert (Hres : path_suffix (e_abs a) =? ".pyi" = true) by (rewrite Hsuf; auto).
        destruct (lookup_entry n Lq) as [[x y|Lm]|] eqn:El; simpl; auto.
        destruct (has_file "__init__.py" Lm) eqn:Ei; simpl; auto.
        exfalso. destruct (K2 Lm eq_refl Ei) as (e & H1 & H2 & H3 & H4 & _). rewrite (Hall e H1 H2 H3) in H4. discriminate.
    - (* a is an __init__ file of the sub-directory n *)
      assert (Hrel' : e_rel a = (q ++ [n]) ++ [fn]) by (rewrite Hrel, <- app_assoc; reflexivity).
      pose proof (path_suffix_abs a (q ++ [n]) fn Hrel') as Hsuf.
      assert (Habs : e_abs a = Dq (q ++ [n; fn])) by (unfold e_abs, Dq; rewrite Hbase, Hrel; reflexivity).
      pose proof Hok as Hok0. unfold entry_ok in Hok. apply andb_true_iff in Hok. destruct Hok as [_ Hload]. unfold static_loadable in Hload. rewrite Hsuf in Hload.
      unfold stem_of in Hst. rewrite Hrel', last_last in Hst. rewrite Hload in Hst.
      rewrite Hl.
      destruct (pl_suffix fn =? ".py") eqn:Epy.
      + apply String.eqb_eq in Epy.
        assert (Hfn : fn = "__init__.py") by (rewrite <- (pl_split_app fn), Hst, Epy; reflexivity).
        subst fn. rewrite Hf. simpl. rewrite Habs. apply path_eqb_refl.
      + simpl in Hload.
        assert (Hpyi : is_pyi a = true) by (unfold is_pyi; rewrite Hsuf; auto).
        specialize (Hall Hpyi).
        assert (N1 : has_file (n ++ ".py")%string Lq = false).
        { destruct (has_file (n ++ ".py")%string Lq) eqn:E; auto. destruct (K1 eq_refl) as (e & H1 & H2 & H3 & H4 & _).
          rewrite (Hall e H1 H2 H3) in H4. discriminate. }
        assert (N2 : has_file "__init__.py" Lm = false).
        { destruct (has_file "__init__.py" Lm) eqn:E; auto. destruct (K2 Lm Hl E) as (e & H1 & H2 & H3 & H4 & _).
          rewrite (Hall e H1 H2 H3) in H4. discriminate. }
        rewrite N1, N2. simpl. rewrite Hsuf. auto.
  Qed.

  Lemma step_descend : forall q Lq m Lm r0 rest,
    get_node L0 q = Some (Dir Lq) -> lookup_entry m Lq = Some (Dir Lm) ->
    (has_file "__init__.py" Lm = false -> has_file (m ++ ".py")%string Lq = false) ->
    py_import U [Dq q] (m :: r0 :: rest) = py_import U [Dq (q ++ [m])] (r0 :: rest).
  Proof.
    intros q Lq m Lm r0 rest Hg Hl Hno.
    change (py_import U [Dq q] (m :: r0 :: rest)) with
      (match py_find U m [Dq q] with
       | PyPkg init locs => if executable init then py_import U locs (r0 :: rest) else PyErr
       | PyNs ds => py_import U ds (r0 :: rest)
       | PyMod f => if executable f then PyNone else PyErr
       | PyNone => PyNone
       | PyErr => PyErr
       end).
    rewrite py_find_single, (ff_src q Lq m Hg), Hl.
    destruct (has_file "__init__.py" Lm) eqn:Ei.
    - assert (Hgm : get_node L0 (q ++ [m]) = Some (Dir Lm)) by (rewrite get_node_snoc, Hg; auto).
      destruct (has_file_lookup _ _ Ei) as (ns & pth & Hli).
      destruct (Hsrc _ _ Hgm) as [_ Hdecl]. pose proof (Hdecl ns pth Hli). subst ns.
      assert (Hnd : init_declares_ns U (Dq (q ++ [m; "__init__.py"])) = false).
      { unfold init_declares_ns. replace (q ++ [m; "__init__.py"]) with ((q ++ [m]) ++ ["__init__.py"]) by (rewrite <- app_assoc; reflexivity).
        rewrite (node_at_Dq_file (q ++ [m]) Lm "__init__.py" Hgm), Hli. reflexivity. }
      rewrite Hnd.
      assert (Hex : executable (Dq (q ++ [m; "__init__.py"])) = true).
      { unfold executable, path_suffix, Dq. simpl. replace (snd D ++ q ++ [m; "__init__.py"]) with ((snd D ++ q ++ [m]) ++ ["__init__.py"]).
        rewrite last_last. reflexivity. rewrite <- !app_assoc. reflexivity. }
      rewrite Hex. reflexivity.
    - rewrite (Hno eq_refl). reflexivity.
  Qed.

  Lemma descend_agrees : forall rest q Lq f,
    reaches L0 q Lq -> rest <> [] -> picked (q ++ rest) f ->
    (forall c, In c rest -> comp_ok c) ->
    (forall q' m post, q ++ rest = q' ++ m :: post -> post <> [] ->
                       exists p, init_path p = true /\ picked (q' ++ [m]) p) ->
    agrees (MFile f) (py_import U [Dq q] rest) = true.
  Proof.
    induction rest as [|m rest IH]; intros q Lq f Hr Hne Hpick Hc Hpre. congruence.
    destruct rest as [|r0 rest'].
    - change (py_import U [Dq q] [m]) with (py_find U m [Dq q]).
      eapply leaf_agrees; eauto. apply Hc. left. auto.
    - destruct (picked_entry _ _ Hpick) as (a & Ha & Hok & Hp & _ & _ & _).
      assert (Hdots : existsb has_dot q = false).
      { unfold entry_ok in Hok. apply andb_true_iff in Hok. destruct Hok as [Hd _]. apply negb_true_iff in Hd.
        rewrite Hp, existsb_app in Hd. apply orb_false_iff in Hd. tauto. }
      destruct (Hpre q m (r0 :: rest') eq_refl) as (p & Hinit & Hpm). discriminate.
      destruct (picked_entry _ _ Hpm) as (x & Hx & Hxok & Hxp & Hxa & _ & Hxmax).
      destruct (entry_shape x q m Hx Hxp) as [_ [(fn & Lq' & Hr' & Hf & Hrel & Hy & Hst)|(fn & Lq' & Lm & Hr' & Hl & Hnpc & Hf & Hrel & Hy & Hst)]].
      + exfalso. rewrite <- Hxa in Hinit. rewrite (ymod_not_init x q m Hx Hxok Hxp Hy) in Hinit. discriminate.
      + pose proof (reaches_fun _ _ _ Hr Hr'). subst Lq'.
        rewrite (step_descend q Lq m Lm r0 rest' (proj1 Hr) Hl).
        * apply (IH (q ++ [m]) Lm f); auto.
          -- split. rewrite get_node_snoc, (proj1 Hr). auto.
             intro H. apply in_app_or in H. destruct H as [H|[H|[]]]; auto. destruct Hr as [_ Hpc]. auto.
          -- discriminate.
          -- rewrite <- app_assoc. exact Hpick.
          -- intros c Hcin. apply Hc. right. auto.
          -- intros q' m' post Heq Hpost. apply (Hpre q' m' post); auto. rewrite <- Heq, <- app_assoc. reflexivity.
        * intros Hnoinit. destruct (has_file (m ++ ".py")%string Lq) eqn:E; auto. exfalso.
          destruct (module_file_entry q Lq m Hr E (Hc m (or_introl eq_refl)) Hdots) as (e & H1 & H2 & H3 & H4 & H5 & H6).
          (* the kept file x is an __init__ of the directory m and ranks at least as high as the module file m.py:
             it is not a stub, hence it is __init__.py -- which the directory does not have *)
          pose proof (Hxmax e H1 H2 H3) as Hle. unfold rank in Hle. rewrite H4 in Hle.
          assert (Hxn : is_pyi x = false).
          { destruct (is_pyi x); auto. destruct (init_path (e_abs x)), (init_path (e_abs e)); simpl in Hle; lia. }
          assert (Hrel' : e_rel x = (q ++ [m]) ++ [fn]) by (rewrite Hrel, <- app_assoc; reflexivity).
          pose proof (path_suffix_abs x (q ++ [m]) fn Hrel') as Hsuf.
          pose proof Hxok as Hld. unfold entry_ok in Hld. apply andb_true_iff in Hld. destruct Hld as [_ Hld].
          unfold static_loadable in Hld. rewrite Hsuf in Hld.
          unfold is_pyi in Hxn. rewrite Hsuf in Hxn. rewrite Hxn, orb_false_r in Hld. apply String.eqb_eq in Hld.
          unfold stem_of in Hst. rewrite Hrel', last_last in Hst. rewrite Hld in Hst. simpl in Hst.
          assert (Hfn : fn = "__init__.py") by (rewrite <- (pl_split_app fn), Hst, Hld; reflexivity).
          subst fn. congruence.
  Qed.
End Importable.

Lemma chain_prefix : forall E todo cur, chain E cur todo = true ->
  forall t1 x t2, todo = t1 ++ x :: t2 -> init_at E (cur ++ t1 ++ [x]) = true.
Proof.
  induction todo as [|p r IH]; intros cur H t1 x t2 Heq. destruct t1; discriminate.
  simpl in H. apply andb_true_iff in H. destruct H as [H1 H2].
  destruct t1 as [|y t1]; simpl in Heq; inversion Heq; subst.
  - simpl. auto.
  - specialize (IH (cur ++ [y]) H2 t1 x t2 eq_refl). rewrite <- app_assoc in IH. simpl in IH. auto.
Qed.

Lemma removelast_app_cons : forall (q : list string) m post, post <> [] ->
  removelast (q ++ m :: post) = q ++ m :: removelast post.
Proof.
  intros q m post H. rewrite removelast_app by discriminate. f_equal.
  simpl. destruct post; [congruence|reflexivity].
Qed.

Lemma deep_nodup_wf : forall n, match n with Dir L => deep_nodup L -> wf_node (Dir L) | File _ _ => True end.
Proof.
  induction n as [a b|es IH] using node_ind'; auto. intros Hdn.
  pose proof (Hdn [] es eq_refl) as Hnd. constructor; auto.
  intros n x Hin. destruct x as [a b|L']. constructor.
  apply (IH n (Dir L') Hin). apply (deep_nodup_sub es n L' Hdn). apply lookup_entry_In_iff; auto.
Qed.

(* Every module the static loader puts below a regular package is the module CPython imports at that dotted name
   from that file, or is stub-only -- on source-form package trees.  No side condition about files claiming one
   module name is left: a module file beside the package of the same name loses against it on both sides. *)
Theorem loaded_importable_regular :
  forall U D L0 top k f,
  listing_at U D = Some L0 -> deep_nodup L0 ->
  (forall q Lq, get_node L0 q = Some (Dir Lq) ->
     (forall n s, In s compiled_suffixes -> has_file (n ++ s)%string Lq = false) /\
     (forall ns pth, lookup_entry "__init__.py" Lq = Some (File ns pth) -> ns = false)) ->
  lookup_m k (run top (depth_sort (flat_map (ylist D) (walk [] (Dir L0))))) = Some (MFile f) -> k <> [] ->
  (forall c, In c k -> c <> "" /\ c <> "__init__" /\ c <> "__pycache__") ->
  agrees (MFile f) (py_import U [D] k) = true.
Proof.
  intros U D L0 top k f HD Hdn Hsrc Hlk Hk Hcomp.
  set (files := walk [] (Dir L0)) in *. set (es := flat_map (ylist D) files) in *.
  assert (Hes : forall e, In e es <-> exists rel, In rel files /\ yields D rel e).
  { intro e. unfold es. rewrite in_flat_map. split; intros (r & Hr & Hy); exists r; split; auto; apply ylist_yields; auto. }
  assert (Hfs : StronglySorted Rw files) by (apply walk_sorted; apply (deep_nodup_wf (Dir L0)); auto).
  assert (Hfn : forall r, In r files -> r <> []) by (intros r Hr; eapply walk_nonempty; eauto).
  assert (Hne : forall e, In e (depth_sort es) -> e_parts e <> []).
  { intros e He. apply (proj1 (depth_sort_In _ _)) in He. apply Hes in He. destruct He as (rel & Hw & Hy).
    apply (yields_parts_nonempty D rel e); auto. }
  destruct (run_spec top (depth_sort es) (depth_sort_sorted es) Hne) as [_ Hspec].
  rewrite Hspec in Hlk. rewrite spec_lookup_ne in Hlk by auto.
  destruct (chain (depth_sort es) [] (removelast k)) eqn:Hch; [|discriminate].
  destruct (pickseq (cands k (depth_sort es))) as [p|] eqn:Hpick; [|discriminate].
  simpl in Hlk. inversion Hlk; subst p. clear Hlk.
  (* from the merge of the candidates to the set-level description *)
  assert (Hpicked : forall q p, pickseq (cands q (depth_sort es)) = Some p -> picked es q p).
  { intros q p Hp. pose proof (pickseq_best _ (cands_Rf D files q Hfs Hfn)) as Hb. fold es in Hb. rewrite Hp in Hb.
    destruct Hb as (a & Ha & Hap & Hmax).
    assert (Hin : forall x, In x (cands q (depth_sort es)) <-> In x es /\ entry_ok x = true /\ e_parts x = q).
    { intro x. unfold cands. rewrite filter_In, depth_sort_In. unfold cand. rewrite andb_true_iff, lstr_eqb_eq. tauto. }
    apply Hin in Ha. destruct Ha as (H1 & H2 & H3). exists a. repeat split; auto.
    intros b Hb Hbo Hbp. apply Hmax. apply Hin. auto. }
  replace D with (Dq D []) by (unfold Dq; destruct D; simpl; rewrite app_nil_r; reflexivity).
  apply (descend_agrees U D L0 HD Hdn Hsrc es Hes k [] L0 f); auto.
  - split; simpl; auto.
  - intros c Hc.
    destruct (picked_entry es _ _ (Hpicked k f Hpick)) as (a & Ha & Hok & Hp & _ & _ & _).
    assert (has_dot c = false).
    { unfold entry_ok in Hok. apply andb_true_iff in Hok. destruct Hok as [Hd _]. apply negb_true_iff in Hd.
      rewrite Hp in Hd. destruct (has_dot c) eqn:E; auto.
      assert (existsb has_dot k = true) by (apply existsb_exists; exists c; auto). congruence. }
    destruct (Hcomp c Hc) as (H1 & H2 & H3). unfold comp_ok. repeat split; auto.
  - intros q' m post Heq Hpost. simpl in Heq.
    assert (Hrl : removelast k = q' ++ m :: removelast post) by (rewrite Heq; apply removelast_app_cons; auto).
    pose proof (chain_prefix _ _ _ Hch q' m (removelast post) Hrl) as Hi. simpl in Hi.
    unfold init_at in Hi. destruct (pickseq (cands (q' ++ [m]) (depth_sort es))) as [p|] eqn:Ep; [|discriminate].
    exists p. split; auto.
Qed.

(* ------------------------------------------------------------------------------------------------------------- *)
(* Part I.  Decidable forms of the hypotheses, and the theorem stated on the model's own load of a regular package *)

Lemma mem_str_In : forall x l, mem_str x l = true <-> In x l.
Proof.
  intros. unfold mem_str. rewrite existsb_exists. split.
  - intros (y & Hy & E). apply String.eqb_eq in E. subst. auto.
  - intro H. exists x. split; auto. apply String.eqb_refl.
Qed.

Lemma nodupb_sound : forall l, nodupb l = true -> NoDup l.
Proof.
  induction l; simpl; intro H. constructor. apply andb_true_iff in H. destruct H as [H1 H2].
  constructor; auto. intro Hin. apply mem_str_In in Hin. rewrite Hin in H1. discriminate.
Qed.

Lemma strip_suffix_app : forall n s, strip_suffix (n ++ s)%string s <> None.
Proof.
  assert (Hrefl : forall s, strip_suffix s s <> None).
  { intro s. destruct s; cbn [strip_suffix]; rewrite String.eqb_refl; intro H; discriminate. }
  induction n as [|c r IH]; intros s. apply Hrefl.
  change (String c r ++ s)%string with (String c (r ++ s)). cbn [strip_suffix].
  destruct (String c (r ++ s) =? s). intro H; discriminate.
  specialize (IH s). destruct (strip_suffix (r ++ s) s); [intro H; discriminate|congruence].
Qed.

Lemma srcb_sound : forall es, NoDup (map fst es) -> srcb es = true ->
  (forall n s, In s compiled_suffixes -> has_file (n ++ s)%string es = false) /\
  (forall ns pth, lookup_entry "__init__.py" es = Some (File ns pth) -> ns = false).
Proof.
  intros es Hnd H. unfold srcb in H. apply andb_true_iff in H. destruct H as [H1 H2]. split.
  - intros n s Hs. unfold has_file. destruct (lookup_entry (n ++ s)%string es) as [[a b|?]|] eqn:E; auto.
    exfalso. apply lookup_entry_In_iff in E; auto. rewrite forallb_forall in H1. specialize (H1 _ E). cbn [snd fst is_file negb orb] in H1.
    rewrite forallb_forall in H1. specialize (H1 s Hs). pose proof (strip_suffix_app n s).
    destruct (strip_suffix (n ++ s) s); [discriminate|congruence].
  - intros ns pth E. rewrite E in H2. destruct ns; [discriminate|reflexivity].
Qed.

Lemma tree_okb_deep : forall q L Lq, tree_okb (Dir L) = true -> get_node L q = Some (Dir Lq) -> tree_okb (Dir Lq) = true.
Proof.
  induction q as [|c r IH]; intros L Lq H Hg; simpl in Hg.
  - inversion Hg; subst. auto.
  - destruct (lookup_entry c L) as [[a b|L']|] eqn:E; try discriminate. destruct r; discriminate.
    destruct (lookup_entry_In _ _ _ E) as [k Hk].
    simpl in H. apply andb_true_iff in H. destruct H as [_ H]. rewrite forallb_forall in H. specialize (H _ Hk). simpl in H.
    eapply IH; eauto.
Qed.

Lemma tree_okb_hyps : forall L, tree_okb (Dir L) = true ->
  deep_nodup L /\
  (forall q Lq, get_node L q = Some (Dir Lq) ->
     (forall n s, In s compiled_suffixes -> has_file (n ++ s)%string Lq = false) /\
     (forall ns pth, lookup_entry "__init__.py" Lq = Some (File ns pth) -> ns = false)).
Proof.
  intros L H. split.
  - intros q Lq Hg. pose proof (tree_okb_deep q L Lq H Hg) as Hq. simpl in Hq.
    apply andb_true_iff in Hq. destruct Hq as [Hq _]. apply andb_true_iff in Hq. destruct Hq as [Hq _]. apply nodupb_sound. auto.
  - intros q Lq Hg. pose proof (tree_okb_deep q L Lq H Hg) as Hq. simpl in Hq.
    apply andb_true_iff in Hq. destruct Hq as [Hq _]. apply andb_true_iff in Hq. destruct Hq as [Hn Hs].
    apply srcb_sound; auto. apply nodupb_sound. auto.
Qed.

Theorem loaded_importable_regular_checked :
  forall U i dirc st M,
  in_domain U i dirc = true ->
  load_found false U (FPkg (i, dirc ++ ["__init__.py"]) st) = LOk M ->
  forall k f, lookup_m k M = Some (MFile f) -> key_okb k = true ->
  agrees (MFile f) (py_import U [(i, dirc)] k) = true.
Proof.
  intros U i dirc st M Hdom Hload k f Hlk Hkey.
  unfold in_domain in Hdom.
  destruct (node_at U (i, dirc)) as [[a b|L0]|] eqn:En; try discriminate.
  rename Hdom into Htree.
  destruct (tree_okb_hyps L0 Htree) as [Hdn Hsrc].
  unfold load_found in Hload.
  destruct (node_at U (i, dirc ++ ["__init__.py"])) as [[a b|?]|]; try discriminate.
  assert (Ei : iter_regular U (i, dirc ++ ["__init__.py"]) = Ok (flat_map (ylist (i, dirc)) (walk [] (Dir L0)))).
  { unfold iter_regular, start_dir. simpl. rewrite last_last. simpl. rewrite List.removelast_last.
    destruct (iter_files_flat (i, dirc) (portion_files U (i, dirc)) []) as (s & ->).
    unfold portion_files. rewrite En. reflexivity. }
  rewrite Ei in Hload. inversion Hload; subst M. clear Hload.
  unfold key_okb in Hkey. apply andb_true_iff in Hkey. destruct Hkey as [Hk1 Hk2].
  apply (loaded_importable_regular U (i, dirc) L0 (i, dirc ++ ["__init__.py"]) k f); auto.
  - unfold listing_at. rewrite En. reflexivity.
  - destruct k; [discriminate|congruence].
  - intros c Hc. rewrite forallb_forall in Hk2. specialize (Hk2 c Hc).
    apply andb_true_iff in Hk2. destruct Hk2 as [Hk2 H3]. apply andb_true_iff in Hk2. destruct Hk2 as [H1 H2].
    apply negb_true_iff in H1, H2, H3. apply String.eqb_neq in H1, H2, H3. auto.
Qed.

(* non-vacuity: an ordinary nested package is inside the domain, is loaded, and the conclusion is computed to hold *)
Example in_domain_example : in_domain U_ok2 1 ["aa"] = true.
Proof. vm_compute. reflexivity. Qed.
Example loaded_importable_example :
  exists M, load_found false U_ok2 (FPkg (1, ["aa"; "__init__.py"]) None) = LOk M /\
            lookup_m ["sub"; "x"] M = Some (MFile (1, ["aa"; "sub"; "x.py"])) /\
            agrees (MFile (1, ["aa"; "sub"; "x.py"])) (py_import U_ok2 [(1, ["aa"])] ["sub"; "x"]) = true /\
            lookup_m ["m"] M = Some (MFile (1, ["aa"; "m.py"])).
Proof. eexists. split. vm_compute. reflexivity. repeat split; vm_compute; reflexivity. Qed.
