(* C14, load by name or by path.  GriffeLoader.load(Path) goes through finder._module_name_path and
   finder._top_module_name, then loads the package of the top-level NAME it computed on the search paths, and finally
   looks the module name up in the collection.  For the path of a top-level directory of a search directory the
   result is the result of loading by name -- whichever search directory the package is finally found in. *)
From Coq Require Import List ZArith String Ascii Bool Arith Lia.
From Verif Require Import Lib.Sexp Model.C14_finder Proofs.C14_finder.
Import ListNotations.
Open Scope string_scope. Open Scope list_scope.

Lemma keep_loaded : forall l name,
  match l with LNotFound => LNotFound | LErr e => LErr e | LOk M => if name =? name then LOk M else LErr "KeyError" end = l.
Proof. intros l name. destruct l; auto. rewrite String.eqb_refl. reflexivity. Qed.

Lemma top_name_of_toplevel : forall U paths i name mp,
  In i paths -> ((mp = (i, [name]) /\ exists L, node_at U mp = Some (Dir L)) \/ exists fn, mp = (i, [name; fn])) ->
  top_module_name U paths mp = Some (name, None).
Proof.
  intros U paths i name mp Hin Hmp. unfold top_module_name.
  assert (Hm : mem_nat i paths = true) by (apply mem_nat_In; auto).
  destruct Hmp as [[-> (L & ->)]|(fn & ->)].
  - simpl. rewrite Hm. reflexivity.
  - destruct (node_at U (i, [name; fn])) as [[a b|l]|]; simpl; rewrite Hm; reflexivity.
Qed.

(* By the path of a top-level directory of a (possibly .pth-added) search directory = by name. *)
Theorem by_path_eq_by_name : forall U sps i name L,
  In i (g_paths U sps) -> node_at U (i, [name]) = Some (Dir L) ->
  load_by_path U sps (i, [name]) = BPLoaded name (load false U sps name).
Proof.
  intros U sps i name L Hin Hn. unfold load_by_path, module_name_path. rewrite Hn. simpl.
  destruct (first_init L) as [fn|].
  - rewrite (top_name_of_toplevel U (g_paths U sps) i name (sub (i, [name]) fn) Hin).
    + rewrite keep_loaded. reflexivity.
    + right. exists fn. reflexivity.
  - rewrite (top_name_of_toplevel U (g_paths U sps) i name (i, [name]) Hin) by (left; eauto).
    rewrite keep_loaded. reflexivity.
Qed.

(* ... and by the path of the package's __init__ file *)
Theorem by_init_path_eq_by_name : forall U sps i name fn ns pth,
  In i (g_paths U sps) -> node_at U (i, [name; fn]) = Some (File ns pth) -> pl_stem fn = "__init__" ->
  load_by_path U sps (i, [name; fn]) = BPLoaded name (load false U sps name).
Proof.
  intros U sps i name fn ns pth Hin Hn Hst. unfold load_by_path, module_name_path. rewrite Hn. simpl. rewrite Hst. simpl.
  rewrite (top_name_of_toplevel U (g_paths U sps) i name (i, [name; fn]) Hin) by (right; eauto).
  rewrite keep_loaded. reflexivity.
Qed.

(* A top-level directory of a directory that is NOT searched: that directory is searched first from then on *)
Theorem by_path_outside_search_paths : forall U sps i name L,
  ~ In i (g_paths U sps) -> node_at U (i, [name]) = Some (Dir L) -> first_init L = None ->
  has_entry "__init__.py" (root U i) = false ->
  load_by_path U sps (i, [name]) = BPLoaded name (load_found false U (g_find U name (i :: g_paths U sps) [])).
Proof.
  intros U sps i name L Hnin Hn Hfi Hroot. unfold load_by_path, module_name_path. rewrite Hn. simpl. rewrite Hfi.
  unfold top_module_name. rewrite Hn. simpl.
  assert (Hm : mem_nat i (g_paths U sps) = false).
  { destruct (mem_nat i (g_paths U sps)) eqn:E; auto. apply mem_nat_In in E. contradiction. }
  rewrite Hm. unfold listing_at, node_at. simpl. rewrite Hroot. rewrite keep_loaded. reflexivity.
Qed.

(* non-vacuity *)
Definition U_bp : universe :=
  [(0, [("aa", Dir [("m.py", File false [])])]);
   (1, [("aa", Dir [("__init__.py", File false []); ("n.py", File false []); ("sub", Dir [("__init__.py", File false [])])])]);
   (2, [("aa", Dir [("k.py", File false [])])])].
Example by_path_examples :
  load_by_path U_bp [0; 1] (1, ["aa"]) = BPLoaded "aa" (load false U_bp [0; 1] "aa") /\
  (exists M, load false U_bp [0; 1] "aa" = LOk M /\ lookup_m ["n"] M = Some (MFile (1, ["aa"; "n.py"]))) /\
  load_by_path U_bp [0; 1] (0, ["aa"]) = BPLoaded "aa" (load false U_bp [0; 1] "aa") /\
  load_by_path U_bp [0; 1] (1, ["aa"; "sub"]) = BPLoaded "aa" (LErr "KeyError") /\
  (exists M, load_by_path U_bp [0] (2, ["aa"]) = BPLoaded "aa" (LOk M) /\ lookup_m ["k"] M = Some (MFile (2, ["aa"; "k.py"])) /\
             lookup_m ["m"] M = Some (MFile (0, ["aa"; "m.py"]))) /\
  load_by_path U_bp [0; 1] (1, ["zz"]) = BPNotFound.
Proof.
  split. vm_compute; reflexivity. split. eexists. split; vm_compute; reflexivity.
  split. vm_compute; reflexivity. split. vm_compute; reflexivity.
  split. eexists. split; [|split]; vm_compute; reflexivity. vm_compute; reflexivity.
Qed.
