(* C04 proofs, part 3: the scope of a name written in a stubs file is that file's module, wherever the merge moves its objects. *)
From Coq Require Import List ZArith String Ascii Bool Arith Lia.
From Verif Require Import Lib.Sexp Model.C04_scope Proofs.C04_scope Model.C04_expr Proofs.C04_expr Model.C04_stubs.
Import ListNotations.
Open Scope string_scope.
Open Scope list_scope.
Open Scope nat_scope.

(* ---------------------------------------------------------------- lookups in attached / merged tables *)
Lemma lookup_attach : forall subs ms n, lookup n (attach subs ms) = if mem n subs then Some MObj else lookup n ms.
Proof.
  unfold attach. induction subs as [|s r IH]; intros ms n; simpl; [reflexivity|].
  rewrite IH. rewrite lookup_upd. destruct (String.eqb s n); simpl.
  - destruct (mem n r); reflexivity.
  - reflexivity.
Qed.

Lemma lookup_app : forall {A} n (l1 l2 : list (string * A)),
  lookup n (l1 ++ l2) = match lookup n l1 with Some x => Some x | None => lookup n l2 end.
Proof.
  intros A n. induction l1 as [|[k v] r IH]; intros l2; simpl; [reflexivity|].
  destruct (String.eqb k n); [reflexivity | apply IH].
Qed.

Lemma lookup_filter_key : forall {A} (q : string -> bool) n (l : list (string * A)),
  lookup n (filter (fun km => q (fst km)) l) = if q n then lookup n l else None.
Proof.
  intros A q n. induction l as [|[k v] r IH].
  - simpl. destruct (q n); reflexivity.
  - cbn [filter fst]. destruct (String.eqb_spec k n) as [E|Hne].
    + subst k. destruct (q n) eqn:Q.
      * cbn [lookup]. now rewrite String.eqb_refl.
      * exact IH.
    + destruct (q k).
      * cbn [lookup]. destruct (String.eqb_spec k n); [congruence|]. exact IH.
      * rewrite IH. cbn [lookup]. destruct (String.eqb_spec k n); [congruence | reflexivity].
Qed.

Lemma lookup_merge : forall C S n,
  lookup n (merge_ms C S) = match lookup n C with Some c => Some c | None => lookup n S end.
Proof.
  intros C S n. unfold merge_ms. rewrite lookup_app.
  destruct (lookup n C) as [c|] eqn:L; [reflexivity|].
  rewrite (lookup_filter_key (fun k => negb (is_some (lookup k C))) n S). now rewrite L.
Qed.

Lemma member_eqb_eq : forall a b, member_eqb a b = true -> a = b.
Proof. intros [|s] [|t] H; simpl in H; try discriminate; [reflexivity|]. apply String.eqb_eq in H. now subst. Qed.

(* ---------------------------------------------------------------- the walk sees a module frame only through its name and lookup *)
Definition same_lookup (n : string) (F F' : frame) : Prop :=
  fkind F = KModule /\ fkind F' = KModule /\ fname F = fname F' /\ lookup n (fmembers F) = lookup n (fmembers F').

Lemma path_of_congr : forall cs F F' rest, fname F = fname F' -> path_of (cs ++ F :: rest) = path_of (cs ++ F' :: rest).
Proof.
  induction cs as [|f cs IH]; intros F F' rest H.
  - simpl. destruct rest; now rewrite H.
  - change ((f :: cs) ++ F :: rest) with (f :: (cs ++ F :: rest)). change ((f :: cs) ++ F' :: rest) with (f :: (cs ++ F' :: rest)).
    destruct (cs ++ F :: rest) as [|a l] eqn:E1; [destruct cs; discriminate|].
    destruct (cs ++ F' :: rest) as [|a' l'] eqn:E2; [destruct cs; discriminate|].
    rewrite !path_of_cons. rewrite <- E1, <- E2. now rewrite (IH F F' rest H).
Qed.

Lemma nonempty_app : forall (cs : chain) F rest, nonempty (cs ++ F :: rest) = true.
Proof. intros [|a l] F rest; reflexivity. Qed.

Lemma g_bind_congr : forall f cs F F' rest n, fname F = fname F' ->
  g_bind f (cs ++ F :: rest) n = g_bind f (cs ++ F' :: rest) n.
Proof.
  intros f cs F F' rest n H. unfold g_bind, param_path, member_path.
  rewrite !nonempty_app. rewrite (path_of_congr cs F F' rest H).
  change (f :: cs ++ F :: rest) with ((f :: cs) ++ F :: rest). change (f :: cs ++ F' :: rest) with ((f :: cs) ++ F' :: rest).
  now rewrite (path_of_congr (f :: cs) F F' rest H).
Qed.

Lemma skip_classes_cons_ne : forall f c, c <> [] -> skip_classes (f :: c) = if is_class f then skip_classes c else f :: c.
Proof. intros f [|a l] H; [congruence | reflexivity]. Qed.
Lemma app_cons_ne : forall (cs : chain) F rest, cs ++ F :: rest <> [].
Proof. intros [|a l] F rest; discriminate. Qed.

Lemma skip_classes_app : forall cs F rest, is_class F = false ->
  exists cs', skip_classes (cs ++ F :: rest) = cs' ++ F :: rest /\
              forall F', is_class F' = false -> skip_classes (cs ++ F' :: rest) = cs' ++ F' :: rest.
Proof.
  induction cs as [|f cs IH]; intros F rest HF.
  - exists []. split.
    + simpl. destruct rest; [reflexivity|]. now rewrite HF.
    + intros F' HF'. simpl. destruct rest; [reflexivity|]. now rewrite HF'.
  - destruct (IH F rest HF) as (cs' & E & E').
    change ((f :: cs) ++ F :: rest) with (f :: (cs ++ F :: rest)).
    rewrite (skip_classes_cons_ne f _ (app_cons_ne cs F rest)).
    destruct (is_class f) eqn:Cf.
    + exists cs'. split; [exact E|].
      intros F' HF'. change ((f :: cs) ++ F' :: rest) with (f :: (cs ++ F' :: rest)).
      rewrite (skip_classes_cons_ne f _ (app_cons_ne cs F' rest)), Cf. now apply E'.
    + exists (f :: cs). split; [reflexivity|].
      intros F' HF'. change ((f :: cs) ++ F' :: rest) with (f :: (cs ++ F' :: rest)).
      now rewrite (skip_classes_cons_ne f _ (app_cons_ne cs F' rest)), Cf.
Qed.

Lemma module_not_class : forall F, fkind F = KModule -> is_class F = false /\ is_module F = true /\ is_function F = false.
Proof. intros F H. unfold is_class, is_module, is_function. now rewrite H. Qed.

Lemma resolve_v_module_congr : forall sk n F F' rest, same_lookup n F F' ->
  forall cs skipping, resolve_v sk skipping (cs ++ F :: rest) n = resolve_v sk skipping (cs ++ F' :: rest) n.
Proof.
  intros sk n F F' rest (KF & KF' & HN & HL).
  destruct (module_not_class F KF) as (CF & MF & FF). destruct (module_not_class F' KF') as (CF' & MF' & FF').
  induction cs as [|f cs IH]; intros skipping.
  - simpl app. rewrite !resolve_v_cons. rewrite CF, CF', !andb_false_r. simpl andb. cbv iota.
    rewrite !g_bind_nonfunction by assumption. rewrite HL.
    assert (P : path_of (F :: rest) = path_of (F' :: rest)) by (apply (path_of_congr [] F F' rest HN)).
    unfold member_path. rewrite P. destruct (lookup n (fmembers F')); [reflexivity|]. now rewrite MF, MF'.
  - change ((f :: cs) ++ F :: rest) with (f :: (cs ++ F :: rest)). change ((f :: cs) ++ F' :: rest) with (f :: (cs ++ F' :: rest)).
    rewrite !resolve_v_cons. rewrite !nonempty_app. rewrite (g_bind_congr f cs F F' rest n HN).
    destruct (skipping && is_class f && true); [apply IH|].
    destruct (g_bind f (cs ++ F' :: rest) n); [reflexivity|].
    destruct (is_module f); [reflexivity|].
    assert (T : exists cs', (if sk && is_class f then skip_classes (cs ++ F :: rest) else cs ++ F :: rest) = cs' ++ F :: rest
                         /\ (if sk && is_class f then skip_classes (cs ++ F' :: rest) else cs ++ F' :: rest) = cs' ++ F' :: rest).
    { destruct (sk && is_class f).
      - destruct (skip_classes_app cs F rest CF) as (cs' & E & E'). exists cs'. split; [exact E | now apply E'].
      - exists cs. split; reflexivity. }
    destruct T as (cs' & E1 & E2). rewrite E1, E2.
    destruct cs' as [|g cs''].
    + simpl app. cbv iota. rewrite MF, MF'. simpl negb. rewrite !andb_false_r. apply IH.
    + pose proof (path_of_congr (g :: cs'') F F' rest HN) as P.
      change ((g :: cs'') ++ F :: rest) with (g :: (cs'' ++ F :: rest)) in *.
      change ((g :: cs'') ++ F' :: rest) with (g :: (cs'' ++ F' :: rest)) in *.
      cbv iota. rewrite P.
      destruct (String.eqb n (fname g) && negb (is_module g)); [reflexivity | apply IH].
Qed.

(* ---------------------------------------------------------------- the scope rule *)
(* Expressions that keep the stubs scope chain (objects defined on both sides, merged annotations): for every form of the
   walk, every frames cs above the module (classes, __init__) and every name, resolution in the stubs module equals
   resolution in the reference module (stubs text as the module) unless the name is a submodule that the stubs module does not
   itself hold (C04-F7). *)
Theorem stub_scope_kept : forall sk f subs S rest cs n,
  fkind f = KModule -> gap_stub_kept subs S n = false ->
  resolve_v sk false (cs ++ stub_frame f S :: rest) n = resolve_v sk false (cs ++ reference_frame f subs S :: rest) n.
Proof.
  intros sk f subs S rest cs n K G. apply resolve_v_module_congr.
  unfold same_lookup, stub_frame, reference_frame, with_members. simpl. repeat split; auto.
  rewrite lookup_attach. unfold gap_stub_kept in G.
  destruct (mem n subs); simpl in G; [|reflexivity].
  destruct (lookup n S) as [[|t]|]; simpl in G; try discriminate. reflexivity.
Qed.

(* An object declared in the stubs only is moved into the concrete module: its chain ends in the merged module (concrete
   members, plus the names only the stubs bind -- import aliases included --, plus the submodules).  Resolution equals
   resolution in the reference module unless the concrete module binds the name differently from the stubs. *)
Theorem stub_scope_moved : forall sk f subs C S rest cs n,
  fkind f = KModule -> gap_stub_moved subs C S n = false ->
  resolve_v sk false (cs ++ merged_frame f subs C S :: rest) n = resolve_v sk false (cs ++ reference_frame f subs S :: rest) n.
Proof.
  intros sk f subs C S rest cs n K G. apply resolve_v_module_congr.
  unfold same_lookup, merged_frame, reference_frame, with_members. simpl. repeat split; auto.
  rewrite !lookup_attach. unfold gap_stub_moved in G.
  destruct (mem n subs); simpl in G; [reflexivity|].
  rewrite lookup_merge. destruct (lookup n C) as [c|]; [|reflexivity].
  destruct (lookup n S) as [s|]; [|discriminate].
  apply negb_false_iff in G. now rewrite (member_eqb_eq c s G).
Qed.

(* when the .py binds a subset of what the .pyi binds, with the same meaning, nothing is excused for moved objects *)
Corollary stub_scope_moved_subset : forall sk f subs C S rest cs n,
  fkind f = KModule ->
  (forall k c, lookup k C = Some c -> lookup k S = Some c) ->
  resolve_v sk false (cs ++ merged_frame f subs C S :: rest) n = resolve_v sk false (cs ++ reference_frame f subs S :: rest) n.
Proof.
  intros sk f subs C S rest cs n K H. apply stub_scope_moved; [exact K|].
  unfold gap_stub_moved. destruct (mem n subs); [reflexivity|]. simpl.
  destruct (lookup n C) as [c|] eqn:L; [|reflexivity]. rewrite (H n c L).
  destruct c as [|t]; simpl; [reflexivity|]. now rewrite String.eqb_refl.
Qed.

(* C04-F7: the kept scope misses a submodule that __init__.pyi imports from its own package (no alias is recorded) *)
Definition s_pkg := mkFrame KModule "pkg" [] [].
Definition s_F := mkFrame KClass "F" [("u", MObj)] [].
Lemma stub_submodule_refuted :
  exists f subs S cs n, fkind f = KModule /\ gap_stub_kept subs S n = true /\
    resolve_v true false (cs ++ stub_frame f S :: []) n <> resolve_v true false (cs ++ reference_frame f subs S :: []) n.
Proof. exists s_pkg, ["a"; "b"], [("F", MObj)], [s_F], "a". repeat split; try reflexivity. vm_compute. discriminate. Qed.

(* the seeded change C04-m11 (stub-only import aliases no longer merged) in the model: the moved scope loses the name *)
Example stub_values :
  let S := [("Color", MAlias "pkg.types.Color"); ("K", MObj); ("x", MObj)] in
  let C := [("x", MObj)] in
  resolve_v true false ([s_F] ++ merged_frame s_pkg ["types"] C S :: []) "Color" = Some "pkg.types.Color"
  /\ resolve_v true false ([s_F] ++ reference_frame s_pkg ["types"] S :: []) "Color" = Some "pkg.types.Color"
  /\ resolve_v true false ([s_F] ++ with_members s_pkg (attach ["types"] C) :: []) "Color" = None
  /\ gap_stub_moved ["types"] C S "Color" = false /\ gap_stub_moved ["types"] [("x", MAlias "q.x")] S "x" = true
  /\ gap_stub_kept ["types"] S "types" = true /\ gap_stub_kept ["types"] S "K" = false
  /\ resolve_v true false ([s_F] ++ stub_frame s_pkg S :: []) "types" = None
  /\ resolve_v true false ([s_F] ++ reference_frame s_pkg ["types"] S :: []) "types" = Some "pkg.types".
Proof. vm_compute. repeat split. Qed.
