(* C03 proofs, part 5: the unqualified render statement is false of the faithful model — one computed witness per
   known-gap family — and examples showing the hypotheses of the theorems are satisfiable by non-trivial inputs. *)
From Coq Require Import List ZArith String Ascii Bool Arith Lia.
From Verif Require Import Lib.Sexp Model.C03_ops Gen.C03_tables Model.C03_expr Model.C03_spec
  Proofs.C03_ind Proofs.C03_iter Proofs.C03_rule Proofs.C03_render Proofs.C03_names.
Import ListNotations.
Open Scope string_scope. Open Scope list_scope. Open Scope nat_scope.

(* the statement one would like: for every well-formed tree, Griffe's text is the reference text *)
Definition render_claim (top : nat) (e : pyexpr) : Prop :=
  exists g, build ctx0 e = Some g /\ render g = ref_top top e.

Definition refutes (fam : nat) (e : pyexpr) : Prop :=
  wf e = true /\ In fam (gaps_top P_TEST e) /\ ~ render_claim P_TEST e.

Ltac refute :=
  split; [reflexivity|split; [vm_compute; tauto|]];
  let g := fresh "g" in let B := fresh "B" in let R := fresh "R" in
  intros [g [B R]]; vm_compute in B; first [discriminate B | inversion B; subst; vm_compute in R; discriminate R].

Definition a := PName "a". Definition b := PName "b". Definition c := PName "c".
Definition comp1 := PComprehension (PName "x") (PName "y") [] false.

(* (a + b) * c  ->  a + b * c *)
Definition w_F1 := PBinOp (PBinOp a B_Add b) B_Mult c.
Lemma refuted_F1 : refutes G_GROUP w_F1. Proof. refute. Qed.
(* f'{a}{'{'}' : literal brace not doubled *)
Definition w_F3 := PJoinedStr [PFormattedValue a (-1) None; PStr "'{'" "{" None].
Lemma refuted_F3 : refutes G_FSTRING w_F3. Proof. refute. Qed.
(* lambda *a, k: 0  ->  lambda *a, *, k: 0 *)
Definition w_F4 := PLambda [] [] (Some "a") [PParam "k" None] None (PNum true "0").
Lemma refuted_F4 : refutes G_LAMBDA w_F4. Proof. refute. Qed.
(* lambda p, /: 0  ->  lambda p: 0 *)
Definition w_F4b := PLambda [PParam "p" None] [] None [] None (PNum true "0").
Lemma refuted_F4b : refutes G_LAMBDA w_F4b. Proof. refute. Qed.
(* (x for x in y)  ->  x for x in y *)
Definition w_F6 := PGeneratorExp (PName "x") [comp1].
Lemma refuted_F6 : refutes G_GENEXP w_F6. Proof. refute. Qed.
(* a[()]  ->  a[] *)
Definition w_F7 := PSubscript a false (PTuple []).
Lemma refuted_F7 : refutes G_EMPTY_SLICE_TUPLE w_F7. Proof. refute. Qed.
(* [(yield)]  ->  [yield] *)
Definition w_F8 := PList [PYield None].
Lemma refuted_F8 : refutes G_YIELD w_F8. Proof. refute. Qed.
(* (1).real  ->  1.real *)
Definition w_F9 := PAttribute (PNum true "1") "real".
Lemma refuted_F9 : refutes G_INT_ATTR w_F9. Proof. refute. Qed.
(* f(await x): nothing is stored *)
Definition w_F10 := PCall (PName "f") [PAwait (PName "x")] [].
Lemma refuted_F10 : refutes G_AWAIT w_F10. Proof. refute. Qed.
(* repaired defects (F2 dict unpacking, F5 dict comprehension spacing, F11 in_subscript leak, F12 non-finite literals):
   their former witnesses are now inside the theorem's domain and render exactly as the reference printer does *)
Definition w_F2 := PDict [PDictItem None a].
Definition w_F5 := PDictComp a b [comp1].
Definition w_F11 := PSubscript a false (PCall (PName "f") [PTuple [PNum true "1"; PNum true "2"]] []).
Definition w_F12 := PList [PNum false "inf"; PNum false "infj"; PNum false "1.5"; PNum true "7"].
Example repaired_witnesses_gapfree :
  forallb (fun e => wf e && negb (known_gap P_TEST e)) [w_F2; w_F5; w_F11; w_F12] = true.
Proof. reflexivity. Qed.
Example repaired_witnesses_text :
  map (fun e => option_map render (build ctx0 e)) [w_F2; w_F5; w_F11; w_F12]
  = [Some "{**a}"; Some "{a: b for x in y}"; Some "a[f((1, 2))]"; Some "[1e309, 1e309j, 1.5, 7]"].
Proof. reflexivity. Qed.

Theorem render_claim_refuted : exists e, wf e = true /\ ~ render_claim P_TEST e.
Proof. exists w_F1. destruct refuted_F1 as [H [_ H']]. split; assumption. Qed.

(* ---------- the hypotheses are satisfiable by non-trivial inputs ---------- *)
(* an if-expression over a subscript with slice, a comparison, and a call with starred argument and a lambda keyword: gap-free *)
Definition ex_big :=
  PIfExp (PSubscript (PAttribute a "b") false (PTuple [c; PSlice (Some (PName "x")) (Some (PName "y")) None]))
         (PUnaryOp U_Not (PCompare a [C_Lt] [b]))
         (PCall (PName "f") [PStarred c]
            [PKeyword (Some "k") (PLambda [PParam "p" None] [PParam "q" (Some (PNum true "1"))] None [PParam "r" None] None
                                          (PBinOp (PName "p") B_Pow (PUnaryOp U_USub (PName "q"))))]).
Example ex_big_gapfree : wf ex_big = true /\ known_gap P_TEST ex_big = false. Proof. split; reflexivity. Qed.
Example ex_big_text :
  option_map render (build ctx0 ex_big) = Some "a.b[c, x:y] if not a < b else f(*c, k=lambda p, /, q=1, *, r: p ** -q)".
Proof. reflexivity. Qed.

(* Optional["List['int']"] as an annotation: the outer string is code, the inner one stays a string; Literal["x"] keeps its string *)
Definition ex_ann :=
  PTuple [PSubscript (PName "Optional") false
            (PStr """List['int']""" "List['int']"
               (Some (PSubscript (PName "List") false (PStr "'int'" "int" (Some (PName "int"))))));
          PSubscript (PName "Literal") true (PStr "'x'" "x" (Some (PName "x")))].
Example ex_ann_rule :
  no_parsed ex_ann = true /\
  option_map render (build (mkCtx (Parse false) false false false) ex_ann) = Some "(Optional[List['int']], Literal['x'])" /\
  option_map render (build ctx0 ex_ann) = Some "(Optional[""List['int']""], Literal['x'])".
Proof. repeat split; reflexivity. Qed.

Example ex_names :
  option_map (fun g => item_names (iterate true g)) (build ctx0 ex_big)
  = Some ["a"; "b"; "c"; "x"; "y"; "a"; "b"; "f"; "c"; "p"; "q"].
Proof. reflexivity. Qed.

(* ---------- dotted chains keep the parent links that name resolution follows ---------- *)
Fixpoint chain_expr (root : pyexpr) (attrs : list string) : pyexpr :=
  match attrs with [] => root | x :: r => chain_expr (PAttribute root x) r end.

(* the names after the root: each one's parent is the name before it, whose dotted path is [path] *)
Fixpoint chain_names (path : string) (attrs : list string) : list gexpr :=
  match attrs with
  | [] => []
  | x :: r => GName x (ParName path) :: chain_names (path ++ "." ++ x) r
  end.

Lemma chain_step (m : pmode) (j f : bool) (e : pyexpr) (vs : list gexpr) (path : string) (attrs : list string) :
  build (mkCtx m false j f) e = Some (GAttribute vs) -> gname_path (last vs (GStr "")) = path ->
  build (mkCtx m false j f) (chain_expr e attrs) = Some (GAttribute (vs ++ chain_names path attrs)).
Proof.
  revert e vs path. induction attrs as [|x r IH]; intros e vs path Hb Hp.
  - simpl. rewrite app_nil_r. exact Hb.
  - cbn [chain_expr chain_names].
    rewrite (IH (PAttribute e x) (vs ++ [GName x (ParName path)]) (path ++ "." ++ x)%string).
    + rewrite <- app_assoc. reflexivity.
    + cbn [build enter keeps_insub pm insub injoin infmt mapped node_builder]. rewrite Hb. cbn [attach_attr]. rewrite Hp. reflexivity.
    + rewrite last_last. reflexivity.
Qed.

Lemma chain_head (e : pyexpr) (x : string) (attrs : list string) : exists e' z, chain_expr e (x :: attrs) = PAttribute e' z.
Proof.
  revert e x. induction attrs as [|y r IH]; intros e x; [exists e, x; reflexivity|].
  change (chain_expr e (x :: y :: r)) with (chain_expr (PAttribute e x) (y :: r)). apply IH.
Qed.

Theorem dotted_chain_parent_links (cx : bctx) (r x : string) (attrs : list string) :
  build cx (chain_expr (PName r) (x :: attrs)) = Some (GAttribute (GName r ParScope :: chain_names r (x :: attrs))).
Proof.
  destruct cx as [m s j f].
  assert (Hs : build (mkCtx m s j f) (chain_expr (PName r) (x :: attrs)) = build (mkCtx m false j f) (chain_expr (PName r) (x :: attrs))).
  { destruct (chain_head (PName r) x attrs) as [e' [z ->]]. reflexivity. }
  rewrite Hs. cbn [chain_expr chain_names].
  rewrite (chain_step m j f (PAttribute (PName r) x) [GName r ParScope; GName x (ParName r)] (r ++ "." ++ x)%string attrs).
  - reflexivity.
  - reflexivity.
  - reflexivity.
Qed.

Example dotted_example :
  option_map (fun g => map gname_path (match g with GAttribute vs => vs | _ => [] end)) (build ctx0 (chain_expr (PName "a") ["b"; "c"]))
  = Some ["a"; "a.b"; "a.b.c"].
Proof. reflexivity. Qed.
