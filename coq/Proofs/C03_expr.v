(* C03 proofs, part 5: the unqualified statements are false of the faithful model of the unrepaired printer — one computed
   witness per known-gap family; with every repair the same witnesses are inside the theorem's domain; examples showing the
   hypotheses of the theorems are satisfiable by non-trivial inputs; the generated precedence table is the model's. *)
From Coq Require Import List ZArith String Ascii Bool Arith Lia.
From Verif Require Import Lib.Sexp Model.C03_ops Gen.C03_tables Model.C03_expr Model.C03_spec Model.C03_run
  Proofs.C03_ind Proofs.C03_iter Proofs.C03_rule Proofs.C03_render Proofs.C03_names.
Import ListNotations.
Open Scope string_scope. Open Scope list_scope. Open Scope nat_scope.

(* the statement one would like: for every well-formed tree, Griffe's text is the reference text *)
Definition render_claim (fx : fixes) (top : nat) (e : pyexpr) : Prop :=
  exists g, build fx [] ctx0 e = Some g /\ render fx g = ref_top top e.

(* e is in gap family fam of the printer fx, and the claim fails there *)
Definition refutes (fx : fixes) (fam : nat) (e : pyexpr) : Prop :=
  wf e = true /\ In fam (gaps_top fx P_TEST e) /\ ~ render_claim fx P_TEST e.

Ltac refute :=
  split; [reflexivity|split; [vm_compute; tauto|]];
  let g := fresh "g" in let B := fresh "B" in let R := fresh "R" in
  intros [g [B R]]; vm_compute in B; first [discriminate B | inversion B; subst; vm_compute in R; discriminate R].

Definition a := PName "a" false. Definition b := PName "b" false. Definition c := PName "c" false.
Definition comp1 := PComprehension (PName "x" false) (PName "y" false) [] false.

(* the two gap families that remain in the tree (every repair present): *)
(* a bare yield stored from a position that needs an expression (a default, an annotation): `yield` instead of `(yield)` *)
Definition w_F8 := PYield None.
Lemma refuted_F8 : refutes fx_all G_YIELD w_F8. Proof. refute. Qed.
(* f(await x): nothing is stored *)
Definition w_F10 := PCall (PName "f" false) [PAwait (PName "x" false)] [].
Lemma refuted_F10 : refutes fx_all G_AWAIT w_F10. Proof. refute. Qed.

(* regression examples: the witnesses of the repaired defects.  Each is in its gap family and refutes the claim for the
   printer WITHOUT the repairs (fx_none), and is gap-free and renders as the reference printer does WITH them (below) *)
Definition w_F1 := PBinOp (PBinOp a B_Add b) B_Mult c.                                   (* (a + b) * c  ->  a + b * c *)
Definition w_F3 := PJoinedStr [PFormattedValue a (-1) None; PStr "'{'" "{" None].          (* literal brace not doubled *)
Definition w_F3b := PJoinedStr [PFormattedValue a 114 (Some (PJoinedStr [PStr "'>'" ">" None; PFormattedValue b (-1) None]))].
Definition w_F4 := PLambda [] [] (Some "a") [PParam "k" None] None (PNum true "0").          (* lambda *a, k: 0 -> lambda *a, *, k: 0 *)
Definition w_F4b := PLambda [PParam "p" None] [] None [] None (PNum true "0").               (* lambda p, /: 0 -> lambda p: 0 *)
Definition w_F6 := PGeneratorExp (PName "x" false) [comp1].                                  (* (x for x in y) -> x for x in y *)
Definition w_F7 := PSubscript a false (PTuple []).                                           (* a[()] -> a[] *)
Definition w_F8op := PList [PYield None].                                                    (* [(yield)] -> [yield] *)
Definition w_F9 := PAttribute (PNum true "1") "real".                                        (* (1).real -> 1.real *)
Example unrepaired_printer_refuted :
  refutes fx_none G_GROUP w_F1 /\ refutes fx_none G_FSTRING w_F3 /\ refutes fx_none G_FSTRING w_F3b /\
  refutes fx_none G_LAMBDA w_F4 /\ refutes fx_none G_LAMBDA w_F4b /\ refutes fx_none G_GENEXP w_F6 /\
  refutes fx_none G_EMPTY_SLICE_TUPLE w_F7 /\ refutes fx_none G_YIELD w_F8op /\ refutes fx_none G_INT_ATTR w_F9.
Proof. repeat split; try reflexivity; try (vm_compute; tauto);
  (let g := fresh "g" in let B := fresh "B" in let R := fresh "R" in
   intros [g [B R]]; vm_compute in B; first [discriminate B | inversion B; subst; vm_compute in R; discriminate R]). Qed.

(* F14: f().typing.Literal["int"] -- the unrepaired _build_subscript takes the chain for typing.Literal and keeps the string,
   although the rule (and the repaired code) parses it *)
Definition w_F14 := PSubscript (PAttribute (PAttribute (PCall (PName "f" false) [] []) "typing") "Literal") false
                               (PStr "'int'" "int" (Some (PName "int" false))).
Definition pctx := mkCtx (Parse false) false false false.
Lemma rule_refuted_F14 :
  no_parsed w_F14 = true /\ rule_ok false w_F14 = false /\
  build fx_none [] pctx w_F14 <> build fx_none [] ctx0 (subst fx_none [] (Parse false) false false w_F14) /\
  build fx_all [] pctx w_F14 = build fx_all [] ctx0 (subst fx_all [] (Parse false) false false w_F14).
Proof. repeat split; try reflexivity. vm_compute. discriminate. Qed.

(* with every repair: the witnesses of the repaired families are inside the theorem's domain and render exactly as the
   reference printer does; so do the witnesses of the defects repaired earlier (F2 dict unpacking, F5 dict comprehension
   spacing, F11 in_subscript leak, F12 non-finite literals) *)
Definition w_F2 := PDict [PDictItem None a].
Definition w_F5 := PDictComp a b [comp1].
Definition w_F11 := PSubscript a false (PCall (PName "f" false) [PTuple [PNum true "1"; PNum true "2"]] []).
Definition w_F12 := PList [PNum false "inf"; PNum false "infj"; PNum false "1.5"; PNum true "7"].
Example repaired_witnesses_gapfree :
  forallb (fun e => wf e && negb (known_gap fx_all P_TEST e))
          [w_F1; w_F3; w_F3b; w_F4; w_F4b; w_F6; w_F7; w_F8op; w_F9; w_F2; w_F5; w_F11; w_F12] = true
  /\ forallb (fun e => wf e && negb (known_gap fx_none P_TEST e)) [w_F2; w_F5; w_F11; w_F12] = true.
Proof. split; reflexivity. Qed.
Example repaired_witnesses_text :
  map (fun e => option_map (render fx_all) (build fx_all [] ctx0 e)) [w_F1; w_F3; w_F3b; w_F4; w_F4b; w_F6; w_F7; w_F8op; w_F9]
  = [Some "(a + b) * c"; Some "f'{a}{{'"; Some "f'{a!r:>{b}}'"; Some "lambda *a, k: 0"; Some "lambda p, /: 0";
     Some "(x for x in y)"; Some "a[()]"; Some "[(yield)]"; Some "(1).real"]
  /\ map (fun e => option_map (render fx_none) (build fx_none [] ctx0 e)) [w_F2; w_F5; w_F11; w_F12]
  = [Some "{**a}"; Some "{a: b for x in y}"; Some "a[f((1, 2))]"; Some "[1e309, 1e309j, 1.5, 7]"].
Proof. split; reflexivity. Qed.

Theorem render_claim_refuted : exists e, wf e = true /\ ~ render_claim fx_all P_TEST e.
Proof. exists w_F10. destruct refuted_F10 as [H [_ H']]. split; assumption. Qed.

(* (T) the tree under test contains every repair: the theorems for fx_all are theorems about it *)
Lemma tree_is_repaired : tree_fixes = fx_all.
Proof. reflexivity. Qed.

(* ---------- the hypotheses are satisfiable by non-trivial inputs ---------- *)
(* an if-expression over a subscript with slice, a comparison, and a call with starred argument and a lambda keyword: gap-free
   even for the printer without repairs *)
Definition ex_big :=
  PIfExp (PSubscript (PAttribute a "b") false (PTuple [c; PSlice (Some (PName "x" false)) (Some (PName "y" false)) None]))
         (PUnaryOp U_Not (PCompare a [C_Lt] [b]))
         (PCall (PName "f" false) [PStarred c]
            [PKeyword (Some "k") (PLambda [PParam "p" None] [PParam "q" (Some (PNum true "1"))] None [PParam "r" None] None
                                          (PBinOp (PName "p" false) B_Pow (PUnaryOp U_USub (PName "q" false))))]).
Example ex_big_gapfree : wf ex_big = true /\ known_gap fx_none P_TEST ex_big = false /\ known_gap fx_all P_TEST ex_big = false.
Proof. repeat split; reflexivity. Qed.
Example ex_big_text :
  option_map (render fx_none) (build fx_none [] ctx0 ex_big) = Some "a.b[c, x:y] if not a < b else f(*c, k=lambda p, /, q=1, *, r: p ** -q)"
  /\ option_map (render fx_all) (build fx_all [] ctx0 ex_big) = Some "a.b[c, x:y] if not a < b else f(*c, k=lambda p, /, q=1, *, r: p ** -q)".
Proof. split; reflexivity. Qed.

(* nested operators, a generator expression as sole argument, an f-string with conversion, nested spec and escapes:
   in the domain of the theorem for the repaired printer only *)
Definition ex_rep :=
  PBinOp (PBoolOp L_Or [a; PIfExp b c a]) B_Mult
         (PCall (PName "f" false) [PGeneratorExp (PUnaryOp U_USub (PBinOp a B_Pow b)) [comp1]] []).
Definition ex_fstr :=
  PJoinedStr [PStr "'it''s {'" "it's {" None; PFormattedValue (PDict [PDictItem (Some a) b]) 114
                (Some (PJoinedStr [PStr "'>'" ">" None; PFormattedValue (PName "w" false) (-1) None]))].
Example ex_rep_text :
  wf ex_rep = true /\ known_gap fx_all P_TEST ex_rep = false /\ known_gap fx_none P_TEST ex_rep = true /\
  option_map (render fx_all) (build fx_all [] ctx0 ex_rep) = Some "(a or (b if c else a)) * f(-a ** b for x in y)" /\
  wf ex_fstr = true /\ known_gap fx_all P_TEST ex_fstr = false /\
  option_map (render fx_all) (build fx_all [] ctx0 ex_fstr) = Some "f'it\'s {{{ {a: b}!r:>{w}}'".
Proof. repeat split; reflexivity. Qed.

(* Optional["List['int']"] as an annotation: the outer string is code, the inner one stays a string; Literal["x"] keeps its
   string when the module binds Literal to typing.Literal -- and does not when it binds it to something else *)
Definition ex_ann :=
  PTuple [PSubscript (PName "Optional" false) false
            (PStr """List['int']""" "List['int']"
               (Some (PSubscript (PName "List" false) false (PStr "'int'" "int" (Some (PName "int" false))))));
          PSubscript (PName "Literal" false) true (PStr "'x'" "x" (Some (PName "x" false)))].
Definition env_typing : nenv := [("Literal", "typing.Literal"); ("Optional", "typing.Optional")].
Definition env_other : nenv := [("Literal", "typing.List")].
Example ex_ann_rule :
  no_parsed ex_ann = true /\
  option_map (render fx_none) (build fx_none env_typing pctx ex_ann) = Some "(Optional[List['int']], Literal['x'])" /\
  option_map (render fx_none) (build fx_none env_other pctx ex_ann) = Some "(Optional[List['int']], Literal[x])" /\
  option_map (render fx_none) (build fx_none env_typing ctx0 ex_ann) = Some "(Optional[""List['int']""], Literal['x'])".
Proof. repeat split; reflexivity. Qed.

Example ex_names :
  option_map (fun g => item_names (iterate fx_all true g)) (build fx_all [] ctx0 ex_big)
  = Some ["a"; "b"; "c"; "x"; "y"; "a"; "b"; "f"; "c"; "p"; "q"].
Proof. reflexivity. Qed.

(* ---------- names the expression binds itself ---------- *)
(* [p for p in q.r for s in p.t if s]: p and s are local everywhere except in the iterable of the first clause *)
Definition ex_scope :=
  PListComp (PName "p" true)
    [PComprehension (PName "p" true) (PAttribute (PName "q" false) "r") [] false;
     PComprehension (PName "s" true) (PAttribute (PName "p" true) "t") [PName "s" true] false].
(* lambda p, q=p: p -- the default is evaluated outside, the body inside *)
Definition ex_scope_lambda := PLambda [] [PParam "p" None; PParam "q" (Some (PName "p" false))] None [] None (PName "p" true).
Example ex_scope_ok :
  scope_ok [] ex_scope = true /\ scope_ok [] ex_scope_lambda = true /\
  scope_ok [] (PListComp (PName "p" false) [PComprehension (PName "p" true) (PName "p" true) [] false]) = false /\
  option_map (fun g => map (enc_item fx_none) (iterate fx_none true g)) (build fx_none [("q", "pkg.q")] ctx0 ex_scope)
  = Some [SList [SInt 0; SStr "["]; SList [SInt 1; SStr "p"; SStr "none"; SStr "p"]; SList [SInt 0; SStr " "]; SList [SInt 0; SStr "for "];
          SList [SInt 1; SStr "p"; SStr "none"; SStr "p"]; SList [SInt 0; SStr " in "]; SList [SInt 1; SStr "q"; SStr "scope"; SStr "q"];
          SList [SInt 0; SStr "."]; SList [SInt 1; SStr "r"; SStr "name"; SStr "q.r"]; SList [SInt 0; SStr " "]; SList [SInt 0; SStr "for "];
          SList [SInt 1; SStr "s"; SStr "none"; SStr "s"]; SList [SInt 0; SStr " in "]; SList [SInt 1; SStr "p"; SStr "none"; SStr "p"];
          SList [SInt 0; SStr "."]; SList [SInt 1; SStr "t"; SStr "name"; SStr "p.t"]; SList [SInt 0; SStr " if "];
          SList [SInt 1; SStr "s"; SStr "none"; SStr "s"]; SList [SInt 0; SStr "]"]].
Proof. repeat split; reflexivity. Qed.
(* a name bound by the expression has no parent: it resolves to itself, whatever the module binds under that spelling *)
Lemma local_name_unresolved fx env c id :
  build fx env c (PName id true) = Some (GName id ParNone) /\ gcanon env (GName id ParNone) = Some id /\
  build fx env c (PName id false) = Some (GName id ParScope) /\ gcanon env (GName id ParScope) = Some (resolve env id).
Proof. repeat split; reflexivity. Qed.

(* ---------- modernize() is the identity in this version ---------- *)
Lemma modernize_id fx g : render fx (modernize g) = render fx g.
Proof. reflexivity. Qed.

(* ---------- (T) the precedence table read from expressions.py is the one the model compares with ---------- *)
Lemma prec_table_sound : forallb (fun p => Nat.eqb (gbinop_prec (fst p)) (snd p)) gen_binop_prec = true.
Proof. vm_compute. reflexivity. Qed.
Lemma prec_table_complete :
  fx_prec tree_fixes = true ->
  forallb (fun o => existsb (fun p => String.eqb (fst p) (spec_binop o) && Nat.eqb (snd p) (binop_prec o)) gen_binop_prec) all_binops = true.
Proof. vm_compute. intros H; first [discriminate H | reflexivity]. Qed.

(* ---------- (T) the operand requirements and the levels of _precedence read from expressions.py are the grammar's ---------- *)
(* every `precedence=` argument of the _yield / _join calls of the Expr*.iterate methods (the model's iterate is defined over
   these regenerated constants), paired with the level the Python grammar gives that operand position *)
Definition slot_table : list (nat * nat) :=
  [(rq_Attribute_values, P_ATOM); (rq_Call_function, P_ATOM); (rq_Subscript_left, P_ATOM); (rq_NamedExpr_target, P_ATOM);
   (rq_BinOp_pow_left, P_AWAIT); (rq_BinOp_pow_right, P_FACTOR); (rq_BoolOp_values_above_own, 1); (rq_UnaryOp_value_above_own, 0);
   (rq_Call_sole_genexp, P_NONE); (rq_Call_arguments, P_TEST);
   (rq_Compare_left, P_BOR); (rq_Compare_comparators, P_BOR);
   (rq_Comprehension_target, P_BOR); (rq_Comprehension_iterable, P_OR); (rq_Comprehension_conditions, P_OR);
   (rq_Dict_unpacked, P_BOR); (rq_Dict_key, P_TEST); (rq_Dict_value, P_TEST);
   (rq_DictComp_key, P_TEST); (rq_DictComp_value, P_TEST); (rq_DictComp_generators, P_NONE);
   (rq_Formatted_value, P_OR); (rq_Formatted_spec_values, P_NONE); (rq_Formatted_spec, P_NONE);
   (rq_GeneratorExp_element, P_TEST); (rq_GeneratorExp_generators, P_NONE);
   (rq_IfExp_body, P_OR); (rq_IfExp_test, P_OR); (rq_IfExp_orelse, P_TEST);
   (rq_JoinedStr_values, P_NONE); (rq_Keyword_value, P_TEST); (rq_VarPositional_value, P_BOR); (rq_VarKeyword_value, P_TEST);
   (rq_Lambda_default, P_TEST); (rq_Lambda_body, P_TEST); (rq_List_elements, P_TEST);
   (rq_ListComp_element, P_TEST); (rq_ListComp_generators, P_NONE); (rq_NamedExpr_value, P_TEST);
   (rq_Set_elements, P_TEST); (rq_SetComp_element, P_TEST); (rq_SetComp_generators, P_NONE);
   (rq_Slice_lower, P_TEST); (rq_Slice_upper, P_TEST); (rq_Slice_step, P_TEST); (rq_Subscript_slice, P_TEST);
   (rq_Tuple_elements, P_TEST); (rq_Yield_value, P_TEST); (rq_YieldFrom_value, P_TEST);
   (* _precedence *)
   (pr_default, P_ATOM); (pr_binop_default, P_ATOM); (pr_BoolOp_if, P_OR); (pr_BoolOp_else, P_AND); (pr_UnaryOp_if, P_NOT);
   (pr_UnaryOp_else, P_FACTOR); (pr_Compare, P_CMP); (pr_IfExp, P_TEST); (pr_Lambda, P_TEST); (pr_Yield, P_YIELD); (pr_YieldFrom, P_YIELD)].
Lemma slot_requirements_match :
  forallb (fun p => Nat.eqb (fst p) (snd p)) slot_table = true /\
  pr_BoolOp_if_operator = spec_boolop L_Or /\ pr_UnaryOp_if_operator = spec_unop U_Not /\
  (forall o, gprec (GBinOp (GStr "") (spec_binop o) (GStr "")) = binop_prec o) /\
  (forall o vs, gprec (GBoolOp (spec_boolop o) vs) = boolop_prec o) /\ (forall o v, gprec (GUnaryOp (spec_unop o) v) = unop_prec o).
Proof. repeat split; try reflexivity; intros o; try intros ?; destruct o; reflexivity. Qed.

(* ---------- a sequence of builds: what is stored for an expression does not depend on what was built before ---------- *)
Definition build_seq (fx : fixes) (l : list (nenv * bctx * pyexpr)) : list (option gexpr) :=
  map (fun x => build fx (fst (fst x)) (snd (fst x)) (snd x)) l.
Lemma build_seq_independent fx pre env cx e post :
  nth (List.length pre) (build_seq fx (pre ++ (env, cx, e) :: post)) None = build fx env cx e.
Proof.
  unfold build_seq. rewrite map_app. cbn [map]. rewrite app_nth2; rewrite map_length; [|lia].
  rewrite Nat.sub_diag. reflexivity.
Qed.
Example build_seq_example :
  build_seq fx_all [([], ctx0, PConst "True"); ([], ctx0, PNum false "1.0"); ([], ctx0, PConst "True")]
  = [Some (GStr "True"); Some (GStr "1.0"); Some (GStr "True")].
Proof. reflexivity. Qed.

(* ---------- dotted chains keep the parent links that name resolution follows ---------- *)
Fixpoint chain_expr (root : pyexpr) (attrs : list string) : pyexpr :=
  match attrs with [] => root | x :: r => chain_expr (PAttribute root x) r end.

(* the names after the root: each one's parent is the name before it, whose dotted path is [path] *)
Fixpoint chain_names (path : string) (attrs : list string) : list gexpr :=
  match attrs with
  | [] => []
  | x :: r => GName x (ParName path) :: chain_names (path ++ "." ++ x) r
  end.

Section Chains.
Variable fx : fixes.
Variable env : nenv.
Local Notation build := (C03_expr.build fx env).

Lemma chain_step (m : pmode) (j f : bool) (e : pyexpr) (vs : list gexpr) (path : string) (attrs : list string) :
  build (mkCtx m false j f) e = Some (GAttribute vs) -> gname_path (last vs (GStr "")) = path ->
  build (mkCtx m false j f) (chain_expr e attrs) = Some (GAttribute (vs ++ chain_names path attrs)).
Proof.
  revert e vs path. induction attrs as [|x r IH]; intros e vs path Hb Hp.
  - simpl. rewrite app_nil_r. exact Hb.
  - cbn [chain_expr chain_names].
    rewrite (IH (PAttribute e x) (vs ++ [GName x (ParName path)]) (path ++ "." ++ x)%string).
    + rewrite <- app_assoc. reflexivity.
    + cbn [C03_expr.build enter keeps_insub pm insub injoin infmt mapped node_builder]. rewrite Hb. cbn [attach_attr]. rewrite Hp. reflexivity.
    + rewrite last_last. reflexivity.
Qed.

Lemma chain_head (e : pyexpr) (x : string) (attrs : list string) : exists e' z, chain_expr e (x :: attrs) = PAttribute e' z.
Proof.
  revert e x. induction attrs as [|y r IH]; intros e x; [exists e, x; reflexivity|].
  change (chain_expr e (x :: y :: r)) with (chain_expr (PAttribute e x) (y :: r)). apply IH.
Qed.

Theorem dotted_chain_parent_links (cx : bctx) (r x : string) (attrs : list string) :
  build cx (chain_expr (PName r false) (x :: attrs)) = Some (GAttribute (GName r ParScope :: chain_names r (x :: attrs))).
Proof.
  destruct cx as [m s j f].
  assert (Hs : build (mkCtx m s j f) (chain_expr (PName r false) (x :: attrs)) = build (mkCtx m false j f) (chain_expr (PName r false) (x :: attrs))).
  { destruct (chain_head (PName r false) x attrs) as [e' [z ->]]. reflexivity. }
  rewrite Hs. cbn [chain_expr chain_names].
  rewrite (chain_step m j f (PAttribute (PName r false) x) [GName r ParScope; GName x (ParName r)] (r ++ "." ++ x)%string attrs).
  - reflexivity.
  - reflexivity.
  - reflexivity.
Qed.

(* ... and the canonical path of the chain is the root's resolution followed by the attribute names *)
Theorem dotted_chain_canonical (cx : bctx) (r x : string) (attrs : list string) (g : gexpr) :
  pm cx = NoParse -> build cx (chain_expr (PName r false) (x :: attrs)) = Some g ->
  gcanon env g = Some (fold_left (fun p a => (p ++ "." ++ a)%string) (x :: attrs) (resolve env r)).
Proof.
  intros Hm Hb.
  assert (Hr : rule_ok (fx_litroot fx) (chain_expr (PName r false) (x :: attrs)) = true).
  { generalize (PName r false) (x :: attrs) (eq_refl : rule_ok (fx_litroot fx) (PName r false) = true).
    intros e l. revert e. induction l as [|y l IH]; intros e He; [exact He|]. cbn [chain_expr]. apply IH. exact He. }
  pose proof (canon_of_build fx env _ cx g Hm Hr Hb) as H.
  assert (Hc : src_canon env (chain_expr (PName r false) (x :: attrs)) = Some (fold_left (fun p a => (p ++ "." ++ a)%string) (x :: attrs) (resolve env r))).
  { assert (Hgen : forall l e p, src_canon env e = Some p -> src_canon env (chain_expr e l) = Some (fold_left (fun p a => (p ++ "." ++ a)%string) l p)).
    { induction l as [|y l IH]; intros e p He; [exact He|]. cbn [chain_expr fold_left]. apply IH. cbn [src_canon]. rewrite He. reflexivity. }
    apply Hgen. reflexivity. }
  rewrite Hc in H. destruct H as [H _]. exact H.
Qed.
End Chains.

Example dotted_example :
  option_map (fun g => map gname_path (match g with GAttribute vs => vs | _ => [] end)) (build fx_none [] ctx0 (chain_expr (PName "a" false) ["b"; "c"]))
  = Some ["a"; "a.b"; "a.b.c"]
  /\ option_map (gcanon [("t", "typing")]) (build fx_none [("t", "typing")] ctx0 (chain_expr (PName "t" false) ["Literal"])) = Some (Some "typing.Literal").
Proof. split; reflexivity. Qed.
