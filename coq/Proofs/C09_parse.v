(* C09 -- the "dump is produced" half for the docstring dispatch: whatever parser (None, any member of the Parser
   enumeration) and whatever options (any keys except the names of positional parameters) a loader is configured with,
   parse() reaches a text section or a parser -- it never raises while binding keywords or looking the style up. *)
From Coq Require Import List ZArith String Ascii Bool Arith Lia.
From Verif Require Import Lib.Sexp Model.C09_json Gen.C09_parse Model.C09_parse Proofs.C09_schema.
Import ListNotations.
Open Scope string_scope.
Open Scope list_scope.
Open Scope nat_scope.

Lemma parse_tables_ok_holds : parse_tables_ok = true.
Proof. vm_compute. reflexivity. Qed.

(* a function with **kwargs binds every key that does not name one of its positional parameters *)
Lemma call_ok_varkw : forall s keys, fs_varkw s = true ->
  (forall k, In k keys -> str_in k (fs_positional s) = false) -> call_ok s keys = true.
Proof.
  intros s keys Hv H. unfold call_ok. apply forallb_forall. intros k Hk. unfold key_binds.
  rewrite (H k Hk), Hv, orb_true_r. reflexivity.
Qed.

Lemma keys_fine_spec : forall keys, keys_fine keys = true <-> forall k, In k keys -> str_in k (fs_positional parse_sig) = false.
Proof.
  intros keys. unfold keys_fine. rewrite forallb_forall. split; intros H k Hk; specialize (H k Hk).
  - now apply negb_true_iff in H.
  - now apply negb_true_iff.
Qed.

Lemma rest_fine : forall s keys, keys_fine keys = true -> keys_fine (rest s keys) = true.
Proof.
  intros s keys H. apply keys_fine_spec. intros k Hk. unfold rest in Hk. apply filter_In in Hk. destruct Hk as [Hk _].
  exact (proj1 (keys_fine_spec keys) H k Hk).
Qed.

(* positional parameters of every entry point are among those of parse *)
Lemma sub_positional : forall (pos : list string) keys,
  forallb (fun p => str_in p (fs_positional parse_sig)) pos = true -> keys_fine keys = true ->
  forall k, In k keys -> str_in k pos = false.
Proof.
  intros pos keys Hp Hk k Hin. destruct (str_in k pos) eqn:E; [|reflexivity].
  apply str_in_In in E. rewrite forallb_forall in Hp. specialize (Hp k E).
  rewrite (proj1 (keys_fine_spec keys) Hk k Hin) in Hp. discriminate.
Qed.

Lemma tables_parts :
  fs_varkw parse_sig = true /\ fs_varkw infer_sig = true
  /\ (forall p s, lookup p parser_table = Some s -> fs_varkw s = true /\ forallb (fun q => str_in q (fs_positional parse_sig)) (fs_positional s) = true)
  /\ forallb (fun p => str_in p (fs_positional parse_sig)) (fs_positional infer_sig) = true
  /\ (forall m, str_in m parser_enum = true -> exists s, lookup m parser_table = Some s).
Proof.
  pose proof parse_tables_ok_holds as T. unfold parse_tables_ok in T.
  apply andb_true_iff in T. destruct T as [T _]. apply andb_true_iff in T. destruct T as [T T5].
  apply andb_true_iff in T. destruct T as [T T4]. apply andb_true_iff in T. destruct T as [T T3].
  apply andb_true_iff in T. destruct T as [T1 T2].
  repeat split; auto.
  - rewrite forallb_forall in T3. specialize (T3 (p, s) (lookup_In _ _ _ _ H)). now apply andb_true_iff in T3.
  - rewrite forallb_forall in T3. specialize (T3 (p, s) (lookup_In _ _ _ _ H)). now apply andb_true_iff in T3.
  - intros m Hm. apply str_in_In in Hm. rewrite forallb_forall in T5. apply key_in_lookup. exact (T5 m Hm).
Qed.

(* a loader's docstring_parser: None, or a member of the enumeration (a style name is converted with Parser(...)) *)
Definition parser_ok (p : option string) : bool :=
  match p with None => true | Some s => String.eqb s "" || str_in s parser_enum end.

Definition is_auto (p : option string) : bool := match p with Some s => String.eqb s "auto" | None => false end.

(* rounds of parse() a configuration needs *)
Definition rounds (inferred parser : option string) : nat :=
  if is_auto parser then (if is_auto inferred then 3 else 2) else 1.

Theorem dispatch_never_raises_gen : forall fuel inferred parser keys,
  keys_fine keys = true -> parser_ok parser = true -> parser_ok inferred = true ->
  rounds inferred parser <= fuel -> no_raise (parse_dispatch fuel inferred parser keys) = true.
Proof.
  destruct tables_parts as [V1 [V2 [Vt [Pi En]]]].
  induction fuel as [|fuel IH]; intros inferred parser keys Hk Hp Hi Hr.
  - unfold rounds in Hr. destruct (is_auto parser); [destruct (is_auto inferred)|]; lia.
  - cbn [parse_dispatch].
    rewrite (call_ok_varkw parse_sig keys V1 (proj1 (keys_fine_spec keys) Hk)). cbn [negb].
    destruct parser as [p|]; [|reflexivity].
    destruct p as [|c p']; [reflexivity|]. set (p := String c p') in *.
    cbn [parser_ok] in Hp. assert (Hm : str_in p parser_enum = true) by (unfold p in *; simpl in Hp |- *; exact Hp).
    destruct (En p Hm) as [s Hs]. rewrite Hs. destruct (Vt p s Hs) as [Vs Ps].
    rewrite (call_ok_varkw s keys Vs (sub_positional _ keys Ps Hk)). cbn [negb].
    destruct (String.eqb p "auto") eqn:Ea.
    + rewrite (call_ok_varkw infer_sig keys V2 (sub_positional _ keys Pi Hk)). cbn [negb].
      apply IH; [now apply rest_fine|exact Hi|reflexivity|].
      unfold rounds in *. cbn [is_auto] in *. rewrite Ea in Hr. destruct (is_auto inferred); cbn [is_auto]; lia.
    + reflexivity.
Qed.

(* The docstring dispatch never raises: every parser a loader can be given (None, every member of Parser), every style
   `auto` can infer, every set of option names that avoids `docstring` and `parser`. *)
Theorem dispatch_never_raises : forall inferred parser keys,
  keys_fine keys = true -> parser_ok parser = true -> parser_ok inferred = true ->
  no_raise (parse_dispatch 3 inferred parser keys) = true.
Proof.
  intros. apply dispatch_never_raises_gen; auto. unfold rounds. destruct (is_auto parser); [destruct (is_auto inferred)|]; lia.
Qed.

(* without a parser the options are ignored: one text section, whatever the (fine) options *)
Theorem no_parser_is_text : forall inferred keys, keys_fine keys = true -> parse_dispatch 3 inferred None keys = Text.
Proof.
  intros inferred keys Hk. destruct tables_parts as [V1 _]. cbn [parse_dispatch].
  now rewrite (call_ok_varkw parse_sig keys V1 (proj1 (keys_fine_spec keys) Hk)).
Qed.

(* the hypotheses are needed: an option named like a positional parameter, a style outside the enumeration *)
Example hypotheses_needed :
  parse_dispatch 3 None (Some "google") ["parser"] = RaiseTypeError
  /\ parse_dispatch 3 None None ["docstring"] = RaiseTypeError
  /\ parse_dispatch 3 None (Some "rst") [] = RaiseValueError
  /\ parse_dispatch 3 (Some "rst") (Some "auto") [] = RaiseValueError.
Proof. repeat split; vm_compute; reflexivity. Qed.

(* non-vacuity: options reach the parser minus what it names itself; auto consumes its own and hands the rest on *)
Example dispatch_samples :
  parse_dispatch 3 None (Some "google") ["warn_unknown_params"; "zzz"] = Style "google" ["zzz"]
  /\ parse_dispatch 3 (Some "numpy") (Some "auto") ["default"; "trim_doctest_flags"; "zzz"] = Style "numpy" ["zzz"]
  /\ parse_dispatch 3 None (Some "auto") ["warn_unknown_params"] = Text
  /\ parse_dispatch 3 (Some "auto") (Some "auto") ["default"] = Text
  /\ parse_dispatch 3 None None ["warn_unknown_params"; "trim_doctest_flags"] = Text.
Proof. repeat split; vm_compute; reflexivity. Qed.
