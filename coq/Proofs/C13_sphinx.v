(* C13 proofs, part 3: Sphinx-style round trip for the field-list core (up to Sphinx's fixed section order). *)
From Coq Require Import List Ascii String Bool Arith Lia.
From Verif Require Import Model.C13_strings Model.C13_google Model.C13_sphinx Proofs.C13_strings.
Import ListNotations.
Open Scope char_scope.
Open Scope list_scope.
Open Scope nat_scope.

Arguments ceq : simpl never.
Arguments spaces : simpl never.
Arguments is_space : simpl never.
Arguments is_word : simpl never.
Arguments printable : simpl never.

(* ---- small string facts *)
Lemma rstrip_nl_printable : forall s, forallb printable s = true -> rstrip_nl s = s.
Proof.
  intros s H. unfold rstrip_nl. apply rstrip_by_noop. intros d Hn.
  apply printable_not_nl. apply all_printable_last; auto.
Qed.

Definition tailjoin (cs : list str) : str := flat_map (fun c => sp :: c) cs.

Lemma join_with_sp : forall l cs, join_with [sp] (l :: cs) = l ++ tailjoin cs.
Proof.
  intros l cs. revert l. induction cs as [|c cs IH]; intros l.
  - simpl. rewrite app_nil_r. reflexivity.
  - change (join_with [sp] (l :: c :: cs)) with (l ++ [sp] ++ join_with [sp] (c :: cs)).
    rewrite IH. simpl. reflexivity.
Qed.

Lemma ceq_sym' : forall a b, ceq a b = ceq b a.
Proof.
  intros. destruct (ceq a b) eqn:E.
  - apply ceq_eq in E. subst. symmetry. apply ceq_refl.
  - symmetry. apply ceq_neq. apply ceq_neq in E. congruence.
Qed.

Lemma tok_no : forall n x, forallb tok_char n = true -> (x = sp \/ x = colon) -> contains_char x n = false.
Proof.
  intros n x H Hx. induction n as [|c n IH]; [reflexivity|].
  simpl in H. apply andb_true_iff in H. destruct H as [Hc Hn].
  unfold contains_char. simpl. fold (contains_char x n). rewrite (IH Hn).
  unfold tok_char in Hc. apply andb_true_iff in Hc. destruct Hc as [Hc H3]. apply andb_true_iff in Hc. destruct Hc as [H1 H2].
  apply negb_true_iff in H2, H3. destruct Hx as [->| ->]; rewrite ceq_sym'; [rewrite H2|rewrite H3]; reflexivity.
Qed.

Lemma tok_printable : forall n, forallb tok_char n = true -> forallb printable n = true.
Proof.
  induction n as [|c n IH]; intros H; [reflexivity|]. simpl in H. apply andb_true_iff in H. destruct H as [Hc Hn].
  simpl. rewrite (IH Hn). unfold tok_char in Hc. apply andb_true_iff in Hc. destruct Hc as [Hc _]. apply andb_true_iff in Hc. destruct Hc as [H1 _].
  rewrite H1. reflexivity.
Qed.

Lemma wf_tok_facts : forall n, wf_tok n = true ->
  contains_char sp n = false /\ contains_char colon n = false /\ forallb printable n = true /\ n <> [].
Proof.
  intros n H. unfold wf_tok in H. apply andb_true_iff in H. destruct H as [Hne H].
  repeat split; [apply tok_no; auto|apply tok_no; auto|apply tok_printable; auto|destruct n; [discriminate|discriminate]].
Qed.

Lemma split_all_none : forall c s, contains_char c s = false -> split_all c s = [s].
Proof.
  induction s as [|d s IH]; intros H; [reflexivity|].
  unfold contains_char in H. simpl in H. apply orb_false_iff in H. destruct H as [H1 H2].
  simpl. rewrite (ceq_sym' d c), H1. rewrite (IH H2). reflexivity.
Qed.

Lemma split_all_app : forall c a b, contains_char c a = false -> split_all c (a ++ c :: b) = a :: split_all c b.
Proof.
  induction a as [|d a IH]; intros b H.
  - simpl. rewrite ceq_refl. reflexivity.
  - unfold contains_char in H. simpl in H. apply orb_false_iff in H. destruct H as [H1 H2].
    simpl. rewrite (ceq_sym' d c), H1. rewrite (IH b H2). reflexivity.
Qed.

Lemma nsp_head_app' : forall a b, nsp_head a = true -> nsp_head (a ++ b) = true.
Proof. destruct a; intros; [discriminate|exact H]. Qed.

Lemma nsp_of : forall s, ne s = true -> pr s = true -> fns s = true -> nsp_head s = true.
Proof.
  destruct s as [|c s]; intros Hn Hp Hf; [discriminate|]. simpl in *. apply andb_true_iff in Hp. destruct Hp as [Hc _].
  rewrite (printable_space c Hc). exact Hf.
Qed.

Lemma wf_sline_facts : forall l, wf_sline l = true -> nsp_head l = true /\ forallb printable l = true /\ l <> [].
Proof.
  intros l H. unfold wf_sline in H. apply andb_true_iff in H. destruct H as [H Hf]. apply andb_true_iff in H. destruct H as [Hn Hp].
  repeat split; auto using nsp_of. destruct l; [discriminate|discriminate].
Qed.

Lemma tailjoin_printable : forall cs, forallb wf_sline cs = true -> forallb printable (tailjoin cs) = true.
Proof.
  induction cs as [|c cs IH]; intros H; [reflexivity|]. simpl in H. apply andb_true_iff in H. destruct H as [Hc Hcs].
  destruct (wf_sline_facts c Hc) as [_ [Hp _]].
  unfold tailjoin. simpl. rewrite forallb_app. fold (tailjoin cs). rewrite Hp, (IH Hcs). reflexivity.
Qed.

Lemma last_app_ne : forall (a b : str) d, b <> [] -> last (a ++ b) d = last b d.
Proof.
  induction a as [|x a IH]; intros b d Hb; [reflexivity|].
  simpl. rewrite IH by auto. destruct (a ++ b) eqn:E; [|reflexivity].
  apply app_eq_nil in E. destruct E; congruence.
Qed.

(* the last character of "d0 c1 c2 ..." is the last character of the last line *)
Lemma last_sjoin : forall d0 cs, wf_sline d0 = true -> forallb wf_sline cs = true ->
  last (d0 ++ tailjoin cs) "x" = last (last (d0 :: cs) []) "x".
Proof.
  intros d0 cs. revert d0. induction cs as [|c cs IH]; intros d0 Hd Hcs.
  - simpl. rewrite app_nil_r. reflexivity.
  - simpl in Hcs. apply andb_true_iff in Hcs. destruct Hcs as [Hc Hcs].
    destruct (wf_sline_facts c Hc) as [_ [_ Hne]].
    change (tailjoin (c :: cs)) with (sp :: c ++ tailjoin cs).
    rewrite last_app_ne by discriminate.
    assert (E : last (sp :: c ++ tailjoin cs) "x" = last (c ++ tailjoin cs) "x").
    { destruct (c ++ tailjoin cs) eqn:E'; [|reflexivity]. apply app_eq_nil in E'. destruct E'; congruence. }
    rewrite E. rewrite (IH c Hc Hcs).
    change (last (d0 :: c :: cs) []) with (last (c :: cs) []). reflexivity.
Qed.

Lemma strip_value : forall d0 cs, wf_sdesc d0 cs = true -> strip (sp :: d0 ++ tailjoin cs) = d0 ++ tailjoin cs.
Proof.
  intros d0 cs H. unfold wf_sdesc in H. apply andb_true_iff in H. destruct H as [H Hl]. apply andb_true_iff in H. destruct H as [Hd Hcs].
  destruct (wf_sline_facts d0 Hd) as [Hns [Hp Hne]].
  unfold strip. rewrite lstrip_sp_cons. rewrite lstrip_nsp by (apply nsp_head_app'; exact Hns).
  unfold rstrip. apply rstrip_by_noop. intros d Hn.
  assert (Hpr : forallb printable (d0 ++ tailjoin cs) = true) by (rewrite forallb_app, Hp, tailjoin_printable; auto).
  rewrite (printable_space _ (all_printable_last _ d Hn Hpr)).
  replace (last (d0 ++ tailjoin cs) d) with (last (d0 ++ tailjoin cs) "x").
  - rewrite last_sjoin by auto. unfold lns in Hl. apply negb_true_iff in Hl. exact Hl.
  - clear - Hn. generalize (d0 ++ tailjoin cs) Hn. induction l as [|x l IH]; intros H; [congruence|].
    destruct l; [reflexivity|]. simpl. simpl in IH. apply IH. discriminate.
Qed.

(* ---- field names *)
Ltac fn_cases H :=
  unfold in_names in H; simpl in H;
  repeat (apply orb_true_iff in H; destruct H as [H|H]);
  try discriminate; apply String.eqb_eq in H; subst.

Lemma param_names_ok : forall fn rest, in_names FParam fn = true ->
  match_field field_names (colon :: s_of fn ++ sp :: rest) = Some FParam /\
  contains_char sp (s_of fn) = false /\ contains_char colon (s_of fn) = false /\ forallb printable (s_of fn) = true.
Proof. intros fn rest H. fn_cases H; repeat split; reflexivity. Qed.

Lemma var_names_ok : forall fn rest, in_names FVar fn = true ->
  match_field field_names (colon :: s_of fn ++ sp :: rest) = Some FVar /\
  contains_char sp (s_of fn) = false /\ contains_char colon (s_of fn) = false /\ forallb printable (s_of fn) = true.
Proof. intros fn rest H. fn_cases H; repeat split; reflexivity. Qed.

Lemma exc_names_ok : forall fn rest, in_names FExc fn = true ->
  match_field field_names (colon :: s_of fn ++ sp :: rest) = Some FExc /\
  contains_char sp (s_of fn) = false /\ contains_char colon (s_of fn) = false /\ forallb printable (s_of fn) = true.
Proof. intros fn rest H. fn_cases H; repeat split; reflexivity. Qed.

Lemma ret_names_ok : forall fn rest, in_names FReturn fn = true ->
  match_field field_names (colon :: s_of fn ++ colon :: rest) = Some FReturn /\
  contains_char sp (s_of fn) = false /\ contains_char colon (s_of fn) = false /\ forallb printable (s_of fn) = true.
Proof. intros fn rest H. fn_cases H; repeat split; reflexivity. Qed.

(* ---- events *)
Definition ev_of (f : sfield) : event :=
  match render_sfield f with
  | l :: cs => EField (match f with SFParam _ _ _ _ _ => FParam | SFVar _ _ _ _ => FVar | SFRaises _ _ _ _ => FExc | SFReturns _ _ _ => FReturn end) l cs
  | [] => EDesc []
  end.

Lemma match_field_colon : forall l line, starts_colon line = false -> match_field l line = None.
Proof.
  induction l as [|[k names] r IH]; intros line H; [reflexivity|].
  assert (E : existsb (fun n => startswith (colon :: s_of n) line) names = false).
  { induction names as [|n names IHn]; [reflexivity|].
    change (existsb (fun n0 => startswith (colon :: s_of n0) line) (n :: names)) with
      (startswith (colon :: s_of n) line || existsb (fun n0 => startswith (colon :: s_of n0) line) names).
    rewrite IHn. rewrite orb_false_r.
    destruct line as [|c line']; [reflexivity|]. unfold starts_colon in H.
    change (startswith [colon] (c :: line')) with (ceq colon c && true) in H. rewrite andb_true_r in H.
    change (startswith (colon :: s_of n) (c :: line')) with (ceq colon c && startswith (s_of n) line').
    rewrite H. reflexivity. }
  change (match_field ((k, names) :: r) line) with
    (if existsb (fun n => startswith (colon :: s_of n) line) names then Some k else match_field r line).
  rewrite E. apply IH. exact H.
Qed.

Lemma events_aux_plain : forall ls rest evs acc, Forall (fun l => starts_colon l = false) ls ->
  events_aux rest = (evs, acc) -> events_aux (ls ++ rest) = (evs, ls ++ acc).
Proof.
  induction ls as [|l ls IH]; intros rest evs acc H E; [exact E|].
  inversion H; subst.
  change (events_aux ((l :: ls) ++ rest)) with
    (let '(evs0, acc0) := events_aux (ls ++ rest) in
     match match_field field_names l with
     | Some k => (EField k l acc0 :: evs0, [])
     | None => if starts_colon l then (EDesc l :: map EDesc acc0 ++ evs0, []) else (evs0, l :: acc0)
     end).
  rewrite (IH rest evs acc) by auto.
  rewrite match_field_colon by auto. rewrite H2. reflexivity.
Qed.

Lemma cont4_no_colon : forall cs, Forall (fun l => starts_colon l = false) (map cont4 cs).
Proof. intros cs. apply Forall_forall. intros l Hin. apply in_map_iff in Hin. destruct Hin as [c [<- _]]. reflexivity. Qed.

Lemma first_line_matches : forall f, wf_sfield f = true ->
  exists l k, render_sfield f = l :: map cont4 (match f with SFParam _ _ _ _ cs | SFVar _ _ _ cs | SFRaises _ _ _ cs | SFReturns _ _ cs => cs end)
    /\ match_field field_names l = Some k /\ ev_of f = EField k l (map cont4 (match f with SFParam _ _ _ _ cs | SFVar _ _ _ cs | SFRaises _ _ _ cs | SFReturns _ _ cs => cs end)).
Proof.
  intros f H. destruct f as [fn ty n d0 cs|fn n d0 cs|fn e d0 cs|fn d0 cs]; simpl in H.
  - apply andb_true_iff in H. destruct H as [H _]. apply andb_true_iff in H. destruct H as [H _]. apply andb_true_iff in H. destruct H as [Hfn _].
    eexists. exists FParam. split; [reflexivity|]. split; [|reflexivity].
    destruct ty as [t|].
    + destruct (param_names_ok fn (t ++ sp :: n ++ colon :: sp :: d0) Hfn) as [Hm _].
      exact Hm.
    + destruct (param_names_ok fn (n ++ colon :: sp :: d0) Hfn) as [Hm _]. exact Hm.
  - apply andb_true_iff in H. destruct H as [H _]. apply andb_true_iff in H. destruct H as [Hfn _].
    eexists. exists FVar. split; [reflexivity|]. split; [|reflexivity].
    destruct (var_names_ok fn (n ++ colon :: sp :: d0) Hfn) as [Hm _]. exact Hm.
  - apply andb_true_iff in H. destruct H as [H _]. apply andb_true_iff in H. destruct H as [Hfn _].
    eexists. exists FExc. split; [reflexivity|]. split; [|reflexivity].
    destruct (exc_names_ok fn (e ++ colon :: sp :: d0) Hfn) as [Hm _]. exact Hm.
  - apply andb_true_iff in H. destruct H as [Hfn _].
    eexists. exists FReturn. split; [reflexivity|]. split; [|reflexivity].
    destruct (ret_names_ok fn (sp :: d0) Hfn) as [Hm _]. exact Hm.
Qed.

Lemma events_fields : forall fs, forallb wf_sfield fs = true ->
  events_aux (flat_map render_sfield fs) = (map ev_of fs, []).
Proof.
  induction fs as [|f fs IH]; intros H; [reflexivity|].
  simpl in H. apply andb_true_iff in H. destruct H as [Hf Hfs].
  destruct (first_line_matches f Hf) as [l [k [Er [Hm Hev]]]].
  change (flat_map render_sfield (f :: fs)) with (render_sfield f ++ flat_map render_sfield fs).
  rewrite Er. rewrite <- app_comm_cons.
  set (cs := map cont4 match f with SFParam _ _ _ _ cs | SFVar _ _ _ cs | SFRaises _ _ _ cs | SFReturns _ _ cs => cs end) in *.
  change (events_aux (l :: cs ++ flat_map render_sfield fs)) with
    (let '(evs0, acc0) := events_aux (cs ++ flat_map render_sfield fs) in
     match match_field field_names l with
     | Some k => (EField k l acc0 :: evs0, [])
     | None => if starts_colon l then (EDesc l :: map EDesc acc0 ++ evs0, []) else (evs0, l :: acc0)
     end).
  rewrite (events_aux_plain cs _ (map ev_of fs) [] (cont4_no_colon _) (IH Hfs)).
  rewrite Hm. rewrite app_nil_r. simpl map. rewrite Hev. reflexivity.
Qed.

Lemma events_render : forall text fs, forallb wf_stext_line text = true -> forallb wf_sfield fs = true ->
  events (render_sphinx text fs) = map EDesc (text ++ [[]]) ++ map ev_of fs.
Proof.
  intros text fs Ht Hf. unfold events, render_sphinx.
  change (text ++ [] :: flat_map render_sfield fs) with (text ++ [[]] ++ flat_map render_sfield fs).
  rewrite app_assoc.
  rewrite (events_aux_plain (text ++ [[]]) _ (map ev_of fs) [] ).
  - rewrite app_nil_r. reflexivity.
  - apply Forall_app. split.
    + apply Forall_forall. intros l Hin. rewrite forallb_forall in Ht. specialize (Ht l Hin).
      unfold wf_stext_line in Ht. apply andb_true_iff in Ht. destruct Ht as [_ Ht]. apply negb_true_iff in Ht. exact Ht.
    + constructor; [reflexivity|constructor].
  - apply events_fields. exact Hf.
Qed.

(* ---- _parse_directive on a rendered field *)
Lemma lstrip_conts : forall cs, forallb wf_sline cs = true -> map lstrip (map cont4 cs) = cs.
Proof.
  induction cs as [|c cs IH]; intros H; [reflexivity|]. simpl in H. apply andb_true_iff in H. destruct H as [Hc Hcs].
  destruct (wf_sline_facts c Hc) as [Hns _].
  change (map lstrip (map cont4 (c :: cs))) with (lstrip (spaces 4 ++ c) :: map lstrip (map cont4 cs)).
  rewrite lstrip_spaces, (lstrip_nsp c Hns), (IH Hcs). reflexivity.
Qed.

Lemma parse_directive_gen : forall DIR d0 cs, contains_char colon DIR = false -> forallb printable DIR = true ->
  wf_sdesc d0 cs = true ->
  parse_directive (colon :: DIR ++ colon :: sp :: d0) (map cont4 cs) = Some (split_all sp DIR, d0 ++ tailjoin cs).
Proof.
  intros DIR d0 cs Hc Hp Hw. assert (Hw' := Hw).
  unfold wf_sdesc in Hw'. apply andb_true_iff in Hw'. destruct Hw' as [Hw' _]. apply andb_true_iff in Hw'. destruct Hw' as [Hd Hcs].
  destruct (wf_sline_facts d0 Hd) as [_ [Hpd _]].
  unfold parse_directive, consolidate.
  change (map lstrip ((colon :: DIR ++ colon :: sp :: d0) :: map cont4 cs)) with
    (lstrip (colon :: DIR ++ colon :: sp :: d0) :: map lstrip (map cont4 cs)).
  rewrite (lstrip_nsp (colon :: DIR ++ colon :: sp :: d0)) by reflexivity.
  rewrite lstrip_conts by auto. rewrite join_with_sp.
  rewrite rstrip_nl_printable.
  2:{ rewrite forallb_app. rewrite (tailjoin_printable cs Hcs). rewrite andb_true_r.
      change (forallb printable (colon :: DIR ++ colon :: sp :: d0)) with (printable colon && forallb printable (DIR ++ colon :: sp :: d0)).
      rewrite forallb_app. rewrite Hp. change (forallb printable (colon :: sp :: d0)) with (printable colon && (printable sp && forallb printable d0)).
      rewrite Hpd. reflexivity. }
  rewrite <- app_comm_cons.
  change (split_first colon (colon :: (DIR ++ colon :: sp :: d0) ++ tailjoin cs)) with
    (if ceq colon colon then Some (@nil ascii, (DIR ++ colon :: sp :: d0) ++ tailjoin cs)
     else match split_first colon ((DIR ++ colon :: sp :: d0) ++ tailjoin cs) with Some (a, b) => Some (colon :: a, b) | None => None end).
  rewrite ceq_refl.
  rewrite <- app_assoc. rewrite <- !app_comm_cons.
  rewrite (split_first_app colon DIR (sp :: d0 ++ tailjoin cs) Hc).
  rewrite strip_value by auto. reflexivity.
Qed.

(* ---- the state machine on rendered fields *)
Definition keyed (p : pitem) : str * pitem := (match p_name p with Some n => n | None => [] end, p).

Lemma has_key_false : forall (l : list (str * pitem)) n rest, nodupb (map fst l ++ n :: rest) = true -> has_key n l = false.
Proof.
  induction l as [|[k v] l IH]; intros n rest H; [reflexivity|].
  simpl in H. apply andb_true_iff in H. destruct H as [H1 H2]. apply negb_true_iff in H1.
  rewrite existsb_app in H1. apply orb_false_iff in H1. destruct H1 as [_ H1]. simpl in H1. apply orb_false_iff in H1. destruct H1 as [H1 _].
  unfold has_key. simpl. rewrite H1. apply (IH n rest H2).
Qed.

Lemma nodupb_shift : forall (a : list str) n b, nodupb ((a ++ [n]) ++ b) = nodupb (a ++ n :: b).
Proof. intros. rewrite <- app_assoc. reflexivity. Qed.

Lemma last_opt_app : forall {A} (x y : list A), last_opt (x ++ y) = match last_opt y with Some p => Some p | None => last_opt x end.
Proof.
  intros A x y. unfold last_opt. rewrite rev_app_distr. destruct (rev y); simpl; reflexivity.
Qed.

Definition st_after (c : pctx) (ra : bool) (st : sstate) (fs : list sfield) : sstate :=
  mkS (s_desc st) (s_params st ++ map keyed (flat_map (exp_param c) fs)) [] (s_attrs st ++ map keyed (flat_map (exp_var c) fs)) []
      (s_excs st ++ flat_map exp_exc fs)
      (match last_opt (flat_map (exp_ret c ra) fs) with Some p => Some p | None => s_ret st end) None.

Lemma wf_tok_split1 : forall (a n : str), contains_char sp a = false -> wf_tok n = true -> split_all sp (a ++ sp :: n) = [a; n].
Proof.
  intros a n Ha Hn. destruct (wf_tok_facts n Hn) as [Hs _]. rewrite split_all_app by auto. rewrite split_all_none by auto. reflexivity.
Qed.

Lemma step_field : forall c ra st f, wf_sfield f = true ->
  s_ptypes st = [] -> s_atypes st = [] -> s_rtype st = None ->
  nodupb (map fst (s_params st) ++ pnames [f]) = true -> nodupb (map fst (s_attrs st) ++ vnames [f]) = true ->
  step c ra st (ev_of f) =
  mkS (s_desc st) (s_params st ++ map keyed (exp_param c f)) [] (s_attrs st ++ map keyed (exp_var c f)) []
      (s_excs st ++ exp_exc f) (match exp_ret c ra f with p :: _ => Some p | [] => s_ret st end) None.
Proof.
  intros c ra st f Hw Hpt Hat Hrt Hnp Hnv.
  destruct st as [D P PT A AT X R RT]. simpl in Hpt, Hat, Hrt. subst PT AT RT. simpl s_params in *. simpl s_attrs in *.
  destruct f as [fn ty n d0 cs|fn n d0 cs|fn e d0 cs|fn d0 cs]; simpl in Hw.
  - (* :param: *)
    apply andb_true_iff in Hw. destruct Hw as [Hw Hd]. apply andb_true_iff in Hw. destruct Hw as [Hw Hn].
    apply andb_true_iff in Hw. destruct Hw as [Hfn Hty].
    destruct (param_names_ok fn [] Hfn) as [_ [Hfs [Hfc Hfp]]].
    destruct (wf_tok_facts n Hn) as [Hns [Hnc [Hnp' _]]].
    simpl in Hnp. try rewrite app_nil_r in Hnp. assert (Hk := has_key_false P n [] Hnp).
    unfold ev_of. simpl render_sfield. unfold step.
    destruct ty as [t|].
    + destruct (wf_tok_facts t Hty) as [Hts [Htc [Htp _]]].
      replace (colon :: s_of fn ++ (sp :: t) ++ sp :: n ++ colon :: sp :: d0)
        with (colon :: (s_of fn ++ sp :: t ++ sp :: n) ++ colon :: sp :: d0)
        by (rewrite <- !app_assoc; simpl; rewrite <- !app_assoc; reflexivity).
      rewrite parse_directive_gen; auto.
      2:{ rewrite !contains_char_app. rewrite Hfc. unfold contains_char at 1. simpl. fold (contains_char colon (t ++ sp :: n)).
          rewrite contains_char_app, Htc. unfold contains_char. simpl. fold (contains_char colon n). rewrite Hnc. reflexivity. }
      2:{ rewrite forallb_app, Hfp. simpl. rewrite forallb_app, Htp. simpl. rewrite Hnp'. reflexivity. }
      rewrite split_all_app by auto. rewrite wf_tok_split1 by auto.
      simpl s_params. rewrite Hk. simpl. rewrite <- join_with_sp. rewrite !app_nil_r. reflexivity.
    + replace (colon :: s_of fn ++ [] ++ sp :: n ++ colon :: sp :: d0)
        with (colon :: (s_of fn ++ sp :: n) ++ colon :: sp :: d0)
        by (simpl; rewrite <- !app_assoc; reflexivity).
      rewrite parse_directive_gen; auto.
      2:{ rewrite contains_char_app, Hfc. unfold contains_char. simpl. fold (contains_char colon n). rewrite Hnc. reflexivity. }
      2:{ rewrite forallb_app, Hfp. simpl. rewrite Hnp'. reflexivity. }
      rewrite wf_tok_split1 by auto.
      simpl s_params. rewrite Hk. simpl. rewrite <- join_with_sp. rewrite !app_nil_r. reflexivity.
  - (* :var: *)
    apply andb_true_iff in Hw. destruct Hw as [Hw Hd]. apply andb_true_iff in Hw. destruct Hw as [Hfn Hn].
    destruct (var_names_ok fn [] Hfn) as [_ [Hfs [Hfc Hfp]]].
    destruct (wf_tok_facts n Hn) as [Hns [Hnc [Hnp' _]]].
    simpl in Hnv. try rewrite app_nil_r in Hnv. assert (Hk := has_key_false A n [] Hnv).
    unfold ev_of. simpl render_sfield. unfold step.
    replace (colon :: s_of fn ++ sp :: n ++ colon :: sp :: d0)
      with (colon :: (s_of fn ++ sp :: n) ++ colon :: sp :: d0)
      by (rewrite <- !app_assoc; reflexivity).
    rewrite parse_directive_gen; auto.
    2:{ rewrite contains_char_app, Hfc. unfold contains_char. simpl. fold (contains_char colon n). rewrite Hnc. reflexivity. }
    2:{ rewrite forallb_app, Hfp. simpl. rewrite Hnp'. reflexivity. }
    rewrite wf_tok_split1 by auto.
    simpl s_attrs. rewrite Hk. simpl. rewrite <- join_with_sp. rewrite !app_nil_r. reflexivity.
  - (* :raises: *)
    apply andb_true_iff in Hw. destruct Hw as [Hw Hd]. apply andb_true_iff in Hw. destruct Hw as [Hfn Hn].
    destruct (exc_names_ok fn [] Hfn) as [_ [Hfs [Hfc Hfp]]].
    destruct (wf_tok_facts e Hn) as [Hns [Hnc [Hnp' _]]].
    unfold ev_of. simpl render_sfield. unfold step.
    replace (colon :: s_of fn ++ sp :: e ++ colon :: sp :: d0)
      with (colon :: (s_of fn ++ sp :: e) ++ colon :: sp :: d0)
      by (rewrite <- !app_assoc; reflexivity).
    rewrite parse_directive_gen; auto.
    2:{ rewrite contains_char_app, Hfc. unfold contains_char. simpl. fold (contains_char colon e). rewrite Hnc. reflexivity. }
    2:{ rewrite forallb_app, Hfp. simpl. rewrite Hnp'. reflexivity. }
    rewrite wf_tok_split1 by auto.
    simpl. rewrite <- join_with_sp. rewrite !app_nil_r. reflexivity.
  - (* :returns: *)
    apply andb_true_iff in Hw. destruct Hw as [Hfn Hd].
    destruct (ret_names_ok fn [] Hfn) as [_ [Hfs [Hfc Hfp]]].
    unfold ev_of. simpl render_sfield. unfold step.
    rewrite parse_directive_gen; auto.
    simpl. rewrite <- join_with_sp. rewrite !app_nil_r. reflexivity.
Qed.

Lemma nodupb_app_l : forall (a b : list str), nodupb (a ++ b) = true -> nodupb a = true.
Proof.
  induction a as [|x a IH]; intros b H; [reflexivity|].
  simpl in H. apply andb_true_iff in H. destruct H as [H1 H2]. apply negb_true_iff in H1.
  rewrite existsb_app in H1. apply orb_false_iff in H1. destruct H1 as [H1 _].
  simpl. rewrite H1. simpl. apply (IH b H2).
Qed.

Lemma nodupb_mid : forall (a x b : list str), nodupb (a ++ x ++ b) = true -> nodupb (a ++ x) = true.
Proof. intros a x b H. rewrite app_assoc in H. apply nodupb_app_l in H. exact H. Qed.

Lemma pnames_cons : forall f fs, pnames (f :: fs) = pnames [f] ++ pnames fs.
Proof. intros. unfold pnames. simpl. rewrite app_nil_r. reflexivity. Qed.
Lemma vnames_cons : forall f fs, vnames (f :: fs) = vnames [f] ++ vnames fs.
Proof. intros. unfold vnames. simpl. rewrite app_nil_r. reflexivity. Qed.

Lemma keys_exp_param : forall c f, map fst (map keyed (exp_param c f)) = pnames [f].
Proof. intros c f. destruct f; reflexivity. Qed.
Lemma keys_exp_var : forall c f, map fst (map keyed (exp_var c f)) = vnames [f].
Proof. intros c f. destruct f; reflexivity. Qed.

Lemma fold_fields : forall c ra fs st, forallb wf_sfield fs = true ->
  s_ptypes st = [] -> s_atypes st = [] -> s_rtype st = None ->
  nodupb (map fst (s_params st) ++ pnames fs) = true -> nodupb (map fst (s_attrs st) ++ vnames fs) = true ->
  fold_left (step c ra) (map ev_of fs) st = st_after c ra st fs.
Proof.
  intros c ra fs. induction fs as [|f fs IH]; intros st Hw Hpt Hat Hrt Hnp Hnv.
  - destruct st as [D P PT A AT X R RT]. simpl in Hpt, Hat, Hrt. subst. unfold st_after. simpl. rewrite !app_nil_r. reflexivity.
  - simpl in Hw. apply andb_true_iff in Hw. destruct Hw as [Hf Hfs].
    rewrite pnames_cons in Hnp. rewrite vnames_cons in Hnv.
    simpl map. simpl fold_left.
    rewrite (step_field c ra st f Hf Hpt Hat Hrt (nodupb_mid _ _ _ Hnp) (nodupb_mid _ _ _ Hnv)).
    rewrite IH; auto.
    + unfold st_after. simpl.
      change (flat_map (exp_param c) (f :: fs)) with (exp_param c f ++ flat_map (exp_param c) fs).
      change (flat_map (exp_var c) (f :: fs)) with (exp_var c f ++ flat_map (exp_var c) fs).
      change (flat_map exp_exc (f :: fs)) with (exp_exc f ++ flat_map exp_exc fs).
      change (flat_map (exp_ret c ra) (f :: fs)) with (exp_ret c ra f ++ flat_map (exp_ret c ra) fs).
      rewrite !map_app, <- !app_assoc. rewrite last_opt_app.
      f_equal. destruct (last_opt (flat_map (exp_ret c ra) fs)); [reflexivity|].
      destruct f; reflexivity.
    + simpl s_params. rewrite map_app, keys_exp_param, <- app_assoc. exact Hnp.
    + simpl s_attrs. rewrite map_app, keys_exp_var, <- app_assoc. exact Hnv.
Qed.

Lemma fold_desc : forall c ra ls st,
  fold_left (step c ra) (map EDesc ls) st =
  mkS (s_desc st ++ ls) (s_params st) (s_ptypes st) (s_attrs st) (s_atypes st) (s_excs st) (s_ret st) (s_rtype st).
Proof.
  intros c ra ls. induction ls as [|l ls IH]; intros st.
  - destruct st. simpl. rewrite app_nil_r. reflexivity.
  - simpl. rewrite IH. simpl. rewrite <- app_assoc. reflexivity.
Qed.

Lemma drop_blank_noop : forall ls, is_empty_line (hd [] ls) = false -> drop_blank ls = ls.
Proof. destruct ls as [|l ls]; intros H; [reflexivity|]. simpl in *. rewrite H. reflexivity. Qed.

Lemma rev_head_last : forall (ls : list str), ls <> [] -> hd [] (rev ls) = last ls [].
Proof.
  intros ls H. destruct (exists_last H) as [l' [x ->]]. rewrite rev_app_distr. simpl. rewrite last_last. reflexivity.
Qed.

Lemma strip_blank_text : forall text, text <> [] -> is_empty_line (hd [] text) = false -> is_empty_line (last text []) = false ->
  strip_blank_lines (text ++ [[]]) = text.
Proof.
  intros text Hn Hh Hl. unfold strip_blank_lines.
  assert (E1 : drop_blank (text ++ [[]]) = text ++ [[]]).
  { apply drop_blank_noop. destruct text; [congruence|exact Hh]. }
  rewrite E1. rewrite rev_app_distr.
  change (rev [[]] ++ rev text) with (([] : str) :: rev text).
  change (drop_blank (([] : str) :: rev text)) with (drop_blank (rev text)).
  assert (E2 : drop_blank (rev text) = rev text).
  { apply drop_blank_noop. rewrite rev_head_last by auto. exact Hl. }
  rewrite E2. apply rev_involutive.
Qed.

Lemma map_snd_keyed : forall l, map snd (map keyed l) = l.
Proof. induction l as [|p l IH]; [reflexivity|]. simpl. rewrite IH. reflexivity. Qed.

Lemma sec_of_keyed : forall k l,
  match map keyed l with [] => [] | ps => [GItems k None (map snd ps)] end = sec_of k l.
Proof. intros k l. destruct l as [|p l]; [reflexivity|]. simpl. rewrite map_snd_keyed. reflexivity. Qed.

Theorem sphinx_roundtrip_partial : forall c ra text fields, wf_sphinx text fields = true ->
  parse_sphinx c ra (render_sphinx text fields) = expect_sphinx c ra text fields.
Proof.
  intros c ra text fields H. unfold wf_sphinx in H.
  apply andb_true_iff in H. destruct H as [H Hnv]. apply andb_true_iff in H. destruct H as [H Hnp]. apply andb_true_iff in H. destruct H as [Ht Hf].
  unfold wf_stext in Ht.
  apply andb_true_iff in Ht. destruct Ht as [Ht Hlast]. apply andb_true_iff in Ht. destruct Ht as [Ht Hhd]. apply andb_true_iff in Ht. destruct Ht as [Hne Hlines].
  apply negb_true_iff in Hlast, Hhd.
  unfold parse_sphinx. rewrite events_render by auto.
  rewrite fold_left_app. rewrite fold_desc. simpl s_desc.
  rewrite fold_fields; auto.
  unfold st_after, sections_of, expect_sphinx. simpl.
  assert (Htn : text <> []) by (destruct text; [discriminate|discriminate]).
  rewrite (strip_blank_text text Htn Hhd Hlast).
  rewrite !sec_of_keyed.
  destruct (last_opt (flat_map (exp_ret c ra) fields)); destruct (flat_map exp_exc fields); reflexivity.
Qed.

(* ---- finding C13-F8 in the model: a :type: field after its :param: loses against the signature *)
Definition f8_ctx : pctx := mkCtx (Some [(s_of "a", (Some (s_of "int"), None))]) (Some []) RNone.
Definition f8_lines : list str := [s_of "Summary."; []; s_of ":param a: The a."; s_of ":type a: str"].
Definition f8_lines_swapped : list str := [s_of "Summary."; []; s_of ":type a: str"; s_of ":param a: The a."].

Lemma sphinx_type_after_param_F8 :
  parse_sphinx f8_ctx true f8_lines =
    [GText (s_of "Summary."); GItems KParams None [mkItem (Some (s_of "a")) (Some (s_of "int")) (s_of "The a.") None]] /\
  parse_sphinx f8_ctx true f8_lines_swapped =
    [GText (s_of "Summary."); GItems KParams None [mkItem (Some (s_of "a")) (Some (s_of "str")) (s_of "The a.") None]].
Proof. split; vm_compute; reflexivity. Qed.

Definition sphinx_sample_text : list str := [s_of "Summary."; []; s_of "More: text."].
Definition sphinx_sample : list sfield :=
  [SFParam "param" None (s_of "a") (s_of "The a,") [s_of "continued."];
   SFRaises "raises" (s_of "ValueError") (s_of "When bad.") [];
   SFParam "keyword" (Some (s_of "int")) (s_of "b") (s_of "The b.") [];
   SFReturns "returns" (s_of "Nothing: really.") [];
   SFVar "ivar" (s_of "x") (s_of "An x.") []].

Example sphinx_sample_wf : wf_sphinx sphinx_sample_text sphinx_sample = true.
Proof. vm_compute. reflexivity. Qed.
