(* C05: the hand-written model against the definitions regenerated from the source on every run (Gen/C05_ladder.v). *)
From Coq Require Import List ZArith String Ascii Bool Arith.
From Verif Require Import Lib.Sexp Model.C05_imports Gen.C05_ladder Proofs.C05_imports.
Import ListNotations.
Open Scope string_scope.
Open Scope list_scope.
Open Scope nat_scope.

Definition is_module_obj (m : member) : bool := match m with MSub => true | _ => false end.

(* mixins.is_wildcard_exposed, for a member of a module visited at run time: the model's rule is the generated ladder *)
Theorem wildcard_exposed_is_generated st n m :
  wildcard_exposed st n m =
  gen_is_wildcard_exposed true true true (exports st) n (is_alias m) (is_module_obj m) (mem_str n (imports st)).
Proof.
  unfold wildcard_exposed, gen_is_wildcard_exposed. simpl. destruct (exports st); auto.
  destruct (starts_underscore n); auto. destruct m; simpl; auto.
Qed.

(* loader.expand_wildcards: the comparison of line numbers *)
Theorem overwrite_is_generated old new : gen_overwrite old new = Nat.ltb old new.
Proof. reflexivity. Qed.

Theorem basic_apply_one_uses_generated_rule ms e old :
  lookup (e_name e) ms = Some old ->
  basic_apply_one ms e = if gen_overwrite (member_lineno old) (e_ln e) then assign (e_name e) (wrap e) ms else ms.
Proof. intros H. unfold basic_apply_one. rewrite H. reflexivity. Qed.

(* visitor.visit_importfrom: `from . import b` (no module part, level 1, no `as`) in a package __init__ is skipped; the abstraction
   marks exactly the statements without module part and with level 1 as `bare` *)
Theorem skip_test_is_generated has_module level (asn : option string) is_init :
  gen_skip_bare_import has_module level (match asn with Some _ => true | None => false end) is_init =
  (negb has_module && Nat.eqb level 1) && is_init && (match asn with None => true | Some _ => false end).
Proof.
  unfold gen_skip_bare_import. destruct has_module, (Nat.eqb level 1), is_init, asn; reflexivity.
Qed.

Theorem visit_skips_what_the_source_skips mp is_init st ln tgt n asn has_module level :
  gen_skip_bare_import has_module level (match asn with Some _ => true | None => false end) is_init = true ->
  visit_stmt mp is_init st (SFrom ln tgt n asn (negb has_module && Nat.eqb level 1)) = st.
Proof.
  rewrite skip_test_is_generated. intros H. simpl. rewrite H. reflexivity.
Qed.

(* visitor.visit_expr: the method the grammar's SExtAll statement stands for is one the source handles *)
Theorem extend_is_handled : In "extend" gen_all_methods /\ In "append" gen_all_methods.
Proof. split; simpl; auto. Qed.
