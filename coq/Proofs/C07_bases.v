(* C07, part 2: proofs about base-expression resolution (Model/C07_bases.v). *)
From Coq Require Import List ZArith String Bool Arith Lia.
From Verif Require Import Lib.Sexp Model.C07_mro Model.C07_bases Proofs.C07_mro.
Import ListNotations.
Open Scope string_scope.
Open Scope list_scope.
Open Scope nat_scope.

(* ---------------------------------------------------------------- paths *)

Lemma path_eqb_eq : forall p q, path_eqb p q = true <-> p = q.
Proof.
  induction p as [|a p IH]; destruct q as [|b q]; simpl; split; intros H; try discriminate; auto.
  - apply andb_true_iff in H. destruct H as [H1 H2]. apply String.eqb_eq in H1. apply IH in H2. congruence.
  - inversion H; subst. apply andb_true_iff. split; [apply String.eqb_refl|apply IH; reflexivity].
Qed.

Lemma memp_In p l : memp p l = true <-> In p l.
Proof.
  unfold memp. rewrite existsb_exists. split.
  - intros [x [Hx He]]. apply path_eqb_eq in He. subst. exact Hx.
  - intros H. exists p. split; auto. apply path_eqb_eq. reflexivity.
Qed.

Lemma memp_false p l : memp p l = false <-> ~ In p l.
Proof.
  split.
  - intros H Hin. apply memp_In in Hin. congruence.
  - intros H. destruct (memp p l) eqn:E; auto. exfalso. apply H. apply memp_In. exact E.
Qed.

Lemma find_obj_In h p k : find_obj h p = Some k -> In p (map fst h).
Proof.
  induction h as [|[q k'] h IH]; simpl; try discriminate.
  destruct (path_eqb q p) eqn:E.
  - intros _. left. apply path_eqb_eq. exact E.
  - intros H. right. auto.
Qed.

(* ---------------------------------------------------------------- totality: the cycle guards make the recursion finite *)

Lemma walk_total (F : path -> rres) : (forall q, F q <> RFuel) -> forall parts cur, walk F cur parts <> RFuel.
Proof.
  intros HF. induction parts as [|n rest IH]; intros cur; simpl.
  - apply HF.
  - destruct cur as [|c0 cur'].
    + apply IH.
    + pose proof (HF (c0 :: cur')) as H. destruct (F (c0 :: cur')); try congruence; try apply IH.
Qed.

Lemma fin_fuel_enough follow h : forall f seen p,
  NoDup seen -> incl seen (map fst h) ->
  List.length (map fst h) < f + List.length seen ->
  fin f follow h seen p <> RFuel.
Proof.
  induction f as [|f IH]; intros seen p Hn Hi Hf.
  - exfalso. pose proof (NoDup_incl_length Hn Hi). simpl in Hf. lia.
  - simpl. destruct (find_obj h p) as [k|] eqn:Ek; try discriminate.
    assert (Hrec : memp p seen = false -> forall q, fin f follow h (p :: seen) q <> RFuel).
    { intros Hm q. apply IH.
      - constructor; auto. apply memp_false. exact Hm.
      - intros x [<-|Hx]; auto. eapply find_obj_In; eauto.
      - simpl. lia. }
    destruct k; try discriminate.
    + destruct follow.
      * destruct (memp p seen) eqn:Em; try discriminate. apply walk_total. apply Hrec. reflexivity.
      * discriminate.
    + destruct (memp p seen) eqn:Em; try discriminate. apply walk_total. apply Hrec. reflexivity.
Qed.

Theorem lookup_path_total follow h p : lookup_path follow h p <> RFuel.
Proof.
  unfold lookup_path. apply walk_total. intros q. apply fin_fuel_enough.
  - constructor.
  - intros x [].
  - simpl. rewrite map_length. lia.
Qed.

Theorem resolve_base_total follow h scope e : resolve_base follow h scope e <> RFuel.
Proof. apply lookup_path_total. Qed.

(* ---------------------------------------------------------------- subscripts are transparent *)

Theorem resolve_subscript follow h scope e : resolve_base follow h scope (BSub e) = resolve_base follow h scope e.
Proof. reflexivity. Qed.

(* ---------------------------------------------------------------- what a result means *)

Lemma walk_found_inv (F : path -> rres) (P : path -> okind -> Prop) :
  (forall p q k, F p = Found q k -> P q k) -> forall parts cur q k, walk F cur parts = Found q k -> P q k.
Proof.
  intros HF. induction parts as [|n rest IH]; intros cur q k; simpl.
  - apply HF.
  - destruct cur as [|c0 cur'].
    + apply IH.
    + destruct (F (c0 :: cur')) eqn:E; try discriminate. apply IH.
Qed.

(* a result is an object of the heap, and never an alias: final_target went all the way *)
Lemma fin_found follow h : forall f seen p q k, fin f follow h seen p = Found q k ->
  find_obj h q = Some k /\ (forall t, k <> KAlias t) /\ (follow = true -> forall e, k <> KAttr e).
Proof.
  induction f as [|f IH]; intros seen p q k; simpl; try discriminate.
  destruct (find_obj h p) as [k0|] eqn:Ek; try discriminate.
  destruct k0.
  - intros H. inversion H; subst. repeat split; auto; intros; discriminate.
  - intros H. inversion H; subst. repeat split; auto; intros; discriminate.
  - intros H. inversion H; subst. repeat split; auto; intros; discriminate.
  - destruct follow.
    + destruct (memp p seen); try discriminate.
      apply (walk_found_inv _ (fun q k => find_obj h q = Some k /\ (forall t, k <> KAlias t) /\ (true = true -> forall e, k <> KAttr e))).
      intros p' q' k' H'. eapply IH; eauto.
    + intros H. inversion H; subst. repeat split; auto; intros; discriminate.
  - destruct (memp p seen); try discriminate.
    apply (walk_found_inv _ (fun q k => find_obj h q = Some k /\ (forall t, k <> KAlias t) /\ (follow = true -> forall e, k <> KAttr e))).
    intros p' q' k' H'. eapply IH; eauto.
Qed.

Theorem resolve_base_found follow h scope e q k : resolve_base follow h scope e = Found q k ->
  find_obj h q = Some k /\ (forall t, k <> KAlias t).
Proof.
  unfold resolve_base, lookup_path. intros H.
  apply (walk_found_inv _ (fun q k => find_obj h q = Some k /\ (forall t, k <> KAlias t))) in H; auto.
  intros p' q' k' H'. apply fin_found in H'. tauto.
Qed.

(* ---------------------------------------------------------------- Griffe's reading vs Python's reading *)

Definition not_attr (k : okind) : Prop := forall e, k <> KAttr e.
(* an attribute has no members of its own in the collection *)
Definition attr_leaf (h : heap) : Prop := forall p e n, find_obj h p = Some (KAttr e) -> find_obj h (p ++ [n]) = None.

Lemma app_cons_not_nil {A} (l : list A) x : l ++ [x] <> [].
Proof. destruct l; discriminate. Qed.

Lemma walk_dead (F : path -> rres) c parts : c <> [] -> F c = RKey -> walk F c parts = RKey.
Proof.
  intros Hc HF. destruct parts as [|n rest]; simpl; auto.
  destruct c; [congruence|]. rewrite HF. reflexivity.
Qed.

Lemma fin_missing follow h f seen p : find_obj h p = None -> fin (S f) follow h seen p = RKey.
Proof. intros H. simpl. rewrite H. reflexivity. Qed.

Lemma walk_agree (F G : path -> rres) h :
  attr_leaf h ->
  (forall p q k, F p = Found q k -> find_obj h q = Some k) ->
  (forall p, find_obj h p = None -> F p = RKey) ->
  (forall p q k, F p = Found q k -> not_attr k -> G p = Found q k) ->
  forall parts cur q k, walk F cur parts = Found q k -> not_attr k -> walk G cur parts = Found q k.
Proof.
  intros Hleaf Hobj Hmiss HFG. induction parts as [|n rest IH]; intros cur q k; simpl.
  - apply HFG.
  - destruct cur as [|c0 cur'].
    + apply IH.
    + destruct (F (c0 :: cur')) as [cur2 k2| | |] eqn:E; try discriminate.
      intros Hw Hk.
      assert (Hk2 : not_attr k2).
      { intros e ->. pose proof (Hobj _ _ _ E) as Ho. specialize (Hleaf _ _ n Ho).
        rewrite (walk_dead F (cur2 ++ [n]) rest) in Hw; [discriminate|apply app_cons_not_nil|apply Hmiss; exact Hleaf]. }
      rewrite (HFG _ _ _ E Hk2). apply IH; auto.
Qed.

Lemma fin_agree h : attr_leaf h -> forall f seen p q k,
  fin f false h seen p = Found q k -> not_attr k -> fin f true h seen p = Found q k.
Proof.
  intros Hleaf. induction f as [|f IH]; intros seen p q k; simpl; try discriminate.
  destruct (find_obj h p) as [k0|] eqn:Ek; try discriminate.
  destruct k0; auto.
  - intros H Hk. inversion H; subst. exfalso. eapply Hk. reflexivity.
  - destruct (memp p seen); try discriminate.
    destruct f as [|f'].
    + (* no fuel left below: every finalisation answers RFuel, the walk cannot find anything *)
      intros H. exfalso. revert H.
      apply (walk_found_inv (fin 0 false h (p :: seen)) (fun _ _ => False)). simpl. discriminate.
    + apply walk_agree with (h := h); auto.
      * intros p' q' k' H'. eapply fin_found in H'. tauto.
      * intros p' Hp'. apply fin_missing. exact Hp'.
Qed.

(* Soundness of resolved_bases: whenever Griffe resolves a base down to something that is not an assigned name,
   Python's reading of the same expression is that very object. *)
Theorem resolve_base_sound h scope e q k : attr_leaf h ->
  resolve_base false h scope e = Found q k -> not_attr k -> resolve_base true h scope e = Found q k.
Proof.
  intros Hleaf. unfold resolve_base, lookup_path.
  apply walk_agree with (h := h); auto.
  - intros p' q' k' H'. eapply fin_found in H'. tauto.
  - intros p' Hp'. apply fin_missing. exact Hp'.
  - intros p' q' k' H' Hk'. apply fin_agree; auto.
Qed.

Corollary first_stage_is_pbase h scope e q i : attr_leaf h ->
  resolve_base false h scope e = Found q (KCls i) -> pbase h scope e = Some i.
Proof.
  intros Hleaf H. unfold pbase. rewrite (resolve_base_sound h scope e q (KCls i)); auto. intros e0. discriminate.
Qed.

Lemma find_obj_In2 h p k : find_obj h p = Some k -> In (p, k) h.
Proof.
  induction h as [|[q k'] h IH]; simpl; try discriminate.
  destruct (path_eqb q p) eqn:E.
  - intros H. inversion H; subst. left. apply path_eqb_eq in E. subst. reflexivity.
  - intros H. right. auto.
Qed.

(* non-vacuity: an alias chain through a re-export and a module alias, a subscript, a cyclic alias *)
Definition demo_heap : heap :=
  [ (["p"], KMod); (["p"; "K0"], KAlias ["p"; "a"; "K0"]);
    (["p"; "a"], KMod); (["p"; "a"; "K0"], KCls 0);
    (["p"; "b"], KMod); (["p"; "b"; "K0"], KAlias ["p"; "K0"]); (["p"; "b"; "q"], KAlias ["p"; "a"]);
    (["p"; "b"; "X"], KAlias ["p"; "b"; "Y"]); (["p"; "b"; "Y"], KAlias ["p"; "b"; "X"]);
    (["p"; "b"; "H"], KObj); (["p"; "b"; "H"; "K1"], KCls 1) ].
Example demo_resolve :
  resolve_base false demo_heap ["p"; "b"] (BSub (BName "K0")) = Found ["p"; "a"; "K0"] (KCls 0) /\
  resolve_base false demo_heap ["p"; "b"; "H"] (BAttr (BName "q") "K0") = Found ["p"; "a"; "K0"] (KCls 0) /\
  resolve_base false demo_heap ["p"; "b"] (BName "X") = RCyc /\
  resolve_base false demo_heap ["p"; "b"] (BName "object") = RKey /\
  resolve_base false demo_heap ["p"; "b"; "H"] (BName "K1") = Found ["p"; "b"; "H"; "K1"] (KCls 1) /\
  gbases demo_heap ["p"; "b"] [BName "X"; BName "K0"; BName "object"; BAttr (BName "H") "K1"] = [0; 1].
Proof. repeat split; reflexivity. Qed.

(* ---------------------------------------------------------------- inherited aliases over members that are aliases themselves *)

Lemma lookup_path_found follow h p q k : lookup_path follow h p = Found q k ->
  find_obj h q = Some k /\ (forall t, k <> KAlias t).
Proof.
  unfold lookup_path. intros H.
  apply (walk_found_inv _ (fun q k => find_obj h q = Some k /\ (forall t, k <> KAlias t))) in H; auto.
  intros p' q' k' H'. apply fin_found in H'. tauto.
Qed.

(* Where an inherited alias finally leads: the member itself when the owner defines it, else -- the member being an
   import inside the class body -- the object at the end of that alias chain; never an alias. *)
Theorem inherited_final_object g owner n q k : member_final g owner n = Found q k ->
  (forall t, k <> KAlias t) /\
  (lookup n (xmalias (nth owner (pclasses g) (mkX [] [] [] [] []))) = None ->
   q = xpath (nth owner (pclasses g) (mkX [] [] [] [] [])) ++ [n]) /\
  (forall tgt, lookup n (xmalias (nth owner (pclasses g) (mkX [] [] [] [] []))) = Some tgt ->
   lookup_path false (pheap g) tgt = Found q k /\ find_obj (pheap g) q = Some k).
Proof.
  unfold member_final. destruct (lookup n (xmalias (nth owner (pclasses g) (mkX [] [] [] [] [])))) as [tgt|] eqn:E.
  - intros H. destruct (lookup_path_found _ _ _ _ _ H) as [Hf Ha].
    split; [exact Ha|]. split; [discriminate|].
    intros tgt' Ht. inversion Ht; subst. split; assumption.
  - intros H. inversion H; subst.
    split; [discriminate|]. split; [reflexivity|]. discriminate.
Qed.


(* ---------------------------------------------------------------- the assignment-following loop of resolved_bases (fix 3a123f9) *)

Lemma follow_fuel_enough subs h : forall f fl p k,
  NoDup fl -> incl fl (map fst h) -> List.length (map fst h) < f + List.length fl ->
  follow_attr subs f h fl p k <> RFuel.
Proof.
  induction f as [|f IH]; intros fl p k Hn Hi Hf.
  - exfalso. pose proof (NoDup_incl_length Hn Hi). simpl in Hf. lia.
  - destruct k; simpl; try discriminate.
    destruct (is_sub v && negb subs); try discriminate.
    pose proof (lookup_path_total false h (canon h (removelast p) v)) as Ht.
    destruct (lookup_path false h (canon h (removelast p) v)) as [q k'| | |] eqn:El; try discriminate; try congruence.
    destruct (memp q fl) eqn:Em; try discriminate.
    apply IH.
    + constructor; auto. apply memp_false. exact Em.
    + intros x [<-|Hx]; auto. destruct (lookup_path_found _ _ _ _ _ El) as [Hq _]. eapply find_obj_In; eauto.
    + simpl. lia.
Qed.

(* Class.resolved_bases always returns: alias cycles, assignment cycles (A = B; B = A), dangling names. *)
Theorem gresolve_total subs h scope e : gresolve_s subs h scope e <> RFuel.
Proof.
  unfold gresolve_s. pose proof (resolve_base_total false h scope e) as Ht.
  destruct (resolve_base false h scope e) as [p k| | |] eqn:Er; try discriminate; try congruence.
  destruct (resolve_base_found _ _ _ _ _ _ Er) as [Hp _].
  apply follow_fuel_enough.
  - constructor; [intros []|constructor].
  - intros x [<-|[]]. eapply find_obj_In; eauto.
  - simpl. rewrite map_length. lia.
Qed.

(* a base that does not go through an assigned name is resolved by the first stage alone ... *)
Lemma gresolve_direct subs h scope e q k : resolve_base false h scope e = Found q k -> not_attr k ->
  gresolve_s subs h scope e = Found q k.
Proof.
  intros H Hk. unfold gresolve_s. rewrite H. destruct k; try reflexivity. exfalso. eapply Hk. reflexivity.
Qed.

(* ... and is then exactly what the expression denotes in Python, through any chain of aliases *)
Theorem gresolve_sound_direct h scope e q k : attr_leaf h ->
  resolve_base false h scope e = Found q k -> not_attr k ->
  gresolve h scope e = Found q k /\ resolve_base true h scope e = Found q k.
Proof.
  intros Hleaf H Hk. split; [apply gresolve_direct; auto|apply resolve_base_sound; auto].
Qed.

(* The loop against the reading in which EVERY assigned name denotes its value (subscripted values too):
   identical unless Griffe's answer is an attribute, i.e. unless it stopped at a subscripted value. *)
Lemma follow_attr_subs h : forall f fl p k r, follow_attr false f h fl p k = r ->
  (forall q v, r <> Found q (KAttr v)) -> follow_attr true f h fl p k = r.
Proof.
  induction f as [|f IH]; intros fl p k r H Hr.
  - destruct k; simpl in *; auto. destruct (is_sub v); simpl in *; auto. subst r. exfalso. eapply Hr. reflexivity.
  - destruct k; simpl in *; auto. destruct (is_sub v); simpl in *.
    + subst r. exfalso. eapply Hr. reflexivity.
    + destruct (lookup_path false h (canon h (removelast p) v)) as [q k'| | |]; auto.
      destruct (memp q fl); auto.
Qed.

Theorem gresolve_agree h scope e : (forall q v, gresolve h scope e <> Found q (KAttr v)) ->
  gresolve_s true h scope e = gresolve h scope e.
Proof.
  unfold gresolve, gresolve_s. intros H. destruct (resolve_base false h scope e) as [p k| | |]; auto.
  apply follow_attr_subs; auto.
Qed.

(* what the loop returns is an object of the collection, never an alias *)
Lemma follow_found subs h : forall f fl p k q kq, find_obj h p = Some k -> (forall t, k <> KAlias t) ->
  follow_attr subs f h fl p k = Found q kq -> find_obj h q = Some kq /\ (forall t, kq <> KAlias t).
Proof.
  induction f as [|f IH]; intros fl p k q kq Hp Hk H.
  - destruct k; simpl in H; try (inversion H; subst; auto; fail).
    destruct (is_sub v && negb subs); [inversion H; subst; auto|discriminate].
  - destruct k; simpl in H; try (inversion H; subst; auto; fail).
    destruct (is_sub v && negb subs); [inversion H; subst; auto|].
    destruct (lookup_path false h (canon h (removelast p) v)) as [q' k'| | |] eqn:El; try discriminate.
    destruct (memp q' fl); try discriminate.
    destruct (lookup_path_found _ _ _ _ _ El) as [Hq Ha]. eapply IH; eauto.
Qed.

Theorem gresolve_found subs h scope e q k : gresolve_s subs h scope e = Found q k ->
  find_obj h q = Some k /\ (forall t, k <> KAlias t).
Proof.
  unfold gresolve_s. destruct (resolve_base false h scope e) as [p k0| | |] eqn:Er; try discriminate.
  destruct (resolve_base_found _ _ _ _ _ _ Er) as [Hp Ha]. intros H. eapply follow_found; eauto.
Qed.

(* resolved_bases / the is_class filter, for every list of bases *)
Definition p1base (h : heap) (scope : path) (e : bexpr) : option nat :=
  match gresolve_s true h scope e with Found _ (KCls i) => Some i | _ => None end.
Definition kept (h : heap) (scope : path) (e : bexpr) : bool :=
  match gresolve h scope e with Found _ (KCls _) => true | _ => false end.

Lemma gbases_cons h scope e es : gbases h scope (e :: es) =
  (match gresolve h scope e with Found _ (KCls i) => [i] | _ => [] end) ++ gbases h scope es.
Proof.
  unfold gbases, resolved_objs. simpl. rewrite flat_map_app. f_equal.
  destruct (gresolve h scope e) as [p k| | |]; simpl; auto. destruct k; reflexivity.
Qed.

Lemma gbase_is_p1base h scope e q i : gresolve h scope e = Found q (KCls i) -> p1base h scope e = Some i.
Proof.
  intros H. unfold p1base. rewrite gresolve_agree; [rewrite H; reflexivity|].
  intros q' v. rewrite H. discriminate.
Qed.

Theorem gbases_subseq h scope es bs : map_opt (p1base h scope) es = Some bs -> Subseq (gbases h scope es) bs.
Proof.
  revert bs. induction es as [|e es IH]; intros bs; simpl.
  - intros H. inversion H. constructor.
  - destruct (p1base h scope e) as [i|] eqn:Ep; try discriminate.
    destruct (map_opt (p1base h scope) es) as [bs'|] eqn:Em; try discriminate.
    intros H. inversion H; subst. rewrite gbases_cons.
    destruct (gresolve h scope e) as [p k| | |] eqn:Er; simpl; try (constructor; apply IH; reflexivity).
    destruct k; simpl; try (constructor; apply IH; reflexivity).
    rewrite (gbase_is_p1base h scope e p i0 Er) in Ep. inversion Ep; subst.
    constructor. apply IH. reflexivity.
Qed.

Theorem gbases_complete h scope es : forallb (kept h scope) es = true ->
  map_opt (p1base h scope) es = Some (gbases h scope es).
Proof.
  induction es as [|e es IH]; simpl; auto.
  intros H. apply andb_true_iff in H. destruct H as [He Hes].
  rewrite gbases_cons. unfold kept in He.
  destruct (gresolve h scope e) as [p k| | |] eqn:Er; try discriminate.
  destruct k; try discriminate.
  rewrite (gbase_is_p1base h scope e p i Er). rewrite (IH Hes). reflexivity.
Qed.

(* for bases that involve no assignment at all, that reading is Python's full one (nested evaluation) *)
Theorem gbases_alias_only h scope es : attr_leaf h ->
  forallb (fun e => match resolve_base false h scope e with Found _ (KCls _) => true | _ => false end) es = true ->
  map_opt (pbase h scope) es = Some (gbases h scope es).
Proof.
  intros Hleaf. induction es as [|e es IH]; simpl; auto.
  intros H. apply andb_true_iff in H. destruct H as [He Hes].
  rewrite gbases_cons.
  destruct (resolve_base false h scope e) as [p k| | |] eqn:Er; try discriminate.
  destruct k; try discriminate.
  rewrite (first_stage_is_pbase h scope e p i Hleaf Er).
  assert (Hg : gresolve h scope e = Found p (KCls i)) by (apply gresolve_direct; auto; intros e0; discriminate).
  rewrite Hg. rewrite (IH Hes). reflexivity.
Qed.

(* Repaired (was finding C07-F2): `Base = K1; class C(Base)`, also through a chain `B2 = Base`; cycles are dropped. *)
Definition assign_heap : heap :=
  [ (["m"], KMod); (["m"; "K1"], KCls 0); (["m"; "Base"], KAttr (BName "K1")); (["m"; "B2"], KAttr (BName "Base"));
    (["m"; "L1"], KAttr (BName "L2")); (["m"; "L2"], KAttr (BName "L1")); (["m"; "C"], KCls 1) ].
Example assign_followed :
  gbases assign_heap ["m"] [BName "Base"] = [0] /\ gbases assign_heap ["m"] [BName "B2"] = [0] /\
  pbases assign_heap ["m"] [BName "B2"] = Some [0] /\
  gresolve assign_heap ["m"] (BName "L1") = RKey /\ gbases assign_heap ["m"] [BName "L1"; BName "Base"] = [0].
Proof. repeat split; reflexivity. Qed.

(* What remains of C07-F2 (narrowed): (a) a subscripted value is not followed, (b) an assigned name in the MIDDLE of an
   attribute chain is not followed, (c) the collection keeps the LAST binding of a name, CPython used the one current
   when the class statement ran. *)
Definition sub_heap : heap :=
  [ (["m"], KMod); (["m"; "G"], KCls 0); (["m"; "IntG"], KAttr (BSub (BName "G"))); (["m"; "D"], KCls 1) ].
Definition mid_heap : heap :=
  [ (["m"], KMod); (["m"; "H"], KObj); (["m"; "H"; "Inner"], KCls 0); (["m"; "ns"], KAttr (BName "H")); (["m"; "E"], KCls 1) ].
Definition rebind_prog : prog :=
  mkProg [ (["m"], KMod); (["m"; "K1"], KCls 0); (["m"; "K2"], KCls 1); (["m"; "Base"], KAttr (BName "K2")); (["m"; "C"], KCls 2) ]
         [ mkX ["m"; "K1"] ["m"] [] [] []; mkX ["m"; "K2"] ["m"] [] [] []; mkX ["m"; "C"] ["m"] [BName "Base"] [] [] ]
         [] ["object"]
         [ (["m"; "Base"], KAttr (BName "K1")) ].
Theorem resolve_assign_narrowed_refuted :
  (gbases sub_heap ["m"] [BName "IntG"] = [] /\ pbases sub_heap ["m"] [BName "IntG"] = Some [0] /\
   stops_at_attr sub_heap ["m"] (BName "IntG") = true) /\
  (gbases mid_heap ["m"] [BAttr (BName "ns") "Inner"] = [] /\ pbases mid_heap ["m"] [BAttr (BName "ns") "Inner"] = Some [0]) /\
  (cbases (nth_cls (gtbl rebind_prog) 2) = [1] /\ cbases (nth_cls (ptbl rebind_prog) 2) = [0] /\
   misresolved rebind_prog (mkX ["m"; "C"] ["m"] [BName "Base"] [] []) (BName "Base") = true).
Proof. repeat split; reflexivity. Qed.
