(* C10 proofs, part 1: tables, identical signatures are silent, reports are sound, the three always-reported changes,
   refutation witnesses for the known gaps. *)
From Coq Require Import List Arith Bool Lia.
From Verif Require Import Lib.Sexp Model.C10_kinds Gen.C10_tables Model.C10_diff.
Import ListNotations.
Open Scope list_scope. Open Scope nat_scope.

(* ---- the regenerated tables say what the documented rules say (finite check over kinds and flags) ---- *)
Lemma is_pos_spec k : is_pos k = pos_kind k.
Proof. destruct k; reflexivity. Qed.
Lemma is_var_spec k : is_var k = var_kind k.
Proof. destruct k; reflexivity. Qed.

Definition swallowed_doc (ok : kind) (hva hvk : bool) : bool :=
  match ok with KO => hvk | PO => hva | PK => hva && hvk | _ => false end.
Lemma swallowed_spec ok hva hvk : swallowed ok hva hvk = swallowed_doc ok hva hvk.
Proof. destruct ok, hva, hvk; reflexivity. Qed.

(* for ok <> nk: which kind changes are reported *)
Definition incompatible_doc (ok nk : kind) (hva hvk : bool) : bool :=
  match ok, nk with
  | PO, PK => false | PO, VP => false | PO, KO => true | PO, VK => negb hva
  | PK, PO => true | PK, VP => negb hvk | PK, KO => true | PK, VK => negb hva
  | VP, PO => negb hva | VP, PK => negb hva | VP, KO => negb hva | VP, VK => negb hva
  | KO, PO => true | KO, PK => false | KO, VP => negb hvk | KO, VK => false
  | VK, PO => negb hvk | VK, PK => negb hvk | VK, VP => negb hvk | VK, KO => negb hvk
  | _, _ => false
  end.
Lemma incompatible_spec ok nk hva hvk : ok <> nk ->
  incompatible_kind ok nk hva hvk = incompatible_doc ok nk hva hvk.
Proof. destruct ok, nk, hva, hvk; intros H; try reflexivity; exfalso; apply H; reflexivity. Qed.

Lemma kind_eqb_refl k : kind_eqb k k = true.
Proof. destruct k; reflexivity. Qed.
Lemma kind_eqb_eq a b : kind_eqb a b = true <-> a = b.
Proof. destruct a, b; simpl; split; intros H; try reflexivity; try discriminate. Qed.
Lemma kind_eqb_neq a b : kind_eqb a b = false <-> a <> b.
Proof. destruct a, b; simpl; split; intros H; try reflexivity; try discriminate; try (exfalso; apply H; reflexivity); intros E; discriminate. Qed.
Lemma odef_eqb_refl d : odef_eqb d d = true.
Proof. destruct d; simpl; [apply Nat.eqb_refl|reflexivity]. Qed.
Lemma odef_eqb_eq a b : odef_eqb a b = true <-> a = b.
Proof.
  destruct a, b; simpl; split; intros H; try reflexivity; try discriminate.
  - apply Nat.eqb_eq in H. subst. reflexivity.
  - inversion H. apply Nat.eqb_refl.
Qed.

(* ---- find / index_of on duplicate-free signatures ---- *)
Lemma find_some_in n s p : find n s = Some p -> In p s /\ pname p = n.
Proof.
  induction s as [|q s IH]; simpl; [discriminate|].
  destruct (Nat.eqb (pname q) n) eqn:E.
  - intros H. inversion H; subst. apply Nat.eqb_eq in E. auto.
  - intros H. destruct (IH H). auto.
Qed.
Lemma find_none_notin n s : find n s = None -> forall p, In p s -> pname p <> n.
Proof.
  induction s as [|q s IH]; simpl; [intros _ p []|].
  destruct (Nat.eqb (pname q) n) eqn:E; [discriminate|].
  intros H p [Hp|Hp]; [subst; apply Nat.eqb_neq; exact E|apply IH; assumption].
Qed.
Lemma in_find_some p s : In p s -> exists q, find (pname p) s = Some q.
Proof.
  induction s as [|q s IH]; simpl; [intros []|].
  intros [H|H].
  - subst. rewrite Nat.eqb_refl. eauto.
  - destruct (Nat.eqb (pname q) (pname p)); eauto.
Qed.

Lemma nodup_find_self p r : existsb (fun q => Nat.eqb (pname q) (pname p)) r = false ->
  forall q, In q r -> Nat.eqb (pname p) (pname q) = false.
Proof.
  intros H q Hq. destruct (Nat.eqb (pname p) (pname q)) eqn:E; [|reflexivity].
  exfalso. assert (existsb (fun q => Nat.eqb (pname q) (pname p)) r = true).
  { apply existsb_exists. exists q. split; [exact Hq|]. rewrite Nat.eqb_sym. exact E. }
  congruence.
Qed.

(* ---- identical signatures are silent ---- *)
Lemma per_old_self_nil whole i p :
  find (pname p) whole = Some p -> index_of (pname p) whole = i -> per_old whole i p = [].
Proof.
  intros Hf Hi. unfold per_old. rewrite Hf, Hi, Nat.eqb_refl, kind_eqb_refl, odef_eqb_refl.
  destruct (required p); simpl; rewrite ?andb_false_r; reflexivity.
Qed.

Lemma olds_self_nil whole : forall s i,
  (forall p, In p s -> find (pname p) whole = Some p) ->
  (forall k p, nth_error s k = Some p -> index_of (pname p) whole = i + k) ->
  olds whole i s = [].
Proof.
  induction s as [|p s IH]; intros i Hf Hi; simpl; [reflexivity|].
  rewrite per_old_self_nil.
  - simpl. apply IH.
    + intros q Hq. apply Hf. right. exact Hq.
    + intros k q Hk. rewrite (Hi (S k) q Hk). lia.
  - apply Hf. left. reflexivity.
  - rewrite (Hi 0 p eq_refl). lia.
Qed.

Lemma nodup_find_index : forall s, nodup_names s = true ->
  (forall p, In p s -> find (pname p) s = Some p) /\
  (forall k p, nth_error s k = Some p -> index_of (pname p) s = k).
Proof.
  induction s as [|q s IH]; simpl; intros Hnd.
  - split; [intros p []|intros [|k] p H; discriminate].
  - apply andb_prop in Hnd. destruct Hnd as [Hq Hs]. apply negb_true_iff in Hq.
    destruct (IH Hs) as [IH1 IH2]. split.
    + intros p [Hp|Hp].
      * subst. rewrite Nat.eqb_refl. reflexivity.
      * rewrite (nodup_find_self q s Hq p Hp). apply IH1. exact Hp.
    + intros [|k] p Hk; simpl in Hk.
      * inversion Hk; subst. rewrite Nat.eqb_refl. reflexivity.
      * assert (Hp : In p s) by (eapply nth_error_In; eauto).
        rewrite (nodup_find_self q s Hq p Hp). f_equal. apply IH2. exact Hk.
Qed.

Lemma added_self_nil s : (forall p, In p s -> find (pname p) s = Some p) -> added s s = [].
Proof.
  intros H. unfold added.
  assert (G : forall l, (forall p, In p l -> find (pname p) s = Some p) ->
    flat_map (fun np => match find (pname np) s with None => if required np then [AddedReq (pname np)] else [] | _ => [] end) l = []).
  { induction l as [|p l IH]; simpl; intros Hl; [reflexivity|].
    rewrite (Hl p (or_introl eq_refl)). simpl. apply IH. intros q Hq. apply Hl. right. exact Hq. }
  apply G. exact H.
Qed.

Theorem identical_silent s : nodup_names s = true -> fdiff s s = [].
Proof.
  intros Hnd. destruct (nodup_find_index s Hnd) as [H1 H2].
  unfold fdiff. rewrite olds_self_nil, added_self_nil; auto.
Qed.

(* ---- every report names a parameter that really changed ---- *)
Definition changed (old new : sig) (b : brk) : Prop :=
  match b with
  | Removed n => (exists op, In op old /\ pname op = n) /\ find n new = None
  | ChReq n => exists op np, In op old /\ pname op = n /\ find n new = Some np /\ required op = false /\ required np = true
  | Moved n => exists op np oi, nth_error old oi = Some op /\ pname op = n /\ find n new = Some np /\ index_of n new <> oi
  | ChKind n => exists op np, In op old /\ pname op = n /\ find n new = Some np /\ pkind op <> pkind np
  | ChDef n => exists op np, In op old /\ pname op = n /\ find n new = Some np /\ pdef op <> pdef np
  | AddedReq n => (exists np, In np new /\ pname np = n /\ required np = true) /\ find n old = None
  end.

Lemma per_old_sound old new oi op b :
  nth_error old oi = Some op -> In b (per_old new oi op) -> changed old new b.
Proof.
  intros Hnth Hin. assert (Hop : In op old) by (eapply nth_error_In; eauto).
  unfold per_old in Hin. destruct (find (pname op) new) as [np|] eqn:Hf.
  - repeat (apply in_app_or in Hin; destruct Hin as [Hin|Hin]).
    + destruct (required np && negb (required op)) eqn:E; [|destruct Hin].
      destruct Hin as [<-|[]]. apply andb_prop in E. destruct E as [E1 E2]. apply negb_true_iff in E2.
      simpl. exists op, np. auto.
    + destruct (is_pos (pkind op) && is_pos (pkind np) && negb (Nat.eqb (index_of (pname op) new) oi)) eqn:E; [|destruct Hin].
      destruct Hin as [<-|[]]. apply andb_prop in E. destruct E as [_ E]. apply negb_true_iff, Nat.eqb_neq in E.
      simpl. exists op, np, oi. auto.
    + destruct (negb (kind_eqb (pkind op) (pkind np)) && incompatible_kind (pkind op) (pkind np) (has_kind VP new) (has_kind VK new)) eqn:E; [|destruct Hin].
      destruct Hin as [<-|[]]. apply andb_prop in E. destruct E as [E _]. apply negb_true_iff, kind_eqb_neq in E.
      simpl. exists op, np. auto.
    + match type of Hin with In _ (if ?c then _ else _) => destruct c eqn:E end; [|destruct Hin].
      destruct Hin as [<-|[]]. apply andb_prop in E. destruct E as [_ E]. apply negb_true_iff in E.
      simpl. exists op, np. repeat split; auto. intros Heq. rewrite Heq, odef_eqb_refl in E. discriminate.
  - destruct (swallowed (pkind op) (has_kind VP new) (has_kind VK new)); [destruct Hin|].
    destruct Hin as [<-|[]]. simpl. split; [exists op; auto|exact Hf].
Qed.

Lemma olds_sound whole new : forall s i b,
  (forall k p, nth_error s k = Some p -> nth_error whole (i + k) = Some p) ->
  In b (olds new i s) -> changed whole new b.
Proof.
  induction s as [|p s IH]; simpl; intros i b Hs Hin; [destruct Hin|].
  apply in_app_or in Hin. destruct Hin as [Hin|Hin].
  - eapply per_old_sound; [|exact Hin]. rewrite <- (Hs 0 p eq_refl). f_equal. lia.
  - eapply (IH (S i)); [|exact Hin]. intros k q Hk. rewrite <- (Hs (S k) q Hk). f_equal. lia.
Qed.

Theorem reports_sound old new b : In b (fdiff old new) -> changed old new b.
Proof.
  unfold fdiff. intros Hin. apply in_app_or in Hin. destruct Hin as [Hin|Hin].
  - eapply (olds_sound old new old 0); [|exact Hin]. intros k p Hk. exact Hk.
  - unfold added in Hin. apply in_flat_map in Hin. destruct Hin as [np [Hnp Hb]].
    destruct (find (pname np) old) eqn:Hf; [destruct Hb|].
    destruct (required np) eqn:Hr; [|destruct Hb]. destruct Hb as [<-|[]].
    simpl. split; [exists np; auto|exact Hf].
Qed.

(* ---- moved positional / changed default / optional made required are always reported ---- *)
Lemma olds_in new : forall s i k p b,
  nth_error s k = Some p -> In b (per_old new (i + k) p) -> In b (olds new i s).
Proof.
  induction s as [|q s IH]; intros i [|k] p b Hk Hb; simpl in *; try discriminate.
  - inversion Hk; subst. apply in_or_app. left. replace (i + 0) with i in Hb by lia. exact Hb.
  - apply in_or_app. right. apply (IH (S i) k p b Hk). replace (S i + k) with (i + S k) by lia. exact Hb.
Qed.

Theorem moved_reported old new oi op np :
  nth_error old oi = Some op -> find (pname op) new = Some np ->
  pos_kind (pkind op) = true -> pos_kind (pkind np) = true -> index_of (pname op) new <> oi ->
  In (Moved (pname op)) (fdiff old new).
Proof.
  intros Hnth Hf Ho Hn Hi. unfold fdiff. apply in_or_app. left.
  apply (olds_in new old 0 oi op _); [exact Hnth|]. simpl. unfold per_old. rewrite Hf.
  apply in_or_app. right. apply in_or_app. left.
  rewrite !is_pos_spec, Ho, Hn. apply Nat.eqb_neq in Hi. rewrite Hi. simpl. auto.
Qed.

Theorem default_change_reported old new oi op np :
  nth_error old oi = Some op -> find (pname op) new = Some np ->
  required op = false -> required np = false -> var_kind (pkind op) = false -> var_kind (pkind np) = false ->
  pdef op <> pdef np ->
  In (ChDef (pname op)) (fdiff old new).
Proof.
  intros Hnth Hf Ho Hn Hvo Hvn Hd. unfold fdiff. apply in_or_app. left.
  apply (olds_in new old 0 oi op _); [exact Hnth|]. simpl. unfold per_old. rewrite Hf.
  apply in_or_app. right. apply in_or_app. right. apply in_or_app. right.
  rewrite !is_var_spec, Ho, Hn, Hvo, Hvn.
  destruct (odef_eqb (pdef op) (pdef np)) eqn:E; [apply odef_eqb_eq in E; contradiction|]. simpl. auto.
Qed.

Theorem made_required_reported old new oi op np :
  nth_error old oi = Some op -> find (pname op) new = Some np ->
  required op = false -> required np = true ->
  In (ChReq (pname op)) (fdiff old new).
Proof.
  intros Hnth Hf Ho Hn. unfold fdiff. apply in_or_app. left.
  apply (olds_in new old 0 oi op _); [exact Hnth|]. simpl. unfold per_old. rewrite Hf.
  apply in_or_app. left. rewrite Ho, Hn. simpl. auto.
Qed.

(* ---- the full completeness statement is false of the faithful model: one witness per known gap ---- *)
Definition complete_at (old new : sig) (n : nat) (K : list nat) : Prop :=
  binds old n K = true -> binds new n K = false -> fdiff old new <> [].

(* F2:  old [star a, starstar b]  ->  new [c=1, star a, starstar b];  call f(0, c=0) *)
Theorem complete_refuted_F2 : exists old new n K, wf old = true /\ wf new = true /\ ~ complete_at old new n K.
Proof.
  exists [mk 0 VP (Some 0); mk 1 VK (Some 0)], [mk 2 PK (Some 1); mk 0 VP (Some 0); mk 1 VK (Some 0)], 1, [2].
  split; [reflexivity|]. split; [reflexivity|]. intros H. apply H; reflexivity.
Qed.
(* F4:  old [a, /, starstar b]  ->  new [a, starstar b];  call f(0, a=0) *)
Theorem complete_refuted_F4 : exists old new n K, wf old = true /\ wf new = true /\ ~ complete_at old new n K.
Proof.
  exists [mk 0 PO None; mk 1 VK (Some 0)], [mk 0 PK None; mk 1 VK (Some 0)], 1, [0].
  split; [reflexivity|]. split; [reflexivity|]. intros H. apply H; reflexivity.
Qed.
(* F5:  old [a, /, star, b]  ->  new [b, star a];  call f(0, b=0) *)
Theorem complete_refuted_F5 : exists old new n K, wf old = true /\ wf new = true /\ ~ complete_at old new n K.
Proof.
  exists [mk 0 PO None; mk 1 KO None], [mk 1 PK None; mk 0 VP (Some 0)], 1, [1].
  split; [reflexivity|]. split; [reflexivity|]. intros H. apply H; reflexivity.
Qed.
(* F6:  old [star c, starstar z]  ->  new [z=2, star c, starstar a];  call f(0, z=0) *)
Theorem complete_refuted_F6 : exists old new n K, wf old = true /\ wf new = true /\ ~ complete_at old new n K.
Proof.
  exists [mk 2 VP (Some 0); mk 3 VK (Some 0)], [mk 3 PK (Some 2); mk 2 VP (Some 0); mk 0 VK (Some 0)], 1, [3].
  split; [reflexivity|]. split; [reflexivity|]. intros H. apply H; reflexivity.
Qed.
(* F7:  old [star c, starstar b]  ->  new [c=1, star a, starstar b];  call f(0, c=0) *)
Theorem complete_refuted_F7 : exists old new n K, wf old = true /\ wf new = true /\ ~ complete_at old new n K.
Proof.
  exists [mk 2 VP (Some 0); mk 1 VK (Some 0)], [mk 2 PK (Some 1); mk 0 VP (Some 0); mk 1 VK (Some 0)], 1, [2].
  split; [reflexivity|]. split; [reflexivity|]. intros H. apply H; reflexivity.
Qed.
