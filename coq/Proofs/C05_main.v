(* C05: the composition.  Induction over the dependency order: after the schedule has processed a prefix of the order, every
   processed module agrees with its runtime namespace (ModOK); at the end this is agreeb. *)
From Coq Require Import List ZArith String Ascii Bool Arith Lia.
From Verif Require Import Lib.Sexp Model.C05_imports Model.C05_wf Proofs.C05_imports Proofs.C05_resolve Proofs.C05_compose Proofs.C05_step Proofs.C05_module.
Import ListNotations.
Open Scope string_scope.
Open Scope list_scope.
Open Scope nat_scope.

(* ------------------------------------------------------------------------------------------------------------ *)
(* CPython's namespaces have one entry per name                                                                  *)
(* ------------------------------------------------------------------------------------------------------------ *)
Lemma py_bind_all_nodup ms t T names : forall ns ns', NoDup (map fst ns) -> py_bind_all ms t T names ns = POk ns' -> NoDup (map fst ns').
Proof.
  induction names as [|n names IH]; intros ns ns' Hnd Hb; simpl in Hb.
  - inversion Hb; subst. auto.
  - destruct (py_attr ms t T n); try discriminate. eapply IH; [|eauto]. apply assign_keys_nodup. auto.
Qed.

Lemma py_stmt_nodup ms t mp pk pk' s : NoDup (map fst (pns pk)) -> py_stmt ms t mp pk s = POk pk' -> NoDup (map fst (pns pk')).
Proof.
  intros Hnd Hs. destruct s as [ln x k|ln T x asn bare|ln T|ln T asn|ln its|ln its|ln its]; simpl in Hs.
  - inversion Hs; subst. simpl. apply assign_keys_nodup. auto.
  - match type of Hs with match ?r with _ => _ end = _ => destruct r as [v0|]; try discriminate end.
    inversion Hs; subst. simpl. apply assign_keys_nodup. auto.
  - destruct (get_py t T) as [tm|]; try discriminate. destruct (py_bind_all ms t T (py_star_names tm) (pns pk)) eqn:Eb; try discriminate.
    inversion Hs; subst. simpl. eapply py_bind_all_nodup; eauto.
  - destruct (get_py t T); try discriminate. destruct asn; inversion Hs; subst; simpl; apply assign_keys_nodup; auto.
  - destruct (py_eval_items t (pns pk) its); try discriminate. inversion Hs; subst. auto.
  - destruct (pall pk); try discriminate. destruct (py_eval_items t (pns pk) its); try discriminate. inversion Hs; subst. auto.
  - destruct (pall pk); try discriminate. destruct (py_eval_items t (pns pk) its); try discriminate. inversion Hs; subst. auto.
Qed.

Lemma py_body_nodup ms t mp body : forall pk pm, NoDup (map fst (pns pk)) -> py_body ms t mp pk body = POk pm -> NoDup (map fst (pns pm)).
Proof.
  induction body as [|s body IH]; intros pk pm Hnd Hb; simpl in Hb.
  - inversion Hb; subst. auto.
  - destruct (py_stmt ms t mp pk s) as [pk1|] eqn:Es; try discriminate. eapply IH; [|eauto]. eapply py_stmt_nodup; eauto.
Qed.

Lemma value_eqb_eq a b : value_eqb a b = true -> a = b.
Proof.
  destruct a as [k p|p|p]; destruct b as [k' p'|p'|p']; simpl; try discriminate; intros E.
  - apply andb_true_iff in E. destruct E as [Ek Ep]. apply path_eqb_eq in Ep. subst. destruct k; destruct k'; try discriminate; auto.
  - apply path_eqb_eq in E. subst. auto.
  - apply path_eqb_eq in E. subst. auto.
Qed.

(* ------------------------------------------------------------------------------------------------------------ *)
(* the initial table                                                                                             *)
(* ------------------------------------------------------------------------------------------------------------ *)
Lemma get_mod_initial ms q : get_mod (initial_table ms) q = option_map visit_module (src_of ms q).
Proof.
  unfold initial_table, src_of. induction ms as [|m ms IH]; simpl; auto.
  destruct (path_eqb (ms_path m) q); auto.
Qed.

Lemma src_of_path ms q m : src_of ms q = Some m -> ms_path m = q.
Proof. unfold src_of. intros Hf. apply find_some in Hf. destruct Hf as [_ Hp]. apply path_eqb_eq. auto. Qed.

Lemma children_of_src ms q m : src_of ms q = Some m -> children_of ms q = ms_children m.
Proof. unfold children_of, src_of. intros Hf. rewrite Hf. reflexivity. Qed.

Lemma body_of_src ms q m : src_of ms q = Some m -> body_of ms q = ms_body m.
Proof. unfold body_of, src_of. intros Hf. rewrite Hf. reflexivity. Qed.

Lemma visit_module_st0 m : visit_module m = st0 (ms_path m) (ms_init m) (ms_children m) (ms_body m).
Proof. reflexivity. Qed.

Section Main.
Variable top : string.
Variable ms : list modsrc.

Definition F : nat := S (List.length ms * 8 + 64).

Record Inv (done : list path) (t : table) (pt : pytable) : Prop := mkInv {
  inv_pt : map fst pt = done;
  inv_struct : struct_ok ms t;
  inv_keys : forall q st, get_mod t q = Some st -> NoDup (map fst (members st));
  inv_untouched : forall q, ~ In q done -> get_mod t q = get_mod (initial_table ms) q;
  inv_done : forall T tm, get_py pt T = Some tm ->
             reachb top ms T = true /\ exists st, get_mod t T = Some st /\ ModOK top ms t pt (S (List.length done)) T st tm;
  inv_pns : forall T tm, get_py pt T = Some tm -> NoDup (map fst (pns tm));
  inv_len : List.length t = List.length ms
}.

Lemma inv_initial : Inv [] (initial_table ms) [].
Proof.
  split; auto.
  - intros q c Hc. unfold children_of in Hc. fold (src_of ms q) in Hc. destruct (src_of ms q) as [m|] eqn:Es; [|contradiction].
    exists (visit_module m). rewrite get_mod_initial, Es. split; auto. unfold visit_module. apply attach_lookup_child. auto.
  - intros q st Hg. rewrite get_mod_initial in Hg. destruct (src_of ms q) as [m|]; try discriminate. inversion Hg; subst.
    unfold visit_module. apply attach_keys_nodup. apply visit_keys_nodup.
  - intros T tm Hg. discriminate.
  - intros T tm Hg. discriminate.
  - unfold initial_table. apply map_length.
Qed.

(* ---- moving the facts about an executed module to a later table ---- *)
Lemma Pexec_app pt e q : Pexec pt q -> Pexec (pt ++ e) q.
Proof.
  unfold Pexec. intros Hq. destruct (get_py pt q) as [tm|] eqn:E; [|contradiction]. rewrite (get_py_app pt e q tm E). discriminate.
Qed.

Lemma ModOK_transfer t t' pt e H H' T st tm :
  lookups_kept top t t' (Pexec pt) -> H <= H' -> ModOK top ms t pt H T st tm -> ModOK top ms t' (pt ++ e) H' T st tm.
Proof.
  intros Hk HH [Hrel Hchild Hplain Hnostar Hex Hallp Hall Hf5 Himp Hwrap Hnoflag]. split; auto.
  - intros n Hn Hd. specialize (Hrel n Hn Hd). destruct (lookup n (members st)) as [m|]; auto.
    destruct (lookup n (pns tm)) as [v|]; auto. destruct Hrel as [Hs [h [r [Hh [HR Hv]]]]]. split; auto.
    exists h, r. split; [lia|]. split; auto. eapply Res_mono_P; [apply Pexec_app|]. eapply Res_stable; eauto.
  - intros n src inner ln Hl. destruct (Hwrap n src inner ln Hl) as [T' [n' [Hs HP]]]. exists T', n'. split; auto. apply Pexec_app. auto.
Qed.

(* ------------------------------------------------------------------------------------------------------------ *)
(* one step of the schedule                                                                                      *)
(* ------------------------------------------------------------------------------------------------------------ *)
Section Step.
Variable done : list path.
Variable t : table.
Variable pt : pytable.
Variable mp : path.
Variable m : modsrc.
Variable pm : pymod.

Hypothesis HInv : Inv done t pt.
Hypothesis Hnew : ~ In mp done.
Hypothesis Hsrc : src_of ms mp = Some m.
Hypothesis Hreach_mp : reachb top ms mp = true.
Hypothesis Hwf : wf_body mp (ms_init m) (ms_children m) (ms_body m) = true.
Hypothesis Hpy : py_body ms pt mp (mkPy [] None) (ms_body m) = POk pm.
Hypothesis HY1 : forall ln T tm c v, In (SStar ln T) (ms_body m) -> get_py pt T = Some tm -> In c (ms_children m) ->
                                     In c (py_star_names tm) -> py_attr ms pt T c = POk v -> v = VMod (mp ++ [c]).
Hypothesis HY2 : pall pm = None -> forall c, In c (ms_children m) -> starts_underscore c = false -> lookup c (pns pm) <> None ->
                 mem_str c (imports (visit_body mp (ms_init m) (ms_body m))) = true.
Hypothesis HY3 : forall pre s post l a T tm, ms_body m = pre ++ s :: post -> In (IRef l a) (items_of s) ->
                 In T (stars_before l (rev pre)) -> get_py pt T = Some tm -> ~ In l (py_star_names tm).
Hypothesis HF : S (S (List.length done)) <= F.

Let H := S (List.length done).
Let is_init := ms_init m.
Let cs := ms_children m.
Let body := ms_body m.
Let s0 := st0 mp is_init cs body.

Lemma HH1 : 1 <= H.
Proof. unfold H. lia. Qed.

Lemma Hstruct : struct_ok ms t.
Proof. apply (inv_struct _ _ _ HInv). Qed.

Lemma Hkeys : forall q st, get_mod t q = Some st -> NoDup (map fst (members st)).
Proof. apply (inv_keys _ _ _ HInv). Qed.

Lemma Hdone : forall T tm, get_py pt T = Some tm ->
  reachb top ms T = true /\ exists st, get_mod t T = Some st /\ ModOK top ms t pt H T st tm.
Proof. apply (inv_done _ _ _ HInv). Qed.

Lemma HPmp : ~ Pexec pt mp.
Proof.
  unfold Pexec. intros Hq. apply Hq. apply get_py_none_keys. rewrite (inv_pt _ _ _ HInv). auto.
Qed.

Lemma Hmp : get_mod t mp = Some s0.
Proof.
  rewrite (inv_untouched _ _ _ HInv mp Hnew), get_mod_initial, Hsrc. simpl. rewrite visit_module_st0.
  rewrite (src_of_path ms mp m Hsrc). reflexivity.
Qed.

Lemma Hcs : cs = children_of ms mp.
Proof. symmetry. apply children_of_src. auto. Qed.

(* the table after the exports step *)
Definition e1 : option (list item) := ex1 top t mp is_init cs body F.
Definition s1 : modst := match exports s0 with Some _ => mkSt (members s0) (imports s0) e1 | None => s0 end.
Definition t1 : table := sched_exports_step F top t mp.

Lemma t1_eq : t1 = match exports s0 with Some _ => set_mod t mp s1 | None => t end.
Proof.
  unfold t1, sched_exports_step. rewrite Hmp. unfold s1, e1, ex1. fold s0.
  destruct (exports s0) as [ex|] eqn:Ee; auto. unfold set_exports. rewrite Hmp. reflexivity.
Qed.

Lemma s1_members : members s1 = members s0.
Proof. unfold s1. destruct (exports s0); reflexivity. Qed.

Lemma s1_imports : imports s1 = imports s0.
Proof. unfold s1. destruct (exports s0); reflexivity. Qed.

Lemma s1_exports : exports s1 = e1.
Proof. unfold s1, e1, ex1. fold s0. destruct (exports s0) eqn:Ee; simpl; auto. Qed.

Lemma t1_mp : get_mod t1 mp = Some s1.
Proof.
  rewrite t1_eq. unfold s1. destruct (exports s0) eqn:Ee.
  - eapply get_set_mod_same. apply Hmp.
  - apply Hmp.
Qed.

Lemma t1_other q : q <> mp -> get_mod t1 q = get_mod t q.
Proof.
  intros Hne. rewrite t1_eq. destruct (exports s0); auto. apply get_set_mod_other. auto.
Qed.

Lemma t1_kept : lookups_kept top t t1 (Pexec pt).
Proof.
  rewrite t1_eq. destruct (exports s0) eqn:Ee; [|apply lookups_kept_refl].
  apply (lookups_kept_update top t mp s0); [apply Hmp| |apply HPmp].
  intros c Hc. rewrite s1_members. auto.
Qed.

Lemma t1_len : List.length t1 = List.length t.
Proof. rewrite t1_eq. destruct (exports s0); auto. eapply set_mod_length. apply Hmp. Qed.

(* the table after the wildcard step *)
Definition m2 : list (string * member) := ms2 top mp F t1 s1.
Definition s2 : modst := set_members s1 m2.
Definition t2 : table := sched_step F top t mp.

Lemma t2_eq : t2 = set_mod t1 mp s2.
Proof.
  unfold t2, sched_step. fold t1. unfold sched_wild_step. rewrite t1_mp. unfold set_mod_members. rewrite t1_mp. reflexivity.
Qed.

Lemma t2_mp : get_mod t2 mp = Some s2.
Proof. rewrite t2_eq. eapply get_set_mod_same. apply t1_mp. Qed.

Lemma t2_other q : q <> mp -> get_mod t2 q = get_mod t q.
Proof. intros Hne. rewrite t2_eq, get_set_mod_other by auto. apply t1_other. auto. Qed.

Lemma m2_children c : In c cs -> lookup c m2 = Some MSub.
Proof.
  intros Hc. unfold m2. eapply ms2_children; eauto using HH1, Hstruct, Hkeys, Hdone, HPmp, Hmp, s1_members, t1_mp, t1_kept, t1_other.
Qed.

Lemma t2_kept : lookups_kept top t t2 (Pexec pt).
Proof.
  eapply lookups_kept_trans; [apply t1_kept|]. rewrite t2_eq.
  apply (lookups_kept_update top t1 mp s1); [apply t1_mp| |apply HPmp].
  intros c Hc. simpl. apply m2_children. rewrite s1_members in Hc. unfold s0, st0 in Hc. eapply attach_sub_only; eauto.
Qed.

Lemma new_module_ok : ModOK top ms t2 (pt ++ [(mp, pm)]) (S H) mp s2 pm.
Proof.
  assert (Hpf : J mp cs pm).
  { eapply (fun a b c d e f g => proj1 (pm_facts top ms t pt H a b c d mp is_init cs body e f g HY1 pm Hpy));
      eauto using HH1, Hstruct, Hkeys, Hdone, Hmp. }
  split.
  - intros n Hn Hd. rewrite <- Hcs in Hn. simpl.
    assert (Hr := ms2_rel top ms t pt H HH1 Hstruct Hkeys Hdone mp is_init cs body HPmp Hreach_mp Hmp Hwf HY1 F HF t1 s1
                    s1_members t1_mp t1_kept t1_other pm Hpy n Hn Hd).
    fold m2 in Hr. destruct (lookup n m2) as [mm|]; auto. destruct (lookup n (pns pm)) as [v|]; auto.
    destruct Hr as [Hs [h [r [Hh [HR Hv]]]]]. split; auto. exists h, r. split; auto. split; auto.
    eapply Res_mono_P; [apply Pexec_app|]. eapply Res_stable; [apply t2_kept|]. exact HR.
  - intros c v Hc Hl. rewrite <- Hcs in Hc. eapply Hpf; eauto.
  - intros n v Hl. eapply pm_plain; eauto using Hdone.
  - intros n Hn. simpl. destruct Hn as [T HT]. subst n.
    eapply ms2_nostar; eauto using HH1, Hstruct, Hkeys, Hdone, HPmp, Hmp, s1_members, t1_mp, t1_kept, t1_other.
    apply star_name_ends_star.
  - simpl. rewrite s1_exports. unfold e1. eapply ex1_ok; eauto using HH1, Hstruct, Hkeys, Hdone, Hmp.
  - intros l x Hp Hx. eapply pm_all_plain; eauto using HH1, Hstruct, Hkeys, Hdone, Hmp.
  - intros Hp. simpl. eapply pm_all_member; eauto using HH1, Hstruct, Hkeys, Hdone, HPmp, Hmp, s1_members, t1_mp, t1_kept, t1_other.
  - intros Hp c Hc Hu Hl. simpl. rewrite s1_imports. unfold s0, st0. rewrite attach_imports. rewrite <- Hcs in Hc. apply HY2; auto.
  - intros n Hi. simpl in Hi. rewrite s1_imports in Hi. eapply pm_imports; eauto.
  - intros n src inner ln Hl. simpl in Hl.
    assert (Hw := ms2_wrap top ms t pt H). unfold WrapOK in Hw.
    edestruct Hw as [T' [n' [Hs HP]]]; eauto using HH1, Hstruct, Hkeys, Hdone, HPmp, Hmp, s1_members, t1_mp, t1_kept, t1_other.
    exists T', n'. split; auto. apply Pexec_app. auto.
  - intros n mm Hl. simpl in Hl. unfold m2 in Hl.
    eapply ms2_noflag; eauto using HH1, Hstruct, Hkeys, Hdone, HPmp, Hmp, s1_members, t1_mp, t1_kept, t1_other.
Qed.

Lemma inv_step : Inv (done ++ [mp]) t2 (pt ++ [(mp, pm)]).
Proof.
  split.
  - rewrite map_app, (inv_pt _ _ _ HInv). reflexivity.
  - intros q c Hc. destruct (path_eqb q mp) eqn:E.
    + apply path_eqb_eq in E. subst q. exists s2. split; [apply t2_mp|]. simpl. apply m2_children. rewrite Hcs. auto.
    + assert (Hne : q <> mp) by (intros Heq; subst; rewrite path_eqb_refl in E; discriminate).
      rewrite t2_other by auto. apply Hstruct. auto.
  - intros q st Hg. destruct (path_eqb q mp) eqn:E.
    + apply path_eqb_eq in E. subst q. rewrite t2_mp in Hg. inversion Hg; subst st. simpl. unfold m2.
      eapply ms2_keys; eauto using HH1, Hstruct, Hkeys, Hdone, HPmp, Hmp, s1_members, t1_mp, t1_kept, t1_other.
    + assert (Hne : q <> mp) by (intros Heq; subst; rewrite path_eqb_refl in E; discriminate).
      rewrite t2_other in Hg by auto. eapply Hkeys; eauto.
  - intros q Hq. assert (Hne : q <> mp) by (intros Heq; subst; apply Hq; apply in_or_app; right; left; auto).
    rewrite t2_other by auto. apply (inv_untouched _ _ _ HInv). intros Hin. apply Hq. apply in_or_app. auto.
  - intros T tm Hg. rewrite app_length. simpl. replace (List.length done + 1) with (S (List.length done)) by lia.
    destruct (get_py pt T) as [tm0|] eqn:E0.
    + rewrite (get_py_app pt _ T tm0 E0) in Hg. inversion Hg; subst tm0.
      destruct (Hdone T tm E0) as [Hr [st [Hst Hok]]]. split; auto. exists st.
      assert (Hne : T <> mp) by (intros Heq; subst; apply HPmp; unfold Pexec; congruence).
      rewrite t2_other by auto. split; auto. eapply ModOK_transfer; [apply t2_kept| |exact Hok]. unfold H. lia.
    + rewrite (get_py_app_none pt _ T E0) in Hg. simpl in Hg. destruct (path_eqb mp T) eqn:E; try discriminate.
      apply path_eqb_eq in E. subst T. inversion Hg; subst tm. split; auto. exists s2. split; [apply t2_mp|]. apply new_module_ok.
  - intros T tm Hg. destruct (get_py pt T) as [tm0|] eqn:E0.
    + rewrite (get_py_app pt _ T tm0 E0) in Hg. inversion Hg; subst tm0. eapply (inv_pns _ _ _ HInv); eauto.
    + rewrite (get_py_app_none pt _ T E0) in Hg. simpl in Hg. destruct (path_eqb mp T); try discriminate. inversion Hg; subst tm.
      eapply py_body_nodup; [|apply Hpy]. constructor.
  - rewrite t2_eq. rewrite (set_mod_length t1 mp s2 s1 t1_mp), t1_len. apply (inv_len _ _ _ HInv).
Qed.

End Step.

(* ------------------------------------------------------------------------------------------------------------ *)
(* the whole order                                                                                               *)
(* ------------------------------------------------------------------------------------------------------------ *)
Definition static_ok (q : path) : bool :=
  reachb top ms q && match src_of ms q with
                     | Some m => wf_body q (ms_init m) (ms_children m) (ms_body m)
                     | None => false
                     end.

Lemma In_py_split (pt : pytable) q pm e : In (q, pm) ((pt ++ [(q, pm)]) ++ e).
Proof. apply in_or_app. left. apply in_or_app. right. left. auto. Qed.

Lemma refs_run_split pt pre : forall acc s post,
  refs_run_from pt acc (pre ++ s :: post) = true ->
  forall l a T tm, In (IRef l a) (items_of s) -> In T (stars_before l (rev pre ++ acc)) -> get_py pt T = Some tm ->
  ~ In l (py_star_names tm).
Proof.
  induction pre as [|s0 pre IH]; intros acc s post Hr l a T tm Hit HT Hg; simpl in Hr.
  - apply andb_true_iff in Hr. destruct Hr as [Hr _]. rewrite forallb_forall in Hr. specialize (Hr _ Hit). simpl in Hr.
    rewrite forallb_forall in Hr. specialize (Hr T HT). rewrite Hg in Hr. intros Hin. apply mem_str_In in Hin. rewrite Hin in Hr. discriminate.
  - apply andb_true_iff in Hr. destruct Hr as [_ Hr]. apply (IH (s0 :: acc) s post Hr l a T tm Hit); auto.
    simpl in HT. rewrite <- app_assoc in HT. exact HT.
Qed.

Lemma sched_fold order : forall done t pt ptf,
  Inv done t pt -> NoDup (done ++ order) -> forallb static_ok order = true ->
  py_import ms order pt = POk ptf -> wf_run ms ptf = true ->
  List.length (done ++ order) <= List.length ms ->
  Inv (done ++ order) (fold_left (sched_step F top) order t) ptf.
Proof.
  induction order as [|mp r IH]; intros done t pt ptf HInv Hnd Hst Hpy Hrun Hlen.
  - simpl in Hpy. inversion Hpy; subst. rewrite app_nil_r. exact HInv.
  - simpl in Hpy. fold (src_of ms mp) in Hpy. destruct (src_of ms mp) as [m|] eqn:Hsrc; try discriminate.
    destruct (py_body ms pt mp (mkPy [] None) (ms_body m)) as [pm|] eqn:Hbody; try discriminate.
    simpl in Hst. apply andb_true_iff in Hst. destruct Hst as [Hmp Hst]. unfold static_ok in Hmp. rewrite Hsrc in Hmp.
    apply andb_true_iff in Hmp. destruct Hmp as [Hreach Hwf].
    destruct (py_import_extends ms r _ _ Hpy) as [e [He _]].
    unfold wf_run in Hrun. apply andb_true_iff in Hrun. destruct Hrun as [Hrun Hsrcs].
    apply andb_true_iff in Hrun. destruct Hrun as [Hkeep Hrec].
    assert (Hnew : ~ In mp done).
    { intros Hin. apply NoDup_remove_2 in Hnd. apply Hnd. apply in_or_app. auto. }
    assert (Hstep : Inv (done ++ [mp]) (sched_step F top t mp) (pt ++ [(mp, pm)])).
    { apply (inv_step done t pt mp m pm); auto.
      - (* a wildcard import keeps the submodules of mp *)
        intros ln T tm c v Hs Hg Hc Hn Ha. unfold stars_keep_children in Hkeep. rewrite forallb_forall in Hkeep.
        specialize (Hkeep (mp, pm)). rewrite He in Hkeep. specialize (Hkeep (In_py_split pt mp pm e)). simpl in Hkeep.
        rewrite (body_of_src ms mp m Hsrc), (children_of_src ms mp m Hsrc) in Hkeep.
        rewrite forallb_forall in Hkeep. specialize (Hkeep T (star_targets_In _ ln T Hs)).
        assert (Hg' : get_py ((pt ++ [(mp, pm)]) ++ e) T = Some tm) by (apply get_py_app; apply get_py_app; auto).
        rewrite Hg' in Hkeep. rewrite forallb_forall in Hkeep. specialize (Hkeep c Hc).
        apply mem_str_In in Hn. rewrite Hn in Hkeep.
        assert (Ha' : py_attr ms ((pt ++ [(mp, pm)]) ++ e) T c = POk v).
        { rewrite <- app_assoc. eapply py_attr_mono; eauto. }
        rewrite Ha' in Hkeep. apply value_eqb_eq in Hkeep. auto.
      - (* the submodules the namespace binds are recorded (finding F5 otherwise) *)
        intros Hp c Hc Hu Hl. unfold submodules_recorded in Hrec. rewrite forallb_forall in Hrec.
        specialize (Hrec (mp, pm)). rewrite He in Hrec. specialize (Hrec (In_py_split pt mp pm e)). simpl in Hrec. rewrite Hp in Hrec.
        rewrite (children_of_src ms mp m Hsrc) in Hrec. rewrite forallb_forall in Hrec. specialize (Hrec c Hc).
        rewrite Hu in Hrec. simpl in Hrec. destruct (lookup c (pns pm)); [|contradiction].
        unfold init_of in Hrec. rewrite Hsrc, (body_of_src ms mp m Hsrc) in Hrec. auto.
      - (* no wildcard import rebinds a source of an assembled __all__ between its import and its use *)
        intros pre s0 post l a T tm Hb Hit HT Hg. unfold sources_not_rebound in Hsrcs. rewrite forallb_forall in Hsrcs.
        specialize (Hsrcs (mp, pm)). rewrite He in Hsrcs. specialize (Hsrcs (In_py_split pt mp pm e)). simpl in Hsrcs.
        rewrite (body_of_src ms mp m Hsrc), Hb in Hsrcs.
        apply (refs_run_split _ pre [] s0 post Hsrcs l a T tm Hit); [rewrite app_nil_r; auto|].
        apply get_py_app. apply get_py_app. auto.
      - rewrite app_length in Hlen. simpl in Hlen. unfold F. lia. }
    replace (done ++ mp :: r) with ((done ++ [mp]) ++ r) by (rewrite <- app_assoc; reflexivity).
    simpl fold_left. apply (IH (done ++ [mp]) _ (pt ++ [(mp, pm)]) ptf); auto.
    + rewrite <- app_assoc. exact Hnd.
    + unfold wf_run. rewrite Hkeep, Hrec, Hsrcs. reflexivity.
    + rewrite <- app_assoc. exact Hlen.
Qed.

(* ---- from the invariant to the agreement predicate ---- *)
Lemma agree_from_ok t pt Hh Fu q st pm :
  struct_ok ms t -> NoDup (map fst (members st)) -> NoDup (map fst (pns pm)) -> get_mod t q = Some st ->
  ModOK top ms t pt Hh q st pm -> Hh <= Fu -> 1 <= Fu ->
  agree_module Fu t top q st pm = true.
Proof.
  intros Hs Hnm Hnp Hg Hok HhF HF1. unfold agree_module. apply andb_true_iff. split; [apply andb_true_iff; split|].
  - apply forallb_forall. intros [n v] Hin. simpl. pose proof (In_lookup_nodup n v _ Hnp Hin) as Hl.
    destruct (in_dec string_dec n (children_of ms q)) as [Hc|Hc].
    + destruct (Hs q n Hc) as [st' [Hg' Hsub]]. rewrite Hg in Hg'. inversion Hg'; subst st'. rewrite Hsub.
      rewrite (mo_child top ms t pt Hh q st pm Hok n v Hc Hl). destruct Fu as [|f]; [lia|]. simpl. apply path_eqb_refl.
    + pose proof (mo_rel top ms t pt Hh q st pm Hok n Hc (plain_not_dunder n (mo_plain top ms t pt Hh q st pm Hok n v Hl))) as Hr.
      rewrite Hl in Hr. destruct (lookup n (members st)) as [mm|]; [|contradiction].
      destruct Hr as [_ [h [r [Hh' [HR Hv]]]]]. rewrite (Res_final top t _ h mm _ r HR Fu) by lia. exact Hv.
  - apply forallb_forall. intros [n mm] Hin. simpl. pose proof (In_lookup_nodup n mm _ Hnm Hin) as Hl.
    destruct (is_dunder n) eqn:Ed; auto. simpl.
    destruct (in_dec string_dec n (children_of ms q)) as [Hc|Hc].
    + destruct (Hs q n Hc) as [st' [Hg' Hsub]]. rewrite Hg in Hg'. inversion Hg'; subst st'. rewrite Hsub in Hl. inversion Hl; subst. reflexivity.
    + pose proof (mo_rel top ms t pt Hh q st pm Hok n Hc Ed) as Hr. rewrite Hl in Hr.
      destruct (lookup n (pns pm)); [|contradiction]. apply orb_true_r.
  - pose proof (mo_exports top ms t pt Hh q st pm Hok) as Hex.
    destruct (exports st) as [ex|]; destruct (pall pm) as [l|]; auto; try contradiction. destruct Hex as [Ho Hx].
    apply andb_true_iff. split.
    + apply forallb_forall. intros x Hin. apply in_exports_In. apply Hx. auto.
    + apply forallb_forall. intros [x|r0 a0] Hin.
      * apply mem_str_In. apply Hx. auto.
      * exfalso. eapply Ho; eauto.
Qed.

Lemma nodup_paths_NoDup l : nodup_paths l = true -> NoDup l.
Proof.
  induction l as [|p l IH]; simpl; intros Hn; [constructor|].
  apply andb_true_iff in Hn. destruct Hn as [Hm Hr]. constructor; auto.
  intros Hin. assert (Hmp : mem_path p l = true).
  { unfold mem_path. apply existsb_exists. exists p. split; auto. apply path_eqb_refl. }
  rewrite Hmp in Hm. discriminate.
Qed.

Lemma get_py_In_nodup (pt : pytable) q pm : NoDup (map fst pt) -> In (q, pm) pt -> get_py pt q = Some pm.
Proof.
  induction pt as [|[k w] r IH]; simpl; intros Hnd Hin; [contradiction|].
  inversion Hnd as [|? ? Hnotin Hnd']; subst. destruct Hin as [Hin|Hin].
  - inversion Hin; subst. rewrite path_eqb_refl. reflexivity.
  - destruct (path_eqb k q) eqn:E; auto. apply path_eqb_eq in E. subst k.
    exfalso. apply Hnotin. apply in_map_iff. exists (q, pm). auto.
Qed.

(* The composition: for every program that satisfies the decidable side conditions, whenever CPython imports the modules in
   `order` without error, the dependency-order schedule of Griffe's per-module rules agrees with CPython on every module. *)
Theorem sched_agrees_with_cpython order ptf :
  wf_prog top ms order = true ->
  py_import ms order [] = POk ptf ->
  wf_run ms ptf = true ->
  agreeb top (griffe_sched top ms order) ptf = true.
Proof.
  intros Hwf Hpy Hrun. unfold wf_prog in Hwf. apply andb_true_iff in Hwf. destruct Hwf as [Hnd Hst].
  apply nodup_paths_NoDup in Hnd.
  assert (Hlen : List.length order <= List.length ms).
  { rewrite <- (map_length ms_path ms). apply NoDup_incl_length; auto. intros q Hq.
    rewrite forallb_forall in Hst. specialize (Hst q Hq). apply andb_true_iff in Hst. destruct Hst as [_ Hst].
    destruct (src_of ms q) as [m|] eqn:Es; try discriminate. rewrite <- (src_of_path ms q m Es).
    apply in_map. unfold src_of in Es. apply find_some in Es. apply Es. }
  pose proof (sched_fold order [] (initial_table ms) [] ptf inv_initial Hnd Hst Hpy Hrun Hlen) as HInv. simpl in HInv.
  unfold griffe_sched. fold F. set (tf := fold_left (sched_step F top) order (initial_table ms)) in *.
  unfold agreeb. rewrite (inv_len _ _ _ HInv). fold F.
  assert (Hkeys : NoDup (map fst ptf)) by (rewrite (inv_pt _ _ _ HInv); auto).
  apply forallb_forall. intros [q pm] Hin. simpl.
  pose proof (get_py_In_nodup ptf q pm Hkeys Hin) as Hg.
  destruct (inv_done _ _ _ HInv q pm Hg) as [_ [st [Hgm Hok]]]. rewrite Hgm.
  apply (agree_from_ok tf ptf (S (List.length order)) F q st pm); auto.
  - apply (inv_struct _ _ _ HInv).
  - eapply (inv_keys _ _ _ HInv); eauto.
  - eapply (inv_pns _ _ _ HInv); eauto.
  - unfold F. lia.
  - unfold F. lia.
Qed.

End Main.

(* ------------------------------------------------------------------------------------------------------------ *)
(* the hypotheses are satisfiable: a program with a sub-package, `from <package> import <submodule>` inside the package,   *)
(* wildcard chains, the submodule special case (q.x is rebound to the same module by a wildcard import) and an __all__      *)
(* assembled from two other modules' __all__ in one statement                                                              *)
(* ------------------------------------------------------------------------------------------------------------ *)
Definition w13 : list modsrc :=
  [mkSrc ["q"] true ["a"; "b"; "s"] [SImport 1 ["q"; "a"] (Some "x"); SStar 2 ["q"; "s"]];
   mkSrc ["q"; "a"] false [] [SSetAll 1 [IStr "f"]; SDef 2 "f" KFunc];
   mkSrc ["q"; "b"] false [] [SSetAll 1 [IStr "g"]; SDef 2 "g" KFunc];
   mkSrc ["q"; "s"] true ["n"] [SStar 1 ["q"; "s"; "n"]; SFrom 2 ["q"; "s"] "n" None false; SImport 3 ["q"; "a"] (Some "x")];
   mkSrc ["q"; "s"; "n"] false [] [SStar 1 ["q"; "a"]; SStar 2 ["q"; "b"]; SImport 3 ["q"; "a"] (Some "w0");
                                   SImport 4 ["q"; "b"] (Some "w1"); SSetAll 5 [IRef "w0" true; IRef "w1" true; IStr "f"]]].
Definition o13 : list path := [["q"; "a"]; ["q"; "b"]; ["q"; "s"; "n"]; ["q"; "s"]; ["q"]].

Example composition_is_not_vacuous :
  wf_prog "q" w13 o13 = true /\
  exists pt, py_import w13 o13 [] = POk pt /\ wf_run w13 pt = true /\
             agreeb "q" (griffe_sched "q" w13 o13) pt = true /\
             (exists pm, get_py pt ["q"] = Some pm /\ List.length (pns pm) = 4).
Proof.
  split; [vm_compute; reflexivity|]. eexists. split; [vm_compute; reflexivity|]. split; [vm_compute; reflexivity|].
  split; [vm_compute; reflexivity|]. eexists. split; vm_compute; reflexivity.
Qed.

Example composition_hypotheses_on_w0 :
  wf_prog "h" w0 o0 = true /\ exists pt, py_import w0 o0 [] = POk pt /\ wf_run w0 pt = true.
Proof. split; [vm_compute; reflexivity|]. eexists. split; vm_compute; reflexivity. Qed.

(* ------------------------------------------------------------------------------------------------------------ *)
(* the side conditions that are findings, and the repaired ones                                                   *)
(* ------------------------------------------------------------------------------------------------------------ *)
(* former finding F11 (repaired): a name bound to another module's __all__ and imported again from the intermediate module is
   followed to the module that owns the list; the program now satisfies the hypotheses of the composition theorem *)
Definition w11 : list modsrc :=
  [mkSrc ["wf11"] true ["a"; "b"; "c"] [];
   mkSrc ["wf11"; "a"] false [] [SSetAll 1 [IStr "f"]; SDef 2 "f" KFunc];
   mkSrc ["wf11"; "b"] false [] [SFrom 1 ["wf11"; "a"] "__all__" (Some "a0") false; SDef 2 "g" KFunc; SSetAll 4 [IStr "g"]];
   mkSrc ["wf11"; "c"] false [] [SStar 1 ["wf11"; "a"]; SFrom 2 ["wf11"; "b"] "a0" (Some "a1") false;
                                 SSetAll 3 [IRef "a1" false; IStr "h"]; SDef 4 "h" KFunc]].
Definition o11 : list path := [["wf11"]; ["wf11"; "a"]; ["wf11"; "b"]; ["wf11"; "c"]].

Example renamed_all_source_repaired :
  is_ok (py_import w11 o11 []) = true /\
  agreeb "wf11" (loaded_table (griffe_load "wf11" w11)) (py_table (py_import w11 o11 [])) = true /\
  agreeb "wf11" (griffe_sched "wf11" w11 o11) (py_table (py_import w11 o11 [])) = true /\
  wf_prog "wf11" w11 o11 = true /\ wf_run w11 (py_table (py_import w11 o11 [])) = true.
Proof. repeat split; vm_compute; reflexivity. Qed.

(* __all__.extend(...) (former finding F6) is inside the composition theorem as well *)
Example extend_inside_the_theorem :
  wf_prog "wf6" w6 o6 = true /\ wf_run w6 (py_table (py_import w6 o6 [])) = true.
Proof. split; vm_compute; reflexivity. Qed.

(* F12: the name an __all__ is assembled from is rebound by a wildcard import between its import and the __all__ statement *)
Definition w12 : list modsrc :=
  [mkSrc ["wf12"] true ["a"; "b"; "c"; "d"] [];
   mkSrc ["wf12"; "a"] false [] [SSetAll 1 [IStr "f"]; SDef 2 "f" KFunc];
   mkSrc ["wf12"; "b"] false [] [SSetAll 1 [IStr "g"]; SDef 2 "g" KFunc];
   mkSrc ["wf12"; "d"] false [] [SFrom 1 ["wf12"; "a"] "__all__" (Some "a0") false];
   mkSrc ["wf12"; "c"] false [] [SStar 1 ["wf12"; "a"]; SFrom 2 ["wf12"; "b"] "__all__" (Some "a0") false; SStar 3 ["wf12"; "d"];
                                 SSetAll 4 [IRef "a0" false]]].
Definition o12 : list path := [["wf12"]; ["wf12"; "a"]; ["wf12"; "b"]; ["wf12"; "d"]; ["wf12"; "c"]].

Lemma flow_insensitive_source_refuted :
  exists top ms order,
    is_ok (py_import ms order []) = true /\
    agreeb top (loaded_table (griffe_load top ms)) (py_table (py_import ms order [])) = false /\
    agreeb top (griffe_sched top ms order) (py_table (py_import ms order [])) = false /\
    wf_prog top ms order = true /\
    sources_not_rebound ms (py_table (py_import ms order [])) = false.
Proof.
  exists "wf12", w12, o12. split; [vm_compute; reflexivity|]. split; [vm_compute; reflexivity|]. split; [vm_compute; reflexivity|].
  split; vm_compute; reflexivity.
Qed.

(* F12, the other form: the name is bound again after the __all__ statement that read it *)
Definition w12b : list modsrc :=
  [mkSrc ["wf12"] true ["a"; "b"; "c"] [];
   mkSrc ["wf12"; "a"] false [] [SSetAll 1 [IStr "f"]; SDef 2 "f" KFunc];
   mkSrc ["wf12"; "b"] false [] [SSetAll 1 [IStr "g"]; SDef 2 "g" KFunc];
   mkSrc ["wf12"; "c"] false [] [SStar 1 ["wf12"; "a"]; SImport 2 ["wf12"; "a"] (Some "w0"); SSetAll 3 [IRef "w0" true];
                                 SImport 4 ["wf12"; "b"] (Some "w0")]].
Definition o12b : list path := [["wf12"]; ["wf12"; "a"]; ["wf12"; "b"]; ["wf12"; "c"]].

Lemma rebound_source_refuted :
  exists top ms order,
    is_ok (py_import ms order []) = true /\
    agreeb top (griffe_sched top ms order) (py_table (py_import ms order [])) = false /\
    (exists m, In m ms /\ refs_ok_from (ms_children m) [] (ms_body m) = false).
Proof.
  exists "wf12", w12b, o12b. split; [vm_compute; reflexivity|]. split; [vm_compute; reflexivity|].
  eexists. split; [right; right; right; left; reflexivity|vm_compute; reflexivity].
Qed.
