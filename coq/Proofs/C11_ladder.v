(* C11: the traversal driven by the definitions regenerated from diff.py / mixins.py (Model/C11_dispatch.v, what the
   harness runs) computes exactly the model the theorems are about (Model/C11_apidiff.v).  These proofs go through as long
   as the regenerated definitions say what the code says today; a change of the if/elif chain of _type_based_yield, of
   the seen_paths key, of the public filter / removal rule, of the removed-base rule (or an early return after it), of
   the value test or of _returns_are_compatible makes them fail. *)
From Coq Require Import List Arith Bool ZArith String Ascii Lia.
From Verif Require Import Lib.Sexp Model.C10_kinds Gen.C10_tables Model.C10_diff Model.C11_apidiff Model.C11_dispatch.
Import ListNotations.
Open Scope string_scope. Open Scope list_scope. Open Scope nat_scope.

(* ---- what the regenerated definitions say ---- *)
Theorem dispatch_gen_spec a b kd k :
  dispatch_gen a b kd k =
  if a || b then AAlias else if kd then AKindChanged
  else match k with KModule => AMembers | KClass => AClass | KFunction => AFunction | KAttribute => AAttribute | KAlias => ANothing end.
Proof. destruct a, b, kd, k; reflexivity. Qed.
Theorem seen_key_gen_spec : seen_key_gen = SeenPair.
Proof. reflexivity. Qed.
Theorem member_skipped_gen_spec a m p : member_skipped_gen a m p = negb p.
Proof. destruct a, m, p; reflexivity. Qed.
Theorem removal_reported_gen_spec a m : removal_reported_gen a m true = true.
Proof. destruct a, m; reflexivity. Qed.
Theorem base_removed_gen_spec x y : base_removed_gen x y = x && y.
Proof. destruct x, y; reflexivity. Qed.
Theorem class_members_always_compared_spec : class_members_always_compared_gen = true.
Proof. reflexivity. Qed.
Theorem value_changed_gen_spec x : value_changed_gen x = x.
Proof. destruct x; reflexivity. Qed.
Theorem returns_compatible_gen_spec o n : returns_compatible_gen (is_none o) (is_none n) (odef_eqb o n) = returns_compatible o n.
Proof. destruct o as [a|], n as [b|]; simpl; try reflexivity. destruct (a =? b); reflexivity. Qed.

(* the documented public/private rules, read off the regenerated ladder *)
Theorem is_public_gen_spec x :
  is_public_gen x =
  if f_public_set x then f_public_val x
  else if negb (f_is_alias x) && f_is_module x && negb (starts_with "_" (f_name x)) then true
  else if f_has_parent x && f_parent_is_module x && f_parent_has_exports x then f_in_parent_exports x
  else if starts_with "_" (f_name x) && negb (starts_with "__" (f_name x) && ends_with "__" (f_name x)) then false
  else if f_has_parent x && f_in_parent_imports x then false
  else true.
Proof. reflexivity. Qed.

(* ---- the two traversals agree ---- *)
Section Agree.
Variables go gn : store.

Lemma seen_test_pmem seen i j : seen_test seen i j = pmem i j seen.
Proof. unfold seen_test. rewrite seen_key_gen_spec. reflexivity. Qed.

Lemma local_head_agree oi nj j : local_head_g oi nj j = local_head oi nj j.
Proof.
  unfold local_head_g, local_head, action_of, base_removed. rewrite dispatch_gen_spec.
  destruct (is_alias oi || is_alias nj); [reflexivity|].
  destruct (okind_eqb (kind_of oi) (kind_of nj)) eqn:E; simpl; [|reflexivity].
  unfold kind_of in *. destruct (nbody oi), (nbody nj); simpl in E; try discriminate; cbv beta iota; try reflexivity.
  all: rewrite ?base_removed_gen_spec, ?returns_compatible_gen_spec, ?value_changed_gen_spec; try reflexivity.
  all: match goal with |- context [odef_eqb ?a ?b] => destruct (odef_eqb a b); reflexivity end.
Qed.

Lemma removed_member_agree oi nj nm : removed_member_g go oi nj nm = removed_member go oi nj nm.
Proof.
  unfold removed_member_g, removed_member. destruct (get go (snd nm)) as [mo|]; [|reflexivity].
  rewrite member_skipped_gen_spec. destruct (is_public oi mo); simpl; [|reflexivity].
  rewrite removal_reported_gen_spec. reflexivity.
Qed.

Lemma local_agree e : local_g go gn e = local go gn e.
Proof.
  destruct e as [i j|i j]; simpl; destruct (get go i) as [oi|]; try reflexivity; destruct (get gn j) as [nj|]; try reflexivity.
  - apply local_head_agree.
  - unfold local_members_g, local_members. apply flat_map_ext. intros nm. apply removed_member_agree.
Qed.

Theorem breakages_agree l : breakages_g go gn l = breakages go gn l.
Proof. unfold breakages_g, breakages. apply flat_map_ext. intros e. apply local_agree. Qed.

Lemma mloop_agree rec rec' : (forall s i j, rec s i j = rec' s i j) ->
  forall p nms ms seen, mloop_g go rec p nms ms seen = mloop go rec' p nms ms seen.
Proof.
  intros Hr p nms. induction ms as [|[n m] r IH]; intros seen; simpl; [reflexivity|].
  destruct (get go m) as [mo|]; [|reflexivity].
  rewrite member_skipped_gen_spec. destruct (negb (is_public p mo)); [apply IH|].
  destruct (lookup n nms) as [m'|]; [|apply IH].
  rewrite Hr. destruct (rec' seen m m') as [s l| |]; try reflexivity. rewrite IH. reflexivity.
Qed.

Lemma step_agree rec rec' : (forall s i j, rec s i j = rec' s i j) ->
  forall seen i j, step_g go gn rec seen i j = step go gn rec' seen i j.
Proof.
  intros Hr seen i j. unfold step_g, step. rewrite seen_test_pmem.
  destruct (pmem i j seen); [reflexivity|].
  destruct (get go i) as [oi|]; [|reflexivity]. destruct (get gn j) as [nj|]; [|reflexivity].
  unfold action_of. rewrite dispatch_gen_spec.
  destruct (is_alias oi || is_alias nj).
  - destruct (tgt_of oi i); try reflexivity. destruct (tgt_of nj j); try reflexivity. rewrite Hr. reflexivity.
  - destruct (okind_eqb (kind_of oi) (kind_of nj)) eqn:E; simpl; [|reflexivity].
    unfold members_g, kind_of, is_container in *.
    destruct (nbody oi); cbv beta iota; rewrite ?class_members_always_compared_spec; simpl; try reflexivity;
      rewrite (mloop_agree rec rec' Hr); reflexivity.
Qed.

Lemma tby_agree : forall fuel seen i j, tby_g go gn fuel seen i j = tby go gn fuel seen i j.
Proof.
  induction fuel as [|f IH]; intros seen i j; simpl; [reflexivity|]. apply step_agree. exact IH.
Qed.

Theorem fbc_agree fuel ri rj : fbc_g go gn fuel ri rj = fbc go gn fuel ri rj.
Proof.
  unfold fbc_g, fbc. destruct (get go ri) as [ro|]; [|reflexivity]. destruct (get gn rj) as [rn|]; [|reflexivity].
  rewrite (mloop_agree (tby_g go gn fuel) (tby go gn fuel) (tby_agree fuel)). reflexivity.
Qed.

Theorem check_exit_agree r : check_exit_g go gn r = check_exit go gn r.
Proof. unfold check_exit_g, check_exit. destruct r; try reflexivity. rewrite breakages_agree. reflexivity. Qed.
End Agree.
