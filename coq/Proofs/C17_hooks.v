(* C17 proofs, read-only hooks: with a list-valued cache every reader sees all children, so the inspected tree does not
   depend on what read-only extensions did before; with a one-shot iterator it does. *)
From Coq Require Import List ZArith String Ascii Bool Arith Lia.
From Verif Require Import Lib.Sexp Model.C17_base Gen.C17_tables Model.C17_hooks.
Import ListNotations.
Open Scope string_scope.
Open Scope list_scope.
Open Scope nat_scope.

Lemma reads_clist {A} (members : list A) k : reads CList members (S k) = Some members.
Proof. induction k as [|k IH]; [reflexivity|]. change (reads CList members (S (S k))) with (snd (read CList members (reads CList members (S k)))). rewrite IH. reflexivity. Qed.

(* every reader, whatever the number of earlier reads, gets all the members *)
Theorem seen_after_clist {A} (members : list A) k : seen_after CList members k = members.
Proof. unfold seen_after. destruct k as [|k]; [reflexivity|]. rewrite reads_clist. reflexivity. Qed.

(* a generator serves its first reader only *)
Theorem seen_after_generator {A} (members : list A) k : seen_after CGenerator members (S k) = [].
Proof.
  unfold seen_after. induction k as [|k IH]; [reflexivity|].
  change (reads CGenerator members (S (S k))) with (snd (read CGenerator members (reads CGenerator members (S k)))).
  destruct (reads CGenerator members (S k)); reflexivity.
Qed.

(* the traversal's visibility test is what the cache model says *)
Lemma visible_spec {A} impl (members : list A) k : seen_after impl members k = if visible impl k then members else [].
Proof.
  destruct impl; simpl.
  - apply seen_after_clist.
  - destruct k as [|k]; [reflexivity|]. apply seen_after_generator.
Qed.

Fixpoint inspect_clist hook path t {struct t} : inspect_tree CList hook path t = t.
Proof.
  destruct t as [n kids]. simpl. f_equal.
  induction kids as [|k r IH]; [reflexivity|].
  simpl. rewrite (inspect_clist hook (path ++ [n]) k), IH. reflexivity.
Qed.

(* with the children the code stores (Gen/C17_tables.v, regenerated on every run): for every object tree and every history
   of reads by read-only hooks, the Inspector traverses the same tree as without any extension -- the whole tree *)
Theorem hooks_invariant hook path t :
  inspect_tree children_impl hook path t = inspect_tree children_impl no_hooks path t /\
  inspect_tree children_impl hook path t = t.
Proof. change children_impl with CList. rewrite !inspect_clist. split; reflexivity. Qed.

Example hooks_nonvacuous :
  let t := ONode "pkg" [ONode "K" [ONode "m" []]; ONode "f" []] in
  inspect_tree children_impl (fun p => List.length p) [] t = t.
Proof. reflexivity. Qed.

(* why a one-shot iterator is not harmless: one read of the module's children by a hook empties the inspected module *)
Theorem hooks_refuted_generator :
  exists hook t, inspect_tree CGenerator no_hooks [] t = t /\ inspect_tree CGenerator hook [] t = ONode "pkg" [] /\ t <> ONode "pkg" [].
Proof.
  exists (fun p => 1), (ONode "pkg" [ONode "K" []]). repeat split; try reflexivity. discriminate.
Qed.
