(* C17 proofs: kinds (finite case analysis over the definition forms against the generated ladder), the alias rule
   (relative-import resolution for every level and path length, chains of re-exports of every length), parameters
   (every argument-list length, through C02), docstrings (double cleandoc). *)
From Coq Require Import List ZArith String Ascii Bool Arith Lia.
From Verif Require Import Lib.Sexp Model.C02_kinds Model.C02_params Proofs.C02_params Model.C17_base Gen.C17_tables Model.C17_agents.
Import ListNotations.
Open Scope string_scope.
Open Scope list_scope.
Open Scope nat_scope.

(* ================================================================================================ *)
(* A. kinds                                                                                          *)

Lemma all_defforms_complete : forall d, In d all_defforms.
Proof.
  intros d. unfold all_defforms. simpl.
  destruct d as [[|] [|]|[|]|[|]| | |[|]|[|]|[|] [| | | |]]; tauto.
Qed.

Lemma handlers_total : forall k, lookup_handler k handlers <> None.
Proof. intros k; destruct k; vm_compute; discriminate. Qed.

Lemma inspect_member_no_error : forall f e, inspect_member f <> MErr e.
Proof.
  intros f e. unfold inspect_member.
  destruct (lookup_handler (inspector_okind f) handlers) as [h|] eqn:E.
  - destruct h as [| |ls|].
    + discriminate.
    + discriminate.
    + unfold function_or_property. destruct (mem_str "property" (with_async f ls)); discriminate.
    + unfold inspector_attribute. discriminate.
  - exfalso. exact (handlers_total _ E).
Qed.

(* finite reflection: the whole table in one computation (24 forms, listed in all_defforms) *)
Definition form_agrees (d : defform) : bool :=
  is_import d ||
  skel_eqb (skeleton (visitor_member d)) (skeleton (inspect_member (runtime_features d))).

Lemma form_agrees_all : forallb form_agrees all_defforms = true.
Proof. vm_compute. reflexivity. Qed.

Lemma string_eqb_refl' s : String.eqb s s = true.
Proof. apply String.eqb_refl. Qed.

Lemma path_eqb_eq a b : path_eqb a b = true <-> a = b.
Proof.
  revert b; induction a as [|x a IH]; intros [|y b]; simpl; split; intros H; try discriminate; auto.
  - apply andb_prop in H. destruct H as [H1 H2]. apply String.eqb_eq in H1. apply IH in H2. congruence.
  - inversion H; subst. rewrite String.eqb_refl. simpl. apply IH. reflexivity.
Qed.

Lemma path_eqb_refl a : path_eqb a a = true.
Proof. apply path_eqb_eq. reflexivity. Qed.

Lemma path_eqb_neq a b : path_eqb a b = false <-> a <> b.
Proof.
  split.
  - intros H E. apply path_eqb_eq in E. congruence.
  - intros H. destruct (path_eqb a b) eqn:E; auto. apply path_eqb_eq in E. contradiction.
Qed.

Lemma bools_eqb_eq a b : bools_eqb a b = true -> a = b.
Proof.
  revert b; induction a as [|x a IH]; intros [|y b]; simpl; intros H; try discriminate; auto.
  apply andb_prop in H. destruct H as [H1 H2]. apply Bool.eqb_prop in H1. f_equal; auto.
Qed.

Lemma skel_eqb_eq a b : skel_eqb a b = true -> a = b.
Proof.
  destruct a, b; simpl; intros H; try discriminate; auto.
  - apply path_eqb_eq in H. congruence.
  - apply andb_prop in H. destruct H as [H1 H2]. apply bools_eqb_eq in H2.
    destruct k, k0; try discriminate; congruence.
Qed.

Theorem kind_agrees d :
  is_import d = false ->
  skeleton (visitor_member d) = skeleton (inspect_member (runtime_features d)).
Proof.
  intros Hi.
  pose proof (proj1 (forallb_forall form_agrees all_defforms) form_agrees_all d (all_defforms_complete d)) as H.
  unfold form_agrees in H. rewrite Hi in H. simpl in H. apply skel_eqb_eq. exact H.
Qed.

(* the Griffe kind (module / class / function / attribute) agrees with no exception *)
Theorem gkind_agrees d :
  is_import d = false ->
  member_gkind (visitor_member d) = member_gkind (inspect_member (runtime_features d)).
Proof.
  destruct d as [[|] [|]|[|]|[|]| | |[|]|[|]|sc t]; intros H; try discriminate; vm_compute; reflexivity.
Qed.

(* ---- objects defined where they are found are never aliased *)
Lemma lstrip_map_refl p : path_eqb (map lstrip_us p) (map lstrip_us p) = true.
Proof. apply path_eqb_refl. Qed.

Lemma same_components_refl p : same_components p p = true.
Proof. apply lstrip_map_refl. Qed.

Lemma defined_here_not_aliased f e p :
  f PIsModule = false ->
  ae_child_mod e = Some p -> ae_parent_mod e = Some p -> alias_target_path f e = None.
Proof.
  intros Hm Hc Hp. unfold alias_target_path. rewrite Hc, Hp, same_components_refl, Hm.
  destruct (negb (ae_has_parent e)); auto.
  destruct (okind_eqb (inspector_okind f) KAttribute); auto.
  destruct (cyclic p p); auto.
Qed.

Lemma defined_form_not_module d : is_import d = false -> runtime_features d PIsModule = false.
Proof. destruct d as [[|] [|]|[|]|[|]| | |[|]|[|]|sc t]; intros H; try discriminate; vm_compute; reflexivity. Qed.

Theorem kind_agrees_in_place d e p cur name hf :
  is_import d = false ->
  ae_child_mod e = Some p -> ae_parent_mod e = Some p ->
  skeleton (inspect_child (runtime_features d) e cur name hf) = skeleton (visitor_member d).
Proof.
  intros Hi Hc Hp. unfold inspect_child. rewrite (defined_here_not_aliased _ e p (defined_form_not_module d Hi) Hc Hp).
  symmetry. apply kind_agrees; assumption.
Qed.

(* ================================================================================================ *)
(* B. relative imports and chains                                                                    *)

Lemma removelast_firstn_len {A} (l : list A) : removelast l = firstn (List.length l - 1) l.
Proof.
  induction l as [|x l IH]; simpl; auto.
  destruct l as [|y l]; simpl; auto.
  simpl in IH. rewrite IH. replace (List.length l - 0) with (List.length l) by lia. reflexivity.
Qed.

Lemma firstn_firstn_min {A} (l : list A) i j : firstn i (firstn j l) = firstn (Nat.min i j) l.
Proof. apply firstn_firstn. Qed.

(* climbing k parents stops at the top-level module *)
Lemma climb_firstn : forall k (p : list string), p <> [] ->
  climb k p = firstn (List.length p - Nat.min k (List.length p - 1)) p.
Proof.
  induction k as [|k IH]; intros p Hp; cbn [climb].
  - simpl. replace (List.length p - 0) with (List.length p) by lia. symmetry. apply firstn_all.
  - destruct (1 <? List.length p) eqn:E.
    + apply Nat.ltb_lt in E.
      assert (Hr : removelast p <> []).
      { rewrite removelast_firstn_len. destruct p as [|x [|y p]]; simpl in *; try lia; discriminate. }
      rewrite (IH _ Hr).
      assert (Hl : List.length (removelast p) = List.length p - 1).
      { rewrite removelast_firstn_len, firstn_length. lia. }
      rewrite Hl. rewrite (removelast_firstn_len p). rewrite firstn_firstn. f_equal. lia.
    + apply Nat.ltb_ge in E.
      assert (List.length p = 1) by (destruct p; simpl in *; [contradiction|lia]).
      replace (List.length p - Nat.min (S k) (List.length p - 1)) with (List.length p) by lia.
      symmetry. apply firstn_all.
Qed.

Lemma cpy_package_length m : m_path m <> [] ->
  List.length (cpy_package m) = if m_init m then List.length (m_path m) else List.length (m_path m) - 1.
Proof.
  intros H. unfold cpy_package. destruct (m_init m); auto.
  rewrite removelast_firstn_len, firstn_length. lia.
Qed.

(* Griffe's base for a relative import is importlib's, whenever importlib resolves it at all *)
Lemma relative_base_eq_cpython m level b :
  m_path m <> [] -> 0 < level ->
  cpy_resolve_base m level = Some b ->
  climb (if ((0 <? level) && is_package m) || is_subpackage m then level - 1 else level) (m_path m) = b.
Proof.
  intros Hp Hl H. unfold cpy_resolve_base in H.
  pose proof (cpy_package_length m Hp) as Hlen.
  destruct (List.length (cpy_package m) <? level) eqn:E; [discriminate|].
  apply Nat.ltb_ge in E. inversion H; subst b; clear H.
  assert (Hn : 0 < List.length (m_path m)) by (destruct (m_path m); simpl; [contradiction|lia]).
  rewrite (climb_firstn _ _ Hp).
  unfold is_package, is_subpackage, cpy_package in *.
  destruct (m_init m) eqn:Hi.
  - (* __init__ module: one level is the package itself *)
    assert (Hb : ((0 <? level) && (true && (List.length (m_path m) =? 1)) || true && (1 <? List.length (m_path m))) = true).
    { replace (0 <? level) with true by (symmetry; apply Nat.ltb_lt; lia). simpl.
      destruct (List.length (m_path m) =? 1) eqn:E1; simpl; auto.
      apply Nat.eqb_neq in E1. apply Nat.ltb_lt. lia. }
    rewrite Hb. f_equal. clear Hb Hlen. rewrite Nat.min_l by lia. reflexivity.
  - simpl. rewrite andb_false_r. simpl.
    rewrite removelast_firstn_len, firstn_firstn. f_equal.
    rewrite Hlen in E. rewrite firstn_length. lia.
Qed.

Theorem relative_eq_cpython m i R :
  m_path m <> [] ->
  cpy_from_module m i = Some R ->
  relative_to_absolute m i = R ++ [i_name i].
Proof.
  intros Hp H. unfold cpy_from_module in H. unfold relative_to_absolute.
  destruct (i_level i =? 0) eqn:E0.
  - apply Nat.eqb_eq in E0. inversion H; subst R. rewrite E0. simpl.
    reflexivity.
  - apply Nat.eqb_neq in E0.
    destruct (cpy_resolve_base m (i_level i)) as [b|] eqn:Eb; [|discriminate].
    inversion H; subst R.
    assert (Hl : 0 < i_level i) by lia.
    replace (0 <? i_level i) with true by (symmetry; apply Nat.ltb_lt; exact Hl).
    pose proof (relative_base_eq_cpython m (i_level i) b Hp Hl Eb) as Hc.
    replace (0 <? i_level i) with true in Hc by (symmetry; apply Nat.ltb_lt; exact Hl).
    rewrite Hc. rewrite app_assoc. reflexivity.
Qed.

(* importlib refuses (module not importable): Griffe silently clamps at the top-level package *)
Theorem relative_beyond_top m i :
  m_path m <> [] -> 0 < i_level i -> cpy_from_module m i = None ->
  relative_to_absolute m i = firstn 1 (m_path m) ++ i_module i ++ [i_name i].
Proof.
  intros Hp Hl H. unfold cpy_from_module in H.
  replace (i_level i =? 0) with false in H by (symmetry; apply Nat.eqb_neq; lia).
  unfold cpy_resolve_base in H.
  destruct (List.length (cpy_package m) <? i_level i) eqn:E; [|discriminate].
  apply Nat.ltb_lt in E. rewrite (cpy_package_length m Hp) in E.
  unfold relative_to_absolute.
  replace (0 <? i_level i) with true by (symmetry; apply Nat.ltb_lt; exact Hl).
  f_equal. rewrite (climb_firstn _ _ Hp). f_equal.
  assert (Hn : 0 < List.length (m_path m)) by (destruct (m_path m); simpl; [contradiction|lia]).
  unfold is_package, is_subpackage. destruct (m_init m); simpl.
  - destruct (List.length (m_path m) =? 1) eqn:E1; simpl.
    + apply Nat.eqb_eq in E1. lia.
    + apply Nat.eqb_neq in E1. replace (1 <? List.length (m_path m)) with true by (symmetry; apply Nat.ltb_lt; lia). lia.
  - lia.
Qed.

Definition chain_paths_ok (c : list hop) : Prop := forall h, In h c -> m_path (h_mod h) <> [].

(* a chain of re-exports that CPython executes is followed by the static aliases to the definition, for every length *)
Theorem chain_static_final : forall c D q,
  chain_paths_ok c -> cpy_chain_ok c D q = true -> static_final c (D ++ [q]) = Some (D ++ [q]).
Proof.
  induction c as [|h r IH]; intros D q Hp H; simpl in *; auto.
  destruct (cpy_from_module (h_mod h) (h_imp h)) as [R|] eqn:ER; [|discriminate].
  apply andb_prop in H. destruct H as [H1 H2].
  assert (Hh : m_path (h_mod h) <> []) by (apply Hp; left; reflexivity).
  rewrite (relative_eq_cpython _ _ _ Hh ER).
  assert (Hr : chain_paths_ok r) by (intros x Hx; apply Hp; right; exact Hx).
  destruct r as [|h' r'].
  - apply andb_prop in H1. destruct H1 as [Ha Hb]. apply path_eqb_eq in Ha. apply String.eqb_eq in Hb.
    subst. rewrite path_eqb_refl. reflexivity.
  - apply andb_prop in H1. destruct H1 as [Ha Hb]. apply path_eqb_eq in Ha. apply String.eqb_eq in Hb.
    unfold hop_member. rewrite Ha, Hb, path_eqb_refl. apply IH; assumption.
Qed.

(* ---- the dynamic side of the alias rule *)
Definition importable_as_alias (t : thing) : bool := match t with TFunc | TAsyncFunc | TClass => true | _ => false end.

Definition not_builtin_like (e : alias_env) (c : list string) : Prop :=
  mem_str (join_dot (lstrip_path c)) (map lstrip_us (ae_builtins e)) = false.

Lemma imported_not_attribute sc t : t <> TValue ->
  okind_eqb (inspector_okind (runtime_features (DImported sc t))) KAttribute = false.
Proof. destruct sc, t; intros H; try contradiction; vm_compute; reflexivity. Qed.

Lemma imported_ismodule sc t :
  runtime_features (DImported sc t) PIsModule = match t with TModule => true | _ => false end.
Proof. destruct sc, t; vm_compute; reflexivity. Qed.

Theorem dynamic_alias_rule sc t e M D q cur name hf :
  importable_as_alias t = true ->
  ae_has_parent e = true -> ae_parent_mod e = Some M -> ae_child_mod e = Some D -> ae_qualname e = [q] ->
  cyclic M D = false -> same_components M D = false -> not_builtin_like e D ->
  inspect_child (runtime_features (DImported sc t)) e cur name hf = MAlias (D ++ [q]).
Proof.
  intros Ht Hp HM HD Hq Hc Hs Hb.
  assert (Hv : t <> TValue) by (destruct t; simpl in Ht; congruence).
  unfold inspect_child, alias_target_path.
  rewrite Hp, HM, HD, Hq, Hc, Hs, (imported_not_attribute sc t Hv), imported_ismodule. simpl.
  unfold not_builtin_like in Hb. rewrite Hb.
  destruct t; simpl in Ht; try discriminate; reflexivity.
Qed.

Theorem dynamic_module_rule sc e M P cur name hf :
  ae_has_parent e = true -> ae_parent_mod e = Some M -> ae_child_mod e = Some P ->
  cyclic M P = false ->
  inspect_child (runtime_features (DImported sc TModule)) e cur name hf =
  if path_eqb P (cur ++ [name]) then (if hf then MNothing else MObj GModule []) else MAlias P.
Proof.
  intros Hp HM HD Hc.
  assert (Hv : TModule <> TValue) by discriminate.
  unfold inspect_child, alias_target_path.
  rewrite Hp, HM, HD, Hc, (imported_not_attribute sc TModule Hv), imported_ismodule. simpl. reflexivity.
Qed.

(* the stated exception: an imported plain value is an attribute of the importing scope *)
Theorem dynamic_value_rule sc e cur name hf :
  inspect_child (runtime_features (DImported sc TValue)) e cur name hf =
  MObj GAttribute [if in_class sc then "class" else "module"].
Proof.
  unfold inspect_child, alias_target_path.
  assert (H : okind_eqb (inspector_okind (runtime_features (DImported sc TValue))) KAttribute = true)
    by (destruct sc; vm_compute; reflexivity).
  rewrite H. destruct (negb (ae_has_parent e)); destruct sc; vm_compute; reflexivity.
Qed.

(* the static head of a chain *)
Lemma visit_importfrom_alias cur m i R :
  m_path m <> [] -> cpy_from_module m i = Some R ->
  (is_nil (i_module i) && (i_level i =? 1) && is_none (i_as i) && m_init m) = false ->
  R ++ [i_name i] <> cur ++ [bound_name i] ->
  visit_importfrom cur m i = MAlias (R ++ [i_name i]).
Proof.
  intros Hp HR Hskip Hne. unfold visit_importfrom. rewrite Hskip, (relative_eq_cpython m i R Hp HR).
  apply path_eqb_neq in Hne. rewrite Hne. reflexivity.
Qed.

(* both agents leave `from . import sub` in a package __init__ to the loader *)
Theorem submodule_import_no_member m sub e hf :
  m_path m <> [] -> m_init m = true ->
  ae_has_parent e = true -> ae_parent_mod e = Some (m_path m) -> ae_child_mod e = Some (m_path m ++ [sub]) ->
  cyclic (m_path m) (m_path m ++ [sub]) = false -> hf = true ->
  visit_importfrom (m_path m) m (mkImp 1 [] sub None) = MNothing /\
  inspect_child (runtime_features (DImported SMod TModule)) e (m_path m) sub hf = MNothing.
Proof.
  intros Hp Hi H1 H2 H3 H4 H7. split.
  - unfold visit_importfrom. simpl. rewrite Hi. reflexivity.
  - rewrite (dynamic_module_rule SMod e (m_path m) (m_path m ++ [sub]) (m_path m) sub hf H1 H2 H3 H4).
    rewrite path_eqb_refl, H7. reflexivity.
Qed.

(* C17 alias rule, both sides: same final target *)
Theorem alias_rule sc t e h r D q cur hf :
  importable_as_alias t = true ->
  chain_paths_ok (h :: r) -> cpy_chain_ok (h :: r) D q = true ->
  ae_has_parent e = true -> ae_parent_mod e = Some (m_path (h_mod h)) -> ae_child_mod e = Some D -> ae_qualname e = [q] ->
  cyclic (m_path (h_mod h)) D = false -> same_components (m_path (h_mod h)) D = false -> not_builtin_like e D ->
  inspect_child (runtime_features (DImported sc t)) e cur (bound_name (h_imp h)) hf = MAlias (D ++ [q]) /\
  static_final (h :: r) (D ++ [q]) = Some (D ++ [q]).
Proof.
  intros Ht Hp Hc H1 H2 H3 H4 H5 H6 H7. split.
  - eapply dynamic_alias_rule; eauto.
  - apply chain_static_final; assumption.
Qed.

(* known gap F4: sibling modules whose names differ only by leading underscores *)
Theorem alias_rule_refuted_same_components :
  exists sc t e h D q cur hf,
    importable_as_alias t = true /\ chain_paths_ok [h] /\ cpy_chain_ok [h] D q = true /\
    ae_has_parent e = true /\ ae_parent_mod e = Some (m_path (h_mod h)) /\ ae_child_mod e = Some D /\ ae_qualname e = [q] /\
    m_path (h_mod h) <> D /\
    visit_importfrom cur (h_mod h) (h_imp h) = MAlias (D ++ [q]) /\
    inspect_child (runtime_features (DImported sc t)) e cur (bound_name (h_imp h)) hf = MObj GFunction [].
Proof.
  exists SMod, TFunc, (mkAE true (Some ["pkg"; "_a"]) (Some ["pkg"; "a"]) ["f"] []),
         (mkHop (mkMod ["pkg"; "a"] false) (mkImp 0 ["pkg"; "_a"] "f" None)), ["pkg"; "_a"], "f", ["pkg"; "a"], true.
  repeat split; try reflexivity.
  - intros x [Hx|[]]; subst; discriminate.
  - discriminate.
Qed.

(* ================================================================================================ *)
(* C. parameters                                                                                     *)

Lemma kind_map_id k : kind_map k = k.
Proof. destruct k; reflexivity. Qed.

Lemma visitor_parameters_eq a : wf a = true ->
  visitor_parameters a = Ok (map of_param (cpython_signature a)).
Proof. intros H. unfold visitor_parameters. rewrite (parameters_eq_cpython a H). reflexivity. Qed.

(* every parameter CPython's signature lists is a non-variadic one with or without default, or a variadic one
   carrying Griffe's "()" / "{}" marker *)
Definition sig_param_ok (p : param) : Prop :=
  match pkind p with
  | VP => pdef p = DStr "()"
  | VK => pdef p = DStr "{}"
  | _ => match pdef p with DStr _ => False | _ => True end
  end.

Lemma Forall_app_intro {A} (P : A -> Prop) l1 l2 : Forall P l1 -> Forall P l2 -> Forall P (l1 ++ l2).
Proof. intros. apply Forall_app. split; assumption. Qed.

Lemma in_firstn {A} (x : A) n l : In x (firstn n l) -> In x l.
Proof. revert l; induction n as [|n IH]; intros [|y l]; simpl; try tauto. intros [H|H]; auto. Qed.
Lemma in_skipn {A} (x : A) n l : In x (skipn n l) -> In x l.
Proof. revert l; induction n as [|n IH]; intros [|y l]; simpl; try tauto. intros H; auto. Qed.

Lemma tagged_positional a x k :
  In (x, k) (map (fun x => (x, PO)) (posonly a) ++ map (fun x => (x, PK)) (args a)) -> k = PO \/ k = PK.
Proof.
  intros Hk. apply in_app_or in Hk.
  destruct Hk as [Hk|Hk]; apply in_map_iff in Hk; destruct Hk as [y [Ey _]]; inversion Ey; auto.
Qed.

Lemma cpython_signature_ok a : Forall sig_param_ok (cpython_signature a).
Proof.
  unfold cpython_signature, cpython_positional, cpython_kwonly.
  repeat apply Forall_app_intro.
  - apply Forall_forall. intros p Hp. apply in_map_iff in Hp. destruct Hp as [[x k] [E Hin]]. subst p.
    unfold sig_param_ok. simpl. apply in_firstn in Hin. destruct (tagged_positional a x k Hin); subst k; exact I.
  - apply Forall_forall. intros p Hp. apply in_map_iff in Hp. destruct Hp as [[[x k] d] [E Hin]]. subst p.
    unfold sig_param_ok. simpl. apply in_combine_l in Hin. apply in_skipn in Hin.
    destruct (tagged_positional a x k Hin); subst k; exact I.
  - unfold opt_param. destruct (vararg a); constructor; [reflexivity|constructor].
  - apply Forall_forall. intros p Hp. apply in_map_iff in Hp. destruct Hp as [[x d] [E Hin]]. subst p.
    unfold sig_param_ok. simpl. destruct d; exact I.
  - unfold opt_param. destruct (kwarg a); constructor; [reflexivity|constructor].
Qed.

Lemma convert_of_ok p : sig_param_ok p -> convert_parameter (to_iparam p) = of_param p.
Proof.
  destruct p as [n a k d]. unfold sig_param_ok, convert_parameter, to_iparam, of_param. simpl.
  rewrite kind_map_id.
  destruct k; simpl; intros H; try (subst d; reflexivity); destruct d; try contradiction; reflexivity.
Qed.

(* names, order, annotations, kinds, defaults and required-ness: the two agents build the same parameter list,
   for every signature (functions, methods, static methods; class methods through __func__) *)
Theorem params_agree a :
  wf a = true -> visitor_parameters a = Ok (inspector_parameters a).
Proof.
  intros H. rewrite (visitor_parameters_eq a H). f_equal.
  unfold inspector_parameters, inspect_signature. rewrite map_map.
  pose proof (cpython_signature_ok a) as F. induction F; simpl; auto.
  rewrite IHF. f_equal. symmetry. apply convert_of_ok. assumption.
Qed.

Lemma required_of_ok p : sig_param_ok p -> gp_required (of_param p) = cpython_required (to_iparam p).
Proof.
  destruct p as [n a k d]. unfold sig_param_ok, gp_required, cpython_required. simpl.
  destruct k; simpl; intros H; try (subst d; reflexivity); destruct d; try contradiction; reflexivity.
Qed.

(* both agents' required-ness is CPython's binder's, for every signature *)
Theorem visitor_required_is_cpython a :
  wf a = true ->
  exists vs, visitor_parameters a = Ok vs /\ map gp_required vs = map cpython_required (inspect_signature a).
Proof.
  intros H. exists (map of_param (cpython_signature a)). split; [apply visitor_parameters_eq; exact H|].
  unfold inspect_signature. rewrite !map_map.
  pose proof (cpython_signature_ok a) as F. induction F; simpl; auto. f_equal; auto. apply required_of_ok; assumption.
Qed.

Theorem inspector_required_is_cpython a :
  map gp_required (inspector_parameters a) = map cpython_required (inspect_signature a).
Proof.
  unfold inspector_parameters, inspect_signature. rewrite !map_map.
  pose proof (cpython_signature_ok a) as F. induction F; simpl; auto. f_equal; auto.
  rewrite (convert_of_ok _ H). apply required_of_ok. assumption.
Qed.

(* ================================================================================================ *)
(* D. docstrings                                                                                     *)

(* Inspector._get_docstring hands the raw __doc__ to Docstring, exactly like the visitor *)
Theorem docstring_agree v : static_doc v = dynamic_doc v.
Proof. reflexivity. Qed.

(* why a second cleaning (the repaired defect F5) was not harmless: inspect.cleandoc is not idempotent *)
Lemma cleaned_twice_differs : exists v, first_line_blank v = true /\ docstring_value v <> cleaned_twice v.
Proof.
  exists [mkLine 0 None; mkLine 2 (Some 1%Z); mkLine 0 (Some 2%Z)]. split; [reflexivity|]. vm_compute. discriminate.
Qed.

(* ---- with a non-blank first line a second cleandoc pass is the identity *)
Lemma drop_while_app_last {A} (f : A -> bool) l x : f x = false -> drop_while f (l ++ [x]) = drop_while f l ++ [x].
Proof.
  intros H. induction l as [|y l IH]; simpl.
  - rewrite H. reflexivity.
  - destruct (f y); auto.
Qed.

Lemma drop_trailing_cons_keep {A} (f : A -> bool) x l : f x = false -> drop_trailing f (x :: l) = x :: drop_trailing f l.
Proof.
  intros H. unfold drop_trailing. simpl. rewrite (drop_while_app_last f (rev l) x H), rev_app_distr. reflexivity.
Qed.

Lemma empty_blank l : empty_line l = true -> blank l = true.
Proof. unfold empty_line. intros H. apply andb_prop in H. tauto. Qed.

Definition ends_nonblank (l : list line) : bool := match rev l with [] => true | x :: _ => negb (blank x) end.

Lemma drop_while_nonblank_head f (l : list line) :
  (forall x, f x = true -> blank x = true) ->
  match l with [] => true | x :: _ => negb (blank x) end = true -> drop_while f l = l.
Proof.
  intros Hf. destruct l as [|x l]; simpl; auto. intros H.
  destruct (f x) eqn:E; auto. apply Hf in E. rewrite E in H. discriminate.
Qed.

Lemma ends_nonblank_keep f l :
  (forall x, f x = true -> blank x = true) -> ends_nonblank l = true -> drop_trailing f l = l.
Proof.
  intros Hf H. unfold drop_trailing, ends_nonblank in *.
  rewrite (drop_while_nonblank_head f (rev l) Hf H). apply rev_involutive.
Qed.

Lemma drop_while_head_false {A} (f : A -> bool) l :
  match drop_while f l with [] => true | x :: _ => negb (f x) end = true.
Proof.
  induction l as [|x l IH]; simpl; auto. destruct (f x) eqn:E; auto. simpl. rewrite E. reflexivity.
Qed.

Lemma dtb_ends r : ends_nonblank (drop_trailing blank r) = true.
Proof.
  unfold ends_nonblank, drop_trailing. rewrite rev_involutive. apply (drop_while_head_false blank).
Qed.

Lemma blank_shift m x : blank (shift m x) = blank x.
Proof. reflexivity. Qed.

Lemma drop_while_map_shift m l : drop_while blank (map (shift m) l) = map (shift m) (drop_while blank l).
Proof.
  induction l as [|x l IH]; simpl; auto. rewrite blank_shift. destruct (blank x); auto.
Qed.

Lemma dtb_map_shift m l : drop_trailing blank (map (shift m) l) = map (shift m) (drop_trailing blank l).
Proof.
  unfold drop_trailing. rewrite <- map_rev, drop_while_map_shift, map_rev. reflexivity.
Qed.

Lemma ends_nonblank_map_shift m l : ends_nonblank (map (shift m) l) = ends_nonblank l.
Proof.
  unfold ends_nonblank. rewrite <- map_rev. destruct (rev l); simpl; auto.
Qed.

Lemma min_indent_app_blank l x : blank x = true -> min_indent (l ++ [x]) = min_indent l.
Proof.
  intros H. induction l as [|y l IH]; simpl.
  - rewrite H. reflexivity.
  - rewrite IH. reflexivity.
Qed.

Lemma min_indent_drop_while_rev : forall (s : list line) (acc : list line),
  min_indent (rev (drop_while blank s) ++ acc) = min_indent (rev s ++ acc).
Proof.
  induction s as [|x s IH]; intros acc; simpl; auto.
  destruct (blank x) eqn:E.
  - rewrite IH. rewrite <- app_assoc. simpl.
    clear IH. induction (rev s) as [|y t IHt]; simpl.
    + rewrite E. reflexivity.
    + rewrite IHt. reflexivity.
  - reflexivity.
Qed.

Lemma min_indent_dtb r : min_indent (drop_trailing blank r) = min_indent r.
Proof.
  unfold drop_trailing.
  pose proof (min_indent_drop_while_rev (rev r) []) as H. rewrite !app_nil_r, rev_involutive in H. exact H.
Qed.

Lemma min_indent_map_shift k l :
  min_indent (map (shift k) l) = option_map (fun x => x - k) (min_indent l).
Proof.
  induction l as [|x l IH]; simpl; auto.
  rewrite blank_shift. destruct (blank x); auto.
  rewrite IH. destruct (min_indent l); simpl; auto. f_equal. lia.
Qed.

Lemma shift_0 x : shift 0 x = x.
Proof. destruct x as [i t]. unfold shift. simpl. rewrite Nat.sub_0_r. reflexivity. Qed.

Lemma map_shift_0 l : map (shift 0) l = l.
Proof. induction l as [|x l IH]; simpl; auto. rewrite shift_0, IH. reflexivity. Qed.

Definition sh (r : list line) : list line := match min_indent r with Some m => map (shift m) r | None => r end.

Lemma sh_idem r : sh (sh r) = sh r.
Proof.
  unfold sh. destruct (min_indent r) as [m|] eqn:E.
  - rewrite min_indent_map_shift, E. simpl. rewrite Nat.sub_diag. apply map_shift_0.
  - rewrite E. reflexivity.
Qed.

Lemma sh_dtb r : drop_trailing blank (sh r) = sh (drop_trailing blank r).
Proof.
  unfold sh. rewrite min_indent_dtb. destruct (min_indent r); auto. apply dtb_map_shift.
Qed.

Lemma ends_nonblank_sh r : ends_nonblank (sh r) = ends_nonblank r.
Proof. unfold sh. destruct (min_indent r); auto. apply ends_nonblank_map_shift. Qed.

Lemma drop_while_blank_empty l : drop_while blank (drop_while empty_line l) = drop_while blank l.
Proof.
  induction l as [|x l IH]; simpl; auto.
  destruct (empty_line x) eqn:E.
  - rewrite (empty_blank x E). exact IH.
  - reflexivity.
Qed.

Lemma dtb_dte l : drop_trailing blank (drop_trailing empty_line l) = drop_trailing blank l.
Proof. unfold drop_trailing. rewrite rev_involutive, drop_while_blank_empty. reflexivity. Qed.

(* cleandoc of a text whose first line has content *)
Lemma cleandoc_nonblank_head l0 r :
  blank l0 = false -> cleandoc (l0 :: r) = mkLine 0 (l_txt l0) :: drop_trailing empty_line (sh r).
Proof.
  intros H. unfold cleandoc. fold (sh r).
  assert (He : empty_line (mkLine 0 (l_txt l0)) = false).
  { unfold empty_line, blank in *. simpl. rewrite H. reflexivity. }
  rewrite (drop_trailing_cons_keep empty_line _ _ He). simpl. rewrite He. reflexivity.
Qed.

Lemma cleaned_twice_same v : first_line_blank v = false -> docstring_value v = cleaned_twice v.
Proof.
  unfold cleaned_twice, docstring_value.
  destruct v as [|l0 r]; [reflexivity|].
  destruct (blank l0) eqn:Hb.
  - (* blank first line: the hypothesis leaves only the one-line text *)
    destruct r as [|l1 r]; [|simpl; rewrite Hb; discriminate]. intros _.
    unfold rstrip, drop_trailing. simpl. rewrite Hb. simpl.
    unfold cleandoc. simpl. unfold drop_trailing. simpl.
    assert (He : empty_line (mkLine 0 (l_txt l0)) = true).
    { unfold empty_line, blank in *. simpl. rewrite Hb. reflexivity. }
    rewrite He. simpl. reflexivity.
  - intros _.
    assert (Hb0 : blank (mkLine 0 (l_txt l0)) = false) by exact Hb.
    unfold rstrip.
    rewrite (drop_trailing_cons_keep blank l0 r Hb).
    rewrite (cleandoc_nonblank_head l0 (drop_trailing blank r) Hb).
    rewrite (cleandoc_nonblank_head l0 r Hb).
    rewrite (drop_trailing_cons_keep blank _ _ Hb0).
    rewrite dtb_dte, sh_dtb.
    rewrite (cleandoc_nonblank_head (mkLine 0 (l_txt l0)) _ Hb0). simpl l_txt.
    rewrite sh_idem. reflexivity.
Qed.

(* ================================================================================================ *)
(* E. _pick_member                                                                                   *)

(* the filter drops special names, type/object, inherited names and cyclic references to a real ancestor, nothing else *)
Theorem pick_member_spec e :
  pick_member e = negb (mem_str (pk_name e) exclude_specials) && negb (pk_is_type e) && negb (pk_is_object e)
                  && negb (pk_is_ancestor e) && pk_in_vars e.
Proof. reflexivity. Qed.

(* a None-valued member of an inspected submodule is kept at every placeholder depth *)
Theorem pick_member_none_in_submodule n k :
  pick_member (mkPick n false false false true k true) = negb (mem_str n exclude_specials).
Proof. unfold pick_member, in_ids. simpl. rewrite !andb_true_r. reflexivity. Qed.
