(* C06 proofs, part 3: the outer loop of resolve_aliases with side-loading, over an abstract world (termination and
   fixpoint for every sequence of collection growth bounded by a finite universe); the skip bit of implicit=False. *)
From Coq Require Import List String Bool Arith Lia.
From Verif Require Import Lib.Sexp Model.C06_alias Proofs.C06_alias Proofs.C06_fixpoint.
Import ListNotations.
Open Scope string_scope.
Open Scope list_scope.
Open Scope nat_scope.

Section ExtLoopSpec.
  Variable W : Type.
  Variable pass : W -> W * (bool * list string * bool).
  (* what is left to do: unlinked aliases + packages of the (finite) universe that are not loaded yet *)
  Variable mu : W -> nat.
  (* a pass that resolves an alias or loads a package uses up some of it *)
  Hypothesis progress_decreases : forall w w' rs u g, pass w = (w', (rs, u, g)) -> rs || g = true -> mu w' < mu w.
  (* a pass that does neither changes nothing *)
  Hypothesis quiet_unchanged : forall w w' u, pass w = (w', (false, u, false)) -> w' = w.
  (* a package is only loaded for an alias that is reported unresolved in this pass *)
  Hypothesis growth_reported : forall w w' rs g, pass w = (w', (rs, [], g)) -> g = false.
  (* once a pass ends with nothing unresolved, a further pass is quiet (C06_fixpoint_direct_heaps / checked at run time) *)
  Hypothesis settled_stays : forall w w' rs, pass w = (w', (rs, [], false)) -> pass w' = (w', (false, [], false)).

  Lemma ext_loop_terminates : forall k w prev it, mu w + 2 <= k -> exists res, ext_loop W pass k w prev it = Some res.
  Proof.
    induction k; intros w prev it Hk. lia.
    simpl. destruct (pass w) as [w' [[rs u] g]] eqn:E.
    destruct u as [|u0 us]. eauto.
    destruct (negb (rs || g) && set_eq (u0 :: us) prev) eqn:Es. eauto.
    destruct (rs || g) eqn:Ep.
    - apply IHk. pose proof (progress_decreases _ _ _ _ _ E Ep). lia.
    - apply orb_false_iff in Ep. destruct Ep; subst.
      pose proof (quiet_unchanged _ _ _ E). subst w'.
      destruct k as [|k']. lia. simpl. rewrite E. simpl. rewrite set_eq_refl. eauto.
  Qed.

  (* however the loop ends, a further pass over the world it leaves is quiet and reports the returned set *)
  Lemma ext_loop_exit_quiet : forall k w prev it w' u it',
    ext_loop W pass k w prev it = Some (w', u, it') -> pass w' = (w', (false, u, false)).
  Proof.
    induction k; intros w prev it w' u it' H; simpl in H. discriminate.
    destruct (pass w) as [w1 [[rs u1] g]] eqn:E.
    destruct u1 as [|u0 us].
    - inversion H; subst. pose proof (growth_reported _ _ _ _ E). subst g. eapply settled_stays; eauto.
    - destruct (negb (rs || g) && set_eq (u0 :: us) prev) eqn:Es.
      + inversion H; subst. apply andb_true_iff in Es. destruct Es as [Ep _]. apply negb_true_iff in Ep.
        apply orb_false_iff in Ep. destruct Ep; subst. pose proof (quiet_unchanged _ _ _ E). subst. auto.
      + eauto.
  Qed.

  Theorem ext_loop_fixpoint : forall w,
    exists w' u it,
      ext_loop W pass (mu w + 2) w [] 0 = Some (w', u, it) /\ it <= mu w + 2 /\
      pass w' = (w', (false, u, false)) /\
      exists it', ext_loop W pass (mu w' + 2) w' [] 0 = Some (w', u, it') /\ it' <= 2.
  Proof.
    intros w. destruct (ext_loop_terminates (mu w + 2) w [] 0 (le_n _)) as [[[w' u] it] E].
    exists w', u, it. split; auto.
    assert (Hit : forall k w0 prev i0 w1 u1 i1, ext_loop W pass k w0 prev i0 = Some (w1, u1, i1) -> i1 <= i0 + k).
    { induction k; intros w0 prev i0 w1 u1 i1 H; simpl in H. discriminate.
      destruct (pass w0) as [w2 [[rs u2] g]]. destruct u2 as [|a b].
      - inversion H; subst. lia.
      - destruct (negb (rs || g) && set_eq (a :: b) prev). inversion H; subst; lia.
        apply IHk in H. lia. }
    split. apply Hit in E. lia.
    pose proof (ext_loop_exit_quiet _ _ _ _ _ _ _ E) as Q. split; auto.
    replace (mu w' + 2) with (S (S (mu w'))) by lia. simpl. rewrite Q.
    destruct u as [|u0 us]. exists 1. auto.
    simpl. rewrite Q. rewrite set_eq_refl. simpl. exists 2. auto.
  Qed.
End ExtLoopSpec.

(* non-vacuity: a world with [a] aliases to link and [b] packages to load; a pass loads one package as long as there is
   one (reporting an unresolved alias), then links one alias per pass *)
Definition toy_pass (w : nat * nat) : (nat * nat) * (bool * list string * bool) :=
  match w with
  | (a, S b) => ((a, b), (false, ["x"], true))
  | (S (S a), 0) => ((S a, 0), (true, ["x"], false))
  | (S 0, 0) => ((0, 0), (true, [], false))
  | (0, 0) => ((0, 0), (false, [], false))
  end.

Example toy_loop_side_loads :
  ext_loop _ toy_pass 7 (2, 3) [] 0 = Some ((0, 0), [], 5) /\
  ext_loop _ toy_pass 2 (0, 0) [] 0 = Some ((0, 0), [], 1).
Proof. vm_compute. auto. Qed.

Lemma toy_fixpoint : forall w,
  exists w' u it,
    ext_loop _ toy_pass (fst w + snd w + 2) w [] 0 = Some (w', u, it) /\ it <= fst w + snd w + 2 /\
    toy_pass w' = (w', (false, u, false)) /\
    exists it', ext_loop _ toy_pass (fst w' + snd w' + 2) w' [] 0 = Some (w', u, it') /\ it' <= 2.
Proof.
  apply (ext_loop_fixpoint (nat * nat) toy_pass (fun w => fst w + snd w)).
  - intros [a b] w' rs u g E P. destruct a as [|[|a]]; destruct b; simpl in E; inversion E; subst; simpl in *; try discriminate; lia.
  - intros [a b] w' u E. destruct a as [|[|a]]; destruct b; simpl in E; inversion E; subst; auto.
  - intros [a b] w' rs g E. destruct a as [|[|a]]; destruct b; simpl in E; inversion E; subst; auto.
  - intros [a b] w' rs E. destruct a as [|[|a]]; destruct b; simpl in E; inversion E; subst; auto.
Qed.

(* ------------------------------------------------------------------------------------------------------------ *)
(* resolve_aliases(implicit=False): raising the skip bit on any set of aliases keeps every hypothesis              *)
(* ------------------------------------------------------------------------------------------------------------ *)
Definition wild_rel (n n' : node) : Prop :=
  match n, n' with
  | NObj p c ms, NObj p' c' ms' => p = p' /\ c = c' /\ ms = ms'
  | NAlias p tp t pa _, NAlias p' tp' t' pa' _ => p = p' /\ tp = tp' /\ t = t' /\ pa = pa'
  | _, _ => False
  end.
Definition Wk (h h' : heap) : Prop := Forall2 wild_rel h h'.

Lemma wild_rel_skip : forall n, wild_rel n (skip_node n).
Proof. destruct n; simpl; auto. Qed.
Lemma wild_rel_refl : forall n, wild_rel n n.
Proof. destruct n; simpl; auto. Qed.

Lemma mark_Wk : forall ids h, Wk h (mark_skip ids h).
Proof.
  intros ids h. unfold mark_skip. generalize 0. induction h; intros k; simpl; constructor.
  - destruct (mem_nat k ids); [apply wild_rel_skip | apply wild_rel_refl].
  - apply IHh.
Qed.

Lemma Wk_length : forall h h', Wk h h' -> List.length h' = List.length h.
Proof. induction 1; simpl; auto. Qed.

Lemma Wk_nth : forall h h', Wk h h' -> forall i,
  match nth_error h i, nth_error h' i with
  | Some n, Some n' => wild_rel n n'
  | None, None => True
  | _, _ => False
  end.
Proof. induction 1; intros i; destruct i; simpl; auto. apply IHForall2. Qed.

Lemma forallb_Wk : forall (f f' : node -> bool) h h', Wk h h' ->
  (forall n n', wild_rel n n' -> f' n' = f n) -> forallb f' h' = forallb f h.
Proof. induction 1; intros E; simpl; auto. rewrite (E _ _ H), IHForall2; auto. Qed.

Lemma Wk_static_from : forall h h', Wk h h' -> forall parts i, static_from h' i parts = static_from h i parts.
Proof.
  intros h h' HW. induction parts as [|name rest]; intros i; simpl; auto.
  pose proof (Wk_nth _ _ HW i) as X.
  destruct (nth_error h i) as [[p c ms| p tp t pa w]|], (nth_error h' i) as [[p' c' ms'| p' tp' t' pa' w']|]; simpl in X; try tauto.
  destruct X as (?&?&?). subst. destruct (lookup name ms'); auto.
Qed.

Lemma Wk_static_get : forall coll h h' parts, Wk h h' -> static_get coll h' parts = static_get coll h parts.
Proof. intros. destruct parts; simpl; auto. destruct (lookup s coll); auto. apply Wk_static_from; auto. Qed.

Lemma Wk_chain_end : forall h h', Wk h h' -> forall l r seen, chain_end l h' r seen = chain_end l h r seen.
Proof.
  intros h h' HW. induction l; intros r seen; simpl; auto. destruct r as [i | vp i].
  - pose proof (Wk_nth _ _ HW i) as X.
    destruct (nth_error h i) as [[p c ms| p tp t pa w]|], (nth_error h' i) as [[p' c' ms'| p' tp' t' pa' w']|]; simpl in X; try tauto.
    destruct X as (?&?&?&?). subst. destruct t'; auto. destruct (mem_str p' seen); auto.
  - destruct (mem_str vp seen); auto.
Qed.

Lemma Wk_count : forall h h', Wk h h' -> count_aliases h' = count_aliases h.
Proof.
  unfold count_aliases. induction 1; simpl; auto.
  assert (is_alias_node y = is_alias_node x) by (destruct x, y; simpl in *; tauto).
  rewrite H1. destruct (is_alias_node x); simpl; auto.
Qed.

Lemma Wk_alias_paths : forall h h', Wk h h' -> alias_paths h' = alias_paths h.
Proof.
  unfold alias_paths. induction 1; simpl; auto.
  destruct x, y; simpl in *; try tauto. destruct H as (?&?&?&?). subst. f_equal. auto.
Qed.

Theorem skip_preserves : forall coll ids h,
  let hs := mark_skip ids h in
  wf coll hs = wf coll h /\ direct coll hs = direct coll h /\ chains_complete hs = chains_complete h /\
  unique_paths hs = unique_paths h /\ targets_complete hs = targets_complete h /\ no_passed hs = no_passed h.
Proof.
  intros coll ids h hs. pose proof (mark_Wk ids h) as HW. fold hs in HW.
  assert (FL : fuelL hs = fuelL h) by (unfold fuelL; rewrite (Wk_count _ _ HW); auto).
  repeat split.
  - unfold wf. f_equal.
    + apply (forallb_Wk _ _ _ _ HW). intros n n' Hr.
      destruct n, n'; simpl in *; try tauto; rewrite ?(Wk_length _ _ HW).
      destruct Hr as (?&?&?). subst. auto.
      destruct Hr as (?&?&?&?). subst. destruct target0 as [[|]|]; simpl; rewrite ?(Wk_length _ _ HW); auto.
    + unfold coll_ok. apply forallb_ext_in. intros kv. pose proof (Wk_nth _ _ HW (snd kv)) as X.
      destruct (nth_error h (snd kv)) as [[| ]|], (nth_error hs (snd kv)) as [[| ]|]; simpl in X; tauto.
  - unfold direct. apply (forallb_Wk _ _ _ _ HW). intros n n' Hr.
    destruct n, n'; simpl in *; try tauto. destruct Hr as (?&?&?&?). subst. rewrite (Wk_static_get coll _ _ _ HW). auto.
  - unfold chains_complete, chains_complete_L. rewrite FL. apply (forallb_Wk _ _ _ _ HW). intros n n' Hr.
    destruct n, n'; simpl in *; try tauto. destruct Hr as (?&?&?&?). subst. destruct target0; auto.
    rewrite (Wk_chain_end _ _ HW). auto.
  - unfold unique_paths. rewrite (Wk_alias_paths _ _ HW). auto.
  - unfold targets_complete. rewrite FL. apply (forallb_Wk _ _ _ _ HW). intros n n' Hr.
    destruct n, n'; simpl in *; try tauto. destruct Hr as (?&?&?&?). subst. destruct target0; auto.
    rewrite (Wk_chain_end _ _ HW). auto.
  - unfold no_passed. apply (forallb_Wk _ _ _ _ HW). intros n n' Hr.
    destruct n, n'; simpl in *; try tauto. destruct Hr as (?&?&?&?). subst. auto.
Qed.

(* the fixpoint theorem with any set of aliases skipped (implicit=False: the ones that are not exported) *)
Theorem fixpoint_with_skip : forall coll ids h,
  wf coll h = true -> direct coll h = true -> chains_complete h = true -> unique_paths h = true ->
  let hs := mark_skip ids h in
  let h' := fst (resolve_aliases coll hs) in
  exists u it,
    resolve_aliases coll hs = (h', Ok (u, it)) /\
    one_pass coll h' = (h', Ok (u, [])) /\
    exists it', resolve_aliases coll h' = (h', Ok (u, it')) /\ it' <= 2.
Proof.
  intros coll ids h Hw Hd Hc Hu hs.
  destruct (skip_preserves coll ids h) as (A & B & C & D & _). fold hs in A, B, C, D.
  apply resolve_aliases_fixpoint; congruence.
Qed.

(* non-vacuity: skipping p.x (node 1) leaves it unresolved although it resolves; nothing else changes *)
Example skip_nonvacuous :
  link_of (fst (resolve_aliases w_plain_coll (mark_skip [1] w_plain_heap))) 1 = None /\
  link_of (fst (resolve_aliases w_plain_coll w_plain_heap)) 1 = Some (RReal 3) /\
  snd (resolve_aliases w_plain_coll (mark_skip [1] w_plain_heap)) = Ok (["p.z"], 2).
Proof. vm_compute. auto. Qed.
