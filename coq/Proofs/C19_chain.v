(* C19 proofs, third part: chains of aliases to loaded objects (alias -> alias -> ... -> object). *)
From Coq Require Import List ZArith String Bool Arith Lia.
From Verif Require Import Lib.Sexp Model.C19_merge Proofs.C19_merge.
Import ListNotations.
Open Scope string_scope. Open Scope list_scope. Open Scope nat_scope.

(* the aliases a member goes through before reaching its final target: (target path, runtime flag) *)
Fixpoint alias_chain (t : tree) : list (string * bool) :=
  match t with AlTo tg rt x => (tg, rt) :: alias_chain x | _ => [] end.

Lemma final_final : forall t, final (final t) = final t.
Proof. induction t; simpl; auto. Qed.

Lemma retarget_obj : forall d ms x, retarget (Obj d ms) x = x.
Proof. reflexivity. Qed.

Lemma alias_chain_retarget : forall om x, alias_chain (retarget om x) = alias_chain om ++ alias_chain x.
Proof. induction om as [d ms|tg rt|tg rt y IH]; simpl; intros; auto. now rewrite IH. Qed.

Lemma final_retarget : forall om x, final (retarget om x) = final x.
Proof. induction om as [d ms|tg rt|tg rt y IH]; simpl; intros; auto. Qed.

(* merging under a name goes through the whole chain: the final target gets the merge a directly defined object gets *)
Lemma member_result_through_chain : forall rec sm om,
  member_result rec sm om = retarget om (member_result rec sm (final om)).
Proof.
  intros rec sm om. unfold member_result.
  destruct sm as [smd smms|tg rt|tg rt y]; try (now rewrite retarget_final).
  rewrite final_final.
  destruct (final om) as [omd omms|tg rt|tg rt y] eqn:F; try (now rewrite <- F, retarget_final).
  destruct (kind_eqb (nkind omd) (nkind smd)).
  - destruct (nkind omd); rewrite ?retarget_obj; reflexivity.
  - now rewrite <- F, retarget_final.
Qed.

Theorem alias_chain_row : forall sd sms od oms r n om sm omd omms,
  merge_obj (Obj sd sms) (Obj od oms) = Done r -> NoDup (names sms) -> NoDup (names (buf_of sd)) ->
  lookup n oms = Some om -> lookup n sms = Some sm -> hit1 (buf_of sd) n = None ->
  final om = Obj omd omms ->
  let x := member_result merge_obj sm (Obj omd omms) in
  lookup n (members r) = Some (retarget om x) /\
  alias_chain (retarget om x) = alias_chain om ++ alias_chain x /\
  final (retarget om x) = final x.
Proof.
  intros sd sms od oms r n om sm omd omms M ND NB LO LS NH F x.
  split; [|split; [apply alias_chain_retarget|apply final_retarget]].
  rewrite (both_row _ _ _ _ _ M ND NB n om sm LO LS).
  rewrite buffered_none by auto. rewrite member_result_through_chain, F. reflexivity.
Qed.

(* a chain of two aliases to a loaded function: both links stay, the function at the end takes the stub's types *)
Example alias_chain_example :
  let f := Obj (with_params (nd KFun) [("x", None)]) [] in
  let o := Obj (scope KMod []) [("f", AlTo "pkg.user.f" true (AlTo "pkg.m.f" true f))] in
  let s := Obj (scope KMod []) [("f", Obj (with_ret (with_params (nd KFun) [("x", Some "int")]) (Some "int")) [])] in
  exists r, merge_obj s o = Done r /\
    at_path ["f"] r = Some (AlTo "pkg.user.f" true (AlTo "pkg.m.f" true
                              (Obj (with_ret (with_params (nd KFun) [("x", Some "int")]) (Some "int")) []))).
Proof. eexists; split; vm_compute; reflexivity. Qed.
